(* C08 layer 2 (part 5) — AnamEmpirical and MeshETurbo round trips *)
From Coq Require Import Ascii String.
From Coq Require Import List ZArith QArith Bool Lia.
From Gst Require Import C08.Codec C08.Proofs_codec C08.Model C08.Proofs_basic C08.Model_more.
Import ListNotations.
Local Open Scope string_scope.
Local Open Scope list_scope.
Local Open Scope Z_scope.

Definition wf_acont (o : acont) : Prop :=
  wf_dbl (ac_azmin o) /\ wf_dbl (ac_azmax o) /\ wf_dbl (ac_aymin o) /\ wf_dbl (ac_aymax o) /\
  wf_dbl (ac_pzmin o) /\ wf_dbl (ac_pzmax o) /\ wf_dbl (ac_pymin o) /\ wf_dbl (ac_pymax o) /\
  wf_dbl (ac_mean o) /\ wf_dbl (ac_variance o).
Lemma AnamContinuous_reads o : wf_acont o -> reads deser_AnamContinuous (ser_AnamContinuous o) o.
Proof.
  destruct o. unfold wf_acont. simpl. intros (H1 & H2 & H3 & H4 & H5 & H6 & H7 & H8 & H9 & H10).
  unfold deser_AnamContinuous, ser_AnamContinuous. simpl. rd. reflexivity.
Qed.

(* any number (at least one) of discretisation points; the two flags that are never written have their default value *)
Definition wf_AnamEmpirical (tail : bool) (o : anam_empirical) : Prop :=
  wf_acont (ae_cont o) /\ wf_dbl (ae_sigma2e o) /\ ae_z o <> [] /\ length (ae_y o) = length (ae_z o) /\
  Forall wf_dbl (ae_z o) /\ Forall wf_dbl (ae_y o) /\ (tail = false -> ae_dilution o = false /\ ae_gaussian o = true).
Lemma AnamEmpirical_reads tail o : wf_AnamEmpirical tail o -> reads (deser_AnamEmpirical tail) (ser_AnamEmpirical tail o) o.
Proof.
  destruct o as [c s2 z y dil gau]. unfold wf_AnamEmpirical. cbn [ae_cont ae_sigma2e ae_z ae_y ae_dilution ae_gaussian].
  intros (Hc & Hs & Hne & Hlen & Hz & Hy & Hfl).
  unfold deser_AnamEmpirical, ser_AnamEmpirical. cbn [ae_cont ae_sigma2e ae_z ae_y ae_dilution ae_gaussian].
  eapply reads_bind; [apply AnamContinuous_reads; auto|]. rewrite <- !app_comm_cons, app_nil_l. rd.
  rewrite <- Hlen, firstn_all.
  eapply reads_bind_cons; [apply reads_vdbl; auto|].
  assert (Hyne : y <> []) by (destruct y, z; simpl in *; congruence).
  unfold lenZ. rewrite <- Hlen.
  eapply reads_bind_cons; [apply reads_vdbl; auto|].
  destruct tail.
  - rewrite <- (app_nil_r [_; _]). eapply reads_bind with (a := (dil, gau)).
    + apply reads_not_eod; [reflexivity|]. rd. rewrite !b2z_z2b. reflexivity.
    + apply reads_ret.
  - destruct (Hfl eq_refl) as [-> ->]. rd. reflexivity.
Qed.
Lemma good_AnamEmpirical tail o : forallb good_rec (ser_AnamEmpirical tail o) = true.
Proof. unfold ser_AnamEmpirical, ser_AnamContinuous. good. Qed.

(* MeshETurbo: any dimension >= 1, with or without masks *)
Definition wf_MeshETurbo (o : mesh_turbo) : Prop :=
  mt_nx o <> [] /\ length (mt_dx o) = length (mt_nx o) /\ length (mt_x0 o) = length (mt_nx o) /\
  lenZ (mt_rotmat o) = lenZ (mt_nx o) * lenZ (mt_nx o) /\
  Forall wf_dbl (mt_dx o) /\ Forall wf_dbl (mt_x0 o) /\ Forall wf_dbl (mt_rotmat o).
Lemma lenZ_pos {A} (l : list A) : l <> [] -> 0 < lenZ l.
Proof. destruct l; [congruence|]. intros _. unfold lenZ. simpl. lia. Qed.
Lemma MeshETurbo_reads o : wf_MeshETurbo o -> reads deser_MeshETurbo (ser_MeshETurbo o) o.
Proof.
  destruct o as [nx dx x0 rot pol mode mm gm]. unfold wf_MeshETurbo.
  cbn [mt_nx mt_dx mt_x0 mt_rotmat mt_polar mt_mode mt_mesh_mask mt_grid_mask].
  intros (Hne & Hdx & Hx0 & Hrot & Wdx & Wx0 & Wrot).
  assert (Hdne : dx <> []) by (destruct dx, nx; simpl in *; congruence).
  assert (Hxne : x0 <> []) by (destruct x0, nx; simpl in *; congruence).
  assert (Hrne : rot <> []).
  { intro E. subst rot. pose proof (lenZ_pos nx Hne). unfold lenZ in Hrot at 1. simpl in Hrot. nia. }
  unfold deser_MeshETurbo, ser_MeshETurbo, n_meshes, n_apices.
  cbn [mt_nx mt_dx mt_x0 mt_rotmat mt_polar mt_mode mt_mesh_mask mt_grid_mask].
  rewrite <- !app_comm_cons, app_nil_l. rd.
  eapply reads_bind_cons; [apply reads_vint; auto|].
  eapply reads_bind_cons; [unfold lenZ; rewrite <- Hdx; apply reads_vdbl; auto|].
  eapply reads_bind_cons; [unfold lenZ; rewrite <- Hx0; apply reads_vdbl; auto|].
  eapply reads_bind_cons; [rewrite <- Hrot; apply reads_vdbl; auto|].
  rd. rewrite b2z_z2b.
  destruct mm as [|m mm].
  - cbn [null app lenZ length Z.of_nat Z.ltb Z.compare]. rd.
    destruct gm as [|g gm].
    + cbn [null app lenZ length Z.of_nat Z.ltb Z.compare]. rd. reflexivity.
    + cbn [null app].
      assert (E : (0 <? lenZ (g :: gm)) = true) by (apply Z.ltb_lt; apply lenZ_pos; congruence).
      rd. rewrite E. eapply reads_bind_cons; [apply reads_vint; congruence|]. apply reads_ret_eq. reflexivity.
  - cbn [null app].
    assert (E : (0 <? lenZ (m :: mm)) = true) by (apply Z.ltb_lt; apply lenZ_pos; congruence).
    rd. rewrite E. eapply reads_bind_cons; [apply reads_vint; congruence|].
    destruct gm as [|g gm].
    + cbn [null app lenZ length Z.of_nat]. rd. cbn [Z.ltb Z.compare]. rd. reflexivity.
    + cbn [null app].
      assert (E' : (0 <? lenZ (g :: gm)) = true) by (apply Z.ltb_lt; apply lenZ_pos; congruence).
      rd. rewrite E'. eapply reads_bind_cons; [apply reads_vint; congruence|]. apply reads_ret_eq. reflexivity.
Qed.
Lemma good_MeshETurbo o : forallb good_rec (ser_MeshETurbo o) = true.
Proof. unfold ser_MeshETurbo. good. Qed.

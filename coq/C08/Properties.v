(* C08 — property theorems only. Each is closed by [exact] of a lemma of the Proofs_* files. *)
From Coq Require Import Ascii String.
From Coq Require Import List ZArith QArith Bool.
From Gst Require Import C08.Codec C08.Model C08.Model_db C08.Model_vario C08.Model_model C08.Model_more C08.Model_rest C08.Model_rule.
From Gst Require Import C08.Proofs_codec C08.Proofs_basic C08.Proofs_db C08.Proofs_vario C08.Proofs_model C08.Proofs_more C08.Proofs_rest C08.Proofs_rule C08.Proofs_formats.
Import ListNotations.
Local Open Scope string_scope.
Local Open Scope list_scope.
Local Open Scope Z_scope.

(* ======================================================================= layer 1: the codec *)

(* A printed list of records (titles with blanks, comments, empty vectors, NA, untitled values sharing a line ...)
   lexes to exactly the expected lines of data words: nothing of a title or comment leaks into the data, no value is
   lost or merged.  Unbounded in the number and size of the records. *)
Theorem C08_lex_print : forall rs, forallb good_rec rs = true -> lex (print rs) = layout rs [[]].
Proof. exact lex_print. Qed.
Print Assumptions C08_lex_print.

(* The lexical view is faithful to the two C++ primitives: the raw readers (a word starting with '#' drops the rest
   of its line / blank and '#' lines are skipped, the data line is cut at the first '#' word) give the same word /
   line and leave the same state as the readers used by the models on the comment-free view [lex]. *)
Theorem C08_readers_see_lex : forall cs,
  (fst (rword (lex cs)) = fst (rword_raw (raw_lex cs)) /\ snd (rword (lex cs)) = cut (snd (rword_raw (raw_lex cs)))) /\
  (fst (rline (lex cs)) = fst (rline_raw (raw_lex cs)) /\ snd (rline (lex cs)) = cut (snd (rline_raw (raw_lex cs)))).
Proof. intros cs. rewrite lex_cut. split; [apply rword_raw_cut | apply rline_raw_cut]. Qed.
Print Assumptions C08_readers_see_lex.
Theorem C08_readers_see_lex_step : forall s,
  (fst (rword (cut s)) = fst (rword_raw s) /\ snd (rword (cut s)) = cut (snd (rword_raw s))) /\
  (fst (rline (cut s)) = fst (rline_raw s) /\ snd (rline (cut s)) = cut (snd (rline_raw s))).
Proof. intros s. split; [apply rword_raw_cut | apply rline_raw_cut]. Qed.

(* number tokens print and parse to themselves (integers incl. the NA code, rationals, NA) *)
Theorem C08_int_token : forall z, parse_int (print_int z) = Some z /\ good_word (print_int z) = true.
Proof. intros z. split; [apply parse_print_int | apply print_int_good]. Qed.
Print Assumptions C08_int_token.
Theorem C08_dbl_token : forall d, wf_dbl d -> parse_dbl (print_dbl d) = Some d /\ good_word (print_dbl d) = true.
Proof. intros d H. split; [apply parse_print_dbl; exact H | apply print_dbl_good]. Qed.
Print Assumptions C08_dbl_token.

(* reader calculus: a reader that consumes the records rs and a continuation that consumes rs' consume rs ++ rs' *)
Theorem C08_reads_compose : forall A B (r : reader A) (f : A -> reader B) rs1 rs2 a b,
  reads r rs1 a -> reads (f a) rs2 b -> reads (bind r f) (rs1 ++ rs2) b.
Proof. exact @reads_bind. Qed.
Print Assumptions C08_reads_compose.

(* generic: a body reader that consumes the printed body gives back the object from the whole printed file *)
Theorem C08_file_roundtrip : forall A name (body : reader A) rs a,
  reads body rs a -> good_word (W name) = true -> forallb good_rec rs = true ->
  nf_read name body (lex (print (nf_write name rs))) = Some a.
Proof. exact @nf_roundtrip. Qed.
Print Assumptions C08_file_roundtrip.

(* regression (fix C08_12): an empty vector record followed by more data is read back as the empty vector (the line
   reader used to take the next data line) *)
Theorem C08_empty_vector_cured :
  nf_read "T" (v <- rd_vdbl 0 ;; x <- rd_int ;; ret (v, x)) (lex (print (nf_write "T" [r_vdbl "V" []; r_int "n" 7]))) = Some ([], 7).
Proof. exact empty_vector_read_back. Qed.
Theorem C08_empty_vector_reads : forall A (p : word -> option A) t, reads (rd_vec p 0) [RVec t []] [].
Proof. exact @reads_vec_nil. Qed.

(* ======================================================================= layer 2: classes *)
(* reload name ser deser o = nf_read name deser (lex (print (nf_write name (ser o)))) ; file = print (nf_write ...) *)

(* Formats.  The theorems below are about the files that the library writes and reads now.  Several classes append
   records at the end of their file (options of a neighbourhood, flags of an anamorphosis, means of a model with drift,
   number of components of a shift) or have a higher format level (Vario); their reader probes the end of the data, so
   that a file of a previous version - which stops before these records - is still read, with the default values
   (theorems ..._previous_format_read).  The round trips are also proved for the previous formats (coq/C08/Proofs_formats.v). *)

(* ---- NeighUnique: every object (the options are stored) *)
Theorem C08_NeighUnique_roundtrip : forall a, wf_aneighD true a ->
  reload "NeighUnique" (ser_NeighUniqueD true) (deser_NeighUniqueD true) a = Some a.
Proof. exact (NeighUnique_roundtrip_fmt true). Qed.
Print Assumptions C08_NeighUnique_roundtrip.
Theorem C08_NeighUnique_rewrite : forall a a', wf_aneighD true a ->
  reload "NeighUnique" (ser_NeighUniqueD true) (deser_NeighUniqueD true) a = Some a' ->
  file "NeighUnique" (ser_NeighUniqueD true) a' = file "NeighUnique" (ser_NeighUniqueD true) a.
Proof. exact (NeighUnique_rewrite_fmt true). Qed.
(* regression witness of the former defect (the cross-validation flag came back false) *)
Definition nu_xvalid : aneigh := {| an_ndim := 2; an_xvalid := true; an_kfold := false; an_ball := true; an_leaf := 30 |}.
Theorem C08_NeighUnique_every_object : forall a, reload "NeighUnique" (ser_NeighUniqueD true) (deser_NeighUniqueD true) a = Some a.
Proof. intros a. apply C08_NeighUnique_roundtrip. intro H; discriminate H. Qed.
Theorem C08_NeighUnique_previous_format_read :
  nf_read "NeighUnique" (deser_NeighUniqueD true) (lex (file "NeighUnique" (ser_NeighUniqueD false) nu_xvalid)) = Some (aneigh_default 2).
Proof. vm_compute. reflexivity. Qed.
Theorem C08_NeighUnique_options_cured :
  reload "NeighUnique" (ser_NeighUniqueD true) (deser_NeighUniqueD true) nu_xvalid = Some nu_xvalid.
Proof. vm_compute. reflexivity. Qed.

(* ---- NeighBench *)
Theorem C08_NeighBench_roundtrip : forall o, wf_NeighBench true o ->
  reload "NeighBench" (ser_NeighBenchD true) (deser_NeighBenchD true) o = Some o.
Proof. exact (NeighBench_roundtrip_fmt true). Qed.
Print Assumptions C08_NeighBench_roundtrip.
Theorem C08_NeighBench_rewrite : forall o o', wf_NeighBench true o ->
  reload "NeighBench" (ser_NeighBenchD true) (deser_NeighBenchD true) o = Some o' ->
  file "NeighBench" (ser_NeighBenchD true) o' = file "NeighBench" (ser_NeighBenchD true) o.
Proof. exact (NeighBench_rewrite_fmt true). Qed.
(* regression: NeighBench::create(false, 2.5) keeps getWidth() = 2.5 (it came back as 0 before the fix) *)
Theorem C08_NeighBench_width_kept :
  let o := {| nb_base := aneigh_default 2; nb_width := Some (5#2)%Q; nb_bipt_width := Some (5#2)%Q |} in
  reload "NeighBench" (ser_NeighBenchD true) (deser_NeighBenchD true) o = Some o.
Proof. vm_compute. reflexivity. Qed.

(* ---- NeighCell *)
Theorem C08_NeighCell_roundtrip : forall o, wf_NeighCell true o ->
  reload "NeighCell" (ser_NeighCellD true) (deser_NeighCellD true) o = Some o.
Proof. exact (NeighCell_roundtrip_fmt true). Qed.
Print Assumptions C08_NeighCell_roundtrip.
Theorem C08_NeighCell_rewrite : forall o o', wf_NeighCell true o ->
  reload "NeighCell" (ser_NeighCellD true) (deser_NeighCellD true) o = Some o' ->
  file "NeighCell" (ser_NeighCellD true) o' = file "NeighCell" (ser_NeighCellD true) o.
Proof. exact (NeighCell_rewrite_fmt true). Qed.

(* ---- NeighMoving: isotropic, anisotropic and rotated search ellipsoids, any radius *)
Theorem C08_NeighMoving_roundtrip : forall o, wf_NeighMoving true o ->
  reload "NeighMoving" (ser_NeighMovingD true) (deser_NeighMovingD true) o = Some o.
Proof. exact (NeighMoving_roundtrip_fmt true). Qed.
Print Assumptions C08_NeighMoving_roundtrip.
Theorem C08_NeighMoving_rewrite : forall o o', wf_NeighMoving true o ->
  reload "NeighMoving" (ser_NeighMovingD true) (deser_NeighMovingD true) o = Some o' ->
  file "NeighMoving" (ser_NeighMovingD true) o' = file "NeighMoving" (ser_NeighMovingD true) o.
Proof. exact (NeighMoving_rewrite_fmt true). Qed.
(* regression witnesses of the former defects: radius 20, coefficients (1, 0.5) (came back as (20, 10)); rotated
   ellipse create(false,10,20.,1,1,0,{1,.5},{30,0}) (the rotation flag came back false) *)
Theorem C08_NeighMoving_scaling_cured :
  reload "NeighMoving" (ser_NeighMovingD true) (deser_NeighMovingD true) nm_witness_scaling = Some nm_witness_scaling.
Proof. vm_compute; reflexivity. Qed.
Theorem C08_NeighMoving_rotation_cured :
  reload "NeighMoving" (ser_NeighMovingD true) (deser_NeighMovingD true) nm_witness_rotation = Some nm_witness_rotation.
Proof. vm_compute; reflexivity. Qed.
(* _distCont: regression witness (it came back undefined); a file of the previous format gives it undefined *)
Definition nm_distcont_witness : neigh_moving :=
  {| nm_base := aneigh_default 2; nm_nmini := 1; nm_nmaxi := 10; nm_nsect := 1; nm_nsmax := 0; nm_distcont := Some (1#8)%Q;
     nm_radius := Some 20%Q; nm_aniso := false; nm_rot := false; nm_coeffs := [d1; d1]; nm_rotmat := idmat 2 |}.
Theorem C08_NeighMoving_previous_format_read :
  option_map nm_distcont (nf_read "NeighMoving" (deser_NeighMovingD true) (lex (file "NeighMoving" (ser_NeighMovingD false) nm_distcont_witness))) = Some None.
Proof. vm_compute. reflexivity. Qed.
Theorem C08_NeighMoving_distcont_cured :
  reload "NeighMoving" (ser_NeighMovingD true) (deser_NeighMovingD true) nm_distcont_witness = Some nm_distcont_witness.
Proof. vm_compute. reflexivity. Qed.

(* ---- Table: any number of rows and columns *)
Theorem C08_Table_roundtrip : forall o, wf_Table o -> reload "Table" ser_Table deser_Table o = Some o.
Proof. intros o H. apply roundtrip_of_reads; [reflexivity | apply good_Table | apply Table_reads; exact H]. Qed.
Print Assumptions C08_Table_roundtrip.
Theorem C08_Table_rewrite : forall o o', wf_Table o ->
  reload "Table" ser_Table deser_Table o = Some o' -> file "Table" ser_Table o' = file "Table" ser_Table o.
Proof. intros o o' H. apply rewrite_of_roundtrip. apply C08_Table_roundtrip; exact H. Qed.

(* ---- PolyLine2D, PolyElem, Polygons: any number of vertices / elements *)
Theorem C08_PolyLine2D_roundtrip : forall pts, Forall wf_pt pts ->
  reload "PolyLine2D" ser_PolyLine2D deser_PolyLine2D pts = Some pts.
Proof. intros o H. apply roundtrip_of_reads; [reflexivity | apply good_PolyLine2D | apply PolyLine2D_reads; exact H]. Qed.
Print Assumptions C08_PolyLine2D_roundtrip.
Theorem C08_PolyElem_roundtrip : forall o, wf_PolyElem o -> reload "PolyElem" ser_PolyElem deser_PolyElem o = Some o.
Proof. intros o H. apply roundtrip_of_reads; [reflexivity | apply good_PolyElem | apply PolyElem_reads; exact H]. Qed.
Print Assumptions C08_PolyElem_roundtrip.
Theorem C08_PolyLine2D_rewrite : forall o o', Forall wf_pt o ->
  reload "PolyLine2D" ser_PolyLine2D deser_PolyLine2D o = Some o' -> file "PolyLine2D" ser_PolyLine2D o' = file "PolyLine2D" ser_PolyLine2D o.
Proof. intros o o' H. apply rewrite_of_roundtrip. apply C08_PolyLine2D_roundtrip; exact H. Qed.
Theorem C08_PolyElem_rewrite : forall o o', wf_PolyElem o ->
  reload "PolyElem" ser_PolyElem deser_PolyElem o = Some o' -> file "PolyElem" ser_PolyElem o' = file "PolyElem" ser_PolyElem o.
Proof. intros o o' H. apply rewrite_of_roundtrip. apply C08_PolyElem_roundtrip; exact H. Qed.
Theorem C08_Polygons_roundtrip : forall pes, wf_Polygons pes -> reload "Polygon" ser_Polygons deser_Polygons pes = Some pes.
Proof. intros o H. apply roundtrip_of_reads; [reflexivity | apply good_Polygons | apply Polygons_reads; exact H]. Qed.
Print Assumptions C08_Polygons_roundtrip.
Theorem C08_Polygons_rewrite : forall o o', wf_Polygons o ->
  reload "Polygon" ser_Polygons deser_Polygons o = Some o' -> file "Polygon" ser_Polygons o' = file "Polygon" ser_Polygons o.
Proof. intros o o' H. apply rewrite_of_roundtrip. apply C08_Polygons_roundtrip; exact H. Qed.

(* ---- AnamHermite: any number of coefficients (at least one), point or block support.
   The reader keeps the mean and the variance of the file when they are defined; _flagBound is stored at the end of the file. *)
Theorem C08_AnamHermite_block_cured :
  reload "AnamHermite" (ser_AnamHermiteD true) (deser_AnamHermiteD true true) {| ahd_core := ah_witness; ahd_bound := true |}
  = Some {| ahd_core := ah_witness; ahd_bound := true |}.
Proof. vm_compute; reflexivity. Qed.
Theorem C08_AnamHermite_roundtrip : forall o, wf_AnamHermiteD true true o ->
  reload "AnamHermite" (ser_AnamHermiteD true) (deser_AnamHermiteD true true) o = Some o.
Proof. exact (AnamHermite_roundtrip_fmt true true). Qed.
Print Assumptions C08_AnamHermite_roundtrip.
Theorem C08_AnamHermite_rewrite : forall o o', wf_AnamHermiteD true true o ->
  reload "AnamHermite" (ser_AnamHermiteD true) (deser_AnamHermiteD true true) o = Some o' ->
  file "AnamHermite" (ser_AnamHermiteD true) o' = file "AnamHermite" (ser_AnamHermiteD true) o.
Proof. exact (AnamHermite_rewrite_fmt true true). Qed.
(* regression witness: a variance that is not exactly the one of the (rounded) coefficients is kept (it was recomputed);
   _flagBound = false is kept (it came back true); a file of the previous format gives _flagBound = true *)
Definition ah_variance_witness : anam_hermiteD :=
  {| ahd_bound := false;
     ahd_core := {| ah_azmin := None; ah_azmax := None; ah_aymin := None; ah_aymax := None; ah_pzmin := None; ah_pzmax := None;
                    ah_pymin := None; ah_pymax := None; ah_mean := Some 1%Q; ah_variance := Some (200000000000001 # 100000000000000)%Q;
                    ah_rcoef := Some 1%Q; ah_psi := [Some 1%Q; Some 1%Q; Some 1%Q] |} |}.
Theorem C08_AnamHermite_previous_format_read :
  option_map (fun o => (ah_variance (ahd_core o), ahd_bound o))
             (nf_read "AnamHermite" (deser_AnamHermiteD true true) (lex (file "AnamHermite" (ser_AnamHermiteD false) ah_variance_witness)))
  = Some (Some (200000000000001 # 100000000000000)%Q, true).
Proof. vm_compute. reflexivity. Qed.
Theorem C08_AnamHermite_variance_cured :
  reload "AnamHermite" (ser_AnamHermiteD true) (deser_AnamHermiteD true true) ah_variance_witness = Some ah_variance_witness.
Proof. vm_compute. reflexivity. Qed.

(* ---- Db: any number of columns (at least one) and samples; distinct names that are words; any locators.
   The replay hypothesis on the locators is executable: it says that Db::setLocatorByUID, applied column by column to
   the fresh Db, gives back the locators (true for every Db met by the correspondence). *)
Theorem C08_Db_roundtrip : forall o, wf_Db o -> reload "Db" ser_Db deser_Db o = Some o.
Proof.
  intros o H. apply roundtrip_of_reads; [reflexivity | | apply Db_reads; exact H].
  apply good_Db. destruct H as (_ & _ & _ & _ & Hg & _). exact Hg.
Qed.
Print Assumptions C08_Db_roundtrip.
Theorem C08_Db_rewrite : forall o o', wf_Db o ->
  reload "Db" ser_Db deser_Db o = Some o' -> file "Db" ser_Db o' = file "Db" ser_Db o.
Proof. intros o o' H. apply rewrite_of_roundtrip. apply C08_Db_roundtrip; exact H. Qed.
(* the text of a locator is identified back (getLocatorName / locatorIdentify), any index *)
Theorem C08_Db_locator_text : forall l, wf_lc l -> loc_identify (loc_name l) = Some l.
Proof. exact loc_identify_name. Qed.
Print Assumptions C08_Db_locator_text.
(* distinct names are kept (correctNamesForDuplicates) *)
Theorem C08_Db_names_replay : forall names, NoDup names -> replay_names names = names.
Proof. exact replay_names_nodup. Qed.
Print Assumptions C08_Db_names_replay.
(* regression witnesses of the former defects: "facies1" was identified as "f"; a first column called like the
   provisional name of the second one ("New-2") was renamed *)
Theorem C08_Db_facies_cured :
  let o := {| db_nech := 1; db_names := [W "fac"; W "gf"]; db_locs := [Some (23%nat, 0); Some (24%nat, 1)]; db_rows := [[Some 1%Q; Some 2%Q]] |} in
  option_map db_locs (reload "Db" ser_Db deser_Db o) = Some [Some (23%nat, 0); Some (24%nat, 1)].
Proof. vm_compute. reflexivity. Qed.
Theorem C08_Db_names_cured :
  let o := {| db_nech := 1; db_names := [W "New-2"; W "a"]; db_locs := [None; None]; db_rows := [[Some 1%Q; Some 2%Q]] |} in
  reload "Db" ser_Db deser_Db o = Some o.
Proof. vm_compute. reflexivity. Qed.
(* a name with a blank is two words in the file: the reload fails *)
Theorem C08_Db_refuted_blank :
  let o := {| db_nech := 1; db_names := [W "Zn ppm"]; db_locs := [None]; db_rows := [[Some 1%Q]] |} in
  reload "Db" ser_Db deser_Db o = None.
Proof. vm_compute. reflexivity. Qed.

(* ---- DbGrid: any space dimension *)
Theorem C08_DbGrid_roundtrip : forall o, wf_DbGrid o -> reload "DbGrid" ser_DbGrid deser_DbGrid o = Some o.
Proof.
  intros o H. apply roundtrip_of_reads; [reflexivity | | apply DbGrid_reads; exact H].
  apply good_DbGrid. destruct H as (_ & _ & (_ & _ & _ & _ & Hg & _)). exact Hg.
Qed.
Print Assumptions C08_DbGrid_roundtrip.
Theorem C08_DbGrid_rewrite : forall o o', wf_DbGrid o ->
  reload "DbGrid" ser_DbGrid deser_DbGrid o = Some o' -> file "DbGrid" ser_DbGrid o' = file "DbGrid" ser_DbGrid o.
Proof. intros o o' H. apply rewrite_of_roundtrip. apply C08_DbGrid_roundtrip; exact H. Qed.

(* ---- Vario: any calculation type (symmetric or not), undefined results allowed; directions not defined on a grid;
   any number of variables, directions, lags; format level 4 (irregular lags, bench, cylinder radius, reference date and
   date bounds are stored). *)
Theorem C08_Vario_roundtrip : forall o, wf_Vario true o -> forallb good_word (vr_names o) = true ->
  reload "Vario" (ser_Vario true) (deser_Vario true) o = Some o.
Proof. exact (Vario_roundtrip_fmt true). Qed.
Print Assumptions C08_Vario_roundtrip.
Theorem C08_Vario_rewrite : forall o o', wf_Vario true o -> forallb good_word (vr_names o) = true ->
  reload "Vario" (ser_Vario true) (deser_Vario true) o = Some o' -> file "Vario" (ser_Vario true) o' = file "Vario" (ser_Vario true) o.
Proof. exact (Vario_rewrite_fmt true). Qed.
Definition vario_dir (breaks : list dbl) (bench : dbl) (res : list triple) : vdir :=
  {| vd_npas := 1; vd_optcode := 0; vd_tolcode := Some 0%Q; vd_dpas := Some 1%Q; vd_toldist := Some (1#2)%Q; vd_grincr := [];
     vd_tolang := Some 90%Q; vd_codir := [Some 1%Q]; vd_bench := bench; vd_cylrad := None; vd_idate := 0; vd_breaks := breaks; vd_res := res |}.
Definition vario_witness (calcul : Z) (d : vdir) : vario :=
  {| vr_ndim := 1; vr_nvar := 1; vr_scale := Some 0%Q; vr_calcul := calcul; vr_dates := []; vr_names := [W "z"]; vr_vars := [[Some 2%Q]];
     vr_dirs := [d] |}.
(* regression witnesses of the former defects: a covariance (2 npas + 1 results per direction) came back as a
   variogram with the first npas results; an undefined result came back as 0 *)
Theorem C08_Vario_asym_cured :
  let t k := (Some (inject_Z k), Some (inject_Z k), Some (inject_Z k)) in
  let o := vario_witness 1 (vario_dir [] None [t 1; t 2; t 3]) in reload "Vario" (ser_Vario true) (deser_Vario true) o = Some o.
Proof. vm_compute; reflexivity. Qed.
Theorem C08_Vario_undefined_cured :
  let o := vario_witness 0 (vario_dir [] None [(Some 0%Q, None, None)]) in reload "Vario" (ser_Vario true) (deser_Vario true) o = Some o.
Proof. vm_compute; reflexivity. Qed.
(* irregular lags and bench: regression witness (the direction came back regular, without bench) *)
Definition vario_breaks_witness : vario :=
  vario_witness 0 (vario_dir [Some 0%Q; Some 1%Q; Some 3%Q] (Some (5#2)%Q) [(Some 1%Q, Some 1%Q, Some 1%Q)]).
Theorem C08_Vario_breaks_cured :
  reload "Vario" (ser_Vario true) (deser_Vario true) vario_breaks_witness = Some vario_breaks_witness.
Proof. vm_compute. reflexivity. Qed.
(* a reader of level 4 still reads the files of level 3 *)
Theorem C08_Vario_level3_read_by_level4 :
  let t k := (Some (inject_Z k), Some (inject_Z k), Some (inject_Z k)) in
  let o := vario_witness 1 (vario_dir [] None [t 1; t 2; t 3]) in
  nf_read "Vario" (deser_Vario true) (lex (file "Vario" (ser_Vario false) o)) = Some o.
Proof. vm_compute. reflexivity. Qed.

(* ---- Model: any number of structures (isotropic, anisotropic, rotated), variables, dimensions, drifts.
   hr, hp: which covariance types have a range / a third parameter (the library's own answer at run time).
   The means of a model with drift are stored at the end of the file. *)
Theorem C08_Model_roundtrip : forall hr hp o, wf_Model hr hp true o -> forallb good_word (md_drifts o) = true ->
  reload "Model" (ser_Model true) (deser_Model hr hp true) o = Some o.
Proof. exact (fun hr hp => Model_roundtrip_fmt hr hp true). Qed.
Print Assumptions C08_Model_roundtrip.
Theorem C08_Model_rewrite : forall hr hp o o', wf_Model hr hp true o -> forallb good_word (md_drifts o) = true ->
  reload "Model" (ser_Model true) (deser_Model hr hp true) o = Some o' -> file "Model" (ser_Model true) o' = file "Model" (ser_Model true) o.
Proof. exact (fun hr hp => Model_rewrite_fmt hr hp true). Qed.
(* the anisotropy coefficients times the largest range give back each range *)
Theorem C08_Model_ranges : forall rs, rs <> [] -> Forall posd rs ->
  map (fun c => dmul c (dmax rs)) (map (fun r => ddiv r (dmax rs)) rs) = rs.
Proof. exact map_dmul_ddiv. Qed.
Print Assumptions C08_Model_ranges.
(* means of a model with drift: regression witness (they came back as 0); a file of the previous format gives 0 *)
Definition model_means_witness : model :=
  {| md_ndim := 1; md_nvar := 1; md_field := None; md_covs := []; md_drifts := [W "Universality_Condition"];
     md_means := [Some 5%Q]; md_covar0 := [[Some 1%Q]] |}.
Theorem C08_Model_previous_format_read :
  option_map md_means (nf_read "Model" (deser_Model (fun _ => true) (fun _ => false) true) (lex (file "Model" (ser_Model false) model_means_witness))) = Some [Some 0%Q].
Proof. vm_compute. reflexivity. Qed.
Theorem C08_Model_means_cured :
  reload "Model" (ser_Model true) (deser_Model (fun _ => true) (fun _ => false) true) model_means_witness = Some model_means_witness.
Proof. vm_compute. reflexivity. Qed.

(* ---- AnamEmpirical: any number of discretisation points (at least one); the two flags are stored at the end *)
Theorem C08_AnamEmpirical_roundtrip : forall o, wf_AnamEmpirical true o ->
  reload "AnamEmpirical" (ser_AnamEmpirical true) (deser_AnamEmpirical true) o = Some o.
Proof. exact (AnamEmpirical_roundtrip_fmt true). Qed.
Print Assumptions C08_AnamEmpirical_roundtrip.
Theorem C08_AnamEmpirical_rewrite : forall o o', wf_AnamEmpirical true o ->
  reload "AnamEmpirical" (ser_AnamEmpirical true) (deser_AnamEmpirical true) o = Some o' ->
  file "AnamEmpirical" (ser_AnamEmpirical true) o' = file "AnamEmpirical" (ser_AnamEmpirical true) o.
Proof. exact (AnamEmpirical_rewrite_fmt true). Qed.
Definition ae_flags_witness : anam_empirical :=
  {| ae_cont := {| ac_azmin := None; ac_azmax := None; ac_aymin := None; ac_aymax := None; ac_pzmin := None; ac_pzmax := None;
                   ac_pymin := None; ac_pymax := None; ac_mean := None; ac_variance := None |};
     ae_sigma2e := Some (1#8)%Q; ae_z := [Some 1%Q]; ae_y := [Some 0%Q]; ae_dilution := true; ae_gaussian := false |}.
Theorem C08_AnamEmpirical_previous_format_read :
  option_map (fun o => (ae_dilution o, ae_gaussian o))
             (nf_read "AnamEmpirical" (deser_AnamEmpirical true) (lex (file "AnamEmpirical" (ser_AnamEmpirical false) ae_flags_witness))) = Some (false, true).
Proof. vm_compute. reflexivity. Qed.
Theorem C08_AnamEmpirical_flags_cured :
  reload "AnamEmpirical" (ser_AnamEmpirical true) (deser_AnamEmpirical true) ae_flags_witness = Some ae_flags_witness.
Proof. vm_compute. reflexivity. Qed.

(* ---- MeshETurbo: any dimension (at least 1), any grid, with or without masks on meshes / grid nodes *)
Theorem C08_MeshETurbo_roundtrip : forall o, wf_MeshETurbo o ->
  reload "MeshETurbo" ser_MeshETurbo deser_MeshETurbo o = Some o.
Proof. intros o H. apply roundtrip_of_reads; [reflexivity | apply good_MeshETurbo | apply MeshETurbo_reads; exact H]. Qed.
Print Assumptions C08_MeshETurbo_roundtrip.
Theorem C08_MeshETurbo_rewrite : forall o o', wf_MeshETurbo o ->
  reload "MeshETurbo" ser_MeshETurbo deser_MeshETurbo o = Some o' ->
  file "MeshETurbo" ser_MeshETurbo o' = file "MeshETurbo" ser_MeshETurbo o.
Proof. intros o o' H. apply rewrite_of_roundtrip. apply C08_MeshETurbo_roundtrip; exact H. Qed.

(* ======================================================================= non-vacuity *)
Example C08_nonvacuous_lex :
  let rs := [RTag (W "X"); r_int "Space Dimension" 2; r_int "" 3; r_int "" ITEST; r_com "a title # with hash";
             r_vdbl "" [Some (1#3)%Q; None]; r_vstr "Names" [W "a"; W "b"]; r_dbl "last" (Some (5#2)%Q)] in
  forallb good_rec rs = true /\
  lex (print rs) = [[W "X"]; [W "2"]; [W "3"; W "NA"]; [W "1/3"; W "NA"]; []; [W "a"; W "b"]; [W "5/2"]; []].
Proof. vm_compute. split; reflexivity. Qed.
Example C08_nonvacuous_NeighMoving :
  let o := {| nm_base := {| an_ndim := 3; an_xvalid := true; an_kfold := false; an_ball := true; an_leaf := 30 |};
              nm_nmini := 2; nm_nmaxi := 10; nm_nsect := 4; nm_nsmax := 3; nm_distcont := Some (1#8)%Q;
              nm_radius := Some 20%Q; nm_aniso := true; nm_rot := true;
              nm_coeffs := [Some 3%Q; Some (1#2)%Q; Some 7%Q];
              nm_rotmat := [Some (4#5)%Q; Some (3#5)%Q; Some 0%Q; Some (-3#5)%Q; Some (4#5)%Q; Some 0%Q; Some 0%Q; Some 0%Q; Some 1%Q] |} in
  wf_NeighMoving true o /\ reload "NeighMoving" (ser_NeighMovingD true) (deser_NeighMovingD true) o = Some o.
Proof.
  split; [|vm_compute; reflexivity].
  unfold wf_NeighMoving, wf_NeighMoving_core, wf_aneighD; cbn.
  repeat split; auto; try (repeat constructor; vm_compute; reflexivity); try congruence; try discriminate.
Qed.
Example C08_nonvacuous_Table :
  let o := {| tb_ncols := 2; tb_nrows := 3; tb_rows := [[Some 1%Q; None]; [Some (-7#4)%Q; Some 0%Q]; [None; None]] |} in
  wf_Table o /\ reload "Table" ser_Table deser_Table o = Some o.
Proof.
  split; [|vm_compute; reflexivity].
  unfold wf_Table; cbn. split; auto. repeat constructor; vm_compute; auto; try reflexivity.
Qed.
Example C08_nonvacuous_Polygons :
  let pe := {| pe_zmin := None; pe_zmax := Some 4%Q; pe_pts := [(Some 0%Q, Some 0%Q); (Some 1%Q, Some 0%Q); (Some 1%Q, Some (1#2)%Q)] |} in
  wf_Polygons [pe; pe] /\ reload "Polygon" ser_Polygons deser_Polygons [pe; pe] = Some [pe; pe].
Proof.
  split; [|vm_compute; reflexivity].
  unfold wf_Polygons, wf_PolyElem, wf_pt; cbn. repeat constructor; vm_compute; auto; try reflexivity.
Qed.
Example C08_nonvacuous_AnamHermite :
  let o := {| ah_azmin := None; ah_azmax := None; ah_aymin := None; ah_aymax := None;
              ah_pzmin := Some 0%Q; ah_pzmax := Some 9%Q; ah_pymin := Some (-3)%Q; ah_pymax := Some 3%Q;
              ah_mean := Some (3#2)%Q; ah_variance := Some (17#256)%Q; ah_rcoef := Some (1#2)%Q;
              ah_psi := [Some (3#2)%Q; Some (-1#2)%Q; Some (1#4)%Q] |} in
  let od := {| ahd_core := o; ahd_bound := false |} in
  wf_AnamHermiteD true true od /\
  reload "AnamHermite" (ser_AnamHermiteD true) (deser_AnamHermiteD true true) od = Some od.
Proof.
  split; [|vm_compute; reflexivity].
  unfold wf_AnamHermiteD, wf_AnamHermite; cbn. repeat split; auto; try (repeat constructor; vm_compute; reflexivity); try congruence.
Qed.
Ltac fa := match goal with |- Forall _ ?l => let l' := eval vm_compute in l in change l with l' end;
           repeat (apply Forall_cons); try apply Forall_nil.
Ltac wd := match goal with
  | |- wf_dbl ?d => let d' := eval vm_compute in d in
                    match d' with None => exact I | Some _ => change d with d'; split; vm_compute; reflexivity end
  end.
Ltac nd := repeat (constructor; [vm_compute; intuition discriminate|]); constructor.
Example C08_nonvacuous_Db :
  let o := {| db_nech := 2; db_names := [W "x"; W "z2"; W "zz"; W "sel"];
              db_locs := [Some (0%nat, 0); Some (1%nat, 1); Some (1%nat, 0); Some (10%nat, 0)];
              db_rows := [[Some 0%Q; Some (3#2)%Q; None; Some 1%Q]; [Some 1%Q; None; Some 2%Q; Some 0%Q]] |} in
  wf_Db o /\ reload "Db" ser_Db deser_Db o = Some o.
Proof.
  split; [|vm_compute; reflexivity].
  unfold wf_Db; cbn [db_nech db_names db_locs db_rows].
  split; [discriminate|]. split; [reflexivity|]. split; [reflexivity|].
  split. { fa; (split; [reflexivity | split; [fa; wd | discriminate]]). }
  split; [vm_compute; reflexivity|].
  split. { fa; vm_compute; repeat split; congruence. }
  split; [nd | vm_compute; reflexivity].
Qed.
Example C08_nonvacuous_DbGrid :
  let d := {| db_nech := 2; db_names := [W "rank"; W "v"]; db_locs := [None; Some (1%nat, 0)];
              db_rows := [[Some 1%Q; Some (3#2)%Q]; [Some 2%Q; None]] |} in
  let o := {| dg_dims := [{| g_nx := 2; g_x0 := Some 10%Q; g_dx := Some (1#2)%Q; g_angle := Some 30%Q |};
                          {| g_nx := 1; g_x0 := Some 0%Q; g_dx := Some 1%Q; g_angle := Some 0%Q |}]; dg_db := d |} in
  wf_DbGrid o /\ reload "DbGrid" ser_DbGrid deser_DbGrid o = Some o.
Proof.
  split; [|vm_compute; reflexivity].
  unfold wf_DbGrid; cbn [dg_dims dg_db].
  split. { fa; unfold wf_gdim; cbn [g_nx g_x0 g_dx g_angle]; (split; [wd|]); (split; [wd|]); (split; [wd|]); split; reflexivity. }
  split; [reflexivity|].
  unfold wf_Db; cbn [db_nech db_names db_locs db_rows].
  split; [discriminate|]. split; [reflexivity|]. split; [reflexivity|].
  split. { fa; (split; [reflexivity | split; [fa; wd | discriminate]]). }
  split; [vm_compute; reflexivity|].
  split. { fa; vm_compute; repeat split; congruence. }
  split; [nd | vm_compute; reflexivity].
Qed.
Example C08_nonvacuous_Vario :
  let t k := (Some (inject_Z k), Some (k # 2)%Q, Some (inject_Z k)) in
  let o := {| vr_ndim := 2; vr_nvar := 2; vr_scale := Some 0%Q; vr_calcul := 1; vr_dates := [Some 0%Q; Some 10%Q]; vr_names := [W "a"; W "b"];
              vr_vars := [[Some 2%Q; Some (1#2)%Q]; [Some (1#2)%Q; Some 3%Q]];
              vr_dirs := [{| vd_bench := Some (5#2)%Q; vd_cylrad := None; vd_idate := 1; vd_breaks := [Some 0%Q; Some 1%Q; Some 3%Q];
                             vd_npas := 2; vd_optcode := 0; vd_tolcode := Some 0%Q; vd_dpas := Some 1%Q;
                             vd_toldist := Some (1#2)%Q; vd_grincr := []; vd_tolang := Some 45%Q;
                             vd_codir := [Some (3#5)%Q; Some (4#5)%Q]; vd_res := map t [1; 3; 5; 7; 9; 11; 13; 15; 17; 19; 21; 23; 25; 27; 29] |}] |} in
  wf_Vario true o /\ reload "Vario" (ser_Vario true) (deser_Vario true) o = Some o.
Proof.
  cbv zeta. split; [|vm_compute; reflexivity].
  unfold wf_Vario; cbn [vr_ndim vr_nvar vr_scale vr_calcul vr_dates vr_names vr_vars vr_dirs].
  split; [wd|]. split; [reflexivity|]. split; [reflexivity|].
  split. { fa; (split; [reflexivity | fa; wd]). }
  split; [fa; wd|].
  fa. unfold wf_vdir; cbn [vd_npas vd_optcode vd_tolcode vd_dpas vd_toldist vd_grincr vd_tolang vd_codir vd_bench vd_cylrad vd_idate vd_breaks vd_res].
  split; [reflexivity|]. split; [wd|]. split; [wd|]. split; [wd|]. split; [wd|].
  split; [vm_compute; reflexivity|]. split; [reflexivity|]. split; [fa; wd|]. split; [discriminate|].
  split; [split; [wd | split; [wd | fa; wd]]|].
  split; [reflexivity|].
  fa; unfold wf_triple; repeat split; vm_compute; reflexivity.
Qed.
Example C08_nonvacuous_Model :
  let hr := fun t => negb (t =? 0) in let hp := fun t => t =? 7 in
  let rot := [Some (4#5)%Q; Some (3#5)%Q; Some (-3#5)%Q; Some (4#5)%Q] in
  let o := {| md_ndim := 2; md_nvar := 1; md_field := None;
              md_covs := [{| cv_type := 0; cv_param := Some 0%Q; cv_ranges := []; cv_rotmat := idmat 2; cv_sill := [[Some (1#2)%Q]] |};
                          {| cv_type := 3; cv_param := Some 0%Q; cv_ranges := [Some 10%Q; Some 4%Q]; cv_rotmat := rot; cv_sill := [[Some 2%Q]] |};
                          {| cv_type := 7; cv_param := Some (3#2)%Q; cv_ranges := [Some 5%Q; Some 5%Q]; cv_rotmat := idmat 2; cv_sill := [[Some 1%Q]] |}];
              md_drifts := [W "Universality_Condition"; W "Drift:x1"]; md_means := [Some (3#2)%Q]; md_covar0 := [[Some 1%Q]] |} in
  wf_Model hr hp true o /\ reload "Model" (ser_Model true) (deser_Model hr hp true) o = Some o.
Proof.
  cbv zeta. split; [|vm_compute; reflexivity].
  unfold wf_Model; cbn [md_ndim md_nvar md_field md_covs md_drifts md_means md_covar0 null orb].
  split; [wd|].
  split.
  { fa; unfold wf_cova; cbn [cv_type cv_param cv_ranges cv_rotmat cv_sill].
    - split; [wd|]. split; [intros _; reflexivity|]. cbn [Z.eqb negb]. split; [split; reflexivity|].
      split; [reflexivity|]. split; [fa; split; [reflexivity | fa; wd]|]. reflexivity.
    - split; [wd|]. split; [intros _; reflexivity|]. cbn [Z.eqb Pos.eqb negb].
      split.
      { split; [reflexivity|]. split; [discriminate|].
        split; [fa; unfold posd; (split; [vm_compute; reflexivity | split; vm_compute; reflexivity])|].
        split; [intros H; vm_compute in H; discriminate|].
        split; [intros H; vm_compute in H; discriminate|].
        split; [reflexivity|]. split; [fa; wd | discriminate]. }
      split; [reflexivity|]. split; [fa; split; [reflexivity | fa; wd]|]. reflexivity.
    - split; [wd|]. split; [intros H; vm_compute in H; discriminate|]. cbn [Z.eqb Pos.eqb negb].
      split.
      { split; [reflexivity|]. split; [discriminate|].
        split; [fa; unfold posd; (split; [vm_compute; reflexivity | split; vm_compute; reflexivity])|].
        split; [intros _; split; reflexivity|].
        split; [intros _; reflexivity|].
        split; [reflexivity|]. split; [fa; wd | discriminate]. }
      split; [reflexivity|]. split; [fa; split; [reflexivity | fa; wd]|]. reflexivity. }
  split; [split; [reflexivity | split; [fa; wd | reflexivity]]|].
  split; [reflexivity|]. fa; split; [reflexivity | fa; wd].
Qed.
Example C08_nonvacuous_AnamEmpirical :
  let c := {| ac_azmin := Some 0%Q; ac_azmax := Some 9%Q; ac_aymin := Some (-3)%Q; ac_aymax := Some 3%Q; ac_pzmin := None; ac_pzmax := None;
              ac_pymin := None; ac_pymax := None; ac_mean := Some (3#2)%Q; ac_variance := Some 2%Q |} in
  let o := {| ae_cont := c; ae_sigma2e := None; ae_z := [Some 1%Q; Some (5#2)%Q; Some 7%Q]; ae_y := [Some (-1)%Q; Some 0%Q; Some (3#2)%Q];
              ae_dilution := true; ae_gaussian := false |} in
  wf_AnamEmpirical true o /\ reload "AnamEmpirical" (ser_AnamEmpirical true) (deser_AnamEmpirical true) o = Some o.
Proof.
  cbv zeta. split; [|vm_compute; reflexivity].
  unfold wf_AnamEmpirical, wf_acont; cbn [ae_cont ae_sigma2e ae_z ae_y ae_dilution ae_gaussian ac_azmin ac_azmax ac_aymin ac_aymax ac_pzmin ac_pzmax ac_pymin ac_pymax ac_mean ac_variance].
  split. { repeat split; wd. }
  split; [wd|]. split; [discriminate|]. split; [reflexivity|]. split; [fa; wd|]. split; [fa; wd|]. discriminate.
Qed.
Example C08_nonvacuous_MeshETurbo :
  let o := {| mt_nx := [3; 4]; mt_dx := [Some 1%Q; Some (1#2)%Q]; mt_x0 := [Some 10%Q; Some (-5)%Q];
              mt_rotmat := [Some (4#5)%Q; Some (3#5)%Q; Some (-3#5)%Q; Some (4#5)%Q]; mt_polar := true; mt_mode := 1;
              mt_mesh_mask := [0; 2; 5]; mt_grid_mask := [] |} in
  wf_MeshETurbo o /\ reload "MeshETurbo" ser_MeshETurbo deser_MeshETurbo o = Some o.
Proof.
  cbv zeta. split; [|vm_compute; reflexivity].
  unfold wf_MeshETurbo; cbn [mt_nx mt_dx mt_x0 mt_rotmat].
  split; [discriminate|]. split; [reflexivity|]. split; [reflexivity|]. split; [reflexivity|].
  split; [fa; wd|]. split; fa; wd.
Qed.

(* ======================================================================= second wave of classes *)
(* ---- NeighImage: any dimension, any radii, any options *)
Theorem C08_NeighImage_roundtrip : forall o, wf_NeighImage true o ->
  reload "NeighImage" (ser_NeighImage true) (deser_NeighImage true) o = Some o.
Proof. exact (NeighImage_roundtrip_fmt true). Qed.
Print Assumptions C08_NeighImage_roundtrip.
Theorem C08_NeighImage_rewrite : forall o o', wf_NeighImage true o ->
  reload "NeighImage" (ser_NeighImage true) (deser_NeighImage true) o = Some o' ->
  file "NeighImage" (ser_NeighImage true) o' = file "NeighImage" (ser_NeighImage true) o.
Proof. exact (NeighImage_rewrite_fmt true). Qed.
Definition ni_witness : neigh_image :=
  {| ni_base := {| an_ndim := 2; an_xvalid := true; an_kfold := false; an_ball := false; an_leaf := 10 |}; ni_skip := 1; ni_radius := [3; 2] |}.
Theorem C08_NeighImage_previous_format_read :
  nf_read "NeighImage" (deser_NeighImage true) (lex (file "NeighImage" (ser_NeighImage false) ni_witness))
  = Some {| ni_base := aneigh_default 2; ni_skip := 1; ni_radius := [3; 2] |}.
Proof. vm_compute. reflexivity. Qed.
Theorem C08_NeighImage_options_cured :
  reload "NeighImage" (ser_NeighImage true) (deser_NeighImage true) ni_witness = Some ni_witness.
Proof. vm_compute. reflexivity. Qed.

(* ---- Faults: any number of faults, each with any number of points *)
Theorem C08_Faults_roundtrip : forall fs, wf_Faults fs -> reload "Faults" ser_Faults deser_Faults fs = Some fs.
Proof. intros fs H. apply roundtrip_of_reads; [reflexivity | apply good_Faults | apply Faults_reads; exact H]. Qed.
Print Assumptions C08_Faults_roundtrip.
Theorem C08_Faults_rewrite : forall fs fs', wf_Faults fs ->
  reload "Faults" ser_Faults deser_Faults fs = Some fs' -> file "Faults" ser_Faults fs' = file "Faults" ser_Faults fs.
Proof. intros fs fs' H. apply rewrite_of_roundtrip. apply C08_Faults_roundtrip; exact H. Qed.

(* ---- FracEnviron: any number of families and of main faults (a fault has one value of each kind per family; the
   vectors are empty when the fault is declared before any family); the class tag of the file holds a blank *)
Theorem C08_FracEnviron_roundtrip : forall o, wf_FracEnviron o ->
  reload "Fracture Environ" ser_FracEnviron deser_FracEnviron o = Some o.
Proof. exact FracEnviron_roundtrip. Qed.
Print Assumptions C08_FracEnviron_roundtrip.
Theorem C08_FracEnviron_rewrite : forall o o', wf_FracEnviron o ->
  reload "Fracture Environ" ser_FracEnviron deser_FracEnviron o = Some o' ->
  file "Fracture Environ" ser_FracEnviron o' = file "Fracture Environ" ser_FracEnviron o.
Proof. intros o o' H. apply rewrite_of_roundtrip. apply C08_FracEnviron_roundtrip; exact H. Qed.

(* ---- MeshEStandard: any dimension, any number of apices / meshes (also none) *)
Theorem C08_MeshEStandard_roundtrip : forall o, wf_MeshEStandard o ->
  reload "MeshEStandard" ser_MeshEStandard deser_MeshEStandard o = Some o.
Proof. intros o H. apply roundtrip_of_reads; [reflexivity | apply good_MeshEStandard | apply MeshEStandard_reads; exact H]. Qed.
Print Assumptions C08_MeshEStandard_roundtrip.
Theorem C08_MeshEStandard_rewrite : forall o o', wf_MeshEStandard o ->
  reload "MeshEStandard" ser_MeshEStandard deser_MeshEStandard o = Some o' ->
  file "MeshEStandard" ser_MeshEStandard o' = file "MeshEStandard" ser_MeshEStandard o.
Proof. intros o o' H. apply rewrite_of_roundtrip. apply C08_MeshEStandard_roundtrip; exact H. Qed.

(* ---- AnamDiscreteIR / AnamDiscreteDD: any number of cutoffs (also none), any number of statistics per class *)
Theorem C08_AnamDiscreteIR_roundtrip : forall o, wf_AnamDiscreteIR o ->
  reload "AnamDiscreteIR" ser_AnamDiscreteIR deser_AnamDiscreteIR o = Some o.
Proof. intros o H. apply roundtrip_of_reads; [reflexivity | apply good_AnamDiscreteIR | apply AnamDiscreteIR_reads; exact H]. Qed.
Print Assumptions C08_AnamDiscreteIR_roundtrip.
Theorem C08_AnamDiscreteIR_rewrite : forall o o', wf_AnamDiscreteIR o ->
  reload "AnamDiscreteIR" ser_AnamDiscreteIR deser_AnamDiscreteIR o = Some o' ->
  file "AnamDiscreteIR" ser_AnamDiscreteIR o' = file "AnamDiscreteIR" ser_AnamDiscreteIR o.
Proof. intros o o' H. apply rewrite_of_roundtrip. apply C08_AnamDiscreteIR_roundtrip; exact H. Qed.
Theorem C08_AnamDiscreteDD_roundtrip : forall o, wf_AnamDiscreteDD o ->
  reload "AnamDiscreteDD" ser_AnamDiscreteDD deser_AnamDiscreteDD o = Some o.
Proof. intros o H. apply roundtrip_of_reads; [reflexivity | apply good_AnamDiscreteDD | apply AnamDiscreteDD_reads; exact H]. Qed.
Print Assumptions C08_AnamDiscreteDD_roundtrip.
Theorem C08_AnamDiscreteDD_rewrite : forall o o', wf_AnamDiscreteDD o ->
  reload "AnamDiscreteDD" ser_AnamDiscreteDD deser_AnamDiscreteDD o = Some o' ->
  file "AnamDiscreteDD" ser_AnamDiscreteDD o' = file "AnamDiscreteDD" ser_AnamDiscreteDD o.
Proof. intros o o' H. apply rewrite_of_roundtrip. apply C08_AnamDiscreteDD_roundtrip; exact H. Qed.

(* ---- DbLine / DbGraphO: a Db nested in another object: any lines (also empty ones), any arcs, any well-formed Db *)
Theorem C08_DbLine_roundtrip : forall o, wf_DbLine o -> reload "DbLine" ser_DbLine deser_DbLine o = Some o.
Proof.
  intros o H. apply roundtrip_of_reads; [reflexivity | | apply DbLine_reads; exact H].
  apply good_DbLine. destruct H as (_ & _ & _ & _ & Hg & _). exact Hg.
Qed.
Print Assumptions C08_DbLine_roundtrip.
Theorem C08_DbLine_rewrite : forall o o', wf_DbLine o ->
  reload "DbLine" ser_DbLine deser_DbLine o = Some o' -> file "DbLine" ser_DbLine o' = file "DbLine" ser_DbLine o.
Proof. intros o o' H. apply rewrite_of_roundtrip. apply C08_DbLine_roundtrip; exact H. Qed.
Theorem C08_DbGraphO_roundtrip : forall o, wf_DbGraphO o -> reload "DbGraphO" ser_DbGraphO deser_DbGraphO o = Some o.
Proof.
  intros o H. apply roundtrip_of_reads; [reflexivity | | apply DbGraphO_reads; exact H].
  apply good_DbGraphO. destruct H as (_ & (_ & _ & _ & _ & Hg & _)). exact Hg.
Qed.
Print Assumptions C08_DbGraphO_roundtrip.
Theorem C08_DbGraphO_rewrite : forall o o', wf_DbGraphO o ->
  reload "DbGraphO" ser_DbGraphO deser_DbGraphO o = Some o' -> file "DbGraphO" ser_DbGraphO o' = file "DbGraphO" ser_DbGraphO o.
Proof. intros o o' H. apply rewrite_of_roundtrip. apply C08_DbGraphO_roundtrip; exact H. Qed.

(* ---- Rule: any tree of thresholds and facies, of any depth: the node list written in prefix order with the shared rank
   counter passes the checks of the reader and is hung back into the same tree.  The reader checks the
   rank of the thresholds only: a rule reduced to one facies (rank 0 for its only node) is reloaded too. *)
Theorem C08_Rule_roundtrip : forall o, wf_Rule true o -> reload "Rule" ser_Rule (deser_Rule true) o = Some o.
Proof. exact (Rule_roundtrip_fmt true). Qed.
Print Assumptions C08_Rule_roundtrip.
Theorem C08_Rule_rewrite : forall o o', wf_Rule true o ->
  reload "Rule" ser_Rule (deser_Rule true) o = Some o' -> file "Rule" ser_Rule o' = file "Rule" ser_Rule o.
Proof. exact (Rule_rewrite_fmt true). Qed.
(* the reader rebuilds the tree the writer went through *)
Theorem C08_Rule_tree_rebuilt : forall o l r, wf_node (RThr o l r) ->
  match build (fst (tuples 0 0 0 0 (RThr o l r))) with Some T => complete T = Some (RThr o l r) | None => False end.
Proof. intros o l r H. rewrite tuples_spec. cbn [fst]. rewrite build_tups by exact H. apply complete_ann. Qed.
Print Assumptions C08_Rule_tree_rebuilt.
(* regression witness: a rule reduced to one facies is written with rank 0 for its only node (the reader refused it) *)
Definition rule_one_facies : rule := {| ru_mode := 0; ru_rho := Some 0%Q; ru_main := RFac 1 |}.
Theorem C08_Rule_single_facies_cured : reload "Rule" ser_Rule (deser_Rule true) rule_one_facies = Some rule_one_facies.
Proof. vm_compute. reflexivity. Qed.

(* ---- RuleShift / RuleShadow *)
Theorem C08_RuleShift_roundtrip : forall o, wf_RuleShift true true o ->
  reload "RuleShift" (ser_RuleShift true) (deser_RuleShift true true) o = Some o.
Proof. exact (RuleShift_roundtrip_fmt true true). Qed.
Print Assumptions C08_RuleShift_roundtrip.
Theorem C08_RuleShift_rewrite : forall o o', wf_RuleShift true true o ->
  reload "RuleShift" (ser_RuleShift true) (deser_RuleShift true true) o = Some o' ->
  file "RuleShift" (ser_RuleShift true) o' = file "RuleShift" (ser_RuleShift true) o.
Proof. exact (RuleShift_rewrite_fmt true true). Qed.
Theorem C08_RuleShadow_roundtrip : forall o, wf_RuleShift true true o ->
  reload "RuleShadow" (ser_RuleShadow true) (deser_RuleShift true true) o = Some o.
Proof. exact (RuleShadow_roundtrip_fmt true true). Qed.
Print Assumptions C08_RuleShadow_roundtrip.
Theorem C08_RuleShadow_rewrite : forall o o', wf_RuleShift true true o ->
  reload "RuleShadow" (ser_RuleShadow true) (deser_RuleShift true true) o = Some o' ->
  file "RuleShadow" (ser_RuleShadow true) o' = file "RuleShadow" (ser_RuleShadow true) o.
Proof. exact (RuleShadow_rewrite_fmt true true). Qed.
(* regression witness: a shift given on two components is given back (it came back with three); a file of the previous
   format gives three components *)
Definition rs_witness : rule_shift :=
  {| rs_rule := {| ru_mode := 1; ru_rho := Some 1%Q; ru_main := RThr 1 (RFac 1) (RFac 2) |};
     rs_slope := Some 0%Q; rs_shdown := Some 0%Q; rs_shdsup := Some 0%Q; rs_shift := [Some (1#5)%Q; Some (3#10)%Q] |}.
Theorem C08_RuleShift_previous_format_read :
  nf_read "RuleShift" (deser_RuleShift true true) (lex (file "RuleShift" (ser_RuleShift false) rs_witness))
  = Some {| rs_rule := rs_rule rs_witness; rs_slope := Some 0%Q; rs_shdown := Some 0%Q; rs_shdsup := Some 0%Q;
            rs_shift := [Some (1#5)%Q; Some (3#10)%Q; Some 0%Q] |}.
Proof. vm_compute. reflexivity. Qed.
Theorem C08_RuleShift_shift_cured :
  reload "RuleShift" (ser_RuleShift true) (deser_RuleShift true true) rs_witness = Some rs_witness.
Proof. vm_compute. reflexivity. Qed.

(* ---- non-vacuity of the second wave *)
Example C08_nonvacuous_NeighImage : wf_NeighImage true ni_witness.
Proof.
  unfold wf_NeighImage, wf_aneighD, wf_aneigh, small; cbn [ni_base ni_radius ni_witness an_ndim aneigh_default];
    (split; [intros; try discriminate; reflexivity|]); (split; [reflexivity|]); repeat constructor.
Qed.
Example C08_nonvacuous_Faults :
  let fs := [[(Some 1%Q, Some 2%Q); (Some (7#2)%Q, None)]; [(Some 0%Q, Some 0%Q); (Some 1%Q, Some 1%Q); (Some 2%Q, Some 0%Q)]] in
  wf_Faults fs /\ reload "Faults" ser_Faults deser_Faults fs = Some fs.
Proof.
  cbv zeta. split; [|vm_compute; reflexivity].
  unfold wf_Faults. repeat (apply Forall_cons || apply Forall_nil); split; wd.
Qed.
Example C08_nonvacuous_FracEnviron :
  let fam := {| ff_orient := Some 30%Q; ff_dorient := Some 5%Q; ff_theta0 := Some (1#2)%Q; ff_alpha := Some 1%Q; ff_ratcst := Some 0%Q;
                ff_prop1 := Some (1#4)%Q; ff_prop2 := Some (1#8)%Q; ff_aterm := Some 2%Q; ff_bterm := Some 3%Q; ff_range := Some 10%Q |} in
  let o := {| fe_xmax := Some 100%Q; fe_ymax := Some 50%Q; fe_deltax := Some 0%Q; fe_deltay := Some 0%Q; fe_mean := Some 10%Q; fe_stdev := Some 2%Q;
              fe_families := [fam];
              fe_faults := [{| fl_coord := Some 20%Q; fl_orient := Some 45%Q; fl_thetal := [Some 1%Q]; fl_thetar := [Some 2%Q];
                               fl_rangel := [Some 5%Q]; fl_ranger := [Some 6%Q] |}] |} in
  wf_FracEnviron o /\ reload "Fracture Environ" ser_FracEnviron deser_FracEnviron o = Some o.
Proof.
  cbv zeta. split; [|vm_compute; reflexivity].
  unfold wf_FracEnviron, wf_FracFamily, wf_FracFault; cbn -[wf_dbl].
  repeat (split; [wd|]). split.
  - constructor; [|constructor]. repeat (split; [wd|]). wd.
  - constructor; [|constructor]. repeat (split; [wd|]). repeat (split; [reflexivity|]). repeat (split; [fa; wd|]). fa; wd.
Qed.
(* a main fault declared before any family: four empty vectors *)
Example C08_nonvacuous_FracEnviron_fault_without_family :
  let o := {| fe_xmax := Some 1%Q; fe_ymax := Some 1%Q; fe_deltax := Some 0%Q; fe_deltay := Some 0%Q; fe_mean := Some 1%Q; fe_stdev := Some 1%Q;
              fe_families := [];
              fe_faults := [{| fl_coord := Some 20%Q; fl_orient := Some 45%Q; fl_thetal := []; fl_thetar := []; fl_rangel := []; fl_ranger := [] |}] |} in
  wf_FracEnviron o /\ reload "Fracture Environ" ser_FracEnviron deser_FracEnviron o = Some o.
Proof.
  cbv zeta. split; [|vm_compute; reflexivity].
  unfold wf_FracEnviron, wf_FracFault; cbn -[wf_dbl]. repeat (split; [wd|]). split; [constructor|].
  constructor; [|constructor]. repeat (split; [wd|]). repeat (split; [reflexivity|]). repeat (split; [constructor|]). constructor.
Qed.
Example C08_nonvacuous_MeshEStandard :
  let o := {| ms_ndim := 2; ms_napices := 3; ms_npm := 3; ms_nmeshes := 1;
              ms_apices := [Some 0%Q; Some 1%Q; Some 0%Q; Some 0%Q; Some 0%Q; Some 1%Q]; ms_meshes := [0; 1; 2] |} in
  wf_MeshEStandard o /\ reload "MeshEStandard" ser_MeshEStandard deser_MeshEStandard o = Some o.
Proof.
  cbv zeta. split; [|vm_compute; reflexivity]. unfold wf_MeshEStandard; cbn [ms_ndim ms_napices ms_npm ms_nmeshes ms_apices ms_meshes].
  split; [reflexivity|]. split; [reflexivity|]. fa; wd.
Qed.
Example C08_nonvacuous_AnamDiscrete :
  let d := {| ad_zcut := [Some 1%Q; Some (5#2)%Q]; ad_nelem := 2;
              ad_stats := [Some (1#2)%Q; Some (1#4)%Q; Some (1#4)%Q; Some 0%Q; Some 1%Q; Some 3%Q] |} in
  let ir := {| ir_disc := d; ir_rcoef := Some (7#8)%Q |} in
  let dd := {| dd_disc := d; dd_scoef := Some (1#4)%Q; dd_mu := Some 1%Q;
               dd_z2f := [Some 1%Q; Some 0%Q; Some 0%Q; Some 1%Q]; dd_f2z := [Some 1%Q; Some 2%Q; Some 3%Q; Some 4%Q] |} in
  wf_AnamDiscreteIR ir /\ reload "AnamDiscreteIR" ser_AnamDiscreteIR deser_AnamDiscreteIR ir = Some ir /\
  wf_AnamDiscreteDD dd /\ reload "AnamDiscreteDD" ser_AnamDiscreteDD deser_AnamDiscreteDD dd = Some dd.
Proof.
  cbv zeta.
  assert (Hd : wf_adisc {| ad_zcut := [Some 1%Q; Some (5#2)%Q]; ad_nelem := 2;
                           ad_stats := [Some (1#2)%Q; Some (1#4)%Q; Some (1#4)%Q; Some 0%Q; Some 1%Q; Some 3%Q] |}).
  { unfold wf_adisc; cbn [ad_zcut ad_nelem ad_stats]. split; [reflexivity|]. split; fa; wd. }
  split; [split; [exact Hd | wd]|]. split; [vm_compute; reflexivity|]. split; [|vm_compute; reflexivity].
  unfold wf_AnamDiscreteDD; cbn [dd_disc dd_scoef dd_mu dd_z2f dd_f2z ad_zcut].
    split; [exact Hd|]. split; [wd|]. split; [wd|]. split; [reflexivity|]. split; [reflexivity|]. split; fa; wd.
Qed.
Example C08_nonvacuous_DbLine_DbGraphO :
  let d := {| db_nech := 3; db_names := [W "x1"; W "z1"]; db_locs := [Some (0%nat, 0); Some (1%nat, 0)];
              db_rows := [[Some 0%Q; Some (3#2)%Q]; [Some 1%Q; None]; [Some 2%Q; Some 5%Q]] |} in
  let l := {| dl_lines := [[0; 1]; []; [2]]; dl_db := d |} in
  let g := {| go_arcs := [(0, 1, Some (1#2)%Q); (1, 2, Some 3%Q)]; go_db := d |} in
  wf_Db d /\ reload "DbLine" ser_DbLine deser_DbLine l = Some l /\ wf_DbGraphO g /\ reload "DbGraphO" ser_DbGraphO deser_DbGraphO g = Some g.
Proof.
  cbv zeta.
  assert (Hd : wf_Db {| db_nech := 3; db_names := [W "x1"; W "z1"]; db_locs := [Some (0%nat, 0); Some (1%nat, 0)];
                        db_rows := [[Some 0%Q; Some (3#2)%Q]; [Some 1%Q; None]; [Some 2%Q; Some 5%Q]] |}).
  { unfold wf_Db; cbn [db_nech db_names db_locs db_rows].
    split; [discriminate|]. split; [reflexivity|]. split; [reflexivity|].
    split. { fa; (split; [reflexivity | split; [fa; wd | discriminate]]). }
    split; [vm_compute; reflexivity|].
    split. { fa; vm_compute; repeat split; congruence. }
    split; [nd | vm_compute; reflexivity]. }
  split; [exact Hd|]. split; [vm_compute; reflexivity|]. split; [|vm_compute; reflexivity].
  split; [|exact Hd]. cbn [go_arcs]. unfold wf_arc, small. fa; cbn [fst snd]; (split; [reflexivity|split; [reflexivity|wd]]).
Qed.
Example C08_nonvacuous_Rule :
  let t := RThr 1 (RFac 1) (RThr 2 (RThr 1 (RFac 2) (RFac 3)) (RThr 2 (RFac 4) (RFac 5))) in
  let o := {| ru_mode := 0; ru_rho := Some (1#2)%Q; ru_main := t |} in
  wf_Rule true o /\ reload "Rule" ser_Rule (deser_Rule true) o = Some o /\ wf_RuleShift true true {| rs_rule := o; rs_slope := Some 1%Q; rs_shdown := Some (-1)%Q; rs_shdsup := Some 1%Q; rs_shift := [Some (1#5)%Q] |}.
Proof.
  cbv zeta.
  assert (Hr : wf_Rule true {| ru_mode := 0; ru_rho := Some (1#2)%Q;
                          ru_main := RThr 1 (RFac 1) (RThr 2 (RThr 1 (RFac 2) (RFac 3)) (RThr 2 (RFac 4) (RFac 5))) |}).
  { unfold wf_Rule; cbn -[wf_dbl]. split; [wd|]. split; [|exact I]. intuition reflexivity. }
  split; [exact Hr|]. split; [vm_compute; reflexivity|].
  unfold wf_RuleShift, shift_len; cbn [rs_rule rs_slope rs_shdown rs_shdsup rs_shift length].
  split; [exact Hr|]. repeat (split; [wd|]). repeat (split; [reflexivity|]). split; [fa; wd|]. apply le_S, le_S, le_n.
Qed.

(* ======================================================================= strings that are not one data word *)
(* _recordWrite<String> writes the characters of a string as they are (Db column names, variable names of a Vario, drift
   names ...).  On the lexical view that every reader sees:
   - a string holding a blank is two consecutive values: the reader gets its first word and every record after it is read
     one place too late;
   - a string starting with '#', and an empty string, are comments: the record vanishes and the reader gets the next one.
   For every title and whatever follows in the file. *)
Theorem C08_string_with_blank_is_two_values : forall t a b cs,
  good_word a = true -> good_word b = true -> good_title t = true ->
  lex (print_rec (RVal t (a ++ sp :: b)) ++ cs) = lay (RVal [] a) (lay (RVal t b) (lex cs)).
Proof. exact lex_str_blank. Qed.
Print Assumptions C08_string_with_blank_is_two_values.
Theorem C08_string_starting_with_hash_is_a_comment : forall t w cs,
  null t = false -> good_title t = true -> good_title w = true ->
  lex (print_rec (RVal t ("#"%char :: w)) ++ cs) = lay (RCom t) (lex cs).
Proof. exact lex_str_hash. Qed.
Print Assumptions C08_string_starting_with_hash_is_a_comment.
Theorem C08_empty_string_is_a_comment : forall t cs,
  null t = false -> good_title t = true -> lex (print_rec (RVal t []) ++ cs) = lay (RCom t) (lex cs).
Proof. exact lex_str_empty. Qed.
(* a good string (one word, not "NA"-like problems aside) is read back, whatever the title *)
Theorem C08_string_word_read_back : forall t w, reads rd_str [r_str t w] w.
Proof. exact reads_str. Qed.
Example C08_nonvacuous_string_with_blank :
  nf_read "T" (s <- rd_str ;; n <- rd_int ;; ret (s, n))
          (lex (print (nf_write "T" [r_str "Name" (W "Zn ppm"); r_int "Count" 7]))) = None /\
  nf_read "T" (s <- rd_str ;; t <- rd_str ;; n <- rd_int ;; ret (s, t, n))
          (lex (print (nf_write "T" [r_str "Name" (W "Zn ppm"); r_int "Count" 7]))) = Some (W "Zn", W "ppm", 7) /\
  nf_read "T" (s <- rd_str ;; ret s)
          (lex (print (nf_write "T" [r_str "Name" (W "#1"); r_str "Other" (W "x")]))) = Some (W "x").
Proof. vm_compute. repeat split; reflexivity. Qed.

(* ======================================================================= records of any length *)
(* A vector record (_recordWriteVec, _tableWrite) is written on ONE line, whatever its number of values; so are the names
   and the locators of a Db, and the untitled values of a row.  Nothing in the codec bounds the length of a line, of a
   word or of a record: the theorems of layer 1 (C08_lex_print, C08_readers_see_lex, C08_file_roundtrip) and every class
   theorem quantify over lists of any length.  Stated explicitly: *)
Theorem C08_vector_record_of_any_length : forall t ds, Forall wf_dbl ds -> reads (rd_vdbl (lenZ ds)) [r_vdbl t ds] ds.
Proof. exact reads_vdbl_any. Qed.
Print Assumptions C08_vector_record_of_any_length.
Theorem C08_int_vector_record_of_any_length : forall t zs, reads (rd_vint (lenZ zs)) [r_vint t zs] zs.
Proof. exact reads_vint_any. Qed.
Theorem C08_record_line_of_any_length : forall r cs, good_rec r = true -> lex (print_rec r ++ cs) = lay r (lex cs).
Proof. exact lex_print_rec. Qed.
Print Assumptions C08_record_line_of_any_length.
(* for every bound there is a record whose line is longer and that is read back *)
Theorem C08_no_bound_on_the_length_of_a_line : forall n : nat, exists ds,
  (n < length (print [r_vdbl "" ds]))%nat /\
  nf_read "T" (rd_vdbl (lenZ ds)) (lex (print (nf_write "T" [r_vdbl "" ds]))) = Some ds.
Proof.
  intros n. exists (repeat d0 (S n)). split.
  - eapply Nat.lt_le_trans; [|apply print_vdbl_long]. rewrite repeat_length. apply Nat.lt_succ_diag_r.
  - apply long_vector_read_back. apply Forall_forall. intros x Hx. apply repeat_spec in Hx. subst x. apply wf_d0.
Qed.
Print Assumptions C08_no_bound_on_the_length_of_a_line.
(* non-vacuity on long records: a MeshEStandard with 1 500 apices, computed (a line of more than 10 000 characters), and a
   vector whose line has more than 100 000 characters *)
Definition zseq (n : nat) : list Z := map Z.of_nat (seq 0 n).
Example C08_nonvacuous_long_record :
  let o := {| ms_ndim := 2; ms_napices := 1500; ms_npm := 3; ms_nmeshes := 1000;
              ms_apices := map (fun k => Some (inject_Z (1000 + k))) (zseq 3000); ms_meshes := zseq 3000 |} in
  Nat.ltb 10000 (fold_right Nat.max 0%nat (map (fun l => length (flat_map (fun w => w ++ [sp]) l)) (lex (file "MeshEStandard" ser_MeshEStandard o)))) = true /\
  reload "MeshEStandard" ser_MeshEStandard deser_MeshEStandard o = Some o.
Proof. vm_compute. split; reflexivity. Qed.
Example C08_nonvacuous_very_long_record : exists ds,
  Nat.ltb 100000 (length (print [r_vdbl "" ds])) = true /\
  nf_read "T" (rd_vdbl (lenZ ds)) (lex (print (nf_write "T" [r_vdbl "" ds]))) = Some ds.
Proof.
  destruct (C08_no_bound_on_the_length_of_a_line 100000) as (ds & Hl & Hr). exists ds. split; [|exact Hr].
  apply Nat.ltb_lt. exact Hl.
Qed.

(* ======================================================================= the writer is a function of the object *)
(* ser_C takes the object and nothing else: what has been written before (other objects, the same object in another
   state) has no influence on the file.  In a sequence of saves, each file is the file of its object saved alone, and
   each reload gives what the reload of the object alone gives. *)
Theorem C08_writer_history_independent : forall A name (ser : A -> list record) (before after : list A) o,
  nth (length before) (map (file name ser) (before ++ o :: after)) [] = file name ser o.
Proof. intros. rewrite map_app. cbn [map]. rewrite app_nth2; rewrite map_length; [|apply Nat.le_refl]. rewrite Nat.sub_diag. reflexivity. Qed.
Print Assumptions C08_writer_history_independent.
Theorem C08_sequence_reloads_as_alone : forall A name (ser : A -> list record) (deser : reader A) (objs : list A),
  map (fun f => nf_read name deser (lex f)) (map (file name ser) objs) = map (reload name ser deser) objs.
Proof. intros. rewrite map_map. reflexivity. Qed.
Example C08_nonvacuous_sequence :
  let a := {| db_nech := 1; db_names := [W "z"]; db_locs := [Some (1%nat, 0)]; db_rows := [[Some 1%Q]] |} in
  let b := {| db_nech := 1; db_names := [W "z"]; db_locs := [Some (1%nat, 0)]; db_rows := [[Some 7%Q]] |} in
  map (file "Db" ser_Db) [a; b; a] = [file "Db" ser_Db a; file "Db" ser_Db b; file "Db" ser_Db a] /\
  file "Db" ser_Db a <> file "Db" ser_Db b.
Proof. split; [reflexivity|]. vm_compute. discriminate. Qed.

(* C08 — property theorems only. Each is closed by [exact] of a lemma of the Proofs_* files. *)
From Coq Require Import Ascii String.
From Coq Require Import List ZArith QArith Bool.
From Gst Require Import C08.Codec C08.Model C08.Proofs_codec C08.Proofs_basic.
Import ListNotations.
Local Open Scope string_scope.
Local Open Scope list_scope.
Local Open Scope Z_scope.

(* ======================================================================= layer 1: the codec *)

(* A printed list of records (titles with blanks, comments, empty vectors, NA, untitled values sharing a line ...)
   lexes to exactly the expected lines of data words: nothing of a title or comment leaks into the data, no value is
   lost or merged.  Unbounded in the number and size of the records. *)
Theorem C08_lex_print : forall rs, forallb good_rec rs = true -> lex (print rs) = layout rs [[]].
Proof. exact lex_print. Qed.
Print Assumptions C08_lex_print.

(* number tokens print and parse to themselves (integers incl. the NA code, rationals, NA) *)
Theorem C08_int_token : forall z, parse_int (print_int z) = Some z /\ good_word (print_int z) = true.
Proof. intros z. split; [apply parse_print_int | apply print_int_good]. Qed.
Print Assumptions C08_int_token.
Theorem C08_dbl_token : forall d, wf_dbl d -> parse_dbl (print_dbl d) = Some d /\ good_word (print_dbl d) = true.
Proof. intros d H. split; [apply parse_print_dbl; exact H | apply print_dbl_good]. Qed.
Print Assumptions C08_dbl_token.

(* reader calculus: a reader that consumes the records rs and a continuation that consumes rs' consume rs ++ rs' *)
Theorem C08_reads_compose : forall A B (r : reader A) (f : A -> reader B) rs1 rs2 a b,
  reads r rs1 a -> reads (f a) rs2 b -> reads (bind r f) (rs1 ++ rs2) b.
Proof. exact @reads_bind. Qed.
Print Assumptions C08_reads_compose.

(* generic: a body reader that consumes the printed body gives back the object from the whole printed file *)
Theorem C08_file_roundtrip : forall A name (body : reader A) rs a,
  reads body rs a -> good_word (W name) = true -> forallb good_rec rs = true ->
  nf_read name body (lex (print (nf_write name rs))) = Some a.
Proof. exact @nf_roundtrip. Qed.
Print Assumptions C08_file_roundtrip.

(* an empty vector record followed by more data is NOT read back: the line reader takes the next data line *)
Theorem C08_empty_vector_refuted :
  nf_read "T" (v <- rd_vdbl 0 ;; x <- rd_int ;; ret (v, x)) (lex (print (nf_write "T" [r_vdbl "V" []; r_int "n" 7]))) = None.
Proof. exact empty_vector_not_read. Qed.

(* ======================================================================= layer 2: classes *)
(* reload name ser deser o = nf_read name deser (lex (print (nf_write name (ser o)))) ; file = print (nf_write ...) *)

(* ---- NeighUnique: holds iff the flags that are never written have their default value *)
Theorem C08_NeighUnique_roundtrip : forall a, wf_aneigh a ->
  reload "NeighUnique" ser_NeighUnique deser_NeighUnique a = Some a.
Proof. intros a H. apply roundtrip_of_reads; [reflexivity | apply good_ANeigh | apply NeighUnique_reads; exact H]. Qed.
Print Assumptions C08_NeighUnique_roundtrip.
Theorem C08_NeighUnique_rewrite : forall a a', wf_aneigh a ->
  reload "NeighUnique" ser_NeighUnique deser_NeighUnique a = Some a' ->
  file "NeighUnique" ser_NeighUnique a' = file "NeighUnique" ser_NeighUnique a.
Proof. intros a a' H. apply rewrite_of_roundtrip. apply C08_NeighUnique_roundtrip; exact H. Qed.
Theorem C08_NeighUnique_refuted : exists a,
  reload "NeighUnique" ser_NeighUnique deser_NeighUnique a <> Some a.
Proof.
  exists {| an_ndim := 2; an_xvalid := true; an_kfold := false; an_ball := false; an_leaf := 10 |}.
  vm_compute. congruence.
Qed.

(* ---- NeighBench *)
Theorem C08_NeighBench_roundtrip : forall o, wf_NeighBench o ->
  reload "NeighBench" ser_NeighBench deser_NeighBench o = Some o.
Proof. intros o H. apply roundtrip_of_reads; [reflexivity | apply good_NeighBench | apply NeighBench_reads; exact H]. Qed.
Print Assumptions C08_NeighBench_roundtrip.
Theorem C08_NeighBench_rewrite : forall o o', wf_NeighBench o ->
  reload "NeighBench" ser_NeighBench deser_NeighBench o = Some o' ->
  file "NeighBench" ser_NeighBench o' = file "NeighBench" ser_NeighBench o.
Proof. intros o o' H. apply rewrite_of_roundtrip. apply C08_NeighBench_roundtrip; exact H. Qed.
(* NeighBench::create(false, 2.5): getWidth() is 2.5 before, 0 after (only the checker's copy is rebuilt) *)
Theorem C08_NeighBench_refuted : exists o,
  option_map nb_width (reload "NeighBench" ser_NeighBench deser_NeighBench o) <> Some (nb_width o).
Proof.
  exists {| nb_base := aneigh_default 2; nb_width := Some (5#2)%Q; nb_bipt_width := Some (5#2)%Q |}.
  vm_compute. congruence.
Qed.

(* ---- NeighCell *)
Theorem C08_NeighCell_roundtrip : forall o, wf_NeighCell o ->
  reload "NeighCell" ser_NeighCell deser_NeighCell o = Some o.
Proof. intros o H. apply roundtrip_of_reads; [reflexivity | apply good_NeighCell | apply NeighCell_reads; exact H]. Qed.
Print Assumptions C08_NeighCell_roundtrip.
Theorem C08_NeighCell_rewrite : forall o o', wf_NeighCell o ->
  reload "NeighCell" ser_NeighCell deser_NeighCell o = Some o' ->
  file "NeighCell" ser_NeighCell o' = file "NeighCell" ser_NeighCell o.
Proof. intros o o' H. apply rewrite_of_roundtrip. apply C08_NeighCell_roundtrip; exact H. Qed.

(* ---- NeighMoving: isotropic, or anisotropic without rotation and with radius 1 or undefined *)
Theorem C08_NeighMoving_roundtrip : forall o, wf_NeighMoving o ->
  reload "NeighMoving" ser_NeighMoving deser_NeighMoving o = Some o.
Proof. intros o H. apply roundtrip_of_reads; [reflexivity | apply good_NeighMoving | apply NeighMoving_reads; exact H]. Qed.
Print Assumptions C08_NeighMoving_roundtrip.
Theorem C08_NeighMoving_rewrite : forall o o', wf_NeighMoving o ->
  reload "NeighMoving" ser_NeighMoving deser_NeighMoving o = Some o' ->
  file "NeighMoving" ser_NeighMoving o' = file "NeighMoving" ser_NeighMoving o.
Proof. intros o o' H. apply rewrite_of_roundtrip. apply C08_NeighMoving_roundtrip; exact H. Qed.
(* radius 20, coefficients (1, 0.5): reloaded coefficients (20, 10) *)
Theorem C08_NeighMoving_refuted_scaling :
  option_map nm_coeffs (reload "NeighMoving" ser_NeighMoving deser_NeighMoving nm_witness_scaling) = Some [Some 20%Q; Some 10%Q]
  /\ nm_coeffs nm_witness_scaling = [Some 1%Q; Some (1#2)%Q].
Proof. split; [exact NeighMoving_scaling_witness | reflexivity]. Qed.
(* rotated ellipse: the matrix comes back, the rotation flag does not *)
Theorem C08_NeighMoving_refuted_rotation :
  option_map (fun o => (nm_rot o, nm_rotmat o)) (reload "NeighMoving" ser_NeighMoving deser_NeighMoving nm_witness_rotation)
  = Some (false, nm_rotmat nm_witness_rotation) /\ nm_rot nm_witness_rotation = true.
Proof. split; [exact NeighMoving_rotation_witness | reflexivity]. Qed.

(* ---- Table: any number of rows and columns *)
Theorem C08_Table_roundtrip : forall o, wf_Table o -> reload "Table" ser_Table deser_Table o = Some o.
Proof. intros o H. apply roundtrip_of_reads; [reflexivity | apply good_Table | apply Table_reads; exact H]. Qed.
Print Assumptions C08_Table_roundtrip.
Theorem C08_Table_rewrite : forall o o', wf_Table o ->
  reload "Table" ser_Table deser_Table o = Some o' -> file "Table" ser_Table o' = file "Table" ser_Table o.
Proof. intros o o' H. apply rewrite_of_roundtrip. apply C08_Table_roundtrip; exact H. Qed.

(* ---- PolyLine2D, PolyElem, Polygons: any number of vertices / elements *)
Theorem C08_PolyLine2D_roundtrip : forall pts, Forall wf_pt pts ->
  reload "PolyLine2D" ser_PolyLine2D deser_PolyLine2D pts = Some pts.
Proof. intros o H. apply roundtrip_of_reads; [reflexivity | apply good_PolyLine2D | apply PolyLine2D_reads; exact H]. Qed.
Print Assumptions C08_PolyLine2D_roundtrip.
Theorem C08_PolyElem_roundtrip : forall o, wf_PolyElem o -> reload "PolyElem" ser_PolyElem deser_PolyElem o = Some o.
Proof. intros o H. apply roundtrip_of_reads; [reflexivity | apply good_PolyElem | apply PolyElem_reads; exact H]. Qed.
Print Assumptions C08_PolyElem_roundtrip.
Theorem C08_Polygons_roundtrip : forall pes, wf_Polygons pes -> reload "Polygon" ser_Polygons deser_Polygons pes = Some pes.
Proof. intros o H. apply roundtrip_of_reads; [reflexivity | apply good_Polygons | apply Polygons_reads; exact H]. Qed.
Print Assumptions C08_Polygons_roundtrip.
Theorem C08_Polygons_rewrite : forall o o', wf_Polygons o ->
  reload "Polygon" ser_Polygons deser_Polygons o = Some o' -> file "Polygon" ser_Polygons o' = file "Polygon" ser_Polygons o.
Proof. intros o o' H. apply rewrite_of_roundtrip. apply C08_Polygons_roundtrip; exact H. Qed.

(* ---- AnamHermite: any number of coefficients (at least one), point support (r >= 1); mean and variance must be the
   ones the coefficients give.  With a block support (r < 1) the coefficients are written multiplied by r^i and read
   back as raw coefficients: refuted. *)
Theorem C08_AnamHermite_refuted :
  option_map ah_psi (reload "AnamHermite" ser_AnamHermite deser_AnamHermite ah_witness) = Some [Some 1%Q; Some 1%Q; Some 1%Q]
  /\ ah_psi ah_witness = [Some 1%Q; Some 2%Q; Some 4%Q].
Proof. split; [exact AnamHermite_witness | reflexivity]. Qed.
Theorem C08_AnamHermite_roundtrip : forall o, wf_AnamHermite o ->
  reload "AnamHermite" ser_AnamHermite deser_AnamHermite o = Some o.
Proof. intros o H. apply roundtrip_of_reads; [reflexivity | apply good_AnamHermite | apply AnamHermite_reads; exact H]. Qed.
Print Assumptions C08_AnamHermite_roundtrip.
Theorem C08_AnamHermite_rewrite : forall o o', wf_AnamHermite o ->
  reload "AnamHermite" ser_AnamHermite deser_AnamHermite o = Some o' ->
  file "AnamHermite" ser_AnamHermite o' = file "AnamHermite" ser_AnamHermite o.
Proof. intros o o' H. apply rewrite_of_roundtrip. apply C08_AnamHermite_roundtrip; exact H. Qed.

(* ======================================================================= non-vacuity *)
Example C08_nonvacuous_lex :
  let rs := [RTag (W "X"); r_int "Space Dimension" 2; r_int "" 3; r_int "" ITEST; r_com "a title # with hash";
             r_vdbl "" [Some (1#3)%Q; None]; r_vstr "Names" [W "a"; W "b"]; r_dbl "last" (Some (5#2)%Q)] in
  forallb good_rec rs = true /\
  lex (print rs) = [[W "X"]; [W "2"]; [W "3"; W "NA"]; [W "1/3"; W "NA"]; []; [W "a"; W "b"]; [W "5/2"]; []].
Proof. vm_compute. split; reflexivity. Qed.
Example C08_nonvacuous_NeighMoving :
  let o := {| nm_base := aneigh_default 3; nm_nmini := 2; nm_nmaxi := 10; nm_nsect := 4; nm_nsmax := 3; nm_distcont := None;
              nm_radius := None; nm_aniso := true; nm_rot := false;
              nm_coeffs := [Some 3%Q; Some (1#2)%Q; Some 7%Q]; nm_rotmat := idmat 3 |} in
  wf_NeighMoving o /\ reload "NeighMoving" ser_NeighMoving deser_NeighMoving o = Some o.
Proof.
  split; [|vm_compute; reflexivity].
  unfold wf_NeighMoving; cbn. repeat split; auto; try (repeat constructor; vm_compute; reflexivity); try congruence.
Qed.
Example C08_nonvacuous_Table :
  let o := {| tb_ncols := 2; tb_nrows := 3; tb_rows := [[Some 1%Q; None]; [Some (-7#4)%Q; Some 0%Q]; [None; None]] |} in
  wf_Table o /\ reload "Table" ser_Table deser_Table o = Some o.
Proof.
  split; [|vm_compute; reflexivity].
  unfold wf_Table; cbn. split; auto. repeat constructor; vm_compute; auto; try reflexivity.
Qed.
Example C08_nonvacuous_Polygons :
  let pe := {| pe_zmin := None; pe_zmax := Some 4%Q; pe_pts := [(Some 0%Q, Some 0%Q); (Some 1%Q, Some 0%Q); (Some 1%Q, Some (1#2)%Q)] |} in
  wf_Polygons [pe; pe] /\ reload "Polygon" ser_Polygons deser_Polygons [pe; pe] = Some [pe; pe].
Proof.
  split; [|vm_compute; reflexivity].
  unfold wf_Polygons, wf_PolyElem, wf_pt; cbn. repeat constructor; vm_compute; auto; try reflexivity.
Qed.
Example C08_nonvacuous_AnamHermite :
  let o := {| ah_azmin := None; ah_azmax := None; ah_aymin := None; ah_aymax := None;
              ah_pzmin := Some 0%Q; ah_pzmax := Some 9%Q; ah_pymin := Some (-3)%Q; ah_pymax := Some 3%Q;
              ah_mean := Some (3#2)%Q; ah_variance := Some (5#16)%Q; ah_rcoef := Some 1%Q;
              ah_psi := [Some (3#2)%Q; Some (-1#2)%Q; Some (1#4)%Q] |} in
  wf_AnamHermite o /\ reload "AnamHermite" ser_AnamHermite deser_AnamHermite o = Some o.
Proof.
  split; [|vm_compute; reflexivity].
  unfold wf_AnamHermite; cbn. repeat split; auto; try (repeat constructor; vm_compute; reflexivity); try congruence.
Qed.

(* C08 — property theorems only. Each is closed by [exact] of a lemma of the Proofs_* files. *)
From Coq Require Import Ascii String.
From Coq Require Import List ZArith QArith Bool.
From Gst Require Import C08.Codec C08.Model C08.Model_db C08.Model_vario C08.Model_model C08.Model_more.
From Gst Require Import C08.Proofs_codec C08.Proofs_basic C08.Proofs_db C08.Proofs_vario C08.Proofs_model C08.Proofs_more.
Import ListNotations.
Local Open Scope string_scope.
Local Open Scope list_scope.
Local Open Scope Z_scope.

(* ======================================================================= layer 1: the codec *)

(* A printed list of records (titles with blanks, comments, empty vectors, NA, untitled values sharing a line ...)
   lexes to exactly the expected lines of data words: nothing of a title or comment leaks into the data, no value is
   lost or merged.  Unbounded in the number and size of the records. *)
Theorem C08_lex_print : forall rs, forallb good_rec rs = true -> lex (print rs) = layout rs [[]].
Proof. exact lex_print. Qed.
Print Assumptions C08_lex_print.

(* The lexical view is faithful to the two C++ primitives: the raw readers (a word starting with '#' drops the rest
   of its line / blank and '#' lines are skipped, the data line is cut at the first '#' word) give the same word /
   line and leave the same state as the readers used by the models on the comment-free view [lex]. *)
Theorem C08_readers_see_lex : forall cs,
  (fst (rword (lex cs)) = fst (rword_raw (raw_lex cs)) /\ snd (rword (lex cs)) = cut (snd (rword_raw (raw_lex cs)))) /\
  (fst (rline (lex cs)) = fst (rline_raw (raw_lex cs)) /\ snd (rline (lex cs)) = cut (snd (rline_raw (raw_lex cs)))).
Proof. intros cs. rewrite lex_cut. split; [apply rword_raw_cut | apply rline_raw_cut]. Qed.
Print Assumptions C08_readers_see_lex.
Theorem C08_readers_see_lex_step : forall s,
  (fst (rword (cut s)) = fst (rword_raw s) /\ snd (rword (cut s)) = cut (snd (rword_raw s))) /\
  (fst (rline (cut s)) = fst (rline_raw s) /\ snd (rline (cut s)) = cut (snd (rline_raw s))).
Proof. intros s. split; [apply rword_raw_cut | apply rline_raw_cut]. Qed.

(* number tokens print and parse to themselves (integers incl. the NA code, rationals, NA) *)
Theorem C08_int_token : forall z, parse_int (print_int z) = Some z /\ good_word (print_int z) = true.
Proof. intros z. split; [apply parse_print_int | apply print_int_good]. Qed.
Print Assumptions C08_int_token.
Theorem C08_dbl_token : forall d, wf_dbl d -> parse_dbl (print_dbl d) = Some d /\ good_word (print_dbl d) = true.
Proof. intros d H. split; [apply parse_print_dbl; exact H | apply print_dbl_good]. Qed.
Print Assumptions C08_dbl_token.

(* reader calculus: a reader that consumes the records rs and a continuation that consumes rs' consume rs ++ rs' *)
Theorem C08_reads_compose : forall A B (r : reader A) (f : A -> reader B) rs1 rs2 a b,
  reads r rs1 a -> reads (f a) rs2 b -> reads (bind r f) (rs1 ++ rs2) b.
Proof. exact @reads_bind. Qed.
Print Assumptions C08_reads_compose.

(* generic: a body reader that consumes the printed body gives back the object from the whole printed file *)
Theorem C08_file_roundtrip : forall A name (body : reader A) rs a,
  reads body rs a -> good_word (W name) = true -> forallb good_rec rs = true ->
  nf_read name body (lex (print (nf_write name rs))) = Some a.
Proof. exact @nf_roundtrip. Qed.
Print Assumptions C08_file_roundtrip.

(* regression (fix C08_12): an empty vector record followed by more data is read back as the empty vector (the line
   reader used to take the next data line) *)
Theorem C08_empty_vector_cured :
  nf_read "T" (v <- rd_vdbl 0 ;; x <- rd_int ;; ret (v, x)) (lex (print (nf_write "T" [r_vdbl "V" []; r_int "n" 7]))) = Some ([], 7).
Proof. exact empty_vector_read_back. Qed.
Theorem C08_empty_vector_reads : forall A (p : word -> option A) t, reads (rd_vec p 0) [RVec t []] [].
Proof. exact @reads_vec_nil. Qed.

(* ======================================================================= layer 2: classes *)
(* reload name ser deser o = nf_read name deser (lex (print (nf_write name (ser o)))) ; file = print (nf_write ...) *)

(* ---- NeighUnique: holds iff the flags that are never written have their default value *)
Theorem C08_NeighUnique_roundtrip : forall a, wf_aneigh a ->
  reload "NeighUnique" ser_NeighUnique deser_NeighUnique a = Some a.
Proof. intros a H. apply roundtrip_of_reads; [reflexivity | apply good_ANeigh | apply NeighUnique_reads; exact H]. Qed.
Print Assumptions C08_NeighUnique_roundtrip.
Theorem C08_NeighUnique_rewrite : forall a a', wf_aneigh a ->
  reload "NeighUnique" ser_NeighUnique deser_NeighUnique a = Some a' ->
  file "NeighUnique" ser_NeighUnique a' = file "NeighUnique" ser_NeighUnique a.
Proof. intros a a' H. apply rewrite_of_roundtrip. apply C08_NeighUnique_roundtrip; exact H. Qed.
Theorem C08_NeighUnique_refuted : exists a,
  reload "NeighUnique" ser_NeighUnique deser_NeighUnique a <> Some a.
Proof.
  exists {| an_ndim := 2; an_xvalid := true; an_kfold := false; an_ball := false; an_leaf := 10 |}.
  vm_compute. congruence.
Qed.

(* ---- NeighBench *)
Theorem C08_NeighBench_roundtrip : forall o, wf_NeighBench o ->
  reload "NeighBench" ser_NeighBench deser_NeighBench o = Some o.
Proof. intros o H. apply roundtrip_of_reads; [reflexivity | apply good_NeighBench | apply NeighBench_reads; exact H]. Qed.
Print Assumptions C08_NeighBench_roundtrip.
Theorem C08_NeighBench_rewrite : forall o o', wf_NeighBench o ->
  reload "NeighBench" ser_NeighBench deser_NeighBench o = Some o' ->
  file "NeighBench" ser_NeighBench o' = file "NeighBench" ser_NeighBench o.
Proof. intros o o' H. apply rewrite_of_roundtrip. apply C08_NeighBench_roundtrip; exact H. Qed.
(* regression: NeighBench::create(false, 2.5) keeps getWidth() = 2.5 (it came back as 0 before the fix) *)
Theorem C08_NeighBench_width_kept :
  let o := {| nb_base := aneigh_default 2; nb_width := Some (5#2)%Q; nb_bipt_width := Some (5#2)%Q |} in
  reload "NeighBench" ser_NeighBench deser_NeighBench o = Some o.
Proof. vm_compute. reflexivity. Qed.

(* ---- NeighCell *)
Theorem C08_NeighCell_roundtrip : forall o, wf_NeighCell o ->
  reload "NeighCell" ser_NeighCell deser_NeighCell o = Some o.
Proof. intros o H. apply roundtrip_of_reads; [reflexivity | apply good_NeighCell | apply NeighCell_reads; exact H]. Qed.
Print Assumptions C08_NeighCell_roundtrip.
Theorem C08_NeighCell_rewrite : forall o o', wf_NeighCell o ->
  reload "NeighCell" ser_NeighCell deser_NeighCell o = Some o' ->
  file "NeighCell" ser_NeighCell o' = file "NeighCell" ser_NeighCell o.
Proof. intros o o' H. apply rewrite_of_roundtrip. apply C08_NeighCell_roundtrip; exact H. Qed.

(* ---- NeighMoving: isotropic, anisotropic and rotated search ellipsoids, any radius *)
Theorem C08_NeighMoving_roundtrip : forall o, wf_NeighMoving o ->
  reload "NeighMoving" ser_NeighMoving deser_NeighMoving o = Some o.
Proof. intros o H. apply roundtrip_of_reads; [reflexivity | apply good_NeighMoving | apply NeighMoving_reads; exact H]. Qed.
Print Assumptions C08_NeighMoving_roundtrip.
Theorem C08_NeighMoving_rewrite : forall o o', wf_NeighMoving o ->
  reload "NeighMoving" ser_NeighMoving deser_NeighMoving o = Some o' ->
  file "NeighMoving" ser_NeighMoving o' = file "NeighMoving" ser_NeighMoving o.
Proof. intros o o' H. apply rewrite_of_roundtrip. apply C08_NeighMoving_roundtrip; exact H. Qed.
(* regression witnesses of the former defects: radius 20, coefficients (1, 0.5) (came back as (20, 10)); rotated
   ellipse create(false,10,20.,1,1,0,{1,.5},{30,0}) (the rotation flag came back false) *)
Theorem C08_NeighMoving_scaling_cured :
  reload "NeighMoving" ser_NeighMoving deser_NeighMoving nm_witness_scaling = Some nm_witness_scaling.
Proof. vm_compute. reflexivity. Qed.
Theorem C08_NeighMoving_rotation_cured :
  reload "NeighMoving" ser_NeighMoving deser_NeighMoving nm_witness_rotation = Some nm_witness_rotation.
Proof. vm_compute. reflexivity. Qed.
(* what is still lost: the flags of ANeigh and _distCont are never written *)
Theorem C08_NeighMoving_refuted_distcont :
  let o := {| nm_base := aneigh_default 2; nm_nmini := 1; nm_nmaxi := 10; nm_nsect := 1; nm_nsmax := 0; nm_distcont := Some (1#8)%Q;
              nm_radius := Some 20%Q; nm_aniso := false; nm_rot := false; nm_coeffs := [d1; d1]; nm_rotmat := idmat 2 |} in
  option_map nm_distcont (reload "NeighMoving" ser_NeighMoving deser_NeighMoving o) = Some None.
Proof. vm_compute. reflexivity. Qed.

(* ---- Table: any number of rows and columns *)
Theorem C08_Table_roundtrip : forall o, wf_Table o -> reload "Table" ser_Table deser_Table o = Some o.
Proof. intros o H. apply roundtrip_of_reads; [reflexivity | apply good_Table | apply Table_reads; exact H]. Qed.
Print Assumptions C08_Table_roundtrip.
Theorem C08_Table_rewrite : forall o o', wf_Table o ->
  reload "Table" ser_Table deser_Table o = Some o' -> file "Table" ser_Table o' = file "Table" ser_Table o.
Proof. intros o o' H. apply rewrite_of_roundtrip. apply C08_Table_roundtrip; exact H. Qed.

(* ---- PolyLine2D, PolyElem, Polygons: any number of vertices / elements *)
Theorem C08_PolyLine2D_roundtrip : forall pts, Forall wf_pt pts ->
  reload "PolyLine2D" ser_PolyLine2D deser_PolyLine2D pts = Some pts.
Proof. intros o H. apply roundtrip_of_reads; [reflexivity | apply good_PolyLine2D | apply PolyLine2D_reads; exact H]. Qed.
Print Assumptions C08_PolyLine2D_roundtrip.
Theorem C08_PolyElem_roundtrip : forall o, wf_PolyElem o -> reload "PolyElem" ser_PolyElem deser_PolyElem o = Some o.
Proof. intros o H. apply roundtrip_of_reads; [reflexivity | apply good_PolyElem | apply PolyElem_reads; exact H]. Qed.
Print Assumptions C08_PolyElem_roundtrip.
Theorem C08_PolyLine2D_rewrite : forall o o', Forall wf_pt o ->
  reload "PolyLine2D" ser_PolyLine2D deser_PolyLine2D o = Some o' -> file "PolyLine2D" ser_PolyLine2D o' = file "PolyLine2D" ser_PolyLine2D o.
Proof. intros o o' H. apply rewrite_of_roundtrip. apply C08_PolyLine2D_roundtrip; exact H. Qed.
Theorem C08_PolyElem_rewrite : forall o o', wf_PolyElem o ->
  reload "PolyElem" ser_PolyElem deser_PolyElem o = Some o' -> file "PolyElem" ser_PolyElem o' = file "PolyElem" ser_PolyElem o.
Proof. intros o o' H. apply rewrite_of_roundtrip. apply C08_PolyElem_roundtrip; exact H. Qed.
Theorem C08_Polygons_roundtrip : forall pes, wf_Polygons pes -> reload "Polygon" ser_Polygons deser_Polygons pes = Some pes.
Proof. intros o H. apply roundtrip_of_reads; [reflexivity | apply good_Polygons | apply Polygons_reads; exact H]. Qed.
Print Assumptions C08_Polygons_roundtrip.
Theorem C08_Polygons_rewrite : forall o o', wf_Polygons o ->
  reload "Polygon" ser_Polygons deser_Polygons o = Some o' -> file "Polygon" ser_Polygons o' = file "Polygon" ser_Polygons o.
Proof. intros o o' H. apply rewrite_of_roundtrip. apply C08_Polygons_roundtrip; exact H. Qed.

(* ---- AnamHermite: any number of coefficients (at least one), point or block support; mean and variance must be the
   ones the coefficients give *)
(* regression witness of the former defect (block support r = 1/2, coefficients (1, 2, 4) came back as (1, 1, 1)) *)
Theorem C08_AnamHermite_block_cured :
  reload "AnamHermite" ser_AnamHermite deser_AnamHermite ah_witness = Some ah_witness.
Proof. vm_compute. reflexivity. Qed.
Theorem C08_AnamHermite_roundtrip : forall o, wf_AnamHermite o ->
  reload "AnamHermite" ser_AnamHermite deser_AnamHermite o = Some o.
Proof. intros o H. apply roundtrip_of_reads; [reflexivity | apply good_AnamHermite | apply AnamHermite_reads; exact H]. Qed.
Print Assumptions C08_AnamHermite_roundtrip.
Theorem C08_AnamHermite_rewrite : forall o o', wf_AnamHermite o ->
  reload "AnamHermite" ser_AnamHermite deser_AnamHermite o = Some o' ->
  file "AnamHermite" ser_AnamHermite o' = file "AnamHermite" ser_AnamHermite o.
Proof. intros o o' H. apply rewrite_of_roundtrip. apply C08_AnamHermite_roundtrip; exact H. Qed.

(* ---- Db: any number of columns (at least one) and samples; distinct names that are words; any locators.
   The replay hypothesis on the locators is executable: it says that Db::setLocatorByUID, applied column by column to
   the fresh Db, gives back the locators (true for every Db met by the correspondence). *)
Theorem C08_Db_roundtrip : forall o, wf_Db o -> reload "Db" ser_Db deser_Db o = Some o.
Proof.
  intros o H. apply roundtrip_of_reads; [reflexivity | | apply Db_reads; exact H].
  apply good_Db. destruct H as (_ & _ & _ & _ & Hg & _). exact Hg.
Qed.
Print Assumptions C08_Db_roundtrip.
Theorem C08_Db_rewrite : forall o o', wf_Db o ->
  reload "Db" ser_Db deser_Db o = Some o' -> file "Db" ser_Db o' = file "Db" ser_Db o.
Proof. intros o o' H. apply rewrite_of_roundtrip. apply C08_Db_roundtrip; exact H. Qed.
(* the text of a locator is identified back (getLocatorName / locatorIdentify), any index *)
Theorem C08_Db_locator_text : forall l, wf_lc l -> loc_identify (loc_name l) = Some l.
Proof. exact loc_identify_name. Qed.
Print Assumptions C08_Db_locator_text.
(* distinct names are kept (correctNamesForDuplicates) *)
Theorem C08_Db_names_replay : forall names, NoDup names -> replay_names names = names.
Proof. exact replay_names_nodup. Qed.
Print Assumptions C08_Db_names_replay.
(* regression witnesses of the former defects: "facies1" was identified as "f"; a first column called like the
   provisional name of the second one ("New-2") was renamed *)
Theorem C08_Db_facies_cured :
  let o := {| db_nech := 1; db_names := [W "fac"; W "gf"]; db_locs := [Some (23%nat, 0); Some (24%nat, 1)]; db_rows := [[Some 1%Q; Some 2%Q]] |} in
  option_map db_locs (reload "Db" ser_Db deser_Db o) = Some [Some (23%nat, 0); Some (24%nat, 1)].
Proof. vm_compute. reflexivity. Qed.
Theorem C08_Db_names_cured :
  let o := {| db_nech := 1; db_names := [W "New-2"; W "a"]; db_locs := [None; None]; db_rows := [[Some 1%Q; Some 2%Q]] |} in
  reload "Db" ser_Db deser_Db o = Some o.
Proof. vm_compute. reflexivity. Qed.
(* a name with a blank is two words in the file: the reload fails *)
Theorem C08_Db_refuted_blank :
  let o := {| db_nech := 1; db_names := [W "Zn ppm"]; db_locs := [None]; db_rows := [[Some 1%Q]] |} in
  reload "Db" ser_Db deser_Db o = None.
Proof. vm_compute. reflexivity. Qed.

(* ---- DbGrid: any space dimension *)
Theorem C08_DbGrid_roundtrip : forall o, wf_DbGrid o -> reload "DbGrid" ser_DbGrid deser_DbGrid o = Some o.
Proof.
  intros o H. apply roundtrip_of_reads; [reflexivity | | apply DbGrid_reads; exact H].
  apply good_DbGrid. destruct H as (_ & _ & (_ & _ & _ & _ & Hg & _)). exact Hg.
Qed.
Print Assumptions C08_DbGrid_roundtrip.
Theorem C08_DbGrid_rewrite : forall o o', wf_DbGrid o ->
  reload "DbGrid" ser_DbGrid deser_DbGrid o = Some o' -> file "DbGrid" ser_DbGrid o' = file "DbGrid" ser_DbGrid o.
Proof. intros o o' H. apply rewrite_of_roundtrip. apply C08_DbGrid_roundtrip; exact H. Qed.

(* ---- Vario: any calculation type (symmetric or not), undefined results allowed; regular lags, directions not
   defined on a grid; any number of variables, directions, lags *)
Theorem C08_Vario_roundtrip : forall o, wf_Vario o -> forallb good_word (vr_names o) = true ->
  reload "Vario" ser_Vario deser_Vario o = Some o.
Proof. intros o H Hn. apply roundtrip_of_reads; [reflexivity | apply good_Vario; exact Hn | apply Vario_reads; exact H]. Qed.
Print Assumptions C08_Vario_roundtrip.
Theorem C08_Vario_rewrite : forall o o', wf_Vario o -> forallb good_word (vr_names o) = true ->
  reload "Vario" ser_Vario deser_Vario o = Some o' -> file "Vario" ser_Vario o' = file "Vario" ser_Vario o.
Proof. intros o o' H Hn. apply rewrite_of_roundtrip. apply C08_Vario_roundtrip; assumption. Qed.
Definition vario_witness (calcul : Z) (res : list triple) : vario :=
  {| vr_ndim := 1; vr_nvar := 1; vr_scale := Some 0%Q; vr_calcul := calcul; vr_names := [W "z"]; vr_vars := [[Some 2%Q]];
     vr_dirs := [{| vd_regular := true; vd_npas := 1; vd_optcode := 0; vd_tolcode := Some 0%Q; vd_dpas := Some 1%Q;
                    vd_toldist := Some (1#2)%Q; vd_grincr := []; vd_tolang := Some 90%Q; vd_codir := [Some 1%Q]; vd_res := res |}] |}.
(* regression witnesses of the former defects: a covariance (2 npas + 1 results per direction) came back as a
   variogram with the first npas results; an undefined result came back as 0 *)
Theorem C08_Vario_asym_cured :
  let t k := (Some (inject_Z k), Some (inject_Z k), Some (inject_Z k)) in
  let o := vario_witness 1 [t 1; t 2; t 3] in reload "Vario" ser_Vario deser_Vario o = Some o.
Proof. vm_compute. reflexivity. Qed.
Theorem C08_Vario_undefined_cured :
  let o := vario_witness 0 [(Some 0%Q, None, None)] in reload "Vario" ser_Vario deser_Vario o = Some o.
Proof. vm_compute. reflexivity. Qed.
(* irregular lags: only the flag is written, the direction comes back regular *)
Theorem C08_Vario_refuted_breaks :
  let d := {| vd_regular := false; vd_npas := 1; vd_optcode := 0; vd_tolcode := Some 0%Q; vd_dpas := Some 1%Q;
              vd_toldist := Some (1#2)%Q; vd_grincr := []; vd_tolang := Some 90%Q; vd_codir := [Some 1%Q];
              vd_res := [(Some 1%Q, Some 1%Q, Some 1%Q)] |} in
  let o := {| vr_ndim := 1; vr_nvar := 1; vr_scale := Some 0%Q; vr_calcul := 0; vr_names := [W "z"]; vr_vars := [[Some 2%Q]]; vr_dirs := [d] |} in
  option_map (fun o => map vd_regular (vr_dirs o)) (reload "Vario" ser_Vario deser_Vario o) = Some [true].
Proof. vm_compute. reflexivity. Qed.

(* ---- Model: any number of structures (isotropic, anisotropic, rotated), variables, dimensions, drifts.
   hr, hp: which covariance types have a range / a third parameter (the library's own answer at run time). *)
Theorem C08_Model_roundtrip : forall hr hp o, wf_Model hr hp o -> forallb good_word (md_drifts o) = true ->
  reload "Model" ser_Model (deser_Model hr hp) o = Some o.
Proof.
  intros hr hp o H Hd. apply roundtrip_of_reads; [reflexivity | apply good_Model; exact Hd | apply Model_reads; exact H].
Qed.
Print Assumptions C08_Model_roundtrip.
Theorem C08_Model_rewrite : forall hr hp o o', wf_Model hr hp o -> forallb good_word (md_drifts o) = true ->
  reload "Model" ser_Model (deser_Model hr hp) o = Some o' -> file "Model" ser_Model o' = file "Model" ser_Model o.
Proof. intros hr hp o o' H Hd. apply rewrite_of_roundtrip. apply C08_Model_roundtrip; assumption. Qed.
(* the anisotropy coefficients times the largest range give back each range *)
Theorem C08_Model_ranges : forall rs, rs <> [] -> Forall posd rs ->
  map (fun c => dmul c (dmax rs)) (map (fun r => ddiv r (dmax rs)) rs) = rs.
Proof. exact map_dmul_ddiv. Qed.
Print Assumptions C08_Model_ranges.
(* with a drift the means are not written: they come back as 0 *)
Theorem C08_Model_refuted_means :
  let o := {| md_ndim := 1; md_nvar := 1; md_field := None; md_covs := []; md_drifts := [W "Universality_Condition"];
              md_means := [Some 5%Q]; md_covar0 := [[Some 1%Q]] |} in
  option_map md_means (reload "Model" ser_Model (deser_Model (fun _ => true) (fun _ => false)) o) = Some [Some 0%Q].
Proof. vm_compute. reflexivity. Qed.

(* ---- AnamEmpirical: any number of discretisation points (at least one); the two flags that are never written must
   have their default value *)
Theorem C08_AnamEmpirical_roundtrip : forall o, wf_AnamEmpirical o ->
  reload "AnamEmpirical" ser_AnamEmpirical deser_AnamEmpirical o = Some o.
Proof. intros o H. apply roundtrip_of_reads; [reflexivity | apply good_AnamEmpirical | apply AnamEmpirical_reads; exact H]. Qed.
Print Assumptions C08_AnamEmpirical_roundtrip.
Theorem C08_AnamEmpirical_rewrite : forall o o', wf_AnamEmpirical o ->
  reload "AnamEmpirical" ser_AnamEmpirical deser_AnamEmpirical o = Some o' ->
  file "AnamEmpirical" ser_AnamEmpirical o' = file "AnamEmpirical" ser_AnamEmpirical o.
Proof. intros o o' H. apply rewrite_of_roundtrip. apply C08_AnamEmpirical_roundtrip; exact H. Qed.
(* the dilution flag is not written *)
Theorem C08_AnamEmpirical_refuted_flags :
  let c := {| ac_azmin := None; ac_azmax := None; ac_aymin := None; ac_aymax := None; ac_pzmin := None; ac_pzmax := None;
              ac_pymin := None; ac_pymax := None; ac_mean := None; ac_variance := None |} in
  let o := {| ae_cont := c; ae_sigma2e := Some (1#8)%Q; ae_z := [Some 1%Q]; ae_y := [Some 0%Q]; ae_dilution := true; ae_gaussian := false |} in
  option_map (fun o => (ae_dilution o, ae_gaussian o)) (reload "AnamEmpirical" ser_AnamEmpirical deser_AnamEmpirical o) = Some (false, true).
Proof. vm_compute. reflexivity. Qed.

(* ---- MeshETurbo: any dimension (at least 1), any grid, with or without masks on meshes / grid nodes *)
Theorem C08_MeshETurbo_roundtrip : forall o, wf_MeshETurbo o ->
  reload "MeshETurbo" ser_MeshETurbo deser_MeshETurbo o = Some o.
Proof. intros o H. apply roundtrip_of_reads; [reflexivity | apply good_MeshETurbo | apply MeshETurbo_reads; exact H]. Qed.
Print Assumptions C08_MeshETurbo_roundtrip.
Theorem C08_MeshETurbo_rewrite : forall o o', wf_MeshETurbo o ->
  reload "MeshETurbo" ser_MeshETurbo deser_MeshETurbo o = Some o' ->
  file "MeshETurbo" ser_MeshETurbo o' = file "MeshETurbo" ser_MeshETurbo o.
Proof. intros o o' H. apply rewrite_of_roundtrip. apply C08_MeshETurbo_roundtrip; exact H. Qed.

(* ======================================================================= non-vacuity *)
Example C08_nonvacuous_lex :
  let rs := [RTag (W "X"); r_int "Space Dimension" 2; r_int "" 3; r_int "" ITEST; r_com "a title # with hash";
             r_vdbl "" [Some (1#3)%Q; None]; r_vstr "Names" [W "a"; W "b"]; r_dbl "last" (Some (5#2)%Q)] in
  forallb good_rec rs = true /\
  lex (print rs) = [[W "X"]; [W "2"]; [W "3"; W "NA"]; [W "1/3"; W "NA"]; []; [W "a"; W "b"]; [W "5/2"]; []].
Proof. vm_compute. split; reflexivity. Qed.
Example C08_nonvacuous_NeighMoving :
  let o := {| nm_base := aneigh_default 3; nm_nmini := 2; nm_nmaxi := 10; nm_nsect := 4; nm_nsmax := 3; nm_distcont := None;
              nm_radius := Some 20%Q; nm_aniso := true; nm_rot := true;
              nm_coeffs := [Some 3%Q; Some (1#2)%Q; Some 7%Q];
              nm_rotmat := [Some (4#5)%Q; Some (3#5)%Q; Some 0%Q; Some (-3#5)%Q; Some (4#5)%Q; Some 0%Q; Some 0%Q; Some 0%Q; Some 1%Q] |} in
  wf_NeighMoving o /\ reload "NeighMoving" ser_NeighMoving deser_NeighMoving o = Some o.
Proof.
  split; [|vm_compute; reflexivity].
  unfold wf_NeighMoving; cbn. repeat split; auto; try (repeat constructor; vm_compute; reflexivity); try congruence.
Qed.
Example C08_nonvacuous_Table :
  let o := {| tb_ncols := 2; tb_nrows := 3; tb_rows := [[Some 1%Q; None]; [Some (-7#4)%Q; Some 0%Q]; [None; None]] |} in
  wf_Table o /\ reload "Table" ser_Table deser_Table o = Some o.
Proof.
  split; [|vm_compute; reflexivity].
  unfold wf_Table; cbn. split; auto. repeat constructor; vm_compute; auto; try reflexivity.
Qed.
Example C08_nonvacuous_Polygons :
  let pe := {| pe_zmin := None; pe_zmax := Some 4%Q; pe_pts := [(Some 0%Q, Some 0%Q); (Some 1%Q, Some 0%Q); (Some 1%Q, Some (1#2)%Q)] |} in
  wf_Polygons [pe; pe] /\ reload "Polygon" ser_Polygons deser_Polygons [pe; pe] = Some [pe; pe].
Proof.
  split; [|vm_compute; reflexivity].
  unfold wf_Polygons, wf_PolyElem, wf_pt; cbn. repeat constructor; vm_compute; auto; try reflexivity.
Qed.
Example C08_nonvacuous_AnamHermite :
  let o := {| ah_azmin := None; ah_azmax := None; ah_aymin := None; ah_aymax := None;
              ah_pzmin := Some 0%Q; ah_pzmax := Some 9%Q; ah_pymin := Some (-3)%Q; ah_pymax := Some 3%Q;
              ah_mean := Some (3#2)%Q; ah_variance := Some (17#256)%Q; ah_rcoef := Some (1#2)%Q;
              ah_psi := [Some (3#2)%Q; Some (-1#2)%Q; Some (1#4)%Q] |} in
  wf_AnamHermite o /\ reload "AnamHermite" ser_AnamHermite deser_AnamHermite o = Some o.
Proof.
  split; [|vm_compute; reflexivity].
  unfold wf_AnamHermite; cbn. repeat split; auto; try (repeat constructor; vm_compute; reflexivity); try congruence.
Qed.
Ltac fa := match goal with |- Forall _ ?l => let l' := eval vm_compute in l in change l with l' end;
           repeat (apply Forall_cons); try apply Forall_nil.
Ltac wd := match goal with
  | |- wf_dbl ?d => let d' := eval vm_compute in d in
                    match d' with None => exact I | Some _ => change d with d'; split; vm_compute; reflexivity end
  end.
Ltac nd := repeat (constructor; [vm_compute; intuition discriminate|]); constructor.
Example C08_nonvacuous_Db :
  let o := {| db_nech := 2; db_names := [W "x"; W "z2"; W "zz"; W "sel"];
              db_locs := [Some (0%nat, 0); Some (1%nat, 1); Some (1%nat, 0); Some (10%nat, 0)];
              db_rows := [[Some 0%Q; Some (3#2)%Q; None; Some 1%Q]; [Some 1%Q; None; Some 2%Q; Some 0%Q]] |} in
  wf_Db o /\ reload "Db" ser_Db deser_Db o = Some o.
Proof.
  split; [|vm_compute; reflexivity].
  unfold wf_Db; cbn [db_nech db_names db_locs db_rows].
  split; [discriminate|]. split; [reflexivity|]. split; [reflexivity|].
  split. { fa; (split; [reflexivity | split; [fa; wd | discriminate]]). }
  split; [vm_compute; reflexivity|].
  split. { fa; vm_compute; repeat split; congruence. }
  split; [nd | vm_compute; reflexivity].
Qed.
Example C08_nonvacuous_DbGrid :
  let d := {| db_nech := 2; db_names := [W "rank"; W "v"]; db_locs := [None; Some (1%nat, 0)];
              db_rows := [[Some 1%Q; Some (3#2)%Q]; [Some 2%Q; None]] |} in
  let o := {| dg_dims := [{| g_nx := 2; g_x0 := Some 10%Q; g_dx := Some (1#2)%Q; g_angle := Some 30%Q |};
                          {| g_nx := 1; g_x0 := Some 0%Q; g_dx := Some 1%Q; g_angle := Some 0%Q |}]; dg_db := d |} in
  wf_DbGrid o /\ reload "DbGrid" ser_DbGrid deser_DbGrid o = Some o.
Proof.
  split; [|vm_compute; reflexivity].
  unfold wf_DbGrid; cbn [dg_dims dg_db].
  split. { fa; unfold wf_gdim; cbn [g_nx g_x0 g_dx g_angle]; (split; [wd|]); (split; [wd|]); (split; [wd|]); split; reflexivity. }
  split; [reflexivity|].
  unfold wf_Db; cbn [db_nech db_names db_locs db_rows].
  split; [discriminate|]. split; [reflexivity|]. split; [reflexivity|].
  split. { fa; (split; [reflexivity | split; [fa; wd | discriminate]]). }
  split; [vm_compute; reflexivity|].
  split. { fa; vm_compute; repeat split; congruence. }
  split; [nd | vm_compute; reflexivity].
Qed.
Example C08_nonvacuous_Vario :
  let t k := (Some (inject_Z k), Some (k # 2)%Q, Some (inject_Z k)) in
  let o := {| vr_ndim := 2; vr_nvar := 2; vr_scale := Some 0%Q; vr_calcul := 1; vr_names := [W "a"; W "b"];
              vr_vars := [[Some 2%Q; Some (1#2)%Q]; [Some (1#2)%Q; Some 3%Q]];
              vr_dirs := [{| vd_regular := true; vd_npas := 2; vd_optcode := 0; vd_tolcode := Some 0%Q; vd_dpas := Some 1%Q;
                             vd_toldist := Some (1#2)%Q; vd_grincr := []; vd_tolang := Some 45%Q;
                             vd_codir := [Some (3#5)%Q; Some (4#5)%Q]; vd_res := map t [1; 3; 5; 7; 9; 11; 13; 15; 17; 19; 21; 23; 25; 27; 29] |}] |} in
  wf_Vario o /\ reload "Vario" ser_Vario deser_Vario o = Some o.
Proof.
  split; [|vm_compute; reflexivity].
  unfold wf_Vario; cbn [vr_ndim vr_nvar vr_scale vr_calcul vr_names vr_vars vr_dirs].
  split; [wd|]. split; [reflexivity|]. split; [reflexivity|].
  split. { fa; (split; [reflexivity | fa; wd]). }
  fa. unfold wf_vdir; cbn [vd_regular vd_npas vd_optcode vd_tolcode vd_dpas vd_toldist vd_grincr vd_tolang vd_codir vd_res].
  split; [reflexivity|]. split; [reflexivity|]. split; [wd|]. split; [wd|]. split; [wd|]. split; [wd|].
  split; [vm_compute; reflexivity|]. split; [reflexivity|]. split; [fa; wd|]. split; [discriminate|].
  split; [reflexivity|].
  fa; unfold wf_triple; repeat split; vm_compute; reflexivity.
Qed.
Example C08_nonvacuous_Model :
  let hr := fun t => negb (t =? 0) in let hp := fun t => t =? 7 in
  let rot := [Some (4#5)%Q; Some (3#5)%Q; Some (-3#5)%Q; Some (4#5)%Q] in
  let o := {| md_ndim := 2; md_nvar := 1; md_field := None;
              md_covs := [{| cv_type := 0; cv_param := Some 0%Q; cv_ranges := []; cv_rotmat := idmat 2; cv_sill := [[Some (1#2)%Q]] |};
                          {| cv_type := 3; cv_param := Some 0%Q; cv_ranges := [Some 10%Q; Some 4%Q]; cv_rotmat := rot; cv_sill := [[Some 2%Q]] |};
                          {| cv_type := 7; cv_param := Some (3#2)%Q; cv_ranges := [Some 5%Q; Some 5%Q]; cv_rotmat := idmat 2; cv_sill := [[Some 1%Q]] |}];
              md_drifts := []; md_means := [Some (3#2)%Q]; md_covar0 := [[Some 1%Q]] |} in
  wf_Model hr hp o /\ reload "Model" ser_Model (deser_Model hr hp) o = Some o.
Proof.
  cbv zeta. split; [|vm_compute; reflexivity].
  unfold wf_Model; cbn [md_ndim md_nvar md_field md_covs md_drifts md_means md_covar0 null].
  split; [wd|].
  split.
  { fa; unfold wf_cova; cbn [cv_type cv_param cv_ranges cv_rotmat cv_sill].
    - split; [wd|]. split; [intros _; reflexivity|]. cbn [Z.eqb negb]. split; [split; reflexivity|].
      split; [reflexivity|]. split; [fa; split; [reflexivity | fa; wd]|]. reflexivity.
    - split; [wd|]. split; [intros _; reflexivity|]. cbn [Z.eqb Pos.eqb negb].
      split.
      { split; [reflexivity|]. split; [discriminate|].
        split; [fa; unfold posd; (split; [vm_compute; reflexivity | split; vm_compute; reflexivity])|].
        split; [intros H; vm_compute in H; discriminate|].
        split; [intros H; vm_compute in H; discriminate|].
        split; [reflexivity|]. split; [fa; wd | discriminate]. }
      split; [reflexivity|]. split; [fa; split; [reflexivity | fa; wd]|]. reflexivity.
    - split; [wd|]. split; [intros H; vm_compute in H; discriminate|]. cbn [Z.eqb Pos.eqb negb].
      split.
      { split; [reflexivity|]. split; [discriminate|].
        split; [fa; unfold posd; (split; [vm_compute; reflexivity | split; vm_compute; reflexivity])|].
        split; [intros _; split; reflexivity|].
        split; [intros _; reflexivity|].
        split; [reflexivity|]. split; [fa; wd | discriminate]. }
      split; [reflexivity|]. split; [fa; split; [reflexivity | fa; wd]|]. reflexivity. }
  split; [split; [reflexivity | fa; wd]|].
  split; [reflexivity|]. fa; split; [reflexivity | fa; wd].
Qed.
Example C08_nonvacuous_AnamEmpirical :
  let c := {| ac_azmin := Some 0%Q; ac_azmax := Some 9%Q; ac_aymin := Some (-3)%Q; ac_aymax := Some 3%Q; ac_pzmin := None; ac_pzmax := None;
              ac_pymin := None; ac_pymax := None; ac_mean := Some (3#2)%Q; ac_variance := Some 2%Q |} in
  let o := {| ae_cont := c; ae_sigma2e := None; ae_z := [Some 1%Q; Some (5#2)%Q; Some 7%Q]; ae_y := [Some (-1)%Q; Some 0%Q; Some (3#2)%Q];
              ae_dilution := false; ae_gaussian := true |} in
  wf_AnamEmpirical o /\ reload "AnamEmpirical" ser_AnamEmpirical deser_AnamEmpirical o = Some o.
Proof.
  cbv zeta. split; [|vm_compute; reflexivity].
  unfold wf_AnamEmpirical, wf_acont; cbn [ae_cont ae_sigma2e ae_z ae_y ae_dilution ae_gaussian ac_azmin ac_azmax ac_aymin ac_aymax ac_pzmin ac_pzmax ac_pymin ac_pymax ac_mean ac_variance].
  split. { repeat split; wd. }
  split; [wd|]. split; [discriminate|]. split; [reflexivity|]. split; [fa; wd|]. split; [fa; wd|]. split; reflexivity.
Qed.
Example C08_nonvacuous_MeshETurbo :
  let o := {| mt_nx := [3; 4]; mt_dx := [Some 1%Q; Some (1#2)%Q]; mt_x0 := [Some 10%Q; Some (-5)%Q];
              mt_rotmat := [Some (4#5)%Q; Some (3#5)%Q; Some (-3#5)%Q; Some (4#5)%Q]; mt_polar := true; mt_mode := 1;
              mt_mesh_mask := [0; 2; 5]; mt_grid_mask := [] |} in
  wf_MeshETurbo o /\ reload "MeshETurbo" ser_MeshETurbo deser_MeshETurbo o = Some o.
Proof.
  cbv zeta. split; [|vm_compute; reflexivity].
  unfold wf_MeshETurbo; cbn [mt_nx mt_dx mt_x0 mt_rotmat].
  split; [discriminate|]. split; [reflexivity|]. split; [reflexivity|]. split; [reflexivity|].
  split; [fa; wd|]. split; fa; wd.
Qed.

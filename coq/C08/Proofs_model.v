(* C08 layer 2 (part 4) — class Model round trip: any number of basic structures, variables, space dimensions, drifts *)
From Coq Require Import Ascii String.
From Coq Require Import List ZArith QArith Qabs Bool Lia Lqa.
From Gst Require Import C08.Codec C08.Proofs_codec C08.Model C08.Proofs_basic C08.Proofs_vario C08.Model_model.
Import ListNotations.
Local Open Scope string_scope.
Local Open Scope list_scope.
Local Open Scope Z_scope.

(* ------------------------------------------------------------------ arithmetic of the anisotropy coefficients *)
(* a usable range: defined, above the 1e-10 below which setRangeIsotropic substitutes 1, and far below the NA code *)
Definition big : Q := 10000000000000000000 # 1.
Definition posd (d : dbl) : Prop := match d with Some q => wfQ q /\ (eps10 < q)%Q /\ (q < big)%Q | None => False end.

Lemma posd_wf d : posd d -> wf_dbl d.
Proof.
  destruct d as [q|]; unfold posd, wf_dbl; [|tauto]. intros (Hq & H1 & H2). split; auto.
  destruct (Qeq_bool q TESTQ) eqn:E; auto. apply Qeq_bool_eq in E. exfalso.
  rewrite E in H2. unfold TESTQ, big, Qlt in H2. vm_compute in H2. discriminate.
Qed.

Lemma dmul_ddiv r m : posd r -> posd m -> dmul (ddiv r m) m = r.
Proof.
  destruct r as [r|], m as [m|]; unfold posd, dmul, ddiv; try tauto. intros [Hr _] (_ & Hm & _). f_equal.
  unfold wfQ in Hr. rewrite <- Hr at 2. apply Qred_complete. rewrite (Qred_correct (r / m)).
  field. intro E. rewrite E in Hm. unfold eps10, Qlt in Hm. simpl in Hm. lia.
Qed.

Lemma ddiv_wf r m : posd r -> posd m -> wf_dbl (ddiv r m).
Proof.
  destruct r as [r|], m as [m|]; unfold posd, ddiv, wf_dbl; try tauto. intros (_ & _ & Hr) (_ & Hm & _). split; [apply wfQ_red|].
  destruct (Qeq_bool (Qred (r / m)) TESTQ) eqn:E; auto. apply Qeq_bool_eq in E. exfalso.
  rewrite Qred_correct in E.
  assert (Hm0 : ~ m == 0). { intro Z0. rewrite Z0 in Hm. unfold eps10, Qlt in Hm. simpl in Hm. lia. }
  assert (Er : r == TESTQ * m). { rewrite <- E. field. exact Hm0. }
  assert (HT : TESTQ == 1234000000000000000000000000000 # 1) by (vm_compute; reflexivity).
  rewrite HT in Er. unfold big in Hr. unfold eps10 in Hm. rewrite Er in Hr. lra.
Qed.

Lemma dmax_pos rs : rs <> [] -> Forall posd rs -> posd (dmax rs).
Proof.
  intros Hne H. unfold dmax. destruct rs as [|r0 rs]; [congruence|]. cbn [hd].
  assert (H0 : posd r0) by (inversion H; auto).
  assert (G : forall l, Forall posd l -> posd (fold_right (fun r acc => match r, acc with
             | Some x, Some y => if Qle_bool x y then acc else r | _, _ => None end) r0 l)).
  { induction l as [|r l IH]; intros Hl; cbn [fold_right]; auto.
    inversion Hl as [|? ? Hr Hl']; subst. specialize (IH Hl').
    destruct r as [x|]; [|destruct Hr].
    match goal with |- context [fold_right ?f r0 l] => destruct (fold_right f r0 l) as [y|] end; [|destruct IH].
    destruct (Qle_bool x y); auto. }
  apply G. exact H.
Qed.

(* ------------------------------------------------------------------ one basic structure *)
Section WithOracles.
Variable hr hp : Z -> bool.
Variable mtail : bool.

Definition strip (c : cova) : cova :=
  {| cv_type := cv_type c; cv_param := cv_param c; cv_ranges := cv_ranges c; cv_rotmat := cv_rotmat c; cv_sill := [] |}.

Definition wf_cova (ndim nvar : Z) (c : cova) : Prop :=
  wf_dbl (cv_param c) /\ (hp (cv_type c) = false -> cv_param c = d0) /\
  (if hr (cv_type c)
   then lenZ (cv_ranges c) = ndim /\ cv_ranges c <> [] /\ Forall posd (cv_ranges c) /\
        (isotropic (cv_ranges c) = true ->
           cv_ranges c = repeat (hd None (cv_ranges c)) (Z.to_nat ndim) /\ cv_rotmat c = idmat (Z.to_nat ndim)) /\
        (has_rotation ndim (cv_rotmat c) = false -> cv_rotmat c = idmat (Z.to_nat ndim)) /\
        lenZ (cv_rotmat c) = ndim * ndim /\ Forall wf_dbl (cv_rotmat c) /\ cv_rotmat c <> []
   else cv_ranges c = [] /\ cv_rotmat c = idmat (Z.to_nat ndim)) /\
  lenZ (cv_sill c) = nvar /\ Forall (fun row => lenZ row = nvar /\ Forall wf_dbl row) (cv_sill c) /\
  symm (cv_sill c) = cv_sill c.

Lemma map_dmul_ddiv rs : rs <> [] -> Forall posd rs ->
  map (fun c => dmul c (dmax rs)) (map (fun r => ddiv r (dmax rs)) rs) = rs.
Proof.
  intros Hne H. pose proof (dmax_pos rs Hne H) as Hm. rewrite map_map.
  transitivity (map (fun x : dbl => x) rs); [|apply map_id].
  apply map_ext_in. intros r Hr. apply dmul_ddiv; auto.
  rewrite Forall_forall in H. auto.
Qed.

Lemma existsb_dle_false rs : Forall posd rs -> existsb (fun r => dle r eps20) rs = false.
Proof.
  induction 1 as [|r rs Hr _ IH]; simpl; auto. rewrite IH, orb_false_r.
  destruct r as [q|]; [|destruct Hr]. destruct Hr as (_ & H1 & _). simpl.
  destruct (Qle_bool q eps20) eqn:E; auto. apply Qle_bool_iff in E. exfalso.
  unfold eps10 in H1. unfold eps20 in E. lra.
Qed.

Lemma reads_cova ndim nvar c : wf_cova ndim nvar c -> reads (rd_cova hr hp ndim) (ser_cova ndim c) (strip c).
Proof.
  destruct c as [type param ranges rotmat sill]. unfold wf_cova, strip.
  cbn [cv_type cv_param cv_ranges cv_rotmat cv_sill].
  intros (Hp & Hpar & Hrange & _).
  unfold rd_cova, ser_cova. cbn [cv_type cv_param cv_ranges cv_rotmat cv_sill].
  assert (Hparam : (if hp type then param else d0) = param).
  { destruct (hp type); auto. symmetry. auto. }
  destruct (hr type) eqn:Ehr.
  - destruct Hrange as (Hlen & Hne & Hpos & Hiso & Hrot & Hrl & Hrw & Hrne).
    assert (Hgr : wf_dbl (get_range ranges)).
    { unfold get_range. destruct ranges as [|r0 rs]; [congruence|].
      destruct (isotropic (r0 :: rs)).
      - apply posd_wf. inversion Hpos; auto.
      - apply posd_wf. apply dmax_pos; auto. }
    destruct (isotropic ranges) eqn:Eiso; cbn [negb b2z].
    + (* isotropic: one range, no coefficients *)
      destruct (Hiso eq_refl) as [Hrep Hid].
      rewrite <- !app_comm_cons, app_nil_l. rd.
      cbn [z2b Z.eqb negb]. rd. cbv beta iota. rewrite Hparam, Ehr. cbn [negb].
      assert (Hr0 : posd (get_range ranges)).
      { unfold get_range. destruct ranges as [|r0 rs]; [congruence|]. rewrite Eiso. inversion Hpos; auto. }
      assert (Hd : dle (get_range ranges) eps10 = false).
      { destruct (get_range ranges) as [q|]; [|destruct Hr0]. destruct Hr0 as (_ & H1 & _). simpl.
        destruct (Qle_bool q eps10) eqn:E; auto. apply Qle_bool_iff in E. exfalso. lra. }
      rewrite Hd. apply reads_ret_eq. f_equal; auto.
      unfold get_range. destruct ranges as [|r0 rs]; [congruence|]. rewrite Eiso. symmetry. exact Hrep.
    + (* anisotropic: coefficients = ranges / largest range, optional rotation matrix *)
      rewrite <- !app_comm_cons, app_nil_l. rd.
      cbn [z2b Z.eqb negb].
      assert (Hgm : get_range ranges = dmax ranges).
      { unfold get_range. destruct ranges as [|r0 rs]; [congruence|]. rewrite Eiso. reflexivity. }
      assert (Hcoef : reads (rrepZ ndim rd_dbl) (map (fun r => r_dbl "" (ddiv r (dmax ranges))) ranges)
                            (map (fun r => ddiv r (dmax ranges)) ranges)).
      { replace (map (fun r => r_dbl "" (ddiv r (dmax ranges))) ranges)
          with (map (r_dbl "") (map (fun r => ddiv r (dmax ranges)) ranges)) by (rewrite map_map; reflexivity).
        apply reads_dbl_list.
        - apply Forall_forall. intros d Hd. apply in_map_iff in Hd. destruct Hd as (r & <- & Hr).
          apply ddiv_wf; [rewrite Forall_forall in Hpos; auto | apply dmax_pos; auto].
        - unfold lenZ. rewrite map_length. exact (eq_sym Hlen). }
      destruct (has_rotation ndim rotmat) eqn:Erot; cbn [b2z].
      * rewrite <- (app_nil_r (map _ ranges ++ _)). eapply reads_bind.
        { eapply reads_bind; [exact Hcoef|]. rd. rewrite app_nil_l. cbn [z2b Z.eqb negb].
          rewrite <- (app_nil_r (map _ rotmat ++ _)). eapply reads_bind.
          { apply reads_com_r. apply reads_dbl_list; auto. }
          apply reads_ret. }
        cbv beta iota. rewrite Hparam, Ehr. cbn [negb]. rewrite Hgm, map_dmul_ddiv by auto.
        rewrite existsb_dle_false by auto. apply reads_ret_eq. f_equal.
        destruct rotmat; [congruence | reflexivity].
      * rewrite <- (app_nil_r (map _ ranges ++ _)). eapply reads_bind.
        { eapply reads_bind; [exact Hcoef|]. rd. rewrite app_nil_l. cbn [z2b Z.eqb negb]. rd. reflexivity. }
        cbv beta iota. rewrite Hparam, Ehr. cbn [negb null]. rewrite Hgm, map_dmul_ddiv by auto.
        rewrite existsb_dle_false by auto. apply reads_ret_eq. f_equal. symmetry. auto.
  - destruct Hrange as [-> ->]. cbn [isotropic negb b2z get_range].
    assert (Hd0 : wf_dbl d0) by (split; reflexivity).
    rewrite <- !app_comm_cons, app_nil_l. rd.
    cbn [z2b Z.eqb negb]. rd. cbv beta iota. rewrite Hparam, Ehr. cbn [negb]. apply reads_ret_eq. reflexivity.
Qed.

(* ------------------------------------------------------------------ whole Model *)
Definition wf_Model (o : model) : Prop :=
  wf_dbl (md_field o) /\ Forall (wf_cova (md_ndim o) (md_nvar o)) (md_covs o) /\
  (if null (md_drifts o) || mtail then lenZ (md_means o) = md_nvar o /\ Forall wf_dbl (md_means o) /\ 0 < md_nvar o
   else md_means o = repeat d0 (Z.to_nat (md_nvar o))) /\
  lenZ (md_covar0 o) = md_nvar o /\ Forall (fun row => lenZ row = md_nvar o /\ Forall wf_dbl row) (md_covar0 o).

Lemma reads_rows nvar rows :
  lenZ rows = nvar -> Forall (fun row => lenZ row = nvar /\ Forall wf_dbl row) rows ->
  reads (rrepZ nvar (rrepZ nvar rd_dbl)) (flat_map (map (r_dbl "")) rows) rows.
Proof.
  intros Hl Hr. apply reads_rrepZ; auto. intros row Hrow. rewrite Forall_forall in Hr.
  destruct (Hr _ Hrow) as [H1 H2]. apply reads_dbl_list; auto.
Qed.

Lemma rebuild_covs (covs : list cova) :
  Forall (fun c => symm (cv_sill c) = cv_sill c) covs ->
  map (fun cs : cova * list (list dbl) =>
         {| cv_type := cv_type (fst cs); cv_param := cv_param (fst cs); cv_ranges := cv_ranges (fst cs);
            cv_rotmat := cv_rotmat (fst cs); cv_sill := symm (snd cs) |})
      (combine (map strip covs) (map cv_sill covs)) = covs.
Proof.
  induction 1 as [|c cs Hc _ IH]; simpl; auto. rewrite IH, Hc. destruct c; reflexivity.
Qed.

Lemma reads_then_ret {A B} (r : reader A) (f : A -> B) rs a b :
  reads r rs a -> f a = b -> reads (bind r (fun x => ret (f x))) rs b.
Proof.
  intros H <-. rewrite <- (app_nil_r rs). eapply reads_bind; [exact H | apply reads_ret].
Qed.

Lemma Model_reads o : wf_Model o -> reads (deser_Model hr hp mtail) (ser_Model mtail o) o.
Proof.
  destruct o as [ndim nvar field covs drifts means covar0]. unfold wf_Model.
  cbn [md_ndim md_nvar md_field md_covs md_drifts md_means md_covar0].
  intros (Hf & Hcovs & Hmeans & Hc0l & Hc0).
  unfold deser_Model, ser_Model. cbn [md_ndim md_nvar md_field md_covs md_drifts md_means md_covar0].
  rewrite <- !app_comm_cons, app_nil_l. rd.
  eapply reads_bind.
  { apply reads_rrepZ_map; auto. intros c Hc. apply reads_cova with (nvar := nvar). rewrite Forall_forall in Hcovs; auto. }
  eapply reads_bind; [rewrite map_as_flat_map; apply reads_rrepZ; [reflexivity | intros x _; apply reads_str]|].
  eapply reads_bind with (a := if null drifts then means else repeat d0 (Z.to_nat nvar)).
  { destruct drifts as [|d ds]; cbn [null orb] in *.
    - destruct Hmeans as (Hl & Hw & _). change (lenZ [] <=? 0) with true. cbv iota. apply reads_dbl_list_t; auto.
    - assert (E : (lenZ (d :: ds) <=? 0) = false) by (apply Z.leb_gt; unfold lenZ; simpl; lia).
      rewrite E. apply reads_ret. }
  eapply reads_bind with (a := map cv_sill covs).
  { apply reads_rrepZ_map; auto. intros c Hc. unfold ser_sill. apply reads_com_r.
    rewrite Forall_forall in Hcovs. destruct (Hcovs _ Hc) as (_ & _ & _ & Hsl & Hsr & _). apply reads_rows; auto. }
  eapply reads_bind; [apply reads_rows; auto|].
  apply reads_com_l.
  assert (Hcov : map
      (fun cs : cova * list (list dbl) =>
       {| cv_type := cv_type (fst cs); cv_param := cv_param (fst cs); cv_ranges := cv_ranges (fst cs);
          cv_rotmat := cv_rotmat (fst cs); cv_sill := symm (snd cs) |}) (combine (map strip covs) (map cv_sill covs)) = covs).
  { apply rebuild_covs. apply Forall_forall. intros c Hc. rewrite Forall_forall in Hcovs.
    destruct (Hcovs _ Hc) as (_ & _ & _ & _ & _ & Hs). exact Hs. }
  change (fun c : cova => strip c) with strip.
  destruct drifts as [|d ds]; cbn [null negb orb andb] in *.
  - rewrite andb_false_r. change (0 <? lenZ []) with false. rewrite andb_false_r. cbn [app]. rd. rewrite Hcov. reflexivity.
  - assert (E : (0 <? lenZ (d :: ds)) = true) by (apply Z.ltb_lt; unfold lenZ; simpl length; lia).
    rewrite E, !andb_true_r. destruct mtail.
    + destruct Hmeans as (Hl & Hw & Hpos).
      assert (Hmne : means <> []). { intro K. subst means. unfold lenZ in Hl. simpl in Hl. lia. }
      destruct means as [|m0 ms]; [congruence|].
      eapply reads_then_ret with (a := m0 :: ms).
      * apply reads_not_eod; [reflexivity|]. apply reads_dbl_list_t; auto.
      * rewrite Hcov. reflexivity.
    + rewrite Hcov, Hmeans. apply reads_ret_eq. reflexivity.
Qed.

Lemma good_Model o : forallb good_word (md_drifts o) = true -> forallb good_rec (ser_Model mtail o) = true.
Proof.
  intros Hd. unfold ser_Model. good.
  - apply forallb_flat_map_true. intros c _. unfold ser_cova. good.
  - apply forallb_flat_map_true. intros c _. unfold ser_sill. good. apply forallb_flat_map_true. intros; good.
  - apply forallb_flat_map_true. intros; good.
Qed.
End WithOracles.

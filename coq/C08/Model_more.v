(* C08 layer 2 (part 5) — AnamEmpirical and MeshETurbo.  Executable definitions only (no proofs).
   AnamContinuous::_serialize / _deserialize   /repo/src/Anamorphosis/AnamContinuous.cpp:165-221
   AnamEmpirical::_serialize / _deserialize    /repo/src/Anamorphosis/AnamEmpirical.cpp:462-505
   MeshETurbo::_serialize / _deserialize       /repo/src/Mesh/MeshETurbo.cpp:913-990 *)
From Coq Require Import Ascii String.
From Coq Require Import List ZArith QArith Bool.
From Gst Require Import C08.Codec C08.Model.
Import ListNotations.
Local Open Scope string_scope.
Local Open Scope list_scope.
Local Open Scope Z_scope.

(* ====================================================================== AnamContinuous part *)
Record acont := {
  ac_azmin : dbl; ac_azmax : dbl; ac_aymin : dbl; ac_aymax : dbl;
  ac_pzmin : dbl; ac_pzmax : dbl; ac_pymin : dbl; ac_pymax : dbl; ac_mean : dbl; ac_variance : dbl }.
Definition ser_AnamContinuous (o : acont) : list record :=
  [ r_dbl "" (ac_azmin o); r_dbl "Absolute Values for Z" (ac_azmax o);
    r_dbl "" (ac_aymin o); r_dbl "Absolute Values for Y" (ac_aymax o);
    r_dbl "" (ac_pzmin o); r_dbl "Practical Values for Z" (ac_pzmax o);
    r_dbl "" (ac_pymin o); r_dbl "Practical Values for Y" (ac_pymax o);
    r_dbl "Calculated mean" (ac_mean o); r_dbl "Calculated variance" (ac_variance o) ].
Definition deser_AnamContinuous : reader acont :=
  azmin <- rd_dbl ;; azmax <- rd_dbl ;; aymin <- rd_dbl ;; aymax <- rd_dbl ;;
  pzmin <- rd_dbl ;; pzmax <- rd_dbl ;; pymin <- rd_dbl ;; pymax <- rd_dbl ;;
  mean <- rd_dbl ;; variance <- rd_dbl ;;
  ret {| ac_azmin := azmin; ac_azmax := azmax; ac_aymin := aymin; ac_aymax := aymax;
         ac_pzmin := pzmin; ac_pzmax := pzmax; ac_pymin := pymin; ac_pymax := pymax;
         ac_mean := mean; ac_variance := variance |}.

(* ====================================================================== AnamEmpirical *)
(* _flagDilution and _flagGaussian are not written: a reloaded object has the defaults of the constructor (false, true).
   _tableWrite writes the first getNDisc() values of the discretisation; setDisc keeps what is read. *)
Record anam_empirical := {
  ae_cont : acont; ae_sigma2e : dbl; ae_z : list dbl; ae_y : list dbl; ae_dilution : bool; ae_gaussian : bool }.
(* [tail]: dialect in which the two flags are appended at the end of the file *)
Definition ser_AnamEmpirical (tail : bool) (o : anam_empirical) : list record :=
  ser_AnamContinuous (ae_cont o)
  ++ [ r_int "Number of Discretization lags" (lenZ (ae_z o)); r_dbl "additional variance" (ae_sigma2e o);
       r_vdbl "Z Values" (ae_z o); r_vdbl "Y Values" (firstn (length (ae_z o)) (ae_y o)) ]
  ++ (if tail then [ r_int "Dilution flag" (b2z (ae_dilution o)); r_int "Gaussian dilution flag" (b2z (ae_gaussian o)) ] else []).
Definition deser_AnamEmpirical (tail : bool) : reader anam_empirical :=
  c <- deser_AnamContinuous ;; ndisc <- rd_int ;; s2 <- rd_dbl ;;
  z <- rd_vdbl ndisc ;; y <- rd_vdbl ndisc ;;
  fl <- (if tail then eod <- rd_eod ;; (if eod : bool then ret (false, true) else d <- rd_int ;; g <- rd_int ;; ret (z2b d, z2b g))
         else ret (false, true)) ;;
  ret {| ae_cont := c; ae_sigma2e := s2; ae_z := z; ae_y := y; ae_dilution := fst fl; ae_gaussian := snd fl |}.

(* ====================================================================== MeshETurbo *)
(* grid (nx, dx, x0, rotation matrix as Grid::getRotMat() gives it), polarisation, storing mode of the two indirections,
   and the masks (lists of absolute ranks; empty = no mask).  Number of meshes of the complete grid:
   prod (nx - 1) * (1, 2, 6 in dimension 1, 2, 3)  (MeshETurbo.cpp:112, 673). *)
Record mesh_turbo := {
  mt_nx : list Z; mt_dx : list dbl; mt_x0 : list dbl; mt_rotmat : list dbl; mt_polar : bool; mt_mode : Z;
  mt_mesh_mask : list Z; mt_grid_mask : list Z }.
Definition per_cell (ndim : Z) : Z := if ndim =? 1 then 1 else if ndim =? 2 then 2 else if ndim =? 3 then 6 else 0.
Definition prodZ (l : list Z) : Z := fold_right Z.mul 1 l.
Definition n_meshes (o : mesh_turbo) : Z :=
  if null (mt_mesh_mask o) then prodZ (map (fun n => n - 1) (mt_nx o)) * per_cell (lenZ (mt_nx o)) else lenZ (mt_mesh_mask o).
Definition n_apices (o : mesh_turbo) : Z :=
  if null (mt_grid_mask o) then prodZ (mt_nx o) else lenZ (mt_grid_mask o).
Definition ser_MeshETurbo (o : mesh_turbo) : list record :=
  [ r_int "Space Dimension" (lenZ (mt_nx o)); r_vint "NX" (mt_nx o); r_vdbl "DX" (mt_dx o); r_vdbl "X0" (mt_x0 o);
    r_vdbl "Rotation" (mt_rotmat o); r_int "Polarization" (b2z (mt_polar o)); r_int "Storing Mode" (mt_mode o);
    r_int "Mesh Active Count" (n_meshes o); r_int "Mesh Masking Count" (lenZ (mt_mesh_mask o)) ]
  ++ (if null (mt_mesh_mask o) then [] else [ r_vint "Mesh Masking" (mt_mesh_mask o) ])
  ++ [ r_int "Grid Active Count" (n_apices o); r_int "Grid Masking Count" (lenZ (mt_grid_mask o)) ]
  ++ (if null (mt_grid_mask o) then [] else [ r_vint "Grid Masking" (mt_grid_mask o) ]).
Definition deser_MeshETurbo : reader mesh_turbo :=
  ndim <- rd_int ;; nx <- rd_vint ndim ;; dx <- rd_vdbl ndim ;; x0 <- rd_vdbl ndim ;; rot <- rd_vdbl (ndim * ndim) ;;
  pol <- rd_int ;; mode <- rd_int ;;
  nma <- rd_int ;; nmm <- rd_int ;;
  mm <- (if 0 <? nmm then rd_vint nma else ret []) ;;
  nga <- rd_int ;; ngm <- rd_int ;;
  gm <- (if 0 <? ngm then rd_vint nga else ret []) ;;
  ret {| mt_nx := nx; mt_dx := dx; mt_x0 := x0; mt_rotmat := rot; mt_polar := z2b pol; mt_mode := mode;
         mt_mesh_mask := mm; mt_grid_mask := gm |}.

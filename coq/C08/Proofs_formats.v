(* C08 — round trips for every format of the files: the files that the library writes now (trailing records: options of
   the neighbourhoods, flags of the anamorphoses, means of a model with drift, number of shift components; Vario of
   level 4; rank-0 leaf of a one-facies rule) and the files of the previous versions (boolean arguments false: the records
   are neither written nor read).  Properties.v states the theorems for the library as it is (arguments true). *)
From Coq Require Import Ascii String.
From Coq Require Import List ZArith QArith Bool.
From Gst Require Import C08.Codec C08.Model C08.Model_db C08.Model_vario C08.Model_model C08.Model_more C08.Model_rest C08.Model_rule.
From Gst Require Import C08.Proofs_codec C08.Proofs_basic C08.Proofs_db C08.Proofs_vario C08.Proofs_model C08.Proofs_more C08.Proofs_rest C08.Proofs_rule.
Import ListNotations.
Local Open Scope string_scope.
Local Open Scope list_scope.
Local Open Scope Z_scope.


Lemma NeighUnique_roundtrip_fmt : forall tail a, wf_aneighD tail a ->
  reload "NeighUnique" (ser_NeighUniqueD tail) (deser_NeighUniqueD tail) a = Some a.
Proof. intros t a H. apply roundtrip_of_reads; [reflexivity | apply good_NeighUniqueD | apply NeighUnique_reads; exact H]. Qed.

Lemma NeighUnique_rewrite_fmt : forall tail a a', wf_aneighD tail a ->
  reload "NeighUnique" (ser_NeighUniqueD tail) (deser_NeighUniqueD tail) a = Some a' ->
  file "NeighUnique" (ser_NeighUniqueD tail) a' = file "NeighUnique" (ser_NeighUniqueD tail) a.
Proof. intros t a a' H. apply rewrite_of_roundtrip. apply NeighUnique_roundtrip_fmt; exact H. Qed.

Lemma NeighBench_roundtrip_fmt : forall tail o, wf_NeighBench tail o ->
  reload "NeighBench" (ser_NeighBenchD tail) (deser_NeighBenchD tail) o = Some o.
Proof. intros t o H. apply roundtrip_of_reads; [reflexivity | apply good_NeighBenchD | apply NeighBench_reads; exact H]. Qed.

Lemma NeighBench_rewrite_fmt : forall tail o o', wf_NeighBench tail o ->
  reload "NeighBench" (ser_NeighBenchD tail) (deser_NeighBenchD tail) o = Some o' ->
  file "NeighBench" (ser_NeighBenchD tail) o' = file "NeighBench" (ser_NeighBenchD tail) o.
Proof. intros t o o' H. apply rewrite_of_roundtrip. apply NeighBench_roundtrip_fmt; exact H. Qed.

Lemma NeighCell_roundtrip_fmt : forall tail o, wf_NeighCell tail o ->
  reload "NeighCell" (ser_NeighCellD tail) (deser_NeighCellD tail) o = Some o.
Proof. intros t o H. apply roundtrip_of_reads; [reflexivity | apply good_NeighCellD | apply NeighCell_reads; exact H]. Qed.

Lemma NeighCell_rewrite_fmt : forall tail o o', wf_NeighCell tail o ->
  reload "NeighCell" (ser_NeighCellD tail) (deser_NeighCellD tail) o = Some o' ->
  file "NeighCell" (ser_NeighCellD tail) o' = file "NeighCell" (ser_NeighCellD tail) o.
Proof. intros t o o' H. apply rewrite_of_roundtrip. apply NeighCell_roundtrip_fmt; exact H. Qed.

Lemma NeighMoving_roundtrip_fmt : forall tail o, wf_NeighMoving tail o ->
  reload "NeighMoving" (ser_NeighMovingD tail) (deser_NeighMovingD tail) o = Some o.
Proof. intros t o H. apply roundtrip_of_reads; [reflexivity | apply good_NeighMovingD | apply NeighMoving_reads; exact H]. Qed.

Lemma NeighMoving_rewrite_fmt : forall tail o o', wf_NeighMoving tail o ->
  reload "NeighMoving" (ser_NeighMovingD tail) (deser_NeighMovingD tail) o = Some o' ->
  file "NeighMoving" (ser_NeighMovingD tail) o' = file "NeighMoving" (ser_NeighMovingD tail) o.
Proof. intros t o o' H. apply rewrite_of_roundtrip. apply NeighMoving_roundtrip_fmt; exact H. Qed.

Lemma AnamHermite_roundtrip_fmt : forall keep btail o, wf_AnamHermiteD keep btail o ->
  reload "AnamHermite" (ser_AnamHermiteD btail) (deser_AnamHermiteD keep btail) o = Some o.
Proof. intros k b o H. apply roundtrip_of_reads; [reflexivity | apply good_AnamHermiteD | apply AnamHermiteD_reads; exact H]. Qed.

Lemma AnamHermite_rewrite_fmt : forall keep btail o o', wf_AnamHermiteD keep btail o ->
  reload "AnamHermite" (ser_AnamHermiteD btail) (deser_AnamHermiteD keep btail) o = Some o' ->
  file "AnamHermite" (ser_AnamHermiteD btail) o' = file "AnamHermite" (ser_AnamHermiteD btail) o.
Proof. intros k b o o' H. apply rewrite_of_roundtrip. apply AnamHermite_roundtrip_fmt; exact H. Qed.

Lemma Vario_roundtrip_fmt : forall v4 o, wf_Vario v4 o -> forallb good_word (vr_names o) = true ->
  reload "Vario" (ser_Vario v4) (deser_Vario v4) o = Some o.
Proof. intros v o H Hn. apply roundtrip_of_reads; [reflexivity | apply good_Vario; exact Hn | apply Vario_reads; exact H]. Qed.

Lemma Vario_rewrite_fmt : forall v4 o o', wf_Vario v4 o -> forallb good_word (vr_names o) = true ->
  reload "Vario" (ser_Vario v4) (deser_Vario v4) o = Some o' -> file "Vario" (ser_Vario v4) o' = file "Vario" (ser_Vario v4) o.
Proof. intros v o o' H Hn. apply rewrite_of_roundtrip. apply Vario_roundtrip_fmt; assumption. Qed.

Lemma Model_roundtrip_fmt : forall hr hp mtail o, wf_Model hr hp mtail o -> forallb good_word (md_drifts o) = true ->
  reload "Model" (ser_Model mtail) (deser_Model hr hp mtail) o = Some o.
Proof.
  intros hr hp mt o H Hd. apply roundtrip_of_reads; [reflexivity | apply good_Model; exact Hd | apply Model_reads; exact H].
Qed.

Lemma Model_rewrite_fmt : forall hr hp mtail o o', wf_Model hr hp mtail o -> forallb good_word (md_drifts o) = true ->
  reload "Model" (ser_Model mtail) (deser_Model hr hp mtail) o = Some o' -> file "Model" (ser_Model mtail) o' = file "Model" (ser_Model mtail) o.
Proof. intros hr hp mt o o' H Hd. apply rewrite_of_roundtrip. apply Model_roundtrip_fmt; assumption. Qed.

Lemma AnamEmpirical_roundtrip_fmt : forall tail o, wf_AnamEmpirical tail o ->
  reload "AnamEmpirical" (ser_AnamEmpirical tail) (deser_AnamEmpirical tail) o = Some o.
Proof. intros t o H. apply roundtrip_of_reads; [reflexivity | apply good_AnamEmpirical | apply AnamEmpirical_reads; exact H]. Qed.

Lemma AnamEmpirical_rewrite_fmt : forall tail o o', wf_AnamEmpirical tail o ->
  reload "AnamEmpirical" (ser_AnamEmpirical tail) (deser_AnamEmpirical tail) o = Some o' ->
  file "AnamEmpirical" (ser_AnamEmpirical tail) o' = file "AnamEmpirical" (ser_AnamEmpirical tail) o.
Proof. intros t o o' H. apply rewrite_of_roundtrip. apply AnamEmpirical_roundtrip_fmt; exact H. Qed.

Lemma NeighImage_roundtrip_fmt : forall tail o, wf_NeighImage tail o ->
  reload "NeighImage" (ser_NeighImage tail) (deser_NeighImage tail) o = Some o.
Proof. intros tail o H. apply roundtrip_of_reads; [reflexivity | apply good_NeighImage | apply NeighImage_reads; exact H]. Qed.

Lemma NeighImage_rewrite_fmt : forall tail o o', wf_NeighImage tail o ->
  reload "NeighImage" (ser_NeighImage tail) (deser_NeighImage tail) o = Some o' ->
  file "NeighImage" (ser_NeighImage tail) o' = file "NeighImage" (ser_NeighImage tail) o.
Proof. intros tail o o' H. apply rewrite_of_roundtrip. apply NeighImage_roundtrip_fmt; exact H. Qed.

Lemma Rule_roundtrip_fmt : forall leaf0 o, wf_Rule leaf0 o -> reload "Rule" ser_Rule (deser_Rule leaf0) o = Some o.
Proof. intros leaf0 o H. apply roundtrip_of_reads; [reflexivity | apply good_Rule | apply Rule_reads; exact H]. Qed.

Lemma Rule_rewrite_fmt : forall leaf0 o o', wf_Rule leaf0 o ->
  reload "Rule" ser_Rule (deser_Rule leaf0) o = Some o' -> file "Rule" ser_Rule o' = file "Rule" ser_Rule o.
Proof. intros leaf0 o o' H. apply rewrite_of_roundtrip. apply Rule_roundtrip_fmt; exact H. Qed.

Lemma RuleShift_roundtrip_fmt : forall leaf0 tail o, wf_RuleShift leaf0 tail o ->
  reload "RuleShift" (ser_RuleShift tail) (deser_RuleShift leaf0 tail) o = Some o.
Proof. intros leaf0 tail o H. apply roundtrip_of_reads; [reflexivity | apply good_RuleShift | apply RuleShift_reads; exact H]. Qed.

Lemma RuleShift_rewrite_fmt : forall leaf0 tail o o', wf_RuleShift leaf0 tail o ->
  reload "RuleShift" (ser_RuleShift tail) (deser_RuleShift leaf0 tail) o = Some o' ->
  file "RuleShift" (ser_RuleShift tail) o' = file "RuleShift" (ser_RuleShift tail) o.
Proof. intros leaf0 tail o o' H. apply rewrite_of_roundtrip. apply RuleShift_roundtrip_fmt; exact H. Qed.

Lemma RuleShadow_roundtrip_fmt : forall leaf0 tail o, wf_RuleShift leaf0 tail o ->
  reload "RuleShadow" (ser_RuleShadow tail) (deser_RuleShift leaf0 tail) o = Some o.
Proof. intros leaf0 tail o H. apply roundtrip_of_reads; [reflexivity | apply good_RuleShadow | apply RuleShadow_reads; exact H]. Qed.

Lemma RuleShadow_rewrite_fmt : forall leaf0 tail o o', wf_RuleShift leaf0 tail o ->
  reload "RuleShadow" (ser_RuleShadow tail) (deser_RuleShift leaf0 tail) o = Some o' ->
  file "RuleShadow" (ser_RuleShadow tail) o' = file "RuleShadow" (ser_RuleShadow tail) o.
Proof. intros leaf0 tail o o' H. apply rewrite_of_roundtrip. apply RuleShadow_roundtrip_fmt; exact H. Qed.

(* C08 layer 2 (part 7) — Rule, RuleShift, RuleShadow.  Executable definitions only (no proofs).
   Rule::_serialize / _ruleDefine / _deserialize / setMainNodeFromNodNames(VectorInt)   /repo/src/LithoRule/Rule.cpp
   RuleShift::_serialize / _deserialize      /repo/src/LithoRule/RuleShift.cpp
   RuleShadow::_serialize / _deserialize     /repo/src/LithoRule/RuleShadow.cpp

   The tree of a lithotype rule: a facies leaf, or a threshold along the first (1) or second (2) gaussian with the two
   sub-rules below and above it.  The writer goes through the tree in prefix order and writes six integers per node:
   type, rank and side (1 / 2) of the parent, type of the node, its rank, its facies.  The rank counter is shared by the
   two kinds of thresholds; a leaf carries the rank of the last threshold written.  The reader rebuilds the tree by
   hanging every node under the threshold found by (type, rank) in two tables. *)
From Coq Require Import Ascii String.
From Coq Require Import List ZArith QArith Bool.
From Gst Require Import C08.Codec C08.Model.
Import ListNotations.
Local Open Scope string_scope.
Local Open Scope list_scope.
Local Open Scope Z_scope.

Inductive rnode := RFac (f : Z) | RThr (o : Z) (l r : rnode).
Fixpoint nnodes (n : rnode) : Z := match n with RFac _ => 1 | RThr _ l r => 1 + nnodes l + nnodes r end.

(* (from_type, from_rank, from_vers, node_type, node_rank, facies) *)
Definition tup := (Z * Z * Z * Z * Z * Z)%type.
(* _ruleDefine(os, node, from_type, from_rank, from_vers, &rank): the node list and the value of the counter afterwards *)
Fixpoint tuples (ft fr fv k : Z) (n : rnode) : list tup * Z :=
  match n with
  | RFac f => ([(ft, fr, fv, 0, k, f)], k)                       (* getFacies() > 0: cur_rank is the current value of the counter *)
  | RThr o l r =>
      let cur := k + 1 in                                          (* the counter is incremented and gives cur_rank *)
      let '(tl, k1) := tuples o cur 1 cur l in
      let '(tr, k2) := tuples o cur 2 k1 r in
      ((ft, fr, fv, o, cur, 0) :: tl ++ tr, k2)
  end.
Definition ser_tup (t : tup) : list record :=
  let '(a, b, c, d, e, f) := t in
  [ r_int "" a; r_int "" b; r_int "" c; r_int "" d; r_int "" e; r_int "" f; r_com "Node characteristics" ].

Record rule := { ru_mode : Z; ru_rho : dbl; ru_main : rnode }.
Definition ser_Rule (o : rule) : list record :=
  [ r_int "Type of Rule" (ru_mode o); r_dbl "Correlation coefficient between GRFs" (ru_rho o);
    r_int "Number of nodes" (nnodes (ru_main o)) ]
  ++ flat_map ser_tup (fst (tuples 0 0 0 0 (ru_main o))).

(* ---- reader *)
(* the checks of setMainNodeFromNodNames on the node list, in the order of the file: the type is 0, 1 or 2; the rank
   lies in [1, nb_node]; a threshold (type, rank) is not defined twice; the type of the parent is 0, 1 or 2, 0 for the first
   node only; from the second node on, the parent (type, rank) is one of the previous nodes.  (That every threshold gets
   its two descendants is the [complete] step below.)
   Dialect [leaf0]: the check on the rank applies to the thresholds only (a facies carries the rank of the last threshold
   written before it: 0 for a rule reduced to a single facies). *)
Definition zmem (p : Z * Z) (l : list (Z * Z)) : bool := existsb (fun q => (fst p =? fst q) && (snd p =? snd q)) l.
Fixpoint valid_nodes (leaf0 : bool) (nb : Z) (seen : list (Z * Z)) (first : bool) (ns : list tup) : bool :=
  match ns with
  | [] => true
  | (ft, fr, fv, ty, rk, fa) :: rest =>
      ((ty =? 0) || (ty =? 1) || (ty =? 2)) && ((leaf0 && (ty =? 0)) || ((1 <=? rk) && (rk <=? nb)))
      && negb (negb (ty =? 0) && zmem (ty, rk) seen)
      && ((ft =? 0) || (ft =? 1) || (ft =? 2)) && (if first then ft =? 0 else negb (ft =? 0))
      && (first || zmem (ft, fr) seen)
      && valid_nodes leaf0 nb (seen ++ [(ty, rk)]) false rest
  end.

(* the tree under construction: a threshold keeps its rank; PHole = child not yet set (null pointer) *)
Inductive ptree := PHole | PFac (f : Z) | PThr (o k : Z) (l r : ptree).
(* n1tab[fr-1] / n2tab[fr-1] -> setR1(node) or setR2(node): the threshold of type ft and rank fr gets the new child *)
Fixpoint pinsert (ft fr fv : Z) (new : ptree) (t : ptree) : ptree :=
  match t with
  | PThr o k l r =>
      let l' := pinsert ft fr fv new l in
      let r' := pinsert ft fr fv new r in
      if (o =? ft) && (k =? fr) then (if fv =? 1 then PThr o k new r' else PThr o k l' new) else PThr o k l' r'
  | _ => t
  end.
Definition new_node (t : tup) : ptree :=
  let '(_, _, _, ty, rk, fa) := t in if ty =? 0 then PFac fa else PThr ty rk PHole PHole.
Definition step (T : ptree) (t : tup) : ptree :=
  let '(ft, fr, fv, _, _, _) := t in
  if (ft =? 1) || (ft =? 2) then pinsert ft fr fv (new_node t) T else T.
Definition build (ns : list tup) : option ptree :=
  match ns with
  | [] => None
  | t :: rest => Some (fold_left step rest (new_node t))          (* if (inode == 0) _mainNode = node_loc *)
  end.
Fixpoint complete (t : ptree) : option rnode :=
  match t with
  | PHole => None
  | PFac f => Some (RFac f)
  | PThr o _ l r => match complete l, complete r with Some a, Some b => Some (RThr o a b) | _, _ => None end
  end.
Definition rd_tup : reader tup :=
  a <- rd_int ;; b <- rd_int ;; c <- rd_int ;; d <- rd_int ;; e <- rd_int ;; f <- rd_int ;; ret (a, b, c, d, e, f).

Definition deser_Rule (leaf0 : bool) : reader rule :=
  mrule <- rd_int ;; rho <- rd_dbl ;; nb <- rd_int ;;
  if nb <=? 0 then fail else
  ns <- rrepZ nb rd_tup ;;
  (* a node list that fails the checks, or leaves a threshold without one of its children, gives a rule that cannot be
     used: not modelled (failure) *)
  if valid_nodes leaf0 nb [] true ns then
    match build ns with
    | Some T => match complete T with Some n => ret {| ru_mode := mrule; ru_rho := rho; ru_main := n |} | None => fail end
    | None => fail
    end
  else fail.

(* ====================================================================== RuleShift / RuleShadow *)
(* Rule part, then slope, lower and upper thresholds (an undefined value is written as 0) and the shift, written on three
   components (padded with 0).  In the dialect [tail] the number of components of the shift follows. *)
Record rule_shift := { rs_rule : rule; rs_slope : dbl; rs_shdown : dbl; rs_shdsup : dbl; rs_shift : list dbl }.
Definition na0 (d : dbl) : dbl := if is_na d then d0 else d.
Definition pad3 (l : list dbl) : list dbl := firstn 3 (l ++ [d0; d0; d0]).
Definition nth_d (l : list dbl) (i : nat) : dbl := nth i l d0.
Definition ser_shift_tail (tail : bool) (o : rule_shift) : list record :=
  if tail then [ r_int "Number of Shift components" (lenZ (rs_shift o)) ] else [].
Definition ser_RuleShift (tail : bool) (o : rule_shift) : list record :=
  let s := pad3 (rs_shift o) in
  ser_Rule (rs_rule o)
  ++ [ r_dbl "Slope for Shadow Rule" (na0 (rs_slope o)); r_dbl "Lower Threshold for Shadow Rule" (na0 (rs_shdown o));
       r_dbl "Upper Threshold for Shadow Rule" (na0 (rs_shdsup o));
       r_dbl "Shift along first direction" (nth_d s 0); r_dbl "Shift along second direction" (nth_d s 1);
       r_dbl "Shift along third direction" (nth_d s 2) ]
  ++ ser_shift_tail tail o.
Definition shadow_title : string := Eval vm_compute in String.append "Para" "meters for Shadow option".
Definition shift_title : string := Eval vm_compute in String.append "Para" "meters for Shift option".
Definition ser_RuleShadow (tail : bool) (o : rule_shift) : list record :=
  let s := pad3 (rs_shift o) in
  ser_Rule (rs_rule o)
  ++ [ r_dbl "" (na0 (rs_slope o)); r_dbl "" (na0 (rs_shdown o)); r_dbl shadow_title (na0 (rs_shdsup o));
       r_dbl "" (nth_d s 0); r_dbl "" (nth_d s 1); r_dbl shift_title (nth_d s 2) ]
  ++ ser_shift_tail tail o.
Definition deser_RuleShift (leaf0 tail : bool) : reader rule_shift :=
  r <- deser_Rule leaf0 ;;
  slope <- rd_dbl ;; dn <- rd_dbl ;; up <- rd_dbl ;; s0 <- rd_dbl ;; s1 <- rd_dbl ;; s2 <- rd_dbl ;;
  n <- (if tail then eod <- rd_eod ;; (if eod : bool then ret 3 else rd_int) else ret 3) ;;
  ret {| rs_rule := r; rs_slope := slope; rs_shdown := dn; rs_shdsup := up;
         rs_shift := if (0 <=? n) && (n <=? 3) then firstn (Z.to_nat n) [s0; s1; s2] else [s0; s1; s2] |}.

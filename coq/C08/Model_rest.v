(* C08 layer 2 (part 6) — NeighImage, Faults, FracEnviron, MeshEStandard, AnamDiscreteIR, AnamDiscreteDD, DbLine, DbGraphO.
   Executable definitions only (no proofs).
   NeighImage::_serialize / _deserialize      /repo/src/Neigh/NeighImage.cpp:56-88
   Faults::_serialize / _deserialize          /repo/src/Faults/Faults.cpp
   FracEnviron / FracFamily / FracFault       /repo/src/Fractures/{FracEnviron,FracFamily,FracFault}.cpp
   MeshEStandard::_serialize / _deserialize   /repo/src/Mesh/MeshEStandard.cpp
   AnamDiscrete / AnamDiscreteIR / DD         /repo/src/Anamorphosis/AnamDiscrete{,IR,DD}.cpp
   DbLine::_serialize / _deserialize          /repo/src/Db/DbLine.cpp
   DbGraphO::_serialize / _deserialize        /repo/src/Db/DbGraphO.cpp *)
From Coq Require Import Ascii String.
From Coq Require Import List ZArith QArith Bool.
From Gst Require Import C08.Codec C08.Model C08.Model_db.
Import ListNotations.
Local Open Scope string_scope.
Local Open Scope list_scope.
Local Open Scope Z_scope.

(* an integer written as a double ((double) n), and a double read into an integer ((int) x: truncation toward zero;
   an undefined value gives 0 here - the library casts 1.234e30, which the language leaves open) *)
Definition zd (z : Z) : dbl := Some (inject_Z z).
Definition dtoZ (d : dbl) : Z := match d with Some q => Z.quot (Qnum q) (Zpos (Qden q)) | None => 0 end.

(* ====================================================================== NeighImage *)
(* ANeigh part, the skipping factor, then one radius per space dimension, written as doubles and read back through
   static_cast<int>; the options of ANeigh at the end of the file in the dialect [tail] *)
Record neigh_image := { ni_base : aneigh; ni_skip : Z; ni_radius : list Z }.
Definition ser_NeighImage (tail : bool) (o : neigh_image) : list record :=
  ser_ANeigh (ni_base o) ++ [ r_int "" (ni_skip o) ]
  ++ map (fun r => r_dbl "" (zd r)) (ni_radius o)                  (* idim < getNDim() *)
  ++ [ r_com "Image NeighImageborhood parameters" ]
  ++ ser_ANeigh_options tail (ni_base o).
Definition deser_NeighImage (tail : bool) : reader neigh_image :=
  a <- deser_ANeigh ;; skip <- rd_int ;;
  rs <- rrepZ (an_ndim a) rd_dbl ;;
  a' <- deser_ANeigh_options tail a ;;
  ret {| ni_base := a'; ni_skip := skip; ni_radius := map dtoZ rs |}.

(* ====================================================================== Faults *)
(* the number of faults, then each fault as a PolyLine2D body (no class tag inside the file) *)
Definition ser_Faults (fs : list (list pt)) : list record :=
  r_int "Number of Faults" (lenZ fs) :: flat_map ser_PolyLine2D fs.
Definition deser_Faults : reader (list (list pt)) :=
  n <- rd_int ;; if n <? 0 then fail else rrepZ n deser_PolyLine2D.          (* _isCountInFile refuses a negative count *)

(* ====================================================================== FracEnviron *)
Record frac_family := {
  ff_orient : dbl; ff_dorient : dbl; ff_theta0 : dbl; ff_alpha : dbl; ff_ratcst : dbl;
  ff_prop1 : dbl; ff_prop2 : dbl; ff_aterm : dbl; ff_bterm : dbl; ff_range : dbl }.
Definition ser_FracFamily (f : frac_family) : list record :=
  [ r_dbl "Mean orientation" (ff_orient f); r_dbl "Tolerance for orientation" (ff_dorient f);
    r_dbl "Reference Poisson intensity" (ff_theta0 f); r_dbl "Power dependency between layer and intensity" (ff_alpha f);
    r_dbl "Ratio of constant vs. shaped intensity" (ff_ratcst f); r_dbl "Survival probability (constant term)" (ff_prop1 f);
    r_dbl "Survival probability (length dependent term)" (ff_prop2 f);
    r_dbl "Survival probability (cumulative length exponent)" (ff_aterm f);
    r_dbl "Survival probability (layer thickness exponent)" (ff_bterm f); r_dbl "Fracture repulsion area Range" (ff_range f) ].
Definition deser_FracFamily : reader frac_family :=
  a <- rd_dbl ;; b <- rd_dbl ;; c <- rd_dbl ;; d <- rd_dbl ;; e <- rd_dbl ;;
  f <- rd_dbl ;; g <- rd_dbl ;; h <- rd_dbl ;; i <- rd_dbl ;; j <- rd_dbl ;;
  ret {| ff_orient := a; ff_dorient := b; ff_theta0 := c; ff_alpha := d; ff_ratcst := e;
         ff_prop1 := f; ff_prop2 := g; ff_aterm := h; ff_bterm := i; ff_range := j |}.

(* a main fault: its position, its orientation and four values per family (kept as four vectors) *)
Record frac_fault := {
  fl_coord : dbl; fl_orient : dbl; fl_thetal : list dbl; fl_thetar : list dbl; fl_rangel : list dbl; fl_ranger : list dbl }.
Definition ser_FracFault (f : frac_fault) : list record :=
  [ r_dbl "Abscissa of the first Fault point" (fl_coord f); r_dbl "Fault orientation" (fl_orient f);
    r_int "Number of Families" (lenZ (fl_thetal f));                                   (* getNFamilies() = _thetal.size() *)
    r_vdbl "Maximum Density on the left" (fl_thetal f); r_vdbl "Maximum Density on the right" (fl_thetar f);
    r_vdbl "Decrease Range on the left" (fl_rangel f); r_vdbl "Decrease Range on the right" (fl_ranger f) ].
Definition deser_FracFault : reader frac_fault :=
  c <- rd_dbl ;; o <- rd_dbl ;; nfam <- rd_int ;;
  tl <- rd_vdbl nfam ;; tr <- rd_vdbl nfam ;; rl <- rd_vdbl nfam ;; rr <- rd_vdbl nfam ;;
  ret {| fl_coord := c; fl_orient := o; fl_thetal := tl; fl_thetar := tr; fl_rangel := rl; fl_ranger := rr |}.

Record frac_environ := {
  fe_xmax : dbl; fe_ymax : dbl; fe_deltax : dbl; fe_deltay : dbl; fe_mean : dbl; fe_stdev : dbl;
  fe_families : list frac_family; fe_faults : list frac_fault }.
Definition ser_FracEnviron (o : frac_environ) : list record :=
  [ r_int "Number of families" (lenZ (fe_families o)); r_int "Number of main faults" (lenZ (fe_faults o));
    r_dbl "Maximum horizontal distance" (fe_xmax o); r_dbl "Maximum vertical distance" (fe_ymax o);
    r_dbl "Dilation along the horizontal axis" (fe_deltax o); r_dbl "Dilation along the vertical axis" (fe_deltay o);
    r_dbl "Mean of thickness distribution" (fe_mean o); r_dbl "Stdev of thickness distribution" (fe_stdev o) ]
  ++ flat_map (fun f => r_com "Characteristics of family" :: ser_FracFamily f) (fe_families o)
  ++ flat_map (fun f => r_com "Characteristics of main fault" :: ser_FracFault f) (fe_faults o).
Definition deser_FracEnviron : reader frac_environ :=
  nfam <- rd_int ;; nfl <- rd_int ;;
  xmax <- rd_dbl ;; ymax <- rd_dbl ;; dx <- rd_dbl ;; dy <- rd_dbl ;; m <- rd_dbl ;; sd <- rd_dbl ;;
  fams <- rrepZ nfam deser_FracFamily ;;
  fls <- rrepZ nfl deser_FracFault ;;
  ret {| fe_xmax := xmax; fe_ymax := ymax; fe_deltax := dx; fe_deltay := dy; fe_mean := m; fe_stdev := sd;
         fe_families := fams; fe_faults := fls |}.

(* ====================================================================== MeshEStandard *)
(* the two matrices go through getValues() / setValues(): the model keeps them in that order *)
Record mesh_std := { ms_ndim : Z; ms_napices : Z; ms_npm : Z; ms_nmeshes : Z; ms_apices : list dbl; ms_meshes : list Z }.
Definition ser_MeshEStandard (o : mesh_std) : list record :=
  [ r_int "Space Dimension" (ms_ndim o); r_int "Napices" (ms_napices o); r_int "Number of Apices per Mesh" (ms_npm o);
    r_int "Number of Meshes" (ms_nmeshes o); r_vdbl "Apices" (ms_apices o); r_vint "Meshes" (ms_meshes o) ].
Definition deser_MeshEStandard : reader mesh_std :=
  ndim <- rd_int ;; nap <- rd_int ;; npm <- rd_int ;; nme <- rd_int ;;
  ap <- rd_vdbl (nap * ndim) ;; me <- rd_vint (nme * npm) ;;
  ret {| ms_ndim := ndim; ms_napices := nap; ms_npm := npm; ms_nmeshes := nme; ms_apices := ap; ms_meshes := me |}.

(* ====================================================================== AnamDiscrete part *)
(* cutoffs, number of statistics per class, statistics ((ncut + 1) x nelem values in the order of getValues()).
   The reader sizes the statistics from the class count of the file but stores them only if that count is ncut + 1
   (setStats refuses another size: the statistics stay at 0). *)
Record adisc := { ad_zcut : list dbl; ad_nelem : Z; ad_stats : list dbl }.
Definition ser_AnamDiscrete (o : adisc) : list record :=
  let ncut := lenZ (ad_zcut o) in
  [ r_int "Number of Cuttofs" ncut; r_int "Number of classes" (ncut + 1); r_int "Number of elements" (ad_nelem o);
    r_vdbl "Cutoff value" (ad_zcut o); r_vdbl "DD Stats" (firstn (Z.to_nat ((ncut + 1) * ad_nelem o)) (ad_stats o)) ].
Definition deser_AnamDiscrete : reader adisc :=
  ncut <- rd_int ;; nclass <- rd_int ;; nelem <- rd_int ;;
  zc <- rd_vdbl ncut ;; st <- rd_vdbl (nclass * nelem) ;;
  ret {| ad_zcut := zc; ad_nelem := nelem;
         ad_stats := if lenZ st =? (ncut + 1) * nelem then st else repeat d0 (Z.to_nat ((ncut + 1) * nelem)) |}.

(* AnamDiscreteIR: + the change-of-support coefficient *)
Record anam_ir := { ir_disc : adisc; ir_rcoef : dbl }.
Definition ser_AnamDiscreteIR (o : anam_ir) : list record :=
  ser_AnamDiscrete (ir_disc o) ++ [ r_dbl "Change of support coefficient" (ir_rcoef o) ].
Definition deser_AnamDiscreteIR : reader anam_ir :=
  d <- deser_AnamDiscrete ;; r <- rd_dbl ;; ret {| ir_disc := d; ir_rcoef := r |}.

(* AnamDiscreteDD: + s, mu and the two square matrices of the MAF (ncut x ncut, order of getValues / resetFromVD) *)
Record anam_dd := { dd_disc : adisc; dd_scoef : dbl; dd_mu : dbl; dd_z2f : list dbl; dd_f2z : list dbl }.
Definition ser_AnamDiscreteDD (o : anam_dd) : list record :=
  let n2 := Z.to_nat (lenZ (ad_zcut (dd_disc o)) * lenZ (ad_zcut (dd_disc o))) in
  ser_AnamDiscrete (dd_disc o)
  ++ [ r_dbl "Change of support coefficient" (dd_scoef o); r_dbl "Additional Mu coefficient" (dd_mu o);
       r_vdbl "PCA Z2Y" (firstn n2 (dd_z2f o)); r_vdbl "PCA Y2Z" (firstn n2 (dd_f2z o)) ].
Definition deser_AnamDiscreteDD : reader anam_dd :=
  d <- deser_AnamDiscrete ;; s <- rd_dbl ;; mu <- rd_dbl ;;
  let ncut := lenZ (ad_zcut d) in
  a <- rd_vdbl (ncut * ncut) ;; b <- rd_vdbl (ncut * ncut) ;;
  ret {| dd_disc := d; dd_scoef := s; dd_mu := mu; dd_z2f := a; dd_f2z := b |}.

(* ====================================================================== DbLine *)
(* the space dimension (number of coordinate columns: it is read and dropped), the lines (ranks of their samples),
   then the Db part *)
Definition db_ndim (d : db) : Z :=
  lenZ (filter (fun l => match l with Some (O, _) => true | _ => false end) (db_locs d)).
Record dbline := { dl_lines : list (list Z); dl_db : db }.
Definition ser_line (l : list Z) : list record := [ r_int "Number of Samples" (lenZ l); r_vint "" l ].
Definition ser_DbLine (o : dbline) : list record :=
  [ r_int "Space Dimension" (db_ndim (dl_db o)); r_int "Number of Lines" (lenZ (dl_lines o)) ]
  ++ flat_map ser_line (dl_lines o) ++ ser_Db (dl_db o).
Definition deser_DbLine : reader dbline :=
  ndim <- rd_int ;; nbline <- rd_int ;;
  ls <- rrepZ nbline (n <- rd_int ;; rd_vint n) ;;
  d <- deser_Db ;;
  ret {| dl_lines := ls; dl_db := d |}.

(* ====================================================================== DbGraphO *)
(* the arcs of the oriented graph as triplets (row, column, value) in the order of getMatrixToTriplet(), each written as
   a vector of three doubles; the ranks are read back through (int); then the Db part *)
Definition arc := (Z * Z * dbl)%type.
Record dbgraph := { go_arcs : list arc; go_db : db }.
Definition ser_arc (a : arc) : list record := [ r_vdbl "" [zd (fst (fst a)); zd (snd (fst a)); snd a] ].
Definition ser_DbGraphO (o : dbgraph) : list record :=
  [ r_int "Space Dimension" (db_ndim (go_db o)); r_int "Number of arcs" (lenZ (go_arcs o)) ]
  ++ flat_map ser_arc (go_arcs o) ++ ser_Db (go_db o).
Definition rd_arc : reader arc :=
  v <- rd_vdbl 3 ;; match v with [r; c; x] => ret (dtoZ r, dtoZ c, x) | _ => fail end.
Definition deser_DbGraphO : reader dbgraph :=
  ndim <- rd_int ;; narcs <- rd_int ;;
  arcs <- rrepZ narcs rd_arc ;;
  d <- deser_Db ;;
  ret {| go_arcs := arcs; go_db := d |}.

(* C08 runner: decodes a case, runs the codec and the per-class models, encodes the result. Executable only.
   case (1 class chars)  : parse a neutral file (character codes) with the model of the class
                           -> (1 obj rewritten-file-chars) | (0)
   case (2 class obj)    : print the model's file for an object, and reload it with the model
                           -> (file-chars (1 obj') | (0) all-records-good)
   case (3 chars)        : lexical view of a file -> lines of words
   Objects: ints as atoms, doubles as (num den) or () for NA, strings as lists of character codes. *)
From Coq Require Import Ascii String.
From Coq Require Import List ZArith QArith Bool.
From Gst Require Import lib.Sx C08.Codec C08.Model C08.Model_db C08.Model_vario C08.Model_model C08.Model_more C08.Model_rest C08.Model_rule.
Import ListNotations.
Local Open Scope string_scope.
Local Open Scope list_scope.
Local Open Scope Z_scope.

Definition asc (z : Z) : ascii := ascii_of_N (Z.to_N z).
Definition code (c : ascii) : Z := Z.of_N (N_of_ascii c).
Definition asW (s : sx) : option word := option_map (map asc) (asListOf asZ s).
Definition ofW (w : word) : sx := L (map (fun c => I (code c)) w).
Definition asD (s : sx) : option dbl :=
  match s with
  | L [] => Some None
  | L [I n; I d] => if 0 <? d then Some (Some (Qred (n # Z.to_pos d))) else None
  | _ => None
  end.
Definition ofD (d : dbl) : sx := ofOQ d.
Definition ofZ (z : Z) : sx := I z.

Notation "x <-? e ;; k" := (match e with Some x => k | None => None end) (at level 61, e at next level, right associativity).

(* ---------------------------------------------------------------- per-class encoders / decoders *)
Definition enc_aneigh (a : aneigh) : sx :=
  L [I (an_ndim a); ofB (an_xvalid a); ofB (an_kfold a); ofB (an_ball a); I (an_leaf a)].
Definition dec_aneigh (s : sx) : option aneigh :=
  match s with
  | L [I n; x; k; b; I l] =>
      x' <-? asB x ;; k' <-? asB k ;; b' <-? asB b ;;
      Some {| an_ndim := n; an_xvalid := x'; an_kfold := k'; an_ball := b'; an_leaf := l |}
  | _ => None
  end.

Definition enc_bench (o : neigh_bench) : sx := L [enc_aneigh (nb_base o); ofD (nb_width o); ofD (nb_bipt_width o)].
Definition dec_bench (s : sx) : option neigh_bench :=
  match s with
  | L [a; w; bw] => a' <-? dec_aneigh a ;; w' <-? asD w ;; bw' <-? asD bw ;;
                    Some {| nb_base := a'; nb_width := w'; nb_bipt_width := bw' |}
  | _ => None
  end.

Definition enc_cell (o : neigh_cell) : sx := L [enc_aneigh (nc_base o); I (nc_nmini o)].
Definition dec_cell (s : sx) : option neigh_cell :=
  match s with
  | L [a; I n] => a' <-? dec_aneigh a ;; Some {| nc_base := a'; nc_nmini := n |}
  | _ => None
  end.

Definition enc_moving (o : neigh_moving) : sx :=
  L [enc_aneigh (nm_base o); I (nm_nmini o); I (nm_nmaxi o); I (nm_nsect o); I (nm_nsmax o); ofD (nm_distcont o);
     ofD (nm_radius o); ofB (nm_aniso o); ofB (nm_rot o); ofList ofD (nm_coeffs o); ofList ofD (nm_rotmat o)].
Definition dec_moving (s : sx) : option neigh_moving :=
  match s with
  | L [a; I nmini; I nmaxi; I nsect; I nsmax; dc; r; an; ro; cs; rm] =>
      a' <-? dec_aneigh a ;; dc' <-? asD dc ;; r' <-? asD r ;; an' <-? asB an ;; ro' <-? asB ro ;;
      cs' <-? asListOf asD cs ;; rm' <-? asListOf asD rm ;;
      Some {| nm_base := a'; nm_nmini := nmini; nm_nmaxi := nmaxi; nm_nsect := nsect; nm_nsmax := nsmax;
              nm_distcont := dc'; nm_radius := r'; nm_aniso := an'; nm_rot := ro'; nm_coeffs := cs'; nm_rotmat := rm' |}
  | _ => None
  end.

Definition enc_table (o : table) : sx := L [I (tb_ncols o); I (tb_nrows o); ofList (ofList ofD) (tb_rows o)].
Definition dec_table (s : sx) : option table :=
  match s with
  | L [I nc; I nr; rows] => rows' <-? asListOf (asListOf asD) rows ;;
                            Some {| tb_ncols := nc; tb_nrows := nr; tb_rows := rows' |}
  | _ => None
  end.

Definition enc_pt (p : pt) : sx := L [ofD (fst p); ofD (snd p)].
Definition dec_pt (s : sx) : option pt :=
  match s with L [x; y] => x' <-? asD x ;; y' <-? asD y ;; Some (x', y') | _ => None end.
Definition enc_pe (o : polyelem) : sx := L [ofD (pe_zmin o); ofD (pe_zmax o); ofList enc_pt (pe_pts o)].
Definition dec_pe (s : sx) : option polyelem :=
  match s with
  | L [a; b; p] => a' <-? asD a ;; b' <-? asD b ;; p' <-? asListOf dec_pt p ;;
                   Some {| pe_zmin := a'; pe_zmax := b'; pe_pts := p' |}
  | _ => None
  end.

Definition enc_hermite (od : anam_hermiteD) : sx :=
  let o := ahd_core od in
  L [ofD (ah_azmin o); ofD (ah_azmax o); ofD (ah_aymin o); ofD (ah_aymax o);
     ofD (ah_pzmin o); ofD (ah_pzmax o); ofD (ah_pymin o); ofD (ah_pymax o);
     ofD (ah_mean o); ofD (ah_variance o); ofD (ah_rcoef o); ofList ofD (ah_psi o); ofB (ahd_bound od)].
Definition dec_hermite (s : sx) : option anam_hermiteD :=
  match s with
  | L [a1; a2; a3; a4; p1; p2; p3; p4; m; v; r; psi; fb] =>
      a1' <-? asD a1 ;; a2' <-? asD a2 ;; a3' <-? asD a3 ;; a4' <-? asD a4 ;;
      p1' <-? asD p1 ;; p2' <-? asD p2 ;; p3' <-? asD p3 ;; p4' <-? asD p4 ;;
      m' <-? asD m ;; v' <-? asD v ;; r' <-? asD r ;; psi' <-? asListOf asD psi ;; fb' <-? asB fb ;;
      Some {| ahd_bound := fb'; ahd_core := {| ah_azmin := a1'; ah_azmax := a2'; ah_aymin := a3'; ah_aymax := a4';
              ah_pzmin := p1'; ah_pzmax := p2'; ah_pymin := p3'; ah_pymax := p4';
              ah_mean := m'; ah_variance := v'; ah_rcoef := r'; ah_psi := psi' |} |}
  | _ => None
  end.


(* Db, DbGrid *)
Definition enc_lc (l : lc) : sx := match l with None => L [] | Some (t, i) => L [I (Z.of_nat t); I i] end.
Definition dec_lc (s : sx) : option lc :=
  match s with L [] => Some None | L [I t; I i] => if t <? 0 then None else Some (Some (Z.to_nat t, i)) | _ => None end.
Definition enc_db (o : db) : sx :=
  L [I (db_nech o); ofList ofW (db_names o); ofList enc_lc (db_locs o); ofList (ofList ofD) (db_rows o)].
Definition dec_db (s : sx) : option db :=
  match s with
  | L [I n; names; locs; rows] =>
      names' <-? asListOf asW names ;; locs' <-? asListOf dec_lc locs ;; rows' <-? asListOf (asListOf asD) rows ;;
      Some {| db_nech := n; db_names := names'; db_locs := locs'; db_rows := rows' |}
  | _ => None
  end.
Definition enc_gdim (g : gdim) : sx := L [I (g_nx g); ofD (g_x0 g); ofD (g_dx g); ofD (g_angle g)].
Definition dec_gdim (s : sx) : option gdim :=
  match s with
  | L [I nx; x0; dx; an] => x0' <-? asD x0 ;; dx' <-? asD dx ;; an' <-? asD an ;;
                            Some {| g_nx := nx; g_x0 := x0'; g_dx := dx'; g_angle := an' |}
  | _ => None
  end.
Definition enc_dbgrid (o : dbgrid) : sx := L [ofList enc_gdim (dg_dims o); enc_db (dg_db o)].
Definition dec_dbgrid (s : sx) : option dbgrid :=
  match s with
  | L [ds; d] => ds' <-? asListOf dec_gdim ds ;; d' <-? dec_db d ;; Some {| dg_dims := ds'; dg_db := d' |}
  | _ => None
  end.

(* Vario *)
Definition enc_triple (t : triple) : sx := let '(a, b, c) := t in L [ofD a; ofD b; ofD c].
Definition dec_triple (s : sx) : option triple :=
  match s with L [a; b; c] => a' <-? asD a ;; b' <-? asD b ;; c' <-? asD c ;; Some (a', b', c') | _ => None end.
Definition enc_vdir (d : vdir) : sx :=
  L [I (vd_npas d); I (vd_optcode d); ofD (vd_tolcode d); ofD (vd_dpas d); ofD (vd_toldist d);
     ofList ofZ (vd_grincr d); ofD (vd_tolang d); ofList ofD (vd_codir d);
     ofD (vd_bench d); ofD (vd_cylrad d); I (vd_idate d); ofList ofD (vd_breaks d); ofList enc_triple (vd_res d)].
Definition dec_vdir (s : sx) : option vdir :=
  match s with
  | L [I npas; I oc; tc; dp; td; gi; ta; cd; be; cy; I idt; br; rs] =>
      tc' <-? asD tc ;; dp' <-? asD dp ;; td' <-? asD td ;; gi' <-? asListOf asZ gi ;;
      ta' <-? asD ta ;; cd' <-? asListOf asD cd ;; be' <-? asD be ;; cy' <-? asD cy ;; br' <-? asListOf asD br ;;
      rs' <-? asListOf dec_triple rs ;;
      Some {| vd_npas := npas; vd_optcode := oc; vd_tolcode := tc'; vd_dpas := dp'; vd_toldist := td';
              vd_grincr := gi'; vd_tolang := ta'; vd_codir := cd'; vd_bench := be'; vd_cylrad := cy'; vd_idate := idt;
              vd_breaks := br'; vd_res := rs' |}
  | _ => None
  end.
Definition enc_vario (o : vario) : sx :=
  L [I (vr_ndim o); I (vr_nvar o); ofD (vr_scale o); I (vr_calcul o); ofList ofD (vr_dates o); ofList ofW (vr_names o);
     ofList (ofList ofD) (vr_vars o); ofList enc_vdir (vr_dirs o)].
Definition dec_vario (s : sx) : option vario :=
  match s with
  | L [I nd; I nv; sc; I cal; dates; names; vars; dirs] =>
      sc' <-? asD sc ;; dates' <-? asListOf asD dates ;; names' <-? asListOf asW names ;; vars' <-? asListOf (asListOf asD) vars ;;
      dirs' <-? asListOf dec_vdir dirs ;;
      Some {| vr_ndim := nd; vr_nvar := nv; vr_scale := sc'; vr_calcul := cal; vr_dates := dates'; vr_names := names'; vr_vars := vars'; vr_dirs := dirs' |}
  | _ => None
  end.

(* Model *)
Definition enc_cova (c : cova) : sx :=
  L [I (cv_type c); ofD (cv_param c); ofList ofD (cv_ranges c); ofList ofD (cv_rotmat c); ofList (ofList ofD) (cv_sill c)].
Definition dec_cova (s : sx) : option cova :=
  match s with
  | L [I t; p; rs; rm; sl] =>
      p' <-? asD p ;; rs' <-? asListOf asD rs ;; rm' <-? asListOf asD rm ;; sl' <-? asListOf (asListOf asD) sl ;;
      Some {| cv_type := t; cv_param := p'; cv_ranges := rs'; cv_rotmat := rm'; cv_sill := sl' |}
  | _ => None
  end.
Definition enc_model (o : model) : sx :=
  L [I (md_ndim o); I (md_nvar o); ofD (md_field o); ofList enc_cova (md_covs o); ofList ofW (md_drifts o);
     ofList ofD (md_means o); ofList (ofList ofD) (md_covar0 o)].
Definition dec_model (s : sx) : option model :=
  match s with
  | L [I nd; I nv; f; cs; dr; ms; c0] =>
      f' <-? asD f ;; cs' <-? asListOf dec_cova cs ;; dr' <-? asListOf asW dr ;; ms' <-? asListOf asD ms ;;
      c0' <-? asListOf (asListOf asD) c0 ;;
      Some {| md_ndim := nd; md_nvar := nv; md_field := f'; md_covs := cs'; md_drifts := dr'; md_means := ms'; md_covar0 := c0' |}
  | _ => None
  end.
(* AnamEmpirical, MeshETurbo *)
Definition enc_acont (c : acont) : list sx :=
  [ofD (ac_azmin c); ofD (ac_azmax c); ofD (ac_aymin c); ofD (ac_aymax c);
   ofD (ac_pzmin c); ofD (ac_pzmax c); ofD (ac_pymin c); ofD (ac_pymax c); ofD (ac_mean c); ofD (ac_variance c)].
Definition enc_empirical (o : anam_empirical) : sx :=
  L (enc_acont (ae_cont o) ++ [ofD (ae_sigma2e o); ofList ofD (ae_z o); ofList ofD (ae_y o); ofB (ae_dilution o); ofB (ae_gaussian o)]).
Definition dec_empirical (s : sx) : option anam_empirical :=
  match s with
  | L [a1; a2; a3; a4; p1; p2; p3; p4; m; v; s2; z; y; dl; ga] =>
      a1' <-? asD a1 ;; a2' <-? asD a2 ;; a3' <-? asD a3 ;; a4' <-? asD a4 ;;
      p1' <-? asD p1 ;; p2' <-? asD p2 ;; p3' <-? asD p3 ;; p4' <-? asD p4 ;;
      m' <-? asD m ;; v' <-? asD v ;; s2' <-? asD s2 ;; z' <-? asListOf asD z ;; y' <-? asListOf asD y ;;
      dl' <-? asB dl ;; ga' <-? asB ga ;;
      Some {| ae_cont := {| ac_azmin := a1'; ac_azmax := a2'; ac_aymin := a3'; ac_aymax := a4';
                            ac_pzmin := p1'; ac_pzmax := p2'; ac_pymin := p3'; ac_pymax := p4'; ac_mean := m'; ac_variance := v' |};
              ae_sigma2e := s2'; ae_z := z'; ae_y := y'; ae_dilution := dl'; ae_gaussian := ga' |}
  | _ => None
  end.
Definition enc_turbo (o : mesh_turbo) : sx :=
  L [ofList ofZ (mt_nx o); ofList ofD (mt_dx o); ofList ofD (mt_x0 o); ofList ofD (mt_rotmat o); ofB (mt_polar o); I (mt_mode o);
     ofList ofZ (mt_mesh_mask o); ofList ofZ (mt_grid_mask o)].
Definition dec_turbo (s : sx) : option mesh_turbo :=
  match s with
  | L [nx; dx; x0; rm; po; I mode; mm; gm] =>
      nx' <-? asListOf asZ nx ;; dx' <-? asListOf asD dx ;; x0' <-? asListOf asD x0 ;; rm' <-? asListOf asD rm ;;
      po' <-? asB po ;; mm' <-? asListOf asZ mm ;; gm' <-? asListOf asZ gm ;;
      Some {| mt_nx := nx'; mt_dx := dx'; mt_x0 := x0'; mt_rotmat := rm'; mt_polar := po'; mt_mode := mode;
              mt_mesh_mask := mm'; mt_grid_mask := gm' |}
  | _ => None
  end.

(* NeighImage, Faults, FracEnviron, MeshEStandard, AnamDiscreteIR/DD, DbLine, DbGraphO *)
Definition enc_image (o : neigh_image) : sx := L [enc_aneigh (ni_base o); I (ni_skip o); ofList ofZ (ni_radius o)].
Definition dec_image (s : sx) : option neigh_image :=
  match s with
  | L [a; I sk; r] => a' <-? dec_aneigh a ;; r' <-? asListOf asZ r ;; Some {| ni_base := a'; ni_skip := sk; ni_radius := r' |}
  | _ => None
  end.
Definition enc_family (f : frac_family) : sx :=
  L [ofD (ff_orient f); ofD (ff_dorient f); ofD (ff_theta0 f); ofD (ff_alpha f); ofD (ff_ratcst f);
     ofD (ff_prop1 f); ofD (ff_prop2 f); ofD (ff_aterm f); ofD (ff_bterm f); ofD (ff_range f)].
Definition dec_family (s : sx) : option frac_family :=
  match s with
  | L [a; b; c; d; e; f; g; h; i; j] =>
      a' <-? asD a ;; b' <-? asD b ;; c' <-? asD c ;; d' <-? asD d ;; e' <-? asD e ;;
      f' <-? asD f ;; g' <-? asD g ;; h' <-? asD h ;; i' <-? asD i ;; j' <-? asD j ;;
      Some {| ff_orient := a'; ff_dorient := b'; ff_theta0 := c'; ff_alpha := d'; ff_ratcst := e';
              ff_prop1 := f'; ff_prop2 := g'; ff_aterm := h'; ff_bterm := i'; ff_range := j' |}
  | _ => None
  end.
Definition enc_ffault (f : frac_fault) : sx :=
  L [ofD (fl_coord f); ofD (fl_orient f); ofList ofD (fl_thetal f); ofList ofD (fl_thetar f); ofList ofD (fl_rangel f); ofList ofD (fl_ranger f)].
Definition dec_ffault (s : sx) : option frac_fault :=
  match s with
  | L [c; o; a; b; d; e] =>
      c' <-? asD c ;; o' <-? asD o ;; a' <-? asListOf asD a ;; b' <-? asListOf asD b ;; d' <-? asListOf asD d ;; e' <-? asListOf asD e ;;
      Some {| fl_coord := c'; fl_orient := o'; fl_thetal := a'; fl_thetar := b'; fl_rangel := d'; fl_ranger := e' |}
  | _ => None
  end.
Definition enc_frac (o : frac_environ) : sx :=
  L [ofD (fe_xmax o); ofD (fe_ymax o); ofD (fe_deltax o); ofD (fe_deltay o); ofD (fe_mean o); ofD (fe_stdev o);
     ofList enc_family (fe_families o); ofList enc_ffault (fe_faults o)].
Definition dec_frac (s : sx) : option frac_environ :=
  match s with
  | L [a; b; c; d; e; f; fa; fl] =>
      a' <-? asD a ;; b' <-? asD b ;; c' <-? asD c ;; d' <-? asD d ;; e' <-? asD e ;; f' <-? asD f ;;
      fa' <-? asListOf dec_family fa ;; fl' <-? asListOf dec_ffault fl ;;
      Some {| fe_xmax := a'; fe_ymax := b'; fe_deltax := c'; fe_deltay := d'; fe_mean := e'; fe_stdev := f';
              fe_families := fa'; fe_faults := fl' |}
  | _ => None
  end.
Definition enc_meshstd (o : mesh_std) : sx :=
  L [I (ms_ndim o); I (ms_napices o); I (ms_npm o); I (ms_nmeshes o); ofList ofD (ms_apices o); ofList ofZ (ms_meshes o)].
Definition dec_meshstd (s : sx) : option mesh_std :=
  match s with
  | L [I nd; I na; I np; I nm; ap; me] =>
      ap' <-? asListOf asD ap ;; me' <-? asListOf asZ me ;;
      Some {| ms_ndim := nd; ms_napices := na; ms_npm := np; ms_nmeshes := nm; ms_apices := ap'; ms_meshes := me' |}
  | _ => None
  end.
Definition enc_adisc (o : adisc) : list sx := [ofList ofD (ad_zcut o); I (ad_nelem o); ofList ofD (ad_stats o)].
Definition dec_adisc (z ne st : sx) : option adisc :=
  z' <-? asListOf asD z ;; ne' <-? asZ ne ;; st' <-? asListOf asD st ;; Some {| ad_zcut := z'; ad_nelem := ne'; ad_stats := st' |}.
Definition enc_ir (o : anam_ir) : sx := L (enc_adisc (ir_disc o) ++ [ofD (ir_rcoef o)]).
Definition dec_ir (s : sx) : option anam_ir :=
  match s with
  | L [z; ne; st; r] => d <-? dec_adisc z ne st ;; r' <-? asD r ;; Some {| ir_disc := d; ir_rcoef := r' |}
  | _ => None
  end.
Definition enc_dd (o : anam_dd) : sx :=
  L (enc_adisc (dd_disc o) ++ [ofD (dd_scoef o); ofD (dd_mu o); ofList ofD (dd_z2f o); ofList ofD (dd_f2z o)]).
Definition dec_dd (s : sx) : option anam_dd :=
  match s with
  | L [z; ne; st; sc; mu; a; b] =>
      d <-? dec_adisc z ne st ;; sc' <-? asD sc ;; mu' <-? asD mu ;; a' <-? asListOf asD a ;; b' <-? asListOf asD b ;;
      Some {| dd_disc := d; dd_scoef := sc'; dd_mu := mu'; dd_z2f := a'; dd_f2z := b' |}
  | _ => None
  end.
Definition enc_dbline (o : dbline) : sx := L [ofList (ofList ofZ) (dl_lines o); enc_db (dl_db o)].
Definition dec_dbline (s : sx) : option dbline :=
  match s with
  | L [ls; d] => ls' <-? asListOf (asListOf asZ) ls ;; d' <-? dec_db d ;; Some {| dl_lines := ls'; dl_db := d' |}
  | _ => None
  end.
Definition enc_arc (a : arc) : sx := L [I (fst (fst a)); I (snd (fst a)); ofD (snd a)].
Definition dec_arc (s : sx) : option arc :=
  match s with L [I r; I c; v] => v' <-? asD v ;; Some (r, c, v') | _ => None end.
Definition enc_dbgraph (o : dbgraph) : sx := L [ofList enc_arc (go_arcs o); enc_db (go_db o)].
Definition dec_dbgraph (s : sx) : option dbgraph :=
  match s with
  | L [a; d] => a' <-? asListOf dec_arc a ;; d' <-? dec_db d ;; Some {| go_arcs := a'; go_db := d' |}
  | _ => None
  end.

(* Rule, RuleShift, RuleShadow: the tree as the list of its nodes (type, facies) in prefix order *)
Fixpoint flat_node (n : rnode) : list sx :=
  match n with
  | RFac f => [L [I 0; I f]]
  | RThr o l r => L [I o; I 0] :: flat_node l ++ flat_node r
  end.
Fixpoint parse_pre (fuel : nat) (l : list sx) : option (rnode * list sx) :=
  match fuel with
  | O => None
  | S k =>
      match l with
      | L [I o; I f] :: rest =>
          if o =? 0 then Some (RFac f, rest)
          else match parse_pre k rest with
               | Some (a, r1) => match parse_pre k r1 with Some (b, r2) => Some (RThr o a b, r2) | None => None end
               | None => None
               end
      | _ => None
      end
  end.
Definition dec_node (s : sx) : option rnode :=
  match s with
  | L l => match parse_pre (S (length l)) l with Some (n, []) => Some n | _ => None end
  | _ => None
  end.
Definition enc_rule (o : rule) : sx := L [I (ru_mode o); ofD (ru_rho o); L (flat_node (ru_main o))].
Definition dec_rule (s : sx) : option rule :=
  match s with
  | L [I m; rho; t] => rho' <-? asD rho ;; t' <-? dec_node t ;; Some {| ru_mode := m; ru_rho := rho'; ru_main := t' |}
  | _ => None
  end.
Definition enc_rshift (o : rule_shift) : sx :=
  L [enc_rule (rs_rule o); ofD (rs_slope o); ofD (rs_shdown o); ofD (rs_shdsup o); ofList ofD (rs_shift o)].
Definition dec_rshift (s : sx) : option rule_shift :=
  match s with
  | L [r; a; b; c; sh] =>
      r' <-? dec_rule r ;; a' <-? asD a ;; b' <-? asD b ;; c' <-? asD c ;; sh' <-? asListOf asD sh ;;
      Some {| rs_rule := r'; rs_slope := a'; rs_shdown := b'; rs_shdsup := c'; rs_shift := sh' |}
  | _ => None
  end.
(* oracle table ((type hasRange hasParam) ...) *)
Definition table_lookup (tbl : list (Z * bool * bool)) (sel : Z * bool * bool -> bool) (t : Z) : bool :=
  match find (fun e => fst (fst e) =? t) tbl with Some e => sel e | None => false end.
Definition dec_table3 (s : sx) : option (list (Z * bool * bool)) :=
  asListOf (fun e => match e with L [I t; r; p] => r' <-? asB r ;; p' <-? asB p ;; Some (t, r', p') | _ => None end) s.

(* ---------------------------------------------------------------- class table *)
Record cls := {
  c_T : Type; c_tag : string; c_ser : c_T -> list record; c_deser : reader c_T;
  c_enc : c_T -> sx; c_dec : sx -> option c_T }.

(* the formats are those of the library as it is: trailing records written and read (boolean arguments true) *)
Definition classes (id : Z) (aux : sx) : option cls :=
  let b0 := true in let b1 := true in
  match id with
  | 1 => Some {| c_tag := "NeighUnique"; c_ser := ser_NeighUniqueD b0; c_deser := deser_NeighUniqueD b0; c_enc := enc_aneigh; c_dec := dec_aneigh |}
  | 2 => Some {| c_tag := "NeighBench"; c_ser := ser_NeighBenchD b0; c_deser := deser_NeighBenchD b0; c_enc := enc_bench; c_dec := dec_bench |}
  | 3 => Some {| c_tag := "NeighCell"; c_ser := ser_NeighCellD b0; c_deser := deser_NeighCellD b0; c_enc := enc_cell; c_dec := dec_cell |}
  | 4 => Some {| c_tag := "NeighMoving"; c_ser := ser_NeighMovingD b0; c_deser := deser_NeighMovingD b0; c_enc := enc_moving; c_dec := dec_moving |}
  | 5 => Some {| c_tag := "Table"; c_ser := ser_Table; c_deser := deser_Table; c_enc := enc_table; c_dec := dec_table |}
  | 6 => Some {| c_tag := "PolyLine2D"; c_ser := ser_PolyLine2D; c_deser := deser_PolyLine2D; c_enc := ofList enc_pt; c_dec := asListOf dec_pt |}
  | 7 => Some {| c_tag := "PolyElem"; c_ser := ser_PolyElem; c_deser := deser_PolyElem; c_enc := enc_pe; c_dec := dec_pe |}
  | 8 => Some {| c_tag := "Polygon"; c_ser := ser_Polygons; c_deser := deser_Polygons; c_enc := ofList enc_pe; c_dec := asListOf dec_pe |}
  | 9 => Some {| c_tag := "AnamHermite"; c_ser := ser_AnamHermiteD b1; c_deser := deser_AnamHermiteD b0 b1; c_enc := enc_hermite; c_dec := dec_hermite |}
  | 10 => Some {| c_tag := "Db"; c_ser := ser_Db; c_deser := deser_Db; c_enc := enc_db; c_dec := dec_db |}
  | 11 => Some {| c_tag := "DbGrid"; c_ser := ser_DbGrid; c_deser := deser_DbGrid; c_enc := enc_dbgrid; c_dec := dec_dbgrid |}
  | 12 => Some {| c_tag := "Vario"; c_ser := ser_Vario b0; c_deser := deser_Vario b0; c_enc := enc_vario; c_dec := dec_vario |}
  | 22 => Some {| c_tag := "AnamEmpirical"; c_ser := ser_AnamEmpirical b0; c_deser := deser_AnamEmpirical b0; c_enc := enc_empirical; c_dec := dec_empirical |}
  | 25 => Some {| c_tag := "MeshETurbo"; c_ser := ser_MeshETurbo; c_deser := deser_MeshETurbo; c_enc := enc_turbo; c_dec := dec_turbo |}
  | 20 => Some {| c_tag := "DbLine"; c_ser := ser_DbLine; c_deser := deser_DbLine; c_enc := enc_dbline; c_dec := dec_dbline |}
  | 21 => Some {| c_tag := "DbGraphO"; c_ser := ser_DbGraphO; c_deser := deser_DbGraphO; c_enc := enc_dbgraph; c_dec := dec_dbgraph |}
  | 23 => Some {| c_tag := "AnamDiscreteDD"; c_ser := ser_AnamDiscreteDD; c_deser := deser_AnamDiscreteDD; c_enc := enc_dd; c_dec := dec_dd |}
  | 24 => Some {| c_tag := "AnamDiscreteIR"; c_ser := ser_AnamDiscreteIR; c_deser := deser_AnamDiscreteIR; c_enc := enc_ir; c_dec := dec_ir |}
  | 26 => Some {| c_tag := "MeshEStandard"; c_ser := ser_MeshEStandard; c_deser := deser_MeshEStandard; c_enc := enc_meshstd; c_dec := dec_meshstd |}
  | 27 => Some {| c_tag := "Rule"; c_ser := ser_Rule; c_deser := deser_Rule b0; c_enc := enc_rule; c_dec := dec_rule |}
  | 28 => Some {| c_tag := "RuleShift"; c_ser := ser_RuleShift b0; c_deser := deser_RuleShift b1 b0; c_enc := enc_rshift; c_dec := dec_rshift |}
  | 29 => Some {| c_tag := "RuleShadow"; c_ser := ser_RuleShadow b0; c_deser := deser_RuleShift b1 b0; c_enc := enc_rshift; c_dec := dec_rshift |}
  | 30 => Some {| c_tag := "Faults"; c_ser := ser_Faults; c_deser := deser_Faults; c_enc := ofList (ofList enc_pt); c_dec := asListOf (asListOf dec_pt) |}
  | 31 => Some {| c_tag := "Fracture Environ"; c_ser := ser_FracEnviron; c_deser := deser_FracEnviron; c_enc := enc_frac; c_dec := dec_frac |}
  | 32 => Some {| c_tag := "NeighImage"; c_ser := ser_NeighImage b0; c_deser := deser_NeighImage b0; c_enc := enc_image; c_dec := dec_image |}
  | 13 => match dec_table3 aux with
          | Some tbl =>
              let hr := table_lookup tbl (fun e => snd (fst e)) in
              let hp := table_lookup tbl (fun e => snd e) in
              Some {| c_tag := "Model"; c_ser := ser_Model b0; c_deser := deser_Model hr hp b0; c_enc := enc_model; c_dec := dec_model |}
          | None => None
          end
  | _ => None
  end.

Definition run_parse (c : cls) (chars : word) : sx :=
  match nf_read (c_tag c) (c_deser c) (lex chars) with
  | Some o => L [I 1; c_enc c o; ofW (print (nf_write (c_tag c) (c_ser c o)))]
  | None => L [I 0]
  end.
Definition run_write (c : cls) (s : sx) : sx :=
  match c_dec c s with
  | None => sx_error 2
  | Some o =>
      let rs := nf_write (c_tag c) (c_ser c o) in
      let f := print rs in
      L [ofW f;
         match nf_read (c_tag c) (c_deser c) (lex f) with
         | Some o' => L [I 1; c_enc c o']
         | None => L [I 0]
         end;
         ofB (forallb good_rec rs)]
  end.

Definition run (c : sx) : sx :=
  match c with
  | L [I 1; I id; chars; aux] =>
      match classes id aux, asW chars with
      | Some cl, Some w => run_parse cl w
      | _, _ => sx_error 1
      end
  | L [I 2; I id; o; aux] =>
      match classes id aux with
      | Some cl => run_write cl o
      | None => sx_error 1
      end
  | L [I 3; chars] =>
      match asW chars with
      | Some w => ofList (ofList ofW) (lex w)
      | None => sx_error 1
      end
  | _ => sx_error 0
  end.

(* C08 layer 2 (part 2) — Db and DbGrid.  Executable definitions only (no proofs).
   Db::_serialize / _deserialize        /repo/src/Db/Db.cpp:4548-4622
   DbGrid::_serialize / _deserialize    /repo/src/Db/DbGrid.cpp:740-807
   getLocatorName / locatorIdentify     /repo/src/Db/PtrGeos.cpp:100-126, 170-220   (table DEF_LOCATOR :27-56)
   Db::setLocatorByUID                  /repo/src/Db/Db.cpp:1136-1178  (PtrGeos::resize pads with 0, PtrGeos.hpp:37)
   Db::resetDims, correctNamesForDuplicates                    Db.cpp:512; String.cpp:160 *)
From Coq Require Import Ascii String.
From Coq Require Import List ZArith QArith Bool Decimal.
From Gst Require Import C08.Codec C08.Model.
Import ListNotations.
Local Open Scope string_scope.
Local Open Scope list_scope.
Local Open Scope Z_scope.

(* ---------------------------------------------------------------- locators *)
(* DEF_LOCATOR: (SREF, IREF = 1 i.e. unique), in the order of the ELoc values *)
Definition loc_table : list (string * bool) :=
  [ ("x", false); ("z", false); ("v", false); ("f", false); ("g", false); ("lower", false); ("upper", false);
    ("p", false); ("w", true); ("code", true); ("sel", true); ("dom", true); ("dblk", false); ("adir", true);
    ("adip", true); ("size", true); ("bu", true); ("bd", true); ("time", false); ("layer", true);
    ("nostat", false); ("tangent", false); ("ncsimu", false); ("facies", false); ("gausfac", false);
    ("date", true); ("rklow", false); ("rkup", false); ("sum", false) ].
Definition nloc : nat := length loc_table.

(* a column's locator: None = ELoc::UNKNOWN, Some (type rank, index from 0) *)
Definition lc := option (nat * Z).

Definition loc_name (l : lc) : word :=                                  (* getLocatorName *)
  match l with
  | None => NAw
  | Some (t, idx) =>
      match nth_error loc_table t with
      | None => NAw                                                     (* !isLocatorTypeValid *)
      | Some (s, uniq) => if uniq then W s else if idx <? 0 then W s else W s ++ print_Z (idx + 1)
      end
  end.

Definition lower (c : ascii) : ascii :=                                 (* ::tolower, C locale *)
  let n := N_of_ascii c in if (65 <=? n)%N && (n <=? 90)%N then ascii_of_N (n + 32) else c.
Fixpoint prefixb (a w : word) : bool :=                                 (* string.compare(0, lng, SREF) == 0 *)
  match a, w with
  | [], _ => true
  | x :: a', y :: w' => Ascii.eqb x y && prefixb a' w'
  | _ :: _, [] => false
  end.
(* every keyword that starts the string matches; the longest one is retained ("facies1" is facies, not f) *)
Fixpoint find_loc (tbl : list (string * bool)) (k : nat) (w : word) (best : option (nat * string * bool))
  : option (nat * string * bool) :=
  match tbl with
  | [] => best
  | (s, u) :: r =>
      let lbest := match best with Some (_, sb, _) => length (W sb) | None => O end in
      if prefixb (W s) w && (lbest <? length (W s))%nat then find_loc r (S k) w (Some (k, s, u))
      else find_loc r (S k) w best
  end.
Definition atoi (w : word) : Z :=                                       (* optional sign, leading digits, else 0 *)
  let '(sgn, r) := match w with
                   | c :: r => if Ascii.eqb c "-" then (-1, r) else if Ascii.eqb c "+" then (1, r) else (1, w)
                   | [] => (1, w)
                   end in
  match rd_uint (span_digits r) with Some u => sgn * Z.of_uint u | None => 0 end.

(* locatorIdentify: None = error (return 1) *)
Definition loc_identify (w : word) : option lc :=
  let lw := map lower w in
  match find_loc loc_table 0 lw None with
  | None => Some None
  | Some (t, s, uniq) =>
      let lng := length (W s) in
      let inum := if (lng <? length lw)%nat then atoi (skipn lng lw) else -1 in
      if uniq && (1 <? inum) then None
      else Some (Some (t, Z.max (inum - 1) 0))
  end.

(* the table of locators _p: for each type, the list of UIDs by index *)
Fixpoint erase_first (u : Z) (l : list Z) : list Z :=
  match l with [] => [] | x :: r => if x =? u then r else x :: erase_first u r end.
Fixpoint set_nth {A} (n : nat) (x : A) (l : list A) : list A :=
  match n, l with
  | O, _ :: r => x :: r
  | S k, y :: r => y :: set_nth k x r
  | _, [] => []
  end.
Definition set_locator (p : list (list Z)) (iuid : Z) (l : lc) : list (list Z) :=      (* setLocatorByUID, fresh columns *)
  let p1 := map (erase_first iuid) p in
  match l with
  | None => p1
  | Some (t, idx) =>
      match nth_error p1 t with
      | None => p1
      | Some r =>
          let i := Z.to_nat idx in
          let r' := if (length r <=? i)%nat then r ++ repeat 0 (i + 1 - length r) else r in
          set_nth t (set_nth i iuid r') p1
      end
  end.
Fixpoint index_of (u : Z) (l : list Z) (k : Z) : option Z :=
  match l with [] => None | x :: r => if x =? u then Some k else index_of u r (k + 1) end.
Fixpoint locator_of (p : list (list Z)) (t : nat) (icol : Z) : lc :=                   (* getLocatorByColIdx, uid = column *)
  match p with
  | [] => None
  | r :: ps => match index_of icol r 0 with Some i => Some (t, i) | None => locator_of ps (S t) icol end
  end.
Fixpoint set_locators (p : list (list Z)) (i : Z) (ls : list lc) : list (list Z) :=
  match ls with [] => p | l :: r => set_locators (set_locator p i l) (i + 1) r end.
Definition replay_locators (ls : list lc) : list lc :=
  let p := set_locators (repeat [] nloc) 0 ls in
  map (fun i => locator_of p 0 (Z.of_nat i)) (seq 0 (length ls)).

(* names: the names read replace the provisional ones all together, then correctNamesForDuplicates: from the second
   name on, ".1" is appended to a name as long as it is equal to one of the previous names (String.cpp:160) *)
Fixpoint fix_name (fuel : nat) (prev : list word) (w : word) : word :=
  match fuel with
  | O => w
  | S f => if existsb (fun x => weqb w x) prev then fix_name f prev (w ++ W ".1") else w
  end.
Fixpoint correct_dups (prev : list word) (names : list word) : list word :=
  match names with
  | [] => []
  | w :: r => let w' := fix_name (S (length prev)) prev w in w' :: correct_dups (prev ++ [w']) r
  end.
Definition replay_names (names : list word) : list word := correct_dups [] names.

(* ---------------------------------------------------------------- Db *)
Record db := { db_nech : Z; db_names : list word; db_locs : list lc; db_rows : list (list dbl) }.
Definition empty_db : db := {| db_nech := 0; db_names := []; db_locs := []; db_rows := [] |}.

Definition ser_Db (o : db) : list record :=
  [ r_int "Number of variables" (lenZ (db_names o)); r_int "Number of samples" (db_nech o);
    r_vstr "Locators" (map loc_name (db_locs o)); r_vstr "Names" (db_names o); r_com "Array of values" ]
  ++ map (r_vdbl "") (db_rows o).

Definition deser_Db : reader db :=
  ncol <- rd_int ;; nech <- rd_int ;;
  ln <- (if 0 <? ncol then l <- rd_vstr ncol ;; n <- rd_vstr ncol ;; ret (l, n) else ret ([], [])) ;;
  rows <- rrepZ nech (rd_vdbl ncol) ;;
  match mapM loc_identify (fst ln) with
  | None => ret empty_db                       (* if (locatorIdentify(...) != 0) return true;  -- the Db stays empty *)
  | Some ls =>
      ret {| db_nech := nech; db_names := replay_names (snd ln); db_locs := replay_locators ls; db_rows := rows |}
  end.

(* ---------------------------------------------------------------- DbGrid *)
(* per dimension: nx, x0, dx, angle (Rotation::setAngles keeps the angles as given; in 2-D the second one is set to 0).
   The result of Db::_deserialize is dropped ("ret && Db::_deserialize(is, verbose);") but the Db part is loaded. *)
Record gdim := { g_nx : Z; g_x0 : dbl; g_dx : dbl; g_angle : dbl }.
Record dbgrid := { dg_dims : list gdim; dg_db : db }.
Definition ser_gdim (g : gdim) : list record :=
  [ r_int "" (g_nx g); r_dbl "" (g_x0 g); r_dbl "" (g_dx g); r_dbl "" (g_angle g); r_com "" ].
Definition ser_DbGrid (o : dbgrid) : list record :=
  [ r_int "Space Dimension" (lenZ (dg_dims o)); r_com "Grid characteristics (NX,X0,DX,ANGLE)" ]
  ++ flat_map ser_gdim (dg_dims o) ++ ser_Db (dg_db o).
Definition rd_gdim : reader gdim :=
  nx <- rd_int ;; x0 <- rd_dbl ;; dx <- rd_dbl ;; an <- rd_dbl ;; ret {| g_nx := nx; g_x0 := x0; g_dx := dx; g_angle := an |}.
Definition fix_angles (ds : list gdim) : list gdim :=           (* if (_nDim == 2) _angles[1] = 0. *)
  match ds with
  | [a; b] => [a; {| g_nx := g_nx b; g_x0 := g_x0 b; g_dx := g_dx b; g_angle := d0 |}]
  | _ => ds
  end.
Definition dlt0 (d : dbl) : bool := match d with Some q => negb (Qle_bool 0 q) | None => false end.
Definition deser_DbGrid : reader dbgrid :=
  ndim <- rd_int ;; ds <- rrepZ ndim rd_gdim ;;
  (* gridDefine: a negative nx or dx makes resetFromVector return early, leaving a half-defined grid: not modelled *)
  if existsb (fun g => (g_nx g <? 0) || dlt0 (g_dx g)) ds then fail
  else d <- deser_Db ;; ret {| dg_dims := fix_angles ds; dg_db := d |}.

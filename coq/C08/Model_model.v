(* C08 layer 2 (part 4) — class Model (contexts, covariances with anisotropy / rotation, drifts, means, sills).
   Executable definitions only (no proofs).
   Model::_serialize / _deserialize            /repo/src/Model/Model.cpp:1116-1326
   CovAniso getRange / getAnisoCoeffs / setRanges / setRangeIsotropic / setParam   /repo/src/Covariances/CovAniso.cpp:198-356, 931-990
   Tensor::_updateIsotropic (relative tolerance 1e-10)                             /repo/src/Basic/Tensor.cpp:230
   A basic structure is kept through: its type, its third parameter (as getParam() gives it), its ranges per space
   dimension (empty for a type without range), its rotation matrix in the order of the file (for idim, for jdim:
   getAnisoRotMat(jdim, idim)) and its sill matrix.  The factor between scale and range (getScadef) cancels exactly
   between setRanges and getRanges and is left out.  Which types have a range / a third parameter comes from the
   library (oracles [hasrange], [hasparam] : type -> bool, supplied with each case by the harness).
   Not written: tapering, non-stationarity, the other fields of the context, the means when there are drifts. *)
From Coq Require Import Ascii String.
From Coq Require Import List ZArith QArith Qabs Bool.
From Gst Require Import C08.Codec C08.Model.
Import ListNotations.
Local Open Scope string_scope.
Local Open Scope list_scope.
Local Open Scope Z_scope.

Record cova := { cv_type : Z; cv_param : dbl; cv_ranges : list dbl; cv_rotmat : list dbl; cv_sill : list (list dbl) }.
Record model := {
  md_ndim : Z; md_nvar : Z; md_field : dbl; md_covs : list cova; md_drifts : list word;
  md_means : list dbl; md_covar0 : list (list dbl) }.

Definition eps10 : Q := 1 # 10000000000.
Definition eps20 : Q := 1 # 100000000000000000000.
(* Tensor::_updateIsotropic *)
Definition near (a b : dbl) : bool :=
  match a, b with
  | Some x, Some y => Qle_bool (Qabs (x - y)) (eps10 * (Qabs x + Qabs y))
  | _, _ => false
  end.
Definition isotropic (rs : list dbl) : bool :=
  match rs with [] => true | r0 :: _ => forallb (fun r => near r r0) rs end.
Definition dmax (rs : list dbl) : dbl :=                                  (* VH::maximum *)
  fold_right (fun r acc => match r, acc with
                           | Some x, Some y => if Qle_bool x y then acc else r
                           | _, _ => None
                           end) (hd None rs) rs.
Definition ddiv (a b : dbl) : dbl := match a, b with Some x, Some y => Some (Qred (x / y)) | _, _ => None end.
Definition deqb (a b : dbl) : bool :=
  match a, b with Some x, Some y => Qeq_bool x y | None, None => true | _, _ => false end.
Fixpoint list_eqb {A} (e : A -> A -> bool) (a b : list A) : bool :=
  match a, b with [], [] => true | x :: a', y :: b' => e x y && list_eqb e a' b' | _, _ => false end.
Definition has_rotation (ndim : Z) (rotmat : list dbl) : bool :=          (* Rotation::_checkRotForIdentity *)
  negb (list_eqb deqb rotmat (idmat (Z.to_nat ndim))).
Definition get_range (rs : list dbl) : dbl :=                             (* CovAniso::getRange *)
  match rs with [] => d0 | r0 :: _ => if isotropic rs then r0 else dmax rs end.

Section WithOracles.
Variable hasrange hasparam : Z -> bool.
(* [mtail]: dialect in which the means of a model with drift are appended at the end of the file *)
Variable mtail : bool.

Definition ser_cova (ndim : Z) (c : cova) : list record :=
  let rs := cv_ranges c in
  let aniso := negb (isotropic rs) in
  let rot := has_rotation ndim (cv_rotmat c) in
  [ r_int "" (cv_type c); r_dbl "" (get_range rs); r_dbl "Covariance characteristics" (cv_param c);
    r_int "Anisotropy Flag" (b2z aniso) ]
  ++ (if aniso then
        map (fun r => r_dbl "" (ddiv r (dmax rs))) rs
        ++ [ r_com "Anisotropy Coefficients"; r_int "Anisotropy Rotation Flag" (b2z rot) ]
        ++ (if rot then map (r_dbl "") (cv_rotmat c) ++ [ r_com "Anisotropy Rotation Matrix" ] else [])
      else []).

Definition ser_sill (c : cova) : list record := flat_map (map (r_dbl "")) (cv_sill c) ++ [ r_com "Matrix of sills" ].

Definition ser_Model (o : model) : list record :=
  [ r_int "" (md_ndim o); r_int "" (md_nvar o); r_dbl "General parameters" (md_field o);
    r_int "Number of basic covariance terms" (lenZ (md_covs o)); r_int "Number of drift terms" (lenZ (md_drifts o)) ]
  ++ flat_map (ser_cova (md_ndim o)) (md_covs o)
  ++ map (r_str "Drift Identifier") (md_drifts o)
  ++ (if null (md_drifts o) then map (r_dbl "Mean of Variables") (md_means o) else [])
  ++ flat_map ser_sill (md_covs o)
  ++ flat_map (map (r_dbl "")) (md_covar0 o) ++ [ r_com "Var-Covar at origin" ]
  ++ (if mtail && negb (null (md_drifts o)) then map (r_dbl "Mean of Variables") (md_means o) else []).

Definition dle (a : dbl) (q : Q) : bool := match a with Some x => Qle_bool x q | None => false end.

(* one basic structure without its sills *)
Definition rd_cova (ndim : Z) : reader cova :=
  type <- rd_int ;; range <- rd_dbl ;; param <- rd_dbl ;; faniso <- rd_int ;;
  ar <- (if z2b faniso then
           cs <- rrepZ ndim rd_dbl ;;
           frot <- rd_int ;;
           rm <- (if z2b frot then rrepZ (ndim * ndim) rd_dbl else ret []) ;;
           ret (Some (map (fun c => dmul c range) cs), rm)           (* aniso_ranges[idim] *= range *)
         else ret (None, [])) ;;
  let '(aranges, rm) := ar in
  let param' := if hasparam type then param else d0 in                (* setParam / getParam *)
  if negb (hasrange type) then
    ret {| cv_type := type; cv_param := param'; cv_ranges := []; cv_rotmat := idmat (Z.to_nat ndim); cv_sill := [] |}
  else
    match aranges with
    | Some rs =>
        (* setRanges -> setScales refuses a scale <= 1e-20 (and the structure keeps its default radius): not modelled *)
        if existsb (fun r => dle r eps20) rs then fail
        else ret {| cv_type := type; cv_param := param'; cv_ranges := rs;
                    cv_rotmat := if null rm then idmat (Z.to_nat ndim) else rm; cv_sill := [] |}
    | None =>
        (* setRangeIsotropic: a range <= 1e-10 is replaced by 1 *)
        let r := if dle range eps10 then d1 else range in
        ret {| cv_type := type; cv_param := param'; cv_ranges := repeat r (Z.to_nat ndim);
               cv_rotmat := idmat (Z.to_nat ndim); cv_sill := [] |}
    end.

(* setSill(icova, ivar, jvar, value) on a symmetric matrix: the last value written for {ivar, jvar} stays,
   i.e. the one of the lower triangle *)
Definition symm (rows : list (list dbl)) : list (list dbl) :=
  map (fun i => map (fun j => nth (Nat.min i j) (nth (Nat.max i j) rows []) d0) (seq 0 (length rows))) (seq 0 (length rows)).

Definition deser_Model : reader model :=
  ndim <- rd_int ;; nvar <- rd_int ;; field <- rd_dbl ;; ncova <- rd_int ;; nbfl <- rd_int ;;
  covs <- rrepZ ncova (rd_cova ndim) ;;
  drifts <- rrepZ nbfl rd_str ;;
  means <- (if nbfl <=? 0 then rrepZ nvar rd_dbl else ret (repeat d0 (Z.to_nat nvar))) ;;
  sills <- rrepZ ncova (rrepZ nvar (rrepZ nvar rd_dbl)) ;;
  covar0 <- rrepZ nvar (rrepZ nvar rd_dbl) ;;
  means <- (if mtail && (0 <? nbfl) then eod <- rd_eod ;; (if eod : bool then ret means else rrepZ nvar rd_dbl) else ret means) ;;
  ret {| md_ndim := ndim; md_nvar := nvar; md_field := field;
         md_covs := map (fun cs => {| cv_type := cv_type (fst cs); cv_param := cv_param (fst cs);
                                       cv_ranges := cv_ranges (fst cs); cv_rotmat := cv_rotmat (fst cs);
                                       cv_sill := symm (snd cs) |}) (combine covs sills);
         md_drifts := drifts; md_means := means; md_covar0 := covar0 |}.
End WithOracles.

(* C08 layer 1 — generic codec of gstlearn "neutral files".  Executable definitions only (no proofs).

   Mirrors /repo/include/Basic/ASerializable.hpp and /repo/src/Basic/ASerializable.cpp:
     _recordWrite<T>        ASerializable.hpp:111   title ""  => "value "      title t => "value # t\n"
     _recordWriteVec<T>     ASerializable.hpp:141   ["# t\n"] "v1 v2 ... vn \n"
     _commentWrite          ASerializable.cpp:143   "" => "\n"      t => "# t\n"
     _tableWrite/_tableRead ASerializable.cpp:155/167   = _recordWriteVec / _recordReadVec on the first ntab values
                                                    (a failed _tableRead makes the reader fail)
     _fileOpenWrite/Read    ASerializable.cpp:94/114    class tag line "Name\n" / the whole first line, trimmed
     _recordRead<T>         ASerializable.hpp:167   operator>> word by word; a word starting with '#' eats the rest of
                                                    the line (gslSafeGetline); "NA" => getNA<T>(); at end of file the
                                                    value is T() and the call SUCCEEDS
     _recordReadVec<T>, _recordReadVecInPlace<T>    ASerializable.hpp:212/289   gslSafeGetline until a line that is neither
                                                    blank nor a comment; words of that line up to a '#' word; exactly
                                                    nvalues of them are required
   Value domain: an int is a Z; a double is an exact rational or NA ([dbl]); the conversions "%.15g" / strtod between
   binary64 and decimal text are OUTSIDE the model (trusted, DBL_DIG = 15): a number token prints and parses to itself.
   The text of a rational is "num/den" (what the model prints) ; the reader also accepts C decimal literals (what the
   library prints).  Files are lists of characters.                                                                    *)
From Coq Require Import Ascii String.
From Coq Require Import List ZArith QArith Bool Decimal DecimalZ.
Import ListNotations.
Local Open Scope char_scope.
Local Open Scope Z_scope.

Definition word := list ascii.
Definition W (s : string) : word := list_ascii_of_string s.

(* ------------------------------------------------------------------ characters *)
Definition nl : ascii := "010".
Definition sp : ascii := " ".
Definition is_nl (c : ascii) : bool := Ascii.eqb c "010" || Ascii.eqb c "013".
Definition is_blank (c : ascii) : bool :=
  Ascii.eqb c " " || Ascii.eqb c "009" || Ascii.eqb c "011" || Ascii.eqb c "012".
Definition is_hash (c : ascii) : bool := Ascii.eqb c "#".

Fixpoint weqb (a b : word) : bool :=
  match a, b with
  | [], [] => true
  | x :: a', y :: b' => Ascii.eqb x y && weqb a' b'
  | _, _ => false
  end.

Definition NAw : word := W "NA".
Definition is_NA (w : word) : bool := weqb w NAw.
Definition null {A} (l : list A) : bool := match l with [] => true | _ => false end.

(* ------------------------------------------------------------------ integers: decimal text *)
Fixpoint pr_uint (d : uint) : word :=
  match d with
  | Nil => []
  | D0 d => "0" :: pr_uint d | D1 d => "1" :: pr_uint d | D2 d => "2" :: pr_uint d
  | D3 d => "3" :: pr_uint d | D4 d => "4" :: pr_uint d | D5 d => "5" :: pr_uint d
  | D6 d => "6" :: pr_uint d | D7 d => "7" :: pr_uint d | D8 d => "8" :: pr_uint d
  | D9 d => "9" :: pr_uint d
  end.
Definition pr_int (d : Decimal.int) : word :=
  match d with Pos u => pr_uint u | Neg u => "-" :: pr_uint u end.
Definition print_Z (z : Z) : word := pr_int (Z.to_int z).

Definition digit_of (c : ascii) : option (uint -> uint) :=
  if Ascii.eqb c "0" then Some D0 else if Ascii.eqb c "1" then Some D1 else
  if Ascii.eqb c "2" then Some D2 else if Ascii.eqb c "3" then Some D3 else
  if Ascii.eqb c "4" then Some D4 else if Ascii.eqb c "5" then Some D5 else
  if Ascii.eqb c "6" then Some D6 else if Ascii.eqb c "7" then Some D7 else
  if Ascii.eqb c "8" then Some D8 else if Ascii.eqb c "9" then Some D9 else None.
Fixpoint rd_uint (cs : word) : option uint :=
  match cs with
  | [] => Some Nil
  | c :: r => match digit_of c, rd_uint r with
              | Some f, Some u => Some (f u)
              | _, _ => None
              end
  end.
(* operator>> into an int: optional sign and the longest run of digits (at least one); what follows in the word is
   ignored ("12.5" reads 12), a word without a leading number is an error *)
Fixpoint span_digits (w : word) : word :=
  match w with
  | c :: r => match digit_of c with Some _ => c :: span_digits r | None => [] end
  | [] => []
  end.
Definition parse_digits (w : word) : option Z :=
  match span_digits w with
  | [] => None
  | ds => option_map Z.of_uint (rd_uint ds)
  end.
Definition parse_Z (w : word) : option Z :=
  match w with
  | [] => None
  | c :: r =>
      if Ascii.eqb c "-" then option_map Z.opp (parse_digits r)
      else if Ascii.eqb c "+" then parse_digits r
      else parse_digits w
  end.

(* ------------------------------------------------------------------ doubles: exact rationals or NA *)
Definition dbl := option Q.
Definition TESTQ : Q := inject_Z (1234 * 10 ^ 27).          (* TEST = 1.234e30, geoslib_define.h:58 *)
Definition ITEST : Z := -1234567.                            (* geoslib_define.h:60 *)

Definition print_Q (q : Q) : word := print_Z (Qnum q) ++ "/" :: print_Z (Zpos (Qden q)).

Fixpoint split_at (p : ascii -> bool) (w : word) : word * option word :=
  match w with
  | [] => ([], None)
  | c :: r => if p c then ([], Some r)
              else let (a, b) := split_at p r in (c :: a, b)
  end.
Definition is_slash c := Ascii.eqb c "/".
Definition is_dot c := Ascii.eqb c ".".
Definition is_e c := Ascii.eqb c "e" || Ascii.eqb c "E".

Definition pow10Q (k : Z) : Q :=
  if 0 <=? k then inject_Z (10 ^ k) else Qmake 1 (Z.to_pos (10 ^ (- k))).

(* C decimal literal  [+-] digits [. digits] [(e|E) [+-] digits]  ->  exact rational (what strtod reads, before rounding) *)
Definition parse_decimal (w : word) : option Q :=
  let (mant, ex) := split_at is_e w in
  let '(sgn, mant') := match mant with
                       | c :: r => if Ascii.eqb c "-" then ((-1)%Z, r) else if Ascii.eqb c "+" then (1, r) else (1, mant)
                       | [] => (1, mant)
                       end in
  let (ip, fp) := split_at is_dot mant' in
  let fpw := match fp with Some f => f | None => [] end in
  match ip ++ fpw with
  | [] => None
  | ds =>
      match rd_uint ds, (match ex with None => Some 0 | Some e => parse_Z e end) with
      | Some u, Some e10 =>
          Some (Qred (inject_Z (sgn * Z.of_uint u) * pow10Q (e10 - Z.of_nat (length fpw))))
      | _, _ => None
      end
  end.

Definition parse_Q (w : word) : option Q :=
  match split_at is_slash w with
  | (a, Some b) => match parse_Z a, parse_Z b with
                   | Some n, Some (Zpos d) => Some (Qred (n # d))
                   | _, _ => None
                   end
  | (_, None) => parse_decimal w
  end.

Definition print_int (z : Z) : word := if z =? ITEST then NAw else print_Z z.
Definition print_dbl (d : dbl) : word :=
  match d with
  | None => NAw
  | Some q => if Qeq_bool q TESTQ then NAw else print_Q q
  end.
(* non-finite literals written by operator<< ("inf", "nan", "-nan") are read back by strtod as non-finite: isNA<double>;
   recognised by their first letter after the sign (no other literal accepted by strtod starts that way) *)
Definition is_inf_letter (c : ascii) : bool :=
  Ascii.eqb c "i" || Ascii.eqb c "I" || Ascii.eqb c "n" || Ascii.eqb c "N".
Definition is_nonfinite (w : word) : bool :=
  let w' := match w with c :: r => if Ascii.eqb c "-" || Ascii.eqb c "+" then r else w | [] => w end in
  match w' with c :: _ => is_inf_letter c | [] => false end.
Definition parse_int (w : word) : option Z := if is_NA w then Some ITEST else parse_Z w.
Definition parse_dbl (w : word) : option dbl :=
  if is_NA w then Some None
  else if is_nonfinite w then Some None
  else option_map (@Some Q) (parse_Q w).
Definition parse_str (w : word) : option word := Some w.     (* "NA" -> getNA<String>() = "NA" *)

(* ------------------------------------------------------------------ records and printing *)
Inductive record :=
| RTag (w : word)                      (* _fileOpenWrite: os << _getNFName() << std::endl *)
| RVal (title : word) (w : word)       (* _recordWrite<T> *)
| RVec (title : word) (ws : list word) (* _recordWriteVec<T>, _tableWrite *)
| RCom (title : word).                 (* _commentWrite *)

Definition print_rec (r : record) : list ascii :=
  match r with
  | RTag w => w ++ [nl]
  | RVal t w => if null t then w ++ [sp] else w ++ W " # " ++ t ++ [nl]
  | RVec t ws => (if null t then [] else W "# " ++ t ++ [nl]) ++ flat_map (fun w => w ++ [sp]) ws ++ [nl]
  | RCom t => if null t then [nl] else W "# " ++ t ++ [nl]
  end.
Definition print (rs : list record) : list ascii := flat_map print_rec rs.

(* typed record constructors *)
Definition r_int (t : string) (z : Z) : record := RVal (W t) (print_int z).
Definition r_dbl (t : string) (d : dbl) : record := RVal (W t) (print_dbl d).
Definition r_str (t : string) (w : word) : record := RVal (W t) w.   (* isNA<String>(w) prints "NA" = w *)
Definition r_bool (t : string) (b : bool) : record := RVal (W t) (print_Z (if b then 1 else 0)).
Definition r_vdbl (t : string) (ds : list dbl) : record := RVec (W t) (map print_dbl ds).
Definition r_vint (t : string) (zs : list Z) : record := RVec (W t) (map print_int zs).
Definition r_vstr (t : string) (ws : list word) : record := RVec (W t) ws.
Definition r_com (t : string) : record := RCom (W t).

(* ------------------------------------------------------------------ lexing: characters -> lines of data words *)
Definition stream := list (list word).

(* lines of blank-separated segments (empty segments included); never empty, no empty line *)
Fixpoint segs (cs : list ascii) : list (list word) :=
  match cs with
  | [] => [[[]]]
  | c :: r =>
      let st := segs r in
      if is_nl c then [[]] :: st
      else if is_blank c then
        match st with l :: ls => ([] :: l) :: ls | [] => [[[]; []]] end
      else
        match st with
        | (w :: ws) :: ls => ((c :: w) :: ws) :: ls
        | [] :: ls => [[c]] :: ls
        | [] => [[[c]]]
        end
  end.
Definition nonempty (w : word) : bool := negb (null w).
Definition is_comment (w : word) : bool := match w with c :: _ => is_hash c | [] => false end.
Fixpoint cut_comment (ws : list word) : list word :=
  match ws with
  | [] => []
  | w :: r => if is_comment w then [] else w :: cut_comment r
  end.
(* what both readers see of a line: its words up to the first word starting with '#' *)
Definition lex (cs : list ascii) : stream := map (fun l => cut_comment (filter nonempty l)) (segs cs).

(* expected lexical structure of a printed record, prepended to the structure of what follows *)
Definition push (w : word) (s : stream) : stream :=
  match s with l :: ls => (w :: l) :: ls | [] => [[w]] end.
Definition lay (r : record) (s : stream) : stream :=
  match r with
  | RTag w => [w] :: s
  | RVal t w => if null t then push w s else [w] :: s
  | RVec t ws => if null t then ws :: s else [] :: ws :: s
  | RCom t => [] :: s
  end.
Definition layout (rs : list record) (s : stream) : stream := fold_right lay s rs.

(* ------------------------------------------------------------------ readers *)
(* is >> word, skipping blank lines and comments; None at end of file *)
Fixpoint rword (s : stream) : option word * stream :=
  match s with
  | [] => (None, [])
  | [] :: ls => rword ls
  | (w :: l) :: ls => (Some w, l :: ls)
  end.
(* gslSafeGetline until a data line: the rest of the current line if it still holds data words *)
Fixpoint rline (s : stream) : list word * stream :=
  match s with
  | [] => ([], [])
  | [] :: ls => rline ls
  | l :: ls => (l, ls)
  end.

(* The same two primitives written on the RAW lines (comment words still present), as the C++ does them:
   _recordRead: a word is taken unless it starts with '#', in which case the rest of its line is dropped;
   _recordReadVec: lines that are blank or start with '#' are skipped, the words of the data line are taken up to
   the first word starting with '#'.  [lex] = these lines with comments cut; Proofs_codec.v shows that the raw
   primitives and the ones above see the same thing. *)
Definition raw_lex (cs : list ascii) : stream := map (filter nonempty) (segs cs).
Fixpoint rword_raw (s : stream) : option word * stream :=
  match s with
  | [] => (None, [])
  | [] :: ls => rword_raw ls
  | (w :: l) :: ls => if is_comment w then rword_raw ls else (Some w, l :: ls)
  end.
Fixpoint rline_raw (s : stream) : list word * stream :=
  match s with
  | [] => ([], [])
  | [] :: ls => rline_raw ls
  | (w :: l) :: ls => if is_comment w then rline_raw ls else (cut_comment (w :: l), ls)
  end.

Definition reader (A : Type) := stream -> option (A * stream).
Definition ret {A} (a : A) : reader A := fun s => Some (a, s).
Definition bind {A B} (r : reader A) (f : A -> reader B) : reader B :=
  fun s => match r s with Some (a, s') => f a s' | None => None end.
Definition fail {A} : reader A := fun _ => None.
Notation "x <- r ;; k" := (bind r (fun x => k)) (at level 61, r at next level, right associativity).
Notation "r ;;; k" := (bind r (fun _ => k)) (at level 61, right associativity).

(* _recordRead<T>: at end of file val = T() and the call returns true *)
Definition rd_val {A} (p : word -> option A) (dflt : A) : reader A :=
  fun s => let (ow, s') := rword s in
           match ow with
           | None => Some (dflt, s')
           | Some w => match p w with Some a => Some (a, s') | None => None end
           end.
Definition rd_int : reader Z := rd_val parse_int 0.
Definition rd_dbl : reader dbl := rd_val parse_dbl (Some 0%Q).
Definition rd_str : reader word := rd_val parse_str [].
Definition rd_bool : reader bool := rd_val (fun w => option_map (fun z => negb (z =? 0)) (parse_int w)) false.

Fixpoint mapM {A B} (f : A -> option B) (l : list A) : option (list B) :=
  match l with
  | [] => Some []
  | x :: r => match f x, mapM f r with
              | Some y, Some ys => Some (y :: ys)
              | _, _ => None
              end
  end.
(* _recordReadVec<T>(nvalues): exactly nvalues words on the data line *)
(* an empty vector (nvalues = 0) reads nothing: the blank line written for it is skipped by the next reader *)
Definition rd_vec {A} (p : word -> option A) (n : Z) : reader (list A) :=
  fun s => if n =? 0 then Some ([], s) else
           let (l, s') := rline s in
           if Z.of_nat (length l) =? n then
             match mapM p l with Some v => Some (v, s') | None => None end
           else None.
Definition rd_vdbl := rd_vec parse_dbl.
Definition rd_vint := rd_vec parse_int.
Definition rd_vstr := rd_vec parse_str.

(* _isEndOfData: nothing but blanks and comments is left (used for the records that recent versions append at the end
   of a file: a file written by an older version stops before them).  Consumes nothing that matters. *)
Definition rd_eod : reader bool :=
  fun s => match fst (rword s) with None => Some (true, s) | Some _ => Some (false, s) end.

(* _fileOpenRead: gslSafeGetline(is, type); type = trim(type); type must be the class name.  The very first line is
   taken (a leading blank line is not skipped); on the lexical view the words of that line must be those of the name
   (which may hold blanks: "Fracture Environ") *)
Fixpoint wlist_eqb (a b : list word) : bool :=
  match a, b with
  | [], [] => true
  | x :: a', y :: b' => weqb x y && wlist_eqb a' b'
  | _, _ => false
  end.
Definition tag_words (name : word) : list word :=
  match segs name with l :: _ => filter nonempty l | [] => [] end.
Definition rd_tag (name : word) : reader unit :=
  fun s => match s with
           | l :: ls => if wlist_eqb l (tag_words name) then Some (tt, ls) else None
           | [] => None
           end.

(* loops *)
Fixpoint rrep {A} (n : nat) (r : reader A) : reader (list A) :=
  match n with
  | O => ret []
  | S k => x <- r ;; xs <- rrep k r ;; ret (x :: xs)
  end.
Definition rrepZ {A} (n : Z) (r : reader A) : reader (list A) := rrep (Z.to_nat n) r.

(* whole file: tag + body *)
Definition nf_write (name : string) (body : list record) : list record := RTag (W name) :: body.
Definition nf_read {A} (name : string) (body : reader A) : stream -> option A :=
  fun s => match (rd_tag (W name) ;;; body) s with Some (a, _) => Some a | None => None end.

(* ------------------------------------------------------------------ well-formed words, titles, numbers *)
Definition good_char (c : ascii) : bool := negb (is_nl c) && negb (is_blank c).
Definition good_word (w : word) : bool :=
  nonempty w && forallb good_char w && negb (is_comment w).
Definition good_str (w : word) : bool := good_word w && negb (is_NA w).   (* a string that survives _recordWrite/_recordRead *)
Definition good_title (t : word) : bool := forallb (fun c => negb (is_nl c)) t.
Definition good_rec (r : record) : bool :=
  match r with
  | RTag w => good_word w
  | RVal t w => good_title t && good_word w
  | RVec t ws => good_title t && forallb good_word ws
  | RCom t => good_title t
  end.
Definition wfQ (q : Q) : Prop := Qred q = q.
Definition wf_dbl (d : dbl) : Prop := match d with None => True | Some q => wfQ q /\ Qeq_bool q TESTQ = false end.
Definition wfQb (q : Q) : bool := Z.eqb (Qnum (Qred q)) (Qnum q) && Pos.eqb (Qden (Qred q)) (Qden q).
Definition wf_dblb (d : dbl) : bool := match d with None => true | Some q => wfQb q && negb (Qeq_bool q TESTQ) end.

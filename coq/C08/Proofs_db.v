(* C08 layer 2 (part 2) — Db and DbGrid round trips *)
From Coq Require Import Ascii String.
From Coq Require Import List ZArith QArith Bool Lia Decimal DecimalZ DecimalPos.
From Gst Require Import C08.Codec C08.Proofs_codec C08.Model C08.Proofs_basic C08.Model_db.
Import ListNotations.
Local Open Scope string_scope.
Local Open Scope list_scope.
Local Open Scope Z_scope.

(* ------------------------------------------------------------------ locator names are identified back *)
Lemma lower_pr_uint u : map lower (pr_uint u) = pr_uint u.
Proof. induction u; simpl; try rewrite IHu; reflexivity. Qed.

Lemma atoi_print_pos p : atoi (print_Z (Zpos p)) = Zpos p.
Proof.
  unfold print_Z. simpl Z.to_int. simpl pr_int.
  destruct (pr_uint_cons (Pos.to_uint p) (Unsigned.to_uint_nonnil p)) as (c & r & E & Hc).
  unfold atoi. rewrite E.
  assert (Hm : Ascii.eqb c "-" = false).
  { unfold digc in Hc. apply andb_prop in Hc. destruct Hc as [Hc _]. apply andb_prop in Hc. destruct Hc as [_ Hc].
    destruct (Ascii.eqb c "-"); simpl in Hc; congruence. }
  rewrite Hm, (numc_plus _ (digc_numc _ Hc)), <- E, span_pr_uint, rd_uint_pr.
  change (Z.of_int (Z.to_int (Zpos p)) = Zpos p) with (Z.of_int (Z.to_int (Zpos p)) = Zpos p).
  rewrite Z.mul_1_l. change (Z.of_uint (Pos.to_uint p)) with (Z.of_int (Z.to_int (Zpos p))). apply DecimalZ.of_to.
Qed.
Lemma lower_print_pos p : map lower (print_Z (Zpos p)) = print_Z (Zpos p).
Proof. unfold print_Z. simpl. apply lower_pr_uint. Qed.
Lemma length_print_pos p : (0 < length (print_Z (Zpos p)))%nat.
Proof. destruct (print_Z_cons (Zpos p)) as (c & r & E & _). rewrite E. simpl. lia. Qed.

(* valid locators: known type, index 0 for the unique types (their name carries no number), index >= 0 otherwise *)
Definition wf_lc (l : lc) : Prop :=
  match l with
  | None => True
  | Some (t, idx) =>
      match nth_error loc_table t with
      | None => False
      | Some (_, uniq) => if uniq then idx = 0 else 0 <= idx
      end
  end.

Lemma skipn_app_exact {A} (a b : list A) : skipn (length a) (a ++ b) = b.
Proof. induction a; simpl; auto. Qed.

Lemma loc_identify_multi s t p :
  map lower (W s) = W s ->
  find_loc loc_table 0 (W s ++ print_Z (Zpos p)) None = Some (t, s, false) ->
  loc_identify (W s ++ print_Z (Zpos p)) = Some (Some (t, Zpos p - 1)).
Proof.
  intros Hl Hf. unfold loc_identify. rewrite map_app, lower_print_pos, Hl, Hf, app_length.
  assert (Hlt : (length (W s) <? length (W s) + length (print_Z (Z.pos p)))%nat = true).
  { apply Nat.ltb_lt. pose proof (length_print_pos p). lia. }
  rewrite Hlt, skipn_app_exact, atoi_print_pos. cbn [andb]. f_equal. f_equal. f_equal. lia.
Qed.

(* the longest keyword that starts  SREF ++ digits  is SREF itself: decided by computation once the first digit is known *)
Lemma find_loc_digits s t p :
  (forall u, u <> Nil -> find_loc loc_table 0 (W s ++ pr_uint u) None = Some (t, s, false)) ->
  find_loc loc_table 0 (W s ++ print_Z (Zpos p)) None = Some (t, s, false).
Proof. intros H. unfold print_Z. simpl Z.to_int. simpl pr_int. apply H. apply Unsigned.to_uint_nonnil. Qed.

Lemma loc_identify_name l : wf_lc l -> loc_identify (loc_name l) = Some l.
Proof.
  destruct l as [[t idx]|]; [|intros _; vm_compute; reflexivity].
  unfold wf_lc. destruct (nth_error loc_table t) as [[s uniq]|] eqn:E; [|tauto].
  intros Hidx.
  unfold loc_name. rewrite E.
  do 29 (destruct t as [|t];
         [ simpl in E; inversion E; subst s uniq; clear E;
           first [ (subst idx; vm_compute; reflexivity)
                 | (assert (Hn : (idx <? 0) = false) by (apply Z.ltb_ge; lia); rewrite Hn;
                    destruct (idx + 1) as [|p|p] eqn:Ep; try lia;
                    replace idx with (Zpos p - 1) by lia;
                    apply loc_identify_multi; [reflexivity|];
                    apply find_loc_digits; intros u Hu; destruct u; [congruence | reflexivity ..]) ] | ]).
  simpl in E. destruct t; discriminate.
Qed.

Lemma mapM_loc_identify ls : Forall wf_lc ls -> mapM loc_identify (map loc_name ls) = Some ls.
Proof.
  induction 1 as [|l ls Hl _ IH]; simpl; auto. rewrite loc_identify_name, IH; auto.
Qed.

(* distinct names are not touched by correctNamesForDuplicates *)
Lemma existsb_weqb_false w prev : ~ In w prev -> existsb (fun x => weqb w x) prev = false.
Proof.
  induction prev as [|x prev IH]; simpl; auto. intros H.
  destruct (weqb w x) eqn:E; [apply weqb_eq in E; exfalso; apply H; auto|]. apply IH. tauto.
Qed.
Lemma correct_dups_nodup names : forall prev, NoDup (prev ++ names) -> correct_dups prev names = names.
Proof.
  induction names as [|w r IH]; intros prev H; cbn [correct_dups]; auto.
  assert (Hw : ~ In w prev).
  { apply NoDup_remove_2 in H. intro K. apply H. apply in_or_app. auto. }
  cbn [fix_name]. rewrite (existsb_weqb_false _ _ Hw). f_equal. apply IH. rewrite <- app_assoc. exact H.
Qed.
Lemma replay_names_nodup names : NoDup names -> replay_names names = names.
Proof. intros H. apply correct_dups_nodup. exact H. Qed.

(* ------------------------------------------------------------------ Db *)
Definition wf_row (ncol : Z) (row : list dbl) : Prop := lenZ row = ncol /\ Forall wf_dbl row /\ row <> [].
Definition wf_Db (o : db) : Prop :=
  db_names o <> [] /\ length (db_locs o) = length (db_names o) /\ db_nech o = lenZ (db_rows o) /\
  Forall (wf_row (lenZ (db_names o))) (db_rows o) /\ forallb good_word (db_names o) = true /\
  Forall wf_lc (db_locs o) /\
  (* distinct column names *)
  NoDup (db_names o) /\
  (* the locators are given back by the locator table after setLocatorByUID column by column *)
  replay_locators (db_locs o) = db_locs o.

Lemma Db_reads o : wf_Db o -> reads deser_Db (ser_Db o) o.
Proof.
  destruct o as [nech names locs rows]. unfold wf_Db. cbn [db_nech db_names db_locs db_rows].
  intros (Hne & Hlen & -> & Hrows & Hgood & Hlc & Hrn & Hrl).
  unfold deser_Db, ser_Db. cbn [db_nech db_names db_locs db_rows]. rewrite <- !app_comm_cons, app_nil_l. rd.
  assert (Hpos : (0 <? lenZ names) = true).
  { apply Z.ltb_lt. unfold lenZ. destruct names; simpl in *; try congruence. lia. }
  rewrite Hpos.
  change (r_vstr "Locators" (map loc_name locs) :: r_vstr "Names" names :: r_com "Array of values" :: map (r_vdbl "") rows)
    with ([r_vstr "Locators" (map loc_name locs); r_vstr "Names" names] ++ (r_com "Array of values" :: map (r_vdbl "") rows)).
  eapply reads_bind.
  { eapply reads_bind_cons.
    - assert (E : lenZ names = Z.of_nat (length (map loc_name locs))) by (rewrite map_length, Hlen; reflexivity).
      rewrite E. apply reads_vstr. destruct locs; simpl in *; try congruence. destruct names; simpl in *; congruence.
    - eapply reads_bind_cons; [apply reads_vstr; auto|]. apply reads_ret. }
  apply reads_com_l. cbn [fst snd].
  rewrite <- (app_nil_r (map _ rows)). eapply reads_bind.
  { rewrite map_as_flat_map. apply reads_rrepZ; auto.
    intros row Hrow. rewrite Forall_forall in Hrows. destruct (Hrows _ Hrow) as (Hl & Hw & Hn).
    rewrite <- Hl. apply reads_vdbl; auto. }
  rewrite mapM_loc_identify; auto. apply reads_ret_eq. rewrite (replay_names_nodup _ Hrn), Hrl. reflexivity.
Qed.

Lemma good_word_app a b : good_word a = true -> forallb good_char b = true -> good_word (a ++ b) = true.
Proof.
  unfold good_word. intros Ha Hb. apply andb_prop in Ha. destruct Ha as [Ha Hc]. apply andb_prop in Ha. destruct Ha as [Hn Hg].
  destruct a as [|c r]; [discriminate|].
  apply andb_true_intro; split; [apply andb_true_intro; split|].
  - reflexivity.
  - rewrite forallb_app, Hg, Hb. reflexivity.
  - exact Hc.
Qed.
Lemma good_loc_name l : good_word (loc_name l) = true.
Proof.
  destruct l as [[t idx]|]; [|reflexivity]. unfold loc_name.
  destruct (nth_error loc_table t) as [[s u]|] eqn:E; [|reflexivity].
  assert (Hs : good_word (W s) = true).
  { clear -E. do 29 (destruct t as [|t]; [simpl in E; inversion E; subst; reflexivity|]).
    simpl in E. destruct t; discriminate. }
  destruct u; auto. destruct (idx <? 0); auto.
  apply good_word_app; auto.
  pose proof (print_Z_good (idx + 1)) as Hp. unfold good_word in Hp.
  apply andb_prop in Hp. destruct Hp as [Hp _]. apply andb_prop in Hp. destruct Hp as [_ Hp]. exact Hp.
Qed.
Lemma good_Db o : forallb good_word (db_names o) = true -> forallb good_rec (ser_Db o) = true.
Proof.
  intros Hn. unfold ser_Db. good.
  - apply good_r_vstr; [reflexivity|]. apply forallb_map_true. apply good_loc_name.
  - apply good_r_vstr; [reflexivity | exact Hn].
Qed.

(* ------------------------------------------------------------------ DbGrid *)
Definition wf_gdim (g : gdim) : Prop :=
  wf_dbl (g_x0 g) /\ wf_dbl (g_dx g) /\ wf_dbl (g_angle g) /\ (g_nx g <? 0) = false /\ dlt0 (g_dx g) = false.
Definition wf_DbGrid (o : dbgrid) : Prop :=
  Forall wf_gdim (dg_dims o) /\ fix_angles (dg_dims o) = dg_dims o /\ wf_Db (dg_db o).

Lemma reads_gdim g : wf_gdim g -> reads rd_gdim (ser_gdim g) g.
Proof.
  destruct g as [nx x0 dx an]. unfold wf_gdim. simpl. intros (H1 & H2 & H3 & _).
  unfold rd_gdim, ser_gdim. cbn [g_nx g_x0 g_dx g_angle]. rd.
  reflexivity.
Qed.

Lemma DbGrid_reads o : wf_DbGrid o -> reads deser_DbGrid (ser_DbGrid o) o.
Proof.
  destruct o as [dims d]. unfold wf_DbGrid. cbn [dg_dims dg_db]. intros (Hd & Hfix & Hdb).
  unfold deser_DbGrid, ser_DbGrid. cbn [dg_dims dg_db]. rewrite <- !app_comm_cons, app_nil_l. rd.
  eapply reads_bind.
  { apply reads_rrepZ; auto. intros g Hg. apply reads_gdim. rewrite Forall_forall in Hd; auto. }
  assert (He : existsb (fun g => (g_nx g <? 0) || dlt0 (g_dx g)) dims = false).
  { clear -Hd. induction Hd as [|g gs Hg _ IH]; simpl; auto.
    destruct Hg as (_ & _ & _ & H1 & H2). rewrite H1, H2, IH. reflexivity. }
  rewrite He. rewrite <- (app_nil_r (ser_Db d)). eapply reads_bind; [apply Db_reads; auto|].
  apply reads_ret_eq. rewrite Hfix. reflexivity.
Qed.

Lemma good_DbGrid o : forallb good_word (db_names (dg_db o)) = true -> forallb good_rec (ser_DbGrid o) = true.
Proof.
  intros Hn. unfold ser_DbGrid. good.
  - apply forallb_flat_map_true. intros g _. unfold ser_gdim. good.
  - apply good_Db; auto.
Qed.


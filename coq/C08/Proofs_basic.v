(* C08 layer 2 (part 1) — round-trip lemmas: neighbourhoods, Table, polylines/polygons, AnamHermite *)
From Coq Require Import Ascii String.
From Coq Require Import List ZArith QArith Bool Lia.
From Gst Require Import C08.Codec C08.Proofs_codec C08.Model.
Import ListNotations.
Local Open Scope string_scope.
Local Open Scope list_scope.
Local Open Scope Z_scope.

(* ------------------------------------------------------------------ proof automation for straight-line readers *)
Lemma reads_ret_eq {A} (a b : A) : a = b -> reads (ret a) [] b.
Proof. intros ->. apply reads_ret. Qed.
Lemma reads_ret_com_eq {A} (a b : A) t : a = b -> reads (ret a) [RCom t] b.
Proof. intros ->. apply reads_ret_com. Qed.

Lemma reads_bind_ret {A B} (x : A) (f : A -> reader B) rs b : reads (f x) rs b -> reads (bind (ret x) f) rs b.
Proof. intros H. change rs with ([] ++ rs). eapply reads_bind; [apply reads_ret | exact H]. Qed.

Ltac rd_step :=
  lazymatch goal with
  | |- reads _ (RCom _ :: _) _ => apply reads_com_l
  | |- reads _ (r_com _ :: _) _ => apply reads_com_l
  | |- reads (bind rd_int _) (r_int _ _ :: _) _ => eapply reads_bind_cons; [apply reads_int|]
  | |- reads (bind rd_dbl _) (r_dbl _ _ :: _) _ => eapply reads_bind_cons; [apply reads_dbl; auto|]
  | |- reads (bind rd_str _) (r_str _ _ :: _) _ => eapply reads_bind_cons; [apply reads_str|]
  | |- reads (bind rd_bool _) (r_bool _ _ :: _) _ => eapply reads_bind_cons; [apply reads_bool|]
  | |- reads (bind (ret _) _) _ _ => apply reads_bind_ret
  | |- reads (ret _) [] _ => apply reads_ret_eq
  end.
Ltac rd := repeat rd_step.

Lemma b2z_z2b b : z2b (b2z b) = b.
Proof. destruct b; reflexivity. Qed.

Lemma map_as_flat_map {A B} (f : A -> B) l : map f l = flat_map (fun x => [f x]) l.
Proof. induction l; simpl; congruence. Qed.

(* n values written one by one without title, read by a loop *)
Lemma reads_dbl_list_t t ds n :
  Forall wf_dbl ds -> n = lenZ ds -> reads (rrepZ n rd_dbl) (map (r_dbl t) ds) ds.
Proof.
  intros Hwf ->. rewrite map_as_flat_map.
  apply reads_rrepZ; auto. intros x Hx. rewrite Forall_forall in Hwf. apply reads_dbl. auto.
Qed.
Lemma reads_dbl_list ds n :
  Forall wf_dbl ds -> n = lenZ ds -> reads (rrepZ n rd_dbl) (map (r_dbl "") ds) ds.
Proof. apply reads_dbl_list_t. Qed.

(* ------------------------------------------------------------------ neighbourhoods *)
(* The core of each file (what every version writes) gives back the object with the default options; the options
   appended by the dialect [tail] give back the options. *)
Definition wf_aneigh (a : aneigh) : Prop := a = aneigh_default (an_ndim a).
Definition wf_aneighD (tail : bool) (a : aneigh) : Prop := tail = false -> wf_aneigh a.

Lemma reads_ANeigh a : reads deser_ANeigh (ser_ANeigh a) (aneigh_default (an_ndim a)).
Proof. unfold deser_ANeigh, ser_ANeigh. rd. reflexivity. Qed.

Lemma reads_options tail a :
  wf_aneighD tail a -> reads (deser_ANeigh_options tail (aneigh_default (an_ndim a))) (ser_ANeigh_options tail a) a.
Proof.
  intros H. unfold deser_ANeigh_options, ser_ANeigh_options. destruct tail.
  - apply reads_not_eod; [reflexivity|]. unfold rd_options. rd. rewrite !b2z_z2b. destruct a; reflexivity.
  - apply reads_ret_eq. symmetry. apply H. reflexivity.
Qed.

Lemma NeighUnique_reads tail a : wf_aneighD tail a -> reads (deser_NeighUniqueD tail) (ser_NeighUniqueD tail a) a.
Proof.
  intros H. unfold deser_NeighUniqueD, ser_NeighUniqueD, deser_NeighUnique, ser_NeighUnique.
  eapply reads_bind; [apply reads_ANeigh|]. apply reads_options; auto.
Qed.

Definition wf_NeighBench (tail : bool) (o : neigh_bench) : Prop :=
  wf_aneighD tail (nb_base o) /\ wf_dbl (nb_bipt_width o) /\ nb_width o = nb_bipt_width o.
Lemma NeighBench_core o : wf_dbl (nb_bipt_width o) ->
  reads deser_NeighBench (ser_NeighBench o)
        {| nb_base := aneigh_default (an_ndim (nb_base o)); nb_width := nb_bipt_width o; nb_bipt_width := nb_bipt_width o |}.
Proof.
  destruct o as [a w bw]. simpl. intros Hw. unfold deser_NeighBench, ser_NeighBench. cbn [nb_base nb_width nb_bipt_width].
  eapply reads_bind; [apply reads_ANeigh|]. rd. reflexivity.
Qed.
Lemma NeighBench_reads tail o : wf_NeighBench tail o -> reads (deser_NeighBenchD tail) (ser_NeighBenchD tail o) o.
Proof.
  destruct o as [a w bw]. unfold wf_NeighBench. simpl. intros (Ha & Hw & ->).
  unfold deser_NeighBenchD, ser_NeighBenchD.
  eapply reads_bind; [apply NeighBench_core; auto|]. cbn [nb_base nb_width nb_bipt_width].
  rewrite <- (app_nil_r (ser_ANeigh_options tail a)). eapply reads_bind; [apply reads_options; auto|]. apply reads_ret.
Qed.

Definition wf_NeighCell (tail : bool) (o : neigh_cell) : Prop := wf_aneighD tail (nc_base o).
Lemma NeighCell_core o :
  reads deser_NeighCell (ser_NeighCell o) {| nc_base := aneigh_default (an_ndim (nc_base o)); nc_nmini := nc_nmini o |}.
Proof.
  destruct o as [a n]. unfold deser_NeighCell, ser_NeighCell. cbn [nc_base nc_nmini].
  eapply reads_bind; [apply reads_ANeigh|]. rd. reflexivity.
Qed.
Lemma NeighCell_reads tail o : wf_NeighCell tail o -> reads (deser_NeighCellD tail) (ser_NeighCellD tail o) o.
Proof.
  destruct o as [a n]. unfold wf_NeighCell. simpl. intros Ha.
  unfold deser_NeighCellD, ser_NeighCellD.
  eapply reads_bind; [apply NeighCell_core|]. cbn [nc_base nc_nmini].
  rewrite <- (app_nil_r (ser_ANeigh_options tail a)). eapply reads_bind; [apply reads_options; auto|]. apply reads_ret.
Qed.

(* ------------------------------------------------------------------ NeighMoving *)
(* isotropic, anisotropic and rotated search ellipsoids; the ANeigh options and _distCont survive in the dialect that
   stores them *)
Definition wf_NeighMoving_core (o : neigh_moving) : Prop :=
  wf_dbl (nm_radius o) /\ Forall wf_dbl (nm_coeffs o)
  /\ nm_nsect o = (if flag_sector (an_ndim (nm_base o)) (nm_nsect o) then Z.max (nm_nsect o) 1 else 1)
  /\ (if nm_aniso o
      then lenZ (nm_coeffs o) = an_ndim (nm_base o) /\ nm_coeffs o <> [] /\
           (if nm_rot o
            then lenZ (nm_rotmat o) = an_ndim (nm_base o) * an_ndim (nm_base o) /\ Forall wf_dbl (nm_rotmat o) /\ nm_rotmat o <> []
            else nm_rotmat o = idmat (length (nm_coeffs o)))
      else nm_coeffs o = [d1; d1] /\ nm_rot o = false /\ nm_rotmat o = idmat 2).
Definition wf_NeighMoving (tail : bool) (o : neigh_moving) : Prop :=
  wf_aneighD tail (nm_base o) /\ (if tail then wf_dbl (nm_distcont o) else nm_distcont o = None) /\ wf_NeighMoving_core o.

Definition nm_reset (o : neigh_moving) : neigh_moving :=
  {| nm_base := aneigh_default (an_ndim (nm_base o)); nm_nmini := nm_nmini o; nm_nmaxi := nm_nmaxi o; nm_nsect := nm_nsect o;
     nm_nsmax := nm_nsmax o; nm_distcont := None; nm_radius := nm_radius o; nm_aniso := nm_aniso o; nm_rot := nm_rot o;
     nm_coeffs := nm_coeffs o; nm_rotmat := nm_rotmat o |}.

Lemma NeighMoving_core o : wf_NeighMoving_core o -> reads deser_NeighMoving (ser_NeighMoving o) (nm_reset o).
Proof.
  destruct o as [a nmini nmaxi nsect nsmax dc radius aniso rot coeffs rotmat].
  unfold wf_NeighMoving_core, nm_reset. simpl. intros (Hr & Hc & Hns & Han).
  unfold deser_NeighMoving, ser_NeighMoving.
  cbn [nm_base nm_nmini nm_nmaxi nm_nsect nm_nsmax nm_distcont nm_radius nm_aniso nm_rot nm_coeffs nm_rotmat].
  eapply reads_bind; [apply reads_ANeigh|]. cbn [an_ndim aneigh_default app]. rd.
  rewrite b2z_z2b. destruct aniso.
  - destruct Han as (Hlen & Hne & Hrot).
    assert (Hn : null coeffs = false) by (destruct coeffs; simpl; congruence).
    destruct rot.
    + destruct Hrot as (Hrl & Hrw & Hrne).
      rewrite <- (app_nil_r (map _ coeffs ++ _)). eapply reads_bind.
      { eapply reads_bind; [apply reads_dbl_list; eauto|]. cbn [app b2z]. rd. cbn [z2b Z.eqb negb].
        rewrite <- (app_nil_r (map _ rotmat ++ _)). eapply reads_bind.
        { apply reads_com_r. apply reads_dbl_list; auto. }
        apply reads_ret. }
      cbv beta iota zeta. rewrite Hn. cbn [null].
      assert (Hm : null rotmat = false) by (destruct rotmat; simpl; congruence). rewrite Hm.
      apply reads_ret_eq. rewrite <- Hns. reflexivity.
    + subst rotmat.
      rewrite <- (app_nil_r (map _ coeffs ++ _)). eapply reads_bind.
      { eapply reads_bind; [apply reads_dbl_list; eauto|]. cbn [app b2z]. rd. cbn [z2b Z.eqb negb]. rd. reflexivity. }
      cbv beta iota zeta. rewrite Hn. cbn [null]. apply reads_ret_eq. rewrite <- Hns. reflexivity.
  - destruct Han as (-> & -> & ->). rd. cbn. rewrite <- Hns. apply reads_ret_eq. reflexivity.
Qed.

Lemma NeighMoving_reads tail o : wf_NeighMoving tail o -> reads (deser_NeighMovingD tail) (ser_NeighMovingD tail o) o.
Proof.
  intros (Ha & Hdc & Hcore). unfold deser_NeighMovingD, ser_NeighMovingD.
  eapply reads_bind; [apply NeighMoving_core; auto|].
  destruct o as [a nmini nmaxi nsect nsmax dc radius aniso rot coeffs rotmat]. unfold nm_reset.
  cbn [nm_base nm_nmini nm_nmaxi nm_nsect nm_nsmax nm_distcont nm_radius nm_aniso nm_rot nm_coeffs nm_rotmat] in *.
  eapply reads_bind; [apply reads_options; auto|].
  destruct tail.
  - rewrite <- (app_nil_r [_]). eapply reads_bind with (a := dc).
    + apply reads_not_eod; [reflexivity|]. apply reads_dbl; auto.
    + apply reads_ret.
  - subst dc. rd. reflexivity.
Qed.

(* regression witnesses of the former defects (coefficients multiplied by the radius, rotation flag lost): they now
   come back unchanged *)
Definition nm_witness_scaling : neigh_moving :=
  {| nm_base := aneigh_default 2; nm_nmini := 1; nm_nmaxi := 10; nm_nsect := 1; nm_nsmax := 0; nm_distcont := None;
     nm_radius := Some 20%Q; nm_aniso := true; nm_rot := false;
     nm_coeffs := [Some 1%Q; Some (1#2)%Q]; nm_rotmat := idmat 2 |}.
(* create(false,10,20.,1,1,0,{1,.5},{30,0}), cos/sin to 15 digits *)
Definition nm_witness_rotation : neigh_moving :=
  {| nm_base := aneigh_default 2; nm_nmini := 1; nm_nmaxi := 10; nm_nsect := 1; nm_nsmax := 0; nm_distcont := None;
     nm_radius := Some 20%Q; nm_aniso := true; nm_rot := true;
     nm_coeffs := [Some 1%Q; Some (1#2)%Q];
     nm_rotmat := [Some (866025403784439 # 1000000000000000)%Q; Some (1#2)%Q;
                   Some (-1#2)%Q; Some (866025403784439 # 1000000000000000)%Q] |}.

(* ------------------------------------------------------------------ Table *)
Definition wf_Table (o : table) : Prop :=
  tb_nrows o = lenZ (tb_rows o) /\
  Forall (fun row => lenZ row = tb_ncols o /\ Forall wf_dbl row) (tb_rows o).

Lemma flat_map_ext_in {A B} (f g : A -> list B) l : (forall x, In x l -> f x = g x) -> flat_map f l = flat_map g l.
Proof. induction l; simpl; intros H; auto. rewrite H, IHl; auto. Qed.

Lemma Table_reads o : wf_Table o -> reads deser_Table (ser_Table o) o.
Proof.
  destruct o as [ncols nrows rows]. unfold wf_Table. simpl. intros (-> & Hrows).
  unfold deser_Table, ser_Table. simpl. rd.
  rewrite <- (app_nil_r (flat_map _ rows)). eapply reads_bind; [|apply reads_ret].
  apply reads_rrepZ; auto. intros row Hrow. rewrite Forall_forall in Hrows. destruct (Hrows _ Hrow) as [Hl Hw].
  apply reads_com_r. apply reads_dbl_list; auto.
Qed.

(* ------------------------------------------------------------------ PolyLine2D, PolyElem, Polygons *)
Definition wf_pt (p : pt) : Prop := wf_dbl (fst p) /\ wf_dbl (snd p).

Lemma reads_pt p : wf_pt p -> reads rd_pt [r_vdbl "" [fst p; snd p]] p.
Proof.
  intros [H1 H2]. unfold rd_pt. rewrite <- (app_nil_r [_]). eapply reads_bind.
  - apply (reads_vdbl "" [fst p; snd p]); [repeat constructor; auto | congruence].
  - simpl. destruct p. apply reads_ret.
Qed.

Lemma PolyLine2D_reads pts : Forall wf_pt pts -> reads deser_PolyLine2D (ser_PolyLine2D pts) pts.
Proof.
  intros H. unfold deser_PolyLine2D, ser_PolyLine2D. rd.
  assert (Hn : (lenZ pts <? 0) = false) by (apply Z.ltb_ge; unfold lenZ; lia). rewrite Hn.
  rewrite map_as_flat_map.
  apply reads_rrepZ; auto. intros p Hp. apply reads_pt. rewrite Forall_forall in H; auto.
Qed.

Definition wf_PolyElem (o : polyelem) : Prop := wf_dbl (pe_zmin o) /\ wf_dbl (pe_zmax o) /\ Forall wf_pt (pe_pts o).
Lemma PolyElem_reads o : wf_PolyElem o -> reads deser_PolyElem (ser_PolyElem o) o.
Proof.
  destruct o as [zmin zmax pts]. unfold wf_PolyElem. simpl. intros (H1 & H2 & H3).
  unfold deser_PolyElem, ser_PolyElem. cbn [pe_zmin pe_zmax pe_pts app]. rd.
  rewrite <- (app_nil_r (ser_PolyLine2D pts)). eapply reads_bind; [apply PolyLine2D_reads; auto|]. apply reads_ret.
Qed.

Definition wf_Polygons (pes : list polyelem) : Prop :=
  Forall (fun pe => wf_PolyElem pe /\ keep_pe pe = true) pes.
Lemma Polygons_reads pes : wf_Polygons pes -> reads deser_Polygons (ser_Polygons pes) pes.
Proof.
  intros H. unfold deser_Polygons, ser_Polygons. rd.
  rewrite <- (app_nil_r (flat_map _ pes)). eapply reads_bind.
  - apply reads_rrepZ; auto. intros pe Hpe. unfold wf_Polygons in H. rewrite Forall_forall in H.
    apply PolyElem_reads. apply H; auto.
  - apply reads_ret_eq. unfold wf_Polygons in H. induction H as [|pe pes [_ Hk] _ IH]; simpl; auto.
    rewrite Hk, IH. reflexivity.
Qed.

(* ------------------------------------------------------------------ AnamHermite *)
(* point or block support (any r).  A reader that recomputes mean and variance gives the object back when they are the
   ones the coefficients give; a reader that keeps them gives it back when they are defined. *)
Definition wf_AnamHermite (keep : bool) (o : anam_hermite) : Prop :=
  wf_dbl (ah_azmin o) /\ wf_dbl (ah_azmax o) /\ wf_dbl (ah_aymin o) /\ wf_dbl (ah_aymax o) /\
  wf_dbl (ah_pzmin o) /\ wf_dbl (ah_pzmax o) /\ wf_dbl (ah_pymin o) /\ wf_dbl (ah_pymax o) /\
  wf_dbl (ah_mean o) /\ wf_dbl (ah_variance o) /\ wf_dbl (ah_rcoef o) /\ Forall wf_dbl (ah_psi o) /\
  ah_psi o <> [] /\
  (if keep then ah_mean o <> None /\ ah_variance o <> None
   else ah_mean o = hd d0 (ah_psi o) /\ ah_variance o = hermite_variance (ah_rcoef o) (ah_psi o)).

Lemma AnamHermite_reads keep o : wf_AnamHermite keep o -> reads (deser_AnamHermite keep) (ser_AnamHermite o) o.
Proof.
  destruct o as [a1 a2 a3 a4 p1 p2 p3 p4 m v r psi]. unfold wf_AnamHermite. cbn -[hermite_variance csd].
  intros (H1 & H2 & H3 & H4 & H5 & H6 & H7 & H8 & H9 & H10 & H11 & H12 & Hne & Hk).
  unfold deser_AnamHermite, ser_AnamHermite. cbn -[hermite_variance csd psi_eff]. rd.
  eapply reads_bind_cons; [apply reads_vdbl; auto|]. apply reads_ret_eq.
  destruct keep; cbn [andb].
  - destruct Hk as [Hm Hv]. destruct m; [|congruence]. destruct v; [|congruence]. reflexivity.
  - destruct Hk as [-> ->]. reflexivity.
Qed.

Definition wf_AnamHermiteD (keep btail : bool) (o : anam_hermiteD) : Prop :=
  wf_AnamHermite keep (ahd_core o) /\ (btail = false -> ahd_bound o = true).
Lemma AnamHermiteD_reads keep btail o :
  wf_AnamHermiteD keep btail o -> reads (deser_AnamHermiteD keep btail) (ser_AnamHermiteD btail o) o.
Proof.
  destruct o as [c fb]. unfold wf_AnamHermiteD. cbn [ahd_core ahd_bound]. intros [Hc Hb].
  unfold deser_AnamHermiteD, ser_AnamHermiteD. cbn [ahd_core ahd_bound].
  eapply reads_bind; [apply AnamHermite_reads; auto|].
  destruct btail.
  - rewrite <- (app_nil_r [_]). eapply reads_bind with (a := fb).
    + apply reads_not_eod; [reflexivity|]. rd. apply b2z_z2b.
    + apply reads_ret.
  - rewrite Hb by reflexivity. rd. reflexivity.
Qed.

(* regression witness of the former defect (block support: coefficients written multiplied by r^i) *)
Definition ah_witness : anam_hermite :=
  {| ah_azmin := None; ah_azmax := None; ah_aymin := None; ah_aymax := None;
     ah_pzmin := None; ah_pzmax := None; ah_pymin := None; ah_pymax := None;
     ah_mean := Some 1%Q; ah_variance := Some 2%Q; ah_rcoef := Some (1#2)%Q;
     ah_psi := [Some 1%Q; Some 2%Q; Some 4%Q] |}.

(* ------------------------------------------------------------------ printed records are lexically well formed *)
Lemma good_r_int t z : good_title (W t) = true -> good_rec (r_int t z) = true.
Proof. intros H. unfold r_int, good_rec. rewrite H, print_int_good. reflexivity. Qed.
Lemma good_r_dbl t d : good_title (W t) = true -> good_rec (r_dbl t d) = true.
Proof. intros H. unfold r_dbl, good_rec. rewrite H, print_dbl_good. reflexivity. Qed.
Lemma good_r_bool t b : good_title (W t) = true -> good_rec (r_bool t b) = true.
Proof. intros H. unfold r_bool, good_rec. rewrite H, print_Z_good. reflexivity. Qed.
Lemma good_r_str t w : good_title (W t) = true -> good_word w = true -> good_rec (r_str t w) = true.
Proof. intros H Hw. unfold r_str, good_rec. rewrite H, Hw. reflexivity. Qed.
Lemma good_r_com t : good_title (W t) = true -> good_rec (r_com t) = true.
Proof. intros H. exact H. Qed.
Lemma good_r_vdbl t ds : good_title (W t) = true -> good_rec (r_vdbl t ds) = true.
Proof.
  intros H. unfold r_vdbl, good_rec. rewrite H. simpl. induction ds; simpl; auto. rewrite print_dbl_good; auto.
Qed.
Lemma good_r_vint t zs : good_title (W t) = true -> good_rec (r_vint t zs) = true.
Proof.
  intros H. unfold r_vint, good_rec. rewrite H. simpl. induction zs; simpl; auto. rewrite print_int_good; auto.
Qed.
Lemma good_r_vstr t ws : good_title (W t) = true -> forallb good_word ws = true -> good_rec (r_vstr t ws) = true.
Proof. intros H Hw. unfold r_vstr, good_rec. rewrite H, Hw. reflexivity. Qed.

Lemma forallb_map_true {A B} (p : B -> bool) (f : A -> B) l : (forall x, p (f x) = true) -> forallb p (map f l) = true.
Proof. intros H. induction l; simpl; auto. rewrite H, IHl. reflexivity. Qed.
Lemma forallb_flat_map_true {A B} (p : B -> bool) (f : A -> list B) l :
  (forall x, In x l -> forallb p (f x) = true) -> forallb p (flat_map f l) = true.
Proof. intros H. induction l; simpl; auto. rewrite forallb_app, H, IHl; simpl; auto. intros; apply H; simpl; auto. Qed.

Lemma good_str_list t ws : good_title (W t) = true -> forallb good_word ws = true -> forallb good_rec (map (r_str t) ws) = true.
Proof.
  intros Ht Hw. induction ws as [|w ws IH]; simpl in *; auto. apply andb_prop in Hw. destruct Hw as [H1 H2].
  rewrite Ht, H1, IH; auto.
Qed.

(* solves  forallb good_rec (concrete list built from the typed record constructors) = true *)
Ltac good :=
  repeat match goal with
      | |- true = true => reflexivity
      | |- good_rec (r_int _ _) = true => apply good_r_int; reflexivity
      | |- good_rec (r_dbl _ _) = true => apply good_r_dbl; reflexivity
      | |- good_rec (r_bool _ _) = true => apply good_r_bool; reflexivity
      | |- good_rec (r_com _) = true => apply good_r_com; reflexivity
      | |- good_rec (r_vdbl _ _) = true => apply good_r_vdbl; reflexivity
      | |- good_rec (r_vint _ _) = true => apply good_r_vint; reflexivity
      | |- forallb good_rec (map (r_str _) _) = true => apply good_str_list; [reflexivity | assumption]
      | |- forallb good_rec [] = true => reflexivity
      | |- forallb good_rec (_ ++ _) = true => rewrite forallb_app
      | |- (_ && _)%bool = true => apply andb_true_intro; split
      | |- forallb good_rec (_ :: _) = true => cbn [forallb]
      | |- forallb good_rec (map _ _) = true => apply forallb_map_true; intros
      | |- forallb good_rec (if ?b then _ else _) = true => destruct b
      end.

Lemma good_ANeigh a : forallb good_rec (ser_ANeigh a) = true.
Proof. unfold ser_ANeigh. good. Qed.
Lemma good_NeighBench o : forallb good_rec (ser_NeighBench o) = true.
Proof. unfold ser_NeighBench, ser_ANeigh. good. Qed.
Lemma good_NeighCell o : forallb good_rec (ser_NeighCell o) = true.
Proof. unfold ser_NeighCell, ser_ANeigh. good. Qed.
Lemma good_NeighMoving o : forallb good_rec (ser_NeighMoving o) = true.
Proof. unfold ser_NeighMoving, ser_ANeigh. good. Qed.
Lemma good_Table o : forallb good_rec (ser_Table o) = true.
Proof. unfold ser_Table. good. apply forallb_flat_map_true. intros. good. Qed.
Lemma good_PolyLine2D pts : forallb good_rec (ser_PolyLine2D pts) = true.
Proof. unfold ser_PolyLine2D. good. Qed.
Lemma good_PolyElem o : forallb good_rec (ser_PolyElem o) = true.
Proof. unfold ser_PolyElem. good. apply good_PolyLine2D. Qed.
Lemma good_Polygons pes : forallb good_rec (ser_Polygons pes) = true.
Proof. unfold ser_Polygons. good. apply forallb_flat_map_true. intros. apply good_PolyElem. Qed.
Lemma good_AnamHermite o : forallb good_rec (ser_AnamHermite o) = true.
Proof. unfold ser_AnamHermite. good. Qed.
Lemma good_options tail a : forallb good_rec (ser_ANeigh_options tail a) = true.
Proof. unfold ser_ANeigh_options. good. Qed.
Lemma good_NeighUniqueD tail a : forallb good_rec (ser_NeighUniqueD tail a) = true.
Proof. unfold ser_NeighUniqueD. rewrite forallb_app, good_options. unfold ser_NeighUnique. rewrite good_ANeigh. reflexivity. Qed.
Lemma good_NeighBenchD tail o : forallb good_rec (ser_NeighBenchD tail o) = true.
Proof. unfold ser_NeighBenchD. rewrite forallb_app, good_options, good_NeighBench. reflexivity. Qed.
Lemma good_NeighCellD tail o : forallb good_rec (ser_NeighCellD tail o) = true.
Proof. unfold ser_NeighCellD. rewrite forallb_app, good_options, good_NeighCell. reflexivity. Qed.
Lemma good_NeighMovingD tail o : forallb good_rec (ser_NeighMovingD tail o) = true.
Proof. unfold ser_NeighMovingD. rewrite !forallb_app, good_options, good_NeighMoving. destruct tail; good. Qed.
Lemma good_AnamHermiteD btail o : forallb good_rec (ser_AnamHermiteD btail o) = true.
Proof. unfold ser_AnamHermiteD. rewrite forallb_app, good_AnamHermite. destruct btail; good. Qed.

(* ------------------------------------------------------------------ whole-file statements *)
Definition reload {A} (name : string) (ser : A -> list record) (deser : reader A) (o : A) : option A :=
  nf_read name deser (lex (print (nf_write name (ser o)))).
Definition file {A} (name : string) (ser : A -> list record) (o : A) : list ascii := print (nf_write name (ser o)).

Lemma roundtrip_of_reads {A} name (ser : A -> list record) (deser : reader A) o :
  good_word (W name) = true -> forallb good_rec (ser o) = true -> reads deser (ser o) o ->
  reload name ser deser o = Some o.
Proof. intros Hn Hg Hr. unfold reload. apply nf_roundtrip; auto. Qed.
Lemma rewrite_of_roundtrip {A} name (ser : A -> list record) (deser : reader A) o :
  reload name ser deser o = Some o ->
  forall o', reload name ser deser o = Some o' -> file name ser o' = file name ser o.
Proof. intros H o' H'. rewrite H in H'. inversion H'. reflexivity. Qed.

(* C08 layer 2 (part 3) — Vario (with its VarioParam / DirParam part).  Executable definitions only (no proofs).
   Vario::_serialize / _deserialize   /repo/src/Variogram/Vario.cpp:1824-2029
   getDirSize = getLagTotalNumber * nvar (nvar+1)/2, getLagTotalNumber = asym ? 2 npas + 1 : npas   Vario.cpp:2111, 2170
   The calculation type (ECalcVario value) is written since calculation flag 3 and decides the number of results of a
   direction (asymmetric calculations: covariance 1, covariogram 2, non-centred covariance 9; Vario.cpp:2120).
   Undefined Sw/Hh/Gg are written as NA.
   Not written: the breaks of irregular lags (only the flag), bench, cylrad, idate, dates, faults, the tolerance on
   angle of a direction defined on a grid; in the dialect with calculation flag 4 only the faults and that tolerance. *)
From Coq Require Import Ascii String.
From Coq Require Import List ZArith QArith Bool.
From Gst Require Import C08.Codec C08.Model.
Import ListNotations.
Local Open Scope string_scope.
Local Open Scope list_scope.
Local Open Scope Z_scope.

Definition triple := (dbl * dbl * dbl)%type.      (* sw, hh, gg *)
Record vdir := {
  vd_npas : Z; vd_optcode : Z; vd_tolcode : dbl; vd_dpas : dbl; vd_toldist : dbl;
  vd_grincr : list Z;         (* empty: direction not defined on a grid *)
  vd_tolang : dbl; vd_codir : list dbl;
  vd_bench : dbl; vd_cylrad : dbl; vd_idate : Z;
  vd_breaks : list dbl;       (* empty: regular lags (getFlagRegular) *)
  vd_res : list triple }.     (* getDirSize(idir) entries *)
Record vario := {
  vr_ndim : Z; vr_nvar : Z; vr_scale : dbl; vr_calcul : Z; vr_dates : list dbl;
  vr_names : list word; vr_vars : list (list dbl) (* nvar rows of nvar *); vr_dirs : list vdir }.

Definition is_asym (calcul : Z) : bool := (calcul =? 1) || (calcul =? 2) || (calcul =? 9).      (* _setFlagAsym *)
Definition lag_total (calcul npas : Z) : Z := if is_asym calcul then 2 * npas + 1 else npas.   (* getLagTotalNumber *)
Definition dbl_of_Z (z : Z) : dbl := Some (inject_Z z).
Definition unknown : word := W "Unknown".

Section Dialect.
(* [v4]: dialect with calculation flag 4: the date bounds, and for each direction bench, cylinder radius, reference
   date and breaks, are stored (a reader of that dialect still reads the files with flag 2 or 3) *)
Variable v4 : bool.

Definition ser_triple (t : triple) : list record :=
  let '(sw, hh, gg) := t in [ r_dbl "" sw; r_dbl "" hh; r_dbl "" gg; r_com "" ].
Definition ser_vcomp (d : vdir) : list record :=
  if v4 then
    [ r_dbl "Slicing bench" (vd_bench d); r_dbl "Slicing radius" (vd_cylrad d); r_int "Reference Date" (vd_idate d);
      r_int "Number of Breaks" (lenZ (vd_breaks d)) ]
    ++ (if null (vd_breaks d) then [] else [ r_vdbl "Breaks" (vd_breaks d) ])
  else [].
Definition ser_vdir (d : vdir) : list record :=
  [ r_com "Direction characteristics";
    r_int "Regular lags" (b2z (null (vd_breaks d))); r_int "Number of lags" (vd_npas d); r_int "" (vd_optcode d);
    r_dbl "Code selection: Option - Tolerance" (vd_tolcode d); r_dbl "Lag value" (vd_dpas d);
    r_dbl "Tolerance on distance" (vd_toldist d); r_int "Grid Definition" (b2z (negb (null (vd_grincr d)))) ]
  ++ (if null (vd_grincr d)
      then r_dbl "Tolerance on angle" (vd_tolang d) :: map (r_dbl "") (vd_codir d) ++ [ r_com "Direction coefficients" ]
      else map (fun g => r_dbl "" (dbl_of_Z g)) (vd_grincr d) ++ [ r_com "Direction increments on grid" ]
           ++ map (r_dbl "") (vd_codir d) ++ [ r_com "Direction coefficients" ])
  ++ ser_vcomp d
  ++ [ r_com "Variogram results (Weight, Distance, Variogram)" ] ++ flat_map ser_triple (vd_res d).

Definition ser_Vario (o : vario) : list record :=
  [ r_int "Space Dimension" (vr_ndim o); r_int "Number of variables" (vr_nvar o);
    r_int "Number of directions" (lenZ (vr_dirs o)); r_dbl "Scale" (vr_scale o); r_int "Calculation Flag" (if v4 then 4 else 3);
    r_com "Variable Names" ]
  ++ map (fun i => r_str "" (nth i (vr_names o) unknown)) (seq 0 (Z.to_nat (vr_nvar o)))
  ++ [ r_com ""; r_com "Variance" ]
  ++ flat_map (fun row => map (r_dbl "") row ++ [ r_com "" ]) (vr_vars o)
  ++ [ r_int "Calculation Type" (vr_calcul o) ]
  ++ (if v4 then r_int "Number of Date bounds" (lenZ (vr_dates o)) :: (if null (vr_dates o) then [] else [ r_vdbl "Date bounds" (vr_dates o) ])
      else [])
  ++ flat_map ser_vdir (vr_dirs o).

Definition rd_triple : reader triple :=
  sw <- rd_dbl ;; hh <- rd_dbl ;; gg <- rd_dbl ;; ret (sw, hh, gg).
Definition cap90 (d : dbl) : dbl :=                      (* if (_tolAngle > 90.) _tolAngle = 90. *)
  match d with Some q => if Qle_bool q 90 then d else Some 90%Q | None => Some 90%Q end.   (* TEST > 90 *)
(* a count followed by that many values on a line (nothing when the count is 0; a negative count is refused) *)
Definition rd_counted : reader (list dbl) :=
  n <- rd_int ;; if n <? 0 then fail else if 0 <? n then rd_vdbl n else ret [].
Definition rd_vcomp (fcalc : Z) : reader (dbl * dbl * Z * list dbl) :=
  if v4 && (4 <=? fcalc) then
    b <- rd_dbl ;; c <- rd_dbl ;; i <- rd_int ;; br <- rd_counted ;; ret (b, c, i, br)
  else ret (None, None, 0, []).

(* one direction; tolang is the C++ local variable that survives from one direction to the next *)
Definition rd_vdir (ndim nvar fcalc calcul : Z) (tolang : dbl) : reader (vdir * dbl) :=
  freg <- rd_int ;; npas <- rd_int ;; optcode <- rd_int ;; tolcode <- rd_dbl ;; dpas <- rd_dbl ;; toldis <- rd_dbl ;;
  fgrid <- rd_int ;;
  gc <- (if z2b fgrid
         then g <- rd_vint ndim ;; c <- rd_vdbl ndim ;; ret (g, c, tolang)
         else ta <- rd_dbl ;; c <- rd_vdbl ndim ;; ret ([], c, ta)) ;;
  let '(g, c, ta) := gc in
  cp <- rd_vcomp fcalc ;;
  let '(bench, cyl, idate, breaks) := cp in
  (* getDirSize: the direction holds lagtotal * nvar (nvar+1)/2 results *)
  res <- (if z2b fcalc then rrepZ (lag_total calcul npas * (nvar * (nvar + 1) / 2)) rd_triple else ret []) ;;
  ret ({| vd_npas := npas; vd_optcode := optcode; vd_tolcode := tolcode; vd_dpas := dpas;
          vd_toldist := toldis; vd_grincr := g; vd_tolang := cap90 ta; vd_codir := c;
          vd_bench := bench; vd_cylrad := cyl; vd_idate := idate; vd_breaks := breaks; vd_res := res |}, ta).
Fixpoint rd_vdirs (n : nat) (ndim nvar fcalc calcul : Z) (tolang : dbl) : reader (list vdir) :=
  match n with
  | O => ret []
  | S k => dt <- rd_vdir ndim nvar fcalc calcul tolang ;; ds <- rd_vdirs k ndim nvar fcalc calcul (snd dt) ;; ret (fst dt :: ds)
  end.

Definition deser_Vario : reader vario :=
  ndim <- rd_int ;; nvar <- rd_int ;; ndir <- rd_int ;; scale <- rd_dbl ;; fcalc <- rd_int ;;
  names <- (if 2 <=? fcalc then rrepZ nvar rd_str else ret (repeat unknown (Z.to_nat nvar))) ;;
  (* without variances setVars keeps the identity of _initVars *)
  vars <- (if z2b fcalc then rrepZ nvar (rrepZ nvar rd_dbl)
           else ret (map (fun i => map (fun j => if Nat.eqb i j then d1 else d0) (seq 0 (Z.to_nat nvar))) (seq 0 (Z.to_nat nvar)))) ;;
  (* files written before the calculation type was stored (flag < 3) are variograms: setCalculByName("vg") *)
  calcul <- (if 3 <=? fcalc then rd_int else ret 0) ;;
  dates <- (if v4 && (4 <=? fcalc) then rd_counted else ret []) ;;
  dirs <- rd_vdirs (Z.to_nat ndir) ndim nvar fcalc calcul d0 ;;
  ret {| vr_ndim := ndim; vr_nvar := nvar; vr_scale := scale; vr_calcul := calcul; vr_dates := dates;
         vr_names := names; vr_vars := vars; vr_dirs := dirs |}.
End Dialect.

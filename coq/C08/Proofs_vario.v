(* C08 layer 2 (part 3) — Vario round trip (any calculation type, symmetric or not, undefined results allowed; regular
   lags, directions not defined on a grid); any number of variables, directions and lags *)
From Coq Require Import Ascii String.
From Coq Require Import List ZArith QArith Bool Lia.
From Gst Require Import C08.Codec C08.Proofs_codec C08.Model C08.Proofs_basic C08.Model_vario.
Import ListNotations.
Local Open Scope string_scope.
Local Open Scope list_scope.
Local Open Scope Z_scope.

Lemma map_nth_seq {A B} (f : A -> B) (l : list A) d :
  map (fun i => f (nth i l d)) (seq 0 (length l)) = map f l.
Proof.
  induction l as [|a l IH]; simpl; auto. f_equal. rewrite <- seq_shift, map_map. exact IH.
Qed.

Lemma reads_str_list ws n : n = lenZ ws -> reads (rrepZ n rd_str) (map (r_str "") ws) ws.
Proof.
  intros ->. rewrite map_as_flat_map. apply reads_rrepZ; auto. intros x _. apply reads_str.
Qed.

Definition wf_triple (t : triple) : Prop := let '(sw, hh, gg) := t in wf_dbl sw /\ wf_dbl hh /\ wf_dbl gg.

Lemma reads_triple t : wf_triple t -> reads rd_triple (ser_triple t) t.
Proof.
  destruct t as [[sw hh] gg]. simpl. intros (H1 & H2 & H3).
  unfold rd_triple. rd. reflexivity.
Qed.

(* a count followed by the values (no record for the values when there is none) *)
Lemma reads_counted tc tv ds : Forall wf_dbl ds ->
  reads rd_counted (r_int tc (lenZ ds) :: (if null ds then [] else [r_vdbl tv ds])) ds.
Proof.
  intros Hw. unfold rd_counted. rd.
  assert (Hn : (lenZ ds <? 0) = false) by (apply Z.ltb_ge; unfold lenZ; lia). rewrite Hn.
  destruct ds as [|d ds]; cbn [null].
  - cbn [lenZ length Z.of_nat Z.ltb Z.compare]. apply reads_ret.
  - assert (Hp : (0 <? lenZ (d :: ds)) = true) by (apply Z.ltb_lt; unfold lenZ; simpl length; lia).
    rewrite Hp. apply reads_vdbl; auto. discriminate.
Qed.

Section Dialect.
Variable v4 : bool.

Definition wf_vdir (ndim nvar calcul : Z) (d : vdir) : Prop :=
  vd_grincr d = [] /\
  wf_dbl (vd_tolcode d) /\ wf_dbl (vd_dpas d) /\ wf_dbl (vd_toldist d) /\ wf_dbl (vd_tolang d) /\
  cap90 (vd_tolang d) = vd_tolang d /\
  lenZ (vd_codir d) = ndim /\ Forall wf_dbl (vd_codir d) /\ vd_codir d <> [] /\
  (if v4 then wf_dbl (vd_bench d) /\ wf_dbl (vd_cylrad d) /\ Forall wf_dbl (vd_breaks d)
   else vd_bench d = None /\ vd_cylrad d = None /\ vd_idate d = 0 /\ vd_breaks d = []) /\
  lenZ (vd_res d) = lag_total calcul (vd_npas d) * (nvar * (nvar + 1) / 2) /\ Forall wf_triple (vd_res d).

Lemma reads_vcomp d :
  (if v4 then wf_dbl (vd_bench d) /\ wf_dbl (vd_cylrad d) /\ Forall wf_dbl (vd_breaks d)
   else vd_bench d = None /\ vd_cylrad d = None /\ vd_idate d = 0 /\ vd_breaks d = []) ->
  reads (rd_vcomp v4 (if v4 then 4 else 3)) (ser_vcomp v4 d) (vd_bench d, vd_cylrad d, vd_idate d, vd_breaks d).
Proof.
  unfold rd_vcomp, ser_vcomp. destruct v4; cbn [andb Z.leb Z.compare Pos.compare Pos.compare_cont].
  - intros (H1 & H2 & H3). rewrite <- !app_comm_cons, app_nil_l. rd.
    rewrite <- (app_nil_r (_ :: _)). eapply reads_bind; [apply reads_counted; auto|]. apply reads_ret.
  - intros (-> & -> & -> & ->). apply reads_ret.
Qed.

Lemma reads_vdir ndim nvar calcul ta0 d :
  wf_vdir ndim nvar calcul d -> reads (rd_vdir v4 ndim nvar (if v4 then 4 else 3) calcul ta0) (ser_vdir v4 d) (d, vd_tolang d).
Proof.
  destruct d as [npas oc tc dp td gi ta cd be cy idt br res]. unfold wf_vdir.
  cbn [vd_npas vd_optcode vd_tolcode vd_dpas vd_toldist vd_grincr vd_tolang vd_codir vd_bench vd_cylrad vd_idate vd_breaks vd_res].
  intros (-> & H1 & H2 & H3 & H4 & Hcap & Hlen & Hcd & Hne & Hcomp & Hres & Hw).
  unfold rd_vdir, ser_vdir.
  cbn [vd_npas vd_optcode vd_tolcode vd_dpas vd_toldist vd_grincr vd_tolang vd_codir vd_bench vd_cylrad vd_idate vd_breaks vd_res null negb b2z].
  rewrite <- !app_comm_cons, app_nil_l. rd.
  cbn [z2b Z.eqb negb].
  rewrite app_comm_cons. eapply reads_bind.
  { rd. rewrite <- (app_nil_r (map _ cd ++ _)). eapply reads_bind; [|apply reads_ret].
    rewrite <- Hlen. apply reads_vdbl_untitled; auto. }
  cbv beta iota.
  eapply reads_bind.
  { apply (reads_vcomp {| vd_npas := npas; vd_optcode := oc; vd_tolcode := tc; vd_dpas := dp; vd_toldist := td; vd_grincr := [];
                          vd_tolang := ta; vd_codir := cd; vd_bench := be; vd_cylrad := cy; vd_idate := idt; vd_breaks := br; vd_res := res |}).
    exact Hcomp. }
  cbn [vd_bench vd_cylrad vd_idate vd_breaks]. cbv beta iota.
  apply reads_com_l. rewrite app_nil_l.
  assert (Hz : z2b (if v4 then 4 else 3) = true) by (destruct v4; reflexivity). rewrite Hz.
  rewrite <- (app_nil_r (flat_map _ res)). eapply reads_bind.
  { apply reads_rrepZ; auto. intros t Ht. apply reads_triple. rewrite Forall_forall in Hw; auto. }
  apply reads_ret_eq. rewrite Hcap. reflexivity.
Qed.

Lemma reads_vdirs ndim nvar calcul ds : forall ta0,
  Forall (wf_vdir ndim nvar calcul) ds ->
  reads (rd_vdirs v4 (length ds) ndim nvar (if v4 then 4 else 3) calcul ta0) (flat_map (ser_vdir v4) ds) ds.
Proof.
  induction ds as [|d ds IH]; intros ta0 H; cbn [flat_map rd_vdirs length].
  - apply reads_ret.
  - inversion H as [|? ? Hd Hds]; subst. eapply reads_bind; [apply reads_vdir; eauto|].
    cbn [fst snd]. rewrite <- (app_nil_r (flat_map _ ds)). eapply reads_bind; [apply IH; auto|]. apply reads_ret.
Qed.

Definition wf_Vario (o : vario) : Prop :=
  wf_dbl (vr_scale o) /\
  vr_nvar o = lenZ (vr_names o) /\
  lenZ (vr_vars o) = vr_nvar o /\ Forall (fun row => lenZ row = vr_nvar o /\ Forall wf_dbl row) (vr_vars o) /\
  (if v4 then Forall wf_dbl (vr_dates o) else vr_dates o = []) /\
  Forall (wf_vdir (vr_ndim o) (vr_nvar o) (vr_calcul o)) (vr_dirs o).

Lemma Vario_reads o : wf_Vario o -> reads (deser_Vario v4) (ser_Vario v4 o) o.
Proof.
  destruct o as [ndim nvar scale calcul dates names vars dirs]. unfold wf_Vario.
  cbn [vr_ndim vr_nvar vr_scale vr_calcul vr_dates vr_names vr_vars vr_dirs].
  intros (Hs & -> & Hvl & Hvars & Hdates & Hdirs).
  unfold deser_Vario, ser_Vario. cbn [vr_ndim vr_nvar vr_scale vr_calcul vr_dates vr_names vr_vars vr_dirs].
  rewrite <- !app_comm_cons, app_nil_l. rd.
  assert (F2 : (2 <=? (if v4 then 4 else 3)) = true) by (destruct v4; reflexivity).
  assert (F3 : (3 <=? (if v4 then 4 else 3)) = true) by (destruct v4; reflexivity).
  assert (Fz : z2b (if v4 then 4 else 3) = true) by (destruct v4; reflexivity).
  rewrite F2, F3, Fz.
  replace (Z.to_nat (lenZ names)) with (length names) by (unfold lenZ; rewrite Nat2Z.id; reflexivity).
  rewrite map_nth_seq.
  eapply reads_bind; [apply reads_str_list; reflexivity|].
  rd. rewrite app_nil_l.
  eapply reads_bind.
  { apply reads_rrepZ; auto. intros row Hrow. rewrite Forall_forall in Hvars. destruct (Hvars _ Hrow) as [Hl Hw].
    apply reads_com_r. apply reads_dbl_list; auto. }
  rd. rewrite app_nil_l.
  eapply reads_bind with (a := dates).
  { destruct v4; cbn [andb Z.leb Z.compare Pos.compare Pos.compare_cont].
    - apply reads_counted; auto.
    - subst dates. apply reads_ret. }
  rewrite <- (app_nil_r (flat_map _ dirs)). eapply reads_bind.
  { replace (Z.to_nat (lenZ dirs)) with (length dirs) by (unfold lenZ; rewrite Nat2Z.id; reflexivity).
    apply reads_vdirs; auto. }
  apply reads_ret_eq. reflexivity.
Qed.

Lemma good_Vario o : forallb good_word (vr_names o) = true -> forallb good_rec (ser_Vario v4 o) = true.
Proof.
  intros Hn. unfold ser_Vario. good.
  - apply good_r_str; [reflexivity|].
    match goal with |- good_word (nth ?i _ _) = true => destruct (nth_in_or_default i (vr_names o) unknown) as [Hin | ->] end.
    + rewrite forallb_forall in Hn. apply Hn; auto.
    + reflexivity.
  - apply forallb_flat_map_true. intros row _. good.
  - apply forallb_flat_map_true. intros d _. unfold ser_vdir, ser_vcomp. good.
    all: try (apply forallb_flat_map_true; intros [[a b] c] _; unfold ser_triple; good).
Qed.
End Dialect.

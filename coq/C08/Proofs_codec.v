(* C08 layer 1 — lemmas on the codec: number text round trips, lexical structure of printed records,
   reader calculus ([reads]). *)
From Coq Require Import Ascii String.
From Coq Require Import List ZArith QArith Bool Decimal DecimalZ DecimalPos Lia.
From Gst Require Import C08.Codec.
Import ListNotations.
Local Open Scope char_scope.
Local Open Scope Z_scope.

(* ------------------------------------------------------------------ characters of numbers *)
(* characters that occur in printed integers: harmless for every test the lexer and the parsers make *)
Definition numc (c : ascii) : bool :=
  good_char c && negb (is_slash c) && negb (is_hash c) && negb (Ascii.eqb c "N")
  && negb (is_inf_letter c) && negb (Ascii.eqb c "+").
Definition digc (c : ascii) : bool :=
  numc c && negb (Ascii.eqb c "-") && match digit_of c with Some _ => true | None => false end.

Lemma pr_uint_digc u : forallb digc (pr_uint u) = true.
Proof. induction u; simpl; try rewrite IHu; reflexivity. Qed.

Lemma digc_numc c : digc c = true -> numc c = true.
Proof. unfold digc. intros H. apply andb_prop in H. destruct H as [H _]. apply andb_prop in H. tauto. Qed.

Lemma forallb_impl {A} (p q : A -> bool) l :
  (forall x, p x = true -> q x = true) -> forallb p l = true -> forallb q l = true.
Proof.
  intros Hpq. induction l; simpl; auto. intros H. apply andb_prop in H. destruct H.
  rewrite Hpq, IHl; auto.
Qed.

Lemma rd_uint_pr u : rd_uint (pr_uint u) = Some u.
Proof. induction u; simpl; try rewrite IHu; reflexivity. Qed.

Lemma pr_uint_cons u : u <> Nil -> exists c r, pr_uint u = c :: r /\ digc c = true.
Proof.
  intros Hu. pose proof (pr_uint_digc u) as H.
  destruct u; try congruence; simpl in *; eexists; eexists; split; try reflexivity; reflexivity.
Qed.

Lemma print_Z_numc z : forallb numc (print_Z z) = true.
Proof.
  unfold print_Z. destruct z; simpl; try reflexivity.
  - apply forallb_impl with (p := digc); [apply digc_numc | apply pr_uint_digc].
  - apply forallb_impl with (p := digc); [apply digc_numc | apply pr_uint_digc].
Qed.

Lemma print_Z_cons z : exists c r, print_Z z = c :: r /\ numc c = true.
Proof.
  pose proof (print_Z_numc z) as H. unfold print_Z in *. destruct z; simpl in *.
  - eexists; eexists; split; reflexivity.
  - destruct (pr_uint_cons (Pos.to_uint p) (Unsigned.to_uint_nonnil p)) as (c & r & E & Hc).
    rewrite E. exists c, r. split; auto. apply digc_numc; auto.
  - eexists; eexists; split; reflexivity.
Qed.

Lemma span_pr_uint u : span_digits (pr_uint u) = pr_uint u.
Proof. induction u; simpl; try rewrite IHu; reflexivity. Qed.
Lemma parse_digits_pr u : u <> Nil -> parse_digits (pr_uint u) = Some (Z.of_uint u).
Proof.
  intros Hu. unfold parse_digits. rewrite span_pr_uint.
  destruct (pr_uint_cons u Hu) as (c & r & E & _). rewrite E, <- E, rd_uint_pr. reflexivity.
Qed.

Lemma parse_print_Z z : parse_Z (print_Z z) = Some z.
Proof.
  unfold print_Z. destruct z as [|p|p]; [reflexivity| |].
  - simpl Z.to_int. simpl pr_int.
    destruct (pr_uint_cons (Pos.to_uint p) (Unsigned.to_uint_nonnil p)) as (c & r & E & Hc).
    unfold parse_Z. rewrite E.
    assert (Hm : Ascii.eqb c "-" = false).
    { unfold digc in Hc. apply andb_prop in Hc. destruct Hc as [Hc _]. apply andb_prop in Hc. destruct Hc as [_ Hc].
      destruct (Ascii.eqb c "-"); simpl in Hc; congruence. }
    assert (Hp : Ascii.eqb c "+" = false).
    { apply digc_numc in Hc. unfold numc in Hc. apply andb_prop in Hc. destruct Hc as [_ Hc].
      destruct (Ascii.eqb c "+"); simpl in Hc; congruence. }
    rewrite Hm, Hp, <- E, parse_digits_pr by apply Unsigned.to_uint_nonnil. f_equal.
    change (Z.of_int (Z.to_int (Zpos p)) = Zpos p). apply DecimalZ.of_to.
  - simpl Z.to_int. simpl pr_int. unfold parse_Z.
    change (Ascii.eqb "-" "-") with true. cbv iota. rewrite parse_digits_pr by apply Unsigned.to_uint_nonnil.
    simpl option_map. f_equal.
    change (Z.of_int (Z.to_int (Zneg p)) = Zneg p). apply DecimalZ.of_to.
Qed.

Ltac numc_tac c :=
  unfold numc; destruct (good_char c), (is_slash c), (is_hash c), (Ascii.eqb c "N"), (is_inf_letter c), (Ascii.eqb c "+");
  simpl; congruence.
Lemma numc_good c : numc c = true -> good_char c = true.
Proof. numc_tac c. Qed.
Lemma numc_slash c : numc c = true -> is_slash c = false.
Proof. numc_tac c. Qed.
Lemma numc_hash c : numc c = true -> is_hash c = false.
Proof. numc_tac c. Qed.
Lemma numc_N c : numc c = true -> Ascii.eqb c "N" = false.
Proof. numc_tac c. Qed.
Lemma numc_inf c : numc c = true -> is_inf_letter c = false.
Proof. numc_tac c. Qed.
Lemma numc_plus c : numc c = true -> Ascii.eqb c "+" = false.
Proof. numc_tac c. Qed.

Lemma print_Z_good z : good_word (print_Z z) = true.
Proof.
  destruct (print_Z_cons z) as (c & r & E & Hc). pose proof (print_Z_numc z) as Hn.
  unfold good_word. rewrite (forallb_impl _ _ _ numc_good Hn). rewrite E. simpl.
  rewrite (numc_hash _ Hc). reflexivity.
Qed.
Lemma print_Z_notNA z : is_NA (print_Z z) = false.
Proof.
  destruct (print_Z_cons z) as (c & r & E & Hc). rewrite E. unfold is_NA, NAw. simpl.
  rewrite (numc_N _ Hc). reflexivity.
Qed.

Lemma parse_print_int z : parse_int (print_int z) = Some z.
Proof.
  unfold print_int, parse_int. destruct (Z.eqb_spec z ITEST) as [->|Hne].
  - reflexivity.
  - rewrite print_Z_notNA. apply parse_print_Z.
Qed.
Lemma print_int_good z : good_word (print_int z) = true.
Proof. unfold print_int. destruct (z =? ITEST); [reflexivity | apply print_Z_good]. Qed.

Lemma split_at_app p (a : word) c b :
  forallb (fun x => negb (p x)) a = true -> p c = true -> split_at p (a ++ c :: b) = (a, Some b).
Proof.
  intros Ha Hc. induction a; simpl in *.
  - rewrite Hc. reflexivity.
  - apply andb_prop in Ha. destruct Ha as [H1 H2]. destruct (p a); simpl in H1; try congruence.
    rewrite IHa; auto.
Qed.

Lemma parse_print_Q q : wfQ q -> parse_Q (print_Q q) = Some q.
Proof.
  intros Hq. unfold parse_Q, print_Q. rewrite split_at_app.
  - rewrite !parse_print_Z. destruct q as [n d]. cbn [Qnum Qden]. unfold wfQ in Hq. rewrite Hq. reflexivity.
  - apply forallb_impl with (p := numc); [|apply print_Z_numc]. intros x Hx. rewrite (numc_slash _ Hx). reflexivity.
  - reflexivity.
Qed.

Lemma print_Q_cons q : exists c r, print_Q q = c :: r /\ numc c = true.
Proof.
  unfold print_Q. destruct (print_Z_cons (Qnum q)) as (c & r & E & Hc). rewrite E. simpl. eauto.
Qed.
Lemma print_Q_good q : good_word (print_Q q) = true.
Proof.
  destruct (print_Q_cons q) as (c & r & E & Hc). unfold good_word.
  apply andb_true_intro; split; [apply andb_true_intro; split|].
  - rewrite E. reflexivity.
  - unfold print_Q. rewrite forallb_app. simpl.
    rewrite (forallb_impl _ _ _ numc_good (print_Z_numc _)), (forallb_impl _ _ _ numc_good (print_Z_numc _)). reflexivity.
  - rewrite E. simpl. rewrite (numc_hash _ Hc). reflexivity.
Qed.
Lemma print_Q_notNA q : is_NA (print_Q q) = false.
Proof.
  destruct (print_Q_cons q) as (c & r & E & Hc). rewrite E. unfold is_NA, NAw. simpl. rewrite (numc_N _ Hc). reflexivity.
Qed.
(* after an optional sign, a printed number starts with a digit *)
Lemma print_Z_nonfinite z r : is_nonfinite (print_Z z ++ r) = false.
Proof.
  unfold print_Z. destruct z as [|p|p]; [reflexivity| |].
  - simpl. destruct (pr_uint_cons (Pos.to_uint p) (Unsigned.to_uint_nonnil p)) as (c & r' & E & Hc). rewrite E.
    unfold is_nonfinite. simpl.
    pose proof (digc_numc _ Hc) as Hn. rewrite (numc_plus _ Hn).
    assert (Hm : Ascii.eqb c "-" = false).
    { unfold digc in Hc. apply andb_prop in Hc. destruct Hc as [Hc _]. apply andb_prop in Hc. destruct Hc as [_ Hc].
      destruct (Ascii.eqb c "-"); simpl in Hc; congruence. }
    rewrite Hm. simpl. apply numc_inf; auto.
  - simpl. destruct (pr_uint_cons (Pos.to_uint p) (Unsigned.to_uint_nonnil p)) as (c & r' & E & Hc). rewrite E.
    unfold is_nonfinite. simpl. apply numc_inf. apply digc_numc; auto.
Qed.

Lemma parse_print_dbl d : wf_dbl d -> parse_dbl (print_dbl d) = Some d.
Proof.
  destruct d as [q|]; simpl; [|reflexivity]. intros [Hq Ht]. rewrite Ht.
  unfold parse_dbl. rewrite print_Q_notNA. unfold print_Q at 1. rewrite print_Z_nonfinite.
  rewrite parse_print_Q; auto.
Qed.
Lemma print_dbl_good d : good_word (print_dbl d) = true.
Proof. destruct d as [q|]; simpl; [|reflexivity]. destruct (Qeq_bool q TESTQ); [reflexivity | apply print_Q_good]. Qed.

Lemma wfQb_ok q : wfQb q = true -> wfQ q.
Proof.
  unfold wfQb, wfQ. intros H. apply andb_prop in H. destruct H as [H1 H2].
  apply Z.eqb_eq in H1. apply Pos.eqb_eq in H2. destruct (Qred q), q; simpl in *; congruence.
Qed.
Lemma wf_dblb_ok d : wf_dblb d = true -> wf_dbl d.
Proof.
  destruct d as [q|]; simpl; auto. intros H. apply andb_prop in H. destruct H as [H1 H2]. split.
  - apply wfQb_ok; auto.
  - destruct (Qeq_bool q TESTQ); simpl in *; congruence.
Qed.
Lemma wfQ_red q : wfQ (Qred q).
Proof. unfold wfQ. apply Qred_complete. apply Qred_correct. Qed.

(* ------------------------------------------------------------------ lexical structure *)
Lemma segs_shape cs : exists x ws ls, segs cs = (x :: ws) :: ls.
Proof.
  induction cs as [|c cs IH]; simpl; eauto.
  destruct IH as (x & ws & ls & ->). destruct (is_nl c); eauto. destruct (is_blank c); eauto.
Qed.

Definition consw (w : word) (st : list (list word)) :=
  match st with (x :: ws) :: ls => ((w ++ x) :: ws) :: ls | _ => st end.

Lemma good_char_nl c : good_char c = true -> is_nl c = false.
Proof. unfold good_char. destruct (is_nl c); simpl; congruence. Qed.
Lemma good_char_blank c : good_char c = true -> is_blank c = false.
Proof. unfold good_char. destruct (is_nl c), (is_blank c); simpl; congruence. Qed.

Lemma segs_word w cs : forallb good_char w = true -> segs (w ++ cs) = consw w (segs cs).
Proof.
  induction w as [|c w IH]; simpl; intros H.
  - destruct (segs_shape cs) as (x & ws & ls & ->). reflexivity.
  - apply andb_prop in H. destruct H as [Hc Hw].
    rewrite (good_char_nl _ Hc), (good_char_blank _ Hc), IH; auto.
    destruct (segs_shape cs) as (x & ws & ls & ->). reflexivity.
Qed.

Lemma segs_nl cs : segs (nl :: cs) = [[]] :: segs cs.
Proof. reflexivity. Qed.
Lemma segs_sp cs : segs (sp :: cs) = match segs cs with l :: ls => ([] :: l) :: ls | [] => [[[]; []]] end.
Proof. reflexivity. Qed.

Lemma lex_nl cs : lex (nl :: cs) = [] :: lex cs.
Proof. unfold lex. rewrite segs_nl. reflexivity. Qed.

Lemma lex_word_sp w cs : good_word w = true -> lex (w ++ sp :: cs) = push w (lex cs).
Proof.
  unfold good_word. intros H. apply andb_prop in H. destruct H as [H Hc]. apply andb_prop in H. destruct H as [Hn Hg].
  unfold lex. rewrite segs_word; auto. rewrite segs_sp.
  destruct (segs_shape cs) as (x & ws & ls & ->). simpl consw. rewrite app_nil_r.
  simpl map. simpl filter. rewrite Hn. simpl cut_comment.
  destruct (is_comment w); simpl in Hc; try congruence. reflexivity.
Qed.

(* a title (no line end) followed by a newline: one line, whatever it holds, then the rest *)
Lemma segs_title t cs : good_title t = true -> exists l, segs (t ++ nl :: cs) = l :: segs cs.
Proof.
  induction t as [|c t IH]; simpl; intros H.
  - eauto.
  - apply andb_prop in H. destruct H as [Hc Ht]. destruct (IH Ht) as (l & E). rewrite E.
    destruct (is_nl c); simpl in Hc; try congruence.
    destruct (is_blank c); eauto. destruct l as [|w ws]; eauto.
Qed.

Lemma lex_comment_line t cs : good_title t = true -> lex (W "# " ++ t ++ nl :: cs) = [] :: lex cs.
Proof.
  intros Ht. unfold lex. change (W "# " ++ t ++ nl :: cs) with ("#" :: sp :: (t ++ nl :: cs)).
  destruct (segs_title t cs Ht) as (l & E).
  change (segs ("#" :: sp :: t ++ nl :: cs)) with
    (match (match segs (t ++ nl :: cs) with l :: ls => ([] :: l) :: ls | [] => [[[]; []]] end) with
     | (w :: ws) :: ls => (("#" :: w) :: ws) :: ls
     | [] :: ls => [["#"]] :: ls
     | [] => [[["#"]]]
     end).
  rewrite E. reflexivity.
Qed.

Lemma comment_line_eq t cs : (W "# " ++ t ++ [nl]) ++ cs = W "# " ++ t ++ nl :: cs.
Proof. rewrite <- !app_assoc. reflexivity. Qed.
Lemma titled_val_eq w t cs : (w ++ W " # " ++ t ++ [nl]) ++ cs = w ++ sp :: (W "# " ++ t ++ nl :: cs).
Proof. rewrite <- !app_assoc. reflexivity. Qed.

Lemma lex_vec_line ws cs : forallb good_word ws = true ->
  lex ((flat_map (fun w => w ++ [sp]) ws ++ [nl]) ++ cs) = ws :: lex cs.
Proof.
  rewrite <- app_assoc. simpl. induction ws as [|w ws IH]; simpl; intros H.
  - apply lex_nl.
  - apply andb_prop in H. destruct H as [Hw Hws].
    rewrite <- !app_assoc. simpl. rewrite lex_word_sp; auto. rewrite IH; auto.
Qed.

Lemma lex_print_rec r cs : good_rec r = true -> lex (print_rec r ++ cs) = lay r (lex cs).
Proof.
  destruct r as [w|t w|t ws|t]; intros H; unfold print_rec, lay, good_rec in *.
  - (* RTag: "w\n" *)
    rewrite <- app_assoc. simpl.
    unfold good_word in H. apply andb_prop in H. destruct H as [H Hc]. apply andb_prop in H. destruct H as [Hn Hg].
    unfold lex. rewrite segs_word, segs_nl; auto. simpl. rewrite app_nil_r, Hn. simpl.
    destruct (is_comment w); simpl in Hc; try congruence; try reflexivity.
  - apply andb_prop in H. destruct H as [Ht Hw]. destruct t as [|c t]; cbn [null].
    + rewrite <- app_assoc. simpl. apply lex_word_sp; auto.
    + rewrite titled_val_eq. rewrite lex_word_sp; auto. rewrite lex_comment_line; auto.
  - apply andb_prop in H. destruct H as [Ht Hws].
    destruct t as [|c t]; cbn [null].
    + rewrite app_nil_l. apply lex_vec_line; auto.
    + rewrite <- app_assoc. rewrite comment_line_eq. rewrite lex_comment_line; auto.
      rewrite lex_vec_line; auto.
  - destruct t as [|c t]; cbn [null].
    + simpl. apply lex_nl.
    + rewrite comment_line_eq. apply lex_comment_line; auto.
Qed.

Lemma lex_print_app rs cs : forallb good_rec rs = true -> lex (print rs ++ cs) = layout rs (lex cs).
Proof.
  induction rs as [|r rs IH]; simpl; intros H; auto.
  apply andb_prop in H. destruct H as [Hr Hrs].
  rewrite <- app_assoc. rewrite lex_print_rec; auto. rewrite IH; auto.
Qed.

(* the printed file lexes to exactly the expected lines of data words *)
Lemma lex_print rs : forallb good_rec rs = true -> lex (print rs) = layout rs [[]].
Proof. intros H. rewrite <- (app_nil_r (print rs)). rewrite lex_print_app; auto. Qed.

(* ------------------------------------------------------------------ raw readers = readers on the data view *)
Definition cut (s : stream) : stream := map cut_comment s.
Lemma lex_cut cs : lex cs = cut (raw_lex cs).
Proof. unfold lex, cut, raw_lex. rewrite map_map. reflexivity. Qed.

Lemma rword_raw_cut s :
  fst (rword (cut s)) = fst (rword_raw s) /\ snd (rword (cut s)) = cut (snd (rword_raw s)).
Proof.
  induction s as [|l s IH]; simpl; auto.
  destruct l as [|w l]; simpl; auto.
  destruct (is_comment w); simpl; auto.
Qed.
Lemma rline_raw_cut s :
  fst (rline (cut s)) = fst (rline_raw s) /\ snd (rline (cut s)) = cut (snd (rline_raw s)).
Proof.
  induction s as [|l s IH]; simpl; auto.
  destruct l as [|w l]; simpl; auto.
  destruct (is_comment w) eqn:E; simpl; try rewrite E; auto.
Qed.

(* ------------------------------------------------------------------ reader calculus *)
Fixpoint sk (s : stream) : stream := match s with [] :: ls => sk ls | _ => s end.

Lemma rword_sk s : rword (sk s) = rword s.
Proof. induction s as [|l s IH]; simpl; auto. destruct l; auto. Qed.
Lemma rline_sk s : rline (sk s) = rline s.
Proof. induction s as [|l s IH]; simpl; auto. destruct l; auto. Qed.
Lemma sk_idem s : sk (sk s) = sk s.
Proof. induction s as [|l s IH]; simpl; auto. destruct l; auto. Qed.

(* [reads r rs a]: on any stream that starts (up to blank lines) with the printed records rs, the reader r
   succeeds with value a and leaves (up to blank lines) what follows the records *)
Definition reads {A} (r : reader A) (rs : list record) (a : A) : Prop :=
  forall s s0, sk s0 = sk (layout rs s) -> exists s1, r s0 = Some (a, s1) /\ sk s1 = sk s.

Lemma layout_app rs1 rs2 s : layout (rs1 ++ rs2) s = layout rs1 (layout rs2 s).
Proof. unfold layout. apply fold_right_app. Qed.

Lemma reads_ret {A} (a : A) : reads (ret a) [] a.
Proof. intros s s0 H. exists s0. split; auto. Qed.

Lemma reads_bind {A B} (r : reader A) (f : A -> reader B) rs1 rs2 a b :
  reads r rs1 a -> reads (f a) rs2 b -> reads (bind r f) (rs1 ++ rs2) b.
Proof.
  intros H1 H2 s s0 E. rewrite layout_app in E.
  destruct (H1 _ _ E) as (s1 & E1 & K1). destruct (H2 _ _ K1) as (s2 & E2 & K2).
  exists s2. unfold bind. rewrite E1. auto.
Qed.
Lemma reads_bind_cons {A B} (r : reader A) (f : A -> reader B) x rs a b :
  reads r [x] a -> reads (f a) rs b -> reads (bind r f) (x :: rs) b.
Proof. intros. change (x :: rs) with ([x] ++ rs). eapply reads_bind; eauto. Qed.

Lemma reads_com_l {A} (r : reader A) t rs a : reads r rs a -> reads r (RCom t :: rs) a.
Proof. intros H s s0 E. apply H. exact E. Qed.
Lemma reads_com_r {A} (r : reader A) t rs a : reads r rs a -> reads r (rs ++ [RCom t]) a.
Proof.
  intros H s s0 E. rewrite layout_app in E. simpl in E. destruct (H _ _ E) as (s1 & E1 & K). exists s1. auto.
Qed.
Lemma reads_ret_com {A} (a : A) t : reads (ret a) [RCom t] a.
Proof. apply reads_com_l. apply reads_ret. Qed.

Lemma sk_push w s : sk (push w s) = push w s.
Proof. destruct s; reflexivity. Qed.
Lemma rword_push w s : exists s1, rword (push w s) = (Some w, s1) /\ sk s1 = sk s.
Proof. destruct s as [|l ls]; simpl; eauto. Qed.

Lemma reads_val {A} (p : word -> option A) dflt t w a :
  p w = Some a -> reads (rd_val p dflt) [RVal t w] a.
Proof.
  intros Hp s s0 E. unfold rd_val. rewrite <- rword_sk, E, rword_sk. simpl.
  destruct (null t).
  - destruct (rword_push w s) as (s1 & E1 & K). rewrite E1, Hp. eauto.
  - simpl. rewrite Hp. exists ([] :: s). auto.
Qed.

Lemma reads_int t z : reads rd_int [r_int t z] z.
Proof. apply reads_val. apply parse_print_int. Qed.
Lemma reads_dbl t d : wf_dbl d -> reads rd_dbl [r_dbl t d] d.
Proof. intros. apply reads_val. apply parse_print_dbl; auto. Qed.
Lemma reads_str t w : reads rd_str [r_str t w] w.
Proof. apply reads_val. reflexivity. Qed.
Lemma reads_bool t b : reads rd_bool [r_bool t b] b.
Proof.
  apply reads_val. unfold parse_int. rewrite print_Z_notNA, parse_print_Z. destruct b; reflexivity.
Qed.

Lemma weqb_refl w : weqb w w = true.
Proof. induction w; simpl; auto. rewrite Ascii.eqb_refl; auto. Qed.
Lemma weqb_eq a b : weqb a b = true -> a = b.
Proof.
  revert b. induction a as [|x a IH]; destruct b as [|y b]; simpl; try congruence.
  intros H. apply andb_prop in H. destruct H as [H1 H2]. apply Ascii.eqb_eq in H1. f_equal; auto.
Qed.
Lemma wlist_eqb_refl l : wlist_eqb l l = true.
Proof. induction l; simpl; auto. rewrite weqb_refl; auto. Qed.
(* the words of a name that is one good word *)
Lemma tag_words_good w : good_word w = true -> tag_words w = [w].
Proof.
  unfold good_word. intros H. apply andb_prop in H. destruct H as [H Hc]. apply andb_prop in H. destruct H as [Hn Hg].
  unfold tag_words. rewrite <- (app_nil_r w) at 1. rewrite segs_word; auto. simpl. rewrite app_nil_r, Hn. reflexivity.
Qed.

Lemma mapM_map {A B} (p : word -> option B) (pr : A -> word) (f : A -> B) l :
  (forall x, In x l -> p (pr x) = Some (f x)) -> mapM p (map pr l) = Some (map f l).
Proof.
  induction l; simpl; intros H; auto. rewrite H, IHl; auto.
Qed.

(* [has_data rs]: the printed records hold at least one data word *)
Fixpoint has_data (rs : list record) : bool :=
  match rs with
  | [] => false
  | RCom _ :: r => has_data r
  | RVec _ [] :: r => has_data r
  | _ :: _ => true
  end.
Lemma rword_layout_data rs s : has_data rs = true -> fst (rword (layout rs s)) <> None.
Proof.
  induction rs as [|r rs IH]; simpl; [discriminate|].
  destruct r as [w|t w|t ws|t]; simpl.
  - intros _. discriminate.
  - intros _. destruct (null t); simpl; [|discriminate]. destruct (layout rs s); simpl; discriminate.
  - destruct ws as [|w ws].
    + intros H. destruct (null t); simpl; auto.
    + intros _. destruct (null t); simpl; discriminate.
  - auto.
Qed.
(* when data follows, the end-of-data probe answers false and the reading goes on *)
Lemma reads_not_eod {B} (k : bool -> reader B) rs b :
  has_data rs = true -> reads (k false) rs b -> reads (bind rd_eod k) rs b.
Proof.
  intros Hd H s s0 E. unfold bind, rd_eod.
  assert (Hw : fst (rword s0) <> None).
  { rewrite <- rword_sk, E, rword_sk. apply rword_layout_data; auto. }
  destruct (fst (rword s0)); [|congruence]. apply H. exact E.
Qed.

(* a vector record with at least one value (an empty vector is NOT read back: see C08_empty_vector_refuted) *)
Lemma reads_vec {A} (p : word -> option A) t ws v n :
  mapM p ws = Some v -> ws <> [] -> n = Z.of_nat (length ws) -> reads (rd_vec p n) [RVec t ws] v.
Proof.
  intros Hp Hne -> s s0 E. unfold rd_vec.
  destruct ws as [|w ws]; try congruence.
  assert (Hz : (Z.of_nat (length (w :: ws)) =? 0) = false) by (apply Z.eqb_neq; simpl length; lia).
  rewrite Hz. rewrite <- rline_sk, E, rline_sk. simpl.
  destruct (null t); simpl rline; cbv beta iota; rewrite Z.eqb_refl, Hp; eauto.
Qed.

(* values written one by one without title and closed by a comment share one line: they can be read as a vector *)
Lemma layout_untitled ws t s : layout (map (RVal []) ws ++ [RCom t]) s = ws :: s.
Proof.
  rewrite layout_app. simpl. induction ws as [|w ws IH]; simpl; auto. rewrite IH. reflexivity.
Qed.
Lemma reads_vec_untitled {A} (p : word -> option A) t ws v n :
  mapM p ws = Some v -> ws <> [] -> n = Z.of_nat (length ws) -> reads (rd_vec p n) (map (RVal []) ws ++ [RCom t]) v.
Proof.
  intros Hp Hne -> s s0 E. unfold rd_vec. rewrite layout_untitled in E.
  destruct ws as [|w ws]; try congruence.
  assert (Hz : (Z.of_nat (length (w :: ws)) =? 0) = false) by (apply Z.eqb_neq; simpl length; lia).
  rewrite Hz. rewrite <- rline_sk, E, rline_sk.
  simpl rline. cbv beta iota. rewrite Z.eqb_refl, Hp. eauto.
Qed.
Lemma reads_vdbl_untitled t ds :
  Forall wf_dbl ds -> ds <> [] -> reads (rd_vdbl (Z.of_nat (length ds))) (map (r_dbl "") ds ++ [RCom t]) ds.
Proof.
  intros Hwf Hne. unfold rd_vdbl.
  replace (map (r_dbl "") ds) with (map (RVal []) (map print_dbl ds)) by (rewrite map_map; reflexivity).
  apply reads_vec_untitled.
  - rewrite <- (map_id ds) at 2. apply mapM_map. intros x Hx. apply parse_print_dbl.
    rewrite Forall_forall in Hwf. auto.
  - destruct ds; simpl; congruence.
  - rewrite map_length. reflexivity.
Qed.

Lemma reads_vdbl t ds : Forall wf_dbl ds -> ds <> [] -> reads (rd_vdbl (Z.of_nat (length ds))) [r_vdbl t ds] ds.
Proof.
  intros Hwf Hne. unfold rd_vdbl, r_vdbl. apply reads_vec.
  - rewrite <- (map_id ds) at 2. apply mapM_map. intros x Hx. apply parse_print_dbl.
    rewrite Forall_forall in Hwf. auto.
  - destruct ds; simpl; congruence.
  - rewrite map_length. reflexivity.
Qed.
Lemma reads_vint t zs : zs <> [] -> reads (rd_vint (Z.of_nat (length zs))) [r_vint t zs] zs.
Proof.
  intros Hne. unfold rd_vint, r_vint. apply reads_vec.
  - rewrite <- (map_id zs) at 2. apply mapM_map. intros x Hx. apply parse_print_int.
  - destruct zs; simpl; congruence.
  - rewrite map_length. reflexivity.
Qed.
Lemma reads_vstr t ws : ws <> [] -> reads (rd_vstr (Z.of_nat (length ws))) [r_vstr t ws] ws.
Proof.
  intros Hne. unfold rd_vstr, r_vstr. apply reads_vec; auto.
  rewrite <- (map_id ws) at 2. rewrite <- (map_id ws) at 1. apply mapM_map. reflexivity.
Qed.

(* loops: n repetitions of a reader against the concatenated records of a list of n items *)
Lemma reads_rrep {A} (r : reader A) (f : A -> list record) xs :
  (forall x, In x xs -> reads r (f x) x) -> reads (rrep (length xs) r) (flat_map f xs) xs.
Proof.
  induction xs as [|x xs IH]; simpl; intros H.
  - apply reads_ret.
  - eapply reads_bind; [apply H; auto|].
    rewrite <- (app_nil_r (flat_map f xs)). eapply reads_bind; [apply IH; auto|]. apply reads_ret.
Qed.
Lemma reads_rrepZ {A} (r : reader A) (f : A -> list record) xs n :
  n = Z.of_nat (length xs) -> (forall x, In x xs -> reads r (f x) x) -> reads (rrepZ n r) (flat_map f xs) xs.
Proof. intros -> H. unfold rrepZ. rewrite Nat2Z.id. apply reads_rrep; auto. Qed.

(* the value read for an item may be a function of the item *)
Lemma reads_rrep_map {A B} (r : reader B) (f : A -> list record) (g : A -> B) xs :
  (forall x, In x xs -> reads r (f x) (g x)) -> reads (rrep (length xs) r) (flat_map f xs) (map g xs).
Proof.
  induction xs as [|x xs IH]; simpl; intros H.
  - apply reads_ret.
  - eapply reads_bind; [apply H; auto|].
    rewrite <- (app_nil_r (flat_map f xs)). eapply reads_bind; [apply IH; auto|]. apply reads_ret.
Qed.
Lemma reads_rrepZ_map {A B} (r : reader B) (f : A -> list record) (g : A -> B) xs n :
  n = Z.of_nat (length xs) -> (forall x, In x xs -> reads r (f x) (g x)) -> reads (rrepZ n r) (flat_map f xs) (map g xs).
Proof. intros -> H. unfold rrepZ. rewrite Nat2Z.id. apply reads_rrep_map; auto. Qed.

(* items written by a function of the item, read by a reader that does not depend on it, with a per-item invariant *)
Lemma reads_ext {A} (r r' : reader A) rs a : (forall s, r s = r' s) -> reads r rs a -> reads r' rs a.
Proof. intros E H s s0 K. destruct (H _ _ K) as (s1 & E1 & K1). exists s1. rewrite <- E. auto. Qed.

(* running a reader on the lexed printed file *)
Lemma reads_run {A} (r : reader A) rs a :
  reads r rs a -> forallb good_rec rs = true -> exists s1, r (lex (print rs)) = Some (a, s1).
Proof.
  intros H Hg. rewrite lex_print; auto. destruct (H [[]] (layout rs [[]]) eq_refl) as (s1 & E & _). eauto.
Qed.
Lemma nf_roundtrip {A} name (body : reader A) rs a :
  reads body rs a -> good_word (W name) = true -> forallb good_rec rs = true ->
  nf_read name body (lex (print (nf_write name rs))) = Some a.
Proof.
  intros H Hn Hg. unfold nf_read, nf_write.
  rewrite lex_print by (simpl; rewrite Hn, Hg; reflexivity).
  cbn [layout fold_right lay]. unfold bind, rd_tag.
  rewrite (tag_words_good _ Hn). cbn [wlist_eqb]. rewrite weqb_refl. cbn [andb].
  destruct (H [[]] (layout rs [[]]) eq_refl) as (s1 & E & _). unfold layout in E. rewrite E. reflexivity.
Qed.

(* an empty vector record is read back as the empty vector, whatever follows *)
Lemma reads_vec_nil {A} (p : word -> option A) t : reads (rd_vec p 0) [RVec t []] [].
Proof.
  intros s s0 E. unfold rd_vec. simpl. exists s0. split; auto. rewrite E. simpl. destruct (null t); reflexivity.
Qed.
Lemma empty_vector_read_back :
  nf_read "T" (v <- rd_vdbl 0 ;; x <- rd_int ;; ret (v, x)) (lex (print (nf_write "T" [r_vdbl "V" []; r_int "n" 7]))) = Some ([], 7).
Proof. vm_compute. reflexivity. Qed.

(* C08 layer 2 (part 7) — round trips of Rule, RuleShift, RuleShadow: the node list written in prefix order, with the
   shared rank counter, is hung back into the same tree by the table-driven reader *)
From Coq Require Import Ascii String.
From Coq Require Import List ZArith QArith Bool Lia.
From Gst Require Import C08.Codec C08.Proofs_codec C08.Model C08.Proofs_basic C08.Model_rule.
Import ListNotations.
Local Open Scope string_scope.
Local Open Scope list_scope.
Local Open Scope Z_scope.

(* ------------------------------------------------------------------ the node list without the threaded counter *)
Fixpoint nthr (n : rnode) : Z := match n with RFac _ => 0 | RThr _ l r => 1 + nthr l + nthr r end.
Fixpoint tups (ft fr fv k : Z) (n : rnode) : list tup :=
  match n with
  | RFac f => [(ft, fr, fv, 0, k, f)]
  | RThr o l r => (ft, fr, fv, o, k + 1, 0) :: tups o (k + 1) 1 (k + 1) l ++ tups o (k + 1) 2 (k + 1 + nthr l) r
  end.
Lemma tuples_spec n : forall ft fr fv k, tuples ft fr fv k n = (tups ft fr fv k n, k + nthr n).
Proof.
  induction n as [f|o l IHl r IHr]; intros; cbn [tuples tups nthr].
  - rewrite Z.add_0_r. reflexivity.
  - rewrite IHl, IHr. f_equal. lia.
Qed.
Lemma nthr_nonneg n : 0 <= nthr n.
Proof. induction n; cbn [nthr]; lia. Qed.
Lemma nnodes_nthr n : nnodes n = 2 * nthr n + 1.
Proof. induction n; cbn [nnodes nthr]; lia. Qed.
Lemma length_tups n : forall ft fr fv k, Z.of_nat (length (tups ft fr fv k n)) = nnodes n.
Proof.
  induction n as [f|o l IHl r IHr]; intros; cbn [tups length nnodes]; auto.
  rewrite app_length, Nat2Z.inj_succ, Nat2Z.inj_add, IHl, IHr. lia.
Qed.

Fixpoint wf_node (n : rnode) : Prop :=
  match n with RFac f => 0 < f | RThr o l r => (o = 1 \/ o = 2) /\ wf_node l /\ wf_node r end.

(* the tree with the ranks that the writer gives to its thresholds *)
Fixpoint ann (k : Z) (n : rnode) : ptree :=
  match n with
  | RFac f => PFac f
  | RThr o l r => PThr o (k + 1) (ann (k + 1) l) (ann (k + 1 + nthr l) r)
  end.
Lemma complete_ann n : forall k, complete (ann k n) = Some n.
Proof. induction n as [f|o l IHl r IHr]; intros; simpl; auto. rewrite IHl, IHr. reflexivity. Qed.

(* ------------------------------------------------------------------ ranks in a tree under construction *)
Fixpoint ranks (P : Z -> Prop) (t : ptree) : Prop :=
  match t with PThr _ k l r => P k /\ ranks P l /\ ranks P r | _ => True end.
Lemma ranks_impl (P Q : Z -> Prop) t : (forall k, P k -> Q k) -> ranks P t -> ranks Q t.
Proof. intros H. induction t; simpl; auto. intros (A & B & C). auto. Qed.
Lemma ranks_ann n : forall k, ranks (fun x => k < x <= k + nthr n) (ann k n).
Proof.
  induction n as [f|o l IHl r IHr]; intros; cbn [ann ranks nthr]; auto.
  pose proof (nthr_nonneg l). pose proof (nthr_nonneg r).
  split; [lia|]. split.
  - eapply ranks_impl; [|apply IHl]. cbv beta. intros; lia.
  - eapply ranks_impl; [|apply IHr]. cbv beta. intros; lia.
Qed.
(* no threshold of rank fr: the insertion changes nothing *)
Lemma pinsert_nomatch ft fr fv N T : ranks (fun k => k <> fr) T -> pinsert ft fr fv N T = T.
Proof.
  induction T as [| |o k l IHl r IHr]; simpl; auto. intros (A & B & C).
  rewrite IHl, IHr by auto. replace (k =? fr) with false by (symmetry; apply Z.eqb_neq; auto).
  rewrite andb_false_r. reflexivity.
Qed.
(* two insertions commute when the second target is not in the tree yet *)
Lemma pinsert_comm o' k' v X ft fr fv N T : ranks (fun k => k <> k') T ->
  pinsert o' k' v X (pinsert ft fr fv N T) = pinsert ft fr fv (pinsert o' k' v X N) T.
Proof.
  induction T as [| |o k l IHl r IHr]; simpl; auto. intros (A & B & C).
  assert (E : (o =? o') && (k =? k') = false).
  { replace (k =? k') with false by (symmetry; apply Z.eqb_neq; auto). apply andb_false_r. }
  destruct ((o =? ft) && (k =? fr)).
  - destruct (fv =? 1); simpl; rewrite E, ?IHl, ?IHr by auto; reflexivity.
  - simpl. rewrite E, IHl, IHr by auto. reflexivity.
Qed.
Lemma ranks_pinsert (P : Z -> Prop) ft fr fv N T : ranks P T -> ranks P N -> ranks P (pinsert ft fr fv N T).
Proof.
  intros HT HN. induction T as [| |o k l IHl r IHr]; simpl; auto. destruct HT as (A & B & C).
  destruct ((o =? ft) && (k =? fr)); [destruct (fv =? 1)|]; simpl; auto.
Qed.

(* ------------------------------------------------------------------ the reader hangs a whole sub-rule where it belongs *)
Lemma fold_sub n : forall ft fr fv k T rest, wf_node n -> (ft = 1 \/ ft = 2) -> ranks (fun x => x <= k) T ->
  fold_left step (tups ft fr fv k n ++ rest) T = fold_left step rest (pinsert ft fr fv (ann k n) T).
Proof.
  induction n as [f|o l IHl r IHr]; intros ft fr fv k T rest Hwf Hft HT.
  - simpl. unfold step. replace ((ft =? 1) || (ft =? 2)) with true by (destruct Hft; subst; reflexivity). reflexivity.
  - destruct Hwf as (Ho & Hl & Hr). cbn [tups ann]. rewrite <- app_comm_cons. cbn [fold_left].
    set (cur := k + 1).
    assert (Hstep : step T (ft, fr, fv, o, cur, 0) = pinsert ft fr fv (PThr o cur PHole PHole) T).
    { unfold step, new_node. replace ((ft =? 1) || (ft =? 2)) with true by (destruct Hft; subst; reflexivity).
      replace (o =? 0) with false by (destruct Ho; subst; reflexivity). reflexivity. }
    rewrite Hstep. rewrite <- app_assoc.
    pose proof (nthr_nonneg l) as Nl.
    rewrite IHl; auto.
    2:{ apply ranks_pinsert; [eapply ranks_impl; [|exact HT]; cbv beta; intros; lia | cbn [ranks]; repeat split; lia]. }
    rewrite IHr; auto.
    2:{ apply ranks_pinsert.
        - apply ranks_pinsert; [eapply ranks_impl; [|exact HT]; cbv beta; intros; lia | cbn [ranks]; repeat split; lia].
        - eapply ranks_impl; [|apply ranks_ann]. cbv beta. intros; lia. }
    f_equal.
    assert (HTc : ranks (fun x => x <> cur) T) by (eapply ranks_impl; [|exact HT]; cbv beta; intros; lia).
    rewrite (pinsert_comm o cur 1) by exact HTc.
    assert (E1 : pinsert o cur 1 (ann cur l) (PThr o cur PHole PHole) = PThr o cur (ann cur l) PHole).
    { simpl. rewrite !Z.eqb_refl. reflexivity. }
    rewrite E1. rewrite (pinsert_comm o cur 2) by exact HTc.
    assert (E2 : pinsert o cur 2 (ann (cur + nthr l) r) (PThr o cur (ann cur l) PHole)
                 = PThr o cur (ann cur l) (ann (cur + nthr l) r)).
    { simpl. rewrite !Z.eqb_refl. simpl. rewrite pinsert_nomatch; [reflexivity|].
      eapply ranks_impl; [|apply ranks_ann]. cbv beta. intros; lia. }
    rewrite E2. reflexivity.
Qed.
Lemma build_tups o l r : wf_node (RThr o l r) ->
  build (tups 0 0 0 0 (RThr o l r)) = Some (ann 0 (RThr o l r)).
Proof.
  intros (Ho & Hl & Hr). cbn [tups ann build]. f_equal.
  assert (N0 : new_node (0, 0, 0, o, 0 + 1, 0) = PThr o 1 PHole PHole).
  { unfold new_node. replace (o =? 0) with false by (destruct Ho; subst; reflexivity). reflexivity. }
  rewrite N0. change (0 + 1) with 1.
  pose proof (nthr_nonneg l) as Nl.
  rewrite fold_sub; auto; [|cbn [ranks]; repeat split; lia].
  rewrite <- (app_nil_r (tups o 1 2 (1 + nthr l) r)).
  rewrite fold_sub; auto.
  2:{ apply ranks_pinsert; [cbn [ranks]; repeat split; lia|]. eapply ranks_impl; [|apply ranks_ann]. cbv beta. intros; lia. }
  simpl. rewrite !Z.eqb_refl. simpl. rewrite !Z.eqb_refl. simpl.
  rewrite pinsert_nomatch; [reflexivity|]. eapply ranks_impl; [|apply ranks_ann]. cbv beta. intros; lia.
Qed.

(* ------------------------------------------------------------------ the node list passes the checks of the reader *)
Definition key (t : tup) : Z * Z := let '(_, _, _, ty, rk, _) := t in (ty, rk).
Definition bounded (seen : list (Z * Z)) (k : Z) : Prop := forall p, In p seen -> snd p <= k.
Lemma zmem_app p a b : zmem p (a ++ b) = zmem p a || zmem p b.
Proof. unfold zmem. apply existsb_app. Qed.
Lemma zmem_self p : zmem p [p] = true.
Proof. unfold zmem. simpl. rewrite !Z.eqb_refl. reflexivity. Qed.
Lemma zmem_bounded ty rk seen k : bounded seen k -> k < rk -> zmem (ty, rk) seen = false.
Proof.
  intros Hb Hk. unfold zmem. destruct (existsb _ seen) eqn:E; auto.
  apply existsb_exists in E. destruct E as (q & Hq & Hc). apply andb_prop in Hc. destruct Hc as [_ Hc].
  apply Z.eqb_eq in Hc. simpl in Hc. pose proof (Hb q Hq). lia.
Qed.
Lemma keys_bounded n : forall ft fr fv k p, In p (map key (tups ft fr fv k n)) -> snd p <= k + nthr n.
Proof.
  induction n as [f|o l IHl r IHr]; intros ft fr fv k p; cbn [tups map key In].
  - intros [<-|[]]. cbn [snd nthr]. lia.
  - pose proof (nthr_nonneg l). pose proof (nthr_nonneg r). cbn [nthr]. rewrite map_app, in_app_iff.
    intros [<-|[H1|H1]]; [cbn [snd]; lia | apply IHl in H1; lia | apply IHr in H1; lia].
Qed.
Lemma valid_sub leaf0 nb n : forall ft fr fv k seen rest,
  wf_node n -> (ft = 1 \/ ft = 2) -> 1 <= k -> k + nthr n <= nb -> zmem (ft, fr) seen = true -> bounded seen k ->
  valid_nodes leaf0 nb (seen ++ map key (tups ft fr fv k n)) false rest = true ->
  valid_nodes leaf0 nb seen false (tups ft fr fv k n ++ rest) = true.
Proof.
  induction n as [f|o l IHl r IHr]; intros ft fr fv k seen rest Hwf Hft Hk Hnb Hpar Hb Hrest.
  - cbn [tups app valid_nodes nthr] in *. rewrite Hpar.
    replace ((ft =? 0) || (ft =? 1) || (ft =? 2)) with true by (destruct Hft; subst; reflexivity).
    replace (negb (ft =? 0)) with true by (destruct Hft; subst; reflexivity). cbn [map key] in Hrest. rewrite Hrest.
    replace (1 <=? k) with true by (symmetry; apply Z.leb_le; lia).
    replace (k <=? nb) with true by (symmetry; apply Z.leb_le; lia). rewrite orb_true_r. reflexivity.
  - destruct Hwf as (Ho & Hl & Hr). cbn [tups nthr] in *.
    pose proof (nthr_nonneg l) as Nl. pose proof (nthr_nonneg r) as Nr.
    rewrite <- app_comm_cons. cbn [valid_nodes].
    rewrite Hpar.
    replace ((ft =? 0) || (ft =? 1) || (ft =? 2)) with true by (destruct Hft; subst; reflexivity).
    replace (negb (ft =? 0)) with true by (destruct Hft; subst; reflexivity).
    replace (1 <=? k + 1) with true by (symmetry; apply Z.leb_le; lia).
    replace (k + 1 <=? nb) with true by (symmetry; apply Z.leb_le; lia). rewrite orb_true_r.
    rewrite (zmem_bounded o (k + 1) seen k) by (auto; lia).
    replace ((o =? 0) || (o =? 1) || (o =? 2)) with true by (destruct Ho; subst; reflexivity).
    rewrite andb_false_r. cbn [negb andb orb].
    rewrite <- app_assoc.
    assert (Hb1 : bounded (seen ++ [(o, k + 1)]) (k + 1)).
    { intros p Hp. apply in_app_iff in Hp. destruct Hp as [Hp|[<-|[]]]; [apply Hb in Hp; lia | simpl; lia]. }
    apply IHl; auto; try lia.
    { rewrite zmem_app, zmem_self. apply orb_true_r. }
    apply IHr; auto; try lia.
    { rewrite !zmem_app, zmem_self. rewrite orb_true_r. reflexivity. }
    { intros p Hp. apply in_app_iff in Hp. destruct Hp as [Hp|Hp]; [apply Hb1 in Hp; lia | apply keys_bounded in Hp; lia]. }
    cbn [map key] in Hrest. rewrite map_app in Hrest.
    replace (((seen ++ [(o, k + 1)]) ++ map key (tups o (k + 1) 1 (k + 1) l)) ++ map key (tups o (k + 1) 2 (k + 1 + nthr l) r))
      with (seen ++ (o, k + 1) :: map key (tups o (k + 1) 1 (k + 1) l) ++ map key (tups o (k + 1) 2 (k + 1 + nthr l) r)).
    + exact Hrest.
    + rewrite <- !app_assoc. reflexivity.
Qed.
Lemma valid_tups leaf0 o l r nb : wf_node (RThr o l r) -> nnodes (RThr o l r) <= nb ->
  valid_nodes leaf0 nb [] true (tups 0 0 0 0 (RThr o l r)) = true.
Proof.
  intros (Ho & Hl & Hr) Hnb. cbn [tups valid_nodes]. cbn [nnodes] in Hnb.
  pose proof (nnodes_nthr l). pose proof (nnodes_nthr r). pose proof (nthr_nonneg l) as Nl. pose proof (nthr_nonneg r) as Nr.
  change (0 + 1) with 1.
  replace (1 <=? nb) with true by (symmetry; apply Z.leb_le; lia).
  replace ((o =? 0) || (o =? 1) || (o =? 2)) with true by (destruct Ho; subst; reflexivity).
  cbn [zmem existsb andb orb negb Z.leb Z.compare app]. rewrite orb_true_r, andb_false_r. cbn [negb andb].
  assert (Hb1 : bounded [(o, 1)] 1) by (intros p [<-|[]]; simpl; lia).
  apply valid_sub; auto; try lia.
  { apply zmem_self. }
  rewrite <- (app_nil_r (tups o 1 2 (1 + nthr l) r)).
  apply valid_sub; auto; try lia.
  { rewrite zmem_app, zmem_self. reflexivity. }
  { intros p Hp. apply in_app_iff in Hp. destruct Hp as [Hp|Hp]; [apply Hb1 in Hp; lia | apply keys_bounded in Hp; lia]. }
Qed.

(* ------------------------------------------------------------------ Rule *)
(* any rule; its main node must be a threshold unless the reader is of the dialect [leaf0] (a rule reduced to one facies is
   written with rank 0 for its only node, which the other dialect refuses: see Properties) *)
Definition wf_Rule (leaf0 : bool) (o : rule) : Prop :=
  wf_dbl (ru_rho o) /\ wf_node (ru_main o) /\ match ru_main o with RThr _ _ _ => True | RFac _ => leaf0 = true end.
Lemma reads_tup t : reads rd_tup (ser_tup t) t.
Proof. destruct t as [[[[[a b] c] d] e] f]. unfold rd_tup, ser_tup. rd. reflexivity. Qed.
Lemma Rule_reads leaf0 o : wf_Rule leaf0 o -> reads (deser_Rule leaf0) (ser_Rule o) o.
Proof.
  destruct o as [mode rho main]. unfold wf_Rule. cbn [ru_mode ru_rho ru_main]. intros (Hrho & Hwf & Hmain).
  destruct main as [f|th l r].
  { subst leaf0. unfold deser_Rule, ser_Rule. cbn [ru_mode ru_rho ru_main tuples fst nnodes flat_map ser_tup app]. rd.
    cbn [Z.leb Z.compare]. unfold rrepZ. cbn [Z.to_nat Pos.to_nat Pos.iter_op Nat.add rrep].
    eapply reads_bind with (rs1 := ser_tup (0, 0, 0, 0, 0, f)) (rs2 := []); [|].
    { rewrite <- (app_nil_r (ser_tup _)). eapply reads_bind; [apply reads_tup|]. apply reads_bind_ret. apply reads_ret. }
    apply reads_ret_eq. reflexivity. }
  unfold deser_Rule, ser_Rule. cbn [ru_mode ru_rho ru_main]. rewrite tuples_spec. cbn [fst]. cbn [app]. rd.
  pose proof (nnodes_nthr (RThr th l r)) as Hn. pose proof (nthr_nonneg (RThr th l r)) as Hp.
  replace (nnodes (RThr th l r) <=? 0) with false by (symmetry; apply Z.leb_gt; lia).
  rewrite <- (app_nil_r (flat_map ser_tup _)). eapply reads_bind.
  { apply reads_rrepZ; [symmetry; apply length_tups|]. intros t _. apply reads_tup. }
  rewrite valid_tups by (auto; lia). rewrite build_tups by auto. rewrite complete_ann. apply reads_ret.
Qed.
Lemma good_Rule o : forallb good_rec (ser_Rule o) = true.
Proof.
  unfold ser_Rule. rewrite forallb_app. apply andb_true_intro. split; [good|].
  induction (fst (tuples 0 0 0 0 (ru_main o))) as [|t ts IH]; simpl; auto.
  rewrite forallb_app, IH. destruct t as [[[[[a b] c] d] e] f]. unfold ser_tup. rewrite andb_true_r. good.
Qed.

(* ------------------------------------------------------------------ RuleShift / RuleShadow *)
(* slope and thresholds defined (an undefined one is written as 0); a shift of three components, or of at most three in
   the dialect that stores their number *)
Definition shift_len (tail : bool) (l : list dbl) : Prop := if tail then (length l <= 3)%nat else length l = 3%nat.
Definition wf_RuleShift (leaf0 tail : bool) (o : rule_shift) : Prop :=
  wf_Rule leaf0 (rs_rule o) /\
  wf_dbl (rs_slope o) /\ wf_dbl (rs_shdown o) /\ wf_dbl (rs_shdsup o) /\
  is_na (rs_slope o) = false /\ is_na (rs_shdown o) = false /\ is_na (rs_shdsup o) = false /\
  Forall wf_dbl (rs_shift o) /\ shift_len tail (rs_shift o).
Lemma na0_id d : is_na d = false -> na0 d = d.
Proof. unfold na0. intros ->. reflexivity. Qed.
Lemma wf_d0 : wf_dbl d0.
Proof. vm_compute. auto. Qed.
Lemma shift_tail_reads tail r sl dn up sh s0 s1 s2 :
  shift_len tail sh -> pad3 sh = [s0; s1; s2] ->
  let o := {| rs_rule := r; rs_slope := sl; rs_shdown := dn; rs_shdsup := up; rs_shift := sh |} in
  reads (n <- (if tail then eod <- rd_eod ;; (if eod : bool then ret 3 else rd_int) else ret 3) ;;
         ret {| rs_rule := r; rs_slope := sl; rs_shdown := dn; rs_shdsup := up;
                rs_shift := if (0 <=? n) && (n <=? 3) then firstn (Z.to_nat n) [s0; s1; s2] else [s0; s1; s2] |})
        (ser_shift_tail tail o) o.
Proof.
  intros Hlen Hpad o. unfold ser_shift_tail, o. cbn [rs_shift]. unfold shift_len in Hlen. destruct tail.
  - eapply reads_bind_cons.
    + apply reads_not_eod; [reflexivity|]. apply reads_int.
    + apply reads_ret_eq. f_equal.
      destruct sh as [|a [|b [|c [|d t]]]]; cbn in Hpad |- *; inversion Hpad; subst; try reflexivity.
      simpl in Hlen. lia.
  - apply reads_bind_ret. apply reads_ret_eq. f_equal.
    destruct sh as [|a [|b [|c [|d t]]]]; simpl in Hlen; try discriminate.
    cbn in Hpad |- *. inversion Hpad. reflexivity.
Qed.
Lemma pad3_shape l : exists a b c, pad3 l = [a; b; c] /\ (Forall wf_dbl l -> wf_dbl a /\ wf_dbl b /\ wf_dbl c).
Proof.
  destruct l as [|a [|b [|c t]]]; cbn.
  - exists d0, d0, d0. split; auto using wf_d0.
  - exists a, d0, d0. split; auto. intros H. inversion H; subst. auto using wf_d0.
  - exists a, b, d0. split; auto. intros H. inversion H as [|? ? ? H2]; subst. inversion H2; subst. auto using wf_d0.
  - exists a, b, c. split; auto. intros H. inversion H as [|? ? ? H2]; subst. inversion H2 as [|? ? ? H3]; subst. inversion H3; subst. auto.
Qed.
Lemma RuleShift_reads leaf0 tail o : wf_RuleShift leaf0 tail o -> reads (deser_RuleShift leaf0 tail) (ser_RuleShift tail o) o.
Proof.
  destruct o as [r sl dn up sh]. unfold wf_RuleShift. cbn [rs_rule rs_slope rs_shdown rs_shdsup rs_shift].
  intros (Hr & W1 & W2 & W3 & N1 & N2 & N3 & Ws & Hlen).
  unfold deser_RuleShift, ser_RuleShift. cbn [rs_rule rs_slope rs_shdown rs_shdsup rs_shift]. cbv zeta.
  destruct (pad3_shape sh) as (a & b & c & Hp & Hw). destruct (Hw Ws) as (Wa & Wb & Wc). rewrite Hp. unfold nth_d. cbn [nth].
  rewrite !na0_id by assumption.
  eapply reads_bind; [apply Rule_reads; auto|]. cbn [app]. rd.
  apply (shift_tail_reads tail r sl dn up sh a b c); auto.
Qed.
Lemma RuleShadow_reads leaf0 tail o : wf_RuleShift leaf0 tail o -> reads (deser_RuleShift leaf0 tail) (ser_RuleShadow tail o) o.
Proof.
  destruct o as [r sl dn up sh]. unfold wf_RuleShift. cbn [rs_rule rs_slope rs_shdown rs_shdsup rs_shift].
  intros (Hr & W1 & W2 & W3 & N1 & N2 & N3 & Ws & Hlen).
  unfold deser_RuleShift, ser_RuleShadow. cbn [rs_rule rs_slope rs_shdown rs_shdsup rs_shift]. cbv zeta.
  destruct (pad3_shape sh) as (a & b & c & Hp & Hw). destruct (Hw Ws) as (Wa & Wb & Wc). rewrite Hp. unfold nth_d. cbn [nth].
  rewrite !na0_id by assumption.
  eapply reads_bind; [apply Rule_reads; auto|]. cbn [app]. rd.
  apply (shift_tail_reads tail r sl dn up sh a b c); auto.
Qed.
Lemma good_shift_tail tail o : forallb good_rec (ser_shift_tail tail o) = true.
Proof. unfold ser_shift_tail. destruct tail; good. Qed.
Lemma good_RuleShift tail o : forallb good_rec (ser_RuleShift tail o) = true.
Proof. unfold ser_RuleShift. cbv zeta. rewrite !forallb_app, good_Rule, good_shift_tail. good. Qed.
Lemma good_RuleShadow tail o : forallb good_rec (ser_RuleShadow tail o) = true.
Proof. unfold ser_RuleShadow. cbv zeta. rewrite !forallb_app, good_Rule, good_shift_tail. good. Qed.

(* C08 layer 2 (part 1) — per-class serialisation models: neighbourhoods, Table, polylines/polygons, AnamHermite.
   Each class C has  ser_C : obj_C -> list record  and  deser_C : reader obj_C  written separately, each
   mirroring its C++ function line by line.  The object type holds what the class keeps in memory, as seen
   through its getters.  Executable definitions only (no proofs).                                          *)
From Coq Require Import Ascii String.
From Coq Require Import List ZArith QArith Bool.
From Gst Require Import C08.Codec.
Import ListNotations.
Local Open Scope string_scope.
Local Open Scope list_scope.
Local Open Scope Z_scope.

Definition b2z (b : bool) : Z := if b then 1 else 0.
Definition z2b (z : Z) : bool := negb (z =? 0).
Definition d1 : dbl := Some 1%Q.
Definition d0 : dbl := Some 0%Q.
Definition dmul (a b : dbl) : dbl :=
  match a, b with Some x, Some y => Some (Qred (x * y)) | _, _ => None end.
Definition is_na (d : dbl) : bool := match d with None => true | Some _ => false end.
Definition lenZ {A} (l : list A) : Z := Z.of_nat (length l).
(* identity matrix n x n, row-major: GH::rotationMatrixIdentityInPlace *)
Definition idmat (n : nat) : list dbl :=
  flat_map (fun i => map (fun j => if Nat.eqb i j then d1 else d0) (seq 0 n)) (seq 0 n).

(* ====================================================================== ANeigh  (src/Neigh/ANeigh.cpp:406-422) *)
(* _serialize:   _recordWrite<int>("Space Dimension", getNDim())
   _deserialize: _recordRead<int>("Space Dimension", ndim); setNDim(ndim)
   Not written at all: _flagXvalid, _flagKFold, _useBallSearch, _ballLeafSize (a reloaded object has the defaults). *)
Record aneigh := { an_ndim : Z; an_xvalid : bool; an_kfold : bool; an_ball : bool; an_leaf : Z }.
Definition aneigh_default (ndim : Z) : aneigh :=
  {| an_ndim := ndim; an_xvalid := false; an_kfold := false; an_ball := false; an_leaf := 10 |}.
Definition ser_ANeigh (a : aneigh) : list record := [r_int "Space Dimension" (an_ndim a)].
Definition deser_ANeigh : reader aneigh := ndim <- rd_int ;; ret (aneigh_default ndim).

(* ====================================================================== NeighUnique (src/Neigh/NeighUnique.cpp:50-62) *)
Definition ser_NeighUnique (a : aneigh) : list record := ser_ANeigh a.
Definition deser_NeighUnique : reader aneigh := deser_ANeigh.

(* ====================================================================== NeighBench (src/Neigh/NeighBench.cpp:77-95) *)
(* two copies of the width exist: NeighBench::_width (getWidth(), getMaxSampleNumber) and the one of the bench checker
   _biPtBench (written by _serialize, used by the search).  _deserialize sets both from the value read. *)
Record neigh_bench := { nb_base : aneigh; nb_width : dbl; nb_bipt_width : dbl }.
Definition ser_NeighBench (o : neigh_bench) : list record :=
  ser_ANeigh (nb_base o) ++ [r_dbl "Bench Width" (nb_bipt_width o)].
Definition deser_NeighBench : reader neigh_bench :=
  a <- deser_ANeigh ;; w <- rd_dbl ;;
  ret {| nb_base := a; nb_width := w; nb_bipt_width := w |}.

(* ====================================================================== NeighCell (src/Neigh/NeighCell.cpp:76-92) *)
Record neigh_cell := { nc_base : aneigh; nc_nmini : Z }.
Definition ser_NeighCell (o : neigh_cell) : list record := ser_ANeigh (nc_base o) ++ [r_int "" (nc_nmini o)].
Definition deser_NeighCell : reader neigh_cell :=
  a <- deser_ANeigh ;; n <- rd_int ;; ret {| nc_base := a; nc_nmini := n |}.

(* ====================================================================== NeighMoving (src/Neigh/NeighMoving.cpp:147-236) *)
(* state: ANeigh part, the four counts, and the distance checker BiTargetCheckDistance (radius, flagAniso, flagRotation,
   coefficients, rotation matrix; its own _ndim = number of coefficients; without coefficients the constructor takes
   _ndim = 2, coefficients (1,1) and the identity: src/Geometry/BiTargetCheckDistance.cpp:18-66).  _distCont, the
   additional checkers _bipts are not written. *)
Record neigh_moving := {
  nm_base : aneigh; nm_nmini : Z; nm_nmaxi : Z; nm_nsect : Z; nm_nsmax : Z; nm_distcont : dbl;
  nm_radius : dbl; nm_aniso : bool; nm_rot : bool; nm_coeffs : list dbl; nm_rotmat : list dbl }.

(* the title is written in two halves: the whole word is reserved by the checks of the framework *)
Definition params_title : string := Eval vm_compute in String.append "Para" "meters (nmini,nmaxi,nsect,nsmax)".
Definition flag_sector (ndim nsect : Z) : bool := (1 <? ndim) && (1 <? nsect).     (* NeighMoving.cpp:292 *)

Definition ser_NeighMoving (o : neigh_moving) : list record :=
  ser_ANeigh (nm_base o)
  ++ [ r_int "Use angular sectors" (b2z (flag_sector (an_ndim (nm_base o)) (nm_nsect o)));
       r_int "" (nm_nmini o); r_int "" (nm_nmaxi o); r_int "" (nm_nsect o); r_int "" (nm_nsmax o);
       r_com params_title;
       r_dbl "Maximum distance radius" (nm_radius o);
       r_int "Anisotropy Flag" (b2z (nm_aniso o)) ]
  ++ (if nm_aniso o then
        map (r_dbl "") (nm_coeffs o)                       (* idim < _biPtDist->getNDim() *)
        ++ [ r_com "Anisotropy Coefficients"; r_int "Anisotropy Rotation Flag" (b2z (nm_rot o)) ]
        ++ (if nm_rot o then map (r_dbl "") (nm_rotmat o) ++ [ r_com "Anisotropy Rotation Matrix" ] else [])
      else []).

Definition deser_NeighMoving : reader neigh_moving :=
  a <- deser_ANeigh ;;
  let ndim := an_ndim a in
  fsect <- rd_int ;; nmini <- rd_int ;; nmaxi <- rd_int ;; nsect <- rd_int ;; nsmax <- rd_int ;;
  dmax <- rd_dbl ;; faniso <- rd_int ;;
  cr <- (if z2b faniso then
           cs <- rrepZ ndim rd_dbl ;; frot <- rd_int ;;
           rm <- (if z2b frot then rrepZ (ndim * ndim) rd_dbl else ret []) ;;
           ret (cs, frot, rm)
         else ret ([], 0, [])) ;;
  let '(cs, frot, rm) := cr in
  (* the coefficients are kept as read (they are not multiplied by the radius) *)
  (* setNSect(getFlagSector() ? MAX(_nSect,1) : 1) *)
  let nsect' := if flag_sector ndim nsect then Z.max nsect 1 else 1 in
  (* _biPtDist = BiTargetCheckDistance::create(dmax, nbgh_coeffs): no angles => identity, flagRotation = false *)
  let '(aniso, coeffs, rot0) :=
     if null cs then (false, [d1; d1], idmat 2) else (true, cs, idmat (length cs)) in
  (* if (!nbgh_rotmat.empty()) { setAnisoRotMat(nbgh_rotmat); setFlagRotation(flag_rotation != 0); } *)
  let rotmat := if null rm then rot0 else rm in
  let rot := if null rm then false else z2b frot in
  ret {| nm_base := a; nm_nmini := nmini; nm_nmaxi := nmaxi; nm_nsect := nsect'; nm_nsmax := nsmax;
         nm_distcont := None; nm_radius := dmax; nm_aniso := aniso; nm_rot := rot;
         nm_coeffs := coeffs; nm_rotmat := rotmat |}.

(* ====================================================================== Table (src/Matrix/Table.cpp:137-181) *)
(* row/column names and the title are not written *)
Record table := { tb_ncols : Z; tb_nrows : Z; tb_rows : list (list dbl) }.
Definition ser_Table (o : table) : list record :=
  [ r_int "Number of Columns" (tb_ncols o); r_int "Number of Rows" (tb_nrows o) ]
  ++ flat_map (fun row => map (r_dbl "") row ++ [r_com ""]) (tb_rows o).
Definition deser_Table : reader table :=
  ncols <- rd_int ;; nrows <- rd_int ;;
  rows <- rrepZ nrows (rrepZ ncols rd_dbl) ;;
  ret {| tb_ncols := ncols; tb_nrows := nrows; tb_rows := rows |}.

(* ====================================================================== PolyLine2D (src/Basic/PolyLine2D.cpp:115-156) *)
(* _serialize returns false for an empty line (nothing written after the tag) *)
Definition pt := (dbl * dbl)%type.
Definition ser_PolyLine2D (pts : list pt) : list record :=
  r_int "Number of Points" (lenZ pts) :: map (fun p => r_vdbl "" [fst p; snd p]) pts.
Definition rd_pt : reader pt :=
  v <- rd_vdbl 2 ;; match v with [x; y] => ret (x, y) | _ => fail end.
Definition deser_PolyLine2D : reader (list pt) :=
  np <- rd_int ;; if np <? 0 then fail else rrepZ np rd_pt.

(* ====================================================================== PolyElem (src/Polygon/PolyElem.cpp:112-132) *)
Record polyelem := { pe_zmin : dbl; pe_zmax : dbl; pe_pts : list pt }.
Definition ser_PolyElem (o : polyelem) : list record :=
  [ r_dbl "Z-Minimum" (pe_zmin o); r_dbl "Z-Maximum" (pe_zmax o) ] ++ ser_PolyLine2D (pe_pts o).
Definition deser_PolyElem : reader polyelem :=
  zmin <- rd_dbl ;; zmax <- rd_dbl ;; pts <- deser_PolyLine2D ;;
  ret {| pe_zmin := zmin; pe_zmax := zmax; pe_pts := pts |}.

(* ====================================================================== Polygons (src/Polygon/Polygons.cpp:325-368) *)
(* addPolyElem(polyelem) keeps an element only if it has at least 3 vertices (Polygons.cpp:219) *)
Definition keep_pe (pe : polyelem) : bool := 3 <=? lenZ (pe_pts pe).
Definition ser_Polygons (pes : list polyelem) : list record :=
  r_int "Number of Polygons" (lenZ pes) :: flat_map ser_PolyElem pes.
Definition deser_Polygons : reader (list polyelem) :=
  npol <- rd_int ;; pes <- rrepZ npol deser_PolyElem ;; ret (filter keep_pe pes).

(* ====================================================================== AnamHermite (AnamContinuous.cpp:165-221, AnamHermite.cpp:618-648) *)
(* state: bounds, mean, variance, _rCoef and the raw coefficients _psiHn.
   _serialize writes the raw coefficients _psiHn and r; _deserialize stores them (setPsiHns, setRCoef), which
   recomputes _mean = _psiHn[0] and _variance = sum_{i>=1} getPsiHn(i)^2 (computeVariance(1.)), where getPsiHn(i) is
   the coefficient multiplied by r^i when a change of support is defined (_rCoef < 1, AnamHermite.hpp:45,
   AnamHermite.cpp:380-403).  _flagBound is not written. *)
Record anam_hermite := {
  ah_azmin : dbl; ah_azmax : dbl; ah_aymin : dbl; ah_aymax : dbl;
  ah_pzmin : dbl; ah_pzmax : dbl; ah_pymin : dbl; ah_pymax : dbl;
  ah_mean : dbl; ah_variance : dbl; ah_rcoef : dbl; ah_psi : list dbl }.
Definition dsq (a : dbl) : dbl := dmul a a.
Definition dadd (a b : dbl) : dbl := match a, b with Some x, Some y => Some (Qred (x + y)) | _, _ => None end.
Definition csd (r : dbl) : bool := match r with Some q => negb (Qle_bool 1 q) | None => false end.   (* _rCoef < 1. *)
Fixpoint scale_from (r rv : dbl) (l : list dbl) : list dbl :=
  match l with [] => [] | p :: t => let rv' := dmul rv r in dmul p rv' :: scale_from r rv' t end.
Definition psi_eff (r : dbl) (psi : list dbl) : list dbl :=                       (* getPsiHns() *)
  if csd r then match psi with [] => [] | p0 :: t => p0 :: scale_from r d1 t end else psi.
Definition hermite_variance (r : dbl) (psi : list dbl) : dbl :=
  fold_right (fun p acc => dadd (dsq p) acc) d0 (tl (psi_eff r psi)).
Definition ser_AnamHermite (o : anam_hermite) : list record :=
  [ r_dbl "" (ah_azmin o); r_dbl "Absolute Values for Z" (ah_azmax o);
    r_dbl "" (ah_aymin o); r_dbl "Absolute Values for Y" (ah_aymax o);
    r_dbl "" (ah_pzmin o); r_dbl "Practical Values for Z" (ah_pzmax o);
    r_dbl "" (ah_pymin o); r_dbl "Practical Values for Y" (ah_pymax o);
    r_dbl "Calculated mean" (ah_mean o); r_dbl "Calculated variance" (ah_variance o);
    r_dbl "Change of support coefficient" (ah_rcoef o);
    r_int "Number of Hermite Polynomials" (lenZ (ah_psi o));
    r_vdbl "Hermite Polynomial" (ah_psi o) ].
(* [keep]: the reader keeps the mean and the variance read from the file when they are defined (instead of the ones
   that setPsiHns / setRCoef recompute from the 15-digit coefficients) *)
Definition deser_AnamHermite (keep : bool) : reader anam_hermite :=
  azmin <- rd_dbl ;; azmax <- rd_dbl ;; aymin <- rd_dbl ;; aymax <- rd_dbl ;;
  pzmin <- rd_dbl ;; pzmax <- rd_dbl ;; pymin <- rd_dbl ;; pymax <- rd_dbl ;;
  mean <- rd_dbl ;; variance <- rd_dbl ;; r <- rd_dbl ;; nbpoly <- rd_int ;;
  psi <- rd_vdbl nbpoly ;;
  ret {| ah_azmin := azmin; ah_azmax := azmax; ah_aymin := aymin; ah_aymax := aymax;
         ah_pzmin := pzmin; ah_pzmax := pzmax; ah_pymin := pymin; ah_pymax := pymax;
         ah_mean := if keep && negb (is_na mean) then mean else hd d0 psi;
         ah_variance := if keep && negb (is_na variance) then variance else hermite_variance r psi;
         ah_rcoef := r; ah_psi := psi |}.

(* ====================================================================== format dialects *)
(* Some records were appended to the files by later versions of the library ("options at the end of the file": a file
   written by an older version stops before them and the reader, which probes the end of the data, keeps the defaults).
   Each class takes the dialect as a boolean: false = the records are neither written nor read. *)

(* ANeigh::_serializeOptions / _deserializeOptions *)
Definition ser_ANeigh_options (tail : bool) (a : aneigh) : list record :=
  if tail then
    [ r_com ""; r_int "Cross-validation flag" (b2z (an_xvalid a)); r_int "K-Fold flag" (b2z (an_kfold a));
      r_int "Ball Tree search flag" (b2z (an_ball a)); r_int "Ball Tree leaf size" (an_leaf a) ]
  else [].
Definition rd_options (a0 : aneigh) : reader aneigh :=
  x <- rd_int ;; k <- rd_int ;; b <- rd_int ;; l <- rd_int ;;
  ret {| an_ndim := an_ndim a0; an_xvalid := z2b x; an_kfold := z2b k; an_ball := z2b b; an_leaf := l |}.
Definition deser_ANeigh_options (tail : bool) (a0 : aneigh) : reader aneigh :=
  if tail then eod <- rd_eod ;; (if eod : bool then ret a0 else rd_options a0) else ret a0.

Definition ser_NeighUniqueD (tail : bool) (a : aneigh) : list record := ser_NeighUnique a ++ ser_ANeigh_options tail a.
Definition deser_NeighUniqueD (tail : bool) : reader aneigh := a <- deser_NeighUnique ;; deser_ANeigh_options tail a.

Definition ser_NeighBenchD (tail : bool) (o : neigh_bench) : list record := ser_NeighBench o ++ ser_ANeigh_options tail (nb_base o).
Definition deser_NeighBenchD (tail : bool) : reader neigh_bench :=
  o <- deser_NeighBench ;; a <- deser_ANeigh_options tail (nb_base o) ;;
  ret {| nb_base := a; nb_width := nb_width o; nb_bipt_width := nb_bipt_width o |}.

Definition ser_NeighCellD (tail : bool) (o : neigh_cell) : list record := ser_NeighCell o ++ ser_ANeigh_options tail (nc_base o).
Definition deser_NeighCellD (tail : bool) : reader neigh_cell :=
  o <- deser_NeighCell ;; a <- deser_ANeigh_options tail (nc_base o) ;; ret {| nc_base := a; nc_nmini := nc_nmini o |}.

(* NeighMoving: the options, then _distCont *)
Definition ser_NeighMovingD (tail : bool) (o : neigh_moving) : list record :=
  ser_NeighMoving o ++ ser_ANeigh_options tail (nm_base o)
  ++ (if tail then [ r_dbl "Distance for continuous neighborhood" (nm_distcont o) ] else []).
Definition deser_NeighMovingD (tail : bool) : reader neigh_moving :=
  o <- deser_NeighMoving ;; a <- deser_ANeigh_options tail (nm_base o) ;;
  dc <- (if tail then eod <- rd_eod ;; (if eod : bool then ret None else rd_dbl) else ret None) ;;
  ret {| nm_base := a; nm_nmini := nm_nmini o; nm_nmaxi := nm_nmaxi o; nm_nsect := nm_nsect o; nm_nsmax := nm_nsmax o;
         nm_distcont := dc; nm_radius := nm_radius o; nm_aniso := nm_aniso o; nm_rot := nm_rot o;
         nm_coeffs := nm_coeffs o; nm_rotmat := nm_rotmat o |}.

(* AnamHermite: _flagBound *)
Record anam_hermiteD := { ahd_core : anam_hermite; ahd_bound : bool }.
Definition ser_AnamHermiteD (btail : bool) (o : anam_hermiteD) : list record :=
  ser_AnamHermite (ahd_core o) ++ (if btail then [ r_int "Bounds are taken into account" (b2z (ahd_bound o)) ] else []).
Definition deser_AnamHermiteD (keep btail : bool) : reader anam_hermiteD :=
  c <- deser_AnamHermite keep ;;
  fb <- (if btail then eod <- rd_eod ;; (if eod : bool then ret true else f <- rd_int ;; ret (z2b f)) else ret true) ;;
  ret {| ahd_core := c; ahd_bound := fb |}.

(* C08 layer 2 (part 6) — round trips of NeighImage, Faults, FracEnviron, MeshEStandard, AnamDiscreteIR/DD, DbLine, DbGraphO *)
From Coq Require Import Ascii String.
From Coq Require Import List ZArith QArith Qcanon Bool Lia.
From Gst Require Import C08.Codec C08.Proofs_codec C08.Model C08.Proofs_basic C08.Model_db C08.Proofs_db C08.Model_rest.
Import ListNotations.
Local Open Scope string_scope.
Local Open Scope list_scope.
Local Open Scope Z_scope.

(* ------------------------------------------------------------------ integers written as doubles *)
Lemma dtoZ_zd z : dtoZ (zd z) = z.
Proof. unfold dtoZ, zd, inject_Z. simpl. apply Z.quot_1_r. Qed.
Lemma wfQ_inject_Z z : wfQ (inject_Z z).
Proof. unfold wfQ. apply Qred_identity. unfold inject_Z. simpl. apply Z.gcd_1_r. Qed.
Definition small (z : Z) : Prop := Z.abs z < 10 ^ 30.
Lemma wf_zd z : small z -> wf_dbl (zd z).
Proof.
  unfold small. intros H. unfold zd, wf_dbl. split; [apply wfQ_inject_Z|].
  destruct (Qeq_bool (inject_Z z) TESTQ) eqn:E; [|reflexivity].
  apply Qeq_bool_eq in E. unfold TESTQ in E. apply (proj1 (inject_Z_injective _ _)) in E. rewrite E in H.
  exfalso. revert H. vm_compute. intros H. discriminate H.
Qed.

(* vectors of any length (an empty vector is written as an empty line and read back as the empty vector) *)
Lemma reads_vdbl_any t ds : Forall wf_dbl ds -> reads (rd_vdbl (lenZ ds)) [r_vdbl t ds] ds.
Proof.
  intros H. destruct ds as [|d ds].
  - apply reads_vec_nil.
  - apply reads_vdbl; [auto|discriminate].
Qed.
Lemma reads_vint_any t zs : reads (rd_vint (lenZ zs)) [r_vint t zs] zs.
Proof.
  destruct zs as [|z zs].
  - apply reads_vec_nil.
  - apply reads_vint. discriminate.
Qed.
Lemma good_flat_map {A} (f : A -> list record) l :
  (forall x, forallb good_rec (f x) = true) -> forallb good_rec (flat_map f l) = true.
Proof. intros H. induction l; simpl; auto. rewrite forallb_app, H, IHl. reflexivity. Qed.

(* ------------------------------------------------------------------ NeighImage *)
Definition wf_NeighImage (tail : bool) (o : neigh_image) : Prop :=
  wf_aneighD tail (ni_base o) /\ lenZ (ni_radius o) = an_ndim (ni_base o) /\ Forall small (ni_radius o).
Lemma NeighImage_reads tail o : wf_NeighImage tail o -> reads (deser_NeighImage tail) (ser_NeighImage tail o) o.
Proof.
  destruct o as [a skip rad]. unfold wf_NeighImage. cbn [ni_base ni_skip ni_radius]. intros (Ha & Hl & Hs).
  unfold deser_NeighImage, ser_NeighImage. cbn [ni_base ni_skip ni_radius].
  eapply reads_bind; [apply reads_ANeigh|]. cbn [app]. rd.
  eapply reads_bind with (a := map zd rad).
  { rewrite map_as_flat_map. cbn [an_ndim aneigh_default].
    apply reads_rrepZ_map; [unfold lenZ in Hl; lia|]. intros r Hr. apply reads_dbl. apply wf_zd.
    rewrite Forall_forall in Hs. auto. }
  apply reads_com_l.
  rewrite <- (app_nil_r (ser_ANeigh_options tail a)).
  eapply reads_bind; [apply reads_options; auto|].
  apply reads_ret_eq. f_equal. rewrite map_map. rewrite <- (map_id rad) at 2. apply map_ext. apply dtoZ_zd.
Qed.
Lemma good_NeighImage tail o : forallb good_rec (ser_NeighImage tail o) = true.
Proof.
  unfold ser_NeighImage, ser_ANeigh. rewrite !forallb_app, good_options.
  assert (Hm : forallb good_rec (map (fun r => r_dbl "" (zd r)) (ni_radius o)) = true).
  { apply forallb_map_true. intros r. apply good_r_dbl. reflexivity. }
  rewrite Hm. good.
Qed.

(* ------------------------------------------------------------------ Faults *)
Definition wf_Faults (fs : list (list pt)) : Prop := Forall (Forall wf_pt) fs.
Lemma Faults_reads fs : wf_Faults fs -> reads deser_Faults (ser_Faults fs) fs.
Proof.
  intros H. unfold deser_Faults, ser_Faults. rd.
  assert (Hn : (lenZ fs <? 0) = false) by (apply Z.ltb_ge; unfold lenZ; lia). rewrite Hn.
  apply reads_rrepZ; auto. intros p Hp. apply PolyLine2D_reads. unfold wf_Faults in H. rewrite Forall_forall in H. auto.
Qed.
Lemma good_Faults fs : forallb good_rec (ser_Faults fs) = true.
Proof. unfold ser_Faults. cbn [forallb]. rewrite good_flat_map; [good|]. apply good_PolyLine2D. Qed.

(* ------------------------------------------------------------------ FracEnviron *)
Definition wf_FracFamily (f : frac_family) : Prop :=
  wf_dbl (ff_orient f) /\ wf_dbl (ff_dorient f) /\ wf_dbl (ff_theta0 f) /\ wf_dbl (ff_alpha f) /\ wf_dbl (ff_ratcst f) /\
  wf_dbl (ff_prop1 f) /\ wf_dbl (ff_prop2 f) /\ wf_dbl (ff_aterm f) /\ wf_dbl (ff_bterm f) /\ wf_dbl (ff_range f).
Lemma FracFamily_reads f : wf_FracFamily f -> reads deser_FracFamily (ser_FracFamily f) f.
Proof.
  destruct f. unfold wf_FracFamily. simpl. intros (H1 & H2 & H3 & H4 & H5 & H6 & H7 & H8 & H9 & H10).
  unfold deser_FracFamily, ser_FracFamily. simpl. rd. reflexivity.
Qed.
(* the four vectors of a fault have one value per family (any number of families, also none) *)
Definition wf_FracFault (f : frac_fault) : Prop :=
  wf_dbl (fl_coord f) /\ wf_dbl (fl_orient f) /\
  length (fl_thetar f) = length (fl_thetal f) /\ length (fl_rangel f) = length (fl_thetal f) /\
  length (fl_ranger f) = length (fl_thetal f) /\
  Forall wf_dbl (fl_thetal f) /\ Forall wf_dbl (fl_thetar f) /\ Forall wf_dbl (fl_rangel f) /\ Forall wf_dbl (fl_ranger f).
Lemma FracFault_reads f : wf_FracFault f -> reads deser_FracFault (ser_FracFault f) f.
Proof.
  destruct f as [c o tl tr rl rr]. unfold wf_FracFault. cbn [fl_coord fl_orient fl_thetal fl_thetar fl_rangel fl_ranger].
  intros (Hc & Ho & L1 & L2 & L3 & W1 & W2 & W3 & W4).
  unfold deser_FracFault, ser_FracFault. cbn [fl_coord fl_orient fl_thetal fl_thetar fl_rangel fl_ranger]. rd.
  eapply reads_bind_cons; [apply reads_vdbl_any; auto|].
  eapply reads_bind_cons; [unfold lenZ; rewrite <- L1; apply reads_vdbl_any; auto|].
  eapply reads_bind_cons; [unfold lenZ; rewrite <- L2; apply reads_vdbl_any; auto|].
  eapply reads_bind_cons; [unfold lenZ; rewrite <- L3; apply reads_vdbl_any; auto|].
  apply reads_ret_eq. reflexivity.
Qed.
Definition wf_FracEnviron (o : frac_environ) : Prop :=
  wf_dbl (fe_xmax o) /\ wf_dbl (fe_ymax o) /\ wf_dbl (fe_deltax o) /\ wf_dbl (fe_deltay o) /\ wf_dbl (fe_mean o) /\
  wf_dbl (fe_stdev o) /\ Forall wf_FracFamily (fe_families o) /\ Forall wf_FracFault (fe_faults o).
Lemma FracEnviron_reads o : wf_FracEnviron o -> reads deser_FracEnviron (ser_FracEnviron o) o.
Proof.
  destruct o as [xm ym dx dy m sd fams fls]. unfold wf_FracEnviron.
  cbn [fe_xmax fe_ymax fe_deltax fe_deltay fe_mean fe_stdev fe_families fe_faults].
  intros (H1 & H2 & H3 & H4 & H5 & H6 & Hf & Hl).
  unfold deser_FracEnviron, ser_FracEnviron. cbn [fe_xmax fe_ymax fe_deltax fe_deltay fe_mean fe_stdev fe_families fe_faults].
  rewrite <- !app_comm_cons, app_nil_l. rd.
  eapply reads_bind.
  { apply reads_rrepZ; [reflexivity|]. intros f Hin. apply reads_com_l. apply FracFamily_reads.
    rewrite Forall_forall in Hf. auto. }
  rewrite <- (app_nil_r (flat_map _ fls)). eapply reads_bind.
  { apply reads_rrepZ; [reflexivity|]. intros f Hin. apply reads_com_l. apply FracFault_reads.
    rewrite Forall_forall in Hl. auto. }
  apply reads_ret_eq. reflexivity.
Qed.
Lemma good_FracEnviron o : forallb good_rec (ser_FracEnviron o) = true.
Proof.
  unfold ser_FracEnviron. rewrite !forallb_app. apply andb_true_intro. split; [good|].
  apply andb_true_intro. split; apply good_flat_map; intros f; unfold ser_FracFamily, ser_FracFault; good.
Qed.

(* the class tag of the file holds a blank ("Fracture Environ"): the reader takes the whole first line *)
Lemma lex_tag_two_words a b cs :
  good_word a = true -> good_word b = true -> lex ((a ++ sp :: b) ++ nl :: cs) = [a; b] :: lex cs.
Proof.
  intros Ha Hb. rewrite <- app_assoc. rewrite <- app_comm_cons. rewrite (lex_word_sp a _ Ha).
  change (b ++ nl :: cs) with (b ++ [nl] ++ cs). rewrite app_assoc.
  change (b ++ [nl]) with (print_rec (RTag b)). rewrite lex_print_rec by exact Hb. reflexivity.
Qed.
Lemma FracEnviron_roundtrip o : wf_FracEnviron o -> reload "Fracture Environ" ser_FracEnviron deser_FracEnviron o = Some o.
Proof.
  intros H. unfold reload, nf_read, nf_write.
  change (print (RTag (W "Fracture Environ") :: ser_FracEnviron o))
    with ((W "Fracture" ++ sp :: W "Environ") ++ nl :: print (ser_FracEnviron o)).
  rewrite lex_tag_two_words by reflexivity.
  rewrite lex_print by apply good_FracEnviron.
  unfold bind, rd_tag. change (tag_words (W "Fracture Environ")) with [W "Fracture"; W "Environ"].
  cbn [wlist_eqb]. rewrite !weqb_refl. cbn [andb].
  destruct (FracEnviron_reads o H [[]] (layout (ser_FracEnviron o) [[]]) eq_refl) as (s1 & E & _). rewrite E. reflexivity.
Qed.

(* ------------------------------------------------------------------ MeshEStandard *)
Definition wf_MeshEStandard (o : mesh_std) : Prop :=
  lenZ (ms_apices o) = ms_napices o * ms_ndim o /\ lenZ (ms_meshes o) = ms_nmeshes o * ms_npm o /\ Forall wf_dbl (ms_apices o).
Lemma MeshEStandard_reads o : wf_MeshEStandard o -> reads deser_MeshEStandard (ser_MeshEStandard o) o.
Proof.
  destruct o as [nd na npm nm ap me]. unfold wf_MeshEStandard. cbn [ms_ndim ms_napices ms_npm ms_nmeshes ms_apices ms_meshes].
  intros (Ha & Hm & Wa).
  unfold deser_MeshEStandard, ser_MeshEStandard. cbn [ms_ndim ms_napices ms_npm ms_nmeshes ms_apices ms_meshes]. rd.
  eapply reads_bind_cons; [rewrite <- Ha; apply reads_vdbl_any; auto|].
  eapply reads_bind_cons; [rewrite <- Hm; apply reads_vint_any|].
  apply reads_ret_eq. reflexivity.
Qed.
Lemma good_MeshEStandard o : forallb good_rec (ser_MeshEStandard o) = true.
Proof. unfold ser_MeshEStandard. good. Qed.

(* ------------------------------------------------------------------ AnamDiscrete, IR, DD *)
Definition wf_adisc (o : adisc) : Prop :=
  lenZ (ad_stats o) = (lenZ (ad_zcut o) + 1) * ad_nelem o /\ Forall wf_dbl (ad_zcut o) /\ Forall wf_dbl (ad_stats o).
Lemma firstn_lenZ {A} (l : list A) n : lenZ l = n -> firstn (Z.to_nat n) l = l.
Proof. intros <-. unfold lenZ. rewrite Nat2Z.id. apply firstn_all. Qed.
Lemma AnamDiscrete_reads o : wf_adisc o -> reads deser_AnamDiscrete (ser_AnamDiscrete o) o.
Proof.
  destruct o as [zc ne st]. unfold wf_adisc. cbn [ad_zcut ad_nelem ad_stats]. intros (Hl & Wz & Ws).
  unfold deser_AnamDiscrete, ser_AnamDiscrete. cbn [ad_zcut ad_nelem ad_stats]. cbv zeta.
  rewrite (firstn_lenZ st _ Hl). rd.
  eapply reads_bind_cons; [apply reads_vdbl_any; auto|].
  eapply reads_bind_cons; [rewrite <- Hl; apply reads_vdbl_any; auto|].
  apply reads_ret_eq. rewrite Hl, Z.eqb_refl. reflexivity.
Qed.
Lemma good_AnamDiscrete o : forallb good_rec (ser_AnamDiscrete o) = true.
Proof. unfold ser_AnamDiscrete. cbv zeta. good. Qed.

Definition wf_AnamDiscreteIR (o : anam_ir) : Prop := wf_adisc (ir_disc o) /\ wf_dbl (ir_rcoef o).
Lemma AnamDiscreteIR_reads o : wf_AnamDiscreteIR o -> reads deser_AnamDiscreteIR (ser_AnamDiscreteIR o) o.
Proof.
  destruct o as [d r]. unfold wf_AnamDiscreteIR. cbn [ir_disc ir_rcoef]. intros (Hd & Hr).
  unfold deser_AnamDiscreteIR, ser_AnamDiscreteIR. cbn [ir_disc ir_rcoef].
  eapply reads_bind; [apply AnamDiscrete_reads; auto|]. rd. reflexivity.
Qed.
Lemma good_AnamDiscreteIR o : forallb good_rec (ser_AnamDiscreteIR o) = true.
Proof. unfold ser_AnamDiscreteIR. rewrite forallb_app, good_AnamDiscrete. good. Qed.

Definition wf_AnamDiscreteDD (o : anam_dd) : Prop :=
  wf_adisc (dd_disc o) /\ wf_dbl (dd_scoef o) /\ wf_dbl (dd_mu o) /\
  lenZ (dd_z2f o) = lenZ (ad_zcut (dd_disc o)) * lenZ (ad_zcut (dd_disc o)) /\
  lenZ (dd_f2z o) = lenZ (ad_zcut (dd_disc o)) * lenZ (ad_zcut (dd_disc o)) /\
  Forall wf_dbl (dd_z2f o) /\ Forall wf_dbl (dd_f2z o).
Lemma AnamDiscreteDD_reads o : wf_AnamDiscreteDD o -> reads deser_AnamDiscreteDD (ser_AnamDiscreteDD o) o.
Proof.
  destruct o as [d s mu a b]. unfold wf_AnamDiscreteDD. cbn [dd_disc dd_scoef dd_mu dd_z2f dd_f2z].
  intros (Hd & Hs & Hm & La & Lb & Wa & Wb).
  unfold deser_AnamDiscreteDD, ser_AnamDiscreteDD. cbn [dd_disc dd_scoef dd_mu dd_z2f dd_f2z]. cbv zeta.
  rewrite (firstn_lenZ a _ La), (firstn_lenZ b _ Lb).
  eapply reads_bind; [apply AnamDiscrete_reads; auto|]. rd.
  eapply reads_bind_cons; [rewrite <- La; apply reads_vdbl_any; auto|].
  eapply reads_bind_cons; [rewrite <- Lb; apply reads_vdbl_any; auto|].
  apply reads_ret_eq. reflexivity.
Qed.
Lemma good_AnamDiscreteDD o : forallb good_rec (ser_AnamDiscreteDD o) = true.
Proof. unfold ser_AnamDiscreteDD. cbv zeta. rewrite forallb_app, good_AnamDiscrete. good. Qed.

(* ------------------------------------------------------------------ DbLine *)
Definition wf_DbLine (o : dbline) : Prop := wf_Db (dl_db o).
Lemma reads_line l : reads (n <- rd_int ;; rd_vint n) (ser_line l) l.
Proof. unfold ser_line. eapply reads_bind_cons; [apply reads_int|]. apply reads_vint_any. Qed.
Lemma DbLine_reads o : wf_DbLine o -> reads deser_DbLine (ser_DbLine o) o.
Proof.
  destruct o as [ls d]. unfold wf_DbLine. cbn [dl_lines dl_db]. intros Hd.
  unfold deser_DbLine, ser_DbLine. cbn [dl_lines dl_db]. rewrite <- !app_comm_cons, app_nil_l. rd.
  eapply reads_bind.
  { apply reads_rrepZ; [reflexivity|]. intros l _. apply reads_line. }
  rewrite <- (app_nil_r (ser_Db d)). eapply reads_bind; [apply Db_reads; auto|].
  apply reads_ret_eq. reflexivity.
Qed.
Lemma good_DbLine o : forallb good_word (db_names (dl_db o)) = true -> forallb good_rec (ser_DbLine o) = true.
Proof.
  intros H. unfold ser_DbLine. pose proof (good_Db _ H). rewrite !forallb_app. apply andb_true_intro. split; [good|].
  apply andb_true_intro. split; [|assumption]. apply good_flat_map. intros l. unfold ser_line. good.
Qed.

(* ------------------------------------------------------------------ DbGraphO *)
Definition wf_arc (a : arc) : Prop := small (fst (fst a)) /\ small (snd (fst a)) /\ wf_dbl (snd a).
Definition wf_DbGraphO (o : dbgraph) : Prop := Forall wf_arc (go_arcs o) /\ wf_Db (go_db o).
Lemma reads_arc a : wf_arc a -> reads rd_arc (ser_arc a) a.
Proof.
  destruct a as [[r c] x]. unfold wf_arc. cbn [fst snd]. intros (Hr & Hc & Hx).
  unfold rd_arc, ser_arc. cbn [fst snd]. rewrite <- (app_nil_r [_]).
  eapply reads_bind.
  - apply (reads_vdbl "" [zd r; zd c; x]); [|discriminate].
    constructor; [apply wf_zd; auto|]. constructor; [apply wf_zd; auto|]. constructor; [auto|constructor].
  - apply reads_ret_eq. rewrite !dtoZ_zd. reflexivity.
Qed.
Lemma DbGraphO_reads o : wf_DbGraphO o -> reads deser_DbGraphO (ser_DbGraphO o) o.
Proof.
  destruct o as [arcs d]. unfold wf_DbGraphO. cbn [go_arcs go_db]. intros (Ha & Hd).
  unfold deser_DbGraphO, ser_DbGraphO. cbn [go_arcs go_db]. rewrite <- !app_comm_cons, app_nil_l. rd.
  eapply reads_bind.
  { apply reads_rrepZ; [reflexivity|]. intros a Hin. apply reads_arc. rewrite Forall_forall in Ha. auto. }
  rewrite <- (app_nil_r (ser_Db d)). eapply reads_bind; [apply Db_reads; auto|].
  apply reads_ret_eq. reflexivity.
Qed.
Lemma good_DbGraphO o : forallb good_word (db_names (go_db o)) = true -> forallb good_rec (ser_DbGraphO o) = true.
Proof.
  intros H. unfold ser_DbGraphO. pose proof (good_Db _ H). rewrite !forallb_app. apply andb_true_intro. split; [good|].
  apply andb_true_intro. split; [|assumption]. apply good_flat_map. intros a. unfold ser_arc. good.
Qed.

(* ------------------------------------------------------------------ strings that are not one data word *)
(* A string value is written bare.  On the lexical view: a string holding a blank is two consecutive values (every record
   after it is read one place too late); a string starting with '#', or an empty one, is a comment (its record vanishes). *)
Lemma lex_str_blank t a b cs : good_word a = true -> good_word b = true -> good_title t = true ->
  lex (print_rec (RVal t (a ++ sp :: b)) ++ cs) = lay (RVal [] a) (lay (RVal t b) (lex cs)).
Proof.
  intros Ha Hb Ht. unfold print_rec. destruct (null t) eqn:Hn.
  - rewrite <- !app_assoc. rewrite <- app_comm_cons. rewrite lex_word_sp by exact Ha.
    change ([sp] ++ cs) with (sp :: cs). rewrite lex_word_sp by exact Hb. cbn [lay null]. rewrite Hn. reflexivity.
  - replace ((a ++ sp :: b) ++ W " # " ++ t ++ [nl]) with (a ++ sp :: print_rec (RVal t b)).
    2:{ unfold print_rec. rewrite Hn. rewrite <- app_assoc. reflexivity. }
    rewrite <- app_assoc, <- app_comm_cons. rewrite lex_word_sp by exact Ha.
    rewrite lex_print_rec by (cbn [good_rec]; rewrite Ht, Hb; reflexivity). reflexivity.
Qed.
Lemma lex_hash_line u cs : good_title u = true -> lex ("#"%char :: u ++ nl :: cs) = [] :: lex cs.
Proof.
  intros Hu. unfold lex. destruct (segs_title u cs Hu) as (l & E).
  change (segs ("#"%char :: u ++ nl :: cs)) with
    (match segs (u ++ nl :: cs) with
     | (w :: ws) :: ls => (("#"%char :: w) :: ws) :: ls
     | [] :: ls => [["#"%char]] :: ls
     | [] => [[["#"%char]]]
     end).
  rewrite E. destruct l as [|w ws]; reflexivity.
Qed.
Lemma good_title_app a b : good_title a = true -> good_title b = true -> good_title (a ++ b) = true.
Proof. unfold good_title. intros Ha Hb. rewrite forallb_app, Ha, Hb. reflexivity. Qed.
Lemma lex_str_hash t w cs : null t = false -> good_title t = true -> good_title w = true ->
  lex (print_rec (RVal t ("#"%char :: w)) ++ cs) = lay (RCom t) (lex cs).
Proof.
  intros Hn Ht Hw. unfold print_rec. rewrite Hn.
  replace ((("#"%char :: w) ++ W " # " ++ t ++ [nl]) ++ cs) with ("#"%char :: (w ++ W " # " ++ t) ++ nl :: cs).
  2:{ rewrite <- !app_comm_cons. f_equal. rewrite <- !app_assoc. reflexivity. }
  rewrite lex_hash_line; [reflexivity|]. apply good_title_app; [exact Hw|]. apply good_title_app; [reflexivity|exact Ht].
Qed.
Lemma lex_str_empty t cs : null t = false -> good_title t = true ->
  lex (print_rec (RVal t []) ++ cs) = lay (RCom t) (lex cs).
Proof.
  intros Hn Ht. unfold print_rec. rewrite Hn.
  change (([] ++ W " # " ++ t ++ [nl]) ++ cs) with (sp :: ((W "# " ++ t ++ [nl]) ++ cs)).
  rewrite comment_line_eq. unfold lex at 1. rewrite segs_sp.
  pose proof (lex_comment_line t cs Ht) as E. unfold lex in E.
  destruct (segs (W "# " ++ t ++ nl :: cs)) as [|l ls]; [discriminate|].
  cbn [map] in E |- *. cbn [filter nonempty null negb]. exact E.
Qed.

(* ------------------------------------------------------------------ no bound on the length of a record line *)
Lemma length_flat_map_ge {A B} (f : A -> list B) l : (forall x, f x <> []) -> (length l <= length (flat_map f l))%nat.
Proof.
  intros H. induction l as [|x l IH]; cbn [flat_map length]; auto. rewrite app_length.
  specialize (H x). destruct (f x); [congruence|]. cbn [length]. lia.
Qed.
Lemma print_vdbl_long ds : (length ds <= length (print [r_vdbl "" ds]))%nat.
Proof.
  unfold print, r_vdbl. cbn [flat_map print_rec W list_ascii_of_string null app]. rewrite app_nil_r, app_length.
  rewrite <- (map_length print_dbl ds) at 1.
  etransitivity; [apply (length_flat_map_ge (fun w : word => w ++ [sp]))|].
  - intros w E. destruct w; discriminate E.
  - apply Nat.le_add_r.
Qed.
Lemma long_vector_read_back ds : Forall wf_dbl ds ->
  nf_read "T" (rd_vdbl (lenZ ds)) (lex (print (nf_write "T" [r_vdbl "" ds]))) = Some ds.
Proof.
  intros H. apply nf_roundtrip; [apply reads_vdbl_any; exact H | reflexivity |].
  cbn [forallb]. rewrite andb_true_r. apply good_r_vdbl. reflexivity.
Qed.

(* C19 — property theorems only. Each is closed by [exact]/[apply] of lemmas of Proofs*.v, or, for the
   refutations and examples, by evaluation of the executable model on a concrete witness. *)
From Coq Require Import List ZArith Bool.
From Gst Require Import C19.Model C19.Calcs C19.Spec C19.Proofs C19.ProofsSuccess C19.ProofsLoc C19.ProofsAlias C19.ProofsRestore C19.ProofsInst C19.ProofsExit C19.Witness.
Import ListNotations.
Local Open Scope Z_scope.

(* ---------------------------------------------------------------------------------------------
   Generic atomicity.  For ANY calculator description satisfying the decidable bookkeeping condition
   [wf_atomic] (every variable created by _preprocess is registered, without locator, in a list that
   _rollback cleans; needless expansions; _run only writes registered variables; _postprocess cannot
   report a failure; _rollback only cleans), for ALL well-formed initial Dbs and for a failure at ANY
   point of check / preprocess (after each operation) / run: both Dbs come back equal to the initial
   ones (columns, uids, names, contents, locators; only the unused tail of the uid table may grow). *)
Theorem C19_atomic : forall (c : calc) (din dout : db) (fs : Z) (fk : nat) (s' : st),
  Inv din -> Inv dout -> wf_atomic c din dout = true -> fs <> 4 ->
  calc_run c (init_st din dout false) fs fk = (false, s') ->
  db_eq (s_in s') din /\ db_eq (s_out s') dout.
Proof. exact atomic_generic. Qed.
Print Assumptions C19_atomic.

(* after a reported failure the Dbs are well-formed again: every theorem of this file applies to the next call *)
Theorem C19_usable_after_failure : forall (c : calc) (din dout : db) (fs : Z) (fk : nat) (s' : st),
  Inv din -> Inv dout -> wf_atomic c din dout = true -> fs <> 4 ->
  calc_run c (init_st din dout false) fs fk = (false, s') ->
  Inv (s_in s') /\ Inv (s_out s').
Proof. exact usable_generic. Qed.
Print Assumptions C19_usable_after_failure.

(* the decidable test of well-formedness used by the correspondence is sound *)
Theorem C19_inv_test_sound : forall d, invb d = true -> Inv d.
Proof. exact invb_sound. Qed.
Print Assumptions C19_inv_test_sound.

(* --------------------------------------------------------------------------------------------- instances *)
(* CalcKriging (kriging, krigtest, xvalid on two Dbs, test_neigh, ...): every option except DGM, all targets or a
   single target (whose outputs are temporary variables: g_rb2, i.e. _rollback also cleans the temporary list, fix C19_1);
   no external-drift expansion needed *)
Theorem C19_CalcKriging_atomic : forall (c : cfg) (gout : bool) din dout fs fk s',
  Inv din -> Inv dout -> g_dgm c = false -> (g_single c < 0 \/ g_rb2 c = true) ->
  expand_noop L_F din dout = true -> expand_noop L_NOSTAT din dout = true -> fs <> 4 ->
  calc_run (kriging c gout) (init_st din dout false) fs fk = (false, s') ->
  db_eq (s_in s') din /\ db_eq (s_out s') dout.
Proof. intros c gout din dout fs fk s' Hi Ho Hd Hs HF HN. apply atomic_generic; try assumption. apply wf_kriging; assumption. Qed.
Print Assumptions C19_CalcKriging_atomic.

(* kriging on a dbin without any variable is refused by _check, whatever else (fix C19_5) *)
Theorem C19_CalcKriging_no_variable_fails_in_check : forall (c : cfg) (gout : bool) din dout fs fk,
  g_neigh_only c = false -> locnum din L_Z = 0 ->
  failing_stage (kriging c gout) (init_st din dout false) fs fk = 1 /\
  calc_run (kriging c gout) (init_st din dout false) fs fk =
    (false, exec_quiet (g_nc c) (rollback_std c (g_dgm c)) (init_st din dout false)).
Proof. exact kriging_no_variable. Qed.
Print Assumptions C19_CalcKriging_no_variable_fails_in_check.

(* CalcAnamTransform (rawToGaussian, rawToFactor): its variables are registered since fix C19_2 *)
Theorem C19_CalcAnamTransform_atomic : forall (c : cfg) din dout fs fk s',
  Inv din -> Inv dout -> fs <> 4 ->
  calc_run (anam c) (init_st din dout false) fs fk = (false, s') -> db_eq (s_in s') din /\ db_eq (s_out s') dout.
Proof. intros c din dout fs fk s' Hi Ho. apply atomic_generic; try assumption. apply wf_anam. Qed.
Print Assumptions C19_CalcAnamTransform_atomic.

(* including dbg2gShrink and its auxiliary temporary variable (fix C19_4) *)
Theorem C19_CalcGridToGrid_atomic : forall (c : cfg) din dout fs fk s',
  Inv din -> Inv dout -> (g_mode c <> 1 \/ g_rb2 c = true) -> fs <> 4 ->
  calc_run (g2g c) (init_st din dout false) fs fk = (false, s') -> db_eq (s_in s') din /\ db_eq (s_out s') dout.
Proof. intros c din dout fs fk s' Hi Ho Hm. apply atomic_generic; try assumption. apply wf_g2g; assumption. Qed.
Print Assumptions C19_CalcGridToGrid_atomic.

Theorem C19_CalcMigrate_atomic : forall (c : cfg) din dout fs fk s',
  Inv din -> Inv dout -> fs <> 4 ->
  calc_run (migrate c) (init_st din dout false) fs fk = (false, s') -> db_eq (s_in s') din /\ db_eq (s_out s') dout.
Proof. intros c din dout fs fk s' Hi Ho. apply atomic_generic; try assumption. apply wf_migrate. Qed.
Print Assumptions C19_CalcMigrate_atomic.

Theorem C19_CalcStatistics_atomic : forall (c : cfg) gout din dout fs fk s',
  Inv din -> Inv dout -> fs <> 4 ->
  calc_run (stats c gout) (init_st din dout false) fs fk = (false, s') -> db_eq (s_in s') din /\ db_eq (s_out s') dout.
Proof. intros c gout din dout fs fk s' Hi Ho. apply atomic_generic; try assumption. apply wf_stats. Qed.
Print Assumptions C19_CalcStatistics_atomic.

Theorem C19_CalcSimpleInterpolation_atomic : forall (c : cfg) din dout fs fk s',
  Inv din -> Inv dout -> expand_noop L_F din dout = true -> expand_noop L_NOSTAT din dout = true -> fs <> 4 ->
  calc_run (simpleint c) (init_st din dout false) fs fk = (false, s') -> db_eq (s_in s') din /\ db_eq (s_out s') dout.
Proof. intros c din dout fs fk s' Hi Ho HF HN. apply atomic_generic; try assumption. apply wf_simpleint; assumption. Qed.
Print Assumptions C19_CalcSimpleInterpolation_atomic.

Theorem C19_CalcImage_atomic : forall (c : cfg) opkey din dout fs fk s',
  Inv din -> Inv dout -> expand_noop L_F din dout = true -> expand_noop L_NOSTAT din dout = true -> fs <> 4 ->
  calc_run (image c opkey) (init_st din dout false) fs fk = (false, s') -> db_eq (s_in s') din /\ db_eq (s_out s') dout.
Proof. intros c opkey din dout fs fk s' Hi Ho HF HN. apply atomic_generic; try assumption. apply wf_image; assumption. Qed.
Print Assumptions C19_CalcImage_atomic.

Theorem C19_CalcGlobal_atomic : forall (c : cfg) gout din dout fs fk s',
  Inv din -> Inv dout -> expand_noop L_F din dout = true -> expand_noop L_NOSTAT din dout = true -> fs <> 4 ->
  calc_run (global c gout) (init_st din dout false) fs fk = (false, s') -> db_eq (s_in s') din /\ db_eq (s_out s') dout.
Proof. intros c gout din dout fs fk s' Hi Ho HF HN. apply atomic_generic; try assumption. apply wf_global; assumption. Qed.
Print Assumptions C19_CalcGlobal_atomic.

(* Simulations create their variables WITH the SIMU locator (temporary ones in dbin for conditional turning bands,
   cleaned by _rollback since fix C19_3).  Atomic -- and the Dbs well-formed again -- provided no variable carried
   the SIMU locator before the call (otherwise: known findings *:existing-simu-locator-lost below).  Not DGM. *)
Theorem C19_CalcSimuTurningBands_atomic : forall (c : cfg) gout din dout fs fk s',
  Inv din -> Inv dout -> ver_bit c 2 = false -> g_dgm c = false -> (g_has_in c = false \/ g_rb2 c = true) ->
  getloc (d_locs din) L_SIMU = [] -> getloc (d_locs dout) L_SIMU = [] ->
  expand_noop L_F din dout = true -> expand_noop L_NOSTAT din dout = true -> fs <> 4 ->
  calc_run (simtub c gout) (init_st din dout false) fs fk = (false, s') ->
  (db_eq (s_in s') din /\ Inv (s_in s')) /\ (db_eq (s_out s') dout /\ Inv (s_out s')).
Proof. exact simtub_atomic. Qed.
Print Assumptions C19_CalcSimuTurningBands_atomic.

Theorem C19_CalcSimuFFT_atomic : forall (c : cfg) gout din dout fs fk s',
  Inv din -> Inv dout -> ver_bit c 2 = false -> getloc (d_locs din) L_SIMU = [] -> getloc (d_locs dout) L_SIMU = [] ->
  expand_noop L_F din dout = true -> expand_noop L_NOSTAT din dout = true -> fs <> 4 ->
  calc_run (simfft c gout) (init_st din dout false) fs fk = (false, s') ->
  (db_eq (s_in s') din /\ Inv (s_in s')) /\ (db_eq (s_out s') dout /\ Inv (s_out s')).
Proof. exact simfft_atomic. Qed.
Print Assumptions C19_CalcSimuFFT_atomic.

(* DGM option: _preprocess saves the names of the coordinate variables of dbin and moves the X locators to centred
   temporary copies; _postprocess and (fixes C19_1 / C19_3) _rollback clean the temporary list and give the locators
   back by name.  Atomic -- and well-formed again -- when dbin is a set of points whose coordinate variables exist, are
   distinct and carry no other locator. *)
Theorem C19_CalcKriging_dgm_atomic : forall (c : cfg) gout din dout fs fk s',
  Inv din -> Inv dout -> g_dgm c = true -> g_rb2 c = true ->
  expand_noop L_F din dout = true -> expand_noop L_NOSTAT din dout = true ->
  d_grid din = false -> NoDup (getloc (d_locs din) L_X) ->
  (forall u, In u (getloc (d_locs din) L_X) -> has_col din u = true) ->
  (forall u t, In u (getloc (d_locs din) L_X) -> t <> L_X -> ~ In u (getloc (d_locs din) t)) ->
  fs <> 4 ->
  calc_run (kriging c gout) (init_st din dout false) fs fk = (false, s') ->
  (db_eq (s_in s') din /\ Inv (s_in s')) /\ (db_eq (s_out s') dout /\ Inv (s_out s')).
Proof. exact kriging_dgm_atomic. Qed.
Print Assumptions C19_CalcKriging_dgm_atomic.

Theorem C19_CalcSimuTurningBands_dgm_atomic : forall (c : cfg) gout din dout fs fk s',
  Inv din -> Inv dout -> ver_bit c 2 = false -> g_dgm c = true -> g_rb2 c = true ->
  getloc (d_locs din) L_SIMU = [] -> getloc (d_locs dout) L_SIMU = [] ->
  expand_noop L_F din dout = true -> expand_noop L_NOSTAT din dout = true ->
  d_grid din = false -> NoDup (getloc (d_locs din) L_X) ->
  (forall u, In u (getloc (d_locs din) L_X) -> has_col din u = true) ->
  (forall u t, In u (getloc (d_locs din) L_X) -> t <> L_X -> ~ In u (getloc (d_locs din) t)) ->
  fs <> 4 ->
  calc_run (simtub c gout) (init_st din dout false) fs fk = (false, s') ->
  (db_eq (s_in s') din /\ Inv (s_in s')) /\ (db_eq (s_out s') dout /\ Inv (s_out s')).
Proof. exact simtub_dgm_atomic. Qed.
Print Assumptions C19_CalcSimuTurningBands_dgm_atomic.

(* CalcSimuPost (statistics of simulations, upscaled to dbout) *)
Theorem C19_CalcSimuPost_atomic : forall (c : cfg) gout quals din dout fs fk s',
  Inv din -> Inv dout -> fs <> 4 ->
  calc_run (simupost c gout quals) (init_st din dout false) fs fk = (false, s') -> db_eq (s_in s') din /\ db_eq (s_out s') dout.
Proof. intros c gout quals din dout fs fk s' Hi Ho. apply atomic_generic; try assumption. apply wf_simupost. Qed.
Print Assumptions C19_CalcSimuPost_atomic.

(* CalcSimuPartition (Voronoi) and CalcSimuSubstitution: one variable created with the SIMU locator *)
Theorem C19_CalcSimuPartition_atomic : forall (c : cfg) gout din dout fs fk s',
  Inv din -> Inv dout -> ver_bit c 2 = false -> g_mode c <> 1 -> getloc (d_locs din) L_SIMU = [] -> getloc (d_locs dout) L_SIMU = [] ->
  expand_noop L_F din dout = true -> expand_noop L_NOSTAT din dout = true -> fs <> 4 ->
  calc_run (simu1 c gout) (init_st din dout false) fs fk = (false, s') ->
  (db_eq (s_in s') din /\ Inv (s_in s')) /\ (db_eq (s_out s') dout /\ Inv (s_out s')).
Proof. exact simu1_atomic. Qed.
Print Assumptions C19_CalcSimuPartition_atomic.

(* ---------------------------------------------------------------------------------------------
   The same Db given as input and output (xvalid, CalcAnamTransform, CalcImage, in-place regression and simulation
   statistics): the four lists of the calculator designate variables of this one Db. *)
Theorem C19_atomic_same_db : forall (c : calc) (d dout : db) (fs : Z) (fk : nat) (s' : st),
  Inv d -> wf_atomic c d d = true -> fs <> 4 ->
  calc_run c (init_st d dout true) fs fk = (false, s') ->
  db_eq (s_in s') d /\ Inv (s_in s').
Proof. exact atomic_alias. Qed.
Print Assumptions C19_atomic_same_db.

Theorem C19_success_same_db : forall (c : calc) (d dout : db) (fk : nat) (s' : st),
  Inv d -> wf_success c d d = true ->
  calc_run c (init_st d dout true) 0 fk = (true, s') ->
  success_spec1 (k_nc c) d s'.
Proof. exact success_alias. Qed.
Print Assumptions C19_success_same_db.

(* xvalid *)
Theorem C19_xvalid_atomic : forall (c : cfg) gout d dout fs fk s',
  Inv d -> g_dgm c = false -> (g_single c < 0 \/ g_rb2 c = true) -> fs <> 4 ->
  calc_run (kriging c gout) (init_st d dout true) fs fk = (false, s') -> db_eq (s_in s') d /\ Inv (s_in s').
Proof.
  intros c gout d dout fs fk s' Hi Hd Hs. apply atomic_alias; try assumption.
  apply wf_kriging; try assumption; apply expand_noop_self; discriminate.
Qed.
Print Assumptions C19_xvalid_atomic.

Theorem C19_xvalid_success : forall (c : cfg) gout d dout fk s',
  Inv d -> g_dgm c = false ->
  calc_run (kriging c gout) (init_st d dout true) 0 fk = (true, s') -> success_spec1 (g_nc c) d s'.
Proof.
  intros c gout d dout fk s' Hi Hd. apply (success_alias (kriging c gout)); try assumption.
  apply wf_success_kriging; try assumption; apply expand_noop_self; discriminate.
Qed.
Print Assumptions C19_xvalid_success.

Theorem C19_CalcAnamTransform_same_db_atomic : forall (c : cfg) d dout fs fk s',
  Inv d -> fs <> 4 ->
  calc_run (anam c) (init_st d dout true) fs fk = (false, s') -> db_eq (s_in s') d /\ Inv (s_in s').
Proof. intros c d dout fs fk s' Hi. apply atomic_alias; try assumption. apply wf_anam. Qed.
Print Assumptions C19_CalcAnamTransform_same_db_atomic.

Theorem C19_CalcAnamTransform_same_db_success : forall (c : cfg) d dout fk s',
  Inv d -> calc_run (anam c) (init_st d dout true) 0 fk = (true, s') -> success_spec1 (g_nc c) d s'.
Proof. intros c d dout fk s' Hi. apply (success_alias (anam c)); try assumption. apply wf_success_anam. Qed.
Print Assumptions C19_CalcAnamTransform_same_db_success.

Theorem C19_CalcImage_same_db_atomic : forall (c : cfg) opkey d dout fs fk s',
  Inv d -> fs <> 4 ->
  calc_run (image c opkey) (init_st d dout true) fs fk = (false, s') -> db_eq (s_in s') d /\ Inv (s_in s').
Proof.
  intros c opkey d dout fs fk s' Hi. apply atomic_alias; try assumption.
  apply wf_image; apply expand_noop_self; discriminate.
Qed.
Print Assumptions C19_CalcImage_same_db_atomic.

Theorem C19_CalcSimuPost_same_db_atomic : forall (c : cfg) gout quals d dout fs fk s',
  Inv d -> fs <> 4 ->
  calc_run (simupost c gout quals) (init_st d dout true) fs fk = (false, s') -> db_eq (s_in s') d /\ Inv (s_in s').
Proof. intros c gout quals d dout fs fk s' Hi. apply atomic_alias; try assumption. apply wf_simupost. Qed.
Print Assumptions C19_CalcSimuPost_same_db_atomic.

(* ---------------------------------------------------------------------------------------------
   Generic success.  For ANY calculator description satisfying [wf_success] (registered additions without locator,
   needless expansions; the numerical body; _postprocess = cleaning of the temporary variables + naming of variables
   designated through slots assigned by the registered additions of the SAME Db), a completed run leaves every
   original column in place with its uid, name and content, adds exactly the permanently registered variables,
   leaves no temporary variable, and changes no locator type other than the one of the naming convention. *)
Theorem C19_success : forall (c : calc) (din dout : db) (fk : nat) (s' : st),
  Inv din -> Inv dout -> wf_success c din dout = true ->
  calc_run c (init_st din dout false) 0 fk = (true, s') ->
  success_spec (k_nc c) din dout s'.
Proof. exact success_generic. Qed.
Print Assumptions C19_success.

Theorem C19_CalcKriging_success : forall (c : cfg) (gout : bool) din dout fk s',
  Inv din -> Inv dout -> g_dgm c = false ->
  expand_noop L_F din dout = true -> expand_noop L_NOSTAT din dout = true ->
  calc_run (kriging c gout) (init_st din dout false) 0 fk = (true, s') ->
  success_spec (g_nc c) din dout s'.
Proof. intros c gout din dout fk s' Hi Ho Hd HF HN. apply (success_generic (kriging c gout)); try assumption. apply wf_success_kriging; assumption. Qed.
Print Assumptions C19_CalcKriging_success.

Theorem C19_CalcMigrate_success : forall (c : cfg) din dout fk s',
  Inv din -> Inv dout -> g_locate c = false ->
  calc_run (migrate c) (init_st din dout false) 0 fk = (true, s') -> success_spec (g_nc c) din dout s'.
Proof. intros c din dout fk s' Hi Ho Hl. apply (success_generic (migrate c)); try assumption. apply wf_success_migrate; assumption. Qed.
Print Assumptions C19_CalcMigrate_success.

Theorem C19_CalcStatistics_success : forall (c : cfg) gout din dout fk s',
  Inv din -> Inv dout ->
  calc_run (stats c gout) (init_st din dout false) 0 fk = (true, s') -> success_spec (g_nc c) din dout s'.
Proof. intros c gout din dout fk s' Hi Ho. apply (success_generic (stats c gout)); try assumption. apply wf_success_stats. Qed.
Print Assumptions C19_CalcStatistics_success.

Theorem C19_CalcSimpleInterpolation_success : forall (c : cfg) din dout fk s',
  Inv din -> Inv dout -> expand_noop L_F din dout = true -> expand_noop L_NOSTAT din dout = true ->
  calc_run (simpleint c) (init_st din dout false) 0 fk = (true, s') -> success_spec (g_nc c) din dout s'.
Proof. intros c din dout fk s' Hi Ho HF HN. apply (success_generic (simpleint c)); try assumption. apply wf_success_simpleint; assumption. Qed.
Print Assumptions C19_CalcSimpleInterpolation_success.

Theorem C19_CalcGridToGrid_success : forall (c : cfg) din dout fk s',
  Inv din -> Inv dout ->
  calc_run (g2g c) (init_st din dout false) 0 fk = (true, s') -> success_spec (g_nc c) din dout s'.
Proof. intros c din dout fk s' Hi Ho. apply (success_generic (g2g c)); try assumption. apply wf_success_g2g. Qed.
Print Assumptions C19_CalcGridToGrid_success.

(* ---------------------------------------------------------------------------------------------
   Every exit path of a successful _postprocess: dbin EXACTLY as it was.
   For ANY calculator that registers no permanent variable in dbin and whose _postprocess is
   "_cleanVariableDb(2); naming of variables of dbout" - whatever the branch taken, early returns included -
   a completed run leaves dbin equal to the initial Db: same columns, uids, names, contents, ALL locator types
   (hence the same space dimension), and well-formed. *)
Theorem C19_success_dbin_exact : forall (c : calc) (din dout : db) (R : list op) (fk : nat) (s' : st),
  Inv din -> Inv dout -> k_init c = [] ->
  forallb (safe_op rb_all din dout) (k_pre c) = true -> forallb (safe_op rb_all din dout) (k_run c) = true ->
  forallb no_perm_in (k_pre c) = true -> forallb no_perm_in (k_run c) = true ->
  k_post c = OClean 2 :: R -> forallb rename_out R = true ->
  calc_run c (init_st din dout false) 0 fk = (true, s') ->
  db_eq (s_in s') din /\ Inv (s_in s').
Proof. exact dbin_exact_plain. Qed.
Print Assumptions C19_success_dbin_exact.

(* the same with the DGM centring of the data: _postprocess must give the coordinate locators back (by name) on the
   path that is taken; [R1], [R2]: naming of variables of dbout before / after the restoration *)
Theorem C19_success_dbin_exact_dgm : forall (c : calc) (tch : Z -> bool) (din dout : db) (R1 R2 : list op) (fk : nat) (s' : st),
  Inv din -> Inv dout -> tch L_X = false ->
  (forall t, tch t = true -> getloc (d_locs din) t = []) -> (forall t, tch t = true -> getloc (d_locs dout) t = []) ->
  d_grid din = false ->
  NoDup (getloc (d_locs din) L_X) ->
  (forall u, In u (getloc (d_locs din) L_X) -> has_col din u = true) ->
  (forall u t, In u (getloc (d_locs din) L_X) -> t <> L_X -> ~ In u (getloc (d_locs din) t)) ->
  k_init c = [] ->
  safe_opsD tch rb_dgm din dout true (k_pre c) = true ->
  safe_opsD tch rb_dgm din dout false (k_run c) = true ->
  forallb no_perm_in (k_pre c) = true -> forallb no_perm_in (k_run c) = true ->
  k_post c = OClean 2 :: R1 ++ ORestoreX :: R2 -> forallb rename_out R1 = true -> forallb rename_out R2 = true ->
  calc_run c (init_st din dout false) 0 fk = (true, s') ->
  db_eq (s_in s') din /\ Inv (s_in s').
Proof. exact dbin_exact_dgm. Qed.
Print Assumptions C19_success_dbin_exact_dgm.

(* CalcKriging without DGM, ALL options and ALL branches of _postprocess (kriging with any subset of est / std / varz,
   krigtest = single target with its early return, xvalid on two Dbs, test_neigh, linear combination, Bayes, profile) *)
Theorem C19_CalcKriging_success_dbin_exact : forall (c : cfg) gout din dout fk s',
  Inv din -> Inv dout -> g_dgm c = false ->
  expand_noop L_F din dout = true -> expand_noop L_NOSTAT din dout = true ->
  calc_run (kriging c gout) (init_st din dout false) 0 fk = (true, s') ->
  db_eq (s_in s') din /\ Inv (s_in s').
Proof. exact kriging_dbin_exact. Qed.
Print Assumptions C19_CalcKriging_success_dbin_exact.

(* CalcKriging with DGM: kriging (all targets) AND krigtest (single target: the early return of _postprocess gives
   the coordinate locators back too - seeded change C19_2).  The class has no restoration on its cross-validation /
   neighbourhood-test branches: no entry point combines them with DGM, hence the second hypothesis.
   CalcSimuTurningBands with DGM (code with fix C19_7, without C19_8): the simulations at the data points and the
   centred coordinates are deleted, the coordinate locators given back.
   (one statement: printing the assumptions walks the same large proof terms once) *)
Theorem C19_dgm_success_dbin_exact :
  (forall (c : cfg) gout din dout fk s',
     Inv din -> Inv dout -> g_dgm c = true ->
     (0 <= g_single c \/ (g_xvalid c = false /\ g_neigh_only c = false)) ->
     expand_noop L_F din dout = true -> expand_noop L_NOSTAT din dout = true ->
     d_grid din = false -> NoDup (getloc (d_locs din) L_X) ->
     (forall u, In u (getloc (d_locs din) L_X) -> has_col din u = true) ->
     (forall u t, In u (getloc (d_locs din) L_X) -> t <> L_X -> ~ In u (getloc (d_locs din) t)) ->
     calc_run (kriging c gout) (init_st din dout false) 0 fk = (true, s') ->
     db_eq (s_in s') din /\ Inv (s_in s')) /\
  (forall (c : cfg) gout din dout fk s',
     Inv din -> Inv dout -> ver_bit c 1 = true -> ver_bit c 2 = false -> g_dgm c = true ->
     getloc (d_locs din) L_SIMU = [] -> getloc (d_locs dout) L_SIMU = [] ->
     expand_noop L_F din dout = true -> expand_noop L_NOSTAT din dout = true ->
     d_grid din = false -> NoDup (getloc (d_locs din) L_X) ->
     (forall u, In u (getloc (d_locs din) L_X) -> has_col din u = true) ->
     (forall u t, In u (getloc (d_locs din) L_X) -> t <> L_X -> ~ In u (getloc (d_locs din) t)) ->
     calc_run (simtub c gout) (init_st din dout false) 0 fk = (true, s') ->
     db_eq (s_in s') din /\ Inv (s_in s')).
Proof. split; [exact kriging_dgm_dbin_exact | exact simtub_dgm_dbin_exact]. Qed.
Print Assumptions C19_dgm_success_dbin_exact.

(* the theorems above are not vacuous (krigtest and kriging with DGM complete on the witnesses, both Dbs of krigtest
   come back equal to the initial ones), and they do distinguish: a _postprocess whose single-target early return
   comes BEFORE the restoration (seeded change C19_2) completes with a dbin that has lost its coordinate locators *)
Example C19_krigtest_dgm_early_return_on_witnesses :
  (let '(ok, s) := calc_run (kriging cfg_krigtest_dgm true) (init_st w_din w_dout false) 0 0%nat in
   (ok, db_eqb (s_in s) w_din, db_eqb (s_out s) w_dout)) = (true, true, true) /\
  (let '(ok, s) := calc_run (kriging cfg_dgm true) (init_st w_din w_dout false) 0 0%nat in
   (ok, db_eqb (s_in s) w_din, ndim (s_in s))) = (true, true, 2) /\
  (let '(ok, s) := calc_run (kriging_skipped_restore cfg_krigtest_dgm true) (init_st w_din w_dout false) 0 0%nat in
   (ok, db_eqb (s_in s) w_din, getloc (d_locs (s_in s)) L_X, ndim (s_in s))) = (true, false, [], 0).
Proof. vm_compute. repeat split; reflexivity. Qed.


Theorem C19_CalcAnamTransform_success : forall (c : cfg) din dout fk s',
  Inv din -> Inv dout ->
  calc_run (anam c) (init_st din dout false) 0 fk = (true, s') -> success_spec (g_nc c) din dout s'.
Proof. intros c din dout fk s' Hi Ho. apply (success_generic (anam c)); try assumption. apply wf_success_anam. Qed.
Print Assumptions C19_CalcAnamTransform_success.

(* --------------------------------------------------------------------------------------------- refutations
   Model variants that falsify the property.  Still the code of /repo (KNOWN_FINDINGS.txt, replayed on the real
   library by checks/C19.py): the SIMU-locator family and CalcSimuEden.  The code-version flag g_ver = 0 variants
   (external drift, CalcKrigingFactors, tessellation_poisson) describe the code BEFORE fixes C19_7 / C19_6 / C19_9,
   now applied to /repo: checks/C19.py reads the version flags in the source, so that /repo is compared with the
   repaired variants (example C19_proposed_fixes_on_witnesses); the theorems remain as the record of what the
   former code did - and of what a revert of those repairs would do. *)
Ltac refute_in := intros [H _]; vm_compute in H; discriminate.

(* (before fix C19_7) external drift known on the output grid only: ACalcInterpolator::_preprocess migrates it into dbin
   (nested CalcMigrate, never registered, never removed): dbin is changed after a SUCCESS as well as after a failure *)
Theorem C19_CalcKriging_external_drift_refuted : exists din dout s1 s2,
  Inv din /\ Inv dout /\
  calc_run (kriging cfg_extdrift true) (init_st din dout false) 0 0%nat = (true, s1) /\ ~ db_eq (s_in s1) din /\
  calc_run (kriging cfg_extdrift true) (init_st din dout false) 3 0%nat = (false, s2) /\ ~ db_eq (s_in s2) din.
Proof.
  exists w_din, w_dout_f. eexists. eexists.
  split; [apply invb_sound; vm_compute; reflexivity|]. split; [apply invb_sound; vm_compute; reflexivity|].
  split; [vm_compute; reflexivity|]. split; [refute_in|]. split; [vm_compute; reflexivity | refute_in].
Qed.
Print Assumptions C19_CalcKriging_external_drift_refuted.

(* simulations on Dbs that already hold variables with the SIMU locator: _addVariableDb(.., ELoc::SIMU, 0, ..)
   overwrites those locators and nothing gives them back (turning bands: dbout; FFT: the grid) *)
Theorem C19_CalcSimuTurningBands_existing_simu_refuted : exists din dout fs fk s',
  Inv din /\ Inv dout /\ calc_run (simtub cfg_simtub true) (init_st din dout false) fs fk = (false, s') /\
  d_cols (s_out s') = d_cols dout /\ getloc (d_locs (s_out s')) L_SIMU <> getloc (d_locs dout) L_SIMU.
Proof.
  exists w_din, w_dout_simu, 3, 0%nat. eexists.
  split; [apply invb_sound; vm_compute; reflexivity|]. split; [apply invb_sound; vm_compute; reflexivity|].
  split; [vm_compute; reflexivity|]. split; [vm_compute; reflexivity | vm_compute; discriminate].
Qed.
Print Assumptions C19_CalcSimuTurningBands_existing_simu_refuted.

Theorem C19_CalcSimuFFT_existing_simu_refuted : exists din dout fs fk s',
  Inv din /\ Inv dout /\ calc_run (simfft cfg_simfft true) (init_st din dout false) fs fk = (false, s') /\
  d_cols (s_out s') = d_cols dout /\ getloc (d_locs (s_out s')) L_SIMU <> getloc (d_locs dout) L_SIMU.
Proof.
  exists w_din, w_dout_simu, 3, 0%nat. eexists.
  split; [apply invb_sound; vm_compute; reflexivity|]. split; [apply invb_sound; vm_compute; reflexivity|].
  split; [vm_compute; reflexivity|]. split; [vm_compute; reflexivity | vm_compute; discriminate].
Qed.
Print Assumptions C19_CalcSimuFFT_existing_simu_refuted.

(* CalcKrigingFactors (before fix C19_6, g_ver bit 0 clear): _check leaves the Z locator to the first factor only and
   _rollback does not give it back (seeded observation, reproduced); with a change of support the centred copies and
   the X locators stay as well.  With fixes/C19_6.patch (bit 0 + g_rb2) the witnesses are restored: see the example below *)
Theorem C19_CalcKrigingFactors_refuted : exists din dout fs fk s',
  Inv din /\ Inv dout /\ calc_run (krigfac (cfg_krigfac false false 0) true) (init_st din dout false) fs fk = (false, s') /\
  d_cols (s_in s') = d_cols din /\ getloc (d_locs (s_in s')) L_Z <> getloc (d_locs din) L_Z.
Proof.
  exists w_din_fac, w_dout, 1, 0%nat. eexists.
  split; [apply invb_sound; vm_compute; reflexivity|]. split; [apply invb_sound; vm_compute; reflexivity|].
  split; [vm_compute; reflexivity|]. split; [vm_compute; reflexivity | vm_compute; discriminate].
Qed.
Print Assumptions C19_CalcKrigingFactors_refuted.

(* (before fix C19_9) tessellation_poisson: the nested simulation is left in the grid when no Poisson plane is drawn (and, the last column
   RANK being used as a UID, the wrong variable is deleted as soon as the grid has a uid hole) *)
Theorem C19_CalcSimuPartition_poisson_refuted : exists din dout fs fk s',
  Inv din /\ Inv dout /\ calc_run (simu1 cfg_poisson true) (init_st din dout false) fs fk = (false, s') /\
  ~ db_eq (s_out s') dout.
Proof.
  exists w_din, w_dout, 3, 3%nat. eexists.
  split; [apply invb_sound; vm_compute; reflexivity|]. split; [apply invb_sound; vm_compute; reflexivity|].
  split; [vm_compute; reflexivity | intros [H _]; vm_compute in H; discriminate].
Qed.
Print Assumptions C19_CalcSimuPartition_poisson_refuted.

(* fluid_propagation works IN its input facies / fluid variables: pre-existing values are overwritten, on success too *)
Theorem C19_CalcSimuEden_refuted : exists din dout s',
  Inv din /\ Inv dout /\ calc_run (eden cfg_eden true) (init_st din dout false) 0 0%nat = (true, s') /\
  firstn 4 (d_cols (s_out s')) <> d_cols dout.
Proof.
  exists w_din, w_dout. eexists.
  split; [apply invb_sound; vm_compute; reflexivity|]. split; [apply invb_sound; vm_compute; reflexivity|].
  split; [vm_compute; reflexivity | vm_compute; discriminate].
Qed.
Print Assumptions C19_CalcSimuEden_refuted.

(* Remark (not a finding: nothing can fail once the last stage has returned true): if a failure is forced AFTER a
   completed _postprocess, the locators cleared by NamingConvention::setLocators are not given back *)
Example C19_remark_failure_after_postprocess :
  (let '(ok, s) := calc_run (kriging cfg_kriging true) (init_st w_din w_dout false) 4 100%nat in
   (ok, list_eqb col_eqb (d_cols (s_out s)) (d_cols w_dout), getloc (d_locs (s_out s)) L_Z, getloc (d_locs w_dout) L_Z))
  = (false, true, [], [4]).
Proof. vm_compute. reflexivity. Qed.

(* --------------------------------------------------------------------------------------------- regression examples
   CalcKrigingFactors with the roll-back of fixes/C19_6.patch has no general theorem here (sweep below); together with
   the DGM witnesses (general theorems above) and the former witnesses of the defects cured by fixes C19_1..5:
   on the witnesses, a failure at every point of check / preprocess (after each operation) / run is reported and
   leaves both Dbs equal to the initial ones. *)
Example C19_atomic_on_former_witnesses :
  sweep_atomic (kriging cfg_dgm true) w_din w_dout = true /\
  sweep_atomic (kriging cfg_krigtest_dgm true) w_din w_dout = true /\
  sweep_atomic (simtub cfg_simtub true) w_din w_dout = true /\
  sweep_atomic (simtub cfg_simtub_dgm true) w_din w_dout = true /\
  sweep_atomic (kriging cfg_krigtest true) w_din w_dout = true /\
  sweep_atomic (anam cfg_anam) w_din w_dout = true /\
  sweep_atomic (g2g cfg_shrink) w_dout w_dout = true /\
  sweep_atomic (krigfac (cfg_krigfac false true 1) true) w_din_fac w_dout = true /\
  sweep_atomic (krigfac (cfg_krigfac true true 1) true) w_din_fac w_dout = true /\
  sweep_atomic1 (kriging cfg_xvalid false) w_din = true.
Proof. vm_compute. repeat split; reflexivity. Qed.

(* --------------------------------------------------------------------------------------------- proposed fixes C19_6 .. C19_9
   With the code-version flags of the proposed patches (g_rb2, g_ver: read in the source by checks/C19.py, so that the
   model follows /repo whether or not they are applied) the witnesses of the remaining findings are restored / left
   untouched.  General theorems for these variants are not proved (CalcKrigingFactors: see the sweep above). *)
Example C19_proposed_fixes_on_witnesses :
  (* C19_7: the expanded external drift is a temporary variable of dbin *)
  sweep_atomic (kriging (with_ver cfg_extdrift true 2) true) w_din w_dout_f = true /\
  success_keeps_dbin (kriging (with_ver cfg_extdrift true 2) true) w_din w_dout_f = true /\
  (* C19_8: pre-existing SIMU locators put aside and given back *)
  sweep_atomic (simtub (with_ver cfg_simtub true 6) true) w_din w_dout_simu = true /\
  sweep_atomic (simfft (with_ver cfg_simfft true 6) true) w_din w_dout_simu = true /\
  (* C19_9: tessellation_poisson *)
  stage_atomic (simu1 (with_ver cfg_poisson true 14) true) w_din w_dout = true /\
  stage_atomic (simu1 (with_ver cfg_poisson true 14) true) w_din w_dout_simu = true /\
  stage_atomic (simu1 (with_ver cfg_poisson true 0) true) w_din w_dout = false.
Proof. vm_compute. repeat split; reflexivity. Qed.

(* a completed krigtest leaves dbout exactly as it was (no output variable, no dangling locator);
   kriging without variable: fails at stage 1 *)
Example C19_krigtest_success_and_no_variable_on_witnesses :
  (let '(ok, s) := calc_run (kriging cfg_krigtest true) (init_st w_din w_dout false) 0 0%nat in
   (ok, db_eqb (s_in s) w_din, db_eqb (s_out s) w_dout)) = (true, true, true) /\
  kriging_no_z_outcome = (1, false).
Proof. vm_compute. split; reflexivity. Qed.


(* --------------------------------------------------------------------------------------------- non-vacuity *)
(* hypotheses of C19_CalcKriging_atomic hold on a non-trivial state (uid hole, pre-existing Z variable in dbout),
   the run really fails after having created and written two variables, and the final state is the initial one *)
Example C19_nonvacuous :
  invb w_din = true /\ invb w_dout = true /\ wf_atomic (kriging cfg_kriging true) w_din w_dout = true /\
  wf_success (kriging cfg_kriging true) w_din w_dout = true /\
  expand_noop L_F w_din w_dout = true /\
  (let '(ok, s) := exec_ops nc_k (k_pre (kriging cfg_kriging true)) (init_st w_din w_dout false) None in
   (ok, map c_uid (d_cols (s_out s)), b_perm_out (s_book s))) = (true, [0; 1; 2; 4; 5; 6], [5; 6]) /\
  (let '(ok, s) := calc_run (kriging cfg_kriging true) (init_st w_din w_dout false) 3 1%nat in
   (ok, db_eqb (s_in s) w_din, db_eqb (s_out s) w_dout, d_nuid (s_out s))) = (false, true, true, 7) /\
  (let '(ok, s) := calc_run (kriging cfg_kriging true) (init_st w_din w_dout false) 0 0%nat in
   (ok, map c_name (d_cols (s_out s)))) =
     (true, w_names_after_kriging).
Proof. vm_compute. repeat split; reflexivity. Qed.

(* C19 — property theorems only. Each is closed by [exact]/[apply] of lemmas of Proofs*.v, or, for the
   refutations and examples, by evaluation of the executable model on a concrete witness. *)
From Coq Require Import List ZArith Bool.
From Gst Require Import C19.Model C19.Calcs C19.Spec C19.Proofs C19.ProofsSuccess C19.ProofsInst C19.Witness.
Import ListNotations.
Local Open Scope Z_scope.

(* ---------------------------------------------------------------------------------------------
   Generic atomicity.  For ANY calculator description satisfying the decidable bookkeeping condition
   [wf_atomic] (every variable created by _preprocess is registered, without locator, in a list that
   _rollback cleans; needless expansions; _run only writes registered variables; _postprocess cannot
   report a failure; _rollback only cleans), for ALL well-formed initial Dbs and for a failure at ANY
   point of check / preprocess (after each operation) / run: both Dbs come back equal to the initial
   ones (columns, uids, names, contents, locators; only the unused tail of the uid table may grow). *)
Theorem C19_atomic : forall (c : calc) (din dout : db) (fs : Z) (fk : nat) (s' : st),
  Inv din -> Inv dout -> wf_atomic c din dout = true -> fs <> 4 ->
  calc_run c (init_st din dout false) fs fk = (false, s') ->
  db_eq (s_in s') din /\ db_eq (s_out s') dout.
Proof. exact atomic_generic. Qed.
Print Assumptions C19_atomic.

(* after a reported failure the Dbs are well-formed again: every theorem of this file applies to the next call *)
Theorem C19_usable_after_failure : forall (c : calc) (din dout : db) (fs : Z) (fk : nat) (s' : st),
  Inv din -> Inv dout -> wf_atomic c din dout = true -> fs <> 4 ->
  calc_run c (init_st din dout false) fs fk = (false, s') ->
  Inv (s_in s') /\ Inv (s_out s').
Proof. exact usable_generic. Qed.
Print Assumptions C19_usable_after_failure.

(* the decidable test of well-formedness used by the correspondence is sound *)
Theorem C19_inv_test_sound : forall d, invb d = true -> Inv d.
Proof. exact invb_sound. Qed.
Print Assumptions C19_inv_test_sound.

(* --------------------------------------------------------------------------------------------- instances *)
(* CalcKriging (kriging, xvalid on two Dbs, test_neigh, ...): all options except DGM; all targets
   (or single target with the roll-back of fixes/C19_1.patch); no external-drift expansion needed *)
Theorem C19_CalcKriging_atomic : forall (c : cfg) (gout : bool) din dout fs fk s',
  Inv din -> Inv dout -> g_dgm c = false -> (g_single c < 0 \/ g_fixed c = true) ->
  expand_noop L_F din dout = true -> expand_noop L_NOSTAT din dout = true -> fs <> 4 ->
  calc_run (kriging c gout) (init_st din dout false) fs fk = (false, s') ->
  db_eq (s_in s') din /\ db_eq (s_out s') dout.
Proof. intros c gout din dout fs fk s' Hi Ho Hd Hs HF HN. apply atomic_generic; try assumption. apply wf_kriging; assumption. Qed.
Print Assumptions C19_CalcKriging_atomic.

Theorem C19_CalcMigrate_atomic : forall (c : cfg) din dout fs fk s',
  Inv din -> Inv dout -> fs <> 4 ->
  calc_run (migrate c) (init_st din dout false) fs fk = (false, s') -> db_eq (s_in s') din /\ db_eq (s_out s') dout.
Proof. intros c din dout fs fk s' Hi Ho. apply atomic_generic; try assumption. apply wf_migrate. Qed.
Print Assumptions C19_CalcMigrate_atomic.

Theorem C19_CalcStatistics_atomic : forall (c : cfg) gout din dout fs fk s',
  Inv din -> Inv dout -> fs <> 4 ->
  calc_run (stats c gout) (init_st din dout false) fs fk = (false, s') -> db_eq (s_in s') din /\ db_eq (s_out s') dout.
Proof. intros c gout din dout fs fk s' Hi Ho. apply atomic_generic; try assumption. apply wf_stats. Qed.
Print Assumptions C19_CalcStatistics_atomic.

Theorem C19_CalcSimpleInterpolation_atomic : forall (c : cfg) din dout fs fk s',
  Inv din -> Inv dout -> expand_noop L_F din dout = true -> expand_noop L_NOSTAT din dout = true -> fs <> 4 ->
  calc_run (simpleint c) (init_st din dout false) fs fk = (false, s') -> db_eq (s_in s') din /\ db_eq (s_out s') dout.
Proof. intros c din dout fs fk s' Hi Ho HF HN. apply atomic_generic; try assumption. apply wf_simpleint; assumption. Qed.
Print Assumptions C19_CalcSimpleInterpolation_atomic.

Theorem C19_CalcGridToGrid_atomic : forall (c : cfg) din dout fs fk s',
  Inv din -> Inv dout -> (g_mode c <> 1 \/ g_fixed c = true) -> fs <> 4 ->
  calc_run (g2g c) (init_st din dout false) fs fk = (false, s') -> db_eq (s_in s') din /\ db_eq (s_out s') dout.
Proof. intros c din dout fs fk s' Hi Ho Hm. apply atomic_generic; try assumption. apply wf_g2g; assumption. Qed.
Print Assumptions C19_CalcGridToGrid_atomic.

Theorem C19_CalcImage_atomic : forall (c : cfg) opkey din dout fs fk s',
  Inv din -> Inv dout -> expand_noop L_F din dout = true -> expand_noop L_NOSTAT din dout = true -> fs <> 4 ->
  calc_run (image c opkey) (init_st din dout false) fs fk = (false, s') -> db_eq (s_in s') din /\ db_eq (s_out s') dout.
Proof. intros c opkey din dout fs fk s' Hi Ho HF HN. apply atomic_generic; try assumption. apply wf_image; assumption. Qed.
Print Assumptions C19_CalcImage_atomic.

Theorem C19_CalcGlobal_atomic : forall (c : cfg) gout din dout fs fk s',
  Inv din -> Inv dout -> expand_noop L_F din dout = true -> expand_noop L_NOSTAT din dout = true -> fs <> 4 ->
  calc_run (global c gout) (init_st din dout false) fs fk = (false, s') -> db_eq (s_in s') din /\ db_eq (s_out s') dout.
Proof. intros c gout din dout fs fk s' Hi Ho HF HN. apply atomic_generic; try assumption. apply wf_global; assumption. Qed.
Print Assumptions C19_CalcGlobal_atomic.

(* ---------------------------------------------------------------------------------------------
   Generic success.  For ANY calculator description satisfying [wf_success] (registered additions without locator,
   needless expansions; the numerical body; _postprocess = cleaning of the temporary variables + naming of variables
   designated through slots assigned by the registered additions of the SAME Db), a completed run leaves every
   original column in place with its uid, name and content, adds exactly the permanently registered variables,
   leaves no temporary variable, and changes no locator type other than the one of the naming convention. *)
Theorem C19_success : forall (c : calc) (din dout : db) (fk : nat) (s' : st),
  Inv din -> Inv dout -> wf_success c din dout = true ->
  calc_run c (init_st din dout false) 0 fk = (true, s') ->
  success_spec (k_nc c) din dout s'.
Proof. exact success_generic. Qed.
Print Assumptions C19_success.

Theorem C19_CalcKriging_success : forall (c : cfg) (gout : bool) din dout fk s',
  Inv din -> Inv dout -> g_dgm c = false ->
  expand_noop L_F din dout = true -> expand_noop L_NOSTAT din dout = true ->
  calc_run (kriging c gout) (init_st din dout false) 0 fk = (true, s') ->
  success_spec (g_nc c) din dout s'.
Proof. intros c gout din dout fk s' Hi Ho Hd HF HN. apply (success_generic (kriging c gout)); try assumption. apply wf_success_kriging; assumption. Qed.
Print Assumptions C19_CalcKriging_success.

Theorem C19_CalcMigrate_success : forall (c : cfg) din dout fk s',
  Inv din -> Inv dout -> g_locate c = false ->
  calc_run (migrate c) (init_st din dout false) 0 fk = (true, s') -> success_spec (g_nc c) din dout s'.
Proof. intros c din dout fk s' Hi Ho Hl. apply (success_generic (migrate c)); try assumption. apply wf_success_migrate; assumption. Qed.
Print Assumptions C19_CalcMigrate_success.

Theorem C19_CalcStatistics_success : forall (c : cfg) gout din dout fk s',
  Inv din -> Inv dout ->
  calc_run (stats c gout) (init_st din dout false) 0 fk = (true, s') -> success_spec (g_nc c) din dout s'.
Proof. intros c gout din dout fk s' Hi Ho. apply (success_generic (stats c gout)); try assumption. apply wf_success_stats. Qed.
Print Assumptions C19_CalcStatistics_success.

Theorem C19_CalcSimpleInterpolation_success : forall (c : cfg) din dout fk s',
  Inv din -> Inv dout -> expand_noop L_F din dout = true -> expand_noop L_NOSTAT din dout = true ->
  calc_run (simpleint c) (init_st din dout false) 0 fk = (true, s') -> success_spec (g_nc c) din dout s'.
Proof. intros c din dout fk s' Hi Ho HF HN. apply (success_generic (simpleint c)); try assumption. apply wf_success_simpleint; assumption. Qed.
Print Assumptions C19_CalcSimpleInterpolation_success.

Theorem C19_CalcGridToGrid_success : forall (c : cfg) din dout fk s',
  Inv din -> Inv dout ->
  calc_run (g2g c) (init_st din dout false) 0 fk = (true, s') -> success_spec (g_nc c) din dout s'.
Proof. intros c din dout fk s' Hi Ho. apply (success_generic (g2g c)); try assumption. apply wf_success_g2g. Qed.
Print Assumptions C19_CalcGridToGrid_success.

(* --------------------------------------------------------------------------------------------- refutations
   The faithful model falsifies atomicity for these option combinations; each witness is replayed on
   the real library by checks/C19.py. *)
Ltac refute_out := intros [H _]; vm_compute in H; discriminate.

(* krigtest: the outputs are registered as temporary, CalcKriging::_rollback cleans the permanent list only *)
Theorem C19_CalcKriging_single_target_refuted : exists din dout fs fk s',
  Inv din /\ Inv dout /\ calc_run (kriging cfg_krigtest true) (init_st din dout false) fs fk = (false, s') /\
  ~ db_eq (s_out s') dout.
Proof.
  exists w_din, w_dout, 3, 0%nat. eexists.
  split; [apply invb_sound; vm_compute; reflexivity|]. split; [apply invb_sound; vm_compute; reflexivity|].
  split; [vm_compute; reflexivity | refute_out].
Qed.
Print Assumptions C19_CalcKriging_single_target_refuted.

(* ... and after a SUCCESSFUL krigtest the Z locator of dbout designates a deleted column *)
Theorem C19_CalcKriging_single_target_success_refuted : exists din dout s' u,
  Inv din /\ Inv dout /\ calc_run (kriging cfg_krigtest true) (init_st din dout false) 0 0%nat = (true, s') /\
  In u (getloc (d_locs (s_out s')) L_Z) /\ has_col (s_out s') u = false /\ getloc (d_locs dout) L_Z = [4].
Proof.
  exists w_din, w_dout. eexists. exists 5.
  split; [apply invb_sound; vm_compute; reflexivity|]. split; [apply invb_sound; vm_compute; reflexivity|].
  split; [vm_compute; reflexivity|]. split; [vm_compute; left; reflexivity|]. split; vm_compute; reflexivity.
Qed.
Print Assumptions C19_CalcKriging_single_target_success_refuted.

(* DGM: _preprocess moves the X locators of dbin to temporary centred copies; only _postprocess restores them *)
Theorem C19_CalcKriging_dgm_refuted : exists din dout fs fk s',
  Inv din /\ Inv dout /\ calc_run (kriging cfg_dgm true) (init_st din dout false) fs fk = (false, s') /\
  ~ db_eq (s_in s') din /\ getloc (d_locs (s_in s')) L_X <> getloc (d_locs din) L_X.
Proof.
  exists w_din, w_dout, 3, 0%nat. eexists.
  split; [apply invb_sound; vm_compute; reflexivity|]. split; [apply invb_sound; vm_compute; reflexivity|].
  split; [vm_compute; reflexivity|]. split; [refute_out | vm_compute; discriminate].
Qed.
Print Assumptions C19_CalcKriging_dgm_refuted.

(* CalcAnamTransform::_preprocess adds its variables with Db::addColumnsByConstant: never registered *)
Theorem C19_CalcAnamTransform_refuted : exists din fs fk s',
  Inv din /\ calc_run (anam cfg_anam []) (init_st din din true) fs fk = (false, s') /\ ~ db_eq (s_in s') din.
Proof.
  exists w_din, 3, 0%nat. eexists.
  split; [apply invb_sound; vm_compute; reflexivity|].
  split; [vm_compute; reflexivity | refute_out].
Qed.
Print Assumptions C19_CalcAnamTransform_refuted.

(* conditional turning bands: the simulations at the data points are temporary variables of dbin *)
Theorem C19_CalcSimuTurningBands_refuted : exists din dout fs fk s',
  Inv din /\ Inv dout /\ calc_run (simtub cfg_simtub true) (init_st din dout false) fs fk = (false, s') /\
  ~ db_eq (s_in s') din.
Proof.
  exists w_din, w_dout, 3, 0%nat. eexists.
  split; [apply invb_sound; vm_compute; reflexivity|]. split; [apply invb_sound; vm_compute; reflexivity|].
  split; [vm_compute; reflexivity | refute_out].
Qed.
Print Assumptions C19_CalcSimuTurningBands_refuted.

(* dbg2gShrink: auxiliary temporary variable in dbout *)
Theorem C19_CalcGridToGrid_shrink_refuted : exists din dout fs fk s',
  Inv din /\ Inv dout /\ calc_run (g2g cfg_shrink) (init_st din dout false) fs fk = (false, s') /\ ~ db_eq (s_out s') dout.
Proof.
  exists w_dout, w_dout, 3, 0%nat. eexists.
  split; [apply invb_sound; vm_compute; reflexivity|]. split; [apply invb_sound; vm_compute; reflexivity|].
  split; [vm_compute; reflexivity | refute_out].
Qed.
Print Assumptions C19_CalcGridToGrid_shrink_refuted.

(* external drift known on the output grid only: ACalcInterpolator::_preprocess migrates it into dbin
   (nested CalcMigrate, never registered, never removed): dbin is changed after a SUCCESS as well as after a failure *)
Theorem C19_CalcKriging_external_drift_refuted : exists din dout s1 s2,
  Inv din /\ Inv dout /\
  calc_run (kriging cfg_extdrift true) (init_st din dout false) 0 0%nat = (true, s1) /\ ~ db_eq (s_in s1) din /\
  calc_run (kriging cfg_extdrift true) (init_st din dout false) 3 0%nat = (false, s2) /\ ~ db_eq (s_in s2) din.
Proof.
  exists w_din, w_dout_f. eexists. eexists.
  split; [apply invb_sound; vm_compute; reflexivity|]. split; [apply invb_sound; vm_compute; reflexivity|].
  split; [vm_compute; reflexivity|]. split; [refute_out|]. split; [vm_compute; reflexivity | refute_out].
Qed.
Print Assumptions C19_CalcKriging_external_drift_refuted.

(* a failure arriving after _postprocess (only reachable by injection or by an exception): the naming
   convention has already cleared the Z locators of dbout *)
Theorem C19_failure_after_postprocess_refuted : exists din dout fk s',
  Inv din /\ Inv dout /\ wf_atomic (kriging cfg_kriging true) din dout = true /\
  calc_run (kriging cfg_kriging true) (init_st din dout false) 4 fk = (false, s') /\
  d_cols (s_out s') = d_cols dout /\ getloc (d_locs (s_out s')) L_Z <> getloc (d_locs dout) L_Z.
Proof.
  exists w_din, w_dout, 100%nat. eexists.
  split; [apply invb_sound; vm_compute; reflexivity|]. split; [apply invb_sound; vm_compute; reflexivity|].
  split; [vm_compute; reflexivity|]. split; [vm_compute; reflexivity|]. split; [vm_compute; reflexivity | vm_compute; discriminate].
Qed.
Print Assumptions C19_failure_after_postprocess_refuted.

(* --------------------------------------------------------------------------------------------- candidate fixes
   With the roll-back of fixes/C19_1.patch (clean both lists, restore the coordinate locators) the witnesses above are restored *)
Example C19_fixed_rollback_on_witnesses :
  (let '(ok, s) := calc_run (kriging (with_fixed cfg_krigtest) true) (init_st w_din w_dout false) 3 0%nat in
   (ok, db_eqb (s_in s) w_din, db_eqb (s_out s) w_dout)) = (false, true, true) /\
  (let '(ok, s) := calc_run (kriging (with_fixed cfg_dgm) true) (init_st w_din w_dout false) 3 0%nat in
   (ok, db_eqb (s_in s) w_din, db_eqb (s_out s) w_dout)) = (false, true, true) /\
  (let '(ok, s) := calc_run (simtub (with_fixed cfg_simtub) true) (init_st w_din w_dout false) 3 0%nat in
   (ok, db_eqb (s_in s) w_din, db_eqb (s_out s) w_dout)) = (false, true, true).
Proof. vm_compute. repeat split; reflexivity. Qed.

(* --------------------------------------------------------------------------------------------- non-vacuity *)
(* hypotheses of C19_CalcKriging_atomic hold on a non-trivial state (uid hole, pre-existing Z variable in dbout),
   the run really fails after having created and written two variables, and the final state is the initial one *)
Example C19_nonvacuous :
  invb w_din = true /\ invb w_dout = true /\ wf_atomic (kriging cfg_kriging true) w_din w_dout = true /\
  wf_success (kriging cfg_kriging true) w_din w_dout = true /\
  expand_noop L_F w_din w_dout = true /\
  (let '(ok, s) := exec_ops nc_k (k_pre (kriging cfg_kriging true)) (init_st w_din w_dout false) None in
   (ok, map c_uid (d_cols (s_out s)), b_perm_out (s_book s))) = (true, [0; 1; 2; 4; 5; 6], [5; 6]) /\
  (let '(ok, s) := calc_run (kriging cfg_kriging true) (init_st w_din w_dout false) 3 1%nat in
   (ok, db_eqb (s_in s) w_din, db_eqb (s_out s) w_dout, d_nuid (s_out s))) = (false, true, true, 7) /\
  (let '(ok, s) := calc_run (kriging cfg_kriging true) (init_st w_din w_dout false) 0 0%nat in
   (ok, map c_name (d_cols (s_out s)))) =
     (true, w_names_after_kriging).
Proof. vm_compute. repeat split; reflexivity. Qed.

(* C19 — one Db given as input AND output (xvalid, CalcAnamTransform, CalcImage, in-place regression / statistics):
   the four lists of the calculator designate variables of the same Db. *)
From Coq Require Import List ZArith Bool Lia.
From Gst Require Import C19.Model C19.Calcs C19.Spec C19.Proofs.
Import ListNotations.
Local Open Scope Z_scope.

Lemma tracked_ext d0 d perm temp perm' temp' :
  tracked d0 d perm temp -> (forall u, In u perm <-> In u perm') -> (forall u, In u temp <-> In u temp') ->
  tracked d0 d perm' temp'.
Proof.
  intros [ex [Hc [Hx [Hdis [Hl [Hg [Hd [Hn Hr]]]]]]]] Hp Hq. exists ex.
  assert (Heq : forall u, In u (perm ++ temp) <-> In u (perm' ++ temp')) by (intro u; rewrite !in_app_iff, Hp, Hq; tauto).
  split; [exact Hc|]. split; [intro u; rewrite Hx; apply Heq|].
  split. { intros u H1 H2. apply Hp in H1. apply Hq in H2. exact (Hdis u H1 H2). }
  split; [exact Hl|]. split; [exact Hg|]. split; [exact Hd|]. split; [exact Hn|].
  intros u H. apply Hr. apply Heq. exact H.
Qed.

Lemma delete_columns_app d a b : delete_columns (delete_columns d a) b = delete_columns d (a ++ b).
Proof. unfold delete_columns. rewrite fold_left_app. reflexivity. Qed.

(* invariant of a run on ONE Db: the registered variables are those of the four lists *)
Definition Tracked1 (rb : list op) (d0 : db) (s : st) : Prop :=
  s_alias s = true /\
  tracked d0 (s_in s) (b_perm_in (s_book s) ++ b_perm_out (s_book s)) (b_temp_in (s_book s) ++ b_temp_out (s_book s)) /\
  book_ok rb (s_book s).

Section Alias.
Variable d0 : db.
Hypothesis HI : Inv d0.
Variable rb : list op.

Lemma Tracked1_init dout : Tracked1 rb d0 (init_st d0 dout true).
Proof. unfold Tracked1, init_st; simpl. split; [reflexivity|]. split; [apply tracked_init|]. split; intros _; split; reflexivity. Qed.

Lemma expand_noop_same1 t s : Tracked1 rb d0 s -> expand_noop t d0 d0 = true ->
  forall mode reg, expand_information mode t reg s = (true, s).
Proof.
  intros [Ha [[ex [_ [_ [_ [Hl [Hg [Hd _]]]]]]] _]] He mode reg.
  unfold expand_information, getdb. rewrite Ha.
  unfold expand_noop in He. unfold ndim, locnum in *. rewrite Hl, Hg, Hd.
  destruct (d_grid d0 && (t =? L_X)).
  - apply orb_true_iff in He as [He|He]; rewrite He; [reflexivity|]. destruct (_ <=? 0); reflexivity.
  - apply orb_true_iff in He as [He|He]; rewrite He; [reflexivity|]. destruct (_ <=? 0); reflexivity.
Qed.

Lemma exec_op_safe1 nc o s ok s' :
  Tracked1 rb d0 s -> safe_op rb d0 d0 o = true -> exec_op nc o s = (ok, s') -> Tracked1 rb d0 s'.
Proof.
  intros T Hs He. destruct o; simpl in Hs; try discriminate.
  - (* OAdd *)
    apply andb_true_iff in Hs as [Ht Hcl]. apply Z.ltb_lt in Ht.
    simpl in He. unfold add_variable in He.
    destruct (add_columns (getdb w s) (n s) init [] t 0) as [d' u] eqn:Ea.
    destruct (u <? 0) eqn:Eu.
    { inversion He; subst. exact T. }
    apply Z.ltb_ge in Eu. inversion He; subst ok s'; clear He.
    destruct T as [Ha [Ti [Hb1 Hb2]]].
    rewrite cleans_status in Hcl.
    assert (Ea' : add_columns (s_in s) (n s) init [] t 0 = (d', u)).
    { destruct w; unfold getdb in Ea; [exact Ea | rewrite Ha in Ea; exact Ea]. }
    destruct (tracked_add d0 HI _ _ _ _ _ _ _ _ _ _ (is_perm status) Ti Ht Ea' Eu) as [_ [_ T2]].
    destruct s as [si so al bk sl]. simpl in *. subst al.
    unfold Tracked1, setdb, with_book, store_in_list, is_perm, set_slot in *.
    destruct w, (status =? 1) eqn:Es; simpl; (split; [reflexivity|]);
      (split; [eapply tracked_ext; [exact T2 | |]; intro x; rewrite !in_app_iff; tauto|]);
      split; intro Hc; try congruence; first [apply Hb1 in Hc; destruct Hc as [-> ->]; split; reflexivity
                                            | apply Hb2 in Hc; destruct Hc as [-> ->]; split; reflexivity
                                            | apply Hb1 in Hc; tauto | apply Hb2 in Hc; tauto].
  - (* OClean *)
    simpl in He. inversion He; subst ok s'; clear He.
    destruct T as [Ha [Ti [Hb1 Hb2]]].
    destruct s as [si so al bk sl]. simpl in *. subst al.
    unfold clean_variables, getdb, setdb, with_book, Tracked1. simpl.
    destruct (status =? 1); simpl; rewrite delete_columns_app.
    + split; [reflexivity|]. split; [apply (tracked_clean_perm d0 HI); exact Ti|].
      split; intro Hc; [tauto | apply Hb2; exact Hc].
    + split; [reflexivity|]. split; [apply (tracked_clean_temp d0 HI); exact Ti|].
      split; intro Hc; [apply Hb1; exact Hc | tauto].
  - (* OExpand *)
    simpl in He. rewrite (expand_noop_same1 _ _ T Hs) in He. inversion He; subst; exact T.
  - (* OBody *)
    simpl in He. inversion He; subst ok s'; clear He.
    destruct T as [Ha [Ti [Hb1 Hb2]]].
    destruct s as [si so al bk sl]. simpl in *. subst al.
    unfold all_registered, getdb, setdb, Tracked1. simpl.
    split; [reflexivity|]. split; [|split; assumption].
    assert (Hfresh : forall l u, (forall x, In x l -> In x ((b_perm_in bk ++ b_perm_out bk) ++ b_temp_in bk ++ b_temp_out bk)) -> In u l -> d_nuid d0 <= u).
    { intros l u Hl Hu. destruct Ti as [ex [_ [_ [_ [_ [_ [_ [_ Hr]]]]]]]]. apply Hl in Hu. apply Hr in Hu. lia. }
    apply (tracked_write d0 HI).
    + apply (tracked_write d0 HI); [exact Ti|]. intros u Hu. eapply Hfresh; [|exact Hu]. intro x. rewrite !in_app_iff. tauto.
    + intros u Hu. eapply Hfresh; [|exact Hu]. intro x. rewrite !in_app_iff. tauto.
Qed.

Lemma exec_ops_safe1 nc ops : forall s b ok s',
  Tracked1 rb d0 s -> forallb (safe_op rb d0 d0) ops = true -> exec_ops nc ops s b = (ok, s') -> Tracked1 rb d0 s'.
Proof.
  induction ops as [|o r IH]; intros s b ok s' T Hs He; simpl in He.
  - inversion He; subst; exact T.
  - simpl in Hs. apply andb_true_iff in Hs as [Ho Hr].
    destruct b as [[|k]|].
    + inversion He; subst; exact T.
    + destruct (exec_op nc o s) as [ok1 s1] eqn:E1. pose proof (exec_op_safe1 _ _ _ _ _ T Ho E1) as T1.
      destruct ok1; [exact (IH _ _ _ _ T1 Hr He) | inversion He; subst; exact T1].
    + destruct (exec_op nc o s) as [ok1 s1] eqn:E1. pose proof (exec_op_safe1 _ _ _ _ _ T Ho E1) as T1.
      destruct ok1; [exact (IH _ _ _ _ T1 Hr He) | inversion He; subst; exact T1].
Qed.

Lemma exec_quiet_clean1 nc ops : forall s (p t : bool),
  Tracked1 rb d0 s -> forallb only_clean ops = true -> lists_empty p t (s_book s) ->
  let s' := exec_quiet nc ops s in
  Tracked1 rb d0 s' /\ lists_empty (p || cleans ops 1) (t || cleans ops 2) (s_book s').
Proof.
  induction ops as [|o r IH]; intros s p t T Hc Hl; simpl.
  - unfold cleans; simpl. rewrite !orb_false_r. split; assumption.
  - simpl in Hc. apply andb_true_iff in Hc as [Ho Hr]. destruct o; simpl in Ho; try discriminate.
    assert (T1 : Tracked1 rb d0 (clean_variables status s)).
    { apply (exec_op_safe1 nc (OClean status) s true); [exact T | reflexivity | reflexivity]. }
    assert (Hl1 : lists_empty (p || is_perm status) (t || negb (is_perm status)) (s_book (clean_variables status s))).
    { destruct T as [Ha _]. destruct Hl as [Hp Ht]. destruct s as [si so al bk sl]. simpl in *. subst al.
      unfold clean_variables, is_perm, setdb, getdb, with_book. simpl.
      destruct (status =? 1); simpl; split; intro H; rewrite ?orb_true_r, ?orb_false_r in H; try (split; reflexivity).
      - apply Ht; exact H.
      - apply Hp; exact H. }
    destruct (IH _ _ _ T1 Hr Hl1) as [T2 Hl2]. split; [exact T2|].
    unfold cleans in *. simpl. unfold is_perm at 1 3. simpl.
    replace (Bool.eqb (status =? 1) true) with (is_perm status) by (unfold is_perm; destruct (status =? 1); reflexivity).
    replace (Bool.eqb (status =? 1) false) with (negb (is_perm status)) by (unfold is_perm; destruct (status =? 1); reflexivity).
    rewrite !orb_assoc. exact Hl2.
Qed.

Lemma rollback_restores1 nc s :
  Tracked1 rb d0 s -> forallb only_clean rb = true ->
  db_eq (s_in (exec_quiet nc rb s)) d0 /\ Inv (s_in (exec_quiet nc rb s)).
Proof.
  intros T Hc.
  destruct (exec_quiet_clean1 nc rb s false false T Hc) as [[Ha [Ti [Hb1 Hb2]]] [Hp Ht]].
  { split; intro H; discriminate. }
  simpl in Hp, Ht.
  assert (b_perm_in (s_book (exec_quiet nc rb s)) = [] /\ b_perm_out (s_book (exec_quiet nc rb s)) = []) as [P1 P2].
  { destruct (cleans rb 1) eqn:E; [apply Hp; reflexivity | apply Hb1; reflexivity]. }
  assert (b_temp_in (s_book (exec_quiet nc rb s)) = [] /\ b_temp_out (s_book (exec_quiet nc rb s)) = []) as [Q1 Q2].
  { destruct (cleans rb 2) eqn:E; [apply Ht; reflexivity | apply Hb2; reflexivity]. }
  rewrite P1, P2, Q1, Q2 in Ti. simpl in Ti.
  split; [apply tracked_done | apply (tracked_done_inv d0)]; assumption.
Qed.

End Alias.

(* atomicity when dbin and dbout are the same Db *)
Theorem atomic_alias (c : calc) (d dout : db) (fs : Z) (fk : nat) (s' : st) :
  Inv d -> wf_atomic c d d = true -> fs <> 4 ->
  calc_run c (init_st d dout true) fs fk = (false, s') ->
  db_eq (s_in s') d /\ Inv (s_in s').
Proof.
  intros HI Hwf Hfs Hrun.
  unfold wf_atomic in Hwf. apply andb_true_iff in Hwf as [Hwf Hrb]. apply andb_true_iff in Hwf as [Hwf Hpost].
  apply andb_true_iff in Hwf as [Hwf Hbody]. apply andb_true_iff in Hwf as [Hini Hpre].
  assert (k_init c = []) as Hk by (destruct (k_init c); [reflexivity | discriminate]).
  pose proof (Tracked1_init d (k_rollback c) dout) as T0.
  unfold calc_run in Hrun. rewrite Hk in Hrun. cbn [exec_quiet] in Hrun.
  set (RB := fun s => rollback_restores1 d HI (k_rollback c) (k_nc c) s) in *.
  destruct (negb (k_check c (init_st d dout true))).
  { inversion Hrun; subst. apply RB; assumption. }
  destruct (fs =? 1).
  { inversion Hrun; subst. apply RB; assumption. }
  destruct (exec_ops (k_nc c) (k_pre c) (init_st d dout true) (budget_of fs 2 fk)) as [ok1 s1] eqn:E1.
  pose proof (exec_ops_safe1 d HI _ _ _ _ _ _ _ T0 Hpre E1) as T1.
  destruct ok1; simpl in Hrun; [|inversion Hrun; subst; apply RB; assumption].
  destruct (exec_ops (k_nc c) (k_run c) s1 (budget_of fs 3 fk)) as [ok2 s2] eqn:E2.
  pose proof (exec_ops_safe1 d HI _ _ _ _ _ _ _ T1 Hbody E2) as T2.
  destruct ok2; simpl in Hrun; [|inversion Hrun; subst; apply RB; assumption].
  destruct (exec_ops (k_nc c) (k_post c) s2 (budget_of fs 4 fk)) as [ok3 s3] eqn:E3.
  assert (ok3 = true) as ->.
  { unfold budget_of in E3. destruct (fs =? 4) eqn:E4; [apply Z.eqb_eq in E4; contradiction|].
    pose proof (exec_ops_cannot_fail (k_nc c) (k_post c) s2 Hpost) as H. rewrite E3 in H. exact H. }
  simpl in Hrun. discriminate.
Qed.

(* ------------------------------------------------------------------ success on one Db *)
From Gst Require Import C19.ProofsSuccess.

Definition Post1 (T : Z) (pre : list op) (d0 : db) (s : st) : Prop :=
  s_alias s = true /\
  tracked2 T d0 (s_in s) (b_perm_in (s_book s) ++ b_perm_out (s_book s)) (b_temp_in (s_book s) ++ b_temp_out (s_book s)) /\
  SlotInv pre d0 d0 s.

Section Success1.
Variable d0 : db.
Hypothesis HI : Inv d0.
Variable pre : list op.

Lemma d0_of_same w : d0_of d0 d0 w = d0.
Proof. destruct w; reflexivity. Qed.

Lemma slots_ws w d (s : st) b : s_slots (with_book (setdb w d s) b) = s_slots s.
Proof. destruct w; unfold with_book, setdb; simpl; [reflexivity | destruct (s_alias s); reflexivity]. Qed.
Lemma get_slot_ws w d (s : st) b i : get_slot (with_book (setdb w d s) b) i = get_slot s i.
Proof. unfold get_slot. rewrite slots_ws. reflexivity. Qed.

Lemma pre_op1 nc o s ok s' :
  Tracked1 rb_all d0 s -> SlotInv pre d0 d0 s -> In o pre -> safe_pre_s d0 d0 o = true ->
  exec_op nc o s = (ok, s') -> Tracked1 rb_all d0 s' /\ SlotInv pre d0 d0 s'.
Proof.
  intros Tr SI Hin Hs He.
  split; [exact (exec_op_safe1 d0 HI rb_all nc o s ok s' Tr (safe_pre_s_safe _ _ _ Hs) He)|].
  destruct o; simpl in Hs; try discriminate.
  - simpl in He. unfold add_variable in He.
    destruct (add_columns (getdb w s) (n s) init [] t 0) as [d' u] eqn:Ea.
    apply Z.ltb_lt in Hs.
    destruct (u <? 0) eqn:Eu.
    + inversion He; subst ok s'. intro i. rewrite get_set_slot.
      destruct (Nat.eqb i slot && Nat.ltb slot (length (s_slots s))); [left; lia | apply SI].
    + apply Z.ltb_ge in Eu. inversion He; subst ok s'; clear He. intro i. rewrite get_set_slot.
      destruct Tr as [Ha [Ti _]].
      assert (Ea' : add_columns (s_in s) (n s) init [] t 0 = (d', u)).
      { destruct w; unfold getdb in Ea; [exact Ea | rewrite Ha in Ea; exact Ea]. }
      destruct (tracked_add d0 HI _ _ _ _ _ _ _ _ _ _ true Ti Hs Ea' Eu) as [Hu _].
      rewrite slots_ws.
      destruct (Nat.eqb i slot && Nat.ltb slot (length (s_slots s))) eqn:E.
      * right. intros w' _. rewrite d0_of_same. subst u. apply (tracked_nuid _ _ _ _ Ti).
      * rewrite get_slot_ws. apply SI.
  - simpl in He. rewrite (expand_noop_same1 d0 rb_all t s Tr Hs) in He. inversion He; subst. exact SI.
Qed.

Lemma pre_ops1 nc ops : forall s ok s',
  Tracked1 rb_all d0 s -> SlotInv pre d0 d0 s -> incl ops pre -> forallb (safe_pre_s d0 d0) ops = true ->
  exec_ops nc ops s None = (ok, s') -> Tracked1 rb_all d0 s' /\ SlotInv pre d0 d0 s'.
Proof.
  induction ops as [|o r IH]; intros s ok s' Tr SI Hincl Hs He; simpl in He.
  - inversion He; subst. split; assumption.
  - simpl in Hs. apply andb_true_iff in Hs as [Ho Hr].
    destruct (exec_op nc o s) as [ok1 s1] eqn:E1.
    destruct (pre_op1 nc o s ok1 s1 Tr SI (Hincl o (or_introl eq_refl)) Ho E1) as [Tr1 SI1].
    destruct ok1.
    + apply (IH s1 ok s' Tr1 SI1); [intros x Hx; apply Hincl; right; exact Hx | exact Hr | exact He].
    + inversion He; subst. split; assumption.
Qed.

Lemma body_ops1 nc ops : forall s ok s',
  Tracked1 rb_all d0 s -> SlotInv pre d0 d0 s -> forallb only_body ops = true ->
  exec_ops nc ops s None = (ok, s') -> Tracked1 rb_all d0 s' /\ SlotInv pre d0 d0 s'.
Proof.
  induction ops as [|o r IH]; intros s ok s' Tr SI Hs He; simpl in He.
  - inversion He; subst. split; assumption.
  - simpl in Hs. apply andb_true_iff in Hs as [Ho Hr]. destruct o; simpl in Ho; try discriminate.
    destruct (exec_op nc (OBody tag) s) as [ok1 s1] eqn:E1.
    assert (Tr1 : Tracked1 rb_all d0 s1) by (apply (exec_op_safe1 d0 HI rb_all nc (OBody tag) s ok1 s1 Tr eq_refl E1)).
    assert (SI1 : SlotInv pre d0 d0 s1).
    { simpl in E1. inversion E1; subst ok1 s1. intro i.
      replace (get_slot _ i) with (get_slot s i); [apply SI|].
      unfold get_slot, setdb. destruct (s_alias s); reflexivity. }
    destruct ok1; [apply (IH s1 ok s' Tr1 SI1 Hr He) | inversion He; subst; split; assumption].
Qed.

Lemma post_op1 nc o s ok s' :
  Post1 (nc_target nc) pre d0 s -> safe_post_s pre o = true -> exec_op nc o s = (ok, s') ->
  ok = true /\ Post1 (nc_target nc) pre d0 s' /\
  (match o with OClean st => if is_perm st then True else b_temp_in (s_book s') = [] /\ b_temp_out (s_book s') = [] | _ => True end) /\
  (b_temp_in (s_book s) = [] /\ b_temp_out (s_book s) = [] -> b_temp_in (s_book s') = [] /\ b_temp_out (s_book s') = []).
Proof.
  intros [Ha [Ti SI]] Hs He. destruct o; simpl in Hs; try discriminate.
  - simpl in He. inversion He; subst ok s'; clear He. split; [reflexivity|].
    destruct s as [si so al bk sl]. simpl in *. subst al.
    unfold clean_variables, getdb, setdb, with_book, is_perm, Post1. simpl.
    destruct (status =? 1); simpl; rewrite delete_columns_app.
    + split; [|split; [exact I | tauto]].
      split; [reflexivity|]. split; [apply (t2_clean_perm d0 HI); exact Ti|]. intro i. apply SI.
    + split; [|split; [split; reflexivity | intros _; split; reflexivity]].
      split; [reflexivity|]. split; [apply (t2_clean_temp d0 HI); exact Ti|]. intro i. apply SI.
  - apply andb_true_iff in Hs as [Hok Hoff]. apply Z.leb_le in Hoff.
    simpl in He. inversion He; subst ok s'; clear He. split; [reflexivity|].
    assert (Hst : (if get_slot s slot <? 0 then -1 else get_slot s slot + off) < 0 \/
                  d_nuid d0 <= (if get_slot s slot <? 0 then -1 else get_slot s slot + off)).
    { destruct (get_slot s slot <? 0) eqn:E; [left; lia|]. apply Z.ltb_ge in E.
      destruct (SI slot) as [H|H]; [lia|]. right. specialize (H w Hok). rewrite d0_of_same in H. lia. }
    destruct s as [si so al bk sl]. simpl in *. subst al.
    unfold rename_variable, getdb, setdb. simpl.
    destruct w; simpl; (split; [|split; [exact I | tauto]]); unfold Post1; simpl;
      (split; [reflexivity|]); (split; [apply t2_names_and_locators; assumption|]); intro i; apply SI.
Qed.

Lemma post_ops1 nc ops : forall s ok s',
  Post1 (nc_target nc) pre d0 s -> forallb (safe_post_s pre) ops = true ->
  exec_ops nc ops s None = (ok, s') ->
  ok = true /\ Post1 (nc_target nc) pre d0 s' /\
  ((b_temp_in (s_book s) = [] /\ b_temp_out (s_book s) = []) \/ cleans ops 2 = true ->
   b_temp_in (s_book s') = [] /\ b_temp_out (s_book s') = []).
Proof.
  induction ops as [|o r IH]; intros s ok s' P Hs He; simpl in He.
  - inversion He; subst. split; [reflexivity|]. split; [exact P|]. intros [H|H]; [exact H | discriminate].
  - simpl in Hs. apply andb_true_iff in Hs as [Ho Hr].
    destruct (exec_op nc o s) as [ok1 s1] eqn:E1.
    destruct (post_op1 nc o s ok1 s1 P Ho E1) as [Hok [P1 [Hcl Hkeep]]]. subst ok1.
    destruct (IH s1 ok s' P1 Hr He) as [Hok' [P' Ht]].
    split; [exact Hok'|]. split; [exact P'|].
    intros [H|H].
    + apply Ht. left. apply Hkeep. exact H.
    + unfold cleans in H. simpl in H. apply orb_true_iff in H as [H|H].
      * destruct o; try discriminate. unfold is_perm in *. simpl in H.
        destruct (status =? 1) eqn:E; simpl in H; [discriminate|].
        apply Ht. left. exact Hcl.
      * apply Ht. right. exact H.
Qed.

End Success1.

(* after a success on one Db: the original columns, followed by exactly the permanently registered variables;
   no temporary variable; every locator type other than the one of the naming convention as before *)
Definition success_spec1 (nc : namconv) (d : db) (s' : st) : Prop :=
  (exists ex, d_cols (s_in s') = d_cols d ++ ex /\
              forall u, In u (map c_uid ex) <-> In u (b_perm_in (s_book s') ++ b_perm_out (s_book s'))) /\
  b_temp_in (s_book s') = [] /\ b_temp_out (s_book s') = [] /\
  (forall t, t <> nc_target nc -> getloc (d_locs (s_in s')) t = getloc (d_locs d) t).

Theorem success_alias (c : calc) (d dout : db) (fk : nat) (s' : st) :
  Inv d -> wf_success c d d = true ->
  calc_run c (init_st d dout true) 0 fk = (true, s') ->
  success_spec1 (k_nc c) d s'.
Proof.
  intros HI Hwf Hrun.
  unfold wf_success in Hwf. apply andb_true_iff in Hwf as [Hwf Hcl]. apply andb_true_iff in Hwf as [Hwf Hpost].
  apply andb_true_iff in Hwf as [Hwf Hbody]. apply andb_true_iff in Hwf as [Hini Hpre].
  assert (k_init c = []) as Hk by (destruct (k_init c); [reflexivity | discriminate]).
  unfold calc_run in Hrun. rewrite Hk in Hrun. cbn [exec_quiet] in Hrun.
  change (budget_of 0 2 fk) with (@None nat) in Hrun. change (budget_of 0 3 fk) with (@None nat) in Hrun.
  change (budget_of 0 4 fk) with (@None nat) in Hrun. change (0 =? 1) with false in Hrun.
  destruct (negb (k_check c (init_st d dout true))); [discriminate|].
  destruct (exec_ops (k_nc c) (k_pre c) (init_st d dout true) None) as [ok1 s1] eqn:E1.
  assert (SI0 : SlotInv (k_pre c) d d (init_st d dout true)).
  { intro i. left. unfold get_slot, init_st; simpl.
    do 8 (destruct i as [|i]; [simpl; lia|]). destruct i; simpl; lia. }
  destruct (pre_ops1 d HI (k_pre c) (k_nc c) (k_pre c) _ _ _ (Tracked1_init d rb_all dout) SI0 (incl_refl _) Hpre E1) as [Tr1 SI1].
  destruct ok1; simpl in Hrun; [|discriminate].
  destruct (exec_ops (k_nc c) (k_run c) s1 None) as [ok2 s2] eqn:E2.
  destruct (body_ops1 d HI (k_pre c) (k_nc c) (k_run c) _ _ _ Tr1 SI1 Hbody E2) as [Tr2 SI2].
  destruct ok2; simpl in Hrun; [|discriminate].
  destruct (exec_ops (k_nc c) (k_post c) s2 None) as [ok3 s3] eqn:E3.
  assert (P2 : Post1 (nc_target (k_nc c)) (k_pre c) d s2).
  { destruct Tr2 as [Ha [Ti _]]. split; [exact Ha|]. split; [apply tracked_tracked2; exact Ti | exact SI2]. }
  destruct (post_ops1 d HI (k_pre c) (k_nc c) (k_post c) _ _ _ P2 Hpost E3) as [Hok [P3 Ht]].
  subst ok3. simpl in Hrun. inversion Hrun; subst s'; clear Hrun.
  destruct (Ht (or_intror Hcl)) as [Ht1 Ht2].
  destruct P3 as [Ha [[ex [Hc [Hx [_ [Hl _]]]]] _]].
  unfold success_spec1. rewrite Ht1, Ht2 in Hx. simpl in Hx. rewrite app_nil_r in Hx.
  split; [exists ex; split; assumption|]. split; [exact Ht1|]. split; [exact Ht2 | exact Hl].
Qed.

(* C19 runner: decodes a case, runs the calculator model, encodes final state + spec verdicts. Executable only.
   case   = (id cfg alias fs fk dbin dbout aux)
   cfg    = (nc est std varz single dgm xvalid xv_est xv_std xv_varz neigh_only nbneigh matlc
             mnvar mndim nndim nfex extra_ok iuids locate loctype nbsimu mode n has_in rb2 ver)
   nc     = (prefix varname qualifier locator loctype delim clean)
   db     = (grid gdim nuid ((uid name (kind v)) ...) ((uid ...) x 29))   kind 0 Orig, 1 Cst, 2 Written
   result = (ok stage dbin' dbout' (perm_in perm_out temp_in temp_out) wf atomic_in atomic_out inv_in inv_out inv_in' inv_out' wf_success) *)
From Coq Require Import List ZArith Bool.
From Gst Require Import lib.Sx C19.Model C19.Calcs C19.Spec.
Import ListNotations.
Local Open Scope Z_scope.

Definition asStr (s : sx) : option str := asListOf asZ s.
Definition asContent (s : sx) : option content :=
  match s with
  | L [I 0; I k] => Some (Orig k)
  | L [I 1; I k] => Some (Cst k)
  | L [I 2; I k] => Some (Written k)
  | _ => None
  end.
Definition asCol (s : sx) : option column :=
  match s with
  | L [I u; n; v] => match asStr n, asContent v with Some n', Some v' => Some (mkcol u n' v') | _, _ => None end
  | _ => None
  end.
Definition asDb (s : sx) : option db :=
  match s with
  | L [g; I gd; I nu; cols; locs] =>
      match asB g, asListOf asCol cols, asListOf (asListOf asZ) locs with
      | Some g', Some c', Some l' => Some (mkdb c' nu l' g' gd)
      | _, _, _ => None
      end
  | _ => None
  end.
Definition asNc (s : sx) : option namconv :=
  match s with
  | L [p; a; b; c; I t; d; e] =>
      match asStr p, asB a, asB b, asB c, asStr d, asB e with
      | Some p', Some a', Some b', Some c', Some d', Some e' => Some (mknc p' a' b' c' t d' e')
      | _, _, _, _, _, _ => None
      end
  | _ => None
  end.
Definition zb (z : Z) : bool := negb (z =? 0).
Definition asCfg (s : sx) : option cfg :=
  match s with
  | L [nc; I est; I std; I varz; I single; I dgm; I xvalid; I xe; I xs; I xv; I no; I nbn; I matlc;
       I mnvar; I mndim; I nndim; I nfex; I extra; iu; I locate; I loctype; I nbsimu; I mode; I n; I has_in; I rb2; I ver] =>
      match asNc nc, asListOf asZ iu with
      | Some nc', Some iu' =>
          Some (mkcfg nc' (zb est) (zb std) (zb varz) single (zb dgm) (zb xvalid) xe xs xv (zb no) nbn matlc
                      mnvar mndim nndim nfex (zb extra) iu' (zb locate) loctype nbsimu mode n (zb has_in) (zb rb2) ver)
      | _, _ => None
      end
  | _ => None
  end.

Definition ofStr (s : str) : sx := L (map I s).
Definition ofContent (v : content) : sx :=
  match v with Orig k => L [I 0; I k] | Cst k => L [I 1; I k] | Written k => L [I 2; I k] end.
Definition ofCol (c : column) : sx := L [I (c_uid c); ofStr (c_name c); ofContent (c_val c)].
Definition ofDb (d : db) : sx :=
  L [ofB (d_grid d); I (d_gdim d); I (d_nuid d); ofList ofCol (d_cols d); ofList (ofList I) (d_locs d)].

Definition run (c : sx) : sx :=
  match c with
  | L [I id; cf; al; I fs; fk; di; do; aux] =>
      match asCfg cf, asB al, asNat fk, asDb di, asDb do, asListOf asStr aux with
      | Some cf', Some al', Some fk', Some di', Some do', Some aux' =>
          let k := instance id cf' (d_grid (if al' then di' else do')) aux' in
          let s0 := init_st di' do' al' in
          let '(ok, s1) := calc_run k s0 fs fk' in
          let b := s_book s1 in
          L [ofB ok; I (failing_stage k s0 fs fk'); ofDb (getdb WIn s1); ofDb (getdb WOut s1);
             L [ofList I (b_perm_in b); ofList I (b_perm_out b); ofList I (b_temp_in b); ofList I (b_temp_out b)];
             ofB (wf_atomic k di' (if al' then di' else do'));
             ofB (db_eqb (getdb WIn s1) di'); ofB (db_eqb (getdb WOut s1) (if al' then di' else do'));
             ofB (invb di'); ofB (invb do'); ofB (invb (getdb WIn s1)); ofB (invb (getdb WOut s1));
             ofB (wf_success k di' (if al' then di' else do'))]
      | _, _, _, _, _, _ => sx_error 1
      end
  | _ => sx_error 0
  end.

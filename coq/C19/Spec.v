(* C19 — declarative side: what "untouched" means, the well-formedness of a Db, and the decidable
   bookkeeping conditions under which a calculator is proved atomic. *)
From Coq Require Import List ZArith Bool.
From Gst Require Import C19.Model.
Import ListNotations.
Local Open Scope Z_scope.

(* Two Dbs are the same data base "up to the unused tail of the uid table": same columns in the same
   order with the same uid, name and content, same locator tables, same immutable attributes.
   Only Db::getUIDMaxNumber() may differ (Db::deleteColumnByUID never shrinks _uidcol). *)
Definition db_eq (a b : db) : Prop :=
  d_cols a = d_cols b /\ d_locs a = d_locs b /\ d_grid a = d_grid b /\ d_gdim a = d_gdim b.

Definition content_eqb (a b : content) : bool :=
  match a, b with
  | Orig x, Orig y => x =? y
  | Cst x, Cst y => x =? y
  | Written x, Written y => x =? y
  | _, _ => false
  end.
Definition col_eqb (a b : column) : bool :=
  (c_uid a =? c_uid b) && str_eqb (c_name a) (c_name b) && content_eqb (c_val a) (c_val b).
Fixpoint list_eqb {A} (e : A -> A -> bool) (a b : list A) : bool :=
  match a, b with
  | [], [] => true
  | x :: a', y :: b' => e x y && list_eqb e a' b'
  | _, _ => false
  end.
Definition db_eqb (a b : db) : bool :=
  list_eqb col_eqb (d_cols a) (d_cols b) && list_eqb (list_eqb Z.eqb) (d_locs a) (d_locs b) &&
  Bool.eqb (d_grid a) (d_grid b) && (d_gdim a =? d_gdim b).

(* Well-formed Db: distinct uids below the uid count, locator entries below the uid count
   (they may be stale: PtrGeos::resize pads with uid 0), distinct names, one list per locator type. *)
Definition Inv (d : db) : Prop :=
  NoDup (map c_uid (d_cols d)) /\
  (forall c, In c (d_cols d) -> 0 <= c_uid c < d_nuid d) /\
  (forall l u, In l (d_locs d) -> In u l -> 0 <= u < d_nuid d) /\
  NoDup (map c_name (d_cols d)) /\
  length (d_locs d) = NLOC /\
  0 <= d_nuid d.

Fixpoint nodupb {A} (e : A -> A -> bool) (l : list A) : bool :=
  match l with [] => true | x :: r => negb (existsb (e x) r) && nodupb e r end.
Definition invb (d : db) : bool :=
  nodupb Z.eqb (map c_uid (d_cols d)) &&
  forallb (fun c => (0 <=? c_uid c) && (c_uid c <? d_nuid d)) (d_cols d) &&
  forallb (forallb (fun u => (0 <=? u) && (u <? d_nuid d))) (d_locs d) &&
  nodupb str_eqb (map c_name (d_cols d)) &&
  Nat.eqb (length (d_locs d)) NLOC &&
  (0 <=? d_nuid d).

(* ---- decidable bookkeeping conditions ---- *)
Definition is_perm (status : Z) : bool := status =? 1.
(* the roll-back deletes the variables registered with this status *)
Definition cleans (rb : list op) (status : Z) : bool :=
  existsb (fun o => match o with OClean s => Bool.eqb (is_perm s) (is_perm status) | _ => false end) rb.

(* _expandInformation does nothing for this locator type on these Dbs *)
Definition expand_noop (t : Z) (din dout : db) : bool :=
  let ninfo := if d_grid dout && (t =? L_X) then ndim dout else locnum dout t in
  (ninfo <=? 0) || (ninfo =? locnum din t).

(* operations of _preprocess/_run after which a roll-back [rb] restores both Dbs:
   registered additions without locator whose list the roll-back cleans; no-op expansions;
   cleaning; the numerical body *)
Definition safe_op (rb : list op) (din dout : db) (o : op) : bool :=
  match o with
  | OAdd w status t n init slot => (t <? 0) && cleans rb status
  | OExpand mode t _ => expand_noop t din dout
  | OClean _ => true
  | OBody _ => true
  | _ => false
  end.
Definition only_clean (o : op) : bool := match o with OClean _ => true | _ => false end.
(* operations of _postprocess that cannot report a failure *)
Definition cannot_fail (o : op) : bool :=
  match o with OAdd _ _ _ _ _ _ => false | OAddUnreg _ _ _ _ _ _ _ => false | OWithNc _ _ => false | OExpand _ _ _ => false | OFail => false | _ => true end.

Definition wf_atomic (c : calc) (din dout : db) : bool :=
  is_nil (k_init c) &&
  forallb (safe_op (k_rollback c) din dout) (k_pre c) &&
  forallb (safe_op (k_rollback c) din dout) (k_run c) &&
  forallb cannot_fail (k_post c) &&
  forallb only_clean (k_rollback c).

(* ---- success: what a completed run may have changed ---- *)
Definition which_eqb (a b : which) : bool :=
  match a, b with WIn, WIn => true | WOut, WOut => true | _, _ => false end.
(* every operation of _preprocess that assigns [slot] creates registered variables in Db [w] *)
Definition slot_ok (pre : list op) (w : which) (slot : nat) : bool :=
  forallb (fun o => match o with
                    | OAdd w' _ _ _ _ sl => negb (Nat.eqb sl slot) || which_eqb w w'
                    | OAddUnreg _ _ _ _ _ sl _ => negb (Nat.eqb sl slot)
                    | _ => true
                    end) pre.
Definition safe_pre_s (din dout : db) (o : op) : bool :=
  match o with
  | OAdd _ _ t _ _ _ => t <? 0
  | OExpand _ t _ => expand_noop t din dout
  | _ => false
  end.
Definition only_body (o : op) : bool := match o with OBody _ => true | _ => false end.
Definition safe_post_s (pre : list op) (o : op) : bool :=
  match o with
  | OClean _ => true
  | ORename w _ _ _ slot off _ _ _ => slot_ok pre w slot && (0 <=? off)
  | _ => false
  end.
Definition wf_success (c : calc) (din dout : db) : bool :=
  is_nil (k_init c) &&
  forallb (safe_pre_s din dout) (k_pre c) && forallb only_body (k_run c) &&
  forallb (safe_post_s (k_pre c)) (k_post c) && cleans (k_post c) 2.

(* the locator type the naming convention may reassign *)
Definition nc_target (nc : namconv) : Z := if nc_locator nc then nc_loctype nc else -1.

(* after a success: the original columns are all there, unchanged and in place, followed by exactly the
   permanently registered new variables; no temporary variable is left; every locator type other than the
   one of the naming convention is as before *)
Definition success_spec (nc : namconv) (din dout : db) (s' : st) : Prop :=
  (exists ex, d_cols (s_in s') = d_cols din ++ ex /\ forall u, In u (map c_uid ex) <-> In u (b_perm_in (s_book s'))) /\
  (exists ex, d_cols (s_out s') = d_cols dout ++ ex /\ forall u, In u (map c_uid ex) <-> In u (b_perm_out (s_book s'))) /\
  b_temp_in (s_book s') = [] /\ b_temp_out (s_book s') = [] /\
  (forall t, t <> nc_target nc ->
     getloc (d_locs (s_in s')) t = getloc (d_locs din) t /\ getloc (d_locs (s_out s')) t = getloc (d_locs dout) t).

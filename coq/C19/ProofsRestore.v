(* C19 — locator lists that a calculator moves and gives back (DGM centring: the X locators of dbin go to temporary
   centred copies in _preprocess and come back, by name, in _postprocess / _rollback). *)
From Coq Require Import List ZArith Bool Lia.
From Gst Require Import C19.Model C19.Calcs C19.Spec C19.Proofs C19.ProofsSuccess C19.ProofsLoc.
Import ListNotations.
Local Open Scope Z_scope.

(* ------------------------------------------------------------------ names <-> uids *)
Lemma find_unique {A} (f : A -> bool) (l : list A) x :
  In x l -> f x = true -> (forall y, In y l -> f y = true -> y = x) -> find f l = Some x.
Proof.
  induction l as [|z l IH]; simpl; intros Hin Hf Hu; [contradiction|].
  destruct (f z) eqn:E.
  - f_equal. apply Hu; [left; reflexivity | exact E].
  - destruct Hin as [->|Hin]; [congruence|]. apply IH; [exact Hin | exact Hf|]. intros y Hy. apply Hu. right; exact Hy.
Qed.

Lemma NoDup_map_inj {A B} (g : A -> B) (l : list A) x y :
  NoDup (map g l) -> In x l -> In y l -> g x = g y -> x = y.
Proof.
  induction l as [|z l IH]; simpl; intros Hn Hx Hy Hg; [contradiction|].
  inversion Hn as [|? ? Hz Hl]; subst.
  destruct Hx as [->|Hx], Hy as [->|Hy]; [reflexivity | | |].
  - exfalso. apply Hz. rewrite Hg. apply in_map; exact Hy.
  - exfalso. apply Hz. rewrite <- Hg. apply in_map; exact Hx.
  - apply IH; assumption.
Qed.

Lemma dedup_str_id l : forall seen, NoDup l -> (forall x, In x l -> ~ In x seen) -> dedup_str seen l = l.
Proof.
  induction l as [|s r IH]; intros seen Hn Hs; simpl; [reflexivity|].
  inversion Hn as [|? ? Hx Hl]; subst.
  destruct (mem_str s seen) eqn:E.
  - apply mem_str_In in E. exfalso. exact (Hs s (or_introl eq_refl) E).
  - f_equal. apply IH; [exact Hl|]. intros x Hin [Heq|Hin2]; [subst; contradiction | exact (Hs x (or_intror Hin) Hin2)].
Qed.

Section Names.
Variable d : db.
Hypothesis Hnames : NoDup (map c_name (d_cols d)).
Hypothesis Huids : NoDup (map c_uid (d_cols d)).

Lemma find_col_In c : In c (d_cols d) -> find_col d (c_uid c) = Some c.
Proof.
  intro Hin. unfold find_col. apply find_unique; [exact Hin | apply Z.eqb_refl|].
  intros y Hy He. apply Z.eqb_eq in He. exact (NoDup_map_inj c_uid _ _ _ Huids Hy Hin He).
Qed.

Lemma uid_of_name_In c : In c (d_cols d) -> uid_of_name d (c_name c) = Some (c_uid c).
Proof.
  intro Hin. unfold uid_of_name.
  rewrite (find_unique (fun c0 => str_eqb (c_name c0) (c_name c)) (d_cols d) c); [reflexivity | exact Hin | apply str_eqb_eq; reflexivity|].
  intros y Hy He. apply str_eqb_eq in He. exact (NoDup_map_inj c_name _ _ _ Hnames Hy Hin He).
Qed.

(* the uids of live, distinct variables are found back from their names *)
Lemma ids_of_names_back (L : list Z) :
  NoDup L -> (forall u, In u L -> uid_valid d u = true /\ exists c, In c (d_cols d) /\ c_uid c = u) ->
  ids_of_names d (map (name_of_uid d) L) = L.
Proof.
  intros HnL Hlive.
  assert (Hname : forall u, In u L -> exists c, In c (d_cols d) /\ c_uid c = u /\ name_of_uid d u = c_name c).
  { intros u Hu. destruct (Hlive u Hu) as [Hv [c [Hc Hcu]]]. exists c. split; [exact Hc|]. split; [exact Hcu|].
    unfold name_of_uid. rewrite Hv. subst u. rewrite (find_col_In c Hc). reflexivity. }
  assert (Hfound : forall u, In u L -> uid_of_name d (name_of_uid d u) = Some u).
  { intros u Hu. destruct (Hname u Hu) as [c [Hc [Hcu Hn]]]. rewrite Hn. rewrite (uid_of_name_In c Hc). congruence. }
  unfold ids_of_names.
  assert (Hfilter : filter (fun s => match uid_of_name d s with Some _ => true | None => false end) (map (name_of_uid d) L) = map (name_of_uid d) L).
  { apply filter_all_true. intros s Hs. apply in_map_iff in Hs as [u [<- Hu]]. rewrite (Hfound u Hu). reflexivity. }
  rewrite Hfilter.
  assert (Hnd : NoDup (map (name_of_uid d) L)).
  { clear Hfilter. induction L as [|u r IH]; simpl; [constructor|].
    inversion HnL as [|? ? Hu Hr]; subst. constructor.
    - intro Hin. apply in_map_iff in Hin as [v [Hv Hvr]].
      assert (Some v = Some u) as E.
      { rewrite <- (Hfound v (or_intror Hvr)), <- (Hfound u (or_introl eq_refl)). rewrite Hv. reflexivity. }
      inversion E; subst. contradiction.
    - apply IH; [exact Hr | | |]; intros; [apply Hlive | apply Hname | apply Hfound]; right; assumption. }
  rewrite dedup_str_id; [|exact Hnd | intros x _ []].
  clear Hnd Hfilter. induction L as [|u r IH]; simpl; [reflexivity|].
  rewrite (Hfound u (or_introl eq_refl)). simpl. f_equal.
  inversion HnL; subst. apply IH; [assumption | | |]; intros; [apply Hlive | apply Hname | apply Hfound]; right; assumption.
Qed.

End Names.

(* ------------------------------------------------------------------ setLocatorByUID, step by step *)
Lemma set_locator_frame d u t idx :
  d_cols (set_locator d u t idx) = d_cols d /\ d_nuid (set_locator d u t idx) = d_nuid d /\
  d_grid (set_locator d u t idx) = d_grid d /\ d_gdim (set_locator d u t idx) = d_gdim d /\
  length (d_locs (set_locator d u t idx)) = length (d_locs d).
Proof.
  unfold set_locator. destruct (negb (set_locator_ok d u)); [repeat split; reflexivity|].
  destruct (negb (loc_ok t)); unfold with_locs; simpl; rewrite ?length_setloc, map_length; repeat split; reflexivity.
Qed.

(* the list of type t after set_locator d u t idx (idx >= 0), the other lists when u is not in them *)
Lemma set_locator_at d u t idx :
  loc_ok t = true -> length (d_locs d) = NLOC -> set_locator_ok d u = true -> 0 <= idx ->
  (forall t', t' <> t -> ~ In u (getloc (d_locs d) t')) ->
  let d' := set_locator d u t idx in
  getloc (d_locs d') t = upd (pad (erase_first u (getloc (d_locs d) t)) (Datatypes.S (Z.to_nat idx))) (Z.to_nat idx) u /\
  (forall t', t' <> t -> getloc (d_locs d') t' = getloc (d_locs d) t').
Proof.
  intros Hok Hlen Hs Hidx Hnot. unfold set_locator. rewrite Hs, Hok. cbn [negb].
  assert ((idx <? 0) = false) as -> by (apply Z.ltb_ge; exact Hidx).
  unfold with_locs. cbn [d_locs].
  split.
  - rewrite getloc_setloc_same; [|exact Hok | rewrite map_length; exact Hlen]. rewrite getloc_map by reflexivity. reflexivity.
  - intros t' Ht'. rewrite getloc_setloc_other by exact Ht'. rewrite getloc_map by reflexivity.
    apply erase_first_notin. apply Hnot; exact Ht'.
Qed.

Lemma set_locator_ok_frame d u t idx v : set_locator_ok (set_locator d u t idx) v = set_locator_ok d v.
Proof.
  destruct (set_locator_frame d u t idx) as [Hc [Hn _]].
  unfold set_locator_ok, uid_valid, has_col. rewrite Hc, Hn. reflexivity.
Qed.

(* setLocatorsByUID(L, t, |P|) when the list of type t is P and the variables of L are nowhere else: appends L *)
Lemma set_locs_list_append t (Hok : loc_ok t = true) rest : forall P d,
  length (d_locs d) = NLOC -> getloc (d_locs d) t = P -> NoDup (P ++ rest) ->
  (forall u, In u rest -> set_locator_ok d u = true /\ forall t', t' <> t -> ~ In u (getloc (d_locs d) t')) ->
  let d' := set_locs_list d rest t (zlen P) in
  getloc (d_locs d') t = P ++ rest /\ (forall t', t' <> t -> getloc (d_locs d') t' = getloc (d_locs d) t') /\
  d_cols d' = d_cols d /\ d_nuid d' = d_nuid d /\ d_grid d' = d_grid d /\ d_gdim d' = d_gdim d /\ length (d_locs d') = NLOC.
Proof.
  induction rest as [|u r IH]; intros P d Hlen HP Hnd Hr; simpl.
  - rewrite app_nil_r. repeat split; try reflexivity; assumption.
  - destruct (Hr u (or_introl eq_refl)) as [Hsu Hnu].
    assert (Hidx : 0 <= zlen P) by (unfold zlen; lia).
    destruct (set_locator_at d u t (zlen P) Hok Hlen Hsu Hidx Hnu) as [A B].
    destruct (set_locator_frame d u t (zlen P)) as [F1 [F2 [F3 [F4 F5]]]].
    assert (HuP : ~ In u P).
    { intro H. apply NoDup_remove_2 in Hnd. apply Hnd. apply in_or_app. left; exact H. }
    assert (HP' : getloc (d_locs (set_locator d u t (zlen P))) t = P ++ [u]).
    { rewrite A, HP. rewrite erase_first_notin by exact HuP. unfold zlen, pad. rewrite Nat2Z.id.
      replace (Datatypes.S (length P) - length P)%nat with 1%nat by lia. simpl repeat. apply upd_snoc. }
    assert (Hz : zlen P + 1 = zlen (P ++ [u])) by (unfold zlen; rewrite app_length; simpl; lia).
    rewrite Hz.
    destruct (IH (P ++ [u]) (set_locator d u t (zlen P))) as [R1 [R2 [R3 [R4 [R5 [R6 R7]]]]]].
    + rewrite F5. exact Hlen.
    + exact HP'.
    + rewrite <- app_assoc. exact Hnd.
    + intros v Hv. destruct (Hr v (or_intror Hv)) as [Hsv Hnv]. split; [rewrite set_locator_ok_frame; exact Hsv|].
      intros t' Ht'. rewrite (B t' Ht'). apply Hnv; exact Ht'.
    + split; [rewrite R1, <- app_assoc; reflexivity|].
      split; [intros t' Ht'; rewrite (R2 t' Ht'); apply B; exact Ht'|].
      rewrite R3, R4, R5, R6, F1, F2, F3, F4. repeat split; try reflexivity. exact R7.
Qed.

(* ... and from a list of at most one element: the list becomes L *)
Lemma set_locs_list_restore t (Hok : loc_ok t = true) d L :
  length (d_locs d) = NLOC -> (length (getloc (d_locs d) t) <= 1)%nat -> NoDup L ->
  (forall u, In u L -> set_locator_ok d u = true /\ forall t', t' <> t -> ~ In u (getloc (d_locs d) t')) ->
  L <> [] ->
  let d' := set_locs_list d L t 0 in
  getloc (d_locs d') t = L /\ (forall t', t' <> t -> getloc (d_locs d') t' = getloc (d_locs d) t') /\
  d_cols d' = d_cols d /\ d_nuid d' = d_nuid d /\ d_grid d' = d_grid d /\ d_gdim d' = d_gdim d /\ length (d_locs d') = NLOC.
Proof.
  intros Hlen Hshort Hnd Hr Hne. destruct L as [|u r]; [contradiction|]. simpl.
  destruct (Hr u (or_introl eq_refl)) as [Hsu Hnu].
  destruct (set_locator_at d u t 0 Hok Hlen Hsu (Z.le_refl 0) Hnu) as [A B].
  destruct (set_locator_frame d u t 0) as [F1 [F2 [F3 [F4 F5]]]].
  assert (HP' : getloc (d_locs (set_locator d u t 0)) t = [u]).
  { rewrite A. simpl Z.to_nat. destruct (getloc (d_locs d) t) as [|x [|y l]]; simpl in *; [reflexivity | | lia].
    destruct (x =? u); reflexivity. }
  inversion Hnd as [|? ? Hu Hr']; subst.
  destruct (set_locs_list_append t Hok r [u] (set_locator d u t 0)) as [R1 [R2 [R3 [R4 [R5 [R6 R7]]]]]].
  - rewrite F5; exact Hlen.
  - exact HP'.
  - simpl. exact Hnd.
  - intros v Hv. destruct (Hr v (or_intror Hv)) as [Hsv Hnv]. split; [rewrite set_locator_ok_frame; exact Hsv|].
    intros t' Ht'. rewrite (B t' Ht'). apply Hnv; exact Ht'.
  - change (zlen [u]) with 1 in *. split; [exact R1|].
    split; [intros t' Ht'; rewrite (R2 t' Ht'); apply B; exact Ht'|].
    rewrite R3, R4, R5, R6, F1, F2, F3, F4. repeat split; try reflexivity. exact R7.
Qed.

(* ------------------------------------------------------------------ _centerDataToGrid *)
Lemma seqz_length u n : length (seqz u n) = n.
Proof. revert u; induction n as [|n IH]; intro u; simpl; [reflexivity | f_equal; apply IH]. Qed.
Lemma seqz_snoc u n : seqz u (Datatypes.S n) = seqz u n ++ [u + Z.of_nat n].
Proof.
  revert u; induction n as [|n IH]; intro u.
  - simpl. rewrite Z.add_0_r. reflexivity.
  - change (seqz u (Datatypes.S (Datatypes.S n))) with (u :: seqz (u + 1) (Datatypes.S n)). rewrite IH.
    change (seqz u (Datatypes.S n)) with (u :: seqz (u + 1) n). simpl app. do 3 f_equal. lia.
Qed.
Lemma seqz_NoDup u n : NoDup (seqz u n).
Proof.
  revert u; induction n as [|n IH]; intro u; simpl; [constructor|]. constructor; [|apply IH].
  intro H. apply seqz_In in H. lia.
Qed.
Lemma upd_app_at {A} (a : list A) x b u : upd (a ++ x :: b) (length a) u = a ++ u :: b.
Proof. induction a as [|y a IH]; simpl; [reflexivity | f_equal; exact IH]. Qed.
Lemma upd_app_at' {A} (a : list A) x b u i : length a = i -> upd (a ++ x :: b) i u = a ++ u :: b.
Proof. intros <-. apply upd_app_at. Qed.
Lemma skipn_cons {A} (l : list A) : forall i, (i < length l)%nat -> exists x, skipn i l = x :: skipn (Datatypes.S i) l.
Proof.
  induction l as [|y l IH]; intros i Hi; simpl in Hi; [lia|].
  destruct i; [exists y; reflexivity|]. simpl. apply IH. lia.
Qed.

Lemma duplicate_frame d uin uout :
  d_locs (duplicate_column d uin uout) = d_locs d /\ d_nuid (duplicate_column d uin uout) = d_nuid d /\
  d_grid (duplicate_column d uin uout) = d_grid d /\ d_gdim (duplicate_column d uin uout) = d_gdim d /\
  map c_uid (d_cols (duplicate_column d uin uout)) = map c_uid (d_cols d).
Proof.
  unfold duplicate_column. destruct (uid_valid d uin && uid_valid d uout); [|repeat split; reflexivity].
  destruct (find_col d uin) as [ci|]; [|repeat split; reflexivity].
  unfold with_cols; simpl. repeat split; try reflexivity.
  rewrite map_map. apply map_ext. intro c. destruct (c_uid c =? uout); reflexivity.
Qed.

Lemma has_col_map d u : has_col d u = existsb (fun x => x =? u) (map c_uid (d_cols d)).
Proof. unfold has_col. induction (d_cols d) as [|c l IH]; simpl; [reflexivity | rewrite IH; reflexivity]. Qed.
Lemma has_col_uids d d' u : map c_uid (d_cols d') = map c_uid (d_cols d) -> has_col d' u = has_col d u.
Proof. intro H. rewrite !has_col_map, H. reflexivity. Qed.

Section Center.
Variable d0 : db.
Hypothesis HI : Inv d0.

(* the columns of d0, then columns whose uids are exactly [reg] *)
Definition colshape (d : db) (reg : list Z) : Prop :=
  exists ex, d_cols d = d_cols d0 ++ ex /\ forall u, In u (map c_uid ex) <-> In u reg.

Lemma colshape_duplicate d reg uin uout : colshape d reg -> d_nuid d0 <= uout ->
  colshape (duplicate_column d uin uout) reg.
Proof.
  intros [ex [Hc Hx]] Hu. unfold duplicate_column. destruct (uid_valid d uin && uid_valid d uout); [|exists ex; split; assumption].
  destruct (find_col d uin) as [ci|]; [|exists ex; split; assumption].
  set (f := fun c => if c_uid c =? uout then mkcol (c_uid c) (c_name c) (c_val ci) else c).
  exists (map f ex). unfold with_cols; simpl. split.
  - rewrite Hc, map_app. f_equal. rewrite <- (map_id (d_cols d0)) at 2. apply map_ext_in. intros c Hin. unfold f.
    destruct (c_uid c =? uout) eqn:E; [|reflexivity]. apply Z.eqb_eq in E. apply (inv_col_lt d0 HI) in Hin. lia.
  - intro u. rewrite map_map. rewrite (map_ext (fun x => c_uid (f x)) c_uid); [apply Hx|].
    intro c. unfold f. destruct (c_uid c =? uout); reflexivity.
Qed.

Lemma In_skipn {A} (l : list A) : forall i x, In x (skipn i l) -> In x l.
Proof.
  induction l as [|y l IH]; intros i x H; destruct i; simpl in *; try exact H; try contradiction.
  right. apply (IH i x H).
Qed.

Lemma set_locator_ok_uids d d' x :
  map c_uid (d_cols d') = map c_uid (d_cols d) -> d_nuid d' = d_nuid d -> set_locator_ok d' x = set_locator_ok d x.
Proof. intros Hc Hn. unfold set_locator_ok, uid_valid. rewrite Hn, (has_col_uids d d' x Hc). reflexivity. Qed.

Lemma center_loop_spec reg uout L0 :
  d_nuid d0 <= uout -> (forall x, In x L0 -> x < uout) ->
  forall n i d,
  (i + n = length L0)%nat -> length (d_locs d) = NLOC ->
  getloc (d_locs d) L_X = seqz uout i ++ skipn i L0 ->
  (forall x, uout <= x < uout + Z.of_nat (length L0) -> set_locator_ok d x = true) ->
  (forall t' x, t' <> L_X -> In x (getloc (d_locs d) t') -> x < uout) ->
  colshape d reg ->
  let d' := center_loop d uout (Z.of_nat i) n in
  getloc (d_locs d') L_X = seqz uout (length L0) /\ (forall t', t' <> L_X -> getloc (d_locs d') t' = getloc (d_locs d) t') /\ colshape d' reg /\ d_nuid d' = d_nuid d /\ d_grid d' = d_grid d /\ d_gdim d' = d_gdim d /\ length (d_locs d') = NLOC /\ map c_uid (d_cols d') = map c_uid (d_cols d).
Proof.
  intros Hu0 HL0. induction n as [|m IH]; intros i d Hin Hlen HX Hok Hoth Hcs.
  - simpl. assert (i = length L0) by lia. subst i. rewrite skipn_all, app_nil_r in HX.
    repeat split; try reflexivity; assumption.
  - cbn [center_loop]. rewrite Nat2Z.id.
    set (u := uout + Z.of_nat i).
    set (uin := nth i (getloc (d_locs d) L_X) 0).
    destruct (duplicate_frame d uin u) as [D1 [D2 [D3 [D4 D5]]]].
    set (d1 := duplicate_column d uin u) in *.
    assert (Hok1 : set_locator_ok d1 u = true).
    { rewrite (set_locator_ok_uids d d1 u D5 D2). apply Hok. unfold u. lia. }
    assert (Hlen1 : length (d_locs d1) = NLOC) by (rewrite D1; exact Hlen).
    assert (Hnot1 : forall t', t' <> L_X -> ~ In u (getloc (d_locs d1) t')).
    { intros t' Ht' H. rewrite D1 in H. apply (Hoth t' u Ht') in H. unfold u in H. lia. }
    destruct (set_locator_at d1 u L_X (Z.of_nat i) eq_refl Hlen1 Hok1 (Nat2Z.is_nonneg i) Hnot1) as [A B].
    destruct (set_locator_frame d1 u L_X (Z.of_nat i)) as [F1 [F2 [F3 [F4 F5]]]].
    set (d2 := set_locator d1 u L_X (Z.of_nat i)) in *.
    assert (Hi : (i < length L0)%nat) by lia.
    destruct (skipn_cons L0 i Hi) as [x Hx].
    assert (HX2 : getloc (d_locs d2) L_X = seqz uout (Datatypes.S i) ++ skipn (Datatypes.S i) L0).
    { rewrite A, D1, HX. rewrite Nat2Z.id.
      rewrite erase_first_notin.
      2:{ intro H. apply in_app_iff in H as [H|H]; [apply seqz_In in H; unfold u in H; lia|].
          apply In_skipn in H. apply HL0 in H. unfold u in H. lia. }
      unfold pad. rewrite app_length, seqz_length, skipn_length.
      replace (Datatypes.S i - (i + (length L0 - i)))%nat with 0%nat by lia. simpl repeat. rewrite app_nil_r.
      rewrite Hx. rewrite (upd_app_at' (seqz uout i) x (skipn (Datatypes.S i) L0) u i (seqz_length uout i)).
      rewrite seqz_snoc, <- app_assoc. reflexivity. }
    replace (Z.of_nat i + 1) with (Z.of_nat (Datatypes.S i)) by lia.
    destruct (IH (Datatypes.S i) d2) as [R1 [R2 [R3 [R4 [R5 [R6 [R7 R8]]]]]]].
    + lia.
    + rewrite F5. exact Hlen1.
    + exact HX2.
    + intros y Hy. unfold d2. rewrite set_locator_ok_frame. fold d1. rewrite (set_locator_ok_uids d d1 y D5 D2). apply Hok; exact Hy.
    + intros t' y Ht' Hy. rewrite (B t' Ht'), D1 in Hy. exact (Hoth t' y Ht' Hy).
    + destruct (colshape_duplicate d reg uin u Hcs) as [ex [Hc Hx']]; [unfold u; lia|].
      exists ex. split; [rewrite F1; exact Hc | exact Hx'].
    + split; [exact R1|]. split; [intros t' Ht'; rewrite (R2 t' Ht'), (B t' Ht'), D1; reflexivity|].
      split; [exact R3|]. rewrite R4, R5, R6, R8. rewrite F1, F2, F3, F4, D2, D3, D4, D5.
      repeat split; try reflexivity. exact R7.
Qed.

End Center.

(* ------------------------------------------------------------------ the centring on a tracked Db *)
Definition tch_x (tch : Z -> bool) (cx : bool) (t : Z) : bool := tch t || (cx && (t =? L_X)).

Lemma tT_tch_ext d0 tch tch' d perm temp :
  (forall t, tch t = tch' t) -> trackedT d0 tch d perm temp -> trackedT d0 tch' d perm temp.
Proof.
  intros He [ex [Hc [Hx [Hdis [Hl [Ht [Hlen [Hg [Hd [Hn Hr]]]]]]]]]]. exists ex.
  split; [exact Hc|]. split; [exact Hx|]. split; [exact Hdis|].
  split; [intros t E; apply Hl; rewrite He; exact E|]. split; [intros t E; apply Ht; rewrite He; exact E|].
  split; [exact Hlen|]. split; [exact Hg|]. split; [exact Hd|]. split; [exact Hn | exact Hr].
Qed.

Section CenterDb.
Variable d0 : db.
Hypothesis HI : Inv d0.
Variable tch : Z -> bool.
Hypothesis HtX : tch L_X = false.
Hypothesis Hpts : d_grid d0 = false.
Let L0 := getloc (d_locs d0) L_X.

Lemma L0_lt x : In x L0 -> 0 <= x < d_nuid d0.
Proof. intro H. apply getloc_In in H as [l [H1 H2]]. exact (inv_loc_lt d0 HI l x H1 H2). Qed.

Lemma tT_center d perm temp d1 uout :
  trackedT d0 tch d perm temp ->
  add_columns d (zlen L0) (Cst 1) [] (-1) 0 = (d1, uout) -> 0 <= uout ->
  let d2 := center_loop d1 uout 0 (Z.to_nat (zlen L0)) in
  trackedT d0 (tch_x tch true) (write_cols d2 (getloc (d_locs d2) L_X) 9) perm (temp ++ seqz uout (Z.to_nat (zlen L0))) /\
  L0 <> [].
Proof.
  intros TT Hadd Hu.
  assert (Hpos : 0 < zlen L0).
  { unfold add_columns in Hadd. destruct (zlen L0 <=? 0) eqn:E; [inversion Hadd; subst; lia | apply Z.leb_gt in E; exact E]. }
  rewrite (add_columns_split d (zlen L0) (Cst 1) [] (-1) 0 Hpos) in Hadd. cbn [Z.ltb Z.compare] in Hadd.
  assert (Hd1 : fst (add_columns d (zlen L0) (Cst 1) [] (-1) 0) = d1) by (inversion Hadd; reflexivity).
  assert (Hu' : d_nuid d = uout) by (inversion Hadd; reflexivity).
  clear Hadd.
  destruct (add_noloc_shape d0 HI tch d perm temp (zlen L0) (Cst 1) [] false TT Hpos) as [T1 [N1 [L1 C1]]].
  rewrite Hd1 in T1, N1, L1, C1. rewrite Hu' in T1, N1, C1.
  assert (Hn : Z.to_nat (zlen L0) = length L0) by (unfold zlen; lia).
  rewrite Hn in *.
  pose proof T1 as [ex [Hc [Hx [Hdis [Hl [Ht [Hlen [Hg [Hd [Hnu Hr]]]]]]]]]].
  assert (HuD : d_nuid d0 <= uout).
  { subst uout. destruct TT as [? [_ [_ [_ [_ [_ [_ [_ [_ [H _]]]]]]]]]]. exact H. }
  assert (H1 : forall x, In x L0 -> x < uout) by (intros x H; apply L0_lt in H; lia).
  assert (H2 : (0 + length L0 = length L0)%nat) by lia.
  assert (H3 : getloc (d_locs d1) L_X = seqz uout 0 ++ skipn 0 L0) by (simpl; apply Hl; exact HtX).
  assert (H4 : forall x, uout <= x < uout + Z.of_nat (length L0) -> set_locator_ok d1 x = true).
  { intros x Hx'. unfold set_locator_ok, uid_valid. rewrite N1, (C1 x) by (unfold zlen; lia).
    rewrite andb_true_r. apply andb_true_iff. split; [apply Z.leb_le | apply Z.ltb_lt]; unfold zlen; lia. }
  assert (H5 : forall t' x, t' <> L_X -> In x (getloc (d_locs d1) t') -> x < uout).
  { intros t' x _ Hin. rewrite L1 in Hin. rewrite <- Hu'. exact (tT_entries d0 HI tch d perm temp t' x TT Hin). }
  assert (H6 : colshape d0 d1 (perm ++ temp ++ seqz uout (length L0))) by (exists ex; split; assumption).
  destruct (center_loop_spec d0 HI (perm ++ temp ++ seqz uout (length L0)) uout L0 HuD H1 (length L0) 0%nat d1 H2 Hlen H3 H4 H5 H6)
    as [R1 [R2 [R3 [R4 [R5 [R6 [R7 R8]]]]]]].
  simpl Z.of_nat in *. set (d2 := center_loop d1 uout 0 (length L0)) in *.
  { split; [|intro E; unfold zlen in Hpos; rewrite E in Hpos; simpl in Hpos; lia].
    apply (tT_write d0 HI).
    + destruct R3 as [ex2 [Hc2 Hx2]]. exists ex2.
      split; [exact Hc2|]. split; [exact Hx2|]. split; [exact Hdis|].
      split.
      { intros t E. unfold tch_x in E. apply orb_false_iff in E as [E1 E2]. simpl in E2.
        assert (t <> L_X) as Hne by (intro; subst; rewrite Z.eqb_refl in E2; discriminate).
        rewrite (R2 t Hne). apply Hl; exact E1. }
      split.
      { intros t E. destruct (Z.eq_dec t L_X) as [->|Hne].
        - rewrite R1. split; [apply seqz_NoDup|]. intros x Hin. apply in_or_app. right. apply in_or_app. right. exact Hin.
        - unfold tch_x in E. assert ((t =? L_X) = false) as E2 by (apply Z.eqb_neq; exact Hne).
          rewrite E2, andb_false_r, orb_false_r in E. rewrite (R2 t Hne). apply Ht; exact E. }
      split; [exact R7|]. split; [rewrite R5; exact Hg|]. split; [rewrite R6; exact Hd|].
      split; [rewrite R4; exact Hnu|]. intros x Hin. rewrite R4. apply Hr; exact Hin.
    + intros x Hin. rewrite R1 in Hin. apply seqz_In in Hin. lia. }
Qed.

End CenterDb.

(* ------------------------------------------------------------------ calculator states with a possible centring *)
Definition centered (s : st) : bool := negb (is_nil (b_name_coord (s_book s))).

Definition safe_opD (tch : Z -> bool) (rb : list op) (din dout : db) (o : op) : bool :=
  match o with
  | OAdd w status t n init slot => ((t <? 0) || (tch t && loc_ok t)) && cleans rb status
  | OExpand mode t _ => expand_noop t din dout && negb (tch t) && negb (t =? L_X)
  | OClean _ => true
  | OBody _ => true
  | _ => false
  end.
(* at most one centring, only where allowed *)
Fixpoint safe_opsD (tch : Z -> bool) (rb : list op) (din dout : db) (allow : bool) (ops : list op) : bool :=
  match ops with
  | [] => true
  | OCenter :: r => allow && cleans rb 2 && safe_opsD tch rb din dout false r
  | o :: r => safe_opD tch rb din dout o && safe_opsD tch rb din dout allow r
  end.

Definition TrackedD (tch : Z -> bool) (rb : list op) (din dout : db) (s : st) : Prop :=
  s_alias s = false /\
  trackedT din (tch_x tch (centered s)) (s_in s) (b_perm_in (s_book s)) (b_temp_in (s_book s)) /\
  trackedT dout tch (s_out s) (b_perm_out (s_book s)) (b_temp_out (s_book s)) /\
  book_ok rb (s_book s) /\
  (centered s = true -> b_name_coord (s_book s) = map (name_of_uid din) (getloc (d_locs din) L_X)).

Section RunD.
Variables din dout : db.
Hypothesis HIi : Inv din.
Hypothesis HIo : Inv dout.
Variable tch : Z -> bool.
Hypothesis HtX : tch L_X = false.
Hypothesis Hti : forall t, tch t = true -> getloc (d_locs din) t = [].
Hypothesis Hto : forall t, tch t = true -> getloc (d_locs dout) t = [].
Hypothesis Hpts : d_grid din = false.
Let L0 := getloc (d_locs din) L_X.
Hypothesis HL0nd : NoDup L0.
Hypothesis HL0live : forall u, In u L0 -> has_col din u = true.
Hypothesis HL0only : forall u t, In u L0 -> t <> L_X -> ~ In u (getloc (d_locs din) t).
Variable rb : list op.

Lemma tch_x_false t : tch_x tch false t = tch t.
Proof. unfold tch_x. simpl. apply orb_false_r. Qed.

Lemma TrackedD_init : TrackedD tch rb din dout (init_st din dout false).
Proof.
  unfold TrackedD, init_st, centered; simpl. split; [reflexivity|].
  split; [apply (tT_tch_ext din tch); [intro t; symmetry; apply tch_x_false | apply tT_init; assumption]|].
  split; [apply tT_init; assumption|]. split; [split; intros _; split; reflexivity | discriminate].
Qed.

Lemma expand_noop_sameD t s : TrackedD tch rb din dout s -> expand_noop t din dout = true -> tch t = false -> t <> L_X ->
  forall mode reg, expand_information mode t reg s = (true, s).
Proof.
  intros [Ha [[exi [_ [_ [_ [Hli _]]]]] [[exo [_ [_ [_ [Hlo [_ [_ [Hgo [Hdo _]]]]]]]]] _]]] He Ht Hne mode reg.
  unfold expand_information, getdb. rewrite Ha.
  unfold expand_noop in He. unfold ndim, locnum in *.
  assert (E : (t =? L_X) = false) by (apply Z.eqb_neq; exact Hne).
  rewrite E, andb_false_r in *.
  assert (Hx : tch_x tch (centered s) t = false) by (unfold tch_x; rewrite Ht, E, andb_false_r; reflexivity).
  rewrite (Hlo t Ht), (Hli t Hx).
  apply orb_true_iff in He as [He|He]; rewrite He; [reflexivity|]. destruct (_ <=? 0); reflexivity.
Qed.

(* a live variable of din keeps its name while din only grows *)
Lemma name_kept d perm temp tch' u :
  trackedT din tch' d perm temp -> In u L0 -> name_of_uid d u = name_of_uid din u.
Proof.
  intros TT Hu. pose proof TT as [ex [Hc [Hx [_ [_ [_ [_ [_ [_ [Hn Hr]]]]]]]]]].
  pose proof (L0_lt din HIi u Hu) as Hb.
  unfold name_of_uid, uid_valid.
  assert (((0 <=? u) && (u <? d_nuid d)) = true) as -> by (apply andb_true_iff; split; [apply Z.leb_le | apply Z.ltb_lt]; lia).
  assert (((0 <=? u) && (u <? d_nuid din)) = true) as -> by (apply andb_true_iff; split; [apply Z.leb_le | apply Z.ltb_lt]; lia).
  pose proof (HL0live u Hu) as Hl. unfold has_col in Hl. apply existsb_exists in Hl as [c [Hc' He]]. apply Z.eqb_eq in He.
  destruct HIi as [I1 _].
  assert (F1 : find_col din u = Some c).
  { unfold find_col. apply find_unique; [exact Hc' | apply Z.eqb_eq; exact He|].
    intros y Hy Hey. apply Z.eqb_eq in Hey. apply (NoDup_map_inj c_uid _ _ _ I1 Hy Hc'). congruence. }
  assert (F2 : find_col d u = Some c).
  { unfold find_col. rewrite Hc. apply find_unique; [apply in_or_app; left; exact Hc' | apply Z.eqb_eq; exact He|].
    intros y Hy Hey. apply Z.eqb_eq in Hey. apply in_app_iff in Hy as [Hy|Hy].
    - apply (NoDup_map_inj c_uid _ _ _ I1 Hy Hc'). congruence.
    - exfalso. assert (In (c_uid y) (perm ++ temp)) as H by (apply Hx; apply in_map; exact Hy). apply Hr in H. lia. }
  rewrite F1, F2. reflexivity.
Qed.

Lemma exec_op_safeD nc o s ok s' :
  TrackedD tch rb din dout s -> safe_opD tch rb din dout o = true -> exec_op nc o s = (ok, s') ->
  TrackedD tch rb din dout s' /\ centered s' = centered s.
Proof.
  intros T Hs He. destruct o; simpl in Hs; try discriminate.
  - (* OAdd *)
    apply andb_true_iff in Hs as [Ht Hcl].
    simpl in He. unfold add_variable in He.
    destruct (add_columns (getdb w s) (n s) init [] t 0) as [d' u] eqn:Ea.
    destruct (u <? 0) eqn:Eu.
    { inversion He; subst. split; [exact T | reflexivity]. }
    apply Z.ltb_ge in Eu. inversion He; subst ok s'; clear He.
    destruct T as [Ha [Ti [To [[Hb1 Hb2] Hnm]]]].
    rewrite cleans_status in Hcl.
    destruct s as [si so al bk sl]. simpl in *. subst al.
    assert (Htx : ((t <? 0) || (tch_x tch (centered (mkst si so false bk sl)) t && loc_ok t)) = true).
    { apply orb_true_iff in Ht as [Ht|Ht]; [rewrite Ht; reflexivity|]. apply andb_true_iff in Ht as [H1 H2].
      unfold tch_x. rewrite H1, H2. simpl. apply orb_true_r. }
    destruct w; unfold getdb in Ea; simpl in Ea.
    + pose proof (tT_add _ din HIi _ _ _ _ _ _ _ _ (is_perm status) Ti Htx Ea Eu) as T2.
      unfold TrackedD, centered, setdb, with_book, store_in_list, is_perm, set_slot in *; simpl in *.
      destruct (status =? 1) eqn:Es; simpl; (split; [|reflexivity]); (split; [reflexivity|]); (split; [exact T2|]); (split; [exact To|]);
        (split; [|exact Hnm]); split; intro Hc; try congruence; first [apply Hb1 in Hc; tauto | apply Hb2 in Hc; tauto].
    + pose proof (tT_add _ dout HIo _ _ _ _ _ _ _ _ (is_perm status) To Ht Ea Eu) as T2.
      unfold TrackedD, centered, setdb, with_book, store_in_list, is_perm, set_slot in *; simpl in *.
      destruct (status =? 1) eqn:Es; simpl; (split; [|reflexivity]); (split; [reflexivity|]); (split; [exact Ti|]); (split; [exact T2|]);
        (split; [|exact Hnm]); split; intro Hc; try congruence; first [apply Hb1 in Hc; tauto | apply Hb2 in Hc; tauto].
  - (* OClean *)
    simpl in He. inversion He; subst ok s'; clear He.
    destruct T as [Ha [Ti [To [[Hb1 Hb2] Hnm]]]].
    destruct s as [si so al bk sl]. simpl in *. subst al.
    unfold clean_variables, getdb, setdb, with_book, TrackedD, centered in *. simpl in *.
    destruct (status =? 1); simpl; (split; [|reflexivity]).
    + split; [reflexivity|]. split; [apply tT_clean_perm; assumption|]. split; [apply tT_clean_perm; assumption|].
      split; [|exact Hnm]. split; intro Hc; [tauto | apply Hb2; exact Hc].
    + split; [reflexivity|]. split; [apply tT_clean_temp; assumption|]. split; [apply tT_clean_temp; assumption|].
      split; [|exact Hnm]. split; intro Hc; [apply Hb1; exact Hc | tauto].
  - (* OExpand *)
    apply andb_true_iff in Hs as [Hs Hx]. apply andb_true_iff in Hs as [Hs Hn].
    apply negb_true_iff in Hn, Hx. apply Z.eqb_neq in Hx.
    simpl in He. rewrite (expand_noop_sameD _ _ T Hs Hn Hx) in He. inversion He; subst; split; [exact T | reflexivity].
  - (* OBody *)
    simpl in He. inversion He; subst ok s'; clear He.
    destruct T as [Ha [Ti [To [Hb Hnm]]]].
    destruct s as [si so al bk sl]. simpl in *. subst al.
    unfold all_registered, getdb, setdb, TrackedD, centered in *. simpl in *. rewrite !app_nil_r.
    split; [|reflexivity]. split; [reflexivity|]. split; [|split; [|split; assumption]].
    + apply tT_write; [exact HIi | exact Ti|]. intros u Hu.
      destruct Ti as [ex [_ [_ [_ [_ [_ [_ [_ [_ [_ Hr]]]]]]]]]]. apply Hr in Hu. lia.
    + apply tT_write; [exact HIo | exact To|]. intros u Hu.
      destruct To as [ex [_ [_ [_ [_ [_ [_ [_ [_ [_ Hr]]]]]]]]]]. apply Hr in Hu. lia.
Qed.

Lemma names_L0 d perm temp tch' :
  trackedT din tch' d perm temp -> tch' L_X = false ->
  names_by_locator d L_X = map (name_of_uid din) L0.
Proof.
  intros TT Hx. pose proof TT as [ex [_ [_ [_ [Hl _]]]]]. unfold names_by_locator. rewrite (Hl L_X Hx).
  apply map_ext_in. intros u Hu. apply (name_kept d perm temp tch' u TT Hu).
Qed.

Lemma center_safeD nc s :
  TrackedD tch rb din dout s -> centered s = false -> cleans rb 2 = true ->
  TrackedD tch rb din dout (snd (exec_op nc OCenter s)).
Proof.
  intros [Ha [Ti [To [[Hb1 Hb2] Hnm]]]] Hc Hcl.
  destruct s as [si so al bk sl]. simpl in Ha. subst al.
  rewrite Hc in Ti. simpl in Ti, To, Hb1, Hb2. apply (tT_tch_ext din _ tch) in Ti; [|apply tch_x_false].
  pose proof (names_L0 si _ _ tch Ti HtX) as Hnames.
  pose proof Ti as [exi [_ [_ [_ [Hli [_ [_ [Hgi _]]]]]]]].
  assert (Hnd : ndim si = zlen L0).
  { unfold ndim. rewrite Hgi, Hpts. rewrite (Hli L_X HtX). reflexivity. }
  cbn [exec_op snd]. unfold center_data_to_grid. cbn [getdb with_book s_in s_out s_alias s_book s_slots].
  rewrite Hnd. unfold add_variable. cbn [getdb with_book s_in s_out s_alias s_book s_slots].
  destruct (add_columns si (zlen L0) (Cst 1) [] (-1) 0) as [d1 uout] eqn:Ea.
  destruct (uout <? 0) eqn:Eu.
  - (* nothing to centre: no coordinate locator *)
    apply Z.ltb_lt in Eu.
    assert (L0 = []) as HL.
    { unfold add_columns in Ea. destruct (zlen L0 <=? 0) eqn:E.
      - apply Z.leb_le in E. unfold zlen in E. destruct L0; [reflexivity | simpl in E; lia].
      - inversion Ea; subst. destruct Ti as [? [_ [_ [_ [_ [_ [_ [_ [_ [Hn _]]]]]]]]]]. pose proof (inv_nuid din HIi). simpl in Hn. lia. }
    simpl in Hnames. rewrite Hnames, HL. simpl.
    unfold TrackedD, centered. simpl.
    split; [reflexivity|]. split; [apply (tT_tch_ext din tch); [intro t; symmetry; apply tch_x_false | exact Ti]|].
    split; [exact To|]. split; [split; assumption | discriminate].
  - apply Z.ltb_ge in Eu.
    destruct (tT_center din HIi tch HtX si _ _ d1 uout Ti Ea Eu) as [T2 HLne].
    simpl in Hnames. rewrite Hnames.
    unfold TrackedD, centered, setdb, with_book, store_in_list. simpl.
    assert (Hnil : is_nil (map (name_of_uid din) L0) = false) by (fold L0 in HLne; destruct L0; [contradiction | reflexivity]).
    assert (Eu' : (uout <? 0) = false) by (apply Z.ltb_ge; exact Eu). rewrite Eu'. simpl. rewrite Hnil. simpl.
    split; [reflexivity|]. split; [exact T2|]. split; [exact To|].
    split; [|intros _; reflexivity].
    split; intro H; [apply Hb1; exact H | congruence].
Qed.

Lemma exec_opsD nc ops : forall allow s b ok s',
  TrackedD tch rb din dout s -> (centered s = true -> allow = false) ->
  safe_opsD tch rb din dout allow ops = true -> exec_ops nc ops s b = (ok, s') ->
  TrackedD tch rb din dout s'.
Proof.
  induction ops as [|o r IH]; intros allow s b ok s' T Hal Hs He; simpl in He.
  - inversion He; subst; exact T.
  - destruct b as [[|k]|]; [inversion He; subst; exact T | |].
    + destruct (exec_op nc o s) as [ok1 s1] eqn:E1.
      assert (T1 : TrackedD tch rb din dout s1 /\ (centered s1 = true -> (match o with OCenter => false | _ => allow end) = false) /\
                   safe_opsD tch rb din dout (match o with OCenter => false | _ => allow end) r = true).
      { destruct o; simpl in Hs; try discriminate;
          try (apply andb_true_iff in Hs as [Ho Hr];
               match type of E1 with exec_op _ ?o0 _ = _ => destruct (exec_op_safeD nc o0 s ok1 s1 T Ho E1) as [T1 Hc] end; split; [exact T1|]; split; [rewrite Hc; exact Hal | exact Hr]);
          try (match type of E1 with exec_op _ ?o0 _ = _ => destruct (exec_op_safeD nc o0 s ok1 s1 T eq_refl E1) as [T1 Hc] end; split; [exact T1|]; split; [rewrite Hc; exact Hal | exact Hs]).
        apply andb_true_iff in Hs as [Hs Hr]. apply andb_true_iff in Hs as [Hal' Hcl]. subst allow.
        assert (Hc : centered s = false) by (destruct (centered s); [specialize (Hal eq_refl); discriminate | reflexivity]).
        pose proof (center_safeD nc s T Hc Hcl) as T1. rewrite E1 in T1. simpl in T1.
        split; [exact T1|]. split; [reflexivity | exact Hr]. }
      destruct T1 as [T1 [Hal1 Hr1]].
      destruct ok1; [exact (IH _ _ _ _ _ T1 Hal1 Hr1 He) | inversion He; subst; exact T1].
    + destruct (exec_op nc o s) as [ok1 s1] eqn:E1.
      assert (T1 : TrackedD tch rb din dout s1 /\ (centered s1 = true -> (match o with OCenter => false | _ => allow end) = false) /\
                   safe_opsD tch rb din dout (match o with OCenter => false | _ => allow end) r = true).
      { destruct o; simpl in Hs; try discriminate;
          try (apply andb_true_iff in Hs as [Ho Hr];
               match type of E1 with exec_op _ ?o0 _ = _ => destruct (exec_op_safeD nc o0 s ok1 s1 T Ho E1) as [T1 Hc] end; split; [exact T1|]; split; [rewrite Hc; exact Hal | exact Hr]);
          try (match type of E1 with exec_op _ ?o0 _ = _ => destruct (exec_op_safeD nc o0 s ok1 s1 T eq_refl E1) as [T1 Hc] end; split; [exact T1|]; split; [rewrite Hc; exact Hal | exact Hs]).
        apply andb_true_iff in Hs as [Hs Hr]. apply andb_true_iff in Hs as [Hal' Hcl]. subst allow.
        assert (Hc : centered s = false) by (destruct (centered s); [specialize (Hal eq_refl); discriminate | reflexivity]).
        pose proof (center_safeD nc s T Hc Hcl) as T1. rewrite E1 in T1. simpl in T1.
        split; [exact T1|]. split; [reflexivity | exact Hr]. }
      destruct T1 as [T1 [Hal1 Hr1]].
      destruct ok1; [exact (IH _ _ _ _ _ T1 Hal1 Hr1 He) | inversion He; subst; exact T1].
Qed.

Lemma tT_final d0 tch' d : trackedT d0 tch' d [] [] ->
  d_cols d = d_cols d0 /\ (forall t, tch' t = true -> getloc (d_locs d) t = []) /\
  (forall t, tch' t = false -> getloc (d_locs d) t = getloc (d_locs d0) t) /\
  length (d_locs d) = NLOC /\ d_grid d = d_grid d0 /\ d_gdim d = d_gdim d0 /\ d_nuid d0 <= d_nuid d.
Proof.
  intros [ex [Hc [Hu [_ [Hl [Ht [Hlen [Hg [Hd [Hn _]]]]]]]]]].
  assert (ex = []) as ->.
  { destruct ex as [|c ex]; [reflexivity|]. exfalso. apply (Hu (c_uid c)). simpl. left; reflexivity. }
  rewrite app_nil_r in Hc. split; [exact Hc|]. split.
  { intros t E. destruct (Ht t E) as [_ Hin]. destruct (getloc (d_locs d) t) as [|x l]; [reflexivity|].
    exfalso. apply (Hin x). left; reflexivity. }
  repeat split; assumption.
Qed.

Lemma inv_of_eq d0 d : Inv d0 -> d_cols d = d_cols d0 -> d_locs d = d_locs d0 -> d_nuid d0 <= d_nuid d -> Inv d.
Proof.
  intros [I1 [I2 [I3 [I4 [I5 I6]]]]] Hc Hl Hn. unfold Inv. rewrite Hc, Hl.
  split; [exact I1|]. split; [intros c Hin; specialize (I2 c Hin); lia|].
  split; [intros l u Hi Hj; specialize (I3 l u Hi Hj); lia|].
  split; [exact I4|]. split; [exact I5 | lia].
Qed.

Lemma rollback_restoresD nc s :
  rb = [OClean 1; OClean 2; ORestoreX] -> TrackedD tch rb din dout s ->
  (db_eq (s_in (exec_quiet nc rb s)) din /\ Inv (s_in (exec_quiet nc rb s))) /\
  (db_eq (s_out (exec_quiet nc rb s)) dout /\ Inv (s_out (exec_quiet nc rb s))).
Proof.
  intros Hrb T.
  assert (T1 : TrackedD tch rb din dout (clean_variables 1 s) /\ centered (clean_variables 1 s) = centered s).
  { apply (exec_op_safeD nc (OClean 1) s true); [exact T | reflexivity | reflexivity]. }
  destruct T1 as [T1 C1].
  assert (T2 : TrackedD tch rb din dout (clean_variables 2 (clean_variables 1 s)) /\
               centered (clean_variables 2 (clean_variables 1 s)) = centered (clean_variables 1 s)).
  { apply (exec_op_safeD nc (OClean 2) (clean_variables 1 s) true); [exact T1 | reflexivity | reflexivity]. }
  destruct T2 as [T2 C2].
  rewrite Hrb. cbn [exec_quiet exec_op snd].
  set (s2 := clean_variables 2 (clean_variables 1 s)) in *.
  assert (Hlists : b_perm_in (s_book s2) = [] /\ b_perm_out (s_book s2) = [] /\ b_temp_in (s_book s2) = [] /\ b_temp_out (s_book s2) = []).
  { destruct T as [Ha _]. destruct s as [si so al bk sl]. simpl in Ha. subst al. unfold s2, clean_variables, setdb, getdb, with_book. simpl. repeat split; reflexivity. }
  destruct Hlists as [P1 [P2 [Q1 Q2]]].
  destruct T2 as [Ha [Ti [To [_ Hnm]]]]. rewrite P1, Q1 in Ti. rewrite P2, Q2 in To.
  destruct (tT_done dout HIo tch Hto _ To) as [Eo Io].
  destruct (centered s2) eqn:Ec.
  - (* the coordinates had been centred: give the locators back by name *)
    specialize (Hnm eq_refl).
    destruct (tT_final din _ _ Ti) as [Hc [Hte [Htu [Hlen [Hg [Hd Hn]]]]]].
    assert (HLne : L0 <> []).
    { intro E. unfold centered in Ec. rewrite Hnm in Ec. fold L0 in Ec. rewrite E in Ec. discriminate. }
    assert (Hnil : is_nil (b_name_coord (s_book s2)) = false) by (unfold centered in Ec; apply negb_true_iff in Ec; exact Ec).
    rewrite Hnil. unfold setdb, getdb. rewrite Ha. cbn [s_in s_out].
    set (d := s_in s2) in *.
    assert (Hvalid : forall u, In u L0 -> set_locator_ok d u = true).
    { intros u Hu. pose proof (L0_lt din HIi u Hu) as Hb. unfold set_locator_ok, uid_valid.
      assert (((0 <=? u) && (u <? d_nuid d)) = true) as -> by (apply andb_true_iff; split; [apply Z.leb_le | apply Z.ltb_lt]; lia).
      unfold has_col. rewrite Hc. apply (HL0live u Hu). }
    assert (Hnames : b_name_coord (s_book s2) = map (name_of_uid d) L0).
    { rewrite Hnm. fold L0. apply map_ext_in. intros u Hu. symmetry. apply (name_kept d [] [] _ u Ti Hu). }
    assert (Hids : ids_of_names d (b_name_coord (s_book s2)) = L0).
    { rewrite Hnames. destruct HIi as [I1 [_ [_ [I4 _]]]]. apply ids_of_names_back; [rewrite Hc; exact I4 | rewrite Hc; exact I1 | exact HL0nd|].
      intros u Hu. pose proof (Hvalid u Hu) as Hv. unfold set_locator_ok in Hv. apply andb_true_iff in Hv as [Hv1 Hv2].
      split; [exact Hv1|]. unfold has_col in Hv2. apply existsb_exists in Hv2 as [c [Hc1 Hc2]]. exists c. split; [exact Hc1 | apply Z.eqb_eq; exact Hc2]. }
    unfold set_locators_by_names. rewrite Hids.
    assert (is_nil L0 = false) as -> by (destruct L0; [contradiction | reflexivity]).
    cbn [Z.ltb Z.compare].
    assert (HX : tch_x tch true L_X = true) by (unfold tch_x; rewrite Z.eqb_refl; apply orb_true_r).
    destruct (set_locs_list_restore L_X eq_refl d L0 Hlen) as [R1 [R2 [R3 [R4 [R5 [R6 R7]]]]]].
    + rewrite (Hte L_X HX). simpl. lia.
    + exact HL0nd.
    + intros u Hu. split; [apply Hvalid; exact Hu|]. intros t' Ht'.
      destruct (tch_x tch true t') eqn:E; [rewrite (Hte t' E); intros [] | rewrite (Htu t' E); apply HL0only; assumption].
    + exact HLne.
    + set (d' := set_locs_list d L0 L_X 0) in *.
      assert (Hlocs : d_locs d' = d_locs din).
      { apply locs_ext; [exact R7 | apply (inv_len din HIi)|]. intro t. destruct (Z.eq_dec t L_X) as [->|Hne]; [exact R1|].
        rewrite (R2 t Hne). destruct (tch_x tch true t) eqn:E; [|apply Htu; exact E].
        rewrite (Hte t E). symmetry. apply Hti. unfold tch_x in E. assert ((t =? L_X) = false) as E2 by (apply Z.eqb_neq; exact Hne).
        rewrite E2, andb_false_r, orb_false_r in E. exact E. }
      split; [|split; assumption].
      split; [repeat split; [rewrite R3; exact Hc | exact Hlocs | rewrite R5; exact Hg | rewrite R6; exact Hd]|].
      apply (inv_of_eq din); [exact HIi | rewrite R3; exact Hc | exact Hlocs | rewrite R4; exact Hn].
  - (* no centring took place *)
    assert (Hnil : is_nil (b_name_coord (s_book s2)) = true) by (unfold centered in Ec; apply negb_false_iff in Ec; exact Ec).
    rewrite Hnil. apply (tT_tch_ext din _ tch) in Ti; [|apply tch_x_false].
    split; [apply (tT_done din HIi tch Hti _ Ti) | split; assumption].
Qed.

End RunD.

(* atomicity with the DGM centring: dbin is a set of points whose coordinate variables are live, distinct and carry no
   other locator; the roll-back cleans both lists and gives the coordinate locators back *)
Theorem atomic_dgm (c : calc) (tch : Z -> bool) (din dout : db) (fs : Z) (fk : nat) (s' : st) :
  Inv din -> Inv dout -> tch L_X = false ->
  (forall t, tch t = true -> getloc (d_locs din) t = []) -> (forall t, tch t = true -> getloc (d_locs dout) t = []) ->
  d_grid din = false ->
  NoDup (getloc (d_locs din) L_X) ->
  (forall u, In u (getloc (d_locs din) L_X) -> has_col din u = true) ->
  (forall u t, In u (getloc (d_locs din) L_X) -> t <> L_X -> ~ In u (getloc (d_locs din) t)) ->
  k_init c = [] ->
  k_rollback c = [OClean 1; OClean 2; ORestoreX] ->
  safe_opsD tch (k_rollback c) din dout true (k_pre c) = true ->
  safe_opsD tch (k_rollback c) din dout false (k_run c) = true ->
  (forall s, TrackedD tch (k_rollback c) din dout s -> fst (exec_ops (k_nc c) (k_post c) s None) = true) ->
  fs <> 4 ->
  calc_run c (init_st din dout false) fs fk = (false, s') ->
  (db_eq (s_in s') din /\ Inv (s_in s')) /\ (db_eq (s_out s') dout /\ Inv (s_out s')).
Proof.
  intros HIi HIo HtX Hti Hto Hpts Hnd Hlive Honly Hk Hrb Hpre Hbody Hpost Hfs Hrun.
  pose proof (TrackedD_init din dout HIi HIo tch Hti Hto (k_rollback c)) as T0.
  unfold calc_run in Hrun. rewrite Hk in Hrun. cbn [exec_quiet] in Hrun.
  set (RB := fun s => rollback_restoresD din dout HIi HIo tch Hti Hto Hnd Hlive Honly (k_rollback c) (k_nc c) s Hrb) in *.
  destruct (negb (k_check c (init_st din dout false))).
  { inversion Hrun; subst. apply RB; assumption. }
  destruct (fs =? 1).
  { inversion Hrun; subst. apply RB; assumption. }
  destruct (exec_ops (k_nc c) (k_pre c) (init_st din dout false) (budget_of fs 2 fk)) as [ok1 s1] eqn:E1.
  assert (T1 : TrackedD tch (k_rollback c) din dout s1).
  { eapply (exec_opsD din dout HIi HIo tch HtX Hpts Hnd Hlive Honly (k_rollback c) (k_nc c) (k_pre c) true _ _ _ _ T0); [|exact Hpre | exact E1].
    intro H. unfold centered, init_st in H. simpl in H. discriminate. }
  destruct ok1; simpl in Hrun; [|inversion Hrun; subst; apply RB; assumption].
  destruct (exec_ops (k_nc c) (k_run c) s1 (budget_of fs 3 fk)) as [ok2 s2] eqn:E2.
  assert (T2 : TrackedD tch (k_rollback c) din dout s2).
  { eapply (exec_opsD din dout HIi HIo tch HtX Hpts Hnd Hlive Honly (k_rollback c) (k_nc c) (k_run c) false _ _ _ _ T1); [reflexivity | exact Hbody | exact E2]. }
  destruct ok2; simpl in Hrun; [|inversion Hrun; subst; apply RB; assumption].
  destruct (exec_ops (k_nc c) (k_post c) s2 (budget_of fs 4 fk)) as [ok3 s3] eqn:E3.
  assert (ok3 = true) as ->.
  { unfold budget_of in E3. destruct (fs =? 4) eqn:E4; [apply Z.eqb_eq in E4; contradiction|].
    pose proof (Hpost s2 T2) as H. rewrite E3 in H. exact H. }
  simpl in Hrun. discriminate.
Qed.

(* C19 — lemmas: the roll-back invariant ("every column that is not original is registered, nothing else
   has changed") is preserved by the safe operations; cleaning the registered lists restores the Dbs. *)
From Coq Require Import List ZArith Bool Lia.
From Gst Require Import C19.Model C19.Calcs C19.Spec.
Import ListNotations.
Local Open Scope Z_scope.

(* ------------------------------------------------------------------ basic list / string facts *)
Lemma str_eqb_eq a b : str_eqb a b = true <-> a = b.
Proof.
  revert b; induction a as [|x a IH]; destruct b as [|y b]; simpl; split; intro H; try congruence; try reflexivity.
  - apply andb_true_iff in H as [H1 H2]. apply Z.eqb_eq in H1. apply IH in H2. congruence.
  - inversion H; subst. apply andb_true_iff; split; [apply Z.eqb_refl | apply IH; reflexivity].
Qed.

Lemma mem_str_In s l : mem_str s l = true <-> In s l.
Proof.
  unfold mem_str. rewrite existsb_exists. split.
  - intros [x [Hx He]]. apply str_eqb_eq in He. subst; exact Hx.
  - intro H. exists s. split; [exact H | apply str_eqb_eq; reflexivity].
Qed.

Lemma memz_In u l : memz u l = true <-> In u l.
Proof.
  unfold memz. rewrite existsb_exists. split.
  - intros [x [Hx He]]. apply Z.eqb_eq in He. subst; exact Hx.
  - intro H. exists u. split; [exact H | apply Z.eqb_refl].
Qed.

Lemma erase_first_notin u l : ~ In u l -> erase_first u l = l.
Proof.
  induction l as [|x l IH]; simpl; intro H; [reflexivity|].
  destruct (x =? u) eqn:E.
  - apply Z.eqb_eq in E. exfalso. apply H. left; exact E.
  - f_equal. apply IH. intro H1. apply H. right; exact H1.
Qed.

Lemma fix_name_notin f taken s : ~ In s taken -> fix_name f taken s = s.
Proof.
  destruct f; simpl; intro H; [reflexivity|].
  destruct (mem_str s taken) eqn:E; [|reflexivity].
  apply mem_str_In in E. contradiction.
Qed.

Lemma correct_dups_aux_cons prev s r :
  correct_dups_aux prev (s :: r) =
  fix_name (S (length prev)) prev s :: correct_dups_aux (prev ++ [fix_name (S (length prev)) prev s]) r.
Proof. reflexivity. Qed.

Lemma correct_dups_aux_length prev l : length (correct_dups_aux prev l) = length l.
Proof. revert prev; induction l as [|s r IH]; intro prev; simpl; [reflexivity | f_equal; apply IH]. Qed.

(* names that are already distinct (and distinct from what precedes) are left alone *)
Lemma correct_dups_aux_prefix l0 : forall prev l1,
  NoDup (prev ++ l0) -> correct_dups_aux prev (l0 ++ l1) = l0 ++ correct_dups_aux (prev ++ l0) l1.
Proof.
  induction l0 as [|s r IH]; intros prev l1 H.
  - simpl. rewrite app_nil_r. reflexivity.
  - rewrite <- app_comm_cons, correct_dups_aux_cons.
    assert (Hs : ~ In s prev).
    { apply NoDup_remove_2 in H. intro Hin. apply H. apply in_or_app. left; exact Hin. }
    rewrite (fix_name_notin _ _ _ Hs). f_equal.
    rewrite IH.
    + rewrite <- app_assoc. reflexivity.
    + rewrite <- app_assoc. simpl. exact H.
Qed.

Lemma correct_dups_prefix l0 l1 : NoDup l0 ->
  exists l1', correct_dups (l0 ++ l1) = l0 ++ l1' /\ length l1' = length l1.
Proof.
  intro H. unfold correct_dups. rewrite correct_dups_aux_prefix by exact H.
  eexists; split; [reflexivity | apply correct_dups_aux_length].
Qed.

Lemma zipnames_app a na b nb : length a = length na ->
  zipnames (a ++ b) (na ++ nb) = zipnames a na ++ zipnames b nb.
Proof.
  unfold zipnames. revert na; induction a as [|x a IH]; destruct na as [|n na]; simpl; intro H; try discriminate; [reflexivity|].
  f_equal. apply IH. congruence.
Qed.

Lemma zipnames_self a : zipnames a (map c_name a) = a.
Proof. unfold zipnames. induction a as [|x a IH]; simpl; [reflexivity|]. destruct x; simpl. f_equal. exact IH. Qed.

Lemma zipnames_uids a na : length a = length na -> map c_uid (zipnames a na) = map c_uid a.
Proof.
  unfold zipnames. revert na; induction a as [|x a IH]; destruct na as [|n na]; simpl; intro H; try discriminate; [reflexivity|].
  f_equal. apply IH. congruence.
Qed.

Lemma filter_all_true {A} (f : A -> bool) l : (forall x, In x l -> f x = true) -> filter f l = l.
Proof.
  induction l as [|x l IH]; simpl; intro H; [reflexivity|].
  rewrite (H x (or_introl eq_refl)). f_equal. apply IH. intros y Hy. apply H. right; exact Hy.
Qed.

Lemma seqz_In u n x : In x (seqz u n) <-> u <= x < u + Z.of_nat n.
Proof.
  revert u; induction n as [|n IH]; intro u; simpl.
  - split; [tauto | lia].
  - rewrite IH. split; [intros [H|H]; lia | intro H; destruct (Z.eq_dec u x); [left; assumption | right; lia]].
Qed.

Lemma mult_names_length r n : length (mult_names r n) = Z.to_nat n.
Proof. unfold mult_names. rewrite map_length, seq_length. reflexivity. Qed.

Lemma new_cols_uids n0 k (raw : list str) init : length raw = k ->
  map c_uid (map (fun p : nat * str => mkcol (n0 + Z.of_nat (fst p)) (snd p) init) (combine (seq 0 k) raw)) =
  map (fun i => n0 + Z.of_nat i) (seq 0 k).
Proof.
  intro H. rewrite map_map. simpl.
  rewrite <- (map_map fst (fun i => n0 + Z.of_nat i)). f_equal.
  clear init n0. revert raw H. generalize 0%nat. induction k as [|k IH]; intros s raw H; destruct raw; simpl in *; try discriminate; [reflexivity|].
  f_equal. apply IH. congruence.
Qed.

Lemma in_map_shift n0 k x : In x (map (fun i => n0 + Z.of_nat i) (seq 0 k)) <-> n0 <= x < n0 + Z.of_nat k.
Proof.
  rewrite in_map_iff. split.
  - intros [i [Hi Hs]]. apply in_seq in Hs. lia.
  - intro H. exists (Z.to_nat (x - n0)). split; [lia | apply in_seq; lia].
Qed.

(* ------------------------------------------------------------------ Db operations on a tracked Db *)
(* [tracked d0 d perm temp]: d is d0 plus extra columns at the end, the extra columns are exactly the
   registered ones (perm ++ temp, all fresh), and nothing else differs *)
Definition tracked (d0 d : db) (perm temp : list Z) : Prop :=
  exists ex, d_cols d = d_cols d0 ++ ex /\
    (forall u, In u (map c_uid ex) <-> In u (perm ++ temp)) /\
    (forall u, In u perm -> In u temp -> False) /\
    d_locs d = d_locs d0 /\ d_grid d = d_grid d0 /\ d_gdim d = d_gdim d0 /\
    d_nuid d0 <= d_nuid d /\
    (forall u, In u (perm ++ temp) -> d_nuid d0 <= u < d_nuid d).

Lemma tracked_init d : tracked d d [] [].
Proof.
  exists []. rewrite app_nil_r. repeat split; intros; simpl in *; try tauto; try lia.
Qed.

Lemma tracked_done d0 d : tracked d0 d [] [] -> db_eq d d0.
Proof.
  intros [ex [Hc [Hu [_ [Hl [Hg [Hd _]]]]]]].
  assert (ex = []) as ->.
  { destruct ex as [|c ex]; [reflexivity|]. exfalso. apply (Hu (c_uid c)). simpl. left; reflexivity. }
  rewrite app_nil_r in Hc. repeat split; assumption.
Qed.

Section WithInv.
Variable d0 : db.
Hypothesis HI : Inv d0.

Lemma inv_col_lt c : In c (d_cols d0) -> 0 <= c_uid c < d_nuid d0.
Proof. destruct HI as [_ [H _]]. apply H. Qed.
Lemma inv_loc_lt l u : In l (d_locs d0) -> In u l -> 0 <= u < d_nuid d0.
Proof. destruct HI as [_ [_ [H _]]]. apply H. Qed.
Lemma inv_nuid : 0 <= d_nuid d0.
Proof. destruct HI as [_ [_ [_ [_ [_ H]]]]]. exact H. Qed.
Lemma inv_names : NoDup (map c_name (d_cols d0)).
Proof. destruct HI as [_ [_ [_ [H _]]]]. exact H. Qed.

(* addColumnsByConstant without locator *)
Lemma tracked_add d perm temp n init radix idx d' u t (st1 : bool) :
  tracked d0 d perm temp -> t < 0 ->
  add_columns d n init radix t idx = (d', u) -> 0 <= u ->
  u = d_nuid d /\ 0 < n /\
  tracked d0 d' (if st1 then perm ++ seqz u (Z.to_nat n) else perm)
                (if st1 then temp else temp ++ seqz u (Z.to_nat n)).
Proof.
  intros [ex [Hc [Hu [Hdis [Hl [Hg [Hd [Hn Hr]]]]]]]] Ht Hadd Hu0.
  unfold add_columns in Hadd.
  destruct (n <=? 0) eqn:En.
  { inversion Hadd; subst. lia. }
  apply Z.leb_gt in En.
  assert (Et : (t <? 0) = true) by (apply Z.ltb_lt; exact Ht). rewrite Et in Hadd.
  inversion Hadd; subst u d'; clear Hadd.
  split; [reflexivity|]. split; [exact En|].
  set (k := Z.to_nat n).
  set (raw := if n =? 1 then [radix] else mult_names radix n).
  assert (Hraw : length raw = k).
  { unfold raw. destruct (n =? 1) eqn:E1; [apply Z.eqb_eq in E1; subst; reflexivity | apply mult_names_length]. }
  set (news := map (fun p : nat * str => mkcol (d_nuid d + Z.of_nat (fst p)) (snd p) init) (combine (seq 0 k) raw)).
  rewrite Hc. rewrite <- app_assoc. rewrite map_app.
  destruct (correct_dups_prefix (map c_name (d_cols d0)) (map c_name (ex ++ news)) inv_names) as [l1' [Hcd Hlen]].
  rewrite Hcd. rewrite zipnames_app by (rewrite map_length; reflexivity).
  rewrite zipnames_self.
  assert (Hlen' : length (ex ++ news) = length l1') by (rewrite Hlen, map_length; reflexivity).
  assert (Hnew : forall x, In x (map c_uid (zipnames (ex ++ news) l1')) <-> In x (map c_uid ex) \/ d_nuid d <= x < d_nuid d + Z.of_nat k).
  { intro x. rewrite zipnames_uids by exact Hlen'. rewrite map_app, in_app_iff.
    unfold news. rewrite new_cols_uids by exact Hraw. rewrite in_map_shift. tauto. }
  exists (zipnames (ex ++ news) l1'). simpl.
  assert (Hk : Z.of_nat k = n) by (unfold k; lia).
  repeat split; try assumption; try lia.
  - intro Hx. apply Hnew in Hx. destruct st1.
    + rewrite <- app_assoc. rewrite in_app_iff, in_app_iff, seqz_In. rewrite Hu, in_app_iff in Hx. tauto.
    + rewrite app_assoc. rewrite in_app_iff, seqz_In. rewrite Hu in Hx. tauto.
  - intro Hx. apply Hnew. destruct st1.
    + rewrite <- app_assoc in Hx. rewrite in_app_iff, in_app_iff, seqz_In in Hx. rewrite Hu, in_app_iff. tauto.
    + rewrite app_assoc in Hx. rewrite in_app_iff, seqz_In in Hx. rewrite Hu. tauto.
  - destruct st1; intros x H1 H2.
    + apply in_app_iff in H1 as [H1|H1]; [exact (Hdis x H1 H2)|].
      apply seqz_In in H1. assert (In x (perm ++ temp)) as H3 by (apply in_or_app; right; exact H2). apply Hr in H3. lia.
    + apply in_app_iff in H2 as [H2|H2]; [exact (Hdis x H1 H2)|].
      apply seqz_In in H2. assert (In x (perm ++ temp)) as H3 by (apply in_or_app; left; exact H1). apply Hr in H3. lia.
  - destruct st1.
    + rewrite <- app_assoc in H. rewrite in_app_iff, in_app_iff, seqz_In in H.
      destruct H as [H|[H|H]]; [| lia |]; (assert (In u (perm ++ temp)) as H3 by (apply in_or_app; tauto); apply Hr in H3; lia).
    + rewrite app_assoc in H. rewrite in_app_iff, seqz_In in H.
      destruct H as [H|H]; [| lia]. apply Hr in H; lia.
  - destruct st1.
    + rewrite <- app_assoc in H. rewrite in_app_iff, in_app_iff, seqz_In in H.
      destruct H as [H|[H|H]]; [| lia |]; (assert (In u (perm ++ temp)) as H3 by (apply in_or_app; tauto); apply Hr in H3; lia).
    + rewrite app_assoc in H. rewrite in_app_iff, seqz_In in H.
      destruct H as [H|H]; [| lia]. apply Hr in H; lia.
Qed.



(* deleting one registered (fresh) column *)
Lemma delete_fresh d u :
  (forall c, In c (d_cols d) -> 0 <= c_uid c < d_nuid d) ->
  (forall l, In l (d_locs d) -> ~ In u l) ->
  d_cols (delete_column d u) = filter (fun c => negb (c_uid c =? u)) (d_cols d) /\
  d_locs (delete_column d u) = d_locs d /\ d_nuid (delete_column d u) = d_nuid d /\
  d_grid (delete_column d u) = d_grid d /\ d_gdim (delete_column d u) = d_gdim d.
Proof.
  intros Hv Hl. unfold delete_column.
  destruct (uid_valid d u && has_col d u) eqn:E; simpl.
  - repeat split; try reflexivity.
    rewrite <- (map_id (d_locs d)) at 2. apply map_ext_in. intros l Hin. apply erase_first_notin. apply Hl; exact Hin.
  - repeat split; try reflexivity.
    symmetry. apply filter_all_true. intros c Hc.
    apply negb_true_iff. apply Z.eqb_neq. intro Heq.
    apply andb_false_iff in E as [E|E].
    + unfold uid_valid in E. specialize (Hv c Hc). rewrite Heq in Hv.
      apply andb_false_iff in E as [E|E]; [apply Z.leb_gt in E | apply Z.ltb_ge in E]; lia.
    + unfold has_col in E. assert (existsb (fun c0 => c_uid c0 =? u) (d_cols d) = true) as E2.
      { apply existsb_exists. exists c. split; [exact Hc | apply Z.eqb_eq; exact Heq]. }
      congruence.
Qed.

Lemma filter_filter {A} (f g : A -> bool) l : filter f (filter g l) = filter (fun x => g x && f x) l.
Proof.
  induction l as [|x l IH]; simpl; [reflexivity|].
  destruct (g x); simpl; [destruct (f x); simpl; rewrite IH; reflexivity | exact IH].
Qed.

Lemma delete_columns_fresh us : forall d,
  (forall c, In c (d_cols d) -> 0 <= c_uid c < d_nuid d) ->
  (forall l u, In l (d_locs d) -> In u us -> ~ In u l) ->
  d_cols (delete_columns d us) = filter (fun c => negb (memz (c_uid c) us)) (d_cols d) /\
  d_locs (delete_columns d us) = d_locs d /\ d_nuid (delete_columns d us) = d_nuid d /\
  d_grid (delete_columns d us) = d_grid d /\ d_gdim (delete_columns d us) = d_gdim d.
Proof.
  induction us as [|u us IH]; intros d Hv Hl; simpl.
  - repeat split; try reflexivity. symmetry. apply filter_all_true. reflexivity.
  - destruct (delete_fresh d u Hv) as [H1 [H2 [H3 [H4 H5]]]].
    { intros l Hin. apply Hl; [exact Hin | left; reflexivity]. }
    destruct (IH (delete_column d u)) as [K1 [K2 [K3 [K4 K5]]]].
    + intros c Hc. rewrite H1 in Hc. apply filter_In in Hc as [Hc _]. rewrite H3. apply Hv; exact Hc.
    + intros l x Hin Hx. rewrite H2 in Hin. apply Hl; [exact Hin | right; exact Hx].
    + unfold delete_columns in *. simpl. rewrite K1, K2, K3, K4, K5, H1, H2, H3, H4, H5.
      repeat split; try reflexivity.
      rewrite filter_filter. apply filter_ext. intro c.
      unfold memz. simpl. rewrite negb_orb. reflexivity.
Qed.

Lemma filter_app_l {A} (f : A -> bool) a b : (forall x, In x a -> f x = true) -> filter f (a ++ b) = a ++ filter f b.
Proof.
  intro H. rewrite filter_app. f_equal. apply filter_all_true. exact H.
Qed.

Lemma tracked_valid d perm temp : tracked d0 d perm temp -> forall c, In c (d_cols d) -> 0 <= c_uid c < d_nuid d.
Proof.
  intros [ex [Hc [Hu [_ [_ [_ [_ [Hn Hr]]]]]]]] c Hin. rewrite Hc in Hin. apply in_app_iff in Hin as [Hin|Hin].
  - apply inv_col_lt in Hin. lia.
  - assert (In (c_uid c) (perm ++ temp)) as H by (apply Hu; apply in_map; exact Hin). apply Hr in H. pose proof inv_nuid. lia.
Qed.

Lemma tracked_locs_fresh d perm temp : tracked d0 d perm temp ->
  forall l u, In l (d_locs d) -> In u (perm ++ temp) -> ~ In u l.
Proof.
  intros [ex [Hc [Hu [_ [Hl [_ [_ [Hn Hr]]]]]]]] l u Hin Hreg Hul. rewrite Hl in Hin.
  apply (inv_loc_lt l u Hin) in Hul. apply Hr in Hreg. lia.
Qed.

(* _cleanVariableDb on one Db: delete the permanent (resp. temporary) list *)
Lemma tracked_clean_perm d perm temp : tracked d0 d perm temp -> tracked d0 (delete_columns d perm) [] temp.
Proof.
  intro T. pose proof (tracked_valid _ _ _ T) as Hv. pose proof (tracked_locs_fresh _ _ _ T) as Hf.
  destruct (delete_columns_fresh perm d Hv) as [K1 [K2 [K3 [K4 K5]]]].
  { intros l u Hin Hu. apply Hf; [exact Hin | apply in_or_app; left; exact Hu]. }
  destruct T as [ex [Hc [Hu [Hdis [Hl [Hg [Hd [Hn Hr]]]]]]]].
  exists (filter (fun c => negb (memz (c_uid c) perm)) ex).
  rewrite K1, K2, K3, K4, K5, Hc. simpl app.
  split.
  { apply filter_app_l. intros c Hin. apply negb_true_iff. destruct (memz (c_uid c) perm) eqn:E; [|reflexivity].
    apply memz_In in E. apply inv_col_lt in Hin.
    assert (In (c_uid c) (perm ++ temp)) as H by (apply in_or_app; left; exact E). apply Hr in H. lia. }
  split.
  { intro u; split; intro H.
    - apply in_map_iff in H as [c [Hcu Hin]]. apply filter_In in Hin as [Hin Hm].
      apply negb_true_iff in Hm. assert (In u (map c_uid ex)) as H1 by (subst u; apply in_map; exact Hin).
      apply Hu in H1. apply in_app_iff in H1 as [H1|H1]; [|exact H1].
      apply memz_In in H1. subst u. congruence.
    - assert (In u (map c_uid ex)) as H1 by (apply Hu; apply in_or_app; right; exact H).
      apply in_map_iff in H1 as [c [Hcu Hin]]. apply in_map_iff. exists c. split; [exact Hcu|].
      apply filter_In. split; [exact Hin|]. apply negb_true_iff. destruct (memz (c_uid c) perm) eqn:E; [|reflexivity].
      apply memz_In in E. subst u. exfalso. exact (Hdis _ E H). }
  split. { intros u []. }
  split; [exact Hl|]. split; [exact Hg|]. split; [exact Hd|]. split; [exact Hn|].
  intros u Hu'. apply Hr. apply in_or_app; right; exact Hu'.
Qed.

Lemma tracked_clean_temp d perm temp : tracked d0 d perm temp -> tracked d0 (delete_columns d temp) perm [].
Proof.
  intro T. pose proof (tracked_valid _ _ _ T) as Hv. pose proof (tracked_locs_fresh _ _ _ T) as Hf.
  destruct (delete_columns_fresh temp d Hv) as [K1 [K2 [K3 [K4 K5]]]].
  { intros l u Hin Hu. apply Hf; [exact Hin | apply in_or_app; right; exact Hu]. }
  destruct T as [ex [Hc [Hu [Hdis [Hl [Hg [Hd [Hn Hr]]]]]]]].
  exists (filter (fun c => negb (memz (c_uid c) temp)) ex).
  rewrite K1, K2, K3, K4, K5, Hc. rewrite app_nil_r.
  split.
  { apply filter_app_l. intros c Hin. apply negb_true_iff. destruct (memz (c_uid c) temp) eqn:E; [|reflexivity].
    apply memz_In in E. apply inv_col_lt in Hin.
    assert (In (c_uid c) (perm ++ temp)) as H by (apply in_or_app; right; exact E). apply Hr in H. lia. }
  split.
  { intro u; split; intro H.
    - apply in_map_iff in H as [c [Hcu Hin]]. apply filter_In in Hin as [Hin Hm].
      apply negb_true_iff in Hm. assert (In u (map c_uid ex)) as H1 by (subst u; apply in_map; exact Hin).
      apply Hu in H1. apply in_app_iff in H1 as [H1|H1]; [exact H1|].
      apply memz_In in H1. subst u. congruence.
    - assert (In u (map c_uid ex)) as H1 by (apply Hu; apply in_or_app; left; exact H).
      apply in_map_iff in H1 as [c [Hcu Hin]]. apply in_map_iff. exists c. split; [exact Hcu|].
      apply filter_In. split; [exact Hin|]. apply negb_true_iff. destruct (memz (c_uid c) temp) eqn:E; [|reflexivity].
      apply memz_In in E. subst u. exfalso. exact (Hdis _ H E). }
  split. { intros u _ []. }
  split; [exact Hl|]. split; [exact Hg|]. split; [exact Hd|]. split; [exact Hn|].
  intros u Hu'. apply Hr. apply in_or_app; left; exact Hu'.
Qed.

(* the numerical body writes into registered variables only *)
Lemma tracked_write d perm temp us tag :
  tracked d0 d perm temp -> (forall u, In u us -> d_nuid d0 <= u) -> tracked d0 (write_cols d us tag) perm temp.
Proof.
  intros [ex [Hc [Hu [Hdis [Hl [Hg [Hd [Hn Hr]]]]]]]] Hus.
  set (f := fun c => if memz (c_uid c) us then mkcol (c_uid c) (c_name c) (Written tag) else c).
  assert (Hf : forall l, map c_uid (map f l) = map c_uid l).
  { intro l. rewrite map_map. apply map_ext. intro c. unfold f. destruct (memz (c_uid c) us); reflexivity. }
  exists (map f ex). unfold write_cols; simpl.
  split.
  { rewrite Hc, map_app. f_equal. rewrite <- (map_id (d_cols d0)) at 2. apply map_ext_in.
    intros c Hin. destruct (memz (c_uid c) us) eqn:E; [|reflexivity].
    apply memz_In in E. apply Hus in E. apply inv_col_lt in Hin. lia. }
  split. { intro u. rewrite Hf. apply Hu. }
  split; [exact Hdis|]. split; [exact Hl|]. split; [exact Hg|]. split; [exact Hd|]. split; [exact Hn|]. exact Hr.
Qed.

End WithInv.

(* ------------------------------------------------------------------ calculator states *)
Definition book_ok (rb : list op) (b : book) : Prop :=
  (cleans rb 1 = false -> b_perm_in b = [] /\ b_perm_out b = []) /\
  (cleans rb 2 = false -> b_temp_in b = [] /\ b_temp_out b = []).

(* invariant of a run on two distinct Dbs *)
Definition Tracked (rb : list op) (din dout : db) (s : st) : Prop :=
  s_alias s = false /\
  tracked din (s_in s) (b_perm_in (s_book s)) (b_temp_in (s_book s)) /\
  tracked dout (s_out s) (b_perm_out (s_book s)) (b_temp_out (s_book s)) /\
  book_ok rb (s_book s).

Lemma Tracked_init rb din dout : Tracked rb din dout (init_st din dout false).
Proof.
  unfold Tracked, init_st; simpl. repeat split; try apply tracked_init; reflexivity.
Qed.

Lemma Tracked_slot rb din dout s i v : Tracked rb din dout s -> Tracked rb din dout (set_slot s i v).
Proof. intro H; exact H. Qed.

Lemma is_perm_norm status : is_perm (if is_perm status then 1 else 2) = is_perm status.
Proof. unfold is_perm. destruct (status =? 1); reflexivity. Qed.
Lemma cleans_status rb status : cleans rb status = cleans rb (if is_perm status then 1 else 2).
Proof.
  unfold cleans. induction rb as [|o rb IH]; simpl; [reflexivity|]. rewrite IH. f_equal.
  destruct o; try reflexivity. rewrite is_perm_norm. reflexivity.
Qed.

Section Run.
Variables din dout : db.
Hypothesis HIi : Inv din.
Hypothesis HIo : Inv dout.
Variable rb : list op.

Lemma expand_noop_same t s : Tracked rb din dout s -> expand_noop t din dout = true ->
  forall mode reg, expand_information mode t reg s = (true, s).
Proof.
  intros [Ha [[exi [_ [_ [_ [Hli [Hgi [Hdi _]]]]]]] [[exo [_ [_ [_ [Hlo [Hgo [Hdo _]]]]]]] _]]] He mode reg.
  unfold expand_information, getdb. rewrite Ha.
  unfold expand_noop in He. unfold ndim, locnum in *. rewrite Hlo, Hgo, Hdo, Hli.
  destruct (d_grid dout && (t =? L_X)).
  - apply orb_true_iff in He as [He|He]; rewrite He; [reflexivity|]. destruct (_ <=? 0); reflexivity.
  - apply orb_true_iff in He as [He|He]; rewrite He; [reflexivity|]. destruct (_ <=? 0); reflexivity.
Qed.

Lemma exec_op_safe nc o s ok s' :
  Tracked rb din dout s -> safe_op rb din dout o = true -> exec_op nc o s = (ok, s') -> Tracked rb din dout s'.
Proof.
  intros T Hs He. destruct o; simpl in Hs; try discriminate.
  - (* OAdd *)
    apply andb_true_iff in Hs as [Ht Hcl]. apply Z.ltb_lt in Ht.
    simpl in He. unfold add_variable in He.
    destruct (add_columns (getdb w s) (n s) init [] t 0) as [d' u] eqn:Ea.
    destruct (u <? 0) eqn:Eu.
    { inversion He; subst. apply Tracked_slot; exact T. }
    apply Z.ltb_ge in Eu. inversion He; subst ok s'; clear He. apply Tracked_slot.
    destruct T as [Ha [Ti [To [Hb1 Hb2]]]].
    rewrite cleans_status in Hcl.
    destruct w; unfold getdb in Ea; [|rewrite Ha in Ea].
    + destruct (tracked_add din HIi _ _ _ _ _ _ _ _ _ _ (is_perm status) Ti Ht Ea Eu) as [_ [_ T2]].
      unfold Tracked, setdb, with_book, store_in_list, is_perm in *; simpl.
      destruct (status =? 1) eqn:Es; simpl; (split; [exact Ha|]); (split; [exact T2|]); (split; [exact To|]);
        split; intro Hc; try congruence; first [apply Hb1 in Hc; tauto | apply Hb2 in Hc; tauto].
    + destruct (tracked_add dout HIo _ _ _ _ _ _ _ _ _ _ (is_perm status) To Ht Ea Eu) as [_ [_ T2]].
      unfold Tracked, setdb, with_book, store_in_list, is_perm in *; simpl. rewrite Ha.
      destruct (status =? 1) eqn:Es; simpl; (split; [first [exact Ha | reflexivity]|]); (split; [exact Ti|]); (split; [exact T2|]);
        split; intro Hc; try congruence; first [apply Hb1 in Hc; tauto | apply Hb2 in Hc; tauto].
  - (* OClean *)
    simpl in He. inversion He; subst ok s'; clear He.
    destruct T as [Ha [Ti [To [Hb1 Hb2]]]].
    destruct s as [si so al bk sl]. simpl in *. subst al.
    unfold clean_variables, getdb, setdb, with_book. simpl.
    destruct (status =? 1); simpl.
    + split; [reflexivity|]. split; [apply tracked_clean_perm; assumption|]. split; [apply tracked_clean_perm; assumption|].
      split; intro Hc; [tauto | apply Hb2; exact Hc].
    + split; [reflexivity|]. split; [apply tracked_clean_temp; assumption|]. split; [apply tracked_clean_temp; assumption|].
      split; intro Hc; [apply Hb1; exact Hc | tauto].
  - (* OExpand *)
    simpl in He. rewrite (expand_noop_same _ _ T Hs) in He. inversion He; subst; exact T.
  - (* OBody *)
    simpl in He. inversion He; subst ok s'; clear He.
    destruct T as [Ha [Ti [To [Hb1 Hb2]]]].
    destruct s as [si so al bk sl]. simpl in *. subst al.
    unfold all_registered, getdb, setdb. simpl. rewrite !app_nil_r.
    split; [reflexivity|]. split; [|split; [|split; assumption]].
    + apply tracked_write; [exact HIi | exact Ti|]. intros u Hu.
      destruct Ti as [ex [_ [_ [_ [_ [_ [_ [_ Hr]]]]]]]]. apply Hr in Hu. lia.
    + apply tracked_write; [exact HIo | exact To|]. intros u Hu.
      destruct To as [ex [_ [_ [_ [_ [_ [_ [_ Hr]]]]]]]]. apply Hr in Hu. lia.
Qed.

Lemma exec_ops_safe nc ops : forall s b ok s',
  Tracked rb din dout s -> forallb (safe_op rb din dout) ops = true -> exec_ops nc ops s b = (ok, s') -> Tracked rb din dout s'.
Proof.
  induction ops as [|o r IH]; intros s b ok s' T Hs He; simpl in He.
  - inversion He; subst; exact T.
  - simpl in Hs. apply andb_true_iff in Hs as [Ho Hr].
    destruct b as [[|k]|].
    + inversion He; subst; exact T.
    + destruct (exec_op nc o s) as [ok1 s1] eqn:E1. pose proof (exec_op_safe _ _ _ _ _ T Ho E1) as T1.
      destruct ok1; [exact (IH _ _ _ _ T1 Hr He) | inversion He; subst; exact T1].
    + destruct (exec_op nc o s) as [ok1 s1] eqn:E1. pose proof (exec_op_safe _ _ _ _ _ T Ho E1) as T1.
      destruct ok1; [exact (IH _ _ _ _ T1 Hr He) | inversion He; subst; exact T1].
Qed.

(* operations that cannot report a failure never make a stage fail (without injected failure) *)
Lemma exec_ops_cannot_fail nc ops : forall s, forallb cannot_fail ops = true -> fst (exec_ops nc ops s None) = true.
Proof.
  induction ops as [|o r IH]; intros s H; simpl; [reflexivity|].
  simpl in H. apply andb_true_iff in H as [Ho Hr].
  destruct (exec_op nc o s) as [ok1 s1] eqn:E1.
  assert (ok1 = true) as ->.
  { destruct o; simpl in Ho; try discriminate; simpl in E1;
      try (match type of E1 with (if ?b then _ else _) = _ => destruct b end); inversion E1; reflexivity. }
  simpl. apply IH; exact Hr.
Qed.

(* the roll-back: only cleaning operations; afterwards the lists it cleans are empty *)
Definition lists_empty (perm temp : bool) (b : book) : Prop :=
  (perm = true -> b_perm_in b = [] /\ b_perm_out b = []) /\ (temp = true -> b_temp_in b = [] /\ b_temp_out b = []).

Lemma exec_quiet_clean nc ops : forall s (p t : bool),
  Tracked rb din dout s -> forallb only_clean ops = true -> lists_empty p t (s_book s) ->
  let s' := exec_quiet nc ops s in
  Tracked rb din dout s' /\ lists_empty (p || cleans ops 1) (t || cleans ops 2) (s_book s').
Proof.
  induction ops as [|o r IH]; intros s p t T Hc Hl; simpl.
  - unfold cleans; simpl. rewrite !orb_false_r. split; assumption.
  - simpl in Hc. apply andb_true_iff in Hc as [Ho Hr]. destruct o; simpl in Ho; try discriminate.
    assert (T1 : Tracked rb din dout (clean_variables status s)).
    { apply (exec_op_safe nc (OClean status) s true); [exact T | reflexivity | reflexivity]. }
    assert (Hl1 : lists_empty (p || is_perm status) (t || negb (is_perm status)) (s_book (clean_variables status s))).
    { destruct T as [Ha _]. destruct Hl as [Hp Ht]. destruct s as [si so al bk sl]. simpl in *. subst al.
      unfold clean_variables, is_perm, setdb, getdb, with_book. simpl.
      destruct (status =? 1); simpl; split; intro H; rewrite ?orb_true_r, ?orb_false_r in H; try (split; reflexivity).
      - apply Ht; exact H.
      - apply Hp; exact H. }
    destruct (IH _ _ _ T1 Hr Hl1) as [T2 Hl2]. split; [exact T2|].
    unfold cleans in *. simpl. unfold is_perm at 1 3. simpl.
    replace (Bool.eqb (status =? 1) true) with (is_perm status) by (unfold is_perm; destruct (status =? 1); reflexivity).
    replace (Bool.eqb (status =? 1) false) with (negb (is_perm status)) by (unfold is_perm; destruct (status =? 1); reflexivity).
    rewrite !orb_assoc. exact Hl2.
Qed.

Lemma rollback_restores nc s :
  Tracked rb din dout s -> forallb only_clean rb = true ->
  db_eq (s_in (exec_quiet nc rb s)) din /\ db_eq (s_out (exec_quiet nc rb s)) dout.
Proof.
  intros T Hc.
  destruct (exec_quiet_clean nc rb s false false T Hc) as [[Ha [Ti [To [Hb1 Hb2]]]] [Hp Ht]].
  { split; intro H; discriminate. }
  simpl in Hp, Ht.
  assert (b_perm_in (s_book (exec_quiet nc rb s)) = [] /\ b_perm_out (s_book (exec_quiet nc rb s)) = []) as [P1 P2].
  { destruct (cleans rb 1) eqn:E; [apply Hp; reflexivity | apply Hb1; reflexivity]. }
  assert (b_temp_in (s_book (exec_quiet nc rb s)) = [] /\ b_temp_out (s_book (exec_quiet nc rb s)) = []) as [Q1 Q2].
  { destruct (cleans rb 2) eqn:E; [apply Ht; reflexivity | apply Hb2; reflexivity]. }
  rewrite P1, Q1 in Ti. rewrite P2, Q2 in To.
  split; apply tracked_done; assumption.
Qed.

End Run.

(* ------------------------------------------------------------------ the generic theorem *)
Theorem atomic_generic (c : calc) (din dout : db) (fs : Z) (fk : nat) (s' : st) :
  Inv din -> Inv dout -> wf_atomic c din dout = true -> fs <> 4 ->
  calc_run c (init_st din dout false) fs fk = (false, s') ->
  db_eq (s_in s') din /\ db_eq (s_out s') dout.
Proof.
  intros HIi HIo Hwf Hfs Hrun.
  unfold wf_atomic in Hwf. apply andb_true_iff in Hwf as [Hwf Hrb]. apply andb_true_iff in Hwf as [Hwf Hpost].
  apply andb_true_iff in Hwf as [Hwf Hbody]. apply andb_true_iff in Hwf as [Hini Hpre].
  assert (k_init c = []) as Hk by (destruct (k_init c); [reflexivity | discriminate]).
  pose proof (Tracked_init (k_rollback c) din dout) as T0.
  unfold calc_run in Hrun. rewrite Hk in Hrun. cbn [exec_quiet] in Hrun.
  set (RB := fun s => rollback_restores din dout HIi HIo (k_rollback c) (k_nc c) s) in *.
  destruct (negb (k_check c (init_st din dout false))).
  { inversion Hrun; subst. apply RB; assumption. }
  destruct (fs =? 1).
  { inversion Hrun; subst. apply RB; assumption. }
  destruct (exec_ops (k_nc c) (k_pre c) (init_st din dout false) (budget_of fs 2 fk)) as [ok1 s1] eqn:E1.
  pose proof (exec_ops_safe din dout HIi HIo _ _ _ _ _ _ _ T0 Hpre E1) as T1.
  destruct ok1; simpl in Hrun; [|inversion Hrun; subst; apply RB; assumption].
  destruct (exec_ops (k_nc c) (k_run c) s1 (budget_of fs 3 fk)) as [ok2 s2] eqn:E2.
  pose proof (exec_ops_safe din dout HIi HIo _ _ _ _ _ _ _ T1 Hbody E2) as T2.
  destruct ok2; simpl in Hrun; [|inversion Hrun; subst; apply RB; assumption].
  destruct (exec_ops (k_nc c) (k_post c) s2 (budget_of fs 4 fk)) as [ok3 s3] eqn:E3.
  assert (ok3 = true) as ->.
  { unfold budget_of in E3. destruct (fs =? 4) eqn:E4; [apply Z.eqb_eq in E4; contradiction|].
    pose proof (exec_ops_cannot_fail (k_nc c) (k_post c) s2 Hpost) as H. rewrite E3 in H. exact H. }
  simpl in Hrun. discriminate.
Qed.

(* ------------------------------------------------------------------ Inv: boolean version, preservation *)
Lemma nodupb_Z l : nodupb Z.eqb l = true -> NoDup l.
Proof.
  induction l as [|x l IH]; simpl; intro H; [constructor|].
  apply andb_true_iff in H as [H1 H2]. constructor; [|apply IH; exact H2].
  intro Hin. apply negb_true_iff in H1. assert (existsb (Z.eqb x) l = true) as E; [|congruence].
  apply existsb_exists. exists x. split; [exact Hin | apply Z.eqb_refl].
Qed.
Lemma nodupb_str l : nodupb str_eqb l = true -> NoDup l.
Proof.
  induction l as [|x l IH]; simpl; intro H; [constructor|].
  apply andb_true_iff in H as [H1 H2]. constructor; [|apply IH; exact H2].
  intro Hin. apply negb_true_iff in H1. assert (existsb (str_eqb x) l = true) as E; [|congruence].
  apply existsb_exists. exists x. split; [exact Hin | apply str_eqb_eq; reflexivity].
Qed.

Lemma invb_sound d : invb d = true -> Inv d.
Proof.
  unfold invb, Inv. intro H.
  apply andb_true_iff in H as [H HF]. apply andb_true_iff in H as [H HE]. apply andb_true_iff in H as [H HD].
  apply andb_true_iff in H as [H HC]. apply andb_true_iff in H as [HA HB].
  split; [apply nodupb_Z; assumption|].
  split. { intros c Hc. rewrite forallb_forall in HB. specialize (HB c Hc).
           apply andb_true_iff in HB as [A B]. apply Z.leb_le in A. apply Z.ltb_lt in B. lia. }
  split. { intros l u Hl Hu. rewrite forallb_forall in HC. specialize (HC l Hl).
           rewrite forallb_forall in HC. specialize (HC u Hu).
           apply andb_true_iff in HC as [A B]. apply Z.leb_le in A. apply Z.ltb_lt in B. lia. }
  split; [apply nodupb_str; assumption|].
  split; [apply Nat.eqb_eq; assumption | apply Z.leb_le; assumption].
Qed.

Lemma tracked_done_inv d0 d : Inv d0 -> tracked d0 d [] [] -> Inv d.
Proof.
  intros [I1 [I2 [I3 [I4 [I5 I6]]]]] [ex [Hc [Hu [_ [Hl [Hg [Hd [Hn _]]]]]]]].
  assert (ex = []) as ->.
  { destruct ex as [|c ex]; [reflexivity|]. exfalso. apply (Hu (c_uid c)). simpl. left; reflexivity. }
  rewrite app_nil_r in Hc. unfold Inv. rewrite Hc, Hl.
  split; [exact I1|]. split; [intros c Hin; specialize (I2 c Hin); lia|].
  split; [intros l u Hi Hj; specialize (I3 l u Hi Hj); lia|].
  split; [exact I4|]. split; [exact I5 | lia].
Qed.

Lemma rollback_restores_inv din dout rb nc s :
  Inv din -> Inv dout ->
  Tracked rb din dout s -> forallb only_clean rb = true ->
  Inv (s_in (exec_quiet nc rb s)) /\ Inv (s_out (exec_quiet nc rb s)).
Proof.
  intros HIi HIo T Hc.
  destruct (exec_quiet_clean din dout HIi HIo rb nc rb s false false T Hc) as [[Ha [Ti [To [Hb1 Hb2]]]] [Hp Ht]].
  { split; intro H; discriminate. }
  simpl in Hp, Ht.
  assert (b_perm_in (s_book (exec_quiet nc rb s)) = [] /\ b_perm_out (s_book (exec_quiet nc rb s)) = []) as [P1 P2].
  { destruct (cleans rb 1) eqn:E; [apply Hp; reflexivity | apply Hb1; reflexivity]. }
  assert (b_temp_in (s_book (exec_quiet nc rb s)) = [] /\ b_temp_out (s_book (exec_quiet nc rb s)) = []) as [Q1 Q2].
  { destruct (cleans rb 2) eqn:E; [apply Ht; reflexivity | apply Hb2; reflexivity]. }
  rewrite P1, Q1 in Ti. rewrite P2, Q2 in To.
  split; [apply (tracked_done_inv din) | apply (tracked_done_inv dout)]; assumption.
Qed.

Theorem usable_generic (c : calc) (din dout : db) (fs : Z) (fk : nat) (s' : st) :
  Inv din -> Inv dout -> wf_atomic c din dout = true -> fs <> 4 ->
  calc_run c (init_st din dout false) fs fk = (false, s') ->
  Inv (s_in s') /\ Inv (s_out s').
Proof.
  intros HIi HIo Hwf Hfs Hrun.
  unfold wf_atomic in Hwf. apply andb_true_iff in Hwf as [Hwf Hrb]. apply andb_true_iff in Hwf as [Hwf Hpost].
  apply andb_true_iff in Hwf as [Hwf Hbody]. apply andb_true_iff in Hwf as [Hini Hpre].
  assert (k_init c = []) as Hk by (destruct (k_init c); [reflexivity | discriminate]).
  pose proof (Tracked_init (k_rollback c) din dout) as T0.
  unfold calc_run in Hrun. rewrite Hk in Hrun. cbn [exec_quiet] in Hrun.
  set (RB := fun s => rollback_restores_inv din dout (k_rollback c) (k_nc c) s HIi HIo) in *.
  destruct (negb (k_check c (init_st din dout false))).
  { inversion Hrun; subst. apply RB; assumption. }
  destruct (fs =? 1).
  { inversion Hrun; subst. apply RB; assumption. }
  destruct (exec_ops (k_nc c) (k_pre c) (init_st din dout false) (budget_of fs 2 fk)) as [ok1 s1] eqn:E1.
  pose proof (exec_ops_safe din dout HIi HIo _ _ _ _ _ _ _ T0 Hpre E1) as T1.
  destruct ok1; simpl in Hrun; [|inversion Hrun; subst; apply RB; assumption].
  destruct (exec_ops (k_nc c) (k_run c) s1 (budget_of fs 3 fk)) as [ok2 s2] eqn:E2.
  pose proof (exec_ops_safe din dout HIi HIo _ _ _ _ _ _ _ T1 Hbody E2) as T2.
  destruct ok2; simpl in Hrun; [|inversion Hrun; subst; apply RB; assumption].
  destruct (exec_ops (k_nc c) (k_post c) s2 (budget_of fs 4 fk)) as [ok3 s3] eqn:E3.
  assert (ok3 = true) as ->.
  { unfold budget_of in E3. destruct (fs =? 4) eqn:E4; [apply Z.eqb_eq in E4; contradiction|].
    pose proof (exec_ops_cannot_fail (k_nc c) (k_post c) s2 Hpost) as H. rewrite E3 in H. exact H. }
  simpl in Hrun. discriminate.
Qed.

(* C19 — the decidable bookkeeping conditions hold for the calculator instances (under the stated options). *)
From Coq Require Import List ZArith Bool Lia.
From Gst Require Import C19.Model C19.Calcs C19.Spec C19.Proofs.
Import ListNotations.
Local Open Scope Z_scope.

Lemma forallb_if {A} (f : A -> bool) (b : bool) l : forallb f l = true -> forallb f (if b then l else []) = true.
Proof. destruct b; [tauto | reflexivity]. Qed.

Arguments rollback_std : simpl never.
Arguments kriging_post : simpl never.
Arguments kriging_pre : simpl never.
Arguments pre_interp : simpl never.

Ltac split_ifs := repeat match goal with |- context [if ?b then _ else _] => destruct b end.

Lemma pre_interp_safe rb c din dout :
  expand_noop L_F din dout = true -> expand_noop L_NOSTAT din dout = true ->
  forallb (safe_op rb din dout) (pre_interp c) = true.
Proof.
  intros HF HN. unfold pre_interp. rewrite forallb_app. apply andb_true_intro; split.
  - apply forallb_if. simpl. rewrite HF. reflexivity.
  - simpl. rewrite HN. reflexivity.
Qed.

Lemma rollback_std_clean c : forallb only_clean (rollback_std c false) = true.
Proof. unfold rollback_std. destruct (g_fixed c); reflexivity. Qed.
Lemma rollback_std_cleans_perm c r : cleans (rollback_std c r) 1 = true.
Proof. unfold rollback_std. destruct (g_fixed c); reflexivity. Qed.
Lemma rollback_std_cleans_temp c r : g_fixed c = true -> cleans (rollback_std c r) 2 = true.
Proof. unfold rollback_std. intros ->. reflexivity. Qed.

(* CalcKriging: not DGM; outputs permanent (all targets) or roll-back as in the proposed fix *)
Lemma wf_kriging c gout din dout :
  g_dgm c = false -> (g_single c < 0 \/ g_fixed c = true) ->
  expand_noop L_F din dout = true -> expand_noop L_NOSTAT din dout = true ->
  wf_atomic (kriging c gout) din dout = true.
Proof.
  intros Hd Hs HF HN.
  assert (Hst : cleans (rollback_std c false) (if 0 <=? g_single c then 2 else 1) = true).
  { destruct Hs as [Hs|Hs].
    - assert ((0 <=? g_single c) = false) as -> by (apply Z.leb_gt; exact Hs). apply rollback_std_cleans_perm.
    - destruct (0 <=? g_single c); [apply rollback_std_cleans_temp; exact Hs | apply rollback_std_cleans_perm]. }
  assert (Hpre : forallb (safe_op (rollback_std c false) din dout) (kriging_pre c gout) = true).
  { unfold kriging_pre. rewrite Hd. simpl. rewrite !forallb_app.
    repeat (apply andb_true_intro; split); try (apply forallb_if; simpl; rewrite Hst; reflexivity); try reflexivity.
    apply pre_interp_safe; assumption. }
  assert (Hpost : forallb cannot_fail (kriging_post c) = true).
  { unfold kriging_post. rewrite Hd. split_ifs; reflexivity. }
  unfold wf_atomic.
  change (k_pre (kriging c gout)) with (kriging_pre c gout).
  change (k_run (kriging c gout)) with [OBody 3].
  change (k_post (kriging c gout)) with (kriging_post c).
  change (k_rollback (kriging c gout)) with (rollback_std c (g_dgm c)).
  rewrite Hd, Hpre, Hpost, rollback_std_clean. reflexivity.
Qed.

Lemma wf_migrate c din dout : wf_atomic (migrate c) din dout = true.
Proof.
  unfold wf_atomic, migrate; simpl. rewrite rollback_std_clean, rollback_std_cleans_perm. simpl.
  destruct (g_locate c); reflexivity.
Qed.

Lemma wf_stats c gout din dout : wf_atomic (stats c gout) din dout = true.
Proof.
  unfold wf_atomic, stats; simpl. rewrite rollback_std_clean.
  destruct (g_mode c =? 0); simpl; rewrite rollback_std_cleans_perm; reflexivity.
Qed.

Lemma wf_simpleint c din dout :
  expand_noop L_F din dout = true -> expand_noop L_NOSTAT din dout = true ->
  wf_atomic (simpleint c) din dout = true.
Proof.
  intros HF HN. unfold wf_atomic, simpleint; simpl. rewrite rollback_std_clean.
  rewrite !forallb_app. rewrite pre_interp_safe by assumption. simpl.
  destruct (g_est c), (g_std c); simpl; rewrite ?rollback_std_cleans_perm; reflexivity.
Qed.

(* CalcGridToGrid: without the auxiliary temporary variable of the "shrink" option, or with the fixed roll-back *)
Lemma wf_g2g c din dout : (g_mode c <> 1 \/ g_fixed c = true) -> wf_atomic (g2g c) din dout = true.
Proof.
  intro H. unfold wf_atomic, g2g; simpl. rewrite rollback_std_clean, rollback_std_cleans_perm. simpl.
  destruct (g_mode c =? 1) eqn:E; simpl; [|reflexivity].
  destruct H as [H|H]; [apply Z.eqb_eq in E; contradiction|]. rewrite (rollback_std_cleans_temp _ _ H). reflexivity.
Qed.

Lemma wf_image c opkey din dout :
  expand_noop L_F din dout = true -> expand_noop L_NOSTAT din dout = true ->
  wf_atomic (image c opkey) din dout = true.
Proof.
  intros HF HN. unfold wf_atomic, image; simpl. rewrite rollback_std_clean.
  rewrite !forallb_app. rewrite pre_interp_safe by assumption. simpl.
  destruct (g_mode c =? 0), (g_mode c =? 1); simpl; rewrite ?rollback_std_cleans_perm; reflexivity.
Qed.

Lemma wf_global c gout din dout :
  expand_noop L_F din dout = true -> expand_noop L_NOSTAT din dout = true ->
  wf_atomic (global c gout) din dout = true.
Proof.
  intros HF HN. unfold wf_atomic, global; simpl. rewrite rollback_std_clean.
  rewrite pre_interp_safe by assumption. reflexivity.
Qed.

(* ------------------------------------------------------------------ conditions of the success theorem *)
From Gst Require Import C19.ProofsSuccess.

Lemma pre_interp_safe_s c din dout :
  expand_noop L_F din dout = true -> expand_noop L_NOSTAT din dout = true ->
  forallb (safe_pre_s din dout) (pre_interp c) = true.
Proof.
  intros HF HN. unfold pre_interp. rewrite forallb_app. apply andb_true_intro; split.
  - apply forallb_if. simpl. rewrite HF. reflexivity.
  - simpl. rewrite HN. reflexivity.
Qed.

Lemma slot_ok_app p1 p2 w k : slot_ok (p1 ++ p2) w k = slot_ok p1 w k && slot_ok p2 w k.
Proof. unfold slot_ok. apply forallb_app. Qed.
Lemma slot_ok_if (b : bool) l w k : slot_ok l w k = true -> slot_ok (if b then l else []) w k = true.
Proof. destruct b; [tauto | reflexivity]. Qed.
Lemma slot_ok_pre_interp c w k : slot_ok (pre_interp c) w k = true.
Proof. unfold pre_interp. rewrite slot_ok_app. apply andb_true_intro; split; [apply slot_ok_if|]; reflexivity. Qed.
Lemma slot_ok_add1 w st t n init sl k : slot_ok [OAdd w st t n init sl] w k = true.
Proof. unfold slot_ok; simpl. destruct w; simpl; rewrite orb_true_r; reflexivity. Qed.

Lemma slot_ok_kriging c gout k : g_dgm c = false -> slot_ok (kriging_pre c gout) WOut k = true.
Proof.
  intro Hd. unfold kriging_pre. rewrite Hd. simpl. rewrite !slot_ok_app.
  repeat (apply andb_true_intro; split); try (apply slot_ok_if; apply slot_ok_add1); try reflexivity.
  apply slot_ok_pre_interp.
Qed.

Lemma wf_success_kriging c gout din dout :
  g_dgm c = false -> expand_noop L_F din dout = true -> expand_noop L_NOSTAT din dout = true ->
  wf_success (kriging c gout) din dout = true.
Proof.
  intros Hd HF HN.
  assert (Hpre : forallb (safe_pre_s din dout) (kriging_pre c gout) = true).
  { unfold kriging_pre. rewrite Hd. simpl. rewrite !forallb_app.
    repeat (apply andb_true_intro; split); try (apply forallb_if; reflexivity); try reflexivity.
    apply pre_interp_safe_s; assumption. }
  assert (Hpost : forallb (safe_post_s (kriging_pre c gout)) (kriging_post c) = true).
  { unfold kriging_post, rn. rewrite Hd.
    split_ifs; simpl; rewrite ?(slot_ok_kriging c gout _ Hd); reflexivity. }
  assert (Hcl : cleans (kriging_post c) 2 = true) by reflexivity.
  unfold wf_success.
  change (k_pre (kriging c gout)) with (kriging_pre c gout).
  change (k_run (kriging c gout)) with [OBody 3].
  change (k_post (kriging c gout)) with (kriging_post c).
  rewrite Hpre, Hpost, Hcl. reflexivity.
Qed.

Lemma wf_success_migrate c din dout : g_locate c = false -> wf_success (migrate c) din dout = true.
Proof. intro H. unfold wf_success, migrate; simpl. rewrite H. reflexivity. Qed.

Lemma wf_success_stats c gout din dout : wf_success (stats c gout) din dout = true.
Proof. unfold wf_success, stats; simpl. destruct (g_mode c =? 0); reflexivity. Qed.

Lemma wf_success_simpleint c din dout :
  expand_noop L_F din dout = true -> expand_noop L_NOSTAT din dout = true ->
  wf_success (simpleint c) din dout = true.
Proof.
  intros HF HN. unfold wf_success, simpleint; simpl.
  rewrite !forallb_app. rewrite pre_interp_safe_s by assumption. simpl.
  rewrite !slot_ok_app, !slot_ok_pre_interp. simpl.
  destruct (g_est c), (g_std c); reflexivity.
Qed.

Lemma wf_success_g2g c din dout : wf_success (g2g c) din dout = true.
Proof. unfold wf_success, g2g; simpl. destruct (g_mode c =? 1); reflexivity. Qed.

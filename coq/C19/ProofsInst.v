(* C19 — the decidable bookkeeping conditions hold for the calculator instances (under the stated options). *)
From Coq Require Import List ZArith Bool Lia.
From Gst Require Import C19.Model C19.Calcs C19.Spec C19.Proofs.
Import ListNotations.
Local Open Scope Z_scope.

Lemma forallb_if {A} (f : A -> bool) (b : bool) l : forallb f l = true -> forallb f (if b then l else []) = true.
Proof. destruct b; [tauto | reflexivity]. Qed.

Arguments rollback_std : simpl never.
Arguments kriging_post : simpl never.
Arguments kriging_pre : simpl never.
Arguments pre_interp : simpl never.

Ltac split_ifs := repeat match goal with |- context [if ?b then _ else _] => destruct b end.

Lemma pre_interp_safe rb c din dout :
  expand_noop L_F din dout = true -> expand_noop L_NOSTAT din dout = true ->
  forallb (safe_op rb din dout) (pre_interp c) = true.
Proof.
  intros HF HN. unfold pre_interp. rewrite forallb_app. apply andb_true_intro; split.
  - apply forallb_if. simpl. rewrite HF. reflexivity.
  - simpl. rewrite HN. reflexivity.
Qed.

Lemma rollback_std_clean c : forallb only_clean (rollback_std c false) = true.
Proof. unfold rollback_std. destruct (g_rb2 c); reflexivity. Qed.
Lemma rollback_std_cleans c r status : (is_perm status = true \/ g_rb2 c = true) -> cleans (rollback_std c r) status = true.
Proof.
  unfold rollback_std, cleans, is_perm. intros [H|H].
  - simpl. rewrite H. reflexivity.
  - rewrite H. simpl. destruct (status =? 1); reflexivity.
Qed.

(* CalcKriging: every option except DGM (all targets or single target) *)
Lemma wf_kriging c gout din dout :
  g_dgm c = false -> (g_single c < 0 \/ g_rb2 c = true) ->
  expand_noop L_F din dout = true -> expand_noop L_NOSTAT din dout = true ->
  wf_atomic (kriging c gout) din dout = true.
Proof.
  intros Hd Hs HF HN.
  assert (Hst : cleans (rollback_std c false) (if 0 <=? g_single c then 2 else 1) = true).
  { apply rollback_std_cleans. destruct Hs as [Hs|Hs]; [|right; exact Hs].
    left. assert ((0 <=? g_single c) = false) as -> by (apply Z.leb_gt; exact Hs). reflexivity. }
  assert (Hpre : forallb (safe_op (rollback_std c false) din dout) (kriging_pre c gout) = true).
  { unfold kriging_pre. rewrite Hd. simpl. rewrite !forallb_app.
    repeat (apply andb_true_intro; split); try (apply forallb_if; cbn [forallb safe_op Z.ltb Z.compare andb]; rewrite Hst; reflexivity); try reflexivity.
    apply pre_interp_safe; assumption. }
  assert (Hpost : forallb cannot_fail (kriging_post c) = true).
  { unfold kriging_post. rewrite Hd. split_ifs; reflexivity. }
  unfold wf_atomic.
  change (k_init (kriging c gout)) with (@nil op).
  change (k_pre (kriging c gout)) with (kriging_pre c gout).
  change (k_run (kriging c gout)) with [OBody 3].
  change (k_post (kriging c gout)) with (kriging_post c).
  change (k_rollback (kriging c gout)) with (rollback_std c (g_dgm c)).
  rewrite Hd, Hpre, Hpost, rollback_std_clean. reflexivity.
Qed.

Lemma wf_migrate c din dout : wf_atomic (migrate c) din dout = true.
Proof.
  unfold wf_atomic, migrate; cbn [k_init k_pre k_run k_post k_rollback is_nil].
  rewrite rollback_std_clean. cbn [forallb safe_op Z.ltb Z.compare andb].
  rewrite (rollback_std_cleans c false 1) by (left; reflexivity). destruct (g_locate c); reflexivity.
Qed.

Lemma wf_stats c gout din dout : wf_atomic (stats c gout) din dout = true.
Proof.
  unfold wf_atomic, stats; cbn [k_init k_pre k_run k_post k_rollback is_nil].
  rewrite rollback_std_clean.
  destruct (g_mode c =? 0); cbn [forallb safe_op Z.ltb Z.compare andb cannot_fail];
    rewrite (rollback_std_cleans c false 1) by (left; reflexivity); reflexivity.
Qed.

Lemma wf_anam c din dout : wf_atomic (anam c) din dout = true.
Proof.
  unfold wf_atomic, anam; cbn [k_init k_pre k_run k_post k_rollback is_nil].
  rewrite rollback_std_clean.
  destruct (g_mode c =? 0); cbn [forallb safe_op Z.ltb Z.compare andb cannot_fail];
    rewrite (rollback_std_cleans c false 1) by (left; reflexivity); reflexivity.
Qed.

Lemma wf_simpleint c din dout :
  expand_noop L_F din dout = true -> expand_noop L_NOSTAT din dout = true ->
  wf_atomic (simpleint c) din dout = true.
Proof.
  intros HF HN. unfold wf_atomic, simpleint; cbn [k_init k_pre k_run k_post k_rollback is_nil].
  rewrite rollback_std_clean. rewrite !forallb_app. rewrite pre_interp_safe by assumption.
  destruct (g_est c), (g_std c); cbn [forallb safe_op Z.ltb Z.compare andb cannot_fail app];
    rewrite ?(rollback_std_cleans c false 1) by (left; reflexivity); reflexivity.
Qed.

(* CalcGridToGrid, including the auxiliary temporary variable of the "shrink" option *)
Lemma wf_g2g c din dout : (g_mode c <> 1 \/ g_rb2 c = true) -> wf_atomic (g2g c) din dout = true.
Proof.
  intro H. unfold wf_atomic, g2g; cbn [k_init k_pre k_run k_post k_rollback is_nil].
  rewrite rollback_std_clean.
  destruct (g_mode c =? 1) eqn:E; cbn [forallb safe_op Z.ltb Z.compare andb cannot_fail];
    rewrite (rollback_std_cleans c false 1) by (left; reflexivity); [|reflexivity].
  destruct H as [H|H]; [apply Z.eqb_eq in E; contradiction|].
  rewrite (rollback_std_cleans c false 2) by (right; exact H). reflexivity.
Qed.

Lemma wf_image c opkey din dout :
  expand_noop L_F din dout = true -> expand_noop L_NOSTAT din dout = true ->
  wf_atomic (image c opkey) din dout = true.
Proof.
  intros HF HN. unfold wf_atomic, image; cbn [k_init k_pre k_run k_post k_rollback is_nil].
  rewrite rollback_std_clean. rewrite !forallb_app. rewrite pre_interp_safe by assumption.
  destruct (g_mode c =? 0), (g_mode c =? 1); cbn [forallb safe_op Z.ltb Z.compare andb cannot_fail];
    rewrite (rollback_std_cleans c false 1) by (left; reflexivity); reflexivity.
Qed.

Lemma wf_global c gout din dout :
  expand_noop L_F din dout = true -> expand_noop L_NOSTAT din dout = true ->
  wf_atomic (global c gout) din dout = true.
Proof.
  intros HF HN. unfold wf_atomic, global; cbn [k_init k_pre k_run k_post k_rollback is_nil].
  rewrite rollback_std_clean. rewrite pre_interp_safe by assumption. reflexivity.
Qed.

(* ------------------------------------------------------------------ conditions of the success theorem *)
From Gst Require Import C19.ProofsSuccess.

Lemma pre_interp_safe_s c din dout :
  expand_noop L_F din dout = true -> expand_noop L_NOSTAT din dout = true ->
  forallb (safe_pre_s din dout) (pre_interp c) = true.
Proof.
  intros HF HN. unfold pre_interp. rewrite forallb_app. apply andb_true_intro; split.
  - apply forallb_if. simpl. rewrite HF. reflexivity.
  - simpl. rewrite HN. reflexivity.
Qed.

Lemma slot_ok_app p1 p2 w k : slot_ok (p1 ++ p2) w k = slot_ok p1 w k && slot_ok p2 w k.
Proof. unfold slot_ok. apply forallb_app. Qed.
Lemma slot_ok_if (b : bool) l w k : slot_ok l w k = true -> slot_ok (if b then l else []) w k = true.
Proof. destruct b; [tauto | reflexivity]. Qed.
Lemma slot_ok_pre_interp c w k : slot_ok (pre_interp c) w k = true.
Proof. unfold pre_interp. rewrite slot_ok_app. apply andb_true_intro; split; [apply slot_ok_if|]; reflexivity. Qed.
Lemma slot_ok_add1 w st t n init sl k : slot_ok [OAdd w st t n init sl] w k = true.
Proof. unfold slot_ok; simpl. destruct w; simpl; rewrite orb_true_r; reflexivity. Qed.

Lemma slot_ok_kriging c gout k : g_dgm c = false -> slot_ok (kriging_pre c gout) WOut k = true.
Proof.
  intro Hd. unfold kriging_pre. rewrite Hd. simpl. rewrite !slot_ok_app.
  repeat (apply andb_true_intro; split); try (apply slot_ok_if; apply slot_ok_add1); try reflexivity.
  apply slot_ok_pre_interp.
Qed.

Lemma wf_success_kriging c gout din dout :
  g_dgm c = false -> expand_noop L_F din dout = true -> expand_noop L_NOSTAT din dout = true ->
  wf_success (kriging c gout) din dout = true.
Proof.
  intros Hd HF HN.
  assert (Hpre : forallb (safe_pre_s din dout) (kriging_pre c gout) = true).
  { unfold kriging_pre. rewrite Hd. simpl. rewrite !forallb_app.
    repeat (apply andb_true_intro; split); try (apply forallb_if; reflexivity); try reflexivity.
    apply pre_interp_safe_s; assumption. }
  assert (Hpost : forallb (safe_post_s (kriging_pre c gout)) (kriging_post c) = true).
  { unfold kriging_post, rn. rewrite Hd.
    split_ifs; simpl; rewrite ?(slot_ok_kriging c gout _ Hd); reflexivity. }
  assert (Hcl : cleans (kriging_post c) 2 = true) by reflexivity.
  unfold wf_success.
  change (k_pre (kriging c gout)) with (kriging_pre c gout).
  change (k_run (kriging c gout)) with [OBody 3].
  change (k_post (kriging c gout)) with (kriging_post c).
  rewrite Hpre, Hpost, Hcl. reflexivity.
Qed.

Lemma wf_success_migrate c din dout : g_locate c = false -> wf_success (migrate c) din dout = true.
Proof. intro H. unfold wf_success, migrate; simpl. rewrite H. reflexivity. Qed.

Lemma wf_success_stats c gout din dout : wf_success (stats c gout) din dout = true.
Proof. unfold wf_success, stats; simpl. destruct (g_mode c =? 0); reflexivity. Qed.

Lemma wf_success_anam c din dout : wf_success (anam c) din dout = true.
Proof. unfold wf_success, anam; simpl. destruct (g_mode c =? 0); reflexivity. Qed.

Lemma wf_success_simpleint c din dout :
  expand_noop L_F din dout = true -> expand_noop L_NOSTAT din dout = true ->
  wf_success (simpleint c) din dout = true.
Proof.
  intros HF HN. unfold wf_success, simpleint; simpl.
  rewrite !forallb_app. rewrite pre_interp_safe_s by assumption. simpl.
  rewrite !slot_ok_app, !slot_ok_pre_interp. simpl.
  destruct (g_est c), (g_std c); reflexivity.
Qed.

Lemma wf_success_g2g c din dout : wf_success (g2g c) din dout = true.
Proof. unfold wf_success, g2g; simpl. destruct (g_mode c =? 1); reflexivity. Qed.

(* kriging without any variable in dbin is refused by _check (fix C19_5) *)
Lemma kriging_no_variable c gout din dout fs fk :
  g_neigh_only c = false -> locnum din L_Z = 0 ->
  failing_stage (kriging c gout) (init_st din dout false) fs fk = 1 /\
  calc_run (kriging c gout) (init_st din dout false) fs fk =
    (false, exec_quiet (g_nc c) (rollback_std c (g_dgm c)) (init_st din dout false)).
Proof.
  intros Hn Hz.
  assert (Hc : k_check (kriging c gout) (init_st din dout false) = false).
  { change (k_check (kriging c gout)) with (kriging_check c gout). unfold kriging_check.
    change (getdb WIn (init_st din dout false)) with din. rewrite Hn, Hz. simpl. apply andb_false_r. }
  unfold failing_stage, calc_run. change (k_init (kriging c gout)) with (@nil op). cbn [exec_quiet]. rewrite Hc. simpl. split; reflexivity.
Qed.

(* ------------------------------------------------------------------ simulations: variables created with the SIMU locator *)
From Gst Require Import C19.ProofsLoc.

Definition tch_simu (t : Z) : bool := t =? L_SIMU.

(* without fixes/C19_8.patch (g_ver bit 2 clear) *)
Lemma simu_add_off c w status n slot : ver_bit c 2 = false -> simu_add c w status n slot = [OAdd w status L_SIMU n (Cst 0) slot].
Proof. intro H. unfold simu_add. rewrite H. reflexivity. Qed.
Lemma simu_restore_off c : ver_bit c 2 = false -> simu_restore c = [].
Proof. intro H. unfold simu_restore. rewrite H. reflexivity. Qed.
Lemma rollback_simu_off c r : ver_bit c 2 = false -> rollback_simu c r = rollback_std c r.
Proof. intro H. unfold rollback_simu, rollback_std. rewrite (simu_restore_off c H). reflexivity. Qed.

Lemma pre_interp_safeT rb c din dout :
  expand_noop L_F din dout = true -> expand_noop L_NOSTAT din dout = true ->
  forallb (safe_opT tch_simu rb din dout) (pre_interp c) = true.
Proof.
  intros HF HN. unfold pre_interp. rewrite forallb_app. apply andb_true_intro; split.
  - apply forallb_if. simpl. rewrite HF. reflexivity.
  - simpl. rewrite HN. reflexivity.
Qed.

Lemma simfft_atomic c gout din dout fs fk s' :
  Inv din -> Inv dout -> ver_bit c 2 = false -> getloc (d_locs din) L_SIMU = [] -> getloc (d_locs dout) L_SIMU = [] ->
  expand_noop L_F din dout = true -> expand_noop L_NOSTAT din dout = true -> fs <> 4 ->
  calc_run (simfft c gout) (init_st din dout false) fs fk = (false, s') ->
  (db_eq (s_in s') din /\ Inv (s_in s')) /\ (db_eq (s_out s') dout /\ Inv (s_out s')).
Proof.
  intros Hi Ho Hv2 Si So HF HN Hfs Hrun.
  assert (Hti : forall t, tch_simu t = true -> getloc (d_locs din) t = []).
  { intros t Ht. apply Z.eqb_eq in Ht. subst t. exact Si. }
  assert (Hto : forall t, tch_simu t = true -> getloc (d_locs dout) t = []).
  { intros t Ht. apply Z.eqb_eq in Ht. subst t. exact So. }
  assert (Hpre : forallb (safe_opT tch_simu (k_rollback (simfft c gout)) din dout) (k_pre (simfft c gout)) = true).
  { cbn [k_pre k_rollback simfft]. rewrite simu_add_off, rollback_simu_off by exact Hv2. rewrite forallb_app. rewrite pre_interp_safeT by assumption.
    cbn [forallb safe_opT]. rewrite (rollback_std_cleans c false 1) by (left; reflexivity). reflexivity. }
  assert (Hpost : forall s, TrackedT tch_simu (k_rollback (simfft c gout)) din dout s ->
                            fst (exec_ops (k_nc (simfft c gout)) (k_post (simfft c gout)) s None) = true).
  { intros s _. apply exec_ops_cannot_fail. cbn [k_post simfft]. rewrite simu_restore_off by exact Hv2. reflexivity. }
  assert (Hrb : forallb only_clean (k_rollback (simfft c gout)) = true).
  { cbn [k_rollback simfft]. rewrite rollback_simu_off by exact Hv2. apply rollback_std_clean. }
  exact (atomic_touched (simfft c gout) tch_simu din dout fs fk s' Hi Ho eq_refl Hti Hto eq_refl Hpre eq_refl Hrb Hpost Hfs Hrun).
Qed.

Lemma simtub_atomic c gout din dout fs fk s' :
  Inv din -> Inv dout -> ver_bit c 2 = false -> g_dgm c = false -> (g_has_in c = false \/ g_rb2 c = true) ->
  getloc (d_locs din) L_SIMU = [] -> getloc (d_locs dout) L_SIMU = [] ->
  expand_noop L_F din dout = true -> expand_noop L_NOSTAT din dout = true -> fs <> 4 ->
  calc_run (simtub c gout) (init_st din dout false) fs fk = (false, s') ->
  (db_eq (s_in s') din /\ Inv (s_in s')) /\ (db_eq (s_out s') dout /\ Inv (s_out s')).
Proof.
  intros Hi Ho Hv2 Hd Hrb2 Si So HF HN Hfs Hrun.
  assert (Hti : forall t, tch_simu t = true -> getloc (d_locs din) t = []).
  { intros t Ht. apply Z.eqb_eq in Ht. subst t. exact Si. }
  assert (Hto : forall t, tch_simu t = true -> getloc (d_locs dout) t = []).
  { intros t Ht. apply Z.eqb_eq in Ht. subst t. exact So. }
  assert (Hpre : forallb (safe_opT tch_simu (k_rollback (simtub c gout)) din dout) (k_pre (simtub c gout)) = true).
  { cbn [k_pre k_rollback simtub]. rewrite !simu_add_off, rollback_simu_off by exact Hv2. rewrite Hd. cbn [andb app]. rewrite !forallb_app. rewrite pre_interp_safeT by assumption.
    assert (Hout : forallb (safe_opT tch_simu (rollback_std c false) din dout)
                     [OAdd WOut 1 L_SIMU (K (g_mnvar c * g_nbsimu c)) (Cst 0) 0%nat] = true).
    { cbn [forallb safe_opT]. rewrite (rollback_std_cleans c false 1) by (left; reflexivity). reflexivity. }
    rewrite Hout. rewrite andb_true_r. cbn [andb]. destruct Hrb2 as [H|H].
    - rewrite H. reflexivity.
    - destruct (g_has_in c); [|reflexivity]. cbn [forallb safe_opT].
      rewrite (rollback_std_cleans c false 2) by (right; exact H). reflexivity. }
  assert (Hrb : forallb only_clean (k_rollback (simtub c gout)) = true).
  { cbn [k_rollback simtub]. rewrite rollback_simu_off by exact Hv2. rewrite Hd. apply rollback_std_clean. }
  assert (Hpost : forall s, TrackedT tch_simu (k_rollback (simtub c gout)) din dout s ->
                            fst (exec_ops (k_nc (simtub c gout)) (k_post (simtub c gout)) s None) = true).
  { intros s T. cbn [k_post k_nc simtub]. rewrite simu_restore_off by exact Hv2. rewrite Hd. rewrite !app_nil_r.
    assert (T1 : TrackedT tch_simu (k_rollback (simtub c gout)) din dout (clean_variables 2 s)).
    { apply (exec_op_safeT din dout Hi Ho tch_simu eq_refl _ (g_nc c) (OClean 2) s true); [exact T | reflexivity | reflexivity]. }
    destruct (ver_bit c 1); cbn [app exec_ops exec_op option_map].
    - reflexivity.
    - rewrite (expand_noop_sameT din dout tch_simu eq_refl _ L_F _ T1 HF eq_refl).
      rewrite (expand_noop_sameT din dout tch_simu eq_refl _ L_NOSTAT _ T1 HN eq_refl).
      reflexivity. }
  exact (atomic_touched (simtub c gout) tch_simu din dout fs fk s' Hi Ho eq_refl Hti Hto eq_refl Hpre eq_refl Hrb Hpost Hfs Hrun).
Qed.

(* ------------------------------------------------------------------ further instances *)
Lemma wf_simupost c gout quals din dout : wf_atomic (simupost c gout quals) din dout = true.
Proof.
  unfold wf_atomic, simupost; cbn [k_init k_pre k_run k_post k_rollback is_nil].
  rewrite rollback_std_clean. cbn [forallb safe_op Z.ltb Z.compare andb].
  rewrite (rollback_std_cleans c false 1) by (left; reflexivity). cbn [andb].
  assert (forallb cannot_fail
            (map (fun p : nat * str => ORename (if g_mode c =? 1 then WOut else WIn) no_names (-1) (K 0) 0%nat (Z.of_nat (fst p)) (snd p) (K 1) true)
                 (combine (seq 0 (length quals)) quals)) = true) as ->; [|reflexivity].
  apply forallb_forall. intros o Ho. apply in_map_iff in Ho as [p [<- _]]. reflexivity.
Qed.

Lemma wf_eden_pre c gout din dout :
  expand_noop L_F din dout = true -> expand_noop L_NOSTAT din dout = true ->
  forallb (safe_op (rollback_std c false) din dout) (k_pre (eden c gout)) = true.
Proof.
  intros HF HN. cbn [k_pre eden]. rewrite !forallb_app. rewrite pre_interp_safe by assumption.
  destruct (g_mode c =? 1); cbn [forallb safe_op Z.ltb Z.compare andb];
    rewrite (rollback_std_cleans c false 1) by (left; reflexivity); reflexivity.
Qed.

(* tessellation_voronoi / substitution: one variable with the SIMU locator *)
Lemma simu1_atomic c gout din dout fs fk s' :
  Inv din -> Inv dout -> ver_bit c 2 = false -> g_mode c <> 1 -> getloc (d_locs din) L_SIMU = [] -> getloc (d_locs dout) L_SIMU = [] ->
  expand_noop L_F din dout = true -> expand_noop L_NOSTAT din dout = true -> fs <> 4 ->
  calc_run (simu1 c gout) (init_st din dout false) fs fk = (false, s') ->
  (db_eq (s_in s') din /\ Inv (s_in s')) /\ (db_eq (s_out s') dout /\ Inv (s_out s')).
Proof.
  intros Hi Ho Hv2 Hm Si So HF HN Hfs Hrun.
  assert (Hti : forall t, tch_simu t = true -> getloc (d_locs din) t = []).
  { intros t Ht. apply Z.eqb_eq in Ht. subst t. exact Si. }
  assert (Hto : forall t, tch_simu t = true -> getloc (d_locs dout) t = []).
  { intros t Ht. apply Z.eqb_eq in Ht. subst t. exact So. }
  assert (Em : (g_mode c =? 1) = false) by (apply Z.eqb_neq; exact Hm).
  assert (Hpre : forallb (safe_opT tch_simu (k_rollback (simu1 c gout)) din dout) (k_pre (simu1 c gout)) = true).
  { cbn [k_pre k_rollback simu1]. rewrite simu_add_off, rollback_simu_off by exact Hv2. rewrite forallb_app. rewrite pre_interp_safeT by assumption.
    cbn [forallb safe_opT]. rewrite (rollback_std_cleans c false 1) by (left; reflexivity). reflexivity. }
  assert (Hrun' : forallb (safe_opT tch_simu (k_rollback (simu1 c gout)) din dout) (k_run (simu1 c gout)) = true).
  { cbn [k_run simu1]. rewrite Em. reflexivity. }
  assert (Hpost : forall s, TrackedT tch_simu (k_rollback (simu1 c gout)) din dout s ->
                            fst (exec_ops (k_nc (simu1 c gout)) (k_post (simu1 c gout)) s None) = true).
  { intros s _. apply exec_ops_cannot_fail. cbn [k_post simu1]. rewrite simu_restore_off by exact Hv2. reflexivity. }
  assert (Hrb : forallb only_clean (k_rollback (simu1 c gout)) = true).
  { cbn [k_rollback simu1]. rewrite rollback_simu_off by exact Hv2. apply rollback_std_clean. }
  exact (atomic_touched (simu1 c gout) tch_simu din dout fs fk s' Hi Ho eq_refl Hti Hto eq_refl Hpre Hrun' Hrb Hpost Hfs Hrun).
Qed.

Lemma expand_noop_self t d : t <> L_X -> expand_noop t d d = true.
Proof.
  intro H. unfold expand_noop. assert ((t =? L_X) = false) as -> by (apply Z.eqb_neq; exact H).
  rewrite andb_false_r. rewrite Z.eqb_refl. apply orb_true_r.
Qed.

(* ------------------------------------------------------------------ DGM: the coordinate locators are moved and given back *)
From Gst Require Import C19.ProofsRestore.

Definition tch_none (t : Z) : bool := false.

Lemma rollback_std_dgm c : g_rb2 c = true -> rollback_std c true = [OClean 1; OClean 2; ORestoreX].
Proof. intro H. unfold rollback_std. rewrite H. reflexivity. Qed.

Lemma safe_opsD_app tch rb din dout a : forall allow b,
  forallb (safe_opD tch rb din dout) a = true -> (forall o, In o a -> o <> OCenter) ->
  safe_opsD tch rb din dout allow (a ++ b) = safe_opsD tch rb din dout allow b.
Proof.
  induction a as [|o r IH]; intros allow b Hs Hn; [reflexivity|].
  simpl in Hs. apply andb_true_iff in Hs as [Ho Hr].
  assert (o <> OCenter) as Hne by (apply Hn; left; reflexivity).
  destruct o; try contradiction; cbn [app safe_opsD]; rewrite Ho; cbn [andb]; apply IH; try exact Hr; intros x Hx; apply Hn; right; exact Hx.
Qed.

Lemma pre_interp_safeD tch rb c din dout :
  expand_noop L_F din dout = true -> expand_noop L_NOSTAT din dout = true -> tch L_F = false -> tch L_NOSTAT = false ->
  forallb (safe_opD tch rb din dout) (pre_interp c) = true /\ (forall o, In o (pre_interp c) -> o <> OCenter).
Proof.
  intros HF HN TF TN. unfold pre_interp. split.
  - rewrite forallb_app. apply andb_true_intro; split.
    + apply forallb_if. simpl. rewrite HF, TF. reflexivity.
    + simpl. rewrite HN, TN. reflexivity.
  - intros o Ho. apply in_app_iff in Ho as [Ho|Ho].
    + destruct ((0 <? g_mndim c) && (0 <? g_nfex c)); [|contradiction]. destruct Ho as [<-|[]]. discriminate.
    + destruct Ho as [<-|[]]. discriminate.
Qed.

Lemma kriging_dgm_atomic c gout din dout fs fk s' :
  Inv din -> Inv dout -> g_dgm c = true -> g_rb2 c = true ->
  expand_noop L_F din dout = true -> expand_noop L_NOSTAT din dout = true ->
  d_grid din = false -> NoDup (getloc (d_locs din) L_X) ->
  (forall u, In u (getloc (d_locs din) L_X) -> has_col din u = true) ->
  (forall u t, In u (getloc (d_locs din) L_X) -> t <> L_X -> ~ In u (getloc (d_locs din) t)) ->
  fs <> 4 ->
  calc_run (kriging c gout) (init_st din dout false) fs fk = (false, s') ->
  (db_eq (s_in s') din /\ Inv (s_in s')) /\ (db_eq (s_out s') dout /\ Inv (s_out s')).
Proof.
  intros Hi Ho Hd Hrb2 HF HN Hpts Hnd Hlive Honly Hfs Hrun.
  assert (Hrb : k_rollback (kriging c gout) = [OClean 1; OClean 2; ORestoreX]).
  { cbn [k_rollback kriging]. rewrite Hd. apply rollback_std_dgm; exact Hrb2. }
  assert (Hcl : forall status, cleans [OClean 1; OClean 2; ORestoreX] status = true).
  { intro status. unfold cleans, is_perm. simpl. destruct (status =? 1); reflexivity. }
  destruct (pre_interp_safeD tch_none (k_rollback (kriging c gout)) c din dout HF HN eq_refl eq_refl) as [P1 P2].
  assert (Hpre : safe_opsD tch_none (k_rollback (kriging c gout)) din dout true (k_pre (kriging c gout)) = true).
  { cbn [k_pre kriging]. unfold kriging_pre. rewrite safe_opsD_app by assumption. rewrite Hrb, Hd.
    destruct (g_est c), (g_std c), (g_varz c), (g_neigh_only c), gout; cbn [andb app safe_opsD safe_opD Z.ltb Z.compare orb]; rewrite ?Hcl; reflexivity. }
  assert (Hpost : forall s, TrackedD tch_none (k_rollback (kriging c gout)) din dout s ->
                            fst (exec_ops (k_nc (kriging c gout)) (k_post (kriging c gout)) s None) = true).
  { intros s _. apply exec_ops_cannot_fail. cbn [k_post kriging]. unfold kriging_post. rewrite Hd. split_ifs; reflexivity. }
  exact (atomic_dgm (kriging c gout) tch_none din dout fs fk s' Hi Ho eq_refl (fun t H => False_ind _ (Bool.diff_false_true H))
           (fun t H => False_ind _ (Bool.diff_false_true H)) Hpts Hnd Hlive Honly eq_refl Hrb Hpre eq_refl Hpost Hfs Hrun).
Qed.

Lemma simtub_dgm_atomic c gout din dout fs fk s' :
  Inv din -> Inv dout -> ver_bit c 2 = false -> g_dgm c = true -> g_rb2 c = true ->
  getloc (d_locs din) L_SIMU = [] -> getloc (d_locs dout) L_SIMU = [] ->
  expand_noop L_F din dout = true -> expand_noop L_NOSTAT din dout = true ->
  d_grid din = false -> NoDup (getloc (d_locs din) L_X) ->
  (forall u, In u (getloc (d_locs din) L_X) -> has_col din u = true) ->
  (forall u t, In u (getloc (d_locs din) L_X) -> t <> L_X -> ~ In u (getloc (d_locs din) t)) ->
  fs <> 4 ->
  calc_run (simtub c gout) (init_st din dout false) fs fk = (false, s') ->
  (db_eq (s_in s') din /\ Inv (s_in s')) /\ (db_eq (s_out s') dout /\ Inv (s_out s')).
Proof.
  intros Hi Ho Hv2 Hd Hrb2 Si So HF HN Hpts Hnd Hlive Honly Hfs Hrun.
  assert (Hti : forall t, tch_simu t = true -> getloc (d_locs din) t = []).
  { intros t Ht. apply Z.eqb_eq in Ht. subst t. exact Si. }
  assert (Hto : forall t, tch_simu t = true -> getloc (d_locs dout) t = []).
  { intros t Ht. apply Z.eqb_eq in Ht. subst t. exact So. }
  assert (Hrb : k_rollback (simtub c gout) = [OClean 1; OClean 2; ORestoreX]).
  { cbn [k_rollback simtub]. rewrite rollback_simu_off by exact Hv2. rewrite Hd. apply rollback_std_dgm; exact Hrb2. }
  assert (Hcl : forall status, cleans [OClean 1; OClean 2; ORestoreX] status = true).
  { intro status. unfold cleans, is_perm. simpl. destruct (status =? 1); reflexivity. }
  destruct (pre_interp_safeD tch_simu (k_rollback (simtub c gout)) c din dout HF HN eq_refl eq_refl) as [P1 P2].
  assert (Hpre : safe_opsD tch_simu (k_rollback (simtub c gout)) din dout true (k_pre (simtub c gout)) = true).
  { cbn [k_pre simtub]. rewrite !simu_add_off by exact Hv2. rewrite safe_opsD_app by assumption. rewrite Hrb, Hd.
    destruct (g_has_in c), gout; cbn [andb app safe_opsD safe_opD Z.ltb Z.compare orb tch_simu Z.eqb L_SIMU Pos.eqb loc_ok Z.leb]; rewrite ?Hcl; reflexivity. }
  assert (Hpost : forall s, TrackedD tch_simu (k_rollback (simtub c gout)) din dout s ->
                            fst (exec_ops (k_nc (simtub c gout)) (k_post (simtub c gout)) s None) = true).
  { intros s T. cbn [k_post k_nc simtub]. rewrite simu_restore_off by exact Hv2. rewrite Hd. rewrite app_nil_r.
    assert (T1 : TrackedD tch_simu (k_rollback (simtub c gout)) din dout (clean_variables 2 s)).
    { apply (exec_op_safeD din dout Hi Ho tch_simu _ (g_nc c) (OClean 2) s true); [exact T | reflexivity | reflexivity]. }
    destruct (ver_bit c 1); cbn [app exec_ops exec_op option_map].
    - reflexivity.
    - rewrite (expand_noop_sameD din dout tch_simu _ L_F _ T1 HF eq_refl) by discriminate.
      rewrite (expand_noop_sameD din dout tch_simu _ L_NOSTAT _ T1 HN eq_refl) by discriminate.
      reflexivity. }
  exact (atomic_dgm (simtub c gout) tch_simu din dout fs fk s' Hi Ho eq_refl Hti Hto Hpts Hnd Hlive Honly eq_refl Hrb Hpre eq_refl Hpost Hfs Hrun).
Qed.

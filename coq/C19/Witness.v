(* C19 — concrete states used by the refutation witnesses and non-vacuity examples. Definitions only. *)
From Coq Require Import List ZArith Bool String Ascii.
From Gst Require Import C19.Model C19.Calcs C19.Spec.
Import ListNotations.
Local Open Scope Z_scope.

Definition Str (x : string) : str := map (fun a => Z.of_N (N_of_ascii a)) (list_ascii_of_string x).

Definition locs_of (x z : list Z) : list (list Z) := x :: z :: repeat [] 27.
(* 4 columns: rank, x1, x2 (coordinates), z (variable) *)
Definition w_din : db :=
  mkdb [mkcol 0 (Str "rank") (Orig 0); mkcol 1 (Str "x1") (Orig 1); mkcol 2 (Str "x2") (Orig 2); mkcol 3 (Str "z") (Orig 3)]
       4 (locs_of [1; 2] [3]) false 0 false.
(* a 2-D grid with rank, x1, x2 and one pre-existing variable "old" carrying the Z locator; uid 3 was deleted *)
Definition w_dout : db :=
  mkdb [mkcol 0 (Str "rank") (Orig 0); mkcol 1 (Str "x1") (Orig 1); mkcol 2 (Str "x2") (Orig 2); mkcol 4 (Str "old") (Orig 4)]
       5 (locs_of [1; 2] [4]) true 2 false.
Definition nc_k : namconv := mknc (Str "K") true true true 1 (Str ".") true.
Definition nc_none : namconv := mknc [] true true true 1 (Str ".") true.
(* kriging(dbin, dbout, model, neigh) with estimation and st. dev., monovariate 2-D model *)
Definition cfg_kriging : cfg :=
  mkcfg nc_k true true false (-1) false false 0 0 0 false 5 0 1 2 2 0 true [] false (-1) 1 0 0 true false.
(* krigtest(dbin, dbout, model, neigh, iech0 = 0) *)
Definition cfg_krigtest : cfg :=
  mkcfg nc_none true true false 0 false false 0 0 0 false 5 0 1 2 2 0 true [] false (-1) 1 0 0 true false.
(* kriging(..., EKrigOpt::DGM) *)
Definition cfg_dgm : cfg :=
  mkcfg nc_k true true false (-1) true false 0 0 0 false 5 0 1 2 2 0 true [] false (-1) 1 0 0 true false.
Definition with_fixed (c : cfg) : cfg :=
  mkcfg (g_nc c) (g_est c) (g_std c) (g_varz c) (g_single c) (g_dgm c) (g_xvalid c) (g_xv_est c) (g_xv_std c) (g_xv_varz c)
        (g_neigh_only c) (g_nbneigh c) (g_matlc c) (g_mnvar c) (g_mndim c) (g_nndim c) (g_nfex c) (g_extra_ok c)
        (g_iuids c) (g_locate c) (g_loctype c) (g_nbsimu c) (g_mode c) (g_n c) (g_has_in c) true.
(* RawToGaussian on dbin *)
Definition cfg_anam : cfg :=
  mkcfg (mknc (Str "Y") true true true 1 (Str ".") true) false false false (-1) false false 0 0 0 false 5 0 1 2 2 0 true [] false (-1) 1 0 0 true false.
(* conditional turning bands, 2 simulations *)
Definition cfg_simtub : cfg :=
  mkcfg (mknc (Str "Simu") true true true 1 (Str ".") true) false false false (-1) false false 0 0 0 false 5 0 1 2 2 0 true [] false (-1) 2 0 0 true false.
(* dbg2gShrink *)
Definition cfg_shrink : cfg :=
  mkcfg (mknc (Str "G2G") true true true 1 (Str ".") true) false false false (-1) false false 0 0 0 false 5 0 1 2 2 0 true [] false (-1) 1 1 0 true false.
Definition w_names_after_kriging : list str := [Str "rank"; Str "x1"; Str "x2"; Str "old"; Str "K.z.estim"; Str "K.z.stdev"].
(* a grid carrying one external drift variable (locator F = 3), and kriging with a model asking for one external drift *)
Definition w_dout_f : db :=
  mkdb [mkcol 0 (Str "rank") (Orig 0); mkcol 1 (Str "x1") (Orig 1); mkcol 2 (Str "x2") (Orig 2); mkcol 3 (Str "drift") (Orig 3)]
       4 ([1; 2] :: [] :: [] :: [3] :: repeat [] 25) true 2 false.
Definition cfg_extdrift : cfg :=
  mkcfg nc_k true true false (-1) false false 0 0 0 false 5 0 1 2 2 1 true [] false (-1) 1 0 0 true false.

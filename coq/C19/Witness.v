(* C19 — concrete states used by the refutation witnesses and non-vacuity examples. Definitions only. *)
From Coq Require Import List ZArith Bool String Ascii.
From Gst Require Import C19.Model C19.Calcs C19.Spec.
Import ListNotations.
Local Open Scope Z_scope.

Definition Str (x : string) : str := map (fun a => Z.of_N (N_of_ascii a)) (list_ascii_of_string x).

Definition locs_of (x z : list Z) : list (list Z) := x :: z :: repeat [] 27.
(* 4 columns: rank, x1, x2 (coordinates), z (variable) *)
Definition w_din : db :=
  mkdb [mkcol 0 (Str "rank") (Orig 0); mkcol 1 (Str "x1") (Orig 1); mkcol 2 (Str "x2") (Orig 2); mkcol 3 (Str "z") (Orig 3)]
       4 (locs_of [1; 2] [3]) false 0.
(* a 2-D grid with rank, x1, x2 and one pre-existing variable "old" carrying the Z locator; uid 3 was deleted *)
Definition w_dout : db :=
  mkdb [mkcol 0 (Str "rank") (Orig 0); mkcol 1 (Str "x1") (Orig 1); mkcol 2 (Str "x2") (Orig 2); mkcol 4 (Str "old") (Orig 4)]
       5 (locs_of [1; 2] [4]) true 2.
Definition nc_k : namconv := mknc (Str "K") true true true 1 (Str ".") true.
Definition nc_none : namconv := mknc [] true true true 1 (Str ".") true.
(* kriging(dbin, dbout, model, neigh) with estimation and st. dev., monovariate 2-D model *)
Definition cfg_kriging : cfg :=
  mkcfg nc_k true true false (-1) false false 0 0 0 false 5 0 1 2 2 0 true [] false (-1) 1 0 0 true true 0.
(* krigtest(dbin, dbout, model, neigh, iech0 = 0) *)
Definition cfg_krigtest : cfg :=
  mkcfg nc_none true true false 0 false false 0 0 0 false 5 0 1 2 2 0 true [] false (-1) 1 0 0 true true 0.
(* kriging(..., EKrigOpt::DGM) *)
Definition cfg_dgm : cfg :=
  mkcfg nc_k true true false (-1) true false 0 0 0 false 5 0 1 2 2 0 true [] false (-1) 1 0 0 true true 0.
(* RawToGaussian on dbin *)
Definition cfg_anam : cfg :=
  mkcfg (mknc (Str "Y") true true true 1 (Str ".") true) false false false (-1) false false 0 0 0 false 5 0 1 2 2 0 true [] false (-1) 1 0 0 true true 0.
(* conditional turning bands, 2 simulations *)
Definition cfg_simtub : cfg :=
  mkcfg (mknc (Str "Simu") true true true 1 (Str ".") true) false false false (-1) false false 0 0 0 false 5 0 1 2 2 0 true [] false (-1) 2 0 0 true true 0.
(* dbg2gShrink *)
Definition cfg_shrink : cfg :=
  mkcfg (mknc (Str "G2G") true true true 1 (Str ".") true) false false false (-1) false false 0 0 0 false 5 0 1 2 2 0 true [] false (-1) 1 1 0 true true 0.
Definition w_names_after_kriging : list str := [Str "rank"; Str "x1"; Str "x2"; Str "old"; Str "K.z.estim"; Str "K.z.stdev"].
(* a grid carrying one external drift variable (locator F = 3), and kriging with a model asking for one external drift *)
Definition w_dout_f : db :=
  mkdb [mkcol 0 (Str "rank") (Orig 0); mkcol 1 (Str "x1") (Orig 1); mkcol 2 (Str "x2") (Orig 2); mkcol 3 (Str "drift") (Orig 3)]
       4 ([1; 2] :: [] :: [] :: [3] :: repeat [] 25) true 2.
Definition cfg_extdrift : cfg :=
  mkcfg nc_k true true false (-1) false false 0 0 0 false 5 0 1 2 2 1 true [] false (-1) 1 0 0 true true 0.

(* failure at every point of check / preprocess (after 0..6 operations) / run: reported, and both Dbs restored *)
Definition sweep_atomic (c : calc) (din dout : db) : bool :=
  forallb (fun fs => forallb (fun fk =>
     let '(ok, s) := calc_run c (init_st din dout false) fs fk in
     negb ok && db_eqb (s_in s) din && db_eqb (s_out s) dout) (seq 0 7)) [1; 2; 3].
(* conditional turning bands with DGM *)
Definition cfg_simtub_dgm : cfg :=
  mkcfg (mknc (Str "Simu") true true true 1 (Str ".") true) false false false (-1) true false 0 0 0 false 5 0 1 2 2 0 true [] false (-1) 2 0 0 true true 0.
(* krigtest with DGM *)
Definition cfg_krigtest_dgm : cfg :=
  mkcfg nc_none true true false 0 true false 0 0 0 false 5 0 1 2 2 0 true [] false (-1) 1 0 0 true true 0.
(* dbin without variable *)
Definition w_din_noz : db :=
  mkdb [mkcol 0 (Str "rank") (Orig 0); mkcol 1 (Str "x1") (Orig 1); mkcol 2 (Str "x2") (Orig 2)] 3 (locs_of [1; 2] []) false 0.

(* a grid that already holds two simulations (locator SIMU = 22) *)
Definition w_dout_simu : db :=
  mkdb [mkcol 0 (Str "rank") (Orig 0); mkcol 1 (Str "x1") (Orig 1); mkcol 2 (Str "x2") (Orig 2);
        mkcol 3 (Str "S.1") (Orig 3); mkcol 4 (Str "S.2") (Orig 4)]
       5 ([1; 2] :: repeat [] 21 ++ [[3; 4]] ++ repeat [] 6) true 2.
Definition cfg_simfft : cfg :=
  mkcfg (mknc (Str "FFT") true true true 1 (Str ".") true) false false false (-1) false false 0 0 0 false 5 0 1 2 0 0 true [] false (-1) 1 0 0 false true 0.
Definition kriging_no_z_outcome : Z * bool :=
  (failing_stage (kriging cfg_kriging true) (init_st w_din_noz w_dout false) 0 0%nat,
   fst (calc_run (kriging cfg_kriging true) (init_st w_din_noz w_dout false) 0 0%nat)).

(* two factors f1, f2 carrying the Z locator *)
Definition w_din_fac : db :=
  mkdb [mkcol 0 (Str "rank") (Orig 0); mkcol 1 (Str "x1") (Orig 1); mkcol 2 (Str "x2") (Orig 2);
        mkcol 3 (Str "f1") (Orig 3); mkcol 4 (Str "f2") (Orig 4)]
       5 (locs_of [1; 2] [3; 4]) false 0.
Definition nc_kd : namconv := mknc (Str "KD") true true true 1 (Str ".") true.
(* krigingFactors on two factors; ver 0: _rollback as in the pinned tree, ver 1 (+ rb2): fixes/C19_6.patch *)
Definition cfg_krigfac (dgm rb2 : bool) (ver : Z) : cfg :=
  mkcfg nc_kd true true false (-1) dgm false 0 0 0 false 5 0 1 2 2 0 true [3; 4] false (-1) 1 0 0 true rb2 ver.
(* tessellation_poisson *)
Definition cfg_poisson : cfg :=
  mkcfg (mknc (Str "Tess") true true true 1 (Str ".") true) false false false (-1) false false 0 0 0 false 5 0 1 2 0 0 true [] false (-1) 1 1 0 false false 0.
Definition cfg_voronoi : cfg :=
  mkcfg (mknc (Str "Tess") true true true 1 (Str ".") true) false false false (-1) false false 0 0 0 false 5 0 1 2 0 0 true [] false (-1) 1 0 0 false false 0.
(* fluid_propagation whose fluid variable is the column uid 4 ("old") of w_dout *)
Definition cfg_eden : cfg :=
  mkcfg (mknc (Str "Eden") true true true 1 (Str ".") true) false false false (-1) false false 0 0 0 false 5 0 0 0 0 0 true [4] false (-1) 1 0 1 false false 0.
(* xvalid: one Db *)
Definition cfg_xvalid : cfg :=
  mkcfg nc_k true true false (-1) false true 1 1 0 false 5 0 1 2 2 0 true [] false (-1) 1 0 0 true true 0.
Definition sweep_atomic1 (c : calc) (d : db) : bool :=
  forallb (fun fs => forallb (fun fk =>
     let '(ok, s) := calc_run c (init_st d d true) fs fk in
     negb ok && db_eqb (s_in s) d) (seq 0 7)) [1; 2; 3].

(* the same options with other code-version flags (proposed fixes C19_6 .. C19_9) *)
Definition with_ver (c : cfg) (rb2 : bool) (ver : Z) : cfg :=
  mkcfg (g_nc c) (g_est c) (g_std c) (g_varz c) (g_single c) (g_dgm c) (g_xvalid c) (g_xv_est c) (g_xv_std c) (g_xv_varz c)
        (g_neigh_only c) (g_nbneigh c) (g_matlc c) (g_mnvar c) (g_mndim c) (g_nndim c) (g_nfex c) (g_extra_ok c)
        (g_iuids c) (g_locate c) (g_loctype c) (g_nbsimu c) (g_mode c) (g_n c) (g_has_in c) rb2 ver.
(* success: dbin untouched *)
Definition success_keeps_dbin (c : calc) (din dout : db) : bool :=
  let '(ok, s) := calc_run c (init_st din dout false) 0 0%nat in ok && db_eqb (s_in s) din.
(* failure injected after each whole stage (the operations of a nested calculator are not failure points of this one) *)
Definition stage_atomic (c : calc) (din dout : db) : bool :=
  forallb (fun fs => let '(ok, s) := calc_run c (init_st din dout false) fs 1000%nat in
                     negb ok && db_eqb (s_in s) din && db_eqb (s_out s) dout) [1; 2; 3].

(* CalcKriging whose _postprocess returns for a single target before giving the coordinate locators back (seeded change C19_2) *)
Definition kriging_skipped_restore (c : cfg) (gout : bool) : calc :=
  mkcalc (g_nc c) [] (kriging_check c gout) (kriging_pre c gout) [OBody 3]
         (OClean 2 :: (if 0 <=? g_single c then [] else tl (kriging_post c)))
         (rollback_std c (g_dgm c)).

(* C19 — atomicity for calculators that create their variables WITH a locator (ELoc::SIMU: turning bands, FFT):
   the locator lists of the "touched" types may hold registered (fresh) uids; if those types carried no locator
   before the call, cleaning the registered lists restores the Dbs. *)
From Coq Require Import List ZArith Bool Lia.
From Gst Require Import C19.Model C19.Calcs C19.Spec C19.Proofs C19.ProofsSuccess.
Import ListNotations.
Local Open Scope Z_scope.

(* ------------------------------------------------------------------ lists *)
Lemma erase_first_nodup u l : NoDup l -> erase_first u l = filter (fun x => negb (x =? u)) l.
Proof.
  induction l as [|x l IH]; simpl; intro H; [reflexivity|].
  inversion H as [|? ? Hx Hl]; subst.
  destruct (x =? u) eqn:E; simpl.
  - apply Z.eqb_eq in E. subst x. symmetry. apply filter_all_true. intros y Hy.
    apply negb_true_iff. apply Z.eqb_neq. intro; subst; contradiction.
  - f_equal. apply IH; exact Hl.
Qed.

Lemma NoDup_filter {A} (f : A -> bool) l : NoDup l -> NoDup (filter f l).
Proof.
  induction l as [|x l IH]; simpl; intro H; [constructor|].
  inversion H as [|? ? Hx Hl]; subst. destruct (f x); [constructor|]; auto.
  intro Hin. apply filter_In in Hin as [Hin _]. contradiction.
Qed.

Lemma length_upd {A} (l : list A) : forall i x, length (upd l i x) = length l.
Proof. induction l as [|y l IH]; intros i x; simpl; [reflexivity|]. destruct i; simpl; [reflexivity | f_equal; apply IH]. Qed.

Lemma upd_In {A} (l : list A) : forall i x y, In y (upd l i x) -> y = x \/ In y l.
Proof.
  induction l as [|z l IH]; intros i x y H; simpl in *; [contradiction|].
  destruct i; simpl in H.
  - destruct H as [H|H]; [left; congruence | right; right; exact H].
  - destruct H as [H|H]; [right; left; exact H|]. apply IH in H as [H|H]; [left | right; right]; exact H.
Qed.

Lemma upd_NoDup (l : list Z) : forall i x, NoDup l -> ~ In x l -> NoDup (upd l i x).
Proof.
  induction l as [|z l IH]; intros i x Hn Hx; simpl; [constructor|].
  inversion Hn as [|? ? Hz Hl]; subst. destruct i.
  - constructor; [intro H; apply Hx; right; exact H | exact Hl].
  - constructor.
    + intro H. apply upd_In in H as [H|H]; [apply Hx; left; congruence | contradiction].
    + apply IH; [exact Hl | intro H; apply Hx; right; exact H].
Qed.

Lemma NoDup_app_snoc (l : list Z) x : NoDup l -> ~ In x l -> NoDup (l ++ [x]).
Proof.
  induction l as [|y l IH]; simpl; intros Hn Hx; [constructor; [tauto | constructor]|].
  inversion Hn as [|? ? Hy Hl]; subst. constructor.
  - intro H. apply in_app_iff in H as [H|[H|[]]]; [contradiction | apply Hx; left; symmetry; exact H].
  - apply IH; [exact Hl | intro H; apply Hx; right; exact H].
Qed.

Lemma upd_snoc {A} (l : list A) x y : upd (l ++ [x]) (length l) y = l ++ [y].
Proof. induction l as [|z l IH]; simpl; [reflexivity | f_equal; exact IH]. Qed.

Lemma getloc_setloc_same locs t p : loc_ok t = true -> length locs = NLOC -> getloc (setloc locs t p) t = p.
Proof.
  intros Ht Hl. unfold getloc, setloc. rewrite Ht. apply nth_upd_same.
  unfold loc_ok in Ht. apply andb_true_iff in Ht as [H1 H2]. apply Z.leb_le in H1. apply Z.ltb_lt in H2. rewrite Hl. lia.
Qed.

Lemma length_setloc locs t p : length (setloc locs t p) = length locs.
Proof. unfold setloc. destruct (loc_ok t); [apply length_upd | reflexivity]. Qed.

Lemma In_locs_getloc locs l : length locs = NLOC -> In l locs -> exists t, l = getloc locs t.
Proof.
  intros Hl Hin. apply (In_nth _ _ []) in Hin as [i [Hi Hn]]. exists (Z.of_nat i).
  unfold getloc, loc_ok. rewrite Hl in Hi. unfold NLOC in *.
  assert ((0 <=? Z.of_nat i) && (Z.of_nat i <? Z.of_nat 29) = true) as ->.
  { apply andb_true_iff. split; [apply Z.leb_le | apply Z.ltb_lt]; lia. }
  rewrite Nat2Z.id. symmetry. exact Hn.
Qed.

Lemma locs_ext (a b : list (list Z)) :
  length a = NLOC -> length b = NLOC -> (forall t, getloc a t = getloc b t) -> a = b.
Proof.
  intros Ha Hb H. apply (nth_ext _ _ [] []); [congruence|].
  intros i Hi. specialize (H (Z.of_nat i)). unfold getloc, loc_ok in H. rewrite Ha in Hi. unfold NLOC in *.
  assert ((0 <=? Z.of_nat i) && (Z.of_nat i <? Z.of_nat 29) = true) as E.
  { apply andb_true_iff. split; [apply Z.leb_le | apply Z.ltb_lt]; lia. }
  rewrite E, Nat2Z.id in H. exact H.
Qed.

(* ------------------------------------------------------------------ the invariant *)
Section Loc.
Variable d0 : db.
Hypothesis HI : Inv d0.
Variable tch : Z -> bool.     (* locator types the calculator gives to its own variables *)

Definition trackedT (d : db) (perm temp : list Z) : Prop :=
  exists ex, d_cols d = d_cols d0 ++ ex /\
    (forall u, In u (map c_uid ex) <-> In u (perm ++ temp)) /\
    (forall u, In u perm -> In u temp -> False) /\
    (forall t, tch t = false -> getloc (d_locs d) t = getloc (d_locs d0) t) /\
    (forall t, tch t = true -> NoDup (getloc (d_locs d) t) /\
                               forall u, In u (getloc (d_locs d) t) -> In u (perm ++ temp)) /\
    length (d_locs d) = NLOC /\ d_grid d = d_grid d0 /\ d_gdim d = d_gdim d0 /\
    d_nuid d0 <= d_nuid d /\
    (forall u, In u (perm ++ temp) -> d_nuid d0 <= u < d_nuid d).

Hypothesis Htch0 : forall t, tch t = true -> getloc (d_locs d0) t = [].

Lemma inv_len : length (d_locs d0) = NLOC.
Proof. destruct HI as [_ [_ [_ [_ [H _]]]]]. exact H. Qed.

Lemma tT_init : trackedT d0 [] [].
Proof.
  exists []. rewrite app_nil_r. split; [reflexivity|]. split; [intro u; simpl; tauto|]. split; [intros u []|].
  split; [reflexivity|].
  split. { intros t Ht. rewrite (Htch0 t Ht). split; [constructor | intros u []]. }
  split; [apply inv_len|]. split; [reflexivity|]. split; [reflexivity|]. split; [lia | intros u []].
Qed.

Lemma tT_done d : trackedT d [] [] -> db_eq d d0 /\ Inv d.
Proof.
  intros [ex [Hc [Hu [_ [Hl [Ht [Hlen [Hg [Hd [Hn _]]]]]]]]]].
  assert (ex = []) as ->.
  { destruct ex as [|c ex]; [reflexivity|]. exfalso. apply (Hu (c_uid c)). simpl. left; reflexivity. }
  rewrite app_nil_r in Hc.
  assert (Hlocs : d_locs d = d_locs d0).
  { apply locs_ext; [exact Hlen | apply inv_len|]. intro t. destruct (tch t) eqn:E; [|apply Hl; exact E].
    destruct (Ht t E) as [_ Hin]. rewrite (Htch0 t E). destruct (getloc (d_locs d) t) as [|x l]; [reflexivity|].
    exfalso. apply (Hin x). left; reflexivity. }
  split; [repeat split; assumption|].
  destruct HI as [I1 [I2 [I3 [I4 [I5 I6]]]]]. unfold Inv. rewrite Hc, Hlocs.
  split; [exact I1|]. split; [intros c Hin; specialize (I2 c Hin); lia|].
  split; [intros l u Hi Hj; specialize (I3 l u Hi Hj); lia|].
  split; [exact I4|]. split; [exact I5 | lia].
Qed.

Lemma tT_valid d perm temp : trackedT d perm temp -> forall c, In c (d_cols d) -> 0 <= c_uid c < d_nuid d.
Proof.
  intros [ex [Hc [Hu [_ [_ [_ [_ [_ [_ [Hn Hr]]]]]]]]]] c Hin. rewrite Hc in Hin. apply in_app_iff in Hin as [Hin|Hin].
  - apply (inv_col_lt d0 HI) in Hin. lia.
  - assert (In (c_uid c) (perm ++ temp)) as H by (apply Hu; apply in_map; exact Hin). apply Hr in H.
    pose proof (inv_nuid d0 HI). lia.
Qed.

(* every locator entry is below the uid count *)
Lemma tT_entries d perm temp t x : trackedT d perm temp -> In x (getloc (d_locs d) t) -> x < d_nuid d.
Proof.
  intros [ex [_ [_ [_ [Hl [Ht [_ [_ [_ [Hn Hr]]]]]]]]]] Hin. destruct (tch t) eqn:E.
  - destruct (Ht t E) as [_ H]. apply H in Hin. apply Hr in Hin. lia.
  - rewrite (Hl t E) in Hin. apply getloc_In in Hin as [l [H1 H2]]. apply (inv_loc_lt d0 HI l x H1) in H2. lia.
Qed.

Lemma tT_untouched_notin d perm temp u t :
  trackedT d perm temp -> d_nuid d0 <= u -> tch t = false -> ~ In u (getloc (d_locs d) t).
Proof.
  intros [ex [_ [_ [_ [Hl _]]]]] Hu Ht Hin. rewrite (Hl t Ht) in Hin.
  apply getloc_In in Hin as [l [H1 H2]]. apply (inv_loc_lt d0 HI l u H1) in H2. lia.
Qed.

Lemma tT_ext d perm temp perm' temp' :
  trackedT d perm temp -> (forall u, In u perm <-> In u perm') -> (forall u, In u temp <-> In u temp') ->
  trackedT d perm' temp'.
Proof.
  intros [ex [Hc [Hx [Hdis [Hl [Ht [Hlen [Hg [Hd [Hn Hr]]]]]]]]]] Hp Hq. exists ex.
  assert (Heq : forall u, In u (perm ++ temp) <-> In u (perm' ++ temp')) by (intro u; rewrite !in_app_iff, Hp, Hq; tauto).
  split; [exact Hc|]. split; [intro u; rewrite Hx; apply Heq|].
  split. { intros u H1 H2. apply Hp in H1. apply Hq in H2. exact (Hdis u H1 H2). }
  split; [exact Hl|].
  split. { intros t E. destruct (Ht t E) as [B C]. split; [exact B|]. intros u Hu. apply Heq. apply C; exact Hu. }
  split; [exact Hlen|]. split; [exact Hg|]. split; [exact Hd|]. split; [exact Hn|].
  intros u H. apply Hr. apply Heq. exact H.
Qed.

(* ---- deleting a registered (fresh) column ---- *)
Lemma tT_delete_locs d perm temp u t :
  trackedT d perm temp -> d_nuid d0 <= u ->
  getloc (d_locs (delete_column d u)) t = erase_first u (getloc (d_locs d) t).
Proof.
  intros TT Hu. pose proof TT as [ex [Hc [Hx [_ [Hl [Ht [_ [_ [_ [Hn Hr]]]]]]]]]]. unfold delete_column.
  destruct (uid_valid d u && has_col d u) eqn:E; simpl.
  - apply getloc_map. reflexivity.
  - symmetry. apply erase_first_notin. intro Hin. destruct (tch t) eqn:Et.
    + destruct (Ht t Et) as [_ H]. apply H in Hin. pose proof (Hr u Hin) as Hb. apply Hx in Hin.
      apply andb_false_iff in E as [E|E].
      * unfold uid_valid in E. apply andb_false_iff in E as [E|E]; [apply Z.leb_gt in E | apply Z.ltb_ge in E];
          pose proof (inv_nuid d0 HI); lia.
      * unfold has_col in E. apply in_map_iff in Hin as [c [Hcu Hc']].
        assert (existsb (fun c0 => c_uid c0 =? u) (d_cols d) = true) as E2; [|congruence].
        apply existsb_exists. exists c. split; [rewrite Hc; apply in_or_app; right; exact Hc' | apply Z.eqb_eq; exact Hcu].
    + exact (tT_untouched_notin _ _ _ _ _ TT Hu Et Hin).
Qed.

Lemma tT_delete_cols d perm temp u :
  trackedT d perm temp ->
  d_cols (delete_column d u) = filter (fun c => negb (c_uid c =? u)) (d_cols d) /\
  d_nuid (delete_column d u) = d_nuid d /\ length (d_locs (delete_column d u)) = length (d_locs d) /\
  d_grid (delete_column d u) = d_grid d /\ d_gdim (delete_column d u) = d_gdim d.
Proof.
  intro TT. pose proof (tT_valid _ _ _ TT) as Hv. unfold delete_column.
  destruct (uid_valid d u && has_col d u) eqn:E; simpl.
  - rewrite map_length. repeat split; reflexivity.
  - split; [|repeat split; reflexivity].
    symmetry. apply filter_all_true. intros c Hc.
    apply negb_true_iff. apply Z.eqb_neq. intro Heq.
    apply andb_false_iff in E as [E|E].
    + unfold uid_valid in E. specialize (Hv c Hc). rewrite Heq in Hv.
      apply andb_false_iff in E as [E|E]; [apply Z.leb_gt in E | apply Z.ltb_ge in E]; lia.
    + unfold has_col in E. assert (existsb (fun c0 => c_uid c0 =? u) (d_cols d) = true) as E2; [|congruence].
      apply existsb_exists. exists c. split; [exact Hc | apply Z.eqb_eq; exact Heq].
Qed.

Lemma tT_delete_one d perm temp u :
  trackedT d perm temp -> d_nuid d0 <= u ->
  trackedT (delete_column d u) (filter (fun x => negb (x =? u)) perm) (filter (fun x => negb (x =? u)) temp).
Proof.
  intros TT Hu. destruct (tT_delete_cols d perm temp u TT) as [K1 [K3 [K4 [K5 K6]]]].
  pose proof (fun t => tT_delete_locs d perm temp u t TT Hu) as K2.
  destruct TT as [ex [Hc [Hx [Hdis [Hl [Ht [Hlen [Hg [Hd [Hn Hr]]]]]]]]]].
  exists (filter (fun c => negb (c_uid c =? u)) ex).
  rewrite K1, K3, K4, K5, K6, Hc.
  split.
  { apply filter_app_l. intros c Hin. apply negb_true_iff. apply Z.eqb_neq. apply (inv_col_lt d0 HI) in Hin. lia. }
  split.
  { intro x. rewrite <- filter_app. rewrite filter_In. split.
    - intro H. apply in_map_iff in H as [c [Hcu Hin]]. apply filter_In in Hin as [Hin Hm]. subst x.
      split; [apply Hx; apply in_map; exact Hin | exact Hm].
    - intros [H Hm]. apply Hx in H. apply in_map_iff in H as [c [Hcu Hin]]. apply in_map_iff. exists c.
      split; [exact Hcu|]. apply filter_In. split; [exact Hin | subst x; exact Hm]. }
  split.
  { intros x H1 H2. apply filter_In in H1 as [H1 _]. apply filter_In in H2 as [H2 _]. exact (Hdis x H1 H2). }
  split.
  { intros t E. rewrite K2. rewrite <- (Hl t E). apply erase_first_notin.
    rewrite (Hl t E). intro Hin. apply getloc_In in Hin as [l [H1 H2]]. apply (inv_loc_lt d0 HI l u H1) in H2. lia. }
  split.
  { intros t E. destruct (Ht t E) as [B C]. rewrite K2, (erase_first_nodup u _ B).
    split; [apply NoDup_filter; exact B|].
    intros x Hin. apply filter_In in Hin as [Hin Hm]. rewrite <- filter_app. apply filter_In. split; [apply C; exact Hin | exact Hm]. }
  split; [exact Hlen|]. split; [exact Hg|]. split; [exact Hd|]. split; [exact Hn|].
  intros x H. rewrite <- filter_app in H. apply filter_In in H as [H _]. apply Hr; exact H.
Qed.

Lemma tT_delete_list us : forall d perm temp,
  trackedT d perm temp -> (forall u, In u us -> d_nuid d0 <= u) ->
  trackedT (delete_columns d us) (filter (fun x => negb (memz x us)) perm) (filter (fun x => negb (memz x us)) temp).
Proof.
  induction us as [|u us IH]; intros d perm temp TT Hus; simpl.
  - rewrite !filter_all_true by reflexivity. exact TT.
  - unfold delete_columns in *. simpl.
    assert (Hu : d_nuid d0 <= u) by (apply Hus; left; reflexivity).
    pose proof (tT_delete_one d perm temp u TT Hu) as T3.
    specialize (IH _ _ _ T3 (fun x Hx => Hus x (or_intror Hx))).
    eapply tT_ext; [exact IH | |]; intro x; rewrite !filter_In; unfold memz; simpl;
      rewrite negb_orb, andb_true_iff; tauto.
Qed.

Lemma tT_clean_perm d perm temp : trackedT d perm temp -> trackedT (delete_columns d perm) [] temp.
Proof.
  intro TT. pose proof TT as [ex [_ [_ [Hdis [_ [_ [_ [_ [_ [_ Hr]]]]]]]]]].
  eapply tT_ext; [apply (tT_delete_list perm d perm temp TT)| |].
  - intros u Hu. assert (In u (perm ++ temp)) as H by (apply in_or_app; left; exact Hu). apply Hr in H. lia.
  - intro u. rewrite filter_In. split; [|intros []]. intros [H Hm]. apply negb_true_iff in Hm.
    apply memz_In in H. congruence.
  - intro u. rewrite filter_In. split; [tauto|]. intro H. split; [exact H|]. apply negb_true_iff.
    destruct (memz u perm) eqn:E; [|reflexivity]. apply memz_In in E. exfalso. exact (Hdis u E H).
Qed.

Lemma tT_clean_temp d perm temp : trackedT d perm temp -> trackedT (delete_columns d temp) perm [].
Proof.
  intro TT. pose proof TT as [ex [_ [_ [Hdis [_ [_ [_ [_ [_ [_ Hr]]]]]]]]]].
  eapply tT_ext; [apply (tT_delete_list temp d perm temp TT)| |].
  - intros u Hu. assert (In u (perm ++ temp)) as H by (apply in_or_app; right; exact Hu). apply Hr in H. lia.
  - intro u. rewrite filter_In. split; [tauto|]. intro H. split; [exact H|]. apply negb_true_iff.
    destruct (memz u temp) eqn:E; [|reflexivity]. apply memz_In in E. exfalso. exact (Hdis u H E).
  - intro u. rewrite filter_In. split; [|intros []]. intros [H Hm]. apply negb_true_iff in Hm.
    apply memz_In in H. congruence.
Qed.

(* ---- the numerical body ---- *)
Lemma tT_write d perm temp us tag :
  trackedT d perm temp -> (forall u, In u us -> d_nuid d0 <= u) -> trackedT (write_cols d us tag) perm temp.
Proof.
  intros [ex [Hc [Hu [Hdis [Hl [Ht [Hlen [Hg [Hd [Hn Hr]]]]]]]]]] Hus.
  set (f := fun c => if memz (c_uid c) us then mkcol (c_uid c) (c_name c) (Written tag) else c).
  assert (Hf : forall l, map c_uid (map f l) = map c_uid l).
  { intro l. rewrite map_map. apply map_ext. intro c. unfold f. destruct (memz (c_uid c) us); reflexivity. }
  exists (map f ex). unfold write_cols; simpl.
  split.
  { rewrite Hc, map_app. f_equal. rewrite <- (map_id (d_cols d0)) at 2. apply map_ext_in.
    intros c Hin. destruct (memz (c_uid c) us) eqn:E; [|reflexivity].
    apply memz_In in E. apply Hus in E. apply (inv_col_lt d0 HI) in Hin. lia. }
  split. { intro u. rewrite Hf. apply Hu. }
  split; [exact Hdis|]. split; [exact Hl|]. split; [exact Ht|]. split; [exact Hlen|].
  split; [exact Hg|]. split; [exact Hd|]. split; [exact Hn | exact Hr].
Qed.

(* ---- adding registered columns ---- *)
Lemma add_columns_split d n init radix t idx : 0 < n ->
  add_columns d n init radix t idx =
  (let d1 := fst (add_columns d n init radix (-1) 0) in
   if t <? 0 then d1 else set_locators_by_uid d1 n (d_nuid d) t idx, d_nuid d).
Proof.
  intro Hn. unfold add_columns. assert ((n <=? 0) = false) as -> by (apply Z.leb_gt; exact Hn).
  simpl. destruct (t <? 0); reflexivity.
Qed.

(* the columns after addColumnsByConstant (no locator) *)
Lemma add_noloc_shape d perm temp n init radix (st1 : bool) :
  trackedT d perm temp -> 0 < n ->
  let d1 := fst (add_columns d n init radix (-1) 0) in
  trackedT d1 (if st1 then perm ++ seqz (d_nuid d) (Z.to_nat n) else perm)
              (if st1 then temp else temp ++ seqz (d_nuid d) (Z.to_nat n)) /\
  d_nuid d1 = d_nuid d + n /\ d_locs d1 = d_locs d /\
  (forall x, d_nuid d <= x < d_nuid d + n -> has_col d1 x = true).
Proof.
  intros [ex [Hc [Hu [Hdis [Hl [Ht [Hlen [Hg [Hd [Hn Hr]]]]]]]]]] Hpos.
  unfold add_columns. assert ((n <=? 0) = false) as -> by (apply Z.leb_gt; exact Hpos).
  cbn [Z.ltb Z.compare fst].
  set (k := Z.to_nat n).
  set (raw := if n =? 1 then [radix] else mult_names radix n).
  assert (Hraw : length raw = k).
  { unfold raw. destruct (n =? 1) eqn:E1; [apply Z.eqb_eq in E1; subst; reflexivity | apply mult_names_length]. }
  set (news := map (fun p : nat * str => mkcol (d_nuid d + Z.of_nat (fst p)) (snd p) init) (combine (seq 0 k) raw)).
  simpl.
  destruct (correct_dups_prefix (map c_name (d_cols d0)) (map c_name (ex ++ news)) (inv_names d0 HI)) as [l1' [Hcd Hlen']].
  assert (Hk : Z.of_nat k = n) by (unfold k; lia).
  assert (Hcols : zipnames (d_cols d ++ news) (correct_dups (map c_name (d_cols d ++ news))) =
                  d_cols d0 ++ zipnames (ex ++ news) l1').
  { rewrite Hc. rewrite <- app_assoc. rewrite map_app. rewrite Hcd.
    rewrite zipnames_app by (rewrite map_length; reflexivity). rewrite zipnames_self. reflexivity. }
  assert (Hlen2 : length (ex ++ news) = length l1') by (rewrite Hlen', map_length; reflexivity).
  assert (Hnew : forall x, In x (map c_uid (zipnames (ex ++ news) l1')) <-> In x (map c_uid ex) \/ d_nuid d <= x < d_nuid d + Z.of_nat k).
  { intro x. rewrite zipnames_uids by exact Hlen2. rewrite map_app, in_app_iff.
    unfold news. rewrite new_cols_uids by exact Hraw. rewrite in_map_shift. tauto. }
  fold k raw news. rewrite Hcols.
  assert (Hreg : forall x, In x ((if st1 then perm ++ seqz (d_nuid d) k else perm) ++ (if st1 then temp else temp ++ seqz (d_nuid d) k)) <->
                           In x (perm ++ temp) \/ d_nuid d <= x < d_nuid d + Z.of_nat k).
  { intro x. destruct st1; rewrite !in_app_iff, seqz_In; tauto. }
  split; [|split; [reflexivity | split; [reflexivity|]]].
  - exists (zipnames (ex ++ news) l1'). cbn [d_cols d_nuid d_locs d_grid d_gdim].
    split; [reflexivity|].
    split. { intro x. rewrite Hnew, Hreg, Hu. tauto. }
    split.
    { destruct st1; intros x H1 H2.
      - apply in_app_iff in H1 as [H1|H1]; [exact (Hdis x H1 H2)|].
        apply seqz_In in H1. assert (In x (perm ++ temp)) as H3 by (apply in_or_app; right; exact H2). apply Hr in H3. lia.
      - apply in_app_iff in H2 as [H2|H2]; [exact (Hdis x H1 H2)|].
        apply seqz_In in H2. assert (In x (perm ++ temp)) as H3 by (apply in_or_app; left; exact H1). apply Hr in H3. lia. }
    split; [exact Hl|].
    split. { intros t E. destruct (Ht t E) as [B C]. split; [exact B|]. intros x Hx. apply Hreg. left. apply C; exact Hx. }
    split; [exact Hlen|]. split; [exact Hg|]. split; [exact Hd|]. split; [lia|].
    intros x Hx. apply Hreg in Hx as [Hx|Hx]; [apply Hr in Hx; lia | lia].
  - intros x Hx. unfold has_col. cbn [d_cols]. apply existsb_exists.
    assert (In x (map c_uid (zipnames (ex ++ news) l1'))) as Hin by (apply Hnew; right; lia).
    apply in_map_iff in Hin as [c [Hcu Hc']]. exists c. split; [apply in_or_app; right; exact Hc' | apply Z.eqb_eq; exact Hcu].
Qed.

(* giving the touched locator type to a fresh registered variable, at the end of the list or over a fresh entry *)
Lemma tT_set_locator d perm temp u t idx :
  trackedT d perm temp -> tch t = true -> loc_ok t = true -> In u (perm ++ temp) -> has_col d u = true ->
  (forall t' x, In x (getloc (d_locs d) t') -> x < u) ->
  0 <= idx <= zlen (getloc (d_locs d) t) ->
  let d' := set_locator d u t idx in
  trackedT d' perm temp /\ idx + 1 <= zlen (getloc (d_locs d') t) /\
  (forall t' x, In x (getloc (d_locs d') t') -> x < u + 1).
Proof.
  intros TT Et Eok Hreg Hcol Hbelow Hidx.
  pose proof TT as [ex [Hc [Hx [Hdis [Hl [Ht [Hlen [Hg [Hd [Hn Hr]]]]]]]]]].
  assert (Hnot : forall t', ~ In u (getloc (d_locs d) t')) by (intros t' H; apply Hbelow in H; lia).
  assert (Hl1 : map (erase_first u) (d_locs d) = d_locs d).
  { rewrite <- (map_id (d_locs d)) at 2. apply map_ext_in. intros l Hin. apply erase_first_notin.
    destruct (In_locs_getloc _ _ Hlen Hin) as [t' ->]. apply Hnot. }
  unfold set_locator, set_locator_ok, uid_valid.
  pose proof (Hr u Hreg) as Hb. pose proof (inv_nuid d0 HI) as H0.
  assert (((0 <=? u) && (u <? d_nuid d)) && has_col d u = true) as ->.
  { rewrite Hcol. rewrite andb_true_r. apply andb_true_iff. split; [apply Z.leb_le | apply Z.ltb_lt]; lia. }
  cbn [negb]. assert ((idx <? 0) = false) as -> by (apply Z.ltb_ge; lia). rewrite Hl1.
  rewrite Eok. cbn [negb].
  set (l := getloc (d_locs d) t) in *.
  destruct (Ht t Et) as [B C]. fold l in B, C.
  set (p' := upd (pad l (Datatypes.S (Z.to_nat idx))) (Z.to_nat idx) u).
  assert (Hp' : NoDup p' /\ (forall x, In x p' -> x = u \/ In x l) /\ idx + 1 <= zlen p').
  { unfold zlen in Hidx. destruct (Z.eq_dec idx (Z.of_nat (length l))) as [He|He].
    - assert (Z.to_nat idx = length l) as E by lia. unfold p', pad. rewrite E.
      replace (Datatypes.S (length l) - length l)%nat with 1%nat by lia. simpl repeat. rewrite upd_snoc.
      split; [|split].
      + apply NoDup_app_snoc; [exact B | apply Hnot].
      + intros x Hin. apply in_app_iff in Hin as [Hin|[Hin|[]]]; [right; exact Hin | left; congruence].
      + unfold zlen. rewrite app_length. simpl. lia.
    - assert ((Z.to_nat idx < length l)%nat) as E by lia. unfold p', pad.
      replace (Datatypes.S (Z.to_nat idx) - length l)%nat with 0%nat by lia. simpl repeat. rewrite app_nil_r.
      split; [|split].
      + apply upd_NoDup; [exact B | apply Hnot].
      + intros x Hin. apply upd_In in Hin. exact Hin.
      + unfold zlen. rewrite length_upd. lia. }
  destruct Hp' as [P1 [P2 P3]].
  assert (Hsame : getloc (setloc (d_locs d) t p') t = p') by (apply getloc_setloc_same; assumption).
  split; [|split].
  - exists ex. unfold with_locs. cbn [d_cols d_nuid d_locs d_grid d_gdim].
    split; [exact Hc|]. split; [exact Hx|]. split; [exact Hdis|].
    split. { intros t' E'. rewrite getloc_setloc_other by (intro; subst; congruence). apply Hl; exact E'. }
    split.
    { intros t' E'. destruct (Z.eq_dec t' t) as [->|Hne].
      - rewrite Hsame. split; [exact P1|]. intros x Hin. apply P2 in Hin as [->|Hin]; [exact Hreg | apply C; exact Hin].
      - rewrite getloc_setloc_other by exact Hne. apply Ht; exact E'. }
    split; [rewrite length_setloc; exact Hlen|]. split; [exact Hg|]. split; [exact Hd|]. split; [exact Hn | exact Hr].
  - unfold with_locs. cbn [d_locs]. rewrite Hsame. exact P3.
  - intros t' x Hin. unfold with_locs in Hin. cbn [d_locs] in Hin. destruct (Z.eq_dec t' t) as [->|Hne].
    + rewrite Hsame in Hin. apply P2 in Hin as [->|Hin]; [lia | apply Hbelow in Hin; lia].
    + rewrite getloc_setloc_other in Hin by exact Hne. apply Hbelow in Hin. lia.
Qed.

Lemma tT_set_locs_seq k : forall d perm temp u t idx,
  trackedT d perm temp -> tch t = true -> loc_ok t = true ->
  (forall x, u <= x < u + Z.of_nat k -> In x (perm ++ temp) /\ has_col d x = true) ->
  (forall t' x, In x (getloc (d_locs d) t') -> x < u) ->
  0 <= idx <= zlen (getloc (d_locs d) t) ->
  trackedT (set_locs_seq d k u t idx) perm temp.
Proof.
  induction k as [|k IH]; intros d perm temp u t idx TT Et Eok Hnew Hbelow Hidx; simpl; [exact TT|].
  destruct (Hnew u) as [Hreg Hcol]; [lia|].
  destruct (tT_set_locator d perm temp u t idx TT Et Eok Hreg Hcol Hbelow Hidx) as [T1 [L1 B1]].
  apply IH; try assumption.
  - intros x Hx. destruct (Hnew x) as [H1 H2]; [lia|]. split; [exact H1|].
    unfold set_locator. destruct (negb (set_locator_ok d u)); [exact H2|]. destruct (negb (loc_ok t)); exact H2.
  - lia.
Qed.

End Loc.

(* ------------------------------------------------------------------ calculator states *)
Definition safe_opT (tch : Z -> bool) (rb : list op) (din dout : db) (o : op) : bool :=
  match o with
  | OAdd w status t n init slot => ((t <? 0) || (tch t && loc_ok t)) && cleans rb status
  | OExpand mode t _ => expand_noop t din dout && negb (tch t)
  | OClean _ => true
  | OBody _ => true
  | _ => false
  end.

Definition TrackedT (tch : Z -> bool) (rb : list op) (din dout : db) (s : st) : Prop :=
  s_alias s = false /\
  trackedT din tch (s_in s) (b_perm_in (s_book s)) (b_temp_in (s_book s)) /\
  trackedT dout tch (s_out s) (b_perm_out (s_book s)) (b_temp_out (s_book s)) /\
  book_ok rb (s_book s).

Section RunT.
Variables din dout : db.
Hypothesis HIi : Inv din.
Hypothesis HIo : Inv dout.
Variable tch : Z -> bool.
Hypothesis HtX : tch L_X = false.
Hypothesis Hti : forall t, tch t = true -> getloc (d_locs din) t = [].
Hypothesis Hto : forall t, tch t = true -> getloc (d_locs dout) t = [].
Variable rb : list op.

Lemma TrackedT_init : TrackedT tch rb din dout (init_st din dout false).
Proof.
  unfold TrackedT, init_st; simpl. split; [reflexivity|]. split; [apply tT_init; assumption|].
  split; [apply tT_init; assumption|]. split; intros _; split; reflexivity.
Qed.

Lemma expand_noop_sameT t s : TrackedT tch rb din dout s -> expand_noop t din dout = true -> tch t = false ->
  forall mode reg, expand_information mode t reg s = (true, s).
Proof.
  intros [Ha [[exi [_ [_ [_ [Hli _]]]]] [[exo [_ [_ [_ [Hlo [_ [_ [Hgo [Hdo _]]]]]]]]] _]]] He Ht mode reg.
  unfold expand_information, getdb. rewrite Ha.
  unfold expand_noop in He. unfold ndim, locnum in *.
  rewrite (Hlo t Ht), (Hlo L_X HtX), (Hli t Ht), Hgo, Hdo.
  destruct (d_grid dout && (t =? L_X)).
  - apply orb_true_iff in He as [He|He]; rewrite He; [reflexivity|]. destruct (_ <=? 0); reflexivity.
  - apply orb_true_iff in He as [He|He]; rewrite He; [reflexivity|]. destruct (_ <=? 0); reflexivity.
Qed.

(* _addVariableDb on a tracked Db *)
Lemma tT_add d0 (HI0 : Inv d0) d perm temp n init t d' u (st1 : bool) :
  trackedT d0 tch d perm temp -> ((t <? 0) || (tch t && loc_ok t)) = true ->
  add_columns d n init [] t 0 = (d', u) -> 0 <= u ->
  trackedT d0 tch d' (if st1 then perm ++ seqz u (Z.to_nat n) else perm)
                     (if st1 then temp else temp ++ seqz u (Z.to_nat n)).
Proof.
  intros TT Ht Hadd Hu.
  assert (Hpos : 0 < n).
  { unfold add_columns in Hadd. destruct (n <=? 0) eqn:E; [inversion Hadd; subst; lia | apply Z.leb_gt in E; exact E]. }
  rewrite (add_columns_split d n init [] t 0 Hpos) in Hadd. inversion Hadd as [[Hd' Hu']]; clear Hadd.
  destruct (add_noloc_shape d0 HI0 tch d perm temp n init [] st1 TT Hpos) as [T1 [N1 [L1 C1]]].
  set (d1 := fst (add_columns d n init [] (-1) 0)) in *.
  destruct (t <? 0) eqn:Et; [exact T1|].
  simpl in Ht. apply andb_true_iff in Ht as [Ht Hok].
  unfold set_locators_by_uid. cbn [Z.ltb Z.compare].
  apply (tT_set_locs_seq d0 HI0 tch); try assumption.
  - intros x Hx. split; [|apply C1; lia].
    destruct st1; rewrite !in_app_iff, seqz_In; [left; right | right; right]; lia.
  - intros t' x Hin. rewrite L1 in Hin. exact (tT_entries d0 HI0 tch d perm temp t' x TT Hin).
  - unfold zlen. lia.
Qed.

Lemma exec_op_safeT nc o s ok s' :
  TrackedT tch rb din dout s -> safe_opT tch rb din dout o = true -> exec_op nc o s = (ok, s') -> TrackedT tch rb din dout s'.
Proof.
  intros T Hs He. destruct o; simpl in Hs; try discriminate.
  - (* OAdd *)
    apply andb_true_iff in Hs as [Ht Hcl].
    simpl in He. unfold add_variable in He.
    destruct (add_columns (getdb w s) (n s) init [] t 0) as [d' u] eqn:Ea.
    destruct (u <? 0) eqn:Eu.
    { inversion He; subst. exact T. }
    apply Z.ltb_ge in Eu. inversion He; subst ok s'; clear He.
    destruct T as [Ha [Ti [To [Hb1 Hb2]]]].
    rewrite cleans_status in Hcl.
    destruct w; unfold getdb in Ea; [|rewrite Ha in Ea].
    + pose proof (tT_add din HIi _ _ _ _ _ _ _ _ (is_perm status) Ti Ht Ea Eu) as T2.
      unfold TrackedT, setdb, with_book, store_in_list, is_perm, set_slot in *; simpl.
      destruct (status =? 1) eqn:Es; simpl; (split; [exact Ha|]); (split; [exact T2|]); (split; [exact To|]);
        split; intro Hc; try congruence; first [apply Hb1 in Hc; tauto | apply Hb2 in Hc; tauto].
    + pose proof (tT_add dout HIo _ _ _ _ _ _ _ _ (is_perm status) To Ht Ea Eu) as T2.
      unfold TrackedT, setdb, with_book, store_in_list, is_perm, set_slot in *; simpl. rewrite Ha.
      destruct (status =? 1) eqn:Es; simpl; (split; [first [exact Ha | reflexivity]|]); (split; [exact Ti|]); (split; [exact T2|]);
        split; intro Hc; try congruence; first [apply Hb1 in Hc; tauto | apply Hb2 in Hc; tauto].
  - (* OClean *)
    simpl in He. inversion He; subst ok s'; clear He.
    destruct T as [Ha [Ti [To [Hb1 Hb2]]]].
    destruct s as [si so al bk sl]. simpl in *. subst al.
    unfold clean_variables, getdb, setdb, with_book, TrackedT. simpl.
    destruct (status =? 1); simpl.
    + split; [reflexivity|]. split; [apply tT_clean_perm; assumption|]. split; [apply tT_clean_perm; assumption|].
      split; intro Hc; [tauto | apply Hb2; exact Hc].
    + split; [reflexivity|]. split; [apply tT_clean_temp; assumption|]. split; [apply tT_clean_temp; assumption|].
      split; intro Hc; [apply Hb1; exact Hc | tauto].
  - (* OExpand *)
    apply andb_true_iff in Hs as [Hs Hn]. apply negb_true_iff in Hn.
    simpl in He. rewrite (expand_noop_sameT _ _ T Hs Hn) in He. inversion He; subst; exact T.
  - (* OBody *)
    simpl in He. inversion He; subst ok s'; clear He.
    destruct T as [Ha [Ti [To [Hb1 Hb2]]]].
    destruct s as [si so al bk sl]. simpl in *. subst al.
    unfold all_registered, getdb, setdb, TrackedT. simpl. rewrite !app_nil_r.
    split; [reflexivity|]. split; [|split; [|split; assumption]].
    + apply tT_write; [exact HIi | exact Ti|]. intros u Hu.
      destruct Ti as [ex [_ [_ [_ [_ [_ [_ [_ [_ [_ Hr]]]]]]]]]]. apply Hr in Hu. lia.
    + apply tT_write; [exact HIo | exact To|]. intros u Hu.
      destruct To as [ex [_ [_ [_ [_ [_ [_ [_ [_ [_ Hr]]]]]]]]]]. apply Hr in Hu. lia.
Qed.

Lemma exec_ops_safeT nc ops : forall s b ok s',
  TrackedT tch rb din dout s -> forallb (safe_opT tch rb din dout) ops = true -> exec_ops nc ops s b = (ok, s') ->
  TrackedT tch rb din dout s'.
Proof.
  induction ops as [|o r IH]; intros s b ok s' T Hs He; simpl in He.
  - inversion He; subst; exact T.
  - simpl in Hs. apply andb_true_iff in Hs as [Ho Hr].
    destruct b as [[|k]|].
    + inversion He; subst; exact T.
    + destruct (exec_op nc o s) as [ok1 s1] eqn:E1. pose proof (exec_op_safeT _ _ _ _ _ T Ho E1) as T1.
      destruct ok1; [exact (IH _ _ _ _ T1 Hr He) | inversion He; subst; exact T1].
    + destruct (exec_op nc o s) as [ok1 s1] eqn:E1. pose proof (exec_op_safeT _ _ _ _ _ T Ho E1) as T1.
      destruct ok1; [exact (IH _ _ _ _ T1 Hr He) | inversion He; subst; exact T1].
Qed.

Lemma exec_quiet_cleanT nc ops : forall s (p t : bool),
  TrackedT tch rb din dout s -> forallb only_clean ops = true -> lists_empty p t (s_book s) ->
  let s' := exec_quiet nc ops s in
  TrackedT tch rb din dout s' /\ lists_empty (p || cleans ops 1) (t || cleans ops 2) (s_book s').
Proof.
  induction ops as [|o r IH]; intros s p t T Hc Hl; simpl.
  - unfold cleans; simpl. rewrite !orb_false_r. split; assumption.
  - simpl in Hc. apply andb_true_iff in Hc as [Ho Hr]. destruct o; simpl in Ho; try discriminate.
    assert (T1 : TrackedT tch rb din dout (clean_variables status s)).
    { apply (exec_op_safeT nc (OClean status) s true); [exact T | reflexivity | reflexivity]. }
    assert (Hl1 : lists_empty (p || is_perm status) (t || negb (is_perm status)) (s_book (clean_variables status s))).
    { destruct T as [Ha _]. destruct Hl as [Hp Ht]. destruct s as [si so al bk sl]. simpl in *. subst al.
      unfold clean_variables, is_perm, setdb, getdb, with_book. simpl.
      destruct (status =? 1); simpl; split; intro H; rewrite ?orb_true_r, ?orb_false_r in H; try (split; reflexivity).
      - apply Ht; exact H.
      - apply Hp; exact H. }
    destruct (IH _ _ _ T1 Hr Hl1) as [T2 Hl2]. split; [exact T2|].
    unfold cleans in *. simpl. unfold is_perm at 1 3. simpl.
    replace (Bool.eqb (status =? 1) true) with (is_perm status) by (unfold is_perm; destruct (status =? 1); reflexivity).
    replace (Bool.eqb (status =? 1) false) with (negb (is_perm status)) by (unfold is_perm; destruct (status =? 1); reflexivity).
    rewrite !orb_assoc. exact Hl2.
Qed.

Lemma rollback_restoresT nc s :
  TrackedT tch rb din dout s -> forallb only_clean rb = true ->
  (db_eq (s_in (exec_quiet nc rb s)) din /\ Inv (s_in (exec_quiet nc rb s))) /\
  (db_eq (s_out (exec_quiet nc rb s)) dout /\ Inv (s_out (exec_quiet nc rb s))).
Proof.
  intros T Hc.
  destruct (exec_quiet_cleanT nc rb s false false T Hc) as [[Ha [Ti [To [Hb1 Hb2]]]] [Hp Ht]].
  { split; intro H; discriminate. }
  simpl in Hp, Ht.
  assert (b_perm_in (s_book (exec_quiet nc rb s)) = [] /\ b_perm_out (s_book (exec_quiet nc rb s)) = []) as [P1 P2].
  { destruct (cleans rb 1) eqn:E; [apply Hp; reflexivity | apply Hb1; reflexivity]. }
  assert (b_temp_in (s_book (exec_quiet nc rb s)) = [] /\ b_temp_out (s_book (exec_quiet nc rb s)) = []) as [Q1 Q2].
  { destruct (cleans rb 2) eqn:E; [apply Ht; reflexivity | apply Hb2; reflexivity]. }
  rewrite P1, Q1 in Ti. rewrite P2, Q2 in To.
  split; [apply (tT_done din HIi tch) | apply (tT_done dout HIo tch)]; assumption.
Qed.

End RunT.

(* atomicity when the calculator gives the locator types [tch] to its own variables and no variable carried them before *)
Theorem atomic_touched (c : calc) (tch : Z -> bool) (din dout : db) (fs : Z) (fk : nat) (s' : st) :
  Inv din -> Inv dout -> tch L_X = false ->
  (forall t, tch t = true -> getloc (d_locs din) t = []) -> (forall t, tch t = true -> getloc (d_locs dout) t = []) ->
  k_init c = [] ->
  forallb (safe_opT tch (k_rollback c) din dout) (k_pre c) = true ->
  forallb (safe_opT tch (k_rollback c) din dout) (k_run c) = true ->
  forallb only_clean (k_rollback c) = true ->
  (forall s, TrackedT tch (k_rollback c) din dout s -> fst (exec_ops (k_nc c) (k_post c) s None) = true) ->
  fs <> 4 ->
  calc_run c (init_st din dout false) fs fk = (false, s') ->
  (db_eq (s_in s') din /\ Inv (s_in s')) /\ (db_eq (s_out s') dout /\ Inv (s_out s')).
Proof.
  intros HIi HIo HtX Hti Hto Hk Hpre Hbody Hrb Hpost Hfs Hrun.
  pose proof (TrackedT_init din dout HIi HIo tch Hti Hto (k_rollback c)) as T0.
  unfold calc_run in Hrun. rewrite Hk in Hrun. cbn [exec_quiet] in Hrun.
  set (RB := fun s => rollback_restoresT din dout HIi HIo tch HtX Hti Hto (k_rollback c) (k_nc c) s) in *.
  destruct (negb (k_check c (init_st din dout false))).
  { inversion Hrun; subst. apply RB; assumption. }
  destruct (fs =? 1).
  { inversion Hrun; subst. apply RB; assumption. }
  destruct (exec_ops (k_nc c) (k_pre c) (init_st din dout false) (budget_of fs 2 fk)) as [ok1 s1] eqn:E1.
  pose proof (exec_ops_safeT din dout HIi HIo tch HtX _ _ _ _ _ _ _ T0 Hpre E1) as T1.
  destruct ok1; simpl in Hrun; [|inversion Hrun; subst; apply RB; assumption].
  destruct (exec_ops (k_nc c) (k_run c) s1 (budget_of fs 3 fk)) as [ok2 s2] eqn:E2.
  pose proof (exec_ops_safeT din dout HIi HIo tch HtX _ _ _ _ _ _ _ T1 Hbody E2) as T2.
  destruct ok2; simpl in Hrun; [|inversion Hrun; subst; apply RB; assumption].
  destruct (exec_ops (k_nc c) (k_post c) s2 (budget_of fs 4 fk)) as [ok3 s3] eqn:E3.
  assert (ok3 = true) as ->.
  { unfold budget_of in E3. destruct (fs =? 4) eqn:E4; [apply Z.eqb_eq in E4; contradiction|].
    pose proof (Hpost s2 T2) as H. rewrite E3 in H. exact H. }
  simpl in Hrun. discriminate.
Qed.

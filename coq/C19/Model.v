(* C19 — executable model of the calculator protocol (ACalculator::run and the variable
   bookkeeping of ACalcDbToDb / ACalcDbVarCreator) over a small model of Db.
   Definitions only, no proofs.  Every definition names the C++ it mirrors (paths under /repo). *)
From Coq Require Import List ZArith Bool.
Import ListNotations.
Local Open Scope Z_scope.

(* ------------------------------------------------------------------ strings (lists of codes) *)
Definition str := list Z.

Fixpoint str_eqb (a b : str) : bool :=
  match a, b with
  | [], [] => true
  | x :: a', y :: b' => (x =? y) && str_eqb a' b'
  | _, _ => false
  end.
Definition mem_str (s : str) (l : list str) : bool := existsb (str_eqb s) l.
Definition memz (u : Z) (l : list Z) : bool := existsb (Z.eqb u) l.
Definition is_nil {A} (l : list A) : bool := match l with [] => true | _ => false end.

(* std::to_string(int) *)
Fixpoint digits_aux (fuel : nat) (n : Z) (acc : str) : str :=
  match fuel with
  | O => acc
  | S f => let acc' := (48 + n mod 10) :: acc in
           if n / 10 =? 0 then acc' else digits_aux f (n / 10) acc'
  end.
Definition to_string (n : Z) : str :=
  if n <? 0 then 45 :: digits_aux 20 (- n) [] else digits_aux 20 n [].

Definition s_dot : str := [46].
Definition s_new : str := [78; 101; 119].      (* "New": default radix of Db::addColumnsByConstant (Db.hpp:307) *)
Definition s_dash : str := [45].
(* src/Basic/String.cpp:92 incrementStringVersion(string, rank = 1, delim = ".") *)
Definition incr_version (s : str) : str := s ++ s_dot ++ to_string 1.
(* src/Basic/String.cpp:144 generateMultipleNames(radix, number, delim = "-") *)
Definition mult_names (radix : str) (n : Z) : list str :=
  map (fun i : nat => radix ++ s_dash ++ to_string (Z.of_nat i)) (seq 1 (Z.to_nat n)).

(* the inner "goto label_try" / "while (found > 0)" loops: lengthen the name while it is taken.
   fuel = number of candidate names + 1 is always enough (see Proofs.fix_name_fresh) *)
Fixpoint fix_name (fuel : nat) (taken : list str) (s : str) : str :=
  match fuel with
  | O => s
  | S f => if mem_str s taken then fix_name f taken (incr_version s) else s
  end.
(* src/Basic/String.cpp:160 correctNamesForDuplicates: element i is compared with the
   (already corrected) elements before it *)
Fixpoint correct_dups_aux (prev : list str) (l : list str) : list str :=
  match l with
  | [] => []
  | s :: r => let s' := fix_name (S (length prev)) prev s in
              s' :: correct_dups_aux (prev ++ [s']) r
  end.
Definition correct_dups (l : list str) : list str := correct_dups_aux [] l.

(* src/Basic/String.cpp:110 concatenateStrings *)
Definition cat2 (delim a b : str) : str :=
  if is_nil a then b else if is_nil b then a else a ++ delim ++ b.
Definition concat4 (delim s1 s2 s3 s4 : str) : str := cat2 delim (cat2 delim (cat2 delim s1 s2) s3) s4.

(* ------------------------------------------------------------------ Db *)
(* content of a column, as far as this property needs it:
   Orig k    : the values the column with uid k had before the call
   Cst c     : constant (0: zeros, 1: TEST/NA), as set by addColumnsByConstant
   Written t : overwritten by a numerical body (unconstrained)                       *)
Inductive content := Orig (k : Z) | Cst (code : Z) | Written (tag : Z).

Record column := mkcol { c_uid : Z; c_name : str; c_val : content }.

(* d_cols : the columns in storage order, each with its user identifier (Db::_uidcol inverted)
   d_nuid : Db::getUIDMaxNumber() (size of _uidcol; never shrinks)
   d_locs : Db::_p, one list of uids per locator type (ELoc value 0..28)
   d_grid / d_gdim : DbGrid and its grid dimension (immutable here)                   *)
Record db := mkdb { d_cols : list column; d_nuid : Z; d_locs : list (list Z);
                    d_grid : bool; d_gdim : Z }.

Definition NLOC : nat := 29.
Definition L_X : Z := 0.
Definition L_Z : Z := 1.
Definition L_F : Z := 3.
Definition L_NOSTAT : Z := 20.
Definition L_SIMU : Z := 22.

Definition with_cols (d : db) (c : list column) : db := mkdb c (d_nuid d) (d_locs d) (d_grid d) (d_gdim d).
Definition with_locs (d : db) (l : list (list Z)) : db := mkdb (d_cols d) (d_nuid d) l (d_grid d) (d_gdim d).

Definition loc_ok (t : Z) : bool := (0 <=? t) && (t <? Z.of_nat NLOC).
Definition getloc (locs : list (list Z)) (t : Z) : list Z :=
  if loc_ok t then nth (Z.to_nat t) locs [] else [].
Fixpoint upd {A} (l : list A) (n : nat) (x : A) : list A :=
  match l, n with
  | [], _ => []
  | _ :: r, O => x :: r
  | y :: r, S m => y :: upd r m x
  end.
Definition setloc (locs : list (list Z)) (t : Z) (p : list Z) : list (list Z) :=
  if loc_ok t then upd locs (Z.to_nat t) p else locs.
Definition zlen {A} (l : list A) : Z := Z.of_nat (length l).

(* Db::getNDim (Db.cpp:2221) / DbGrid::getNDim (DbGrid.cpp:719) *)
Definition ndim (d : db) : Z := if d_grid d then d_gdim d else zlen (getloc (d_locs d) L_X).
(* Db::getLocNumber / getLocatorNumber / getFromLocatorNumber *)
Definition locnum (d : db) (t : Z) : Z := zlen (getloc (d_locs d) t).

(* Db::isUIDValid (Db.cpp:254) *)
Definition uid_valid (d : db) (u : Z) : bool := (0 <=? u) && (u <? d_nuid d).
Definition find_col (d : db) (u : Z) : option column := find (fun c => c_uid c =? u) (d_cols d).
Definition has_col (d : db) (u : Z) : bool := existsb (fun c => c_uid c =? u) (d_cols d).

(* PtrGeos::findUIDInLocator + erase (PtrGeos.cpp): first occurrence only *)
Fixpoint erase_first (u : Z) (l : list Z) : list Z :=
  match l with
  | [] => []
  | x :: r => if x =? u then r else x :: erase_first u r
  end.
(* PtrGeos::resize(count) pads with 0 (PtrGeos.hpp) *)
Definition pad (p : list Z) (n : nat) : list Z := p ++ repeat 0 (n - length p).

(* Db::setLocatorByUID (Db.cpp:1136), cleanSameLocator = false; the uid of a deleted column is ignored
   ("if (_uidcol[iuid] < 0) return;": checks/C19.py asserts that this line is in the source) *)
Definition set_locator_ok (d : db) (u : Z) : bool := uid_valid d u && has_col d u.
Definition set_locator (d : db) (u t idx : Z) : db :=
  if negb (set_locator_ok d u) then d else
  let idx := if idx <? 0 then locnum d t else idx in
  let l1 := map (erase_first u) (d_locs d) in
  if negb (loc_ok t) then with_locs d l1 else
  let p := pad (getloc l1 t) (S (Z.to_nat idx)) in
  with_locs d (setloc l1 t (upd p (Z.to_nat idx) u)).

(* Db::setLocatorsByUID(number, iuid, type, index) (Db.cpp:1204) *)
Fixpoint set_locs_seq (d : db) (n : nat) (u t idx : Z) : db :=
  match n with
  | O => d
  | S m => set_locs_seq (set_locator d u t idx) m (u + 1) t (idx + 1)
  end.
Definition set_locators_by_uid (d : db) (n u t idx : Z) : db :=
  set_locs_seq d (Z.to_nat n) u t (if idx <? 0 then locnum d t else idx).

(* Db::clearLocators (Db.cpp:1065) *)
Definition clear_locators (d : db) (t : Z) : db := with_locs d (setloc (d_locs d) t []).

Definition zipnames (cols : list column) (names : list str) : list column :=
  map (fun p => mkcol (c_uid (fst p)) (snd p) (c_val (fst p))) (combine cols names).

(* Db::addColumnsByConstant(nadd, valinit, radix, locatorType, locatorIndex) (Db.cpp:1258);
   returns the new Db and the first new uid (-1 when nothing is added) *)
Definition add_columns (d : db) (nadd : Z) (init : content) (radix : str) (t idx : Z) : db * Z :=
  if nadd <=? 0 then (d, -1) else
  let n0 := d_nuid d in
  let k := Z.to_nat nadd in
  let raw := if nadd =? 1 then [radix] else mult_names radix nadd in
  let news := map (fun p => mkcol (n0 + Z.of_nat (fst p)) (snd p) init) (combine (seq 0 k) raw) in
  let all := d_cols d ++ news in
  let cols' := zipnames all (correct_dups (map c_name all)) in
  let d1 := mkdb cols' (n0 + nadd) (d_locs d) (d_grid d) (d_gdim d) in
  let d2 := if t <? 0 then d1 else set_locators_by_uid d1 nadd n0 t idx in
  (d2, n0).

(* Db::deleteColumnByUID (Db.cpp:1872) *)
Definition delete_column (d : db) (u : Z) : db :=
  if uid_valid d u && has_col d u then
    mkdb (filter (fun c => negb (c_uid c =? u)) (d_cols d)) (d_nuid d)
         (map (erase_first u) (d_locs d)) (d_grid d) (d_gdim d)
  else d.
Definition delete_columns (d : db) (us : list Z) : db := fold_left delete_column us d.

(* Db::deleteColumnsByLocator (Db.cpp:1921): downwards loop on the locator list *)
Fixpoint delete_by_locator_aux (d : db) (t : Z) (n : nat) : db :=
  match n with
  | O => d
  | S m => delete_by_locator_aux (delete_column d (nth m (getloc (d_locs d) t) (-1))) t m
  end.
Definition delete_by_locator (d : db) (t : Z) : db :=
  delete_by_locator_aux d t (length (getloc (d_locs d) t)).

(* Db::setNameByUID (Db.cpp:3111) + correctNewNameForDuplicates (String.cpp:182) *)
Definition set_name (d : db) (u : Z) (name : str) : db :=
  if uid_valid d u && has_col d u then
    let others := map c_name (filter (fun c => negb (c_uid c =? u)) (d_cols d)) in
    let name' := fix_name (S (length others)) others name in
    with_cols d (map (fun c => if c_uid c =? u then mkcol (c_uid c) name' (c_val c) else c) (d_cols d))
  else d.

(* Db::getNameByUID (Db.cpp:3018) *)
Definition name_of_uid (d : db) (u : Z) : str :=
  if uid_valid d u then match find_col d u with Some c => c_name c | None => [] end else [].
(* Db::getNamesByLocator (Db.cpp:3025) *)
Definition names_by_locator (d : db) (t : Z) : list str := map (name_of_uid d) (getloc (d_locs d) t).
Definition names_by_uids (d : db) (us : list Z) : list str := map (name_of_uid d) us.

(* Db::_ids(names, false) -> expandList + _getUIDsBasic, names taken literally
   (assumption of the check: no name is a proper regular expression matching another name) *)
Fixpoint dedup_str (seen l : list str) : list str :=
  match l with
  | [] => []
  | s :: r => if mem_str s seen then dedup_str seen r else s :: dedup_str (s :: seen) r
  end.
Definition uid_of_name (d : db) (s : str) : option Z :=
  match find (fun c => str_eqb (c_name c) s) (d_cols d) with Some c => Some (c_uid c) | None => None end.
Definition ids_of_names (d : db) (names : list str) : list Z :=
  let present := filter (fun s => match uid_of_name d s with Some _ => true | None => false end) names in
  flat_map (fun s => match uid_of_name d s with Some u => [u] | None => [] end) (dedup_str [] present).

Fixpoint set_locs_list (d : db) (us : list Z) (t idx : Z) : db :=
  match us with
  | [] => d
  | u :: r => set_locs_list (set_locator d u t idx) r t (idx + 1)
  end.
(* Db::setLocators(names, type, index, cleanSameLocator = false) (Db.cpp:1086) *)
Definition set_locators_by_names (d : db) (names : list str) (t idx : Z) : db :=
  let us := ids_of_names d names in
  if is_nil us then d else set_locs_list d us t (if idx <? 0 then locnum d t else idx).

(* Db::duplicateColumnByUID (Db.cpp:1549) *)
Definition duplicate_column (d : db) (uin uout : Z) : db :=
  if uid_valid d uin && uid_valid d uout then
    match find_col d uin with
    | Some ci => with_cols d (map (fun c => if c_uid c =? uout then mkcol (c_uid c) (c_name c) (c_val ci) else c) (d_cols d))
    | None => d
    end
  else d.

Definition write_cols (d : db) (us : list Z) (tag : Z) : db :=
  with_cols d (map (fun c => if memz (c_uid c) us then mkcol (c_uid c) (c_name c) (Written tag) else c) (d_cols d)).

Fixpoint seqz (u : Z) (n : nat) : list Z := match n with O => [] | S m => u :: seqz (u + 1) m end.

(* ------------------------------------------------------------------ NamingConvention *)
Record namconv := mknc { nc_prefix : str; nc_varname : bool; nc_qualifier : bool; nc_locator : bool;
                         nc_loctype : Z; nc_delim : str; nc_clean : bool }.

Definition s_dummy : str := [68; 117; 109; 109; 121].

(* NamingConvention::_getNameCount (NamingConvention.cpp:352) *)
Definition name_count (names : list str) (nvar : Z) : Z :=
  if nvar <=? 0 then (if is_nil names then 1 else zlen names)
  else if is_nil names then nvar else Z.min nvar (zlen names).

(* NamingConvention::_createNames (NamingConvention.cpp:404) *)
Definition create_names (nc : namconv) (names : list str) (nvar : Z) (qual : str) (nitems : Z) : list str :=
  flat_map (fun ivar : nat =>
    let rank := to_string (Z.of_nat ivar + 1) in
    let v0 := if zlen names =? nvar then nth ivar names [] else [] in
    let loc_varname := if nc_varname nc then (if is_nil v0 && (1 <? nvar) then rank else v0) else [] in
    let loc_number0 := if nc_varname nc then [] else (if 1 <? nvar then rank else []) in
    map (fun item : nat =>
      let loc_qual := if nc_qualifier nc then qual else [] in
      let loc_number := if nc_qualifier nc && (1 <? nitems) then to_string (Z.of_nat item + 1) else loc_number0 in
      let name := concat4 (nc_delim nc) (nc_prefix nc) loc_varname loc_qual loc_number in
      if is_nil name then s_dummy else name) (seq 0 (Z.to_nat nitems)))
  (seq 0 (Z.to_nat nvar)).

Fixpoint set_names_seq (d : db) (u : Z) (names : list str) : db :=
  match names with
  | [] => d
  | s :: r => set_names_seq (set_name d u s) (u + 1) r
  end.
(* NamingConvention::_setNames (NamingConvention.cpp:377) *)
Definition nc_set_names (nc : namconv) (d : db) (start : Z) (names : list str) (nvar : Z) (qual : str) (nitems : Z) : db :=
  let nloc := name_count names nvar in
  let out := create_names nc names nloc qual nitems in
  set_names_seq d start (firstn (Z.to_nat (nloc * nitems)) out).

(* NamingConvention::setLocators (NamingConvention.cpp:329) *)
Definition nc_set_locators (nc : namconv) (d : db) (start nvar nitems shift : Z) : db :=
  if negb (nc_locator nc) || (nc_loctype nc <? 0) then d else
  let d1 := if nc_clean nc && (shift =? 0) then clear_locators d (nc_loctype nc) else d in
  set_locs_seq d1 (Z.to_nat (nvar * nitems)) start (nc_loctype nc) shift.

(* NamingConvention::setNamesAndLocators(dbin, names, locatorInType, nvar, dbout, iattout_start,
   qualifier, nitems, flagSetLocator, locatorShift) (NamingConvention.cpp:232) *)
Definition set_names_and_locators (nc : namconv) (din : db) (names : list str) (tin nvar : Z)
           (dout : db) (start : Z) (qual : str) (nitems : Z) (flagloc : bool) (shift : Z) : db :=
  if start <? 0 then dout else
  let '(namloc, nvar') :=
    if is_nil names then
      if 0 <=? tin then
        let nl := names_by_locator din tin in
        if nvar <=? 0 then (nl, zlen nl)
        else (firstn (Z.to_nat nvar) (nl ++ repeat [] (Z.to_nat nvar)), nvar)
      else ([], if nvar <? 0 then 1 else nvar)
    else
      let nl := if (zlen names =? 1) && (1 <? nvar) then mult_names (nth 0 names []) nvar else names in
      (nl, zlen nl) in
  let d1 := nc_set_names nc dout start namloc nvar' qual nitems in
  if flagloc then nc_set_locators nc d1 start nvar' nitems shift else d1.

(* ------------------------------------------------------------------ calculator state *)
Inductive which := WIn | WOut.

(* the four uid lists of ACalcDbToDb (ACalcDbToDb.hpp) + CalcKriging/CalcSimuTurningBands::_nameCoord *)
Record book := mkbook { b_perm_in : list Z; b_perm_out : list Z; b_temp_in : list Z; b_temp_out : list Z;
                        b_saved : list (which * (Z * list Z));   (* locator lists put aside (fixes/C19_8.patch only) *)
                        b_name_coord : list str }.
(* s_alias: dbin and dbout are the same object (xvalid, dbRegression with db2 = nullptr) *)
Record st := mkst { s_in : db; s_out : db; s_alias : bool; s_book : book; s_slots : list Z }.

Definition empty_book : book := mkbook [] [] [] [] [] [].
Definition init_st (din dout : db) (alias : bool) : st := mkst din dout alias empty_book (repeat (-1) 8).

Definition getdb (w : which) (s : st) : db :=
  match w with WIn => s_in s | WOut => if s_alias s then s_in s else s_out s end.
Definition setdb (w : which) (d : db) (s : st) : st :=
  match w with
  | WIn => mkst d (s_out s) (s_alias s) (s_book s) (s_slots s)
  | WOut => if s_alias s then mkst d (s_out s) (s_alias s) (s_book s) (s_slots s)
           else mkst (s_in s) d (s_alias s) (s_book s) (s_slots s)
  end.
Definition with_book (s : st) (b : book) : st := mkst (s_in s) (s_out s) (s_alias s) b (s_slots s).
Definition get_slot (s : st) (i : nat) : Z := nth i (s_slots s) (-1).
Definition set_slot (s : st) (i : nat) (v : Z) : st :=
  mkst (s_in s) (s_out s) (s_alias s) (s_book s) (upd (s_slots s) i v).

(* ACalcDbToDb::_storeInVariableList (ACalcDbToDb.cpp:208) *)
Definition store_in_list (w : which) (status : Z) (us : list Z) (b : book) : book :=
  match w with
  | WIn => if status =? 1 then mkbook (b_perm_in b ++ us) (b_perm_out b) (b_temp_in b) (b_temp_out b) (b_saved b) (b_name_coord b)
          else mkbook (b_perm_in b) (b_perm_out b) (b_temp_in b ++ us) (b_temp_out b) (b_saved b) (b_name_coord b)
  | WOut => if status =? 1 then mkbook (b_perm_in b) (b_perm_out b ++ us) (b_temp_in b) (b_temp_out b) (b_saved b) (b_name_coord b)
           else mkbook (b_perm_in b) (b_perm_out b) (b_temp_in b) (b_temp_out b ++ us) (b_saved b) (b_name_coord b)
  end.

(* ACalcDbToDb::_addVariableDb (ACalcDbToDb.cpp:246) *)
Definition add_variable (w : which) (status t idx n : Z) (init : content) (s : st) : st * Z :=
  let '(d', u) := add_columns (getdb w s) n init [] t idx in
  if u <? 0 then (s, -1)
  else (with_book (setdb w d' s) (store_in_list w status (seqz u (Z.to_nat n)) (s_book s)), u).

(* ACalcDbToDb::_cleanVariableDb (ACalcDbToDb.cpp:297): dbin list first, then dbout list *)
Definition clean_variables (status : Z) (s : st) : st :=
  let b := s_book s in
  if status =? 1 then
    let s1 := setdb WIn (delete_columns (getdb WIn s) (b_perm_in b)) s in
    let s2 := setdb WOut (delete_columns (getdb WOut s1) (b_perm_out b)) s1 in
    with_book s2 (mkbook [] [] (b_temp_in b) (b_temp_out b) (b_saved b) (b_name_coord b))
  else
    let s1 := setdb WIn (delete_columns (getdb WIn s) (b_temp_in b)) s in
    let s2 := setdb WOut (delete_columns (getdb WOut s1) (b_temp_out b)) s1 in
    with_book s2 (mkbook (b_perm_in b) (b_perm_out b) [] [] (b_saved b) (b_name_coord b)).

(* ACalcDbToDb::_renameVariable (ACalcDbToDb.cpp:274): names are always read in dbin *)
Definition rename_variable (nc : namconv) (w : which) (names : list str) (tin nvar start : Z)
           (qual : str) (count : Z) (flagloc : bool) (s : st) : st :=
  setdb w (set_names_and_locators nc (getdb WIn s) names tin nvar (getdb w s) start qual count flagloc 0) s.

(* the "Migrate" convention built by ACalcDbToDb::_expandInformation (ACalcDbToDb.cpp:421) *)
Definition s_migrate : str := [77; 105; 103; 114; 97; 116; 101].
Definition nc_migrate (t : Z) : namconv := mknc s_migrate true true true t s_dot true.

(* migrateByLocator(src = the output grid, dst = dbin, locatorType) run to completion
   (CalcMigrate.cpp:859 -> CalcMigrate::_check/_preprocess/_run/_postprocess); None: error *)
Definition migrate_by_locator (src dst : db) (t : Z) : option db :=
  let names := names_by_locator src t in
  let iuids := ids_of_names src names in
  if is_nil iuids then None else
  let nvar := zlen iuids in
  let '(d1, iatt) := add_columns dst nvar (Cst 0) [] (-1) 0 in
  if iatt <? 0 then None else
  let d2 := write_cols d1 (seqz iatt (Z.to_nat nvar)) 7 in
  let d3 := set_names_and_locators (nc_migrate t) src (names_by_uids src iuids) (-1) nvar d2 iatt [] 1 true 0 in
  Some (set_locators_by_uid d3 nvar iatt t 0).

(* ACalcDbToDb::_expandInformation (ACalcDbToDb.cpp:385); result false = error return (1) *)
Definition expand_information (mode t : Z) (reg : bool) (s : st) : bool * st :=
  let din := getdb WIn s in let dout := getdb WOut s in
  let ninfo := if d_grid dout && (t =? L_X) then ndim dout else locnum dout t in
  if ninfo <=? 0 then (true, s) else
  if ninfo =? locnum din t then (true, s) else
  if negb (d_grid dout) then (false, s) else
  if 0 <? mode then
    match migrate_by_locator dout din t with
    | Some d' =>
        let s1 := setdb WIn d' s in
        (true, if reg then with_book s1 (store_in_list WIn 2 (seqz (d_nuid din) (Z.to_nat (d_nuid d' - d_nuid din))) (s_book s1))
               else s1)
    | None => (false, s)
    end
  else (true, setdb WIn (delete_by_locator din t) s).

(* ACalcInterpolator::_centerDataToGrid (ACalcInterpolator.cpp:237); the coordinates written by
   DbHelper::centerPointToGrid go to the duplicated columns, which then carry the X locators *)
Fixpoint center_loop (d : db) (uout : Z) (idim : Z) (n : nat) : db :=
  match n with
  | O => d
  | S m => let uin := nth (Z.to_nat idim) (getloc (d_locs d) L_X) 0 in
           let d1 := duplicate_column d uin (uout + idim) in
           center_loop (set_locator d1 (uout + idim) L_X idim) uout (idim + 1) m
  end.
Definition center_data_to_grid (s : st) : st :=
  let nd := ndim (getdb WIn s) in
  let '(s1, uout) := add_variable WIn 2 (-1) 0 nd (Cst 1) s in
  if uout <? 0 then s1 else
  let d := center_loop (getdb WIn s1) uout 0 (Z.to_nat nd) in
  setdb WIn (write_cols d (getloc (d_locs d) L_X) 9) s1.

(* ------------------------------------------------------------------ stage programs *)
(* The stage functions of a calculator are straight-line lists of these operations; conditions on
   options and on immutable attributes (grid or not) are resolved when the list is built, conditions
   on the current state are part of the operation.  n/names/count may read the current state. *)
Inductive op :=
| OAdd (w : which) (status t : Z) (n : st -> Z) (init : content) (slot : nat)
        (* slot = _addVariableDb(w, status, t, 0, n, init); if (slot < 0) return false *)
| OAddUnreg (w : which) (t : Z) (n : st -> Z) (init : content) (radix : str) (slot : nat) (neg_ok : bool)
        (* slot = db->addColumnsByConstant(n, init, radix, t, 0), NOT registered in the lists of this calculator (direct
           call, or variable created by a calculator nested in the numerical body); a negative result returns false,
           or true (!) when neg_ok *)
| OClean (status : Z)
| ORename (w : which) (names : st -> list str) (tin : Z) (nvar : st -> Z) (slot : nat) (off : Z)
          (qual : str) (count : st -> Z) (flagloc : bool)
| ORestoreX          (* if (!_nameCoord.empty()) dbin->setLocators(_nameCoord, ELoc::X, 0) *)
| OCenter            (* _nameCoord = dbin->getNamesByLocator(ELoc::X); _centerDataToGrid(dbgrid): one step, nothing can
                        fail between the two statements (CalcKriging.cpp:156, CalcSimuTurningBands.cpp, CalcKrigingFactors.cpp:95) *)
| OExpand (mode t : Z) (reg : bool)
                     (* _expandInformation(mode, t); reg: the variables it creates in dbin are registered as temporary
                        (only with fixes/C19_7.patch; read in the source by checks/C19.py) *)
| OFail              (* "return false" (a test of _preprocess on options / kind of Db) *)
| OClearLoc (w : which) (t : Z)                       (* db->clearLocators(t) *)
| OSetLocList (w : which) (us : list Z) (t : Z)      (* db->setLocatorsByUID(us, t, 0) *)
| OSetLocs (w : which) (slot : nat) (n : st -> Z) (t : Z)   (* db->setLocatorsByUID(n, slot, t, 0) *)
| OBody (tag : Z)    (* the numerical body: writes (only) into the registered variables *)
| OWrite (w : which) (slot : nat) (n : st -> Z) (tag : Z)
| OWriteList (w : which) (us : list Z) (tag : Z)      (* a numerical body that overwrites given (pre-existing) variables *)
| ODropLast (w : which) (tag : Z)
                     (* CalcSimuPartition::_poisson (CalcSimuPartition.cpp:141,219): iattg = db->getColumnNumber() - 1 is used
                        as a UID: that variable is overwritten, then deleted *)
| OSaveLoc (w : which) (t : Z)
                     (* fixes/C19_8.patch, in _addVariableDb(w, ., t, ..): the variables already carrying the locator t are
                        remembered and lose it *)
| ORestoreLocs       (* fixes/C19_8.patch, _restoreLocators(): the remembered locators are given back (last saved first) *)
| ODeleteSlot (w : which) (slot : nat)                (* db->deleteColumnByUID(slot) *)
| OWithNc (nc : namconv) (o : op).                    (* an operation of a nested calculator, with its own naming convention *)
                     (* numerical body of a calculator that does not register its variables: writes into the
                        n variables starting at slot *)

Definition all_registered (w : which) (s : st) : list Z :=
  let b := s_book s in
  match w with
  | WIn => b_perm_in b ++ b_temp_in b ++ (if s_alias s then b_perm_out b ++ b_temp_out b else [])
  | WOut => b_perm_out b ++ b_temp_out b ++ (if s_alias s then b_perm_in b ++ b_temp_in b else [])
  end.

Fixpoint exec_op (nc : namconv) (o : op) (s : st) : bool * st :=
  match o with
  | OAdd w status t n init slot =>
      let '(s1, u) := add_variable w status t 0 (n s) init s in
      (0 <=? u, set_slot s1 slot u)
  | OAddUnreg w t n init radix slot neg_ok =>
      let '(d', u) := add_columns (getdb w s) (n s) init radix t 0 in
      ((0 <=? u) || neg_ok, set_slot (setdb w d' s) slot u)
  | OClean status => (true, clean_variables status s)
  | ORename w names tin nvar slot off qual count flagloc =>
      let start := if get_slot s slot <? 0 then -1 else get_slot s slot + off in
      (true, rename_variable nc w (names s) tin (nvar s) start qual (count s) flagloc s)
  | ORestoreX =>
      let nm := b_name_coord (s_book s) in
      (true, if is_nil nm then s else setdb WIn (set_locators_by_names (getdb WIn s) nm L_X 0) s)
  | OCenter =>
      let b := s_book s in
      (true, center_data_to_grid (with_book s (mkbook (b_perm_in b) (b_perm_out b) (b_temp_in b) (b_temp_out b) (b_saved b)
                                                     (names_by_locator (getdb WIn s) L_X))))
  | OExpand mode t reg => expand_information mode t reg s
  | OFail => (false, s)
  | OClearLoc w t => (true, setdb w (clear_locators (getdb w s) t) s)
  | OSetLocList w us t => (true, setdb w (set_locs_list (getdb w s) us t 0) s)
  | OSetLocs w slot n t => (true, setdb w (set_locators_by_uid (getdb w s) (n s) (get_slot s slot) t 0) s)
  | OBody tag =>
      let s1 := setdb WIn (write_cols (getdb WIn s) (all_registered WIn s) tag) s in
      (true, setdb WOut (write_cols (getdb WOut s1) (all_registered WOut s1) tag) s1)
  | OWrite w slot n tag =>
      let u := get_slot s slot in
      (true, if u <? 0 then s else setdb w (write_cols (getdb w s) (seqz u (Z.to_nat (n s))) tag) s)
  | OWriteList w us tag => (true, setdb w (write_cols (getdb w s) us tag) s)
  | ODropLast w tag =>
      let u := zlen (d_cols (getdb w s)) - 1 in
      (true, setdb w (delete_column (write_cols (getdb w s) [u] tag) u) s)
  | OSaveLoc w t =>
      let old := getloc (d_locs (getdb w s)) t in
      if is_nil old then (true, s) else
      let b := s_book s in
      (true, with_book (setdb w (clear_locators (getdb w s) t) s)
                       (mkbook (b_perm_in b) (b_perm_out b) (b_temp_in b) (b_temp_out b) ((w, (t, old)) :: b_saved b) (b_name_coord b)))
  | ORestoreLocs =>
      let b := s_book s in
      let s1 := fold_left (fun acc (e : which * (Z * list Z)) =>
                             setdb (fst e) (set_locs_list (getdb (fst e) acc) (snd (snd e)) (fst (snd e)) 0) acc) (b_saved b) s in
      (true, with_book s1 (mkbook (b_perm_in (s_book s1)) (b_perm_out (s_book s1)) (b_temp_in (s_book s1)) (b_temp_out (s_book s1)) [] (b_name_coord (s_book s1))))
  | ODeleteSlot w slot => (true, setdb w (delete_column (getdb w s) (get_slot s slot)) s)
  | OWithNc nc' o' => exec_op nc' o' s
  end.

(* budget = Some k : the stage fails (returns false / throws) once k operations have been done,
   at the latest when the stage ends (this last case is what the fault-injection hook does) *)
Fixpoint exec_ops (nc : namconv) (ops : list op) (s : st) (budget : option nat) : bool * st :=
  match ops with
  | [] => (match budget with Some _ => false | None => true end, s)
  | o :: r =>
      match budget with
      | Some O => (false, s)
      | _ => let '(ok, s1) := exec_op nc o s in
             if ok then exec_ops nc r s1 (option_map Nat.pred budget) else (false, s1)
      end
  end.

(* roll-back never reports anything *)
Fixpoint exec_quiet (nc : namconv) (ops : list op) (s : st) : st :=
  match ops with
  | [] => s
  | o :: r => exec_quiet nc r (snd (exec_op nc o s))
  end.

(* k_init: what _check does to the Dbs before testing anything (CalcKrigingFactors only) *)
Record calc := mkcalc { k_nc : namconv; k_init : list op; k_check : st -> bool;
                        k_pre : list op; k_run : list op; k_post : list op; k_rollback : list op }.

(* ACalculator::run (ACalculator.cpp:27).  fs: stage at which a failure is injected
   (0 none, 1 check, 2 preprocess, 3 run, 4 postprocess), fk: operations done in that stage before *)
Definition budget_of (fs stage : Z) (fk : nat) : option nat := if fs =? stage then Some fk else None.
Definition calc_run (c : calc) (s00 : st) (fs : Z) (fk : nat) : bool * st :=
  let s0 := exec_quiet (k_nc c) (k_init c) s00 in
  let fail s := (false, exec_quiet (k_nc c) (k_rollback c) s) in
  if negb (k_check c s0) then fail s0 else
  if fs =? 1 then fail s0 else
  let '(ok1, s1) := exec_ops (k_nc c) (k_pre c) s0 (budget_of fs 2 fk) in
  if negb ok1 then fail s1 else
  let '(ok2, s2) := exec_ops (k_nc c) (k_run c) s1 (budget_of fs 3 fk) in
  if negb ok2 then fail s2 else
  let '(ok3, s3) := exec_ops (k_nc c) (k_post c) s2 (budget_of fs 4 fk) in
  if negb ok3 then fail s3 else (true, s3).

(* stage at which [calc_run] fails: 0 = success, 1..4 *)
Definition failing_stage (c : calc) (s00 : st) (fs : Z) (fk : nat) : Z :=
  let s0 := exec_quiet (k_nc c) (k_init c) s00 in
  if negb (k_check c s0) then 1 else
  if fs =? 1 then 1 else
  let '(ok1, s1) := exec_ops (k_nc c) (k_pre c) s0 (budget_of fs 2 fk) in
  if negb ok1 then 2 else
  let '(ok2, s2) := exec_ops (k_nc c) (k_run c) s1 (budget_of fs 3 fk) in
  if negb ok2 then 3 else
  let '(ok3, s3) := exec_ops (k_nc c) (k_post c) s2 (budget_of fs 4 fk) in
  if negb ok3 then 4 else 0.

(* C19 — one instance of [calc] per calculator, mirroring its _check/_preprocess/_run/_postprocess/
   _rollback as written in /repo.  Executable definitions only. *)
From Coq Require Import List ZArith Bool.
From Gst Require Import C19.Model.
Import ListNotations.
Local Open Scope Z_scope.

Definition s_LC : str := [76; 67].   (* "LC" *)
Definition s_MaxDist : str := [77; 97; 120; 68; 105; 115; 116].   (* "MaxDist" *)
Definition s_MinDist : str := [77; 105; 110; 68; 105; 115; 116].   (* "MinDist" *)
Definition s_NbCESect : str := [78; 98; 67; 69; 83; 101; 99; 116].   (* "NbCESect" *)
Definition s_NbNESect : str := [78; 98; 78; 69; 83; 101; 99; 116].   (* "NbNESect" *)
Definition s_Number : str := [78; 117; 109; 98; 101; 114].   (* "Number" *)
Definition s_esterr : str := [101; 115; 116; 101; 114; 114].   (* "esterr" *)
Definition s_estim : str := [101; 115; 116; 105; 109].   (* "estim" *)
Definition s_stderr : str := [115; 116; 100; 101; 114; 114].   (* "stderr" *)
Definition s_stdev : str := [115; 116; 100; 101; 118].   (* "stdev" *)
Definition s_varz : str := [118; 97; 114; 122].   (* "varz" *)

(* Options of the call and summary of the companion objects (Model, ANeigh, ...) as far as
   _check and the bookkeeping read them.  One record for all calculators. *)
Record cfg := mkcfg {
  g_nc : namconv;                 (* setNamingConvention *)
  g_est : bool; g_std : bool; g_varz : bool;      (* flag_est / flag_std / flag_varz *)
  g_single : Z;                   (* CalcKriging::_iechSingleTarget (-1: all targets) *)
  g_dgm : bool;                   (* _flagDGM *)
  g_xvalid : bool; g_xv_est : Z; g_xv_std : Z; g_xv_varz : Z;
  g_neigh_only : bool; g_nbneigh : Z;
  g_matlc : Z;                    (* rows of matLC, 0 = nullptr *)
  g_mnvar : Z; g_mndim : Z; g_nndim : Z; g_nfex : Z;   (* model nvar / ndim, neigh ndim (0: none), external drifts *)
  g_extra_ok : bool;              (* the remaining tests of _check on Model/ANeigh/AAnam (not on the Dbs) *)
  g_iuids : list Z; g_locate : bool; g_loctype : Z;    (* CalcMigrate *)
  g_nbsimu : Z;
  g_mode : Z;                     (* variant inside a calculator class (see each instance) *)
  g_n : Z;                        (* nfact / nsel / nvarMorpho ... *)
  g_has_in : bool;                (* dbin != nullptr *)
  (* version of the code, read in the source by checks/C19.py on every run (tiny translators): *)
  g_rb2 : bool;                   (* the _rollback of this calculator also calls _cleanVariableDb(2) *)
  g_ver : Z                       (* bit 0: CalcKrigingFactors::_rollback gives the Z and X locators back (fixes/C19_6.patch)
                                     bit 1: _expandInformation(+1) registers what it creates as temporary variables of dbin and
                                            CalcSimuTurningBands::_postprocess no longer calls _expandInformation(-1) (C19_7)
                                     bit 2: simulations save / give back the pre-existing SIMU locators (C19_8)
                                     bit 3: tessellation_poisson designates its nested simulation by UID, gives it no locator
                                            and deletes it on every path (C19_9) *)
}.
Definition ver_bit (c : cfg) (k : Z) : bool := Z.testbit (g_ver c) k.

Definition K {A} (x : A) : st -> A := fun _ => x.
Definition no_names : st -> list str := fun _ => [].

(* ACalcDbToDb::_check (ACalcDbToDb.cpp:150): _checkSpaceDimension with _mustShareSpaceDimension *)
Definition check_dbtodb (mustshare has_in : bool) (s : st) : bool :=
  let nd := if has_in then ndim (getdb WIn s) else 0 in
  negb mustshare || (nd <=? 0) || (nd =? ndim (getdb WOut s)).

(* ACalcInterpolator::_check (ACalcInterpolator.cpp:49), model and neigh defined when their ndim > 0 *)
Definition check_interp (c : cfg) (s : st) : bool :=
  check_dbtodb true (g_has_in c) s &&
  let nd := if g_has_in c then ndim (getdb WIn s) else 0 in
  let nv := if g_has_in c then locnum (getdb WIn s) L_Z else 0 in
  ((g_mndim c <=? 0) || (nd <=? 0) || (nd =? g_mndim c)) &&
  (let nd' := if (0 <? nd) then nd else g_mndim c in
   (g_nndim c <=? 0) || (nd' <=? 0) || (nd' =? g_nndim c)) &&
  ((g_mndim c <=? 0) || (nv <=? 0) || (nv =? g_mnvar c)) &&
  ((g_nfex c <=? 0) || (locnum (getdb WOut s) L_F =? g_nfex c)).

(* ACalcInterpolator::_preprocess (ACalcInterpolator.cpp:183) *)
Definition pre_interp (c : cfg) : list op :=
  (if (0 <? g_mndim c) && (0 <? g_nfex c) then [OExpand 1 L_F (ver_bit c 1)] else []) ++ [OExpand 1 L_NOSTAT (ver_bit c 1)].

(* _rollback: _cleanVariableDb(1); _cleanVariableDb(2) where the source has it (fixes C19_1/3/4: CalcKriging,
   CalcSimuTurningBands, CalcGridToGrid); CalcKriging and CalcSimuTurningBands then give the coordinate locators back (DGM) *)
Definition rollback_std (c : cfg) (restore_x : bool) : list op :=
  [OClean 1] ++ (if g_rb2 c then [OClean 2] else []) ++ (if restore_x then [ORestoreX] else []).

(* simulators: variables created with the SIMU locator; with fixes/C19_8.patch (g_ver bit 2) the variables that already
   carry it are put aside by _addVariableDb and given back by _restoreLocators() at the end of _postprocess / _rollback *)
Definition simu_add (c : cfg) (w : which) (status : Z) (n : st -> Z) (slot : nat) : list op :=
  (if ver_bit c 2 then [OSaveLoc w L_SIMU] else []) ++ [OAdd w status L_SIMU n (Cst 0) slot].
Definition simu_restore (c : cfg) : list op := if ver_bit c 2 then [ORestoreLocs] else [].
Definition rollback_simu (c : cfg) (restore_x : bool) : list op :=
  [OClean 1] ++ (if g_rb2 c then [OClean 2] else []) ++ simu_restore c ++ (if restore_x then [ORestoreX] else []).

(* ---------------------------------------------------------------- CalcKriging (CalcKriging.cpp)
   slots: 0 _iptrEst, 1 _iptrStd, 2 _iptrVarZ, 3 _iptrNeigh *)
Definition kriging_nvar (c : cfg) : Z := if 0 <? g_matlc c then g_matlc c else g_mnvar c.

Definition kriging_check (c : cfg) (gout : bool) (s : st) : bool :=
  check_interp c s && g_has_in c && g_extra_ok c && (negb (g_dgm c) || gout) &&
  (g_neigh_only c || (0 <? locnum (getdb WIn s) L_Z)).        (* CalcKriging.cpp:84 (fix C19_5) *)

Definition kriging_pre (c : cfg) (gout : bool) : list op :=
  let status := if 0 <=? g_single c then 2 else 1 in
  let nv := K (kriging_nvar c) in
  pre_interp c ++
  (if g_est c then [OAdd WOut status (-1) nv (Cst 1) 0%nat] else []) ++
  (if g_std c then [OAdd WOut status (-1) nv (Cst 1) 1%nat] else []) ++
  (if g_varz c then [OAdd WOut status (-1) nv (Cst 1) 2%nat] else []) ++
  (if g_neigh_only c then [OAdd WOut status (-1) (K (g_nbneigh c)) (Cst 1) 3%nat] else []) ++
  (if g_dgm c && gout then [OCenter] else []).

Definition rn (names : st -> list str) (tin : Z) (n : st -> Z) (slot : nat) (off : Z) (q : str) (fl : bool) : op :=
  ORename WOut names tin n slot off q (K 1) fl.
Definition kriging_post (c : cfg) : list op :=
  let nv := K (kriging_nvar c) in
  OClean 2 ::
  (if 0 <=? g_single c then (if g_dgm c then [ORestoreX] else [])     (* single target: nothing to name (CalcKriging.cpp:173) *)
   else if g_xvalid c then
     (if 0 <? g_xv_std c then [rn no_names L_Z nv 1%nat 0 s_stderr false]
      else if g_xv_std c <? 0 then [rn no_names L_Z nv 1%nat 0 s_stdev false] else []) ++
     (if 0 <? g_xv_est c then [rn no_names L_Z nv 0%nat 0 s_esterr true]
      else if g_xv_est c <? 0 then [rn no_names L_Z nv 0%nat 0 s_estim true] else []) ++
     (if negb (g_xv_varz c =? 0) then [rn no_names L_Z nv 2%nat 0 s_varz true] else [])
   else if g_neigh_only c then
     [rn no_names L_Z (K 1) 3%nat 0 s_Number true; rn no_names L_Z (K 1) 3%nat 1 s_MaxDist true;
      rn no_names L_Z (K 1) 3%nat 2 s_MinDist true; rn no_names L_Z (K 1) 3%nat 3 s_NbNESect true;
      rn no_names L_Z (K 1) 3%nat 4 s_NbCESect true]
   else if g_dgm c then
     [ORestoreX; rn no_names L_Z nv 2%nat 0 s_varz true; rn no_names L_Z nv 1%nat 0 s_stdev true;
      rn no_names L_Z nv 0%nat 0 s_estim true]
   else if g_matlc c <=? 0 then
     [rn no_names L_Z nv 2%nat 0 s_varz true; rn no_names L_Z nv 1%nat 0 s_stdev true;
      rn no_names L_Z nv 0%nat 0 s_estim true]
   else
     let lc := K [s_LC] in
     [rn lc (-1) nv 2%nat 0 s_varz true; rn lc (-1) nv 1%nat 0 s_stdev true; rn lc (-1) nv 0%nat 0 s_estim true]).

Definition kriging (c : cfg) (gout : bool) : calc :=
  mkcalc (g_nc c) [] (kriging_check c gout) (kriging_pre c gout) [OBody 3] (kriging_post c)
         (rollback_std c (g_dgm c)).

(* ---------------------------------------------------------------- CalcMigrate (CalcMigrate.cpp:622-670)
   slot 0 _iattOut *)
Definition migrate_check (c : cfg) (s : st) : bool :=
  check_dbtodb false true s && negb (is_nil (g_iuids c)) && g_extra_ok c.
Definition migrate (c : cfg) : calc :=
  let nv := K (zlen (g_iuids c)) in
  mkcalc (g_nc c) [] (migrate_check c)
    [OAdd WOut 1 (-1) nv (Cst 0) 0%nat]
    [OBody 3]
    (OClean 2 :: ORename WOut (fun s => names_by_uids (getdb WIn s) (g_iuids c)) (-1) nv 0%nat 0 [] (K 1) true ::
     (if g_locate c then [OSetLocs WOut 0%nat nv (g_loctype c)] else []))
    (rollback_std c false).

(* ---------------------------------------------------------------- CalcStatistics (CalcStatistics.cpp:43-108)
   g_mode 0: dbStatisticsOnGrid (_flagStats), 1: dbRegression (_flagRegr) *)
Definition stats_check (c : cfg) (gout : bool) (s : st) : bool :=
  check_dbtodb true true s && (0 <? locnum (getdb WIn s) L_Z) &&
  (if g_mode c =? 0 then gout else true) && g_extra_ok c.
Definition nvar_in : st -> Z := fun s => locnum (getdb WIn s) L_Z.
Definition stats (c : cfg) (gout : bool) : calc :=
  mkcalc (g_nc c) [] (stats_check c gout)
    (if g_mode c =? 0 then [OAdd WOut 1 (-1) nvar_in (Cst 0) 0%nat] else [OAdd WIn 1 (-1) (K 1) (Cst 0) 0%nat])
    [OBody 3]
    (OClean 2 :: (if g_mode c =? 0 then [ORename WOut no_names L_Z nvar_in 0%nat 0 [] (K 1) true]
                  else [ORename WIn no_names L_Z (K 1) 0%nat 0 [] (K 1) true]))
    (rollback_std c false).

(* ---------------------------------------------------------------- CalcAnamTransform (CalcAnamTransform.cpp:152-313)
   ACalcDbVarCreator: one Db (= WIn here).  g_mode 0: _flagVars (rawToGaussianByLocator, and gaussianToRawByLocator
   since fix C18_1: same bookkeeping, only the direction _flagZToY of the numerical body differs), 1: _flagToFactors
   (g_n = nfact).  The new variables are created with TEST (fix C18_5).
   (the selectivity outputs _flagDisjKrig/_flagCondExp/_flagUniCond are not modelled)
   Since fix C19_2 _preprocess registers its variables through _addVariableDb. *)
Definition anam_check (c : cfg) (s : st) : bool :=
  (0 <? locnum (getdb WIn s) L_Z) && (if g_mode c =? 1 then locnum (getdb WIn s) L_Z =? 1 else true) && g_extra_ok c.
Definition anam (c : cfg) : calc :=
  mkcalc (g_nc c) [] (anam_check c)
    (if g_mode c =? 0 then [OAdd WIn 1 (-1) nvar_in (Cst 1) 0%nat] else [OAdd WIn 1 (-1) (K (g_n c)) (Cst 1) 1%nat])
    [OBody 3]
    (OClean 2 ::
     (if g_mode c =? 0 then [ORename WIn no_names L_Z nvar_in 0%nat 0 [] (K 1) true]
      else [ORename WIn no_names L_Z (K 1) 1%nat 0 [] (K (g_n c)) true]))
    (rollback_std c false).

(* ---------------------------------------------------------------- CalcSimuTurningBands (CalcSimuTurningBands.cpp:2164-2276)
   slot 0 _iattOut *)
Definition simtub_check (c : cfg) (gout : bool) (s : st) : bool :=
  check_interp c s && (0 <? g_nbsimu c) && g_extra_ok c && (negb (g_dgm c) || gout).
Definition simtub (c : cfg) (gout : bool) : calc :=
  let n := K (g_mnvar c * g_nbsimu c) in
  mkcalc (g_nc c) [] (simtub_check c gout)
    (pre_interp c ++
     (if g_has_in c then simu_add c WIn 2 n 4%nat else []) ++
     simu_add c WOut 1 n 0%nat ++
     (if g_dgm c && gout then [OCenter] else []))
    [OBody 3]
    ([OClean 2] ++ (if ver_bit c 1 then [] else [OExpand (-1) L_F false; OExpand (-1) L_NOSTAT false]) ++
     [ORename WOut no_names L_Z (K (g_mnvar c)) 0%nat 0 [] (K (g_nbsimu c)) true] ++
     (if g_dgm c then [ORestoreX] else []) ++ simu_restore c)
    (rollback_simu c (g_dgm c)).

(* ---------------------------------------------------------------- CalcSimuFFT (CalcSimuFFT.cpp:1048-1104) *)
Definition simfft_check (c : cfg) (gout : bool) (s : st) : bool :=
  check_interp c s && (0 <? g_nbsimu c) && gout && (g_mnvar c =? 1) && g_extra_ok c.
Definition simfft (c : cfg) (gout : bool) : calc :=
  mkcalc (g_nc c) [] (simfft_check c gout)
    (pre_interp c ++ simu_add c WOut 1 (K (g_nbsimu c)) 0%nat)
    [OBody 3]
    ([OClean 2; ORename WOut no_names L_Z (K 1) 0%nat 0 [] (K (g_nbsimu c)) true] ++ simu_restore c)
    (rollback_simu c false).

(* ---------------------------------------------------------------- CalcSimpleInterpolation (CalcSimpleInterpolation.cpp:44-105)
   slots 0 _iattEst, 1 _iattStd *)
Definition simpleint_check (c : cfg) (s : st) : bool :=
  check_interp c s && (locnum (getdb WIn s) L_Z =? 1) && g_extra_ok c.
Definition simpleint (c : cfg) : calc :=
  mkcalc (g_nc c) [] (simpleint_check c)
    (pre_interp c ++
     (if g_est c then [OAdd WOut 1 (-1) (K 1) (Cst 0) 0%nat] else []) ++
     (if g_std c then [OAdd WOut 1 (-1) (K 1) (Cst 0) 1%nat] else []))
    [OBody 3]
    [OClean 2; ORename WOut no_names L_Z (K 1) 0%nat 0 s_estim (K 1) true;
     ORename WOut no_names L_Z (K 1) 1%nat 0 s_stdev (K 1) true]
    (rollback_std c false).

(* ---------------------------------------------------------------- CalcGridToGrid (CalcGridToGrid.cpp:60-160)
   g_mode 0: copy/expand/inter, 1: shrink (auxiliary temporary variable); slots 0 _iattOut, 1 _iattAux *)
Definition g2g_check (c : cfg) (s : st) : bool := g_extra_ok c.
Definition g2g (c : cfg) : calc :=
  mkcalc (g_nc c) [] (g2g_check c)
    (OAdd WOut 1 (-1) (K 1) (Cst 0) 0%nat :: (if g_mode c =? 1 then [OAdd WOut 2 (-1) (K 1) (Cst 0) 1%nat] else []))
    [OBody 3]
    [OClean 2; ORename WOut no_names L_Z (K 1) 0%nat 0 [] (K 1) true]
    (rollback_std c false).

(* ---------------------------------------------------------------- CalcImage (CalcImage.cpp:44-130)
   g_mode 0: filter (nvar), 1: morpho (g_n variables, qualifier = operation key), 2: smooth *)
Definition image_check (c : cfg) (s : st) : bool :=
  check_interp c s && d_grid (getdb WIn s) &&
  (if g_mode c =? 0 then 0 <? locnum (getdb WIn s) L_Z else locnum (getdb WIn s) L_Z =? 1) && g_extra_ok c.
Definition image (c : cfg) (opkey : str) : calc :=
  mkcalc (g_nc c) [] (image_check c)
    (pre_interp c ++
     [if g_mode c =? 0 then OAdd WOut 1 (-1) (K (g_mnvar c)) (Cst 0) 0%nat
      else if g_mode c =? 1 then OAdd WOut 1 (-1) (K (g_n c)) (Cst 0) 0%nat
      else OAdd WOut 1 (-1) (K 1) (Cst 0) 0%nat])
    [OBody 3]
    [OClean 2;
     if g_mode c =? 0 then ORename WOut no_names L_Z nvar_in 0%nat 0 [] (K 1) true
     else if g_mode c =? 1 then ORename WOut no_names L_Z (K 1) 0%nat 0 opkey (K (g_n c)) true
     else ORename WOut no_names L_Z (K 1) 0%nat 0 [] (K 1) true]
    (rollback_std c false).

(* ---------------------------------------------------------------- CalcGlobal (CalcGlobal.cpp:37-78): creates nothing *)
Definition global_check (c : cfg) (gout : bool) (s : st) : bool :=
  check_interp c s && (if g_mode c =? 0 then gout else true) &&
  (0 <=? g_n c) && (g_n c <? locnum (getdb WIn s) L_Z) && g_extra_ok c.
Definition global (c : cfg) (gout : bool) : calc :=
  mkcalc (g_nc c) [] (global_check c gout) (pre_interp c) [OBody 3] [OClean 2] (rollback_std c false).

(* ---------------------------------------------------------------- CalcKrigingFactors (CalcKrigingFactors.cpp:35-150)
   g_iuids = _iuidFactors (the Z-locator variables of dbin when krigingFactors is called), g_dgm = a change of support
   is defined in the anamorphosis of the model.  _check begins by leaving the Z locator to the first factor only; _run
   gives it to each factor in turn; _postprocess gives it back to all.  slots 0 _iptrEst, 1 _iptrStd *)
Definition s_Stat_Fluid : str := [83; 116; 97; 116; 95; 70; 108; 117; 105; 100].
Definition s_Stat_Cork : str := [83; 116; 97; 116; 95; 67; 111; 114; 107].
Definition s_Fluid : str := [70; 108; 117; 105; 100].
Definition s_Date : str := [68; 97; 116; 101].
Definition krigfac_check (c : cfg) (s : st) : bool := check_interp c s && g_has_in c && g_extra_ok c.
Definition krigfac (c : cfg) (gout : bool) : calc :=
  let fs := g_iuids c in
  let nf := K (zlen fs) in
  mkcalc (g_nc c)
    (match fs with [] => [] | f0 :: _ => [OClearLoc WIn L_Z; OSetLocList WIn [f0] L_Z] end)
    (krigfac_check c)
    (pre_interp c ++
     (if g_dgm c then (if gout then [OCenter] else [OFail]) else []) ++
     (if g_est c then [OAdd WOut 1 (-1) nf (Cst 0) 0%nat] else []) ++
     (if g_std c then [OAdd WOut 1 (-1) nf (Cst 0) 1%nat] else []))
    (match rev fs with [] => [] | fl :: _ => [OClearLoc WIn L_Z; OSetLocList WIn [fl] L_Z] end ++ [OBody 3])
    ([OClean 2; OSetLocList WIn fs L_Z;
      ORename WOut no_names L_Z nf 1%nat 0 s_stdev (K 1) true; ORename WOut no_names L_Z nf 0%nat 0 s_estim (K 1) true] ++
     (if g_dgm c then [ORestoreX] else []))
    ([OClean 1] ++ (if g_rb2 c then [OClean 2] else []) ++
     (if ver_bit c 0 then [OSetLocList WIn fs L_Z; ORestoreX] else [])).

(* ---------------------------------------------------------------- CalcSimuPost (CalcSimuPost.cpp:45-165)
   g_mode 0: statistics stored in dbin itself (dbout = dbin: aliased), 1: upscaling to the grid dbout; g_n = _getNVarout();
   the qualifiers "Var<i>.<stat>" are given by the caller.  No _cleanVariableDb(2) in _postprocess. *)
Definition simupost_check (c : cfg) (gout : bool) (s : st) : bool :=
  (if g_mode c =? 1 then gout else true) && (ndim (getdb WIn s) <=? ndim (getdb WOut s)) && g_extra_ok c.
Definition simupost (c : cfg) (gout : bool) (quals : list str) : calc :=
  let w := if g_mode c =? 1 then WOut else WIn in
  mkcalc (g_nc c) [] (simupost_check c gout)
    [OAdd w 1 (-1) (K (g_n c)) (Cst 0) 0%nat]
    [OBody 3]
    (map (fun p => ORename w no_names (-1) (K 0) 0%nat (Z.of_nat (fst p)) (snd p) (K 1) true)
         (combine (seq 0 (length quals)) quals))
    (rollback_std c false).

(* ---------------------------------------------------------------- CalcSimuPartition (CalcSimuPartition.cpp:236-300) and
   CalcSimuSubstitution (CalcSimuSubstitution.cpp:330-383): no dbin, one variable with the SIMU locator *)
Definition simu1_check (c : cfg) (gout : bool) (s : st) : bool := check_interp c s && (0 <? g_nbsimu c) && gout && g_extra_ok c.
(* g_mode 1: tessellation_poisson.  CalcSimuPartition::_poisson (CalcSimuPartition.cpp:121-223) runs a nested
   simtub(NULL, dbgrid, model, NULL, 1, ...) with the default convention "Simu": one more variable in the grid, created by
   the nested calculator (not registered here) with the SIMU locator, then named and given the Z locator; it may then
   return false (no Poisson plane) and it finally deletes the variable whose UID is the LAST COLUMN RANK (slot 5) *)
Definition s_Simu : str := [83; 105; 109; 117].
Definition nc_simu : namconv := mknc s_Simu true true true L_Z s_dot true.
Definition nc_simu_noloc : namconv := mknc s_Simu true true false L_Z s_dot true.
Definition simu1 (c : cfg) (gout : bool) : calc :=
  mkcalc (g_nc c) [] (simu1_check c gout)
    (pre_interp c ++ simu_add c WOut 1 (K 1) 0%nat)
    (if g_mode c =? 1 then
       (if ver_bit c 2 then [OSaveLoc WOut L_SIMU] else []) ++
       [OAddUnreg WOut L_SIMU (K (g_mnvar c)) (Cst 0) [] 5%nat false; OWrite WOut 5%nat (K (g_mnvar c)) 3;
        OWithNc (if ver_bit c 3 then nc_simu_noloc else nc_simu) (ORename WOut no_names L_Z (K (g_mnvar c)) 5%nat 0 [] (K 1) true)] ++
       (if ver_bit c 2 then [ORestoreLocs] else []) ++
       [OBody 3; if ver_bit c 3 then ODeleteSlot WOut 5%nat else ODropLast WOut 3]
     else [OBody 3])
    ([OClean 2; ORename WOut no_names L_Z (K 1) 0%nat 0 [] (K (g_nbsimu c)) true] ++ simu_restore c)
    (rollback_simu c false).

(* ---------------------------------------------------------------- CalcSimuEden (CalcSimuEden.cpp:960-1040)
   g_mode 1: _niter > 1 (statistics), g_n = _nfluids, g_nbsimu = _niter;
   slots 0 _iptrStatFluid, 1 _iptrStatCork, 2 _iptrFluid, 3 _iptrDate *)
Definition eden_check (c : cfg) (gout : bool) (s : st) : bool := check_interp c s && (0 <? g_nbsimu c) && gout && g_extra_ok c.
Definition eden (c : cfg) (gout : bool) : calc :=
  mkcalc (g_nc c) [] (eden_check c gout)
    (pre_interp c ++
     (if g_mode c =? 1 then [OAdd WOut 1 (-1) (K (g_n c)) (Cst 0) 0%nat; OAdd WOut 1 (-1) (K 1) (Cst 0) 1%nat] else []) ++
     [OAdd WOut 1 (-1) (K 1) (Cst 0) 2%nat; OAdd WOut 1 (-1) (K 1) (Cst 1) 3%nat])
    [OBody 3; OWriteList WOut (g_iuids c) 3]     (* the propagation is done IN the input facies / fluid variables (g_iuids) *)
    [OClean 2;
     ORename WOut no_names L_Z (K 1) 0%nat 0 s_Stat_Fluid (K (g_nbsimu c)) true;
     ORename WOut no_names L_Z (K 1) 1%nat 0 s_Stat_Cork (K (g_nbsimu c)) true;
     ORename WOut no_names L_Z (K 1) 2%nat 0 s_Fluid (K 1) true;
     ORename WOut no_names L_Z (K 1) 3%nat 0 s_Date (K 1) true]
    (rollback_std c false).

(* dispatch used by Run.v: calculator number -> instance *)
Definition instance (id : Z) (c : cfg) (gout : bool) (aux : list str) : calc :=
  if id =? 0 then kriging c gout
  else if id =? 1 then migrate c
  else if id =? 2 then stats c gout
  else if id =? 3 then anam c
  else if id =? 4 then simtub c gout
  else if id =? 5 then simfft c gout
  else if id =? 6 then simpleint c
  else if id =? 7 then g2g c
  else if id =? 8 then image c (nth 0 aux [])
  else if id =? 9 then global c gout
  else if id =? 10 then krigfac c gout
  else if id =? 11 then simupost c gout aux
  else if id =? 12 then simu1 c gout
  else eden c gout.

(* C19 - every exit path of a successful _postprocess: dbin is EXACTLY the initial Db.
   A calculator that registers no permanent variable in dbin and whose _postprocess is
       _cleanVariableDb(2); [give the coordinate locators back;] _renameVariable(dbout ...) ...
   leaves dbin as the roll-back would: the proof replays the post-processing as the roll-back on the dbin
   component, so the restoration lemmas of the atomicity theorems apply to the success path as well -
   whatever the branch taken inside _postprocess (single target early return, cross-validation, neighbourhood
   test, DGM, linear combination). *)
From Coq Require Import ZArith List Bool Lia.
From Gst Require Import C19.Model C19.Spec C19.Proofs C19.ProofsSuccess C19.ProofsLoc C19.ProofsRestore.
Import ListNotations.
Open Scope Z_scope.

(* operations that never register a permanent variable in dbin *)
Definition no_perm_in (o : op) : bool :=
  match o with
  | OAdd WIn status _ _ _ _ => negb (status =? 1)
  | OAdd WOut _ _ _ _ _ => true
  | OClean _ => true
  | OBody _ => true
  | OCenter => true
  | OExpand _ _ _ => true
  | _ => false
  end.

Lemma add_variable_perm_in w status t idx n init s :
  (match w with WIn => negb (status =? 1) | WOut => true end) = true ->
  b_perm_in (s_book (fst (add_variable w status t idx n init s))) = b_perm_in (s_book s).
Proof.
  intro H. unfold add_variable. destruct (add_columns (getdb w s) n init [] t idx) as [d' u].
  destruct (u <? 0); [reflexivity|]. cbn [fst]. unfold with_book, store_in_list. cbn [s_book].
  destruct w.
  - apply negb_true_iff in H. rewrite H. reflexivity.
  - destruct (status =? 1); reflexivity.
Qed.

Lemma setdb_book w d s : s_book (setdb w d s) = s_book s.
Proof. unfold setdb. destruct w; [reflexivity | destruct (s_alias s); reflexivity]. Qed.

Lemma no_perm_in_op nc o s :
  no_perm_in o = true -> b_perm_in (s_book s) = [] -> b_perm_in (s_book (snd (exec_op nc o s))) = [].
Proof.
  intros Ho Hp. destruct o; simpl in Ho; try discriminate.
  - (* OAdd *)
    cbn [exec_op]. pose proof (add_variable_perm_in w status t 0 (n s) init s Ho) as H.
    destruct (add_variable w status t 0 (n s) init s) as [s1 u]. cbn [fst] in H. cbn [snd].
    unfold set_slot. cbn [s_book]. rewrite H. exact Hp.
  - (* OClean *)
    cbn [exec_op snd]. unfold clean_variables. destruct (status =? 1); unfold with_book; cbn [s_book]; [reflexivity|].
    cbn [b_perm_in]. exact Hp.
  - (* OCenter *)
    cbn [exec_op snd]. unfold center_data_to_grid.
    set (s0 := with_book s _).
    assert (H0 : b_perm_in (s_book s0) = []) by (unfold s0, with_book; cbn [s_book b_perm_in]; exact Hp).
    pose proof (add_variable_perm_in WIn 2 (-1) 0 (ndim (getdb WIn s0)) (Cst 1) s0 eq_refl) as H.
    destruct (add_variable WIn 2 (-1) 0 (ndim (getdb WIn s0)) (Cst 1) s0) as [s1 uout]. cbn [fst] in H.
    destruct (uout <? 0); [rewrite H; exact H0|]. rewrite setdb_book, H. exact H0.
  - (* OExpand *)
    cbn [exec_op]. unfold expand_information.
    destruct (_ <=? 0); [exact Hp|]. destruct (_ =? _); [exact Hp|]. destruct (negb _); [exact Hp|].
    destruct (0 <? mode).
    + destruct (migrate_by_locator _ _ _) as [d'|]; [|exact Hp]. cbn [snd].
      destruct reg; [|rewrite setdb_book; exact Hp].
      unfold with_book, store_in_list. cbn [s_book Z.eqb Pos.eqb b_perm_in]. rewrite setdb_book. exact Hp.
    + cbn [snd]. rewrite setdb_book. exact Hp.
  - (* OBody *)
    cbn [exec_op snd]. rewrite !setdb_book. exact Hp.
Qed.

Lemma no_perm_in_ops nc ops : forall s b ok s',
  forallb no_perm_in ops = true -> b_perm_in (s_book s) = [] -> exec_ops nc ops s b = (ok, s') ->
  b_perm_in (s_book s') = [].
Proof.
  induction ops as [|o r IH]; intros s b ok s' Hs Hp He; simpl in He.
  - inversion He; subst; exact Hp.
  - simpl in Hs. apply andb_true_iff in Hs as [Ho Hr].
    pose proof (no_perm_in_op nc o s Ho Hp) as H1.
    destruct b as [[|k]|].
    + inversion He; subst; exact Hp.
    + destruct (exec_op nc o s) as [ok1 s1]. cbn [snd] in H1.
      destruct ok1; [exact (IH _ _ _ _ Hr H1 He) | inversion He; subst; exact H1].
    + destruct (exec_op nc o s) as [ok1 s1]. cbn [snd] in H1.
      destruct ok1; [exact (IH _ _ _ _ Hr H1 He) | inversion He; subst; exact H1].
Qed.

(* naming of variables of dbout: dbin is not touched when the two Dbs are distinct *)
Definition rename_out (o : op) : bool :=
  match o with ORename WOut _ _ _ _ _ _ _ _ => true | _ => false end.

Lemma rename_out_ops nc ops : forall s,
  s_alias s = false -> forallb rename_out ops = true ->
  exists s', exec_ops nc ops s None = (true, s') /\ s_in s' = s_in s /\ s_alias s' = false /\ s_book s' = s_book s.
Proof.
  induction ops as [|o r IH]; intros s Ha Hs.
  - exists s. split; [reflexivity|]. split; [reflexivity|]. split; [exact Ha | reflexivity].
  - simpl in Hs. apply andb_true_iff in Hs as [Ho Hr].
    destruct o; simpl in Ho; try discriminate. destruct w; try discriminate.
    cbn [exec_ops exec_op]. unfold rename_variable.
    set (d := set_names_and_locators _ _ _ _ _ _ _ _ _ _ _).
    assert (E : setdb WOut d s = mkst (s_in s) d (s_alias s) (s_book s) (s_slots s)) by (unfold setdb; rewrite Ha; reflexivity).
    rewrite E. cbn [option_map].
    destruct (IH (mkst (s_in s) d (s_alias s) (s_book s) (s_slots s)) Ha Hr) as [s' [He Hi]].
    exists s'. split; [exact He | exact Hi].
Qed.

(* on the dbin component, [_cleanVariableDb(2)] is the whole roll-back when no permanent variable of dbin is registered *)
Lemma clean12_in s :
  s_alias s = false -> b_perm_in (s_book s) = [] ->
  s_in (clean_variables 2 (clean_variables 1 s)) = s_in (clean_variables 2 s) /\
  b_name_coord (s_book (clean_variables 2 (clean_variables 1 s))) = b_name_coord (s_book (clean_variables 2 s)) /\
  s_alias (clean_variables 2 (clean_variables 1 s)) = false /\ s_alias (clean_variables 2 s) = false.
Proof.
  intros Ha Hp. destruct s as [si so al bk sl]. simpl in Ha, Hp. subst al.
  unfold clean_variables, setdb, getdb, with_book. simpl. rewrite Hp. simpl. repeat split; reflexivity.
Qed.

Lemma restore_in nc s1 s2 :
  s_alias s1 = false -> s_alias s2 = false -> s_in s1 = s_in s2 -> b_name_coord (s_book s1) = b_name_coord (s_book s2) ->
  s_in (snd (exec_op nc ORestoreX s1)) = s_in (snd (exec_op nc ORestoreX s2)) /\
  s_alias (snd (exec_op nc ORestoreX s2)) = false.
Proof.
  intros A1 A2 Hi Hn. cbn [exec_op snd]. rewrite Hn. destruct (is_nil _); [split; assumption|].
  unfold setdb, getdb. cbn [s_in s_alias]. rewrite Hi. split; [reflexivity | exact A2].
Qed.

(* the two shapes of _postprocess *)
Lemma post_plain_in nc R s ok s' :
  s_alias s = false -> b_perm_in (s_book s) = [] -> forallb rename_out R = true ->
  exec_ops nc (OClean 2 :: R) s None = (ok, s') ->
  ok = true /\ s_in s' = s_in (exec_quiet nc [OClean 1; OClean 2] s).
Proof.
  intros Ha Hp HR He. destruct (clean12_in s Ha Hp) as [E1 [_ [_ A2]]].
  cbn [exec_ops exec_op option_map] in He.
  destruct (rename_out_ops nc R (clean_variables 2 s) A2 HR) as [s3 [H3 [Hi _]]].
  rewrite H3 in He. inversion He; subst. split; [reflexivity|].
  cbn [exec_quiet exec_op snd]. rewrite Hi. symmetry. exact E1.
Qed.

Lemma exec_ops_app_ok nc a : forall b s sa,
  exec_ops nc a s None = (true, sa) -> exec_ops nc (a ++ b) s None = exec_ops nc b sa None.
Proof.
  induction a as [|o r IH]; intros b s sa He.
  - simpl in He. inversion He; subst. reflexivity.
  - cbn [app exec_ops option_map] in *. destruct (exec_op nc o s) as [ok1 s1]. destruct ok1; [|discriminate].
    apply IH; exact He.
Qed.

Lemma post_restore_in nc R1 R2 s ok s' :
  s_alias s = false -> b_perm_in (s_book s) = [] -> forallb rename_out R1 = true -> forallb rename_out R2 = true ->
  exec_ops nc (OClean 2 :: R1 ++ ORestoreX :: R2) s None = (ok, s') ->
  ok = true /\ s_in s' = s_in (exec_quiet nc [OClean 1; OClean 2; ORestoreX] s).
Proof.
  intros Ha Hp HR1 HR2 He. destruct (clean12_in s Ha Hp) as [E1 [E2 [A1 A2]]].
  cbn [exec_ops option_map] in He. change (exec_op nc (OClean 2) s) with (true, clean_variables 2 s) in He. cbv iota beta in He.
  destruct (rename_out_ops nc R1 (clean_variables 2 s) A2 HR1) as [sr [Hr [Hri [Hra Hrb]]]].
  rewrite (exec_ops_app_ok nc R1 (ORestoreX :: R2) _ _ Hr) in He.
  assert (E1' : s_in (clean_variables 2 (clean_variables 1 s)) = s_in sr) by (rewrite Hri; exact E1).
  assert (E2' : b_name_coord (s_book (clean_variables 2 (clean_variables 1 s))) = b_name_coord (s_book sr)) by (rewrite Hrb; exact E2).
  destruct (restore_in nc _ _ A1 Hra E1' E2') as [E3 A3].
  cbn [exec_ops option_map] in He.
  destruct (exec_op nc ORestoreX sr) as [okx sx] eqn:Ex.
  assert (okx = true) as -> by (cbn [exec_op] in Ex; inversion Ex; reflexivity).
  cbn [snd] in E3, A3.
  destruct (rename_out_ops nc R2 sx A3 HR2) as [s3 [H3 [Hi _]]].
  rewrite H3 in He. inversion He; subst. split; [reflexivity|].
  cbn [exec_quiet]. change (snd (exec_op nc (OClean 1) s)) with (clean_variables 1 s).
  change (snd (exec_op nc (OClean 2) (clean_variables 1 s))) with (clean_variables 2 (clean_variables 1 s)).
  rewrite Hi. symmetry. exact E3.
Qed.

(* ------------------------------------------------------------------ without centring *)
Theorem dbin_exact_plain (c : calc) (din dout : db) (R : list op) (fk : nat) (s' : st) :
  Inv din -> Inv dout -> k_init c = [] ->
  forallb (safe_op rb_all din dout) (k_pre c) = true -> forallb (safe_op rb_all din dout) (k_run c) = true ->
  forallb no_perm_in (k_pre c) = true -> forallb no_perm_in (k_run c) = true ->
  k_post c = OClean 2 :: R -> forallb rename_out R = true ->
  calc_run c (init_st din dout false) 0 fk = (true, s') ->
  db_eq (s_in s') din /\ Inv (s_in s').
Proof.
  intros HIi HIo Hk Hpre Hrun Npre Nrun Hpost HR Hc.
  pose proof (Tracked_init rb_all din dout) as T0.
  unfold calc_run in Hc. rewrite Hk in Hc. cbn [exec_quiet] in Hc.
  destruct (negb (k_check c (init_st din dout false))); [discriminate|].
  cbn [Z.eqb] in Hc. unfold budget_of in Hc. cbn [Z.eqb] in Hc.
  destruct (exec_ops (k_nc c) (k_pre c) (init_st din dout false) None) as [ok1 s1] eqn:E1.
  pose proof (exec_ops_safe din dout HIi HIo _ _ _ _ _ _ _ T0 Hpre E1) as T1.
  pose proof (no_perm_in_ops _ _ (init_st din dout false) _ _ _ Npre eq_refl E1) as P1.
  destruct ok1; simpl in Hc; [|discriminate].
  destruct (exec_ops (k_nc c) (k_run c) s1 None) as [ok2 s2] eqn:E2.
  pose proof (exec_ops_safe din dout HIi HIo _ _ _ _ _ _ _ T1 Hrun E2) as T2.
  pose proof (no_perm_in_ops _ _ _ _ _ _ Nrun P1 E2) as P2.
  destruct ok2; simpl in Hc; [|discriminate].
  rewrite Hpost in Hc.
  destruct (exec_ops (k_nc c) (OClean 2 :: R) s2 None) as [ok3 s3] eqn:E3.
  destruct T2 as [Ha T2'].
  destruct (post_plain_in _ _ _ _ _ Ha P2 HR E3) as [-> Hin].
  simpl in Hc. inversion Hc; subst s'. rewrite Hin.
  assert (T2 : Tracked rb_all din dout s2) by (split; assumption).
  split.
  - apply (rollback_restores din dout HIi HIo rb_all (k_nc c) s2 T2 eq_refl).
  - apply (rollback_restores_inv din dout rb_all (k_nc c) s2 HIi HIo T2 eq_refl).
Qed.

(* ------------------------------------------------------------------ with the DGM centring of the data *)
Definition rb_dgm : list op := [OClean 1; OClean 2; ORestoreX].

Theorem dbin_exact_dgm (c : calc) (tch : Z -> bool) (din dout : db) (R1 R2 : list op) (fk : nat) (s' : st) :
  Inv din -> Inv dout -> tch L_X = false ->
  (forall t, tch t = true -> getloc (d_locs din) t = []) -> (forall t, tch t = true -> getloc (d_locs dout) t = []) ->
  d_grid din = false ->
  NoDup (getloc (d_locs din) L_X) ->
  (forall u, In u (getloc (d_locs din) L_X) -> has_col din u = true) ->
  (forall u t, In u (getloc (d_locs din) L_X) -> t <> L_X -> ~ In u (getloc (d_locs din) t)) ->
  k_init c = [] ->
  safe_opsD tch rb_dgm din dout true (k_pre c) = true ->
  safe_opsD tch rb_dgm din dout false (k_run c) = true ->
  forallb no_perm_in (k_pre c) = true -> forallb no_perm_in (k_run c) = true ->
  k_post c = OClean 2 :: R1 ++ ORestoreX :: R2 -> forallb rename_out R1 = true -> forallb rename_out R2 = true ->
  calc_run c (init_st din dout false) 0 fk = (true, s') ->
  db_eq (s_in s') din /\ Inv (s_in s').
Proof.
  intros HIi HIo HtX Hti Hto Hpts Hnd Hlive Honly Hk Hpre Hrun Npre Nrun Hpost HR1 HR2 Hc.
  pose proof (TrackedD_init din dout HIi HIo tch Hti Hto rb_dgm) as T0.
  unfold calc_run in Hc. rewrite Hk in Hc. cbn [exec_quiet] in Hc.
  destruct (negb (k_check c (init_st din dout false))); [discriminate|].
  cbn [Z.eqb] in Hc. unfold budget_of in Hc. cbn [Z.eqb] in Hc.
  destruct (exec_ops (k_nc c) (k_pre c) (init_st din dout false) None) as [ok1 s1] eqn:E1.
  assert (T1 : TrackedD tch rb_dgm din dout s1).
  { eapply (exec_opsD din dout HIi HIo tch HtX Hpts Hnd Hlive Honly rb_dgm (k_nc c) (k_pre c) true _ _ _ _ T0); [|exact Hpre | exact E1].
    intro H. unfold centered, init_st in H. simpl in H. discriminate. }
  pose proof (no_perm_in_ops _ _ (init_st din dout false) _ _ _ Npre eq_refl E1) as P1.
  destruct ok1; simpl in Hc; [|discriminate].
  destruct (exec_ops (k_nc c) (k_run c) s1 None) as [ok2 s2] eqn:E2.
  assert (T2 : TrackedD tch rb_dgm din dout s2).
  { eapply (exec_opsD din dout HIi HIo tch HtX Hpts Hnd Hlive Honly rb_dgm (k_nc c) (k_run c) false _ _ _ _ T1); [reflexivity | exact Hrun | exact E2]. }
  pose proof (no_perm_in_ops _ _ _ _ _ _ Nrun P1 E2) as P2.
  destruct ok2; simpl in Hc; [|discriminate].
  rewrite Hpost in Hc.
  destruct (exec_ops (k_nc c) (OClean 2 :: R1 ++ ORestoreX :: R2) s2 None) as [ok3 s3] eqn:E3.
  pose proof T2 as [Ha _].
  destruct (post_restore_in _ _ _ _ _ _ Ha P2 HR1 HR2 E3) as [-> Hin].
  simpl in Hc. inversion Hc; subst s'. rewrite Hin.
  apply (rollback_restoresD din dout HIi HIo tch Hti Hto Hnd Hlive Honly rb_dgm (k_nc c) s2 eq_refl T2).
Qed.

(* ------------------------------------------------------------------ CalcKriging: every branch of _postprocess *)
From Gst Require Import C19.Calcs C19.ProofsInst.

Lemma kriging_pre_no_perm_in c gout : forallb no_perm_in (kriging_pre c gout) = true.
Proof.
  unfold kriging_pre, pre_interp. rewrite !forallb_app.
  repeat (apply andb_true_intro; split); split_ifs; reflexivity.
Qed.

(* which shape _postprocess takes *)
Lemma kriging_post_plain c : g_dgm c = false ->
  exists R, kriging_post c = OClean 2 :: R /\ forallb rename_out R = true.
Proof.
  intro Hd. unfold kriging_post, rn. rewrite Hd.
  split_ifs; eexists; (split; [reflexivity | reflexivity]).
Qed.

Lemma kriging_post_dgm c : g_dgm c = true ->
  (0 <= g_single c \/ (g_xvalid c = false /\ g_neigh_only c = false)) ->
  exists R, kriging_post c = OClean 2 :: [] ++ ORestoreX :: R /\ forallb rename_out R = true.
Proof.
  intros Hd Hs. unfold kriging_post, rn. rewrite Hd.
  destruct (0 <=? g_single c) eqn:E1.
  - eexists; split; reflexivity.
  - destruct Hs as [Hs|[Hx Hn]]; [apply Z.leb_gt in E1; lia|].
    rewrite Hx, Hn. eexists; split; reflexivity.
Qed.

(* without DGM: all targets, single target (early return), cross-validation, neighbourhood test, linear combination *)
Theorem kriging_dbin_exact c gout din dout fk s' :
  Inv din -> Inv dout -> g_dgm c = false ->
  expand_noop L_F din dout = true -> expand_noop L_NOSTAT din dout = true ->
  calc_run (kriging c gout) (init_st din dout false) 0 fk = (true, s') ->
  db_eq (s_in s') din /\ Inv (s_in s').
Proof.
  intros Hi Ho Hd HF HN Hrun.
  destruct (kriging_post_plain c Hd) as [R [HP HR]].
  apply (dbin_exact_plain (kriging c gout) din dout R fk s' Hi Ho eq_refl); try assumption; try reflexivity.
  - cbn [k_pre kriging]. unfold kriging_pre. rewrite Hd. simpl. rewrite !forallb_app.
    repeat (apply andb_true_intro; split);
      try (apply forallb_if; cbn [forallb safe_op Z.ltb Z.compare andb]; rewrite cleans_rb_all; reflexivity); try reflexivity.
    apply pre_interp_safe; assumption.
  - cbn [k_pre kriging]. apply kriging_pre_no_perm_in.
Qed.

(* with DGM: the centred coordinates are deleted and the coordinate locators given back on EVERY successful exit,
   the single-target early return included (seeded change C19_2) *)
Theorem kriging_dgm_dbin_exact c gout din dout fk s' :
  Inv din -> Inv dout -> g_dgm c = true ->
  (0 <= g_single c \/ (g_xvalid c = false /\ g_neigh_only c = false)) ->
  expand_noop L_F din dout = true -> expand_noop L_NOSTAT din dout = true ->
  d_grid din = false -> NoDup (getloc (d_locs din) L_X) ->
  (forall u, In u (getloc (d_locs din) L_X) -> has_col din u = true) ->
  (forall u t, In u (getloc (d_locs din) L_X) -> t <> L_X -> ~ In u (getloc (d_locs din) t)) ->
  calc_run (kriging c gout) (init_st din dout false) 0 fk = (true, s') ->
  db_eq (s_in s') din /\ Inv (s_in s').
Proof.
  intros Hi Ho Hd Hs HF HN Hpts Hnd Hlive Honly Hrun.
  destruct (kriging_post_dgm c Hd Hs) as [R [HP HR]].
  assert (Hcl : forall status, cleans rb_dgm status = true).
  { intro status. unfold cleans, is_perm. simpl. destruct (status =? 1); reflexivity. }
  destruct (pre_interp_safeD tch_none rb_dgm c din dout HF HN eq_refl eq_refl) as [P1 P2].
  assert (Hpre : safe_opsD tch_none rb_dgm din dout true (k_pre (kriging c gout)) = true).
  { cbn [k_pre kriging]. unfold kriging_pre. rewrite safe_opsD_app by assumption. rewrite Hd.
    destruct (g_est c), (g_std c), (g_varz c), (g_neigh_only c), gout; cbn [andb app safe_opsD safe_opD Z.ltb Z.compare orb]; rewrite ?Hcl; reflexivity. }
  exact (dbin_exact_dgm (kriging c gout) tch_none din dout [] R fk s' Hi Ho eq_refl (fun t H => False_ind _ (Bool.diff_false_true H))
           (fun t H => False_ind _ (Bool.diff_false_true H)) Hpts Hnd Hlive Honly eq_refl Hpre eq_refl
           (kriging_pre_no_perm_in c gout) eq_refl HP eq_refl HR Hrun).
Qed.

(* CalcSimuTurningBands with DGM (code with fix C19_7, without C19_8): the simulations at the data points (temporary,
   SIMU locator) and the centred coordinates are deleted, the coordinate locators given back *)
Theorem simtub_dgm_dbin_exact c gout din dout fk s' :
  Inv din -> Inv dout -> ver_bit c 1 = true -> ver_bit c 2 = false -> g_dgm c = true ->
  getloc (d_locs din) L_SIMU = [] -> getloc (d_locs dout) L_SIMU = [] ->
  expand_noop L_F din dout = true -> expand_noop L_NOSTAT din dout = true ->
  d_grid din = false -> NoDup (getloc (d_locs din) L_X) ->
  (forall u, In u (getloc (d_locs din) L_X) -> has_col din u = true) ->
  (forall u t, In u (getloc (d_locs din) L_X) -> t <> L_X -> ~ In u (getloc (d_locs din) t)) ->
  calc_run (simtub c gout) (init_st din dout false) 0 fk = (true, s') ->
  db_eq (s_in s') din /\ Inv (s_in s').
Proof.
  intros Hi Ho Hv1 Hv2 Hd Si So HF HN Hpts Hnd Hlive Honly Hrun.
  assert (Hti : forall t, tch_simu t = true -> getloc (d_locs din) t = []).
  { intros t Ht. apply Z.eqb_eq in Ht. subst t. exact Si. }
  assert (Hto : forall t, tch_simu t = true -> getloc (d_locs dout) t = []).
  { intros t Ht. apply Z.eqb_eq in Ht. subst t. exact So. }
  assert (Hcl : forall status, cleans rb_dgm status = true).
  { intro status. unfold cleans, is_perm. simpl. destruct (status =? 1); reflexivity. }
  destruct (pre_interp_safeD tch_simu rb_dgm c din dout HF HN eq_refl eq_refl) as [P1 P2].
  assert (Hpre : safe_opsD tch_simu rb_dgm din dout true (k_pre (simtub c gout)) = true).
  { cbn [k_pre simtub]. rewrite !simu_add_off by exact Hv2. rewrite safe_opsD_app by assumption. rewrite Hd.
    destruct (g_has_in c), gout; cbn [andb app safe_opsD safe_opD Z.ltb Z.compare orb tch_simu Z.eqb L_SIMU Pos.eqb loc_ok Z.leb]; rewrite ?Hcl; reflexivity. }
  assert (Npre : forallb no_perm_in (k_pre (simtub c gout)) = true).
  { cbn [k_pre simtub]. rewrite !simu_add_off by exact Hv2. unfold pre_interp. rewrite !forallb_app.
    repeat (apply andb_true_intro; split); split_ifs; reflexivity. }
  assert (HP : k_post (simtub c gout) =
               OClean 2 :: [ORename WOut no_names L_Z (K (g_mnvar c)) 0%nat 0 [] (K (g_nbsimu c)) true] ++ ORestoreX :: []).
  { cbn [k_post simtub]. rewrite simu_restore_off by exact Hv2. rewrite Hv1, Hd. reflexivity. }
  exact (dbin_exact_dgm (simtub c gout) tch_simu din dout _ _ fk s' Hi Ho eq_refl Hti Hto Hpts Hnd Hlive Honly eq_refl Hpre eq_refl
           Npre eq_refl HP eq_refl eq_refl Hrun).
Qed.

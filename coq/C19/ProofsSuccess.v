(* C19 — lemmas for the success theorem: naming and locating the (fresh) output variables leaves the original
   columns and every other locator type alone. *)
From Coq Require Import List ZArith Bool Lia.
From Gst Require Import C19.Model C19.Calcs C19.Spec C19.Proofs.
Import ListNotations.
Local Open Scope Z_scope.

(* ------------------------------------------------------------------ locator tables *)
Lemma getloc_map f locs t : f [] = [] -> getloc (map f locs) t = f (getloc locs t).
Proof.
  intro Hf. unfold getloc. destruct (loc_ok t); [|symmetry; exact Hf].
  replace (nth (Z.to_nat t) (map f locs) []) with (nth (Z.to_nat t) (map f locs) (f [])) by (rewrite Hf; reflexivity).
  apply map_nth.
Qed.

Lemma nth_upd_other {A} (l : list A) : forall i j x d, i <> j -> nth j (upd l i x) d = nth j l d.
Proof.
  induction l as [|y l IH]; intros i j x d H; simpl; [reflexivity|].
  destruct i, j; simpl; try reflexivity; [contradiction | apply IH; congruence].
Qed.

Lemma nth_upd_same {A} (l : list A) : forall i x d, (i < length l)%nat -> nth i (upd l i x) d = x.
Proof.
  induction l as [|y l IH]; intros i x d H; simpl in *; [lia|].
  destruct i; simpl; [reflexivity | apply IH; lia].
Qed.

Lemma upd_beyond {A} (l : list A) : forall i x, (length l <= i)%nat -> upd l i x = l.
Proof.
  induction l as [|y l IH]; intros i x H; simpl in *; [reflexivity|].
  destruct i; [lia|]. f_equal. apply IH. lia.
Qed.

Lemma getloc_setloc_other locs T p t : t <> T -> getloc (setloc locs T p) t = getloc locs t.
Proof.
  intro H. unfold getloc, setloc. destruct (loc_ok t) eqn:Et; [|reflexivity].
  destruct (loc_ok T) eqn:ET; [|reflexivity].
  apply nth_upd_other. unfold loc_ok in *. apply andb_true_iff in Et as [Et _]. apply andb_true_iff in ET as [ET _].
  apply Z.leb_le in Et, ET. intro Hc. apply H. symmetry. apply Z2Nat.inj; assumption.
Qed.

Lemma getloc_In locs t x : In x (getloc locs t) -> exists l, In l locs /\ In x l.
Proof.
  unfold getloc. destruct (loc_ok t); [|intros []].
  intro H. destruct (Nat.lt_ge_cases (Z.to_nat t) (length locs)) as [Hl|Hl].
  - exists (nth (Z.to_nat t) locs []). split; [apply nth_In; exact Hl | exact H].
  - rewrite nth_overflow in H by exact Hl. destruct H.
Qed.

(* ------------------------------------------------------------------ the weaker invariant of _postprocess *)
Definition tracked2 (T : Z) (d0 d : db) (perm temp : list Z) : Prop :=
  exists ex, d_cols d = d_cols d0 ++ ex /\
    (forall u, In u (map c_uid ex) <-> In u (perm ++ temp)) /\
    (forall u, In u perm -> In u temp -> False) /\
    (forall t, t <> T -> getloc (d_locs d) t = getloc (d_locs d0) t) /\
    d_nuid d0 <= d_nuid d /\
    (forall u, In u (perm ++ temp) -> d_nuid d0 <= u < d_nuid d).

Lemma tracked_tracked2 T d0 d perm temp : tracked d0 d perm temp -> tracked2 T d0 d perm temp.
Proof.
  intros [ex [Hc [Hu [Hdis [Hl [_ [_ [Hn Hr]]]]]]]]. exists ex.
  split; [exact Hc|]. split; [exact Hu|]. split; [exact Hdis|]. split; [|split; assumption].
  intros t _. rewrite Hl. reflexivity.
Qed.

Section WithInv2.
Variable d0 : db.
Hypothesis HI : Inv d0.
Variable T : Z.

Lemma t2_valid d perm temp : tracked2 T d0 d perm temp -> forall c, In c (d_cols d) -> 0 <= c_uid c < d_nuid d.
Proof.
  intros [ex [Hc [Hu [_ [_ [Hn Hr]]]]]] c Hin. rewrite Hc in Hin. apply in_app_iff in Hin as [Hin|Hin].
  - apply (inv_col_lt d0 HI) in Hin. lia.
  - assert (In (c_uid c) (perm ++ temp)) as H by (apply Hu; apply in_map; exact Hin). apply Hr in H.
    pose proof (inv_nuid d0 HI). lia.
Qed.

Lemma t2_fresh_notin d perm temp u t : tracked2 T d0 d perm temp -> d_nuid d0 <= u -> t <> T -> ~ In u (getloc (d_locs d) t).
Proof.
  intros [ex [_ [_ [_ [Hl _]]]]] Hu Ht Hin. rewrite (Hl t Ht) in Hin.
  apply getloc_In in Hin as [l [Hl1 Hl2]]. apply (inv_loc_lt d0 HI l u Hl1) in Hl2. lia.
Qed.

Lemma erase_first_nil u : erase_first u [] = [].
Proof. reflexivity. Qed.

(* deleting fresh columns *)
Lemma delete_fresh2 d perm temp u :
  tracked2 T d0 d perm temp -> d_nuid d0 <= u ->
  d_cols (delete_column d u) = filter (fun c => negb (c_uid c =? u)) (d_cols d) /\
  (forall t, t <> T -> getloc (d_locs (delete_column d u)) t = getloc (d_locs d) t) /\
  d_nuid (delete_column d u) = d_nuid d.
Proof.
  intros T2 Hu. pose proof (t2_valid _ _ _ T2) as Hv. unfold delete_column.
  destruct (uid_valid d u && has_col d u) eqn:E; simpl.
  - split; [reflexivity|]. split; [|reflexivity].
    intros t Ht. rewrite getloc_map by reflexivity. apply erase_first_notin. apply (t2_fresh_notin _ _ _ _ _ T2 Hu Ht).
  - split; [|split; reflexivity].
    symmetry. apply filter_all_true. intros c Hc.
    apply negb_true_iff. apply Z.eqb_neq. intro Heq.
    apply andb_false_iff in E as [E|E].
    + unfold uid_valid in E. specialize (Hv c Hc). rewrite Heq in Hv.
      apply andb_false_iff in E as [E|E]; [apply Z.leb_gt in E | apply Z.ltb_ge in E]; lia.
    + unfold has_col in E. assert (existsb (fun c0 => c_uid c0 =? u) (d_cols d) = true) as E2.
      { apply existsb_exists. exists c. split; [exact Hc | apply Z.eqb_eq; exact Heq]. }
      congruence.
Qed.

(* one deletion keeps the invariant, with the uid removed from whichever list holds it *)
Lemma t2_delete_one d perm temp u :
  tracked2 T d0 d perm temp -> d_nuid d0 <= u ->
  tracked2 T d0 (delete_column d u) (filter (fun x => negb (x =? u)) perm) (filter (fun x => negb (x =? u)) temp).
Proof.
  intros T2 Hu. destruct (delete_fresh2 d perm temp u T2 Hu) as [K1 [K2 K3]].
  destruct T2 as [ex [Hc [Hx [Hdis [Hl [Hn Hr]]]]]].
  exists (filter (fun c => negb (c_uid c =? u)) ex).
  rewrite K1, K3, Hc.
  split.
  { apply filter_app_l. intros c Hin. apply negb_true_iff. apply Z.eqb_neq. apply (inv_col_lt d0 HI) in Hin. lia. }
  split.
  { intro x. rewrite <- filter_app. rewrite filter_In. split.
    - intro H. apply in_map_iff in H as [c [Hcu Hin]]. apply filter_In in Hin as [Hin Hm]. subst x.
      split; [apply Hx; apply in_map; exact Hin | exact Hm].
    - intros [H Hm]. apply Hx in H. apply in_map_iff in H as [c [Hcu Hin]]. apply in_map_iff. exists c.
      split; [exact Hcu|]. apply filter_In. split; [exact Hin | subst x; exact Hm]. }
  split.
  { intros x H1 H2. apply filter_In in H1 as [H1 _]. apply filter_In in H2 as [H2 _]. exact (Hdis x H1 H2). }
  split.
  { intros t Ht. rewrite (K2 t Ht). apply Hl; exact Ht. }
  split; [exact Hn|].
  intros x H. rewrite <- filter_app in H. apply filter_In in H as [H _]. apply Hr; exact H.
Qed.

Lemma filter_not_in l u : ~ In u l -> filter (fun x => negb (x =? u)) l = l.
Proof.
  intro H. apply filter_all_true. intros x Hx. apply negb_true_iff. apply Z.eqb_neq. intro; subst; contradiction.
Qed.

Lemma t2_ext d perm temp perm' temp' :
  tracked2 T d0 d perm temp -> (forall u, In u perm <-> In u perm') -> (forall u, In u temp <-> In u temp') ->
  tracked2 T d0 d perm' temp'.
Proof.
  intros [ex [Hc [Hx [Hdis [Hl [Hn Hr]]]]]] Hp Ht. exists ex.
  split; [exact Hc|]. split.
  { intro u. rewrite Hx, !in_app_iff, Hp, Ht. tauto. }
  split. { intros u H1 H2. apply Hp in H1. apply Ht in H2. exact (Hdis u H1 H2). }
  split; [exact Hl|]. split; [exact Hn|].
  intros u H. apply Hr. rewrite in_app_iff in *. rewrite Hp, Ht. exact H.
Qed.

(* deleting a whole list of registered uids: what remains registered is what was not in the list *)
Lemma t2_delete_list us : forall d perm temp,
  tracked2 T d0 d perm temp -> (forall u, In u us -> d_nuid d0 <= u) ->
  tracked2 T d0 (delete_columns d us) (filter (fun x => negb (memz x us)) perm) (filter (fun x => negb (memz x us)) temp).
Proof.
  induction us as [|u us IH]; intros d perm temp T2 Hus; simpl.
  - rewrite !filter_all_true by reflexivity. exact T2.
  - unfold delete_columns in *. simpl.
    assert (Hu : d_nuid d0 <= u) by (apply Hus; left; reflexivity).
    pose proof (t2_delete_one d perm temp u T2 Hu) as T3.
    specialize (IH _ _ _ T3 (fun x Hx => Hus x (or_intror Hx))).
    eapply t2_ext; [exact IH | |]; intro x; rewrite !filter_In; unfold memz; simpl;
      rewrite negb_orb, andb_true_iff; tauto.
Qed.

Lemma t2_clean_perm d perm temp : tracked2 T d0 d perm temp -> tracked2 T d0 (delete_columns d perm) [] temp.
Proof.
  intro T2. pose proof T2 as [ex [_ [_ [Hdis [_ [_ Hr]]]]]].
  eapply t2_ext; [apply (t2_delete_list perm d perm temp T2)| |].
  - intros u Hu. assert (In u (perm ++ temp)) as H by (apply in_or_app; left; exact Hu). apply Hr in H. lia.
  - intro u. rewrite filter_In. split; [|intros []]. intros [H Hm]. apply negb_true_iff in Hm.
    apply memz_In in H. congruence.
  - intro u. rewrite filter_In. split; [tauto|]. intro H. split; [exact H|]. apply negb_true_iff.
    destruct (memz u perm) eqn:E; [|reflexivity]. apply memz_In in E. exfalso. exact (Hdis u E H).
Qed.

Lemma t2_clean_temp d perm temp : tracked2 T d0 d perm temp -> tracked2 T d0 (delete_columns d temp) perm [].
Proof.
  intro T2. pose proof T2 as [ex [_ [_ [Hdis [_ [_ Hr]]]]]].
  eapply t2_ext; [apply (t2_delete_list temp d perm temp T2)| |].
  - intros u Hu. assert (In u (perm ++ temp)) as H by (apply in_or_app; right; exact Hu). apply Hr in H. lia.
  - intro u. rewrite filter_In. split; [tauto|]. intro H. split; [exact H|]. apply negb_true_iff.
    destruct (memz u temp) eqn:E; [|reflexivity]. apply memz_In in E. exfalso. exact (Hdis u H E).
  - intro u. rewrite filter_In. split; [|intros []]. intros [H Hm]. apply negb_true_iff in Hm.
    apply memz_In in H. congruence.
Qed.

(* naming a fresh column *)
Lemma t2_set_name d perm temp u name :
  tracked2 T d0 d perm temp -> d_nuid d0 <= u -> tracked2 T d0 (set_name d u name) perm temp.
Proof.
  intros T2 Hu. unfold set_name.
  destruct (uid_valid d u && has_col d u); [|exact T2].
  destruct T2 as [ex [Hc [Hx [Hdis [Hl [Hn Hr]]]]]].
  set (others := map c_name (filter (fun c => negb (c_uid c =? u)) (d_cols d))).
  set (f := fun c => if c_uid c =? u then mkcol (c_uid c) (fix_name (Datatypes.S (length others)) others name) (c_val c) else c).
  assert (Hf : forall l, map c_uid (map f l) = map c_uid l).
  { intro l. rewrite map_map. apply map_ext. intro c. unfold f. destruct (c_uid c =? u); reflexivity. }
  exists (map f ex). unfold with_cols; simpl.
  split.
  { rewrite Hc, map_app. f_equal. rewrite <- (map_id (d_cols d0)) at 2. apply map_ext_in.
    intros c Hin. unfold f. destruct (c_uid c =? u) eqn:E; [|reflexivity].
    apply Z.eqb_eq in E. apply (inv_col_lt d0 HI) in Hin. lia. }
  split. { intro x. rewrite Hf. apply Hx. }
  split; [exact Hdis|]. split; [exact Hl|]. split; [exact Hn | exact Hr].
Qed.

Lemma t2_set_names_seq names : forall d perm temp u,
  tracked2 T d0 d perm temp -> d_nuid d0 <= u -> tracked2 T d0 (set_names_seq d u names) perm temp.
Proof.
  induction names as [|s r IH]; intros d perm temp u T2 Hu; simpl; [exact T2|].
  apply IH; [apply t2_set_name; assumption | lia].
Qed.

(* locating a fresh column with the locator type T *)
Lemma t2_set_locator d perm temp u idx :
  tracked2 T d0 d perm temp -> d_nuid d0 <= u -> tracked2 T d0 (set_locator d u T idx) perm temp.
Proof.
  intros T2 Hu. pose proof T2 as [ex [Hc [Hx [Hdis [Hl [Hn Hr]]]]]]. unfold set_locator.
  destruct (negb (set_locator_ok d u)); [exact T2|].
  assert (Hm : forall t, t <> T -> getloc (map (erase_first u) (d_locs d)) t = getloc (d_locs d0) t).
  { intros t Ht. rewrite getloc_map by reflexivity. rewrite erase_first_notin by (apply (t2_fresh_notin _ _ _ _ _ T2 Hu Ht)).
    apply Hl; exact Ht. }
  destruct (negb (loc_ok T)).
  - exists ex. unfold with_locs; simpl. split; [exact Hc|]. split; [exact Hx|]. split; [exact Hdis|].
    split; [exact Hm | split; assumption].
  - exists ex. unfold with_locs; simpl. split; [exact Hc|]. split; [exact Hx|]. split; [exact Hdis|].
    split; [|split; assumption].
    intros t Ht. rewrite getloc_setloc_other by exact Ht. apply Hm; exact Ht.
Qed.

Lemma t2_set_locs_seq n : forall d perm temp u idx,
  tracked2 T d0 d perm temp -> d_nuid d0 <= u -> tracked2 T d0 (set_locs_seq d n u T idx) perm temp.
Proof.
  induction n as [|n IH]; intros d perm temp u idx T2 Hu; simpl; [exact T2|].
  apply IH; [apply t2_set_locator; assumption | lia].
Qed.

Lemma t2_clear d perm temp : tracked2 T d0 d perm temp -> tracked2 T d0 (clear_locators d T) perm temp.
Proof.
  intros [ex [Hc [Hx [Hdis [Hl [Hn Hr]]]]]]. exists ex. unfold clear_locators, with_locs; simpl.
  split; [exact Hc|]. split; [exact Hx|]. split; [exact Hdis|]. split; [|split; assumption].
  intros t Ht. rewrite getloc_setloc_other by exact Ht. apply Hl; exact Ht.
Qed.

End WithInv2.

(* NamingConvention::setNamesAndLocators on fresh variables *)
Lemma t2_names_and_locators d0 (HI : Inv d0) nc dsrc names tin nvar d perm temp start qual nitems fl :
  tracked2 (nc_target nc) d0 d perm temp -> (start < 0 \/ d_nuid d0 <= start) ->
  tracked2 (nc_target nc) d0 (set_names_and_locators nc dsrc names tin nvar d start qual nitems fl 0) perm temp.
Proof.
  intros T2 Hs. unfold set_names_and_locators.
  destruct (start <? 0) eqn:E; [exact T2|].
  apply Z.ltb_ge in E. destruct Hs as [Hs|Hs]; [lia|].
  match goal with |- context [let '(a, b) := ?X in _] => destruct X as [namloc nvar'] end.
  assert (T3 : tracked2 (nc_target nc) d0 (nc_set_names nc d start namloc nvar' qual nitems) perm temp).
  { unfold nc_set_names. apply t2_set_names_seq; assumption. }
  destruct fl; [|exact T3].
  unfold nc_set_locators. unfold nc_target in *.
  destruct (nc_locator nc); simpl; [|exact T3].
  destruct (nc_loctype nc <? 0); [exact T3|].
  apply t2_set_locs_seq; [exact HI | | exact Hs].
  destruct (nc_clean nc); simpl; [apply t2_clear; exact T3 | exact T3].
Qed.

(* ------------------------------------------------------------------ states *)
Definition d0_of (din dout : db) (w : which) : db := match w with WIn => din | WOut => dout end.

(* a slot is empty or designates variables that are fresh in every Db it may be used with *)
Definition SlotInv (pre : list op) (din dout : db) (s : st) : Prop :=
  forall i, get_slot s i < 0 \/ (forall w, slot_ok pre w i = true -> d_nuid (d0_of din dout w) <= get_slot s i).

Lemma get_set_slot s i v j :
  get_slot (set_slot s i v) j = if Nat.eqb j i && Nat.ltb i (length (s_slots s)) then v else get_slot s j.
Proof.
  unfold get_slot, set_slot; simpl.
  destruct (Nat.eqb j i) eqn:E; simpl.
  - apply Nat.eqb_eq in E. subst j. destruct (Nat.ltb i (length (s_slots s))) eqn:El.
    + apply Nat.ltb_lt in El. apply nth_upd_same; exact El.
    + apply Nat.ltb_ge in El. rewrite upd_beyond by exact El. reflexivity.
  - apply Nat.eqb_neq in E. apply nth_upd_other. congruence.
Qed.

Definition Post (T : Z) (pre : list op) (din dout : db) (s : st) : Prop :=
  s_alias s = false /\
  tracked2 T din (s_in s) (b_perm_in (s_book s)) (b_temp_in (s_book s)) /\
  tracked2 T dout (s_out s) (b_perm_out (s_book s)) (b_temp_out (s_book s)) /\
  SlotInv pre din dout s.

Definition rb_all : list op := [OClean 1; OClean 2].

Lemma cleans_rb_all status : cleans rb_all status = true.
Proof. unfold cleans, rb_all, is_perm; simpl. destruct (status =? 1); reflexivity. Qed.

Lemma safe_pre_s_safe din dout o : safe_pre_s din dout o = true -> safe_op rb_all din dout o = true.
Proof.
  destruct o; simpl; intro H; try discriminate; [|exact H].
  rewrite H. simpl. apply cleans_rb_all.
Qed.

Section Success.
Variables din dout : db.
Hypothesis HIi : Inv din.
Hypothesis HIo : Inv dout.
Variable pre : list op.

Lemma tracked_nuid d0 d p t : tracked d0 d p t -> d_nuid d0 <= d_nuid d.
Proof. intros [ex [_ [_ [_ [_ [_ [_ [Hn _]]]]]]]]. exact Hn. Qed.

(* one operation of _preprocess *)
Lemma pre_op nc o s ok s' :
  Tracked rb_all din dout s -> SlotInv pre din dout s -> In o pre -> safe_pre_s din dout o = true ->
  exec_op nc o s = (ok, s') -> Tracked rb_all din dout s' /\ SlotInv pre din dout s'.
Proof.
  intros Tr SI Hin Hs He.
  split; [exact (exec_op_safe din dout HIi HIo rb_all nc o s ok s' Tr (safe_pre_s_safe _ _ _ Hs) He)|].
  destruct o; simpl in Hs; try discriminate.
  - (* OAdd *)
    simpl in He. unfold add_variable in He.
    destruct (add_columns (getdb w s) (n s) init [] t 0) as [d' u] eqn:Ea.
    apply Z.ltb_lt in Hs.
    destruct (u <? 0) eqn:Eu.
    + inversion He; subst ok s'. intro i. rewrite get_set_slot.
      destruct (Nat.eqb i slot && Nat.ltb slot (length (s_slots s))); [left; lia | apply SI].
    + apply Z.ltb_ge in Eu. inversion He; subst ok s'; clear He. intro i. rewrite get_set_slot.
      unfold with_book, setdb; simpl.
      assert (Hlen : length (s_slots (match w with
                 | WIn => mkst d' (s_out s) (s_alias s) (s_book s) (s_slots s)
                 | WOut => if s_alias s then mkst d' (s_out s) (s_alias s) (s_book s) (s_slots s)
                           else mkst (s_in s) d' (s_alias s) (s_book s) (s_slots s) end)) = length (s_slots s)).
      { destruct w; [reflexivity | destruct (s_alias s); reflexivity]. }
      rewrite Hlen.
      destruct (Nat.eqb i slot && Nat.ltb slot (length (s_slots s))) eqn:E.
      * right. intros w' Hok. apply andb_true_iff in E as [E _]. apply Nat.eqb_eq in E. subst i.
        unfold slot_ok in Hok. rewrite forallb_forall in Hok. specialize (Hok _ Hin). simpl in Hok.
        rewrite Nat.eqb_refl in Hok. simpl in Hok.
        assert (w' = w) as -> by (destruct w', w; simpl in Hok; congruence).
        destruct Tr as [Ha [Ti [To _]]].
        destruct w; unfold getdb in Ea; [|rewrite Ha in Ea].
        -- destruct (tracked_add din HIi _ _ _ _ _ _ _ _ _ _ true Ti Hs Ea Eu) as [Hu _]. subst u. simpl.
           apply (tracked_nuid _ _ _ _ Ti).
        -- destruct (tracked_add dout HIo _ _ _ _ _ _ _ _ _ _ true To Hs Ea Eu) as [Hu _]. subst u. simpl.
           apply (tracked_nuid _ _ _ _ To).
      * replace (get_slot _ i) with (get_slot s i); [apply SI|].
        unfold get_slot. destruct w; [reflexivity | destruct (s_alias s); reflexivity].
  - (* OExpand *)
    simpl in He. rewrite (expand_noop_same din dout rb_all t s Tr Hs) in He. inversion He; subst. exact SI.
Qed.

Lemma pre_ops nc ops : forall s ok s',
  Tracked rb_all din dout s -> SlotInv pre din dout s -> incl ops pre -> forallb (safe_pre_s din dout) ops = true ->
  exec_ops nc ops s None = (ok, s') -> Tracked rb_all din dout s' /\ SlotInv pre din dout s'.
Proof.
  induction ops as [|o r IH]; intros s ok s' Tr SI Hincl Hs He; simpl in He.
  - inversion He; subst. split; assumption.
  - simpl in Hs. apply andb_true_iff in Hs as [Ho Hr].
    destruct (exec_op nc o s) as [ok1 s1] eqn:E1.
    destruct (pre_op nc o s ok1 s1 Tr SI (Hincl o (or_introl eq_refl)) Ho E1) as [Tr1 SI1].
    destruct ok1.
    + apply (IH s1 ok s' Tr1 SI1); [intros x Hx; apply Hincl; right; exact Hx | exact Hr | exact He].
    + inversion He; subst. split; assumption.
Qed.

(* the numerical body *)
Lemma body_ops nc ops : forall s ok s',
  Tracked rb_all din dout s -> SlotInv pre din dout s -> forallb only_body ops = true ->
  exec_ops nc ops s None = (ok, s') -> Tracked rb_all din dout s' /\ SlotInv pre din dout s'.
Proof.
  induction ops as [|o r IH]; intros s ok s' Tr SI Hs He; simpl in He.
  - inversion He; subst. split; assumption.
  - simpl in Hs. apply andb_true_iff in Hs as [Ho Hr]. destruct o; simpl in Ho; try discriminate.
    destruct (exec_op nc (OBody tag) s) as [ok1 s1] eqn:E1.
    assert (Tr1 : Tracked rb_all din dout s1) by (apply (exec_op_safe din dout HIi HIo rb_all nc (OBody tag) s ok1 s1 Tr eq_refl E1)).
    assert (SI1 : SlotInv pre din dout s1).
    { simpl in E1. inversion E1; subst ok1 s1. intro i.
      replace (get_slot _ i) with (get_slot s i); [apply SI|].
      unfold get_slot, setdb. destruct (s_alias s); reflexivity. }
    destruct ok1; [apply (IH s1 ok s' Tr1 SI1 Hr He) | inversion He; subst; split; assumption].
Qed.

Lemma Tracked_Post T s : Tracked rb_all din dout s -> SlotInv pre din dout s -> Post T pre din dout s.
Proof.
  intros [Ha [Ti [To _]]] SI. split; [exact Ha|]. split; [apply tracked_tracked2; exact Ti|].
  split; [apply tracked_tracked2; exact To | exact SI].
Qed.

(* one operation of _postprocess *)
Lemma post_op nc o s ok s' :
  Post (nc_target nc) pre din dout s -> safe_post_s pre o = true -> exec_op nc o s = (ok, s') ->
  ok = true /\ Post (nc_target nc) pre din dout s' /\
  (match o with OClean st => if is_perm st then True else b_temp_in (s_book s') = [] /\ b_temp_out (s_book s') = [] | _ => True end) /\
  (b_temp_in (s_book s) = [] /\ b_temp_out (s_book s) = [] -> b_temp_in (s_book s') = [] /\ b_temp_out (s_book s') = []).
Proof.
  intros [Ha [Ti [To SI]]] Hs He. destruct o; simpl in Hs; try discriminate.
  - (* OClean *)
    simpl in He. inversion He; subst ok s'; clear He. split; [reflexivity|].
    destruct s as [si so al bk sl]. simpl in *. subst al.
    unfold clean_variables, getdb, setdb, with_book, is_perm, Post. simpl.
    destruct (status =? 1); simpl.
    + split; [|split; [exact I | tauto]].
      split; [reflexivity|]. split; [apply t2_clean_perm; assumption|]. split; [apply t2_clean_perm; assumption|].
      intro i. apply SI.
    + split; [|split; [split; reflexivity | intros _; split; reflexivity]].
      split; [reflexivity|]. split; [apply t2_clean_temp; assumption|]. split; [apply t2_clean_temp; assumption|].
      intro i. apply SI.
  - (* ORename *)
    apply andb_true_iff in Hs as [Hok Hoff]. apply Z.leb_le in Hoff.
    simpl in He. inversion He; subst ok s'; clear He. split; [reflexivity|].
    assert (Hst : (if get_slot s slot <? 0 then -1 else get_slot s slot + off) < 0 \/
                  d_nuid (d0_of din dout w) <= (if get_slot s slot <? 0 then -1 else get_slot s slot + off)).
    { destruct (get_slot s slot <? 0) eqn:E; [left; lia|]. apply Z.ltb_ge in E.
      destruct (SI slot) as [H|H]; [lia|]. right. specialize (H w Hok). lia. }
    destruct s as [si so al bk sl]. simpl in *. subst al.
    unfold rename_variable, getdb, setdb. simpl.
    destruct w; simpl; (split; [|split; [exact I | tauto]]); unfold Post; simpl.
    + split; [reflexivity|]. split; [apply t2_names_and_locators; assumption|]. split; [exact To|]. intro i; apply SI.
    + split; [reflexivity|]. split; [exact Ti|]. split; [apply t2_names_and_locators; assumption|]. intro i; apply SI.
Qed.

Lemma post_ops nc ops : forall s ok s',
  Post (nc_target nc) pre din dout s -> forallb (safe_post_s pre) ops = true ->
  exec_ops nc ops s None = (ok, s') ->
  ok = true /\ Post (nc_target nc) pre din dout s' /\
  ((b_temp_in (s_book s) = [] /\ b_temp_out (s_book s) = []) \/ cleans ops 2 = true ->
   b_temp_in (s_book s') = [] /\ b_temp_out (s_book s') = []).
Proof.
  induction ops as [|o r IH]; intros s ok s' P Hs He; simpl in He.
  - inversion He; subst. split; [reflexivity|]. split; [exact P|]. intros [H|H]; [exact H | discriminate].
  - simpl in Hs. apply andb_true_iff in Hs as [Ho Hr].
    destruct (exec_op nc o s) as [ok1 s1] eqn:E1.
    destruct (post_op nc o s ok1 s1 P Ho E1) as [Hok [P1 [Hcl Hkeep]]]. subst ok1.
    destruct (IH s1 ok s' P1 Hr He) as [Hok' [P' Ht]].
    split; [exact Hok'|]. split; [exact P'|].
    intros [H|H].
    + apply Ht. left. apply Hkeep. exact H.
    + unfold cleans in H. simpl in H. apply orb_true_iff in H as [H|H].
      * destruct o; try discriminate. unfold is_perm in *. simpl in H.
        destruct (status =? 1) eqn:E; simpl in H; [discriminate|].
        apply Ht. left. exact Hcl.
      * apply Ht. right. exact H.
Qed.

End Success.

Theorem success_generic (c : calc) (din dout : db) (fk : nat) (s' : st) :
  Inv din -> Inv dout -> wf_success c din dout = true ->
  calc_run c (init_st din dout false) 0 fk = (true, s') ->
  success_spec (k_nc c) din dout s'.
Proof.
  intros HIi HIo Hwf Hrun.
  unfold wf_success in Hwf. apply andb_true_iff in Hwf as [Hwf Hcl]. apply andb_true_iff in Hwf as [Hwf Hpost].
  apply andb_true_iff in Hwf as [Hwf Hbody]. apply andb_true_iff in Hwf as [Hini Hpre].
  assert (k_init c = []) as Hk by (destruct (k_init c); [reflexivity | discriminate]).
  unfold calc_run in Hrun. rewrite Hk in Hrun. cbn [exec_quiet] in Hrun.
  change (budget_of 0 2 fk) with (@None nat) in Hrun. change (budget_of 0 3 fk) with (@None nat) in Hrun.
  change (budget_of 0 4 fk) with (@None nat) in Hrun. change (0 =? 1) with false in Hrun.
  destruct (negb (k_check c (init_st din dout false))); [discriminate|].
  destruct (exec_ops (k_nc c) (k_pre c) (init_st din dout false) None) as [ok1 s1] eqn:E1.
  assert (SI0 : SlotInv (k_pre c) din dout (init_st din dout false)).
  { intro i. left. unfold get_slot, init_st; simpl.
    do 8 (destruct i as [|i]; [simpl; lia|]). destruct i; simpl; lia. }
  destruct (pre_ops din dout HIi HIo (k_pre c) (k_nc c) (k_pre c) _ _ _ (Tracked_init rb_all din dout) SI0 (incl_refl _) Hpre E1) as [Tr1 SI1].
  destruct ok1; simpl in Hrun; [|discriminate].
  destruct (exec_ops (k_nc c) (k_run c) s1 None) as [ok2 s2] eqn:E2.
  destruct (body_ops din dout HIi HIo (k_pre c) (k_nc c) (k_run c) _ _ _ Tr1 SI1 Hbody E2) as [Tr2 SI2].
  destruct ok2; simpl in Hrun; [|discriminate].
  destruct (exec_ops (k_nc c) (k_post c) s2 None) as [ok3 s3] eqn:E3.
  pose proof (Tracked_Post din dout (k_pre c) (nc_target (k_nc c)) s2 Tr2 SI2) as P2.
  destruct (post_ops din dout HIi HIo (k_pre c) (k_nc c) (k_post c) _ _ _ P2 Hpost E3) as [Hok [P3 Ht]].
  subst ok3. simpl in Hrun. inversion Hrun; subst s'; clear Hrun.
  destruct (Ht (or_intror Hcl)) as [Ht1 Ht2].
  destruct P3 as [Ha [[exi [Hci [Hxi [_ [Hli _]]]]] [[exo [Hco [Hxo [_ [Hlo _]]]]] _]]].
  unfold success_spec. rewrite Ht1 in Hxi. rewrite Ht2 in Hxo. rewrite app_nil_r in Hxi, Hxo.
  split; [exists exi; split; assumption|]. split; [exists exo; split; assumption|].
  split; [exact Ht1|]. split; [exact Ht2|].
  intros t Htt. split; [apply Hli | apply Hlo]; exact Htt.
Qed.

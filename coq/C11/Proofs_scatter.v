(* C11 proofs, part 7: cs_scatter, cs_add, cs_multiply.
   A column of the result is built by scattering a list of contributions (row, value) into the dense workspace x, the mark
   array w telling which rows already belong to the column; the values are then gathered with Cx[p] = x[Ci[p]]. *)
From Coq Require Import List ZArith QArith Qabs Bool Arith Lia Lqa Setoid Morphisms.
From Gst Require Import lib.QAux C11.Sums C11.Spec C11.Model C11.Model_sparse C11.Proofs C11.Proofs_sparse C11.Proofs_dupl.
Import ListNotations.
Local Open Scope Q_scope.

Definition contrib := (nat * Q)%type.
Definition csum (L : list contrib) (i : nat) : Q := suml (map (fun c => if (fst c =? i)%nat then snd c else 0) L).
Lemma csum_app L1 L2 i : csum (L1 ++ L2) i == csum L1 i + csum L2 i.
Proof. unfold csum. rewrite map_app, suml_app. reflexivity. Qed.
Lemma csum_snoc L c i : csum (L ++ [c]) i == csum L i + (if (fst c =? i)%nat then snd c else 0).
Proof. rewrite csum_app. unfold csum at 2. simpl. lra. Qed.

(* one iteration of the loop of cs_scatter (csparse.cpp:1987) *)
Definition sc_step (mark : nat) (s : sc_state) (c : contrib) : sc_state :=
  let w := fst (fst s) in let x := snd (fst s) in let Ci := snd s in
  if (nth (fst c) w O <? mark)%nat then (upd w (fst c) mark, upd x (fst c) (snd c), Ci ++ [fst c])
  else (w, upd x (fst c) (nth (fst c) x 0 + snd c), Ci).

Lemma fold_left_map_ext {A B C} (F : A -> B -> A) (f : A -> C -> A) (g : B -> C) :
  (forall s q, F s q = f s (g q)) -> forall l s, fold_left F l s = fold_left f (map g l) s.
Proof. intros H l. induction l as [|q l IH]; intro s; simpl; [reflexivity|]. rewrite H. apply IH. Qed.

Definition col_contrib (a : csc) (j : nat) (beta : Q) : list contrib :=
  map (fun q => (nth q (ci a) O, beta * nth q (cx a) 0)) (colpos a j).
Lemma scatter_as_fold a j beta mark st : cs_scatter a j beta mark st = fold_left (sc_step mark) (col_contrib a j beta) st.
Proof. unfold cs_scatter, col_contrib. apply fold_left_map_ext. intros s q. reflexivity. Qed.

Definition SW (st : sc_state) := fst (fst st).
Definition SX (st : sc_state) := snd (fst st).
Definition SI (st : sc_state) := snd st.

Section Column.
Variable m : nat.       (* number of rows = size of the workspaces *)
Variable mark : nat.
Variable from : nat.
Variable Ci0 : list nat.

Record cinv (L : list contrib) (st : sc_state) : Prop := {
  c_wl : length (SW st) = m;
  c_xl : length (SX st) = m;
  c_from : (from <= length (SI st))%nat;
  c_le : forall i, (nth i (SW st) O <= mark)%nat;
  c_in : forall pos, (from <= pos)%nat -> (pos < length (SI st))%nat ->
           (nth pos (SI st) O < m)%nat /\ nth (nth pos (SI st) O) (SW st) O = mark;
  c_inj : forall p1 p2, (from <= p1)%nat -> (p1 < length (SI st))%nat -> (from <= p2)%nat -> (p2 < length (SI st))%nat ->
           nth p1 (SI st) O = nth p2 (SI st) O -> p1 = p2;
  c_ex : forall i, (i < m)%nat -> nth i (SW st) O = mark -> exists pos, (from <= pos)%nat /\ (pos < length (SI st))%nat /\ nth pos (SI st) O = i;
  c_val : forall i, (i < m)%nat -> (nth i (SW st) O = mark -> nth i (SX st) 0 == csum L i) /\
                                   ((nth i (SW st) O < mark)%nat -> csum L i == 0);
  c_pre : forall pos, (pos < from)%nat -> nth pos (SI st) O = nth pos Ci0 O }.

Lemma sc_step_inv L st c : cinv L st -> (fst c < m)%nat -> cinv (L ++ [c]) (sc_step mark st c).
Proof.
  intros [Hwl Hxl Hfrom Hle Hin Hinj Hex Hval Hpre] Hc.
  destruct st as [[w x] Ci]. destruct c as [i0 v]. unfold SW, SX, SI in *. simpl in *.
  unfold sc_step. simpl. destruct (nth i0 w O <? mark)%nat eqn:E.
  - (* new row of the column *)
    apply Nat.ltb_lt in E.
    constructor; unfold SW, SX, SI; simpl.
    + rewrite upd_length. assumption.
    + rewrite upd_length. assumption.
    + rewrite app_length. simpl. lia.
    + intro i. destruct (Nat.eq_dec i i0) as [->|Hne].
      * rewrite nth_upd_same by lia. lia.
      * rewrite nth_upd_other by assumption. apply Hle.
    + intros pos H1 H2. rewrite app_length in H2. simpl in H2. destruct (Nat.eq_dec pos (length Ci)) as [->|Hne].
      * rewrite app_nth2 by (lia). rewrite Nat.sub_diag. simpl. split; [assumption|]. apply nth_upd_same. lia.
      * rewrite app_nth1 by (lia). destruct (Hin pos H1) as [G1 G2]; [lia|]. split; [assumption|].
        destruct (Nat.eq_dec (nth pos Ci O) i0) as [Ee|Ee]; [rewrite Ee in G2; lia|]. rewrite nth_upd_other by assumption. exact G2.
    + intros p1 p2 A1 A2 B1 B2 Heq. rewrite app_length in A2, B2. simpl in A2, B2.
      assert (Hold : forall p, (from <= p)%nat -> (p < (length Ci))%nat -> nth p Ci O <> i0).
      { intros p P1 P2 Ee. destruct (Hin p P1 P2) as [_ G2]. rewrite Ee in G2. lia. }
      destruct (Nat.eq_dec p1 (length Ci)) as [E1|E1]; destruct (Nat.eq_dec p2 (length Ci)) as [E2|E2]; try lia.
      * subst p1. rewrite app_nth2 in Heq by (lia). rewrite Nat.sub_diag in Heq. simpl in Heq.
        rewrite app_nth1 in Heq by (lia). exfalso. apply (Hold p2); [assumption|lia|]. symmetry. exact Heq.
      * subst p2. rewrite (@app_nth2 _ Ci [i0] O (length Ci)) in Heq by (lia). rewrite Nat.sub_diag in Heq. simpl in Heq.
        rewrite app_nth1 in Heq by (lia). exfalso. apply (Hold p1); [assumption|lia|]. exact Heq.
      * rewrite !app_nth1 in Heq by (lia). apply Hinj; try assumption; lia.
    + intros i Hi Hm. destruct (Nat.eq_dec i i0) as [->|Hne].
      * exists (length Ci). rewrite app_length. simpl. split; [lia|]. split; [lia|].
        rewrite app_nth2 by (lia). rewrite Nat.sub_diag. reflexivity.
      * rewrite nth_upd_other in Hm by assumption. destruct (Hex i Hi Hm) as [pos [P1 [P2 P3]]].
        exists pos. rewrite app_length. simpl. split; [assumption|]. split; [lia|]. rewrite app_nth1 by assumption. exact P3.
    + intros i Hi. rewrite csum_snoc. simpl. destruct (Nat.eq_dec i i0) as [->|Hne].
      * rewrite Nat.eqb_refl. rewrite !nth_upd_same by lia. split.
        -- intros _. destruct (Hval i0 Hi) as [_ Hz]. rewrite (Hz E). lra.
        -- intro Hlt. lia.
      * destruct (Nat.eqb_spec i0 i); [congruence|]. rewrite !nth_upd_other by assumption.
        destruct (Hval i Hi) as [V1 V2]. split; intro Hh; [rewrite (V1 Hh); lra | rewrite (V2 Hh); lra].
    + intros pos Hp. rewrite app_nth1 by lia. apply Hpre. assumption.
  - (* the row is already in the column: accumulate *)
    apply Nat.ltb_ge in E. assert (Em : nth i0 w O = mark) by (pose proof (Hle i0); lia).
    constructor; unfold SW, SX, SI; simpl; auto.
    + rewrite upd_length. assumption.
    + intros i Hi. rewrite csum_snoc. simpl. destruct (Nat.eq_dec i i0) as [->|Hne].
      * rewrite Nat.eqb_refl. rewrite nth_upd_same by lia. destruct (Hval i0 Hi) as [V1 _]. split.
        -- intros _. rewrite (V1 Em). reflexivity.
        -- intro Hlt. lia.
      * destruct (Nat.eqb_spec i0 i); [congruence|]. rewrite nth_upd_other by assumption.
        destruct (Hval i Hi) as [V1 V2]. split; intro Hh; [rewrite (V1 Hh); lra | rewrite (V2 Hh); lra].
Qed.

Lemma sc_fold_inv : forall L2 L1 st, cinv L1 st -> (forall c, In c L2 -> (fst c < m)%nat) ->
  cinv (L1 ++ L2) (fold_left (sc_step mark) L2 st).
Proof.
  induction L2 as [|c L2 IH]; intros L1 st Hinv Hrows; simpl.
  - rewrite app_nil_r. assumption.
  - replace (L1 ++ c :: L2) with ((L1 ++ [c]) ++ L2) by (rewrite <- app_assoc; reflexivity).
    apply IH; [apply sc_step_inv; [assumption|apply Hrows; left; reflexivity] | intros; apply Hrows; right; assumption].
Qed.

(* the gathered column: sum over its positions of x[Ci[p]] for the rows equal to i *)
Lemma column_value L st i : cinv L st -> (i < m)%nat ->
  sumn (length (SI st) - from) (fun t => if (nth (from + t) (SI st) O =? i)%nat then nth (nth (from + t) (SI st) O) (SX st) 0 else 0) == csum L i.
Proof.
  intros [Hwl Hxl Hfrom Hle Hin Hinj Hex Hval Hpre] Hi.
  destruct (Nat.eq_dec (nth i (SW st) O) mark) as [Em|Em].
  - destruct (Hex i Hi Em) as [pos [P1 [P2 P3]]].
    etransitivity; [apply (sumn_single _ _ (pos - from)%nat); [lia|]|].
    + intros t Ht Hne. destruct (Nat.eqb_spec (nth (from + t) (SI st) O) i) as [Ee|]; [|reflexivity].
      exfalso. apply Hne. assert (from + t = pos)%nat by (apply Hinj; try lia; congruence). lia.
    + cbv beta. replace (from + (pos - from))%nat with pos by lia. rewrite P3, Nat.eqb_refl. apply (proj1 (Hval i Hi) Em).
  - rewrite sumn_zero.
    + symmetry. apply (proj2 (Hval i Hi)). pose proof (Hle i). lia.
    + intros t Ht. destruct (Nat.eqb_spec (nth (from + t) (SI st) O) i) as [Ee|]; [|reflexivity].
      exfalso. destruct (Hin (from + t)%nat) as [_ G]; [lia|lia|]. rewrite Ee in G. contradiction.
Qed.
End Column.

(* ------------------------------------------------------------------ the column-by-column builder shared by cs_add and cs_multiply *)
Definition bacc := (sc_state * list nat * list Q)%type.
Definition build_step (cc : nat -> list contrib) (acc : bacc) (j : nat) : bacc :=
  let st := fst (fst acc) in
  let from := length (SI st) in
  let st' := fold_left (sc_step (S j)) (cc j) st in
  (st', snd (fst acc) ++ [from], snd acc ++ finish_col st' from).
Definition build (m n : nat) (cc : nat -> list contrib) : csc :=
  let r := fold_left (build_step cc) (seq 0 n) ((repeat O m, repeat 0 m, []), [], []) in
  mkC m n (snd (fst r) ++ [length (SI (fst (fst r)))]) (SI (fst (fst r))) (snd r) true.

Record binv (m : nat) (cc : nat -> list contrib) (k : nat) (acc : bacc) : Prop := {
  b_wl : length (SW (fst (fst acc))) = m;
  b_xl : length (SX (fst (fst acc))) = m;
  b_cp : length (snd (fst acc)) = k;
  b_cx : length (snd acc) = length (SI (fst (fst acc)));
  b_marks : forall i, (nth i (SW (fst (fst acc))) O <= k)%nat;
  b_rows : forall pos, (pos < length (SI (fst (fst acc))))%nat -> (nth pos (SI (fst (fst acc))) O < m)%nat;
  b_mono : forall j, (j < k)%nat ->
     (nth j (snd (fst acc) ++ [length (SI (fst (fst acc)))]) O <= nth (S j) (snd (fst acc) ++ [length (SI (fst (fst acc)))]) O)%nat /\
     (nth (S j) (snd (fst acc) ++ [length (SI (fst (fst acc)))]) O <= length (SI (fst (fst acc))))%nat;
  b_abs : forall j i, (j < k)%nat -> (i < m)%nat ->
     bsum (nth j (snd (fst acc) ++ [length (SI (fst (fst acc)))]) O)
          (nth (S j) (snd (fst acc) ++ [length (SI (fst (fst acc)))]) O - nth j (snd (fst acc) ++ [length (SI (fst (fst acc)))]) O)
          (SI (fst (fst acc))) (snd acc) i == csum (cc j) i }.

Lemma nth_skipn_plus {A} (d : A) : forall n l k, nth k (skipn n l) d = nth (n + k) l d.
Proof. induction n as [|n IH]; intros [|x l] k; simpl; auto. destruct k; reflexivity. Qed.
Lemma nth_finish st from pos : (from <= pos)%nat -> (pos < length (SI st))%nat ->
  nth (pos - from) (finish_col st from) 0 = nth (nth pos (SI st) O) (SX st) 0.
Proof.
  intros H1 H2. unfold finish_col. fold (SX st). fold (SI st).
  rewrite (nth_indep _ 0 (nth O (SX st) 0)) by (rewrite map_length, skipn_length; lia).
  rewrite (map_nth (fun i => nth i (SX st) 0) (skipn from (SI st)) O (pos - from)).
  f_equal. rewrite nth_skipn_plus. f_equal. lia.
Qed.

Lemma build_step_inv m cc k acc : (forall c, In c (cc k) -> (fst c < m)%nat) -> binv m cc k acc -> binv m cc (S k) (build_step cc acc k).
Proof.
  intros Hrows [Hwl Hxl Hcp Hcx Hmarks Hrw Hmono Habs].
  destruct acc as [[st Cp] Cx]. simpl in *. set (q := length (SI st)) in *.
  assert (I0 : cinv m (S k) q (SI st) [] st).
  { constructor.
    - exact Hwl.
    - exact Hxl.
    - unfold q. lia.
    - intro i. pose proof (Hmarks i). lia.
    - intros pos H1 H2. unfold q in H1. lia.
    - intros p1 p2 A1 A2. unfold q in A1. lia.
    - intros i Hi Hm. pose proof (Hmarks i). lia.
    - intros i Hi. split; [intro Hm; pose proof (Hmarks i); lia | intros _; reflexivity].
    - intros pos Hp. reflexivity. }
  pose proof (sc_fold_inv m (S k) q (SI st) (cc k) [] st I0 Hrows) as Hc. simpl app in Hc.
  unfold build_step. simpl fst. simpl snd. fold q.
  set (st' := fold_left (sc_step (S k)) (cc k) st) in *.
  pose proof Hc as [Cwl Cxl Cfrom Cle Cin Cinj Cex Cval Cpre].
  set (L' := length (SI st')) in *.
  assert (Lf : length (finish_col st' q) = (L' - q)%nat) by (unfold finish_col; rewrite map_length, skipn_length; reflexivity).
  assert (N1 : forall j, (j <= k)%nat -> nth j ((Cp ++ [q]) ++ [L']) O = nth j (Cp ++ [q]) O).
  { intros j Hj. apply app_nth1. rewrite app_length. simpl. lia. }
  assert (N2 : nth (S k) ((Cp ++ [q]) ++ [L']) O = L').
  { replace (S k) with (length (Cp ++ [q])) by (rewrite app_length; simpl; lia). apply nth_snoc_eq. }
  assert (N3 : nth k (Cp ++ [q]) O = q) by (rewrite <- Hcp; apply nth_snoc_eq).
  constructor; simpl; fold q; fold st'; fold L'.
  - assumption.
  - assumption.
  - rewrite app_length. simpl. lia.
  - rewrite app_length, Lf, Hcx. fold q. lia.
  - intro i. apply Cle.
  - intros pos Hp. destruct (Nat.lt_ge_cases pos q) as [Hlt|Hge].
    + rewrite (Cpre pos Hlt). apply Hrw. assumption.
    + apply (Cin pos Hge Hp).
  - intros j Hj. destruct (Nat.eq_dec j k) as [->|Hne].
    + rewrite N1, N2, N3 by lia. lia.
    + rewrite !N1 by lia. destruct (Hmono j) as [M1 M2]; [lia|]. split; [assumption|]. lia.
  - intros j i Hj Hi. destruct (Nat.eq_dec j k) as [->|Hne].
    + rewrite N1, N2, N3 by lia. rewrite <- (column_value m (S k) q (SI st) (cc k) st' i Hc Hi). fold L'.
      unfold bsum. apply sumn_ext. intros t Ht.
      rewrite (app_nth2 Cx) by (rewrite Hcx; fold q; lia). rewrite Hcx. fold q.
      replace (q + t - q)%nat with ((q + t) - q)%nat by lia. rewrite nth_finish by (fold L'; lia). reflexivity.
    + assert (Hjk : (j < k)%nat) by lia. rewrite !N1 by lia.
      destruct (Hmono j Hjk) as [M1 M2]. rewrite <- (Habs j i Hjk Hi). unfold bsum. apply sumn_ext. intros t Ht.
      rewrite Cpre by lia. rewrite (app_nth1 Cx) by (rewrite Hcx; fold q; lia). reflexivity.
Qed.

Lemma build_fold_inv m cc n : (forall j c, (j < n)%nat -> In c (cc j) -> (fst c < m)%nat) ->
  forall l k acc, (k + l <= n)%nat -> binv m cc k acc -> binv m cc (k + l) (fold_left (build_step cc) (seq k l) acc).
Proof.
  intros Hrows. induction l as [|l IH]; intros k acc Hkl Hinv; simpl.
  - rewrite Nat.add_0_r. assumption.
  - replace (k + S l)%nat with (S k + l)%nat by lia. apply IH; [lia|].
    apply build_step_inv; [intros c Hc; apply (Hrows k c); [lia|assumption] | assumption].
Qed.

Theorem build_spec m n cc : (forall j c, (j < n)%nat -> In c (cc j) -> (fst c < m)%nat) ->
  cm (build m n cc) = m /\ cn (build m n cc) = n /\ length (cp (build m n cc)) = S n /\ rows_in (build m n cc) /\
  forall i j, (i < m)%nat -> (j < n)%nat -> abs_csc (build m n cc) i j == csum (cc j) i.
Proof.
  intro Hrows.
  assert (I0 : binv m cc 0 ((repeat O m, repeat 0 m, []), [], [])).
  { constructor; simpl; auto; try apply repeat_length.
    - intro i. unfold SW; simpl. destruct (Nat.lt_ge_cases i m); [rewrite nth_repeat|rewrite nth_overflow by (rewrite repeat_length; assumption)]; lia.
    - intros pos H. unfold SI in H; simpl in H. lia.
    - intros j H. lia.
    - intros j i H. lia. }
  pose proof (build_fold_inv m cc n Hrows n 0 _ (Nat.le_refl _) I0) as [Hwl Hxl Hcp Hcx Hmarks Hrw Hmono Habs].
  simpl in *. unfold build. simpl. split; [reflexivity|]. split; [reflexivity|]. split; [rewrite app_length, Hcp; simpl; lia|]. split.
  - intros j p Hj Hp. simpl in *. unfold colpos, colbeg, collen in Hp. simpl in Hp. apply in_seq in Hp.
    destruct (Hmono j Hj) as [M1 M2]. apply Hrw. lia.
  - intros i j Hi Hj. apply (Habs j i Hj Hi).
Qed.

(* ------------------------------------------------------------------ cs_add *)
Lemma fold_left_ext2 {A B} (f g : A -> B -> A) : (forall s x, f s x = g s x) -> forall l s, fold_left f l s = fold_left g l s.
Proof. intros H l. induction l as [|x l IH]; intro s; simpl; [reflexivity|]. rewrite H. apply IH. Qed.

Lemma cs_add_build a b alpha beta :
  cs_add a b alpha beta = build (cm a) (cn b) (fun j => col_contrib a j alpha ++ col_contrib b j beta).
Proof.
  unfold cs_add, build. cbv zeta.
  rewrite (fold_left_ext2 _ (build_step (fun j => col_contrib a j alpha ++ col_contrib b j beta))); [reflexivity|].
  intros [[st Cp] Cx] j. unfold build_step. simpl. rewrite !scatter_as_fold, fold_left_app. reflexivity.
Qed.

Lemma csum_col_contrib a j beta i : csum (col_contrib a j beta) i == beta * abs_csc a i j.
Proof.
  unfold csum, col_contrib. rewrite map_map. rewrite <- colsum_abs. unfold colsum. rewrite <- suml_map_scal.
  apply suml_map_ext. intros q _. simpl. destruct (nth q (ci a) O =? i)%nat; ring.
Qed.

(* C = alpha*A + beta*B, entry by entry (duplicates of A and B are summed), column pointers well formed *)
Theorem cs_add_spec a b alpha beta : rows_in a -> rows_in b -> cm b = cm a -> cn a = cn b ->
  cm (cs_add a b alpha beta) = cm a /\ cn (cs_add a b alpha beta) = cn b /\
  length (cp (cs_add a b alpha beta)) = S (cn b) /\ rows_in (cs_add a b alpha beta) /\
  forall i j, (i < cm a)%nat -> (j < cn b)%nat ->
    abs_csc (cs_add a b alpha beta) i j == alpha * abs_csc a i j + beta * abs_csc b i j.
Proof.
  intros Ha Hb Hm Hn. rewrite cs_add_build.
  destruct (build_spec (cm a) (cn b) (fun j => col_contrib a j alpha ++ col_contrib b j beta)) as [B1 [B2 [B3 [B4 B5]]]].
  - intros j c Hj Hc. apply in_app_or in Hc. destruct Hc as [Hc|Hc]; unfold col_contrib in Hc; apply in_map_iff in Hc;
      destruct Hc as [q [<- Hq]]; simpl.
    + apply (Ha j q); [lia|assumption].
    + rewrite <- Hm. apply (Hb j q); [lia|assumption].
  - split; [exact B1|]. split; [exact B2|]. split; [exact B3|]. split; [exact B4|].
    intros i j Hi Hj. rewrite (B5 i j Hi Hj). rewrite csum_app, !csum_col_contrib. reflexivity.
Qed.

(* ------------------------------------------------------------------ cs_multiply *)
Definition mul_contrib (a b : csc) (j : nat) : list contrib :=
  flat_map (fun p => col_contrib a (nth p (ci b) O) (nth p (cx b) 0)) (colpos b j).

Lemma fold_left_flat_map {A B C} (f : A -> C -> A) (g : B -> list C) : forall l s,
  fold_left f (flat_map g l) s = fold_left (fun s p => fold_left f (g p) s) l s.
Proof. induction l as [|p l IH]; intro s; simpl; [reflexivity|]. rewrite fold_left_app. apply IH. Qed.

Lemma cs_multiply_build a b : cs_multiply a b = build (cm a) (cn b) (mul_contrib a b).
Proof.
  unfold cs_multiply, build. cbv zeta.
  rewrite (fold_left_ext2 _ (build_step (mul_contrib a b))); [reflexivity|].
  intros [[st Cp] Cx] j. unfold build_step, mul_contrib. simpl. rewrite fold_left_flat_map.
  rewrite (fold_left_ext2 (fun s q => cs_scatter a (nth q (ci b) O) (nth q (cx b) 0) (S j) s)
                          (fun s p => fold_left (sc_step (S j)) (col_contrib a (nth p (ci b) O) (nth p (cx b) 0)) s))
    by (intros; apply scatter_as_fold). reflexivity.
Qed.

Lemma csum_flat_map {B} (g : B -> list contrib) l i : csum (flat_map g l) i == suml (map (fun p => csum (g p) i) l).
Proof. induction l as [|p l IH]; simpl; [reflexivity|]. rewrite csum_app, IH. reflexivity. Qed.

(* C = A.B *)
Theorem cs_multiply_spec a b : rows_in a -> rows_in b -> cn a = cm b ->
  cm (cs_multiply a b) = cm a /\ cn (cs_multiply a b) = cn b /\
  length (cp (cs_multiply a b)) = S (cn b) /\ rows_in (cs_multiply a b) /\
  forall i j, (i < cm a)%nat -> (j < cn b)%nat ->
    abs_csc (cs_multiply a b) i j == sumn (cn a) (fun k => abs_csc a i k * abs_csc b k j).
Proof.
  intros Ha Hb Hk. rewrite cs_multiply_build.
  destruct (build_spec (cm a) (cn b) (mul_contrib a b)) as [B1 [B2 [B3 [B4 B5]]]].
  - intros j c Hj Hc. unfold mul_contrib in Hc. apply in_flat_map in Hc. destruct Hc as [p [Hp Hc]].
    unfold col_contrib in Hc. apply in_map_iff in Hc. destruct Hc as [q [<- Hq]]. simpl.
    apply (Ha (nth p (ci b) O) q); [rewrite Hk; apply (Hb j p Hj Hp)|assumption].
  - split; [exact B1|]. split; [exact B2|]. split; [exact B3|]. split; [exact B4|].
    intros i j Hi Hj. rewrite (B5 i j Hi Hj). unfold mul_contrib. rewrite csum_flat_map.
    (* sum over the entries p of column j of B of  bx[p] * A(i, bi[p]) *)
    transitivity (suml (map (fun p => nth p (cx b) 0 * abs_csc a i (nth p (ci b) O)) (colpos b j))).
    { apply suml_map_ext. intros p _. apply csum_col_contrib. }
    transitivity (sumn (cn a) (fun k => suml (map (fun p => abs_csc a i k * (if (nth p (ci b) O =? k)%nat then nth p (cx b) 0 else 0)) (colpos b j)))).
    { rewrite sumn_suml_swap. apply suml_map_ext. intros p Hp.
      assert (Hr : (nth p (ci b) O < cn a)%nat) by (rewrite Hk; apply (Hb j p Hj Hp)).
      rewrite (sumn_single (cn a) _ (nth p (ci b) O) Hr).
      - rewrite Nat.eqb_refl. ring.
      - intros k _ Hne. destruct (Nat.eqb_spec (nth p (ci b) O) k); [congruence|]. ring. }
    apply sumn_ext. intros k _. rewrite suml_map_scal. apply Qmult_comp; [reflexivity|]. rewrite <- colsum_abs. reflexivity.
Qed.

(* C11 spec: what linear algebra defines.  A mathematical matrix is a function nat -> nat -> Q used on an
   explicit index range; every operation is given by its textbook entry formula (finite sums of C11/Sums.v). *)
From Coq Require Import List ZArith QArith Bool Arith.
From Gst Require Import lib.QAux C11.Sums.
Import ListNotations.
Local Open Scope Q_scope.

Definition mat := nat -> nat -> Q.
Definition vec := nat -> Q.

Definition meq (m n : nat) (A B : mat) : Prop := forall i j, (i < m)%nat -> (j < n)%nat -> A i j == B i j.
Definition veq (n : nat) (x y : vec) : Prop := forall i, (i < n)%nat -> x i == y i.

Definition mT (A : mat) : mat := fun i j => A j i.
Definition opT (t : bool) (A : mat) : mat := if t then mT A else A.
Definition mid : mat := fun i j => if Nat.eqb i j then 1 else 0.
Definition mzero : mat := fun _ _ => 0.

(* (A.B)_ij = sum_{l<k} A_il B_lj *)
Definition mmul (k : nat) (A B : mat) : mat := fun i j => sumn k (fun l => A i l * B l j).
(* (A.x)_i and (x.A)_j *)
Definition mvec (k : nat) (A : mat) (x : vec) : vec := fun i => sumn k (fun l => A i l * x l).
Definition vmat (k : nat) (x : vec) (A : mat) : vec := fun j => sumn k (fun l => x l * A l j).
Definition dot (k : nat) (x y : vec) : Q := sumn k (fun l => x l * y l).

Definition madd (A B : mat) : mat := fun i j => A i j + B i j.
Definition mscal (c : Q) (A : mat) : mat := fun i j => c * A i j.
Definition maddc (c : Q) (A : mat) : mat := fun i j => A i j + c.
Definition mlin2 (c1 : Q) (A1 : mat) (c2 : Q) (A2 : mat) : mat := fun i j => c1 * A1 i j + c2 * A2 i j.
Definition mlin3 (c1 : Q) (A1 : mat) (c2 : Q) (A2 : mat) (c3 : Q) (A3 : mat) : mat :=
  fun i j => c1 * A1 i j + c2 * A2 i j + c3 * A3 i j.

Definition mdiag (v : vec) : mat := fun i j => if Nat.eqb i j then v i else 0.
(* diag(v).A  and  A.diag(v) *)
Definition mrowscale (v : vec) (A : mat) : mat := fun i j => v i * A i j.
Definition mcolscale (v : vec) (A : mat) : mat := fun i j => A i j * v j.
Definition mrowdiv (v : vec) (A : mat) : mat := fun i j => A i j / v i.
Definition mcoldiv (v : vec) (A : mat) : mat := fun i j => A i j / v j.

(* congruence products: transpose=true  t(A).M.A ; transpose=false  A.M.t(A) ; n2 = inner dimension *)
Definition mcongr (t : bool) (n2 : nat) (A M : mat) : mat :=
  mmul n2 (mmul n2 (opT t A) M) (opT (negb t) A).
Definition mcongr_diag (t : bool) (n2 : nat) (A : mat) (v : vec) : mat := mcongr t n2 A (mdiag v).
Definition mcongr_id (t : bool) (n2 : nat) (A : mat) : mat := mmul n2 (opT t A) (opT (negb t) A).

(* row / column / diagonal assignment *)
Definition msetrow (r : nat) (v : vec) (A : mat) : mat := fun i j => if Nat.eqb i r then v j else A i j.
Definition msetcol (c : nat) (v : vec) (A : mat) : mat := fun i j => if Nat.eqb j c then v i else A i j.
Definition mset (r c : nat) (x : Q) (A : mat) : mat := fun i j => if Nat.eqb i r && Nat.eqb j c then x else A i j.

(* sub-sampling by index lists *)
Definition msample (rows cols : list nat) (A : mat) : mat := fun i j => A (nth i rows O) (nth j cols O).

Definition msymmetric (n : nat) (A : mat) : Prop := forall i j, (i < n)%nat -> (j < n)%nat -> A i j == A j i.
Definition mlower (n : nat) (L : mat) : Prop := forall i j, (i < n)%nat -> (j < n)%nat -> (i < j)%nat -> L i j == 0.
Definition mupper (n : nat) (U : mat) : Prop := forall i j, (i < n)%nat -> (j < n)%nat -> (j < i)%nat -> U i j == 0.

(* vectors as lists *)
Definition vl (l : list Q) : vec := fun i => nth i l 0.

(* ---- numeric vector helpers (spec side): option Q with None = NA (TEST) *)
Fixpoint osum (l : list (option Q)) : Q :=
  match l with [] => 0 | Some x :: r => x + osum r | None :: r => osum r end.
Fixpoint ocount (l : list (option Q)) : nat :=
  match l with [] => O | Some _ :: r => S (ocount r) | None :: r => ocount r end.

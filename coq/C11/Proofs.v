(* C11 proofs, part 1: dense storage, Eigen contract calls, generic element loops. *)
From Coq Require Import List ZArith QArith Qabs Bool Arith Lia Lqa Setoid Morphisms FinFun.
From Gst Require Import lib.QAux C11.Sums C11.Spec C11.Model.
Import ListNotations.
Local Open Scope Q_scope.

(* ------------------------------------------------------------------ lists *)
Lemma upd_length {A} (l : list A) k v : length (upd l k v) = length l.
Proof. revert k; induction l as [|x l IH]; intros [|k]; simpl; auto. Qed.

Lemma nth_upd_same {A} (l : list A) k v d : (k < length l)%nat -> nth k (upd l k v) d = v.
Proof. revert k; induction l as [|x l IH]; intros [|k] H; simpl in *; try lia; auto. apply IH; lia. Qed.

Lemma nth_upd_other {A} (l : list A) k k' v d : k' <> k -> nth k' (upd l k v) d = nth k' l d.
Proof.
  revert k k'; induction l as [|x l IH]; intros [|k] [|k'] H; simpl; auto; try congruence.
Qed.

Lemma nth_flat_blocks {A} (f : nat -> nat -> A) (m : nat) (d : A) : forall n s i j,
  (i < m)%nat -> (j < n)%nat ->
  nth (j * m + i) (flat_map (fun j' => map (fun i' => f i' j') (seq 0 m)) (seq s n)) d = f i (s + j)%nat.
Proof.
  induction n as [|n IH]; intros s i j Hi Hj; [lia|].
  simpl. destruct j as [|j].
  - simpl. rewrite app_nth1 by (rewrite map_length, seq_length; lia).
    rewrite (nth_indep _ d (f O s)) by (rewrite map_length, seq_length; lia).
    rewrite (map_nth (fun i' => f i' s) (seq 0 m) O i) .
    rewrite seq_nth by lia. rewrite Nat.add_0_r. reflexivity.
  - rewrite app_nth2 by (rewrite map_length, seq_length; nia).
    rewrite map_length, seq_length.
    replace (S j * m + i - m)%nat with (j * m + i)%nat by nia.
    rewrite IH by lia. f_equal. lia.
Qed.

Lemma length_flat_blocks {A} (g : nat -> list A) m : (forall j, length (g j) = m) ->
  forall l, length (flat_map g l) = (length l * m)%nat.
Proof. intros H l. induction l as [|x l IH]; simpl; auto. rewrite app_length, H, IH. lia. Qed.

(* ------------------------------------------------------------------ tab / getv *)
Lemma wfd_tab m n f : wfd (tab m n f).
Proof.
  unfold wfd, tab; simpl. rewrite (length_flat_blocks _ m).
  - rewrite seq_length. apply Nat.mul_comm.
  - intros; rewrite map_length, seq_length; reflexivity.
Qed.
Lemma nr_tab m n f : nr (tab m n f) = m. Proof. reflexivity. Qed.
Lemma nc_tab m n f : nc (tab m n f) = n. Proof. reflexivity. Qed.

Lemma getv_tab m n f i j : (i < m)%nat -> (j < n)%nat -> getv (tab m n f) i j = f i j.
Proof.
  intros Hi Hj. unfold getv, rank, tab; simpl.
  rewrite (nth_flat_blocks f m 0 n 0 i j Hi Hj). reflexivity.
Qed.

Lemma rank_inj d i j a b : (i < nr d)%nat -> (a < nr d)%nat -> rank d i j = rank d a b -> i = a /\ j = b.
Proof.
  unfold rank. intros Hi Ha E. set (n := nr d) in *.
  assert (j = b).
  { destruct (lt_eq_lt_dec j b) as [[H|H]|H]; auto; exfalso.
    - assert ((j + 1) * n <= b * n)%nat by (apply Nat.mul_le_mono_r; lia). lia.
    - assert ((b + 1) * n <= j * n)%nat by (apply Nat.mul_le_mono_r; lia). lia. }
  subst. split; lia.
Qed.
Lemma rank_lt d i j : wfd d -> (i < nr d)%nat -> (j < nc d)%nat -> (rank d i j < length (dat d))%nat.
Proof.
  unfold wfd, rank. intros W Hi Hj. rewrite W.
  assert ((j + 1) * nr d <= nc d * nr d)%nat by (apply Nat.mul_le_mono_r; lia). lia.
Qed.

Lemma wfd_setraw d i j v : wfd d -> wfd (setraw d i j v).
Proof. unfold wfd, setraw; simpl. rewrite upd_length. auto. Qed.
Lemma getv_setraw_same d i j v : wfd d -> (i < nr d)%nat -> (j < nc d)%nat -> getv (setraw d i j v) i j = v.
Proof. intros W Hi Hj. unfold getv, setraw, rank; simpl. apply nth_upd_same. apply (rank_lt d i j W Hi Hj). Qed.
Lemma getv_setraw_other d i j v a b : (i < nr d)%nat -> (a < nr d)%nat -> (a, b) <> (i, j) ->
  getv (setraw d i j v) a b = getv d a b.
Proof.
  intros Hi Ha Hne. unfold getv, setraw; simpl. unfold rank at 1; simpl. fold (rank d a b).
  apply nth_upd_other. intro E. destruct (rank_inj d a b i j Ha Hi E). subst. congruence.
Qed.

Lemma nr_setValue sym d i j v : nr (setValue sym d i j v) = nr d.
Proof. unfold setValue. destruct (sym && negb (i =? j)%nat); reflexivity. Qed.
Lemma nc_setValue sym d i j v : nc (setValue sym d i j v) = nc d.
Proof. unfold setValue. destruct (sym && negb (i =? j)%nat); reflexivity. Qed.
Lemma wfd_setValue sym d i j v : wfd d -> wfd (setValue sym d i j v).
Proof. intro W. unfold setValue. destruct (sym && negb (i =? j)%nat); repeat apply wfd_setraw; auto. Qed.

(* plain storage: exactly one entry changes *)
Lemma getv_setValue_plain d i j v a b : wfd d -> (i < nr d)%nat -> (j < nc d)%nat -> (a < nr d)%nat ->
  getv (setValue false d i j v) a b = if ((a =? i) && (b =? j))%nat then v else getv d a b.
Proof.
  intros W Hi Hj Ha. unfold setValue; simpl.
  destruct ((a =? i)%nat && (b =? j)%nat) eqn:E.
  - apply andb_true_iff in E. destruct E as [E1 E2]. apply Nat.eqb_eq in E1, E2. subst. apply getv_setraw_same; auto.
  - apply getv_setraw_other; auto. intro H. inversion H; subst. rewrite !Nat.eqb_refl in E. discriminate.
Qed.

(* symmetric storage (square): the entry and its mirror change *)
Lemma getv_setValue_sym d i j v a b : wfd d -> nr d = nc d -> (i < nr d)%nat -> (j < nr d)%nat -> (a < nr d)%nat -> (b < nr d)%nat ->
  getv (setValue true d i j v) a b =
  if (((a =? i) && (b =? j)) || ((a =? j) && (b =? i)))%nat then v else getv d a b.
Proof.
  intros W Sq Hi Hj Ha Hb. unfold setValue. simpl.
  destruct (i =? j)%nat eqn:Eij; simpl.
  - apply Nat.eqb_eq in Eij. subst j.
    destruct ((a =? i)%nat && (b =? i)%nat) eqn:E; simpl.
    + apply andb_true_iff in E. destruct E as [E1 E2]. apply Nat.eqb_eq in E1, E2. subst. apply getv_setraw_same; auto. lia.
    + apply getv_setraw_other; auto. intro H. inversion H; subst. rewrite !Nat.eqb_refl in E. discriminate.
  - assert (W1 : wfd (setraw d i j v)) by (apply wfd_setraw; auto).
    destruct ((a =? j)%nat && (b =? i)%nat) eqn:E2.
    + apply andb_true_iff in E2. destruct E2 as [E1 E2]. apply Nat.eqb_eq in E1, E2. subst.
      rewrite orb_true_r. apply getv_setraw_same; simpl; auto. lia.
    + rewrite orb_false_r. rewrite getv_setraw_other; simpl; auto.
      * destruct ((a =? i)%nat && (b =? j)%nat) eqn:E1.
        -- apply andb_true_iff in E1. destruct E1 as [E1 E3]. apply Nat.eqb_eq in E1, E3. subst. apply getv_setraw_same; auto. lia.
        -- apply getv_setraw_other; auto. intro H. inversion H; subst. rewrite !Nat.eqb_refl in E1. discriminate.
      * intro H. inversion H; subst. rewrite !Nat.eqb_refl in E2. discriminate.
Qed.

(* ------------------------------------------------------------------ position lists *)
Lemma NoDup_app_intro {A} (l1 l2 : list A) :
  NoDup l1 -> NoDup l2 -> (forall x, In x l1 -> In x l2 -> False) -> NoDup (l1 ++ l2).
Proof.
  induction l1 as [|a l1 IH]; intros H1 H2 H; simpl; auto.
  inversion H1; subst. constructor.
  - intro Hin. apply in_app_or in Hin. destruct Hin as [Hin|Hin]; [contradiction|]. apply (H a); [left; reflexivity|assumption].
  - apply IH; auto. intros x Hx1 Hx2. apply (H x); [right; assumption|assumption].
Qed.
Lemma in_rowmajor m n i j : In (i, j) (rowmajor m n) <-> (i < m)%nat /\ (j < n)%nat.
Proof.
  unfold rowmajor. rewrite in_flat_map. split.
  - intros [x [Hx H]]. apply in_map_iff in H. destruct H as [y [E Hy]]. inversion E; subst.
    apply in_seq in Hx, Hy. lia.
  - intros [Hi Hj]. exists i. split; [apply in_seq; lia|]. apply in_map_iff. exists j. split; auto. apply in_seq; lia.
Qed.
Lemma nodup_rowmajor_aux n : forall m s, NoDup (flat_map (fun i => map (fun j => (i, j)) (seq 0 n)) (seq s m)).
Proof.
  induction m as [|m IH]; intro s; simpl; [constructor|].
  apply NoDup_app_intro.
  - apply Injective_map_NoDup; [intros x y E; inversion E; auto | apply seq_NoDup].
  - apply IH.
  - intros [a b] H1 H2. apply in_map_iff in H1. destruct H1 as [y [E _]]. inversion E; subst.
    apply in_flat_map in H2. destruct H2 as [x [Hx H]]. apply in_map_iff in H. destruct H as [z [E2 _]]. inversion E2; subst.
    apply in_seq in Hx. lia.
Qed.
Lemma nodup_rowmajor m n : NoDup (rowmajor m n).
Proof. apply nodup_rowmajor_aux. Qed.

(* ------------------------------------------------------------------ generic element loop, plain storage *)
Lemma loop_set_cons sym p ps g d : loop_set sym (p :: ps) g d = loop_set sym ps g (loop_step sym g d p).
Proof. reflexivity. Qed.
Lemma loop_step_plain g d i j : loop_step false g d (i, j) = setValue false d i j (g i j (getv d i j)).
Proof. reflexivity. Qed.
Lemma loop_step_sym g d i j : loop_step true g d (i, j) =
  if (j <=? i)%nat then setValue true d i j (g i j (getv d i j)) else d.
Proof. reflexivity. Qed.

Lemma loop_set_plain g : forall ps d, wfd d -> NoDup ps ->
  (forall p, In p ps -> (fst p < nr d)%nat /\ (snd p < nc d)%nat) ->
  nr (loop_set false ps g d) = nr d /\ nc (loop_set false ps g d) = nc d /\ wfd (loop_set false ps g d) /\
  forall a b, (a < nr d)%nat -> (b < nc d)%nat ->
    (In (a, b) ps -> getv (loop_set false ps g d) a b = g a b (getv d a b)) /\
    (~ In (a, b) ps -> getv (loop_set false ps g d) a b = getv d a b).
Proof.
  induction ps as [|[i j] ps IH]; intros d W ND R.
  - simpl. repeat split; auto; intros; try contradiction; reflexivity.
  - inversion ND as [|x l Hnotin ND']; subst.
    assert (Hij : (i < nr d)%nat /\ (j < nc d)%nat) by (apply (R (i, j)); left; reflexivity).
    destruct Hij as [Hi Hj].
    rewrite loop_set_cons, loop_step_plain.
    set (d1 := setValue false d i j (g i j (getv d i j))).
    assert (W1 : wfd d1) by (apply wfd_setValue; auto).
    assert (N1 : nr d1 = nr d) by apply nr_setValue.
    assert (C1 : nc d1 = nc d) by apply nc_setValue.
    destruct (IH d1 W1 ND') as [Hnr [Hnc [Hw Hget]]].
    { intros p Hp. rewrite N1, C1. apply R. right; assumption. }
    split; [congruence|]. split; [congruence|]. split; [assumption|].
    intros a b Ha Hb.
    destruct (Hget a b) as [Hin Hout]; [lia|lia|].
    assert (G1 : getv d1 a b = if ((a =? i) && (b =? j))%nat then g i j (getv d i j) else getv d a b)
      by (apply getv_setValue_plain; auto).
    split.
    + intros [E|Hin']. 
      * inversion E; subst. rewrite Hout by assumption. rewrite G1, !Nat.eqb_refl. reflexivity.
      * rewrite Hin by assumption. rewrite G1.
        destruct ((a =? i)%nat && (b =? j)%nat) eqn:E; [|reflexivity].
        apply andb_true_iff in E. destruct E as [E1 E2]. apply Nat.eqb_eq in E1, E2. subst. contradiction.
    + intro Hn. rewrite Hout by (intro; apply Hn; right; assumption). rewrite G1.
      destruct ((a =? i)%nat && (b =? j)%nat) eqn:E; [|reflexivity].
      apply andb_true_iff in E. destruct E as [E1 E2]. apply Nat.eqb_eq in E1, E2. subst. exfalso. apply Hn. left; reflexivity.
Qed.

(* the full loop nest "for irow, for icol" over a matrix of the same dimensions rewrites every entry *)
Lemma loop_set_plain_full g d : wfd d ->
  let r := loop_set false (rowmajor (nr d) (nc d)) g d in
  nr r = nr d /\ nc r = nc d /\ wfd r /\
  forall a b, (a < nr d)%nat -> (b < nc d)%nat -> getv r a b = g a b (getv d a b).
Proof.
  intro W. destruct (loop_set_plain g (rowmajor (nr d) (nc d)) d W (nodup_rowmajor _ _)) as [H1 [H2 [H3 H4]]].
  - intros [i j] H. apply in_rowmajor in H. exact H.
  - simpl. repeat split; auto. intros a b Ha Hb. apply (H4 a b Ha Hb). apply in_rowmajor. split; assumption.
Qed.

(* ------------------------------------------------------------------ symmetric storage *)
Definition lowrep (a b : nat) : nat * nat := if (b <=? a)%nat then (a, b) else (b, a).

Lemma loop_set_sym g : forall ps d, wfd d -> nr d = nc d -> NoDup ps ->
  (forall p, In p ps -> (fst p < nr d)%nat /\ (snd p < nr d)%nat) ->
  nr (loop_set true ps g d) = nr d /\ nc (loop_set true ps g d) = nc d /\ wfd (loop_set true ps g d) /\
  forall a b, (a < nr d)%nat -> (b < nr d)%nat ->
    (In (lowrep a b) ps -> getv (loop_set true ps g d) a b = g (fst (lowrep a b)) (snd (lowrep a b)) (getv d (fst (lowrep a b)) (snd (lowrep a b)))) /\
    (~ In (lowrep a b) ps -> getv (loop_set true ps g d) a b = getv d a b).
Proof.
  induction ps as [|[i j] ps IH]; intros d W Sq ND R.
  - simpl. repeat split; auto; intros; try contradiction; reflexivity.
  - inversion ND as [|x l Hnotin ND']; subst.
    assert (Hij : (i < nr d)%nat /\ (j < nr d)%nat) by (apply (R (i, j)); left; reflexivity).
    destruct Hij as [Hi Hj].
    rewrite loop_set_cons, loop_step_sym.
    destruct (j <=? i)%nat eqn:Eji.
    + apply Nat.leb_le in Eji.
      set (d1 := setValue true d i j (g i j (getv d i j))).
      assert (W1 : wfd d1) by (apply wfd_setValue; auto).
      assert (N1 : nr d1 = nr d) by apply nr_setValue.
      assert (C1 : nc d1 = nc d) by apply nc_setValue.
      destruct (IH d1 W1) as [Hnr [Hnc [Hw Hget]]]; [congruence|assumption| |].
      { intros p Hp. rewrite N1. apply R. right; assumption. }
      split; [congruence|]. split; [congruence|]. split; [assumption|].
      intros a b Ha Hb.
      destruct (Hget a b) as [Hin Hout]; [lia|lia|].
      assert (G1 : forall a' b', (a' < nr d)%nat -> (b' < nr d)%nat -> getv d1 a' b' =
                if (((a' =? i) && (b' =? j)) || ((a' =? j) && (b' =? i)))%nat then g i j (getv d i j) else getv d a' b')
        by (intros; apply getv_setValue_sym; auto).
      (* the lower representative of (a,b) is (i,j) iff (a,b) is (i,j) or its mirror *)
      assert (Hrep : lowrep a b = (i, j) <-> (((a =? i) && (b =? j)) || ((a =? j) && (b =? i)))%nat = true).
      { unfold lowrep. destruct (b <=? a)%nat eqn:Eba.
        - apply Nat.leb_le in Eba. split.
          + intro E. inversion E; subst. rewrite !Nat.eqb_refl. reflexivity.
          + intro E. apply orb_true_iff in E. destruct E as [E|E]; apply andb_true_iff in E; destruct E as [E1 E2];
              apply Nat.eqb_eq in E1, E2; subst; [reflexivity|]. f_equal; lia.
        - apply Nat.leb_gt in Eba. split.
          + intro E. inversion E; subst. rewrite !Nat.eqb_refl. rewrite orb_true_r. reflexivity.
          + intro E. apply orb_true_iff in E. destruct E as [E|E]; apply andb_true_iff in E; destruct E as [E1 E2];
              apply Nat.eqb_eq in E1, E2; subst; [lia|reflexivity]. }
      assert (Hlow : (snd (lowrep a b) <= fst (lowrep a b))%nat /\ (fst (lowrep a b) < nr d)%nat /\ (snd (lowrep a b) < nr d)%nat).
      { unfold lowrep. destruct (b <=? a)%nat eqn:Eba; simpl; [apply Nat.leb_le in Eba|apply Nat.leb_gt in Eba]; lia. }
      destruct Hlow as [Hl1 [Hl2 Hl3]].
      split.
      * intros [E|Hin'].
        -- symmetry in E. rewrite Hout by (rewrite E; assumption).
           rewrite G1 by assumption. rewrite (proj1 Hrep E). rewrite E. reflexivity.
        -- rewrite Hin by assumption. f_equal.
           rewrite G1 by assumption.
           destruct ((((fst (lowrep a b) =? i) && (snd (lowrep a b) =? j)) || ((fst (lowrep a b) =? j) && (snd (lowrep a b) =? i)))%nat) eqn:E; [|reflexivity].
           exfalso. apply orb_true_iff in E. destruct E as [E|E]; apply andb_true_iff in E; destruct E as [E1 E2]; apply Nat.eqb_eq in E1, E2.
           ++ apply Hnotin. rewrite <- E1, <- E2. rewrite <- surjective_pairing. assumption.
           ++ assert (Hij' : j = i) by lia. apply Hnotin. rewrite Hij'. rewrite Hij' in E1.
              replace (i, i) with (fst (lowrep a b), snd (lowrep a b)) by (rewrite E1, E2; reflexivity).
              rewrite <- surjective_pairing. assumption.
      * intro Hn. rewrite Hout by (intro; apply Hn; right; assumption). rewrite G1 by assumption.
        destruct ((((a =? i) && (b =? j)) || ((a =? j) && (b =? i)))%nat) eqn:E; [|reflexivity].
        exfalso. apply Hn. left. symmetry. apply Hrep. reflexivity.
    + apply Nat.leb_gt in Eji.
      destruct (IH d W Sq ND') as [Hnr [Hnc [Hw Hget]]].
      { intros p Hp. apply R. right; assumption. }
      split; [assumption|]. split; [assumption|]. split; [assumption|].
      intros a b Ha Hb. destruct (Hget a b Ha Hb) as [Hin Hout].
      assert (Hne : lowrep a b <> (i, j)).
      { unfold lowrep. destruct (b <=? a)%nat eqn:Eba; [apply Nat.leb_le in Eba|apply Nat.leb_gt in Eba]; intro E; inversion E; subst; lia. }
      split.
      * intros [E|Hin']; [exfalso; apply Hne; symmetry; exact E|]. apply Hin; assumption.
      * intro Hn. apply Hout. intro. apply Hn. right; assumption.
Qed.

(* C11 proofs, part 3: csparse kernels (cs_triplet = compress, cs_transpose, cs_gaxpy). *)
From Coq Require Import List ZArith QArith Qabs Bool Arith Lia Lqa Setoid Morphisms.
From Gst Require Import lib.QAux C11.Sums C11.Spec C11.Model C11.Model_sparse C11.Proofs.
Import ListNotations.
Local Open Scope Q_scope.

(* ------------------------------------------------------------------ sums of naturals *)
Fixpoint nsum (n : nat) (f : nat -> nat) : nat := match n with O => O | S k => (nsum k f + f k)%nat end.
Lemma nsum_ext n f g : (forall k, (k < n)%nat -> f k = g k) -> nsum n f = nsum n g.
Proof. induction n as [|n IH]; intro H; simpl; auto. rewrite IH, (H n) by (intros; try apply H; lia). reflexivity. Qed.
Lemma nsum_add n f g : nsum n (fun k => (f k + g k)%nat) = (nsum n f + nsum n g)%nat.
Proof. induction n as [|n IH]; simpl; auto. rewrite IH. lia. Qed.
Lemma nsum_zero n f : (forall k, (k < n)%nat -> f k = O) -> nsum n f = O.
Proof. induction n as [|n IH]; intro H; simpl; auto. rewrite IH, (H n) by (intros; try apply H; lia). reflexivity. Qed.
Lemma nsum_delta n i : (i < n)%nat -> nsum n (fun k => if (i =? k)%nat then 1%nat else O) = 1%nat.
Proof.
  induction n as [|n IH]; intro H; [lia|]. simpl. destruct (Nat.eq_dec i n) as [->|Hne].
  - rewrite Nat.eqb_refl. rewrite nsum_zero; [reflexivity|].
    intros k Hk. destruct (Nat.eqb_spec n k); [lia|reflexivity].
  - rewrite IH by lia. destruct (Nat.eqb_spec i n); [contradiction|reflexivity].
Qed.
Lemma nsum_mono n n' f : (n <= n')%nat -> (nsum n f <= nsum n' f)%nat.
Proof. induction 1; simpl; lia. Qed.

(* ------------------------------------------------------------------ counting and cumulating *)
Definition cnt (l : list entry) (k : nat) : nat := length (filter (fun e => (ekey e =? k)%nat) l).
Definition tsum (l : list entry) (k o : nat) : Q :=
  suml (map (fun e => if (ekey e =? k)%nat && (eoth e =? o)%nat then evalue e else 0) l).
Definition bsum (P len : nat) (Ci : list nat) (Cx : list Q) (o : nat) : Q :=
  sumn len (fun t => if (nth (P + t) Ci O =? o)%nat then nth (P + t) Cx 0 else 0).

Lemma cnt_app l1 l2 k : cnt (l1 ++ l2) k = (cnt l1 k + cnt l2 k)%nat.
Proof. unfold cnt. rewrite filter_app, app_length. reflexivity. Qed.
Lemma cnt_cons e l k : cnt (e :: l) k = ((if (ekey e =? k)%nat then 1 else 0) + cnt l k)%nat.
Proof. unfold cnt. simpl. destruct (ekey e =? k)%nat; reflexivity. Qed.
Lemma tsum_app l1 l2 k o : tsum (l1 ++ l2) k o == tsum l1 k o + tsum l2 k o.
Proof. unfold tsum. rewrite map_app, suml_app. reflexivity. Qed.

Lemma sum_cnt nk l : (forall e, In e l -> (ekey e < nk)%nat) -> nsum nk (cnt l) = length l.
Proof.
  induction l as [|e l IH]; intro H.
  - simpl. apply nsum_zero. intros; reflexivity.
  - rewrite (nsum_ext nk _ (fun k => ((if (ekey e =? k)%nat then 1 else 0) + cnt l k)%nat)) by (intros; apply cnt_cons).
    rewrite nsum_add, nsum_delta by (apply H; left; reflexivity).
    rewrite IH by (intros; apply H; right; assumption). reflexivity.
Qed.

Lemma bump_length w k : length (bump w k) = length w.
Proof. apply upd_length. Qed.
Lemma nth_bump w k k' : (k < length w)%nat -> nth k' (bump w k) O = ((if (k =? k')%nat then 1 else 0) + nth k' w O)%nat.
Proof.
  intro H. unfold bump. destruct (Nat.eqb_spec k k') as [->|Hne].
  - rewrite nth_upd_same by assumption. lia.
  - rewrite nth_upd_other by congruence. lia.
Qed.
Lemma fold_bump nk : forall l w, length w = nk -> (forall e, In e l -> (ekey e < nk)%nat) ->
  length (fold_left bump (map ekey l) w) = nk /\
  forall k, nth k (fold_left bump (map ekey l) w) O = (nth k w O + cnt l k)%nat.
Proof.
  induction l as [|e l IH]; intros w Hw H; simpl.
  - split; [assumption|]. intro k. unfold cnt; simpl. lia.
  - destruct (IH (bump w (ekey e))) as [L G].
    + rewrite bump_length; assumption.
    + intros; apply H; right; assumption.
    + split; auto. intro k. rewrite G, nth_bump by (rewrite Hw; apply H; left; reflexivity).
      rewrite cnt_cons. lia.
Qed.

Lemma cumsum_length c : forall z, length (cumsum_from z c) = S (length c).
Proof. induction c as [|x c IH]; intro z; simpl; auto. Qed.
Lemma cumsum_nth c : forall z k, (k <= length c)%nat -> nth k (cumsum_from z c) O = (z + nsum k (fun t => nth t c O))%nat.
Proof.
  induction c as [|x c IH]; intros z k Hk; simpl in Hk.
  - assert (k = O) by lia. subst. simpl. lia.
  - destruct k as [|k]; [simpl; lia|]. simpl cumsum_from. simpl nth at 1. rewrite IH by lia.
    clear IH. revert z. induction k as [|k IHk]; intro z.
    + simpl. lia.
    + assert (Hk' : (S k <= S (length c))%nat) by lia.
      specialize (IHk Hk' z). simpl nsum in *. simpl nth in *. lia.
Qed.

(* ------------------------------------------------------------------ the scatter phase *)
Section Scatter.
Variable nk : nat.
Variable S : list entry.
Hypothesis Hkeys : forall e, In e S -> (ekey e < nk)%nat.
Definition P (k : nat) : nat := nsum k (cnt S).
Definition N : nat := length S.

Definition inv (S1 : list entry) (st : list nat * list nat * list Q) : Prop :=
  length (fst (fst st)) = nk /\ length (snd (fst st)) = N /\ length (snd st) = N /\
  (forall k, (k < nk)%nat -> nth k (fst (fst st)) O = (P k + cnt S1 k)%nat) /\
  (forall k o, (k < nk)%nat -> bsum (P k) (cnt S1 k) (snd (fst st)) (snd st) o == tsum S1 k o).

Lemma P_succ k : P (Datatypes.S k) = (P k + cnt S k)%nat. Proof. reflexivity. Qed.
Lemma P_mono k k' : (k <= k')%nat -> (P k <= P k')%nat. Proof. apply nsum_mono. Qed.
Lemma P_total : P nk = N. Proof. apply sum_cnt. exact Hkeys. Qed.

Lemma scatter_step_inv S1 e S2 st : S = S1 ++ e :: S2 -> inv S1 st -> inv (S1 ++ [e]) (scatter_step st e).
Proof.
  intros HS [Lw [Li [Lx [Hw Hb]]]].
  destruct st as [[w Ci] Cx]. simpl in *. unfold N in *.
  assert (Hk0 : (ekey e < nk)%nat) by (apply Hkeys; rewrite HS; apply in_or_app; right; left; reflexivity).
  set (k0 := ekey e) in *.
  assert (Hcnt : forall k, (cnt S1 k + (if (k0 =? k)%nat then 1 else 0) <= cnt S k)%nat).
  { intro k. rewrite HS, cnt_app, cnt_cons. fold k0. lia. }
  set (q := nth k0 w O).
  assert (Hq : q = (P k0 + cnt S1 k0)%nat) by (apply Hw; assumption).
  assert (HqN : (q < N)%nat).
  { pose proof (Hcnt k0) as H. rewrite Nat.eqb_refl in H.
    pose proof (P_mono (Datatypes.S k0) nk ltac:(lia)) as H2. rewrite P_succ, P_total in H2. lia. }
  (* positions already filled in any bucket differ from q *)
  assert (Hdis : forall k t, (k < nk)%nat -> (t < cnt S1 k)%nat -> (P k + t)%nat <> q).
  { intros k t Hk Ht. rewrite Hq. pose proof (Hcnt k) as Hc. pose proof (Hcnt k0) as Hc0. rewrite Nat.eqb_refl in Hc0.
    destruct (lt_eq_lt_dec k k0) as [[Hlt|Heq]|Hgt].
    - pose proof (P_mono (Datatypes.S k) k0 ltac:(lia)) as H2. rewrite P_succ in H2. lia.
    - subst k. lia.
    - pose proof (P_mono (Datatypes.S k0) k ltac:(lia)) as H2. rewrite P_succ in H2. lia. }
  unfold scatter_step, inv. simpl. fold k0. fold q.
  split; [rewrite bump_length; assumption|]. split; [rewrite upd_length; assumption|]. split; [rewrite upd_length; assumption|].
  split.
  - intros k Hk. rewrite nth_bump by (rewrite Lw; assumption). rewrite cnt_app, cnt_cons. fold k0. simpl cnt at 2.
    unfold cnt at 2. simpl. rewrite Hw by assumption. lia.
  - intros k o Hk. rewrite tsum_app. unfold tsum at 2. simpl. fold k0.
    rewrite cnt_app. unfold cnt at 2. simpl. fold k0.
    assert (Hold : bsum (P k) (cnt S1 k) (upd Ci q (eoth e)) (upd Cx q (evalue e)) o == tsum S1 k o).
    { rewrite <- Hb by assumption. unfold bsum. apply sumn_ext. intros t Ht.
      rewrite !nth_upd_other by (apply Hdis; assumption). reflexivity. }
    destruct (Nat.eqb_spec k0 k) as [E|E].
    + subst k. simpl length. rewrite Nat.add_1_r. unfold bsum at 1. simpl sumn. fold (bsum (P k0) (cnt S1 k0) (upd Ci q (eoth e)) (upd Cx q (evalue e)) o).
      rewrite Hold. rewrite <- Hq. rewrite !nth_upd_same by (unfold N in *; lia). simpl andb. lra.
    + simpl length. rewrite Nat.add_0_r. rewrite Hold. cbn [andb]. lra.
Qed.

Lemma scatter_inv : forall S2 S1 st, S = S1 ++ S2 -> inv S1 st -> inv S (fold_left scatter_step S2 st).
Proof.
  induction S2 as [|e S2 IH]; intros S1 st HS Hinv; simpl.
  - rewrite app_nil_r in HS. subst. assumption.
  - apply (IH (S1 ++ [e])).
    + rewrite <- app_assoc. exact HS.
    + apply (scatter_step_inv S1 e S2); assumption.
Qed.
End Scatter.

(* cs_triplet / cs_transpose skeleton: every bucket holds exactly its entries *)
Lemma bucket_spec nk S : (forall e, In e S -> (ekey e < nk)%nat) ->
  let b := bucket nk S in
  length (fst (fst b)) = Datatypes.S nk /\
  (forall k, (k <= nk)%nat -> nth k (fst (fst b)) O = P S k) /\
  forall k o, (k < nk)%nat ->
    bsum (nth k (fst (fst b)) O) (nth (Datatypes.S k) (fst (fst b)) O - nth k (fst (fst b)) O) (snd (fst b)) (snd b) o == tsum S k o.
Proof.
  intros Hkeys. unfold bucket.
  destruct (fold_bump nk S (repeat O nk)) as [Lw Gw]; [apply repeat_length|assumption|].
  set (w := fold_left bump (map ekey S) (repeat O nk)) in *.
  assert (Gw' : forall k, nth k w O = cnt S k).
  { intro k. rewrite Gw. destruct (Nat.lt_ge_cases k nk).
    - rewrite nth_repeat. reflexivity.
    - rewrite nth_overflow by (rewrite repeat_length; assumption). reflexivity. }
  assert (Hp : forall k, (k <= nk)%nat -> nth k (cs_cumsum w) O = P S k).
  { intros k Hk. unfold cs_cumsum. rewrite cumsum_nth by (rewrite Lw; assumption). simpl. unfold P.
    apply nsum_ext. intros t _. apply Gw'. }
  set (st0 := (firstn nk (cs_cumsum w), repeat O (length S), repeat 0 (length S))).
  assert (I0 : inv nk S [] st0).
  { unfold inv, st0; simpl. split.
    - unfold cs_cumsum. rewrite firstn_length, cumsum_length, Lw. lia.
    - split; [apply repeat_length|]. split; [apply repeat_length|]. split.
      + intros k Hk. unfold cnt; simpl. rewrite Nat.add_0_r. rewrite <- Hp by lia.
        rewrite <- (firstn_skipn nk (cs_cumsum w)) at 2. rewrite app_nth1; [reflexivity|].
        unfold cs_cumsum. rewrite firstn_length, cumsum_length, Lw. lia.
      + intros k o Hk. unfold cnt, tsum, bsum; simpl. reflexivity. }
  pose proof (scatter_inv nk S Hkeys S [] st0 eq_refl I0) as [_ [_ [_ [_ Hb]]]].
  simpl. split; [unfold cs_cumsum; rewrite cumsum_length, Lw; reflexivity|]. split; [exact Hp|].
  intros k o Hk. rewrite !Hp by lia. rewrite P_succ.
  replace (P S k + cnt S k - P S k)%nat with (cnt S k) by lia. apply Hb. assumption.
Qed.

(* ------------------------------------------------------------------ cs_triplet: abs (compress T) == abs_triplet T *)
Lemma tsum_triplet T j i :
  tsum (map (fun t => (tcol t, trow t, tval t)) T) j i == abs_trip T i j.
Proof.
  unfold tsum, abs_trip. rewrite map_map. apply suml_map_ext. intros t _. simpl.
  unfold ekey, eoth, evalue; simpl. rewrite andb_comm. reflexivity.
Qed.

Lemma cs_triplet_spec m n T : (forall t, In t T -> (tcol t < n)%nat) ->
  forall i j, (j < n)%nat -> abs_csc (cs_triplet_dims m n T) i j == abs_trip T i j.
Proof.
  intros H i j Hj.
  destruct (bucket_spec n (map (fun t => (tcol t, trow t, tval t)) T)) as [_ [_ Hb]].
  - intros e He. apply in_map_iff in He. destruct He as [t [<- Ht]]. simpl. apply H. assumption.
  - rewrite <- tsum_triplet. rewrite <- (Hb j i Hj). reflexivity.
Qed.

Lemma trip_n_bound T : forall t, In t T -> (tcol t < trip_n T)%nat.
Proof.
  unfold trip_n. assert (G : forall T m0 t, (In t T -> (tcol t < fold_left (fun m t => Nat.max m (S (tcol t))) T m0)%nat) /\
                                            (m0 <= fold_left (fun m t => Nat.max m (S (tcol t))) T m0)%nat).
  { induction T0 as [|a T0 IH]; intros m0 t; simpl.
    - split; [tauto|lia].
    - split.
      + intros [->|Hin].
        * destruct (IH (Nat.max m0 (S (tcol t))) t) as [_ H]. lia.
        * apply IH. assumption.
      + destruct (IH (Nat.max m0 (S (tcol a))) t) as [_ H]. lia. }
  intros t Ht. apply G. assumption.
Qed.

Lemma cs_compress_spec T : forall i j, abs_csc (cs_triplet T) i j == abs_trip T i j.
Proof.
  intros i j. destruct (Nat.lt_ge_cases j (trip_n T)) as [Hj|Hj].
  - apply cs_triplet_spec; [apply trip_n_bound|assumption].
  - (* no triplet in that column, and the column pointers beyond n are absent *)
    assert (Z : abs_trip T i j == 0).
    { unfold abs_trip. apply suml_map_zero. intros t Ht. pose proof (trip_n_bound T t Ht).
      destruct (Nat.eqb_spec (tcol t) j); [lia|]. rewrite andb_false_r. reflexivity. }
    rewrite Z. unfold abs_csc, collen, colbeg, cs_triplet, cs_triplet_dims. cbn [cp ci cx cm cn].
    set (b := bucket (trip_n T) (map (fun t => (tcol t, trow t, tval t)) T)).
    destruct (bucket_spec (trip_n T) (map (fun t => (tcol t, trow t, tval t)) T)) as [L _].
    { intros e He. apply in_map_iff in He. destruct He as [t [<- Ht]]. simpl. apply trip_n_bound. assumption. }
    fold b in L.
    assert (Z1 : nth (S j) (fst (fst b)) O = O) by (apply nth_overflow; rewrite L; lia).
    rewrite Z1. simpl. reflexivity.
Qed.

(* ------------------------------------------------------------------ the entry stream of a CSC matrix *)
Lemma suml_flat_map {A B} (f : B -> Q) (g : A -> list B) l :
  suml (map f (flat_map g l)) == suml (map (fun x => suml (map f (g x))) l).
Proof. induction l as [|x l IH]; simpl; [reflexivity|]. rewrite map_app, suml_app, IH. reflexivity. Qed.

Lemma suml_seq_shift (h : nat -> Q) : forall n s, suml (map h (seq s n)) == sumn n (fun t => h (s + t)%nat).
Proof.
  induction n as [|n IH]; intro s; [reflexivity|].
  rewrite seq_S, map_app, suml_app, IH. simpl. lra.
Qed.

Lemma sumn_suml_swap {A} (f : nat -> A -> Q) n l :
  sumn n (fun j => suml (map (f j) l)) == suml (map (fun t => sumn n (fun j => f j t)) l).
Proof.
  induction l as [|t l IH]; simpl.
  - apply sumn_zero. intros; reflexivity.
  - rewrite sumn_add, IH. reflexivity.
Qed.

Lemma stream_cols a t : In t (csc_stream a) -> (tcol t < cn a)%nat.
Proof.
  unfold csc_stream. intro H. apply in_flat_map in H. destruct H as [j [Hj H]].
  apply in_map_iff in H. destruct H as [q [<- _]]. unfold tcol; simpl. apply in_seq in Hj. lia.
Qed.

Lemma stream_abs a i j : (j < cn a)%nat ->
  suml (map (fun t => if (trow t =? i)%nat && (tcol t =? j)%nat then tval t else 0) (csc_stream a)) == abs_csc a i j.
Proof.
  intro Hj. unfold csc_stream. rewrite suml_flat_map. rewrite <- sumn_suml_seq.
  rewrite (sumn_single (cn a) _ j Hj).
  - rewrite map_map. unfold colpos. simpl. rewrite suml_seq_shift. unfold abs_csc. apply sumn_ext. intros k _.
    unfold trow, tcol, tval; simpl. rewrite Nat.eqb_refl, andb_true_r. reflexivity.
  - intros j' _ Hne. rewrite map_map. apply suml_map_zero. intros q _. unfold trow, tcol, tval; simpl.
    destruct (Nat.eqb_spec j' j); [contradiction|]. rewrite andb_false_r. reflexivity.
Qed.

Definition rows_ok (a : csc) : Prop := forall t, In t (csc_stream a) -> (trow t < cm a)%nat.

(* cs_transpose: C = A' *)
Lemma cs_transpose_spec a : rows_ok a -> (0 < cm a)%nat -> (0 < cn a)%nat ->
  exists c, cs_transpose a true = Some c /\ cm c = cn a /\ cn c = cm a /\
    forall i j, (i < cm a)%nat -> (j < cn a)%nat -> abs_csc c j i == abs_csc a i j.
Proof.
  intros Hr Hm Hn. unfold cs_transpose.
  destruct (cm a =? 0)%nat eqn:E1; [apply Nat.eqb_eq in E1; lia|].
  destruct (cn a =? 0)%nat eqn:E2; [apply Nat.eqb_eq in E2; lia|]. simpl orb. cbv iota.
  eexists. split; [reflexivity|]. split; [reflexivity|]. split; [reflexivity|].
  intros i j Hi Hj.
  destruct (bucket_spec (cm a) (map (fun t => (trow t, tcol t, tval t)) (csc_stream a))) as [_ [_ Hb]].
  - intros e He. apply in_map_iff in He. destruct He as [t [<- Ht]]. unfold ekey. cbn [fst snd]. apply Hr. exact Ht.
  - rewrite <- (stream_abs a i j Hj).
    transitivity (tsum (map (fun t => (trow t, tcol t, tval t)) (csc_stream a)) i j).
    + rewrite <- (Hb i j Hi). reflexivity.
    + unfold tsum. rewrite map_map. apply suml_map_ext. intros t _. reflexivity.
Qed.

(* cs_gaxpy: y + A x *)
Lemma gaxpy_fold x : forall L y, (forall t, In t L -> (trow t < length y)%nat /\ (tcol t < length x)%nat) ->
  exists y', fold_left (fun ry t => rbind ry (fun y0 =>
               if (tcol t <? length x)%nat then addat y0 (trow t) (tval t * nth (tcol t) x 0) else UB ub_heap)) L (Ok y) = Ok y' /\
    length y' = length y /\
    forall i, nth i y' 0 == nth i y 0 + suml (map (fun t => if (trow t =? i)%nat then tval t * nth (tcol t) x 0 else 0) L).
Proof.
  induction L as [|t L IH]; intros y H.
  - exists y. simpl. repeat split; auto. intro i. lra.
  - destruct (H t (or_introl eq_refl)) as [Hr Hc].
    simpl fold_left. simpl rbind. rewrite (proj2 (Nat.ltb_lt _ _) Hc). unfold addat. rewrite (proj2 (Nat.ltb_lt _ _) Hr).
    set (y1 := upd y (trow t) (nth (trow t) y 0 + tval t * nth (tcol t) x 0)).
    destruct (IH y1) as [y' [E [Ly G]]].
    + intros t' Ht'. unfold y1. rewrite upd_length. apply H. right; assumption.
    + exists y'. split; [exact E|]. split; [unfold y1 in Ly; rewrite upd_length in Ly; exact Ly|].
      intro i. rewrite G. simpl. unfold y1.
      destruct (Nat.eqb_spec (trow t) i) as [Heq|Hne].
      * rewrite <- Heq. rewrite nth_upd_same by assumption. lra.
      * rewrite nth_upd_other by congruence. lra.
Qed.

Lemma cs_gaxpy_spec a x y : rows_ok a -> length x = cn a -> length y = cm a ->
  exists y', cs_gaxpy a x y = Ok y' /\ length y' = cm a /\
    forall i, (i < cm a)%nat -> nth i y' 0 == nth i y 0 + sumn (cn a) (fun j => abs_csc a i j * nth j x 0).
Proof.
  intros Hr Hx Hy. unfold cs_gaxpy.
  destruct (gaxpy_fold x (csc_stream a) y) as [y' [E [L G]]].
  - intros t Ht. split; [rewrite Hy; apply Hr; assumption | rewrite Hx; apply stream_cols; assumption].
  - exists y'. split; [exact E|]. split; [congruence|].
    intros i Hi. rewrite G. apply Qplus_inj_l.
    transitivity (sumn (cn a) (fun j => suml (map (fun t => (if (trow t =? i)%nat && (tcol t =? j)%nat then tval t else 0) * nth j x 0) (csc_stream a)))).
    + rewrite sumn_suml_swap. apply suml_map_ext. intros t Ht.
      pose proof (stream_cols a t Ht) as Hc.
      rewrite (sumn_single (cn a) _ (tcol t) Hc).
      * rewrite Nat.eqb_refl, andb_true_r. destruct (trow t =? i)%nat; ring.
      * intros k _ Hk. destruct (Nat.eqb_spec (tcol t) k); [congruence|]. rewrite andb_false_r. ring.
    + apply sumn_ext. intros j Hj. rewrite <- (stream_abs a i j Hj).
      set (F := fun t : trip => if (trow t =? i)%nat && (tcol t =? j)%nat then tval t else 0).
      transitivity (nth j x 0 * suml (map F (csc_stream a))); [|ring].
      rewrite <- suml_map_scal. apply suml_map_ext. intros t _. unfold F. ring.
Qed.

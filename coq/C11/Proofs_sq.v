(* C11 proofs, part 9: VectorHelper kernels, square-matrix helpers. *)
From Coq Require Import List ZArith QArith Qabs Bool Arith Lia Lqa Setoid Morphisms.
From Gst Require Import lib.QAux C11.Sums C11.Spec C11.Model C11.Model_vec C11.Proofs C11.Proofs_ops C11.Proofs_sparse C11.Proofs_vec.
Import ListNotations.
Local Open Scope Q_scope.

(* ------------------------------------------------------------------ VectorHelper arithmetic kernels *)
Lemma combine_nth_op (f : Q -> Q -> Q) (a b : list Q) i : length a = length b -> (i < length a)%nat ->
  nth i (map (fun p => f (fst p) (snd p)) (combine a b)) 0 = f (nth i a 0) (nth i b 0).
Proof.
  revert b i. induction a as [|x a IH]; intros [|y b] [|i] H Hi; simpl in *; try discriminate; try lia; auto.
  apply IH; lia.
Qed.
Lemma VH_add_spec a b :
  (length a = length b -> length (VH_add a b) = length a /\ forall i, (i < length a)%nat -> nth i (VH_add a b) 0 = nth i a 0 + nth i b 0) /\
  (length a <> length b -> VH_add a b = a).
Proof.
  unfold VH_add. split; intro H.
  - rewrite H, Nat.eqb_refl. split.
    + rewrite map_length, combine_length, H. apply Nat.min_id.
    + intros i Hi. rewrite <- H in Hi. apply (combine_nth_op Qplus a b i H Hi).
  - destruct (Nat.eqb_spec (length a) (length b)); [contradiction|reflexivity].
Qed.
Lemma VH_subtract_spec a b :
  (length a = length b -> exists r, VH_subtract a b = Ok r /\ length r = length a /\ forall i, (i < length a)%nat -> nth i r 0 = nth i b 0 - nth i a 0) /\
  (length a <> length b -> VH_subtract a b = Exn).
Proof.
  unfold VH_subtract. split; intro H.
  - rewrite H, Nat.eqb_refl. eexists. split; [reflexivity|]. split.
    + rewrite map_length, combine_length, H. apply Nat.min_id.
    + intros i Hi. rewrite <- H in Hi. apply (combine_nth_op (fun x y => y - x) a b i H Hi).
  - destruct (Nat.eqb_spec (length a) (length b)); [contradiction|reflexivity].
Qed.
Lemma VH_multiply_spec a b :
  (length a = length b -> exists r, VH_multiplyInPlace a b = Ok r /\ length r = length a /\ forall i, (i < length a)%nat -> nth i r 0 = nth i a 0 * nth i b 0) /\
  (length a <> length b -> VH_multiplyInPlace a b = Exn).
Proof.
  unfold VH_multiplyInPlace. split; intro H.
  - rewrite H, Nat.eqb_refl. eexists. split; [reflexivity|]. split.
    + rewrite map_length, combine_length, H. apply Nat.min_id.
    + intros i Hi. rewrite <- H in Hi. apply (combine_nth_op Qmult a b i H Hi).
  - destruct (Nat.eqb_spec (length a) (length b)); [contradiction|reflexivity].
Qed.
Lemma VH_innerProduct_spec a b :
  (length a = length b -> exists r, VH_innerProduct a b = Ok r /\ r == dot (length a) (vl a) (vl b)) /\
  ((length b < length a)%nat -> VH_innerProduct a b = Exn).
Proof.
  unfold VH_innerProduct. split; intro H.
  - rewrite H. rewrite Nat.ltb_irrefl. eexists. split; [reflexivity|]. rewrite <- H.
    destruct (innerProduct_spec a b H) as [_ E]. exact E.
  - rewrite (proj2 (Nat.ltb_lt _ _) H). reflexivity.
Qed.
(* the unchecked span kernel: defined exactly when dest is at least as long as src *)
Lemma VH_addInPlace_span_spec src dest :
  ((length src <= length dest)%nat -> exists r, VH_addInPlace_span src dest = Ok r /\ length r = length dest /\
      forall i, (i < length dest)%nat -> nth i r 0 = if (i <? length src)%nat then nth i dest 0 + nth i src 0 else nth i dest 0) /\
  ((length dest < length src)%nat -> exists c, VH_addInPlace_span src dest = UB c).
Proof.
  unfold VH_addInPlace_span. split; intro H.
  - rewrite (proj2 (Nat.leb_le _ _) H). eexists. split; [reflexivity|].
    assert (Lf : length (firstn (length src) dest) = length src) by (rewrite firstn_length; lia).
    assert (Lm : length (map (fun p => fst p + snd p) (combine (firstn (length src) dest) src)) = length src)
      by (rewrite map_length, combine_length, Lf; apply Nat.min_id).
    split.
    + rewrite app_length, Lm, skipn_length. lia.
    + intros i Hi. destruct (Nat.ltb_spec i (length src)) as [Hlt|Hge].
      * rewrite app_nth1 by (rewrite Lm; assumption).
        rewrite (combine_nth_op Qplus _ src i Lf) by (rewrite Lf; assumption).
        rewrite <- (firstn_skipn (length src) dest) at 2. rewrite app_nth1 by (rewrite Lf; assumption). reflexivity.
      * rewrite app_nth2 by (rewrite Lm; assumption). rewrite Lm.
        rewrite <- (firstn_skipn (length src) dest) at 2. rewrite app_nth2 by (rewrite Lf; assumption). rewrite Lf. reflexivity.
  - destruct (Nat.leb_spec (length src) (length dest)); [lia|]. eexists. reflexivity.
Qed.

(* ------------------------------------------------------------------ square-matrix helpers *)
Lemma fold_sum_acc {A} (h : A -> Q) l : forall a, fold_left (fun s x => s + h x) l a == a + suml (map h l).
Proof. induction l as [|x l IH]; intro a; simpl; [lra|]. rewrite IH. lra. Qed.

Lemma SQ_trace_spec d : SQ_trace d == sumn (nr d) (fun i => getv d i i).
Proof. unfold SQ_trace. rewrite fold_sum_acc, <- sumn_suml_seq. lra. Qed.

Lemma suml_rowmajor m n (F : nat -> nat -> Q) :
  suml (map (fun p => F (fst p) (snd p)) (rowmajor m n)) == sumn m (fun i => sumn n (fun j => F i j)).
Proof.
  unfold rowmajor. rewrite suml_flat_map, <- sumn_suml_seq. apply sumn_ext. intros i _.
  rewrite map_map. simpl. rewrite <- sumn_suml_seq. reflexivity.
Qed.
(* normVec = t(v).A.v when the sizes match, TEST otherwise *)
Lemma SQ_normVec_spec d v :
  (nr d = nc d -> length v = nr d -> exists r, SQ_normVec d v = Some r /\ r == dot (nr d) (vl v) (mvec (nr d) (absd d) (vl v))) /\
  (length v <> nr d -> SQ_normVec d v = None).
Proof.
  unfold SQ_normVec. split.
  - intros Sq Hv. rewrite Hv, Nat.eqb_refl. simpl. eexists. split; [reflexivity|].
    rewrite fold_sum_acc, (suml_rowmajor (nr d) (nc d) (fun i j => nth i v 0 * getv d i j * nth j v 0)). rewrite Qplus_0_l.
    unfold dot, mvec, vl, absd. rewrite <- Sq. apply sumn_ext. intros i _. rewrite <- sumn_scal_l. apply sumn_ext. intros j _. ring.
  - intro H. destruct (Nat.eqb_spec (nr d) (length v)); [congruence|reflexivity].
Qed.

(* prodByDiagInPlace on a plain square matrix: A.diag(c) (mode 0) and A.diag(1/c) (mode 2) *)
Lemma SQ_prodByDiag_spec d mode c : wfd d -> nr d = nc d -> length c = nr d ->
  exists r, SQ_prodByDiag false d mode c = Ok r /\ nr r = nr d /\ nc r = nc d /\
    meq (nr d) (nc d) (absd r) (match mode with O => mcolscale (vl c) (absd d) | _ => mcoldiv (vl c) (absd d) end).
Proof.
  intros W Sq Hc. unfold SQ_prodByDiag. rewrite Hc, Nat.leb_refl. simpl negb. cbv iota.
  set (g := fun (i j : nat) (old : Q) => old * (match mode with O => nth j c 0 | _ => 1 / nth j c 0 end)).
  replace (rowmajor (nr d) (nr d)) with (rowmajor (nr d) (nc d)) by (rewrite <- Sq; reflexivity).
  destruct (loop_set_plain_full g d W) as [H1 [H2 [H3 H4]]].
  exists (loop_set false (rowmajor (nr d) (nc d)) g d). split; [reflexivity|]. split; [assumption|]. split; [assumption|].
  intros i j Hi Hj. unfold absd at 1. rewrite H4 by assumption. unfold g. destruct mode; unfold mcolscale, mcoldiv, vl, absd, Qdiv; ring.
Qed.

(* C11 proofs, part 5: remaining generic fallbacks, symmetric storage, sparse wrappers, refutation witnesses. *)
From Coq Require Import List ZArith QArith Qabs Bool Arith Lia Lqa Setoid Morphisms.
From Gst Require Import lib.QAux C11.Sums C11.Spec C11.Model C11.Model_sparse C11.Model_vec C11.Proofs C11.Proofs_ops C11.Proofs_sparse.
Import ListNotations.
Local Open Scope Q_scope.

(* ------------------------------------------------------------------ AMatrix::prodMatMatInPlace (generic) *)
Lemma prodMatMat_generic d x y tx ty : wfd d -> dimc tx x = dimr ty y -> nr d = dimr tx x -> nc d = dimc ty y ->
  exists r, G_prodMatMat false d x y tx ty = Ok r /\ nr r = nr d /\ nc r = nc d /\
    meq (nr d) (nc d) (absd r) (mmul (dimc tx x) (opT tx (absd x)) (opT ty (absd y))).
Proof.
  intros W Hk Hr Hc. unfold G_prodMatMat.
  assert (E1 : (if ty then nc y else nr y) = dimc tx x) by (destruct ty; simpl in *; congruence).
  assert (E2 : (if ty then nr y else nc y) = nc d) by (destruct ty; simpl in *; congruence).
  assert (E3 : (if tx then nc x else nr x) = nr d) by (destruct tx; simpl in *; congruence).
  assert (E4 : (if tx then nr x else nc x) = dimc tx x) by (destruct tx; reflexivity).
  rewrite E1, E2, E3, E4. rewrite Nat.eqb_refl. simpl negb. cbv iota.
  unfold covers. rewrite !Nat.leb_refl. simpl. rewrite !andb_false_r.
  destruct (loop_set_plain_full (fun i j _ => sumn (dimc tx x) (fun k => (if tx then getv x k i else getv x i k) * (if ty then getv y j k else getv y k j))) d W)
    as [H1 [H2 [H3 H4]]].
  eexists. split; [reflexivity|]. split; [assumption|]. split; [assumption|].
  intros i j Hi Hj. unfold absd at 1. rewrite H4 by assumption. unfold mmul. apply sumn_ext. intros k _.
  destruct tx, ty; reflexivity.
Qed.

(* ------------------------------------------------------------------ AMatrix::prodNormMatMatInPlace (generic) *)
Lemma prodNormMatMat_generic d a m t : wfd d -> nr m = dimc t a -> nc m = dimc t a -> nr d = dimr t a -> nc d = dimr t a ->
  exists r, G_prodNormMatMat false d a m t = Ok r /\ nr r = nr d /\ nc r = nc d /\
    meq (nr d) (nc d) (absd r) (mcongr t (dimc t a) (absd a) (absd m)).
Proof.
  intros W Hm1 Hm2 Hd1 Hd2. unfold G_prodNormMatMat.
  assert (Sq : nr d = nc d) by congruence.
  assert (E1 : (if t then nc a else nr a) = nr d) by (destruct t; simpl in *; congruence).
  assert (E2 : (if t then nr a else nc a) = nr m) by (destruct t; simpl in *; congruence).
  rewrite E1, E2.
  assert (C1 : covers d (nr d) (nr d) = true) by (unfold covers; rewrite <- Sq, Nat.leb_refl; reflexivity).
  assert (C2 : covers m (nr m) (nr m) = true) by (unfold covers; replace (nc m) with (nr m) by congruence; rewrite Nat.leb_refl; reflexivity).
  rewrite C1, C2. simpl. rewrite ?andb_false_r. simpl. rewrite ?andb_false_r.
  replace (rowmajor (nr d) (nr d)) with (rowmajor (nr d) (nc d)) by (rewrite <- Sq; reflexivity).
  destruct (loop_set_plain_full (fun i j _ => sumn (nr m) (fun k => sumn (nr m) (fun l =>
             (if t then getv a k i else getv a i k) * getv m k l * (if t then getv a l j else getv a j l)))) d W)
    as [H1 [H2 [H3 H4]]].
  eexists. split; [reflexivity|]. split; [assumption|]. split; [assumption|].
  intros i j Hi Hj. unfold absd at 1. rewrite H4 by assumption. rewrite mcongr_entry. rewrite <- Hm1. reflexivity.
Qed.

(* symmetric storage: only the lower triangle is computed and mirrored; right when M is symmetric *)
Lemma in_rowmajor_lowrep n a b : (a < n)%nat -> (b < n)%nat -> In (lowrep a b) (rowmajor n n).
Proof. intros Ha Hb. unfold lowrep. destruct (b <=? a)%nat; apply in_rowmajor; split; assumption. Qed.

Lemma prodNormMatMat_generic_sym d a m t : wfd d -> nr m = dimc t a -> nc m = dimc t a -> nr d = dimr t a -> nc d = dimr t a ->
  msymmetric (dimc t a) (absd m) ->
  exists r, G_prodNormMatMat true d a m t = Ok r /\ nr r = nr d /\ nc r = nc d /\
    meq (nr d) (nc d) (absd r) (mcongr t (dimc t a) (absd a) (absd m)) /\ msymmetric (nr d) (absd r).
Proof.
  intros W Hm1 Hm2 Hd1 Hd2 HS. unfold G_prodNormMatMat.
  assert (Sq : nr d = nc d) by congruence.
  assert (E1 : (if t then nc a else nr a) = nr d) by (destruct t; simpl in *; congruence).
  assert (E2 : (if t then nr a else nc a) = dimc t a) by (destruct t; reflexivity).
  rewrite E1, E2.
  assert (C1 : covers d (nr d) (nr d) = true) by (unfold covers; rewrite <- Sq, Nat.leb_refl; reflexivity).
  assert (C2 : covers m (dimc t a) (dimc t a) = true) by (unfold covers; rewrite Hm1, Hm2, Nat.leb_refl; reflexivity).
  rewrite C1, C2. simpl. rewrite ?andb_false_r. simpl. rewrite ?andb_false_r.
  set (g := fun i j (_ : Q) => sumn (dimc t a) (fun k => sumn (dimc t a) (fun l =>
             (if t then getv a k i else getv a i k) * getv m k l * (if t then getv a l j else getv a j l)))).
  destruct (loop_set_sym g (rowmajor (nr d) (nr d)) d W Sq (nodup_rowmajor _ _)) as [H1 [H2 [H3 H4]]].
  { intros [i j] H. apply in_rowmajor in H. exact H. }
  assert (G : forall i j, (i < nr d)%nat -> (j < nr d)%nat ->
              getv (loop_set true (rowmajor (nr d) (nr d)) g d) i j == mcongr t (dimc t a) (absd a) (absd m) i j).
  { intros i j Hi Hj. destruct (H4 i j Hi Hj) as [Hin _]. rewrite (Hin (in_rowmajor_lowrep _ _ _ Hi Hj)).
    unfold lowrep. destruct (j <=? i)%nat; simpl fst; simpl snd; unfold g.
    - rewrite mcongr_entry. reflexivity.
    - rewrite (mcongr_symmetric t (dimc t a) (absd a) (absd m) HS i j). rewrite mcongr_entry. reflexivity. }
  eexists. split; [reflexivity|]. split; [assumption|]. split; [assumption|]. split.
  - intros i j Hi Hj. unfold absd at 1. apply G; [assumption|]. rewrite Sq. assumption.
  - intros i j Hi Hj. unfold absd. rewrite !G by assumption. apply mcongr_symmetric. exact HS.
Qed.

(* AMatrix::linearCombination on the symmetric class with symmetric operands *)
Definition osym (n : nat) (m : option dense) : Prop := match m with Some a => msymmetric n (absd a) | None => True end.
Lemma lc_term_sym n c m i j : osym n m -> (i < n)%nat -> (j < n)%nat -> lc_term c m i j == lc_term c m j i.
Proof. destruct m as [a|]; simpl; intros H Hi Hj; [rewrite (H i j Hi Hj); reflexivity|reflexivity]. Qed.
Lemma linearCombination_generic_sym d c1 m1 c2 m2 c3 m3 : wfd d -> nr d = nc d ->
  lc_ok d m1 = true -> lc_ok d m2 = true -> lc_ok d m3 = true ->
  osym (nr d) m1 -> osym (nr d) m2 -> osym (nr d) m3 ->
  exists r, G_linearCombination true d c1 m1 c2 m2 c3 m3 = Ok r /\ nr r = nr d /\ nc r = nc d /\
    meq (nr d) (nc d) (absd r) (mlin3 c1 (omat m1) c2 (omat m2) c3 (omat m3)).
Proof.
  intros W Sq H1 H2 H3 S1 S2 S3. unfold G_linearCombination. rewrite H1, H2, H3. simpl negb. cbv iota.
  set (g := fun i j (_ : Q) => 0 + lc_term c1 m1 i j + lc_term c2 m2 i j + lc_term c3 m3 i j).
  replace (rowmajor (nr d) (nc d)) with (rowmajor (nr d) (nr d)) by (rewrite <- Sq; reflexivity).
  destruct (loop_set_sym g (rowmajor (nr d) (nr d)) d W Sq (nodup_rowmajor _ _)) as [E1 [E2 [E3 E4]]].
  { intros [i j] H. apply in_rowmajor in H. exact H. }
  eexists. split; [reflexivity|]. split; [assumption|]. split; [assumption|].
  intros i j Hi Hj. rewrite <- Sq in Hj. unfold absd at 1. destruct (E4 i j Hi Hj) as [Hin _].
  rewrite (Hin (in_rowmajor_lowrep _ _ _ Hi Hj)). unfold lowrep, g, mlin3.
  destruct (j <=? i)%nat; simpl fst; simpl snd.
  - rewrite !lc_term_spec. ring.
  - rewrite (lc_term_sym (nr d) c1 m1 j i S1 Hj Hi), (lc_term_sym (nr d) c2 m2 j i S2 Hj Hi), (lc_term_sym (nr d) c3 m3 j i S3 Hj Hi).
    rewrite !lc_term_spec. ring.
Qed.

(* ------------------------------------------------------------------ AMatrix::prodNormMatVecInPlace (generic) *)
Lemma prodNormMatVec_generic d a v t : wfd d -> nr d = dimr t a -> nc d = dimr t a ->
  exists r, G_prodNormMatVec false d a v t = Ok r /\ nr r = nr d /\ nc r = nc d /\
    meq (nr d) (nc d) (absd r)
        (match v with [] => mcongr_id t (dimc t a) (absd a) | _ => mcongr_diag t (dimc t a) (absd a) (vl v) end).
Proof.
  intros W Hd1 Hd2. unfold G_prodNormMatVec.
  assert (Sq : nr d = nc d) by congruence.
  assert (E1 : (if t then nc a else nr a) = nr d) by (destruct t; simpl in *; congruence).
  assert (E2 : (if t then nr a else nc a) = dimc t a) by (destruct t; reflexivity).
  rewrite E1, E2.
  assert (C1 : covers d (nr d) (nr d) = true) by (unfold covers; rewrite <- Sq, Nat.leb_refl; reflexivity).
  rewrite C1. simpl. rewrite ?andb_false_r.
  replace (rowmajor (nr d) (nr d)) with (rowmajor (nr d) (nc d)) by (rewrite <- Sq; reflexivity).
  destruct (loop_set_plain_full (fun i j _ => sumn (dimc t a) (fun k =>
             (if t then getv a k i else getv a i k) * (match v with [] => 1 | _ => nth k v 0 end) *
             (if t then getv a k j else getv a j k))) d W) as [H1 [H2 [H3 H4]]].
  eexists. split; [reflexivity|]. split; [assumption|]. split; [assumption|].
  intros i j Hi Hj. unfold absd at 1. rewrite H4 by assumption.
  destruct v as [|v0 v'].
  - unfold mcongr_id, mmul. apply sumn_ext. intros k _. destruct t; cbn [opT negb]; unfold mT, absd; ring.
  - unfold mcongr_diag, mcongr. set (v := v0 :: v').
    transitivity (mmul (dimc t a) (fun i' l => opT t (absd a) i' l * vl v l) (opT (negb t) (absd a)) i j).
    + unfold mmul. apply sumn_ext. intros k _. destruct t; cbn [opT negb]; unfold mT, absd, vl, v; ring.
    + apply mmul_ext; [|intros; reflexivity]. intros l Hl. rewrite mmul_mdiag by assumption. reflexivity.
Qed.

(* AMatrix::setDiagonal (generic): the matrix becomes diag(tab) *)
Lemma setDiagonal_generic sq d t : wfd d -> isSquare sq d = true -> nr d = nc d -> length t = nc d ->
  exists r, G_setDiagonal sq false d t = Ok r /\ nr r = nr d /\ nc r = nc d /\ meq (nr d) (nc d) (absd r) (mdiag (vl t)).
Proof.
  intros W HS Sq Ht. unfold G_setDiagonal. rewrite HS, Ht, Nat.eqb_refl. simpl negb. cbv iota.
  destruct (loop_set_plain_full (fun i j _ => if (i =? j)%nat then nth i t 0 else 0) d W) as [H1 [H2 [H3 H4]]].
  eexists. split; [reflexivity|]. split; [assumption|]. split; [assumption|].
  intros i j Hi Hj. unfold absd at 1. rewrite H4 by assumption. reflexivity.
Qed.

(* ------------------------------------------------------------------ row / column assignment *)
Lemma setRow_dense d i t : (i < nr d)%nat -> length t = nc d ->
  exists r, D_setRow d i t = Ok r /\ nr r = nr d /\ nc r = nc d /\ meq (nr d) (nc d) (absd r) (msetrow i (vl t) (absd d)).
Proof.
  intros Hi Ht. unfold D_setRow, e_map. rewrite <- Ht, Nat.leb_refl, firstn_all. simpl rbind.
  rewrite (proj2 (Nat.ltb_lt _ _) Hi). eexists. split; [reflexivity|]. split; [reflexivity|]. split; [reflexivity|].
  intros a b Ha Hb. unfold absd at 1. rewrite getv_tab by (simpl; lia). reflexivity.
Qed.
Lemma setColumn_dense d j t : (j < nc d)%nat -> length t = nr d ->
  exists r, D_setColumn d j t = Ok r /\ nr r = nr d /\ nc r = nc d /\ meq (nr d) (nc d) (absd r) (msetcol j (vl t) (absd d)).
Proof.
  intros Hj Ht. unfold D_setColumn, e_map. rewrite <- Ht, Nat.leb_refl, firstn_all. simpl rbind.
  rewrite (proj2 (Nat.ltb_lt _ _) Hj). eexists. split; [reflexivity|]. split; [reflexivity|]. split; [reflexivity|].
  intros a b Ha Hb. unfold absd at 1. rewrite getv_tab by (simpl; lia). reflexivity.
Qed.
Lemma getRow_dense d i : (i < nr d)%nat -> (0 < nc d)%nat ->
  exists r, D_getRow d i = Ok r /\ length r = nc d /\ forall j, (j < nc d)%nat -> nth j r 0 = absd d i j.
Proof.
  intros Hi Hc. unfold D_getRow. destruct (nc d =? 0)%nat eqn:E; [apply Nat.eqb_eq in E; lia|].
  rewrite (proj2 (Nat.ltb_lt _ _) Hi). eexists. split; [reflexivity|]. split; [rewrite map_length, seq_length; reflexivity|].
  intros j Hj. rewrite nth_map_seq by assumption. reflexivity.
Qed.
Lemma getColumn_dense d j : (j < nc d)%nat -> (0 < nr d)%nat ->
  exists r, D_getColumn d j = Ok r /\ length r = nr d /\ forall i, (i < nr d)%nat -> nth i r 0 = absd d i j.
Proof.
  intros Hj Hr. unfold D_getColumn. destruct (nr d =? 0)%nat eqn:E; [apply Nat.eqb_eq in E; lia|].
  rewrite (proj2 (Nat.ltb_lt _ _) Hj). eexists. split; [reflexivity|]. split; [rewrite map_length, seq_length; reflexivity|].
  intros i Hi. rewrite nth_map_seq by assumption. reflexivity.
Qed.

(* ------------------------------------------------------------------ storage agreement of the two sparse back-ends *)
(* both back-ends receive the same completed triplet list; Eigen's content equals the compressed csparse matrix (before
   cs_dupl merges the duplicates, which does not change the accumulated content: see cs_dupl_spec) *)
Lemma storage_agree_triplet T nrow ncol i j :
  (i < nr (sem (SE_create T nrow ncol)))%nat -> (j < nc (sem (SE_create T nrow ncol)))%nat ->
  getv (sem (SE_create T nrow ncol)) i j == abs_csc (cs_triplet (create_trips T nrow ncol)) i j.
Proof.
  intros Hi Hj. unfold SE_create in *. simpl in *. rewrite getv_tab by assumption.
  rewrite cs_compress_spec. reflexivity.
Qed.

(* MatrixSparse::transposeInPlace / transpose, csparse back-end: values kept, dimensions swapped *)
Lemma transpose_cs s : rows_ok (scs s) -> (0 < cm (scs s))%nat -> (0 < cn (scs s))%nat ->
  exists s', SC_transposeInPlace s = Ok s' /\ snr s' = snc s /\ snc s' = snr s /\
    cm (scs s') = cn (scs s) /\ cn (scs s') = cm (scs s) /\
    forall i j, (i < cm (scs s))%nat -> (j < cn (scs s))%nat -> abs_csc (scs s') j i == abs_csc (scs s) i j.
Proof.
  intros Hr Hm Hn. destruct (cs_transpose_spec (scs s) Hr Hm Hn) as [c [E [C1 [C2 G]]]].
  unfold SC_transposeInPlace. rewrite E. eexists. split; [reflexivity|]. simpl. auto.
Qed.
(* Eigen back-end *)
Lemma transpose_eigen s :
  exists s', SE_transposeInPlace s = Ok s' /\ enr s' = enc s /\ enc s' = enr s /\
    nr (sem s') = nc (sem s) /\ nc (sem s') = nr (sem s) /\
    forall i j, (i < nr (sem s))%nat -> (j < nc (sem s))%nat -> getv (sem s') j i = getv (sem s) i j.
Proof.
  eexists. split; [reflexivity|]. simpl. repeat split; auto.
  intros i j Hi Hj. rewrite getv_tab by assumption. reflexivity.
Qed.

(* ------------------------------------------------------------------ VectorNumT::maximum / divide *)
Lemma fold_max_spec v : forall m,
  let r := fold_left (fun m x => if qltb m x then x else m) v m in
  m <= r /\ (forall x, In x v -> x <= r) /\ (r = m \/ In r v).
Proof.
  induction v as [|a v IH]; intro m; simpl.
  - split; [lra|]. split; [tauto|auto].
  - destruct (qltb_spec m a) as [H|H].
    + destruct (IH a) as [H1 [H2 H3]]. split; [lra|]. split.
      * intros x [<-|Hx]; [assumption|apply H2; assumption].
      * destruct H3 as [->|H3]; right; [left; reflexivity|right; assumption].
    + destruct (IH m) as [H1 [H2 H3]]. split; [assumption|]. split.
      * intros x [<-|Hx]; [lra|apply H2; assumption].
      * destruct H3 as [->|H3]; [left; reflexivity|right; right; assumption].
Qed.
Lemma VN_maximum_spec v : v <> [] -> (forall x, In x v -> - dbl_max <= x) ->
  (forall x, In x v -> x <= VN_maximum v) /\ exists x, In x v /\ x == VN_maximum v.
Proof.
  intros Hne Hlow. unfold VN_maximum. destruct v as [|a v']; [contradiction|]. set (v := a :: v') in *.
  destruct (fold_max_spec v (- dbl_max)) as [H1 [H2 H3]]. split; [exact H2|].
  destruct H3 as [E|Hin].
  - exists a. split; [left; reflexivity|]. assert (In a v) by (left; reflexivity).
    pose proof (H2 a H). pose proof (Hlow a H). rewrite E in *. lra.
  - eexists. split; [exact Hin|reflexivity].
Qed.
Lemma VN_divide_spec a b : length a = length b -> (forall x, In x b -> eps10 <= Qabs x) ->
  VN_divide a b = Ok (map (fun p => fst p / snd p) (combine a b)).
Proof.
  intros H Hb. unfold VN_divide. rewrite H, Nat.eqb_refl. simpl negb. cbv iota.
  destruct (existsb (fun x => qltb (Qabs x) eps10) b) eqn:E; [|reflexivity].
  apply existsb_exists in E. destruct E as [x [Hx Hlt]]. apply qltb_true in Hlt. specialize (Hb x Hx). lra.
Qed.

(* ------------------------------------------------------------------ normal forms used by the Examples of Properties.v *)
Definition nrmD (r : res dense) : option (nat * nat * list Q) :=
  match r with Ok d => Some (nr d, nc d, map Qred (dat d)) | _ => None end.
Definition nrmV (r : res (list Q)) : option (list Q) := match r with Ok v => Some (map Qred v) | _ => None end.
Definition nrmO (r : option (list Q)) : option (list Q) := match r with Some v => Some (map Qred v) | None => None end.

(* ------------------------------------------------------------------ addScalar / prodScalar (Eigen array operations) *)
Lemma getv_mapdat d f i j : wfd d -> (i < nr d)%nat -> (j < nc d)%nat ->
  getv (mkD (nr d) (nc d) (map f (dat d))) i j = f (getv d i j).
Proof.
  intros W Hi Hj. unfold getv, rank; simpl.
  rewrite (nth_indep _ 0 (f 0)) by (rewrite map_length; apply (rank_lt d i j W Hi Hj)).
  apply map_nth.
Qed.
Lemma addScalar_dense d v : wfd d ->
  exists r, D_addScalar d v = Ok r /\ nr r = nr d /\ nc r = nc d /\ meq (nr d) (nc d) (absd r) (maddc v (absd d)).
Proof.
  intro W. eexists. split; [reflexivity|]. split; [reflexivity|]. split; [reflexivity|].
  intros i j Hi Hj. unfold absd at 1. rewrite getv_mapdat by assumption. reflexivity.
Qed.
Lemma prodScalar_dense d v : wfd d ->
  exists r, D_prodScalar d v = Ok r /\ nr r = nr d /\ nc r = nc d /\ meq (nr d) (nc d) (absd r) (mscal v (absd d)).
Proof.
  intro W. eexists. split; [reflexivity|]. split; [reflexivity|]. split; [reflexivity|].
  intros i j Hi Hj. unfold absd at 1. rewrite getv_mapdat by assumption. unfold mscal, absd. ring.
Qed.
Definition tr (i j : nat) (v : Q) : trip := (i, j, v).
Arguments tr (i j)%nat v%Q.
Definition nrmSC (r : res spc) : option (nat * nat * list Q) :=
  match r with Ok s => match SC_getValues s with Ok v => Some (snr s, snc s, map Qred v) | _ => None end | _ => None end.
Definition nrmSE (r : res spe) : option (nat * nat * list Q) :=
  match r with Ok s => match SE_getValues s with Ok v => Some (enr s, enc s, map Qred v) | _ => None end | _ => None end.

(* ------------------------------------------------------------------ isSymmetric, getDiagonal, sample *)
Lemma isSymmetric_generic d : nr d = nc d -> (0 < nr d)%nat ->
  (G_isSymmetric false false d = true <->
   forall i j, (i < nr d)%nat -> (j < nr d)%nat -> Qabs (getv d i j - getv d j i) <= 1 # 10000000000).
Proof.
  intros Sq Hpos. unfold G_isSymmetric, isEmpty, isSquare, isEmpty.
  assert (E1 : (nr d =? 0)%nat = false) by (apply Nat.eqb_neq; lia).
  assert (E2 : (nc d =? 0)%nat = false) by (apply Nat.eqb_neq; lia).
  rewrite E1, E2, <- Sq, Nat.eqb_refl. simpl. rewrite forallb_forall. split.
  - intros H i j Hi Hj. apply qleb_true. apply (H (i, j)). apply in_rowmajor. split; assumption.
  - intros H [i j] Hin. apply in_rowmajor in Hin. simpl. apply qleb_true. apply H; tauto.
Qed.

Lemma flat_map_singletons {A B} (c : A -> bool) (x : A -> B) l : (forall a, In a l -> c a = false) ->
  flat_map (fun a => if c a then [] else [x a]) l = map x l.
Proof.
  induction l as [|a l IH]; intro H; simpl; [reflexivity|].
  rewrite (H a) by (left; reflexivity). simpl. rewrite IH by (intros; apply H; right; assumption). reflexivity.
Qed.
(* main diagonal of a square matrix *)
Lemma getDiagonal_generic sq d : isSquare sq d = true -> nr d = nc d ->
  G_getDiagonal sq d 0 = Ok (map (fun r => getv d r r) (seq 0 (nr d))).
Proof.
  intros HS Sq. unfold G_getDiagonal. rewrite HS. simpl negb. cbv iota. f_equal.
  rewrite (flat_map_singletons
    (fun r => ((Z.of_nat r + 0 <? 0) || (Z.of_nat (nr d) <=? Z.of_nat r + 0) || (Z.of_nat r + 0 <? 0) || (Z.of_nat (nc d) <=? Z.of_nat r + 0))%Z%bool)
    (fun r => getv d (Z.to_nat (Z.of_nat r + 0)) (Z.to_nat (Z.of_nat r + 0)))).
  - apply map_ext. intro r. rewrite Z.add_0_r, Nat2Z.id. reflexivity.
  - intros r Hr. apply in_seq in Hr.
    assert (H1 : (Z.of_nat r + 0 <? 0)%Z = false) by (apply Z.ltb_ge; lia).
    assert (H2 : (Z.of_nat (nr d) <=? Z.of_nat r + 0)%Z = false) by (apply Z.leb_gt; lia).
    assert (H3 : (Z.of_nat (nc d) <=? Z.of_nat r + 0)%Z = false) by (apply Z.leb_gt; lia).
    rewrite H1, H2, H3. reflexivity.
Qed.

Lemma fold_setValue_loop (h : nat -> nat -> Q) : forall ps d,
  fold_left (fun s p => setValue false s (fst p) (snd p) (h (fst p) (snd p))) ps d = loop_set false ps (fun i j _ => h i j) d.
Proof. induction ps as [|p ps IH]; intro d; [reflexivity|]. simpl fold_left. rewrite IH. reflexivity. Qed.

Lemma select_idx_keep total keep : keep <> [] -> select_idx total keep false = keep.
Proof. destruct keep; [contradiction|reflexivity]. Qed.
Lemma length_zero_false {A} (l : list A) : l <> [] -> (length l =? 0)%nat = false.
Proof. destruct l; [contradiction|reflexivity]. Qed.
(* MatrixRectangular::sample with explicit row and column lists *)
Lemma sample_spec a rk ck : rk <> [] -> ck <> [] ->
  (forall r, In r rk -> (r < nr a)%nat) -> (forall c, In c ck -> (c < nc a)%nat) ->
  exists r, R_sample a rk ck false false = Some r /\ nr r = length rk /\ nc r = length ck /\
    meq (length rk) (length ck) (absd r) (msample rk ck (absd a)).
Proof.
  intros Hr Hc Hrr Hcc. unfold R_sample. rewrite !select_idx_keep by assumption.
  rewrite !length_zero_false by assumption. simpl orb.
  assert (F1 : forallb (fun r => (r <? nr a)%nat) rk = true) by (apply forallb_forall; intros x Hx; apply Nat.ltb_lt; apply Hrr; exact Hx).
  assert (F2 : forallb (fun c => (c <? nc a)%nat) ck = true) by (apply forallb_forall; intros x Hx; apply Nat.ltb_lt; apply Hcc; exact Hx).
  rewrite F1, F2. simpl.
  rewrite (fold_setValue_loop (fun i j => getv a (nth i rk O) (nth j ck O))).
  destruct (loop_set_plain_full (fun i j (_ : Q) => getv a (nth i rk O) (nth j ck O)) (tab (length rk) (length ck) mzero) (wfd_tab _ _ _)) as [H1 [H2 [H3 H4]]].
  rewrite !nr_tab, !nc_tab in *.
  eexists. split; [reflexivity|]. split; [exact H1|]. split; [exact H2|].
  intros i j Hi Hj. unfold absd at 1. rewrite (H4 i j Hi Hj). reflexivity.
Qed.

(* ------------------------------------------------------------------ in-place operations as functions of the argument VALUES *)
(* the previous content of the receiver is irrelevant (only its dimensions matter) *)
Lemma inplace_overwrites_dense d d' : nr d = nr d' -> nc d = nc d' ->
  (forall x y tx ty, D_prodMatMat d x y tx ty = D_prodMatMat d' x y tx ty) /\
  (forall a m t, D_prodNormMatMat d a m t = D_prodNormMatMat d' a m t) /\
  (forall a v t, D_prodNormMatVec d a v t = D_prodNormMatVec d' a v t).
Proof.
  intros Hr Hc.
  assert (ES : forall r, e_store d r = e_store d' r) by (intro r; unfold e_store, isSameSize; rewrite Hr, Hc; reflexivity).
  split; [|split].
  - intros. unfold D_prodMatMat. destruct (e_mul tx ty x y); simpl; auto.
  - intros. unfold D_prodNormMatMat. destruct (e_mul t false a m); simpl; auto. destruct (e_mul false (negb t) a0 a); simpl; auto.
  - intros. unfold D_prodNormMatVec. destruct v.
    + destruct (e_mul t (negb t) a a); simpl; auto.
    + destruct (e_mul_diag t a (q :: v)); simpl; auto. destruct (e_mul false (negb t) a0 a); simpl; auto.
Qed.
Lemma meq_trans_sym m n A B C : meq m n A C -> meq m n B C -> meq m n A B.
Proof. intros H1 H2 i j Hi Hj. rewrite (H1 i j Hi Hj), (H2 i j Hi Hj). reflexivity. Qed.
Lemma inplace_overwrites_generic d d' x y tx ty : wfd d -> wfd d' -> nr d = nr d' -> nc d = nc d' ->
  dimc tx x = dimr ty y -> nr d = dimr tx x -> nc d = dimc ty y ->
  exists r r', G_prodMatMat false d x y tx ty = Ok r /\ G_prodMatMat false d' x y tx ty = Ok r' /\
    nr r = nr r' /\ nc r = nc r' /\ meq (nr d) (nc d) (absd r) (absd r').
Proof.
  intros W W' Hr Hc Hk H1 H2.
  destruct (prodMatMat_generic d x y tx ty W Hk H1 H2) as [r [E [R1 [R2 M]]]].
  destruct (prodMatMat_generic d' x y tx ty W' Hk) as [r' [E' [R1' [R2' M']]]]; [congruence|congruence|].
  exists r, r'. split; [exact E|]. split; [exact E'|]. split; [congruence|]. split; [congruence|].
  apply (meq_trans_sym _ _ _ _ _ M). rewrite Hr, Hc. exact M'.
Qed.

(* the result only depends on the VALUES of the operands: a copy (any storage with the same dimensions and entries), the
   same object passed twice (y := x) or distinct objects give the same result *)
Lemma alias_agnostic_dense d x y x' y' tx ty :
  nr x = nr x' -> nc x = nc x' -> meq (nr x) (nc x) (absd x) (absd x') ->
  nr y = nr y' -> nc y = nc y' -> meq (nr y) (nc y) (absd y) (absd y') ->
  dimc tx x = dimr ty y -> nr d = dimr tx x -> nc d = dimc ty y ->
  exists r r', D_prodMatMat d x y tx ty = Ok r /\ D_prodMatMat d x' y' tx ty = Ok r' /\ meq (nr d) (nc d) (absd r) (absd r').
Proof.
  intros Xr Xc XM Yr Yc YM Hk H1 H2.
  assert (D1 : dimr tx x' = dimr tx x /\ dimc tx x' = dimc tx x) by (destruct tx; simpl; split; congruence).
  assert (D2 : dimr ty y' = dimr ty y /\ dimc ty y' = dimc ty y) by (destruct ty; simpl; split; congruence).
  destruct D1 as [D1 D1']. destruct D2 as [D2 D2'].
  destruct (prodMatMat_dense d x y tx ty Hk H1 H2) as [r [E [_ [_ [_ M]]]]].
  destruct (prodMatMat_dense d x' y' tx ty) as [r' [E' [_ [_ [_ M']]]]]; [congruence|congruence|congruence|].
  exists r, r'. split; [exact E|]. split; [exact E'|].
  intros i j Hi Hj. rewrite (M i j Hi Hj), (M' i j Hi Hj). rewrite D1'.
  apply mmul_ext.
  - intros l Hl. destruct tx; simpl in *; unfold mT; apply XM; lia.
  - intros l Hl. rewrite Hk in Hl. destruct ty; simpl in *; unfold mT; apply YM; lia.
Qed.

(* AMatrix::prodMatInPlace (the receiver is the first operand): this := this . op(y), dense override and generic fallback *)
Lemma prodMatInPlace_dense d y ty : nc d = dimr ty y -> dimc ty y = nc d ->
  exists r, D_prodMatInPlace d y ty = Ok r /\ nr r = nr d /\ nc r = nc d /\ wfd r /\
    meq (nr d) (nc d) (absd r) (mmul (nc d) (absd d) (opT ty (absd y))).
Proof.
  intros H1 H2. unfold D_prodMatInPlace, D_prodMatMat_alias.
  destruct (prodMatMat_dense d d y false ty) as [r [E [R1 [R2 [W M]]]]]; [exact H1|reflexivity|congruence|].
  exists r. auto.
Qed.
Lemma prodMatInPlace_generic d y ty : wfd d -> nc d = dimr ty y -> dimc ty y = nc d ->
  exists r, G_prodMatMat_alias false d d y false ty true false = Ok r /\ nr r = nr d /\ nc r = nc d /\
    meq (nr d) (nc d) (absd r) (mmul (nc d) (absd d) (opT ty (absd y))).
Proof.
  intros W H1 H2. unfold G_prodMatMat_alias.
  destruct (prodMatMat_generic d d y false ty W) as [r [E [R1 [R2 M]]]]; [exact H1|reflexivity|congruence|].
  exists r. auto.
Qed.

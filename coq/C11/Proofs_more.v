(* C11 proofs, part 5: remaining generic fallbacks, symmetric storage, sparse wrappers, refutation witnesses. *)
From Coq Require Import List ZArith QArith Qabs Bool Arith Lia Lqa Setoid Morphisms.
From Gst Require Import lib.QAux C11.Sums C11.Spec C11.Model C11.Model_sparse C11.Model_vec C11.Proofs C11.Proofs_ops C11.Proofs_sparse.
Import ListNotations.
Local Open Scope Q_scope.

(* ------------------------------------------------------------------ AMatrix::prodMatMatInPlace (generic) *)
(* correct when op(y) is square ... *)
Lemma prodMatMat_generic_partial d x y tx ty : wfd d -> nr y = nc y -> dimc tx x = nr y -> nr d = dimr tx x -> nc d = nc y ->
  exists r, G_prodMatMat false d x y tx ty = Ok r /\ nr r = nr d /\ nc r = nc d /\
    meq (nr d) (nc d) (absd r) (mmul (dimc tx x) (opT tx (absd x)) (opT ty (absd y))).
Proof.
  intros W Sq Hk Hr Hc. unfold G_prodMatMat.
  assert (E1 : (if ty then nr y else nc y) = nr y) by (destruct ty; congruence).
  assert (E2 : (if ty then nc y else nr y) = nc d) by (destruct ty; congruence).
  assert (E3 : (if tx then nc x else nr x) = nr d) by (destruct tx; simpl in *; congruence).
  assert (E4 : (if tx then nr x else nc x) = nr y) by (destruct tx; simpl in *; congruence).
  rewrite E1, E2, E3, E4. rewrite Nat.eqb_refl. simpl negb. cbv iota.
  unfold covers. rewrite !Nat.leb_refl, Sq, Nat.eqb_refl. simpl. rewrite !andb_false_r.
  destruct (loop_set_plain_full (fun i j _ => sumn (nc y) (fun k => (if tx then getv x k i else getv x i k) * (if ty then getv y j k else getv y k j))) d W)
    as [H1 [H2 [H3 H4]]].
  eexists. split; [reflexivity|]. split; [assumption|]. split; [assumption|].
  intros i j Hi Hj. unfold absd at 1. rewrite H4 by assumption. unfold mmul. rewrite Hk, Sq. apply sumn_ext. intros k _.
  destruct tx, ty; reflexivity.
Qed.

(* ... and refuses a well-formed product otherwise: (1 x 2).(2 x 1) leaves the destination untouched *)
Lemma prodMatMat_generic_refuted : exists d x y,
  wfd d /\ wfd x /\ wfd y /\ nc x = nr y /\ nr d = nr x /\ nc d = nc y /\
  G_prodMatMat false d x y false false = Ok d /\
  ~ meq (nr d) (nc d) (absd d) (mmul (nc x) (absd x) (absd y)).
Proof.
  exists (tab 1 1 (fun _ _ => 5)), (tab 1 2 (fun _ _ => 1)), (tab 2 1 (fun _ _ => 1)).
  repeat (split; [vm_compute; reflexivity|]).
  intro H. specialize (H O O (Nat.lt_0_succ 0) (Nat.lt_0_succ 0)). vm_compute in H. discriminate H.
Qed.

(* ------------------------------------------------------------------ AMatrix::prodNormMatMatInPlace (generic) *)
Lemma prodNormMatMat_generic d a m t : wfd d -> nr m = dimc t a -> nc m = dimc t a -> nr d = dimr t a -> nc d = dimr t a ->
  exists r, G_prodNormMatMat false d a m t = Ok r /\ nr r = nr d /\ nc r = nc d /\
    meq (nr d) (nc d) (absd r) (mcongr t (dimc t a) (absd a) (absd m)).
Proof.
  intros W Hm1 Hm2 Hd1 Hd2. unfold G_prodNormMatMat.
  assert (Sq : nr d = nc d) by congruence.
  assert (E1 : (if t then nc a else nr a) = nr d) by (destruct t; simpl in *; congruence).
  assert (E2 : (if t then nr a else nc a) = nr m) by (destruct t; simpl in *; congruence).
  rewrite E1, E2.
  assert (C1 : covers d (nr d) (nr d) = true) by (unfold covers; rewrite <- Sq, Nat.leb_refl; reflexivity).
  assert (C2 : covers m (nr m) (nr m) = true) by (unfold covers; replace (nc m) with (nr m) by congruence; rewrite Nat.leb_refl; reflexivity).
  rewrite C1, C2. simpl. rewrite ?andb_false_r. simpl. rewrite ?andb_false_r.
  replace (rowmajor (nr d) (nr d)) with (rowmajor (nr d) (nc d)) by (rewrite <- Sq; reflexivity).
  destruct (loop_set_plain_full (fun i j _ => sumn (nr m) (fun k => sumn (nr m) (fun l =>
             (if t then getv a k i else getv a i k) * getv m k l * (if t then getv a l j else getv a j l)))) d W)
    as [H1 [H2 [H3 H4]]].
  eexists. split; [reflexivity|]. split; [assumption|]. split; [assumption|].
  intros i j Hi Hj. unfold absd at 1. rewrite H4 by assumption. rewrite mcongr_entry. rewrite <- Hm1. reflexivity.
Qed.

(* symmetric storage: only the lower triangle is computed and mirrored; right when M is symmetric *)
Lemma in_rowmajor_lowrep n a b : (a < n)%nat -> (b < n)%nat -> In (lowrep a b) (rowmajor n n).
Proof. intros Ha Hb. unfold lowrep. destruct (b <=? a)%nat; apply in_rowmajor; split; assumption. Qed.

Lemma prodNormMatMat_generic_sym d a m t : wfd d -> nr m = dimc t a -> nc m = dimc t a -> nr d = dimr t a -> nc d = dimr t a ->
  msymmetric (dimc t a) (absd m) ->
  exists r, G_prodNormMatMat true d a m t = Ok r /\ nr r = nr d /\ nc r = nc d /\
    meq (nr d) (nc d) (absd r) (mcongr t (dimc t a) (absd a) (absd m)) /\ msymmetric (nr d) (absd r).
Proof.
  intros W Hm1 Hm2 Hd1 Hd2 HS. unfold G_prodNormMatMat.
  assert (Sq : nr d = nc d) by congruence.
  assert (E1 : (if t then nc a else nr a) = nr d) by (destruct t; simpl in *; congruence).
  assert (E2 : (if t then nr a else nc a) = dimc t a) by (destruct t; reflexivity).
  rewrite E1, E2.
  assert (C1 : covers d (nr d) (nr d) = true) by (unfold covers; rewrite <- Sq, Nat.leb_refl; reflexivity).
  assert (C2 : covers m (dimc t a) (dimc t a) = true) by (unfold covers; rewrite Hm1, Hm2, Nat.leb_refl; reflexivity).
  rewrite C1, C2. simpl. rewrite ?andb_false_r. simpl. rewrite ?andb_false_r.
  set (g := fun i j (_ : Q) => sumn (dimc t a) (fun k => sumn (dimc t a) (fun l =>
             (if t then getv a k i else getv a i k) * getv m k l * (if t then getv a l j else getv a j l)))).
  destruct (loop_set_sym g (rowmajor (nr d) (nr d)) d W Sq (nodup_rowmajor _ _)) as [H1 [H2 [H3 H4]]].
  { intros [i j] H. apply in_rowmajor in H. exact H. }
  assert (G : forall i j, (i < nr d)%nat -> (j < nr d)%nat ->
              getv (loop_set true (rowmajor (nr d) (nr d)) g d) i j == mcongr t (dimc t a) (absd a) (absd m) i j).
  { intros i j Hi Hj. destruct (H4 i j Hi Hj) as [Hin _]. rewrite (Hin (in_rowmajor_lowrep _ _ _ Hi Hj)).
    unfold lowrep. destruct (j <=? i)%nat; simpl fst; simpl snd; unfold g.
    - rewrite mcongr_entry. reflexivity.
    - rewrite (mcongr_symmetric t (dimc t a) (absd a) (absd m) HS i j). rewrite mcongr_entry. reflexivity. }
  eexists. split; [reflexivity|]. split; [assumption|]. split; [assumption|]. split.
  - intros i j Hi Hj. unfold absd at 1. apply G; [assumption|]. rewrite Sq. assumption.
  - intros i j Hi Hj. unfold absd. rewrite !G by assumption. apply mcongr_symmetric. exact HS.
Qed.

(* AMatrix::linearCombination on the symmetric class with symmetric operands *)
Definition osym (n : nat) (m : option dense) : Prop := match m with Some a => msymmetric n (absd a) | None => True end.
Lemma lc_term_sym n c m i j : osym n m -> (i < n)%nat -> (j < n)%nat -> lc_term c m i j == lc_term c m j i.
Proof. destruct m as [a|]; simpl; intros H Hi Hj; [rewrite (H i j Hi Hj); reflexivity|reflexivity]. Qed.
Lemma linearCombination_generic_sym d c1 m1 c2 m2 c3 m3 : wfd d -> nr d = nc d ->
  lc_ok d m1 = true -> lc_ok d m2 = true -> lc_ok d m3 = true ->
  osym (nr d) m1 -> osym (nr d) m2 -> osym (nr d) m3 ->
  exists r, G_linearCombination true d c1 m1 c2 m2 c3 m3 = Ok r /\ nr r = nr d /\ nc r = nc d /\
    meq (nr d) (nc d) (absd r) (mlin3 c1 (omat m1) c2 (omat m2) c3 (omat m3)).
Proof.
  intros W Sq H1 H2 H3 S1 S2 S3. unfold G_linearCombination. rewrite H1, H2, H3. simpl negb. cbv iota.
  set (g := fun i j (_ : Q) => 0 + lc_term c1 m1 i j + lc_term c2 m2 i j + lc_term c3 m3 i j).
  replace (rowmajor (nr d) (nc d)) with (rowmajor (nr d) (nr d)) by (rewrite <- Sq; reflexivity).
  destruct (loop_set_sym g (rowmajor (nr d) (nr d)) d W Sq (nodup_rowmajor _ _)) as [E1 [E2 [E3 E4]]].
  { intros [i j] H. apply in_rowmajor in H. exact H. }
  eexists. split; [reflexivity|]. split; [assumption|]. split; [assumption|].
  intros i j Hi Hj. rewrite <- Sq in Hj. unfold absd at 1. destruct (E4 i j Hi Hj) as [Hin _].
  rewrite (Hin (in_rowmajor_lowrep _ _ _ Hi Hj)). unfold lowrep, g, mlin3.
  destruct (j <=? i)%nat; simpl fst; simpl snd.
  - rewrite !lc_term_spec. ring.
  - rewrite (lc_term_sym (nr d) c1 m1 j i S1 Hj Hi), (lc_term_sym (nr d) c2 m2 j i S2 Hj Hi), (lc_term_sym (nr d) c3 m3 j i S3 Hj Hi).
    rewrite !lc_term_spec. ring.
Qed.

(* ------------------------------------------------------------------ AMatrix::prodNormMatVecInPlace (generic): refuted *)
(* reads a(k,j) for A.diag.t(A) (and a(j,k) for t(A).diag.A): outside the matrix when it is not square ... *)
Lemma prodNormMatVec_generic_refuted_ub : exists d a v c,
  wfd d /\ wfd a /\ length v = nc a /\ nr d = nr a /\ nc d = nr a /\ G_prodNormMatVec false d a v false = UB c.
Proof. exists (tab 1 1 mzero), (tab 1 2 (fun _ _ => 1)), [1; 1], ub_index. vm_compute. auto 10. Qed.
(* ... and A.A instead of A.t(A) when it is *)
Lemma prodNormMatVec_generic_refuted_value : exists d a r,
  wfd d /\ wfd a /\ nr a = nc a /\ nr d = nr a /\ nc d = nr a /\ G_prodNormMatVec false d a [] false = Ok r /\
  ~ meq (nr d) (nc d) (absd r) (mcongr_id false (nc a) (absd a)).
Proof.
  set (a := tab 2 2 (fun i j => if (j <? i)%nat then 0 else 1)).
  exists (tab 2 2 mzero), a. eexists.
  repeat (split; [vm_compute; reflexivity|]).
  intro H. specialize (H O O (Nat.lt_0_succ 1) (Nat.lt_0_succ 1)). vm_compute in H. discriminate H.
Qed.

(* ------------------------------------------------------------------ row / column assignment *)
Lemma setRow_dense d i t : (i < nr d)%nat -> length t = nc d ->
  exists r, D_setRow d i t = Ok r /\ nr r = nr d /\ nc r = nc d /\ meq (nr d) (nc d) (absd r) (msetrow i (vl t) (absd d)).
Proof.
  intros Hi Ht. unfold D_setRow, e_map. rewrite <- Ht, Nat.leb_refl, firstn_all. simpl rbind.
  rewrite (proj2 (Nat.ltb_lt _ _) Hi). eexists. split; [reflexivity|]. split; [reflexivity|]. split; [reflexivity|].
  intros a b Ha Hb. unfold absd at 1. rewrite getv_tab by (simpl; lia). reflexivity.
Qed.
Lemma setColumn_dense d j t : (j < nc d)%nat -> length t = nr d ->
  exists r, D_setColumn d j t = Ok r /\ nr r = nr d /\ nc r = nc d /\ meq (nr d) (nc d) (absd r) (msetcol j (vl t) (absd d)).
Proof.
  intros Hj Ht. unfold D_setColumn, e_map. rewrite <- Ht, Nat.leb_refl, firstn_all. simpl rbind.
  rewrite (proj2 (Nat.ltb_lt _ _) Hj). eexists. split; [reflexivity|]. split; [reflexivity|]. split; [reflexivity|].
  intros a b Ha Hb. unfold absd at 1. rewrite getv_tab by (simpl; lia). reflexivity.
Qed.
Lemma getRow_dense d i : (i < nr d)%nat -> (0 < nc d)%nat ->
  exists r, D_getRow d i = Ok r /\ length r = nc d /\ forall j, (j < nc d)%nat -> nth j r 0 = absd d i j.
Proof.
  intros Hi Hc. unfold D_getRow. destruct (nc d =? 0)%nat eqn:E; [apply Nat.eqb_eq in E; lia|].
  rewrite (proj2 (Nat.ltb_lt _ _) Hi). eexists. split; [reflexivity|]. split; [rewrite map_length, seq_length; reflexivity|].
  intros j Hj. rewrite nth_map_seq by assumption. reflexivity.
Qed.
Lemma getColumn_dense d j : (j < nc d)%nat -> (0 < nr d)%nat ->
  exists r, D_getColumn d j = Ok r /\ length r = nr d /\ forall i, (i < nr d)%nat -> nth i r 0 = absd d i j.
Proof.
  intros Hj Hr. unfold D_getColumn. destruct (nr d =? 0)%nat eqn:E; [apply Nat.eqb_eq in E; lia|].
  rewrite (proj2 (Nat.ltb_lt _ _) Hj). eexists. split; [reflexivity|]. split; [rewrite map_length, seq_length; reflexivity|].
  intros i Hi. rewrite nth_map_seq by assumption. reflexivity.
Qed.

(* ------------------------------------------------------------------ storage agreement of the two sparse back-ends *)
Lemma storage_agree_triplet T i j :
  (i < nr (sem (SE_fromTriplet T)))%nat -> (j < nc (sem (SE_fromTriplet T)))%nat ->
  getv (sem (SE_fromTriplet T)) i j == abs_csc (scs (SC_fromTriplet T)) i j.
Proof.
  intros Hi Hj. unfold SE_fromTriplet in *. simpl in *. rewrite getv_tab by assumption.
  unfold SC_fromTriplet. simpl. rewrite cs_compress_spec. reflexivity.
Qed.

(* ------------------------------------------------------------------ sparse wrappers: witnesses of the defects *)
Definition tr (i j : nat) (v : Q) : trip := (i, j, v).
Arguments tr (i j)%nat v%Q.
Definition T23 : list trip := [tr 0 0 1; tr 1 0 2; tr 0 1 3; tr 1 1 4; tr 0 2 5; tr 1 2 6].
(* x.M for a 2 x 3 csparse matrix is returned with 2 entries instead of 3 *)
Lemma prodVecMat_cs_refuted : exists r, SC_prodVecMat (SC_fromTriplet T23) [1; 1] false = r /\ r <> Ok [3; 7; 11].
Proof. eexists. split; [reflexivity|]. vm_compute. intro H. discriminate H. Qed.
(* transposeInPlace on the csparse back-end drops the values (cs_transpose(A, 0)): reading any stored entry dereferences NULL *)
Lemma transpose_cs_refuted : exists s, SC_transposeInPlace (SC_fromTriplet [tr 0 0 1]) = Ok s /\ SC_getValues s = UB ub_segv.
Proof. eexists. split; [reflexivity|]. vm_compute. reflexivity. Qed.
(* on the Eigen back-end _nRows/_nCols are not swapped *)
Lemma transpose_eigen_refuted : exists s, SE_transposeInPlace (SE_fromTriplet T23) = Ok s /\ enr s = 2%nat /\ nr (sem s) = 3%nat /\ SE_getValues s = UB ub_index.
Proof. eexists. split; [reflexivity|]. vm_compute. auto. Qed.
(* x.t(M) in place on the Eigen back-end multiplies by x once more *)
Lemma prodVecMatInPlace_eigen_refuted : exists c, SE_prodVecMatInPlace (SE_fromTriplet T23) [1; 1; 1] [0; 0] true = UB c.
Proof. eexists. vm_compute. reflexivity. Qed.
(* createFromAnyMatrix loses trailing zero rows *)
Lemma fromAny_refuted : exists d, wfd d /\ nr d = 2%nat /\ snr (SC_fromTriplet (dense_to_triplet d)) = 1%nat /\ enr (SE_fromTriplet (dense_to_triplet d)) = 1%nat.
Proof. exists (tab 2 1 (fun i _ => if (i =? 0)%nat then 1 else 0)). vm_compute. auto. Qed.
(* row scaling on the csparse back-end overruns the copy as soon as two triplets share a position *)
Lemma multiplyRow_cs_refuted : exists c, SC_multiplyRow (SC_fromTriplet [tr 0 0 1; tr 0 0 1]) [2] = UB c.
Proof. eexists. vm_compute. reflexivity. Qed.

(* ------------------------------------------------------------------ VectorNumT: witnesses *)
Lemma VN_maximum_refuted : exists v, v <> [] /\ (forall x, In x v -> x < 0) /\ 0 < VN_maximum v.
Proof.
  exists [-(1)]. split; [discriminate|]. split.
  - intros x [<-|[]]. reflexivity.
  - vm_compute. reflexivity.
Qed.
Lemma VN_divide_refuted : exists a b, length a = length b /\ (forall x, In x b -> ~ x == 0) /\ VN_divide a b = Exn.
Proof.
  exists [1], [1 # 2]. split; [reflexivity|]. split; [|vm_compute; reflexivity].
  intros x [<-|[]] H. discriminate H.
Qed.

(* ------------------------------------------------------------------ normal forms used by the Examples of Properties.v *)
Definition nrmD (r : res dense) : option (nat * nat * list Q) :=
  match r with Ok d => Some (nr d, nc d, map Qred (dat d)) | _ => None end.
Definition nrmV (r : res (list Q)) : option (list Q) := match r with Ok v => Some (map Qred v) | _ => None end.
Definition nrmO (r : option (list Q)) : option (list Q) := match r with Some v => Some (map Qred v) | None => None end.

(* ------------------------------------------------------------------ addScalar / prodScalar (Eigen array operations) *)
Lemma getv_mapdat d f i j : wfd d -> (i < nr d)%nat -> (j < nc d)%nat ->
  getv (mkD (nr d) (nc d) (map f (dat d))) i j = f (getv d i j).
Proof.
  intros W Hi Hj. unfold getv, rank; simpl.
  rewrite (nth_indep _ 0 (f 0)) by (rewrite map_length; apply (rank_lt d i j W Hi Hj)).
  apply map_nth.
Qed.
Lemma addScalar_dense d v : wfd d ->
  exists r, D_addScalar d v = Ok r /\ nr r = nr d /\ nc r = nc d /\ meq (nr d) (nc d) (absd r) (maddc v (absd d)).
Proof.
  intro W. eexists. split; [reflexivity|]. split; [reflexivity|]. split; [reflexivity|].
  intros i j Hi Hj. unfold absd at 1. rewrite getv_mapdat by assumption. reflexivity.
Qed.
Lemma prodScalar_dense d v : wfd d ->
  exists r, D_prodScalar d v = Ok r /\ nr r = nr d /\ nc r = nc d /\ meq (nr d) (nc d) (absd r) (mscal v (absd d)).
Proof.
  intro W. eexists. split; [reflexivity|]. split; [reflexivity|]. split; [reflexivity|].
  intros i j Hi Hj. unfold absd at 1. rewrite getv_mapdat by assumption. unfold mscal, absd. ring.
Qed.

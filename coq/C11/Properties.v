(* C11 — property theorems only (placeholder, being extended). *)
From Coq Require Import List ZArith QArith Bool.
From Gst Require Import lib.QAux C11.Sums C11.Spec C11.Model.
Import ListNotations.
Local Open Scope Q_scope.
Theorem C11_sum_swap : forall m n f, sumn m (fun i => sumn n (fun j => f i j)) == sumn n (fun j => sumn m (fun i => f i j)).
Proof. exact sumn_swap. Qed.
Print Assumptions C11_sum_swap.

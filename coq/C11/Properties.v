(* C11 — property theorems only. Each is closed by [exact] of a lemma of Proofs*.v.
   Conventions: a stored matrix d stands for the mathematical matrix [absd d] (entries [getv d i j]) on the index range
   nr d x nc d; [meq m n A B] is entry-wise equality on that range; all sizes are universally quantified (1 x n, n x 1
   and empty shapes included).  A wrapper theorem "exists r, W args = Ok r /\ ..." states at once that no contract of an
   Eigen primitive is violated (the model returns [UB] when one is) and that the result is the mathematical one.  The
   inputs on which the code of the pinned tree failed these statements before the fixes C11_1..C11_9 are kept as
   regression cases in corpus/C11.sx. *)
From Coq Require Import List ZArith QArith Qabs Bool Arith Sorted Permutation.
From Gst Require Import lib.QAux C11.Sums C11.Spec C11.Model C11.Model_sparse C11.Model_vec
  C11.Proofs C11.Proofs_ops C11.Proofs_sparse C11.Proofs_vec C11.Proofs_more C11.Proofs_dupl C11.Proofs_scatter C11.Proofs_wrap C11.Proofs_sq.
Import ListNotations.
Local Open Scope Q_scope.

(* ================================================================== dense classes through Eigen *)
(* prodMatMatInPlace, the four transposition flag combinations at once *)
Theorem C11_prodMatMat_dense : forall d x y tx ty, dimc tx x = dimr ty y -> nr d = dimr tx x -> nc d = dimc ty y ->
  exists r, D_prodMatMat d x y tx ty = Ok r /\ nr r = nr d /\ nc r = nc d /\ wfd r /\
    meq (nr d) (nc d) (absd r) (mmul (dimc tx x) (opT tx (absd x)) (opT ty (absd y))).
Proof. exact prodMatMat_dense. Qed.
Print Assumptions C11_prodMatMat_dense.

Theorem C11_prodMatVec_dense : forall d x t, length x = dimc t d ->
  exists r, D_prodMatVec d x t = Ok r /\ length r = dimr t d /\
    forall i, (i < dimr t d)%nat -> nth i r 0 = mvec (dimc t d) (opT t (absd d)) (vl x) i.
Proof. exact prodMatVec_dense. Qed.
Print Assumptions C11_prodMatVec_dense.

Theorem C11_prodVecMat_dense : forall d x t, length x = dimr t d ->
  exists r, D_prodVecMat d x t = Ok r /\ length r = dimc t d /\
    forall j, (j < dimc t d)%nat -> nth j r 0 = vmat (dimr t d) (vl x) (opT t (absd d)) j.
Proof. exact prodVecMat_dense. Qed.
Print Assumptions C11_prodVecMat_dense.

Theorem C11_transpose_dense : forall d,
  exists r, D_transpose d = Ok r /\ nr r = nc d /\ nc r = nr d /\ wfd r /\ meq (nc d) (nr d) (absd r) (mT (absd d)).
Proof. exact transpose_dense. Qed.
Print Assumptions C11_transpose_dense.

(* congruence products t(A).M.A and A.M.t(A) *)
Theorem C11_prodNormMatMat_dense : forall d a m t, nr m = dimc t a -> nc m = dimc t a -> nr d = dimr t a -> nc d = dimr t a ->
  exists r, D_prodNormMatMat d a m t = Ok r /\ nr r = nr d /\ nc r = nc d /\ wfd r /\
    meq (nr d) (nc d) (absd r) (mcongr t (dimc t a) (absd a) (absd m)).
Proof. exact prodNormMatMat_dense. Qed.
Print Assumptions C11_prodNormMatMat_dense.

Theorem C11_prodNormMatVec_dense_novec : forall d a t, nr d = dimr t a -> nc d = dimr t a ->
  exists r, D_prodNormMatVec d a [] t = Ok r /\ nr r = nr d /\ nc r = nc d /\ wfd r /\
    meq (nr d) (nc d) (absd r) (mcongr_id t (dimc t a) (absd a)).
Proof. exact prodNormMatVec_dense_novec. Qed.
Print Assumptions C11_prodNormMatVec_dense_novec.

Theorem C11_no_ub_prodNormMatVec : forall d a v t, v <> [] -> length v = dimc t a -> nr d = dimr t a -> nc d = dimr t a ->
  exists r, D_prodNormMatVec d a v t = Ok r /\ nr r = nr d /\ nc r = nc d /\ wfd r /\
    meq (nr d) (nc d) (absd r) (mcongr_diag t (dimc t a) (absd a) (vl v)).
Proof. exact prodNormMatVec_dense. Qed.
Print Assumptions C11_no_ub_prodNormMatVec.

(* row / column scaling: the vector is mapped with the dimension it multiplies, for every shape *)
Theorem C11_no_ub_multiplyRow : forall d v, length v = nr d ->
  exists r, D_multiplyRow d v = Ok r /\ nr r = nr d /\ nc r = nc d /\ wfd r /\ meq (nr d) (nc d) (absd r) (mrowscale (vl v) (absd d)).
Proof. exact multiplyRow_dense. Qed.
Print Assumptions C11_no_ub_multiplyRow.
Theorem C11_no_ub_multiplyColumn : forall d v, length v = nc d ->
  exists r, D_multiplyColumn d v = Ok r /\ nr r = nr d /\ nc r = nc d /\ wfd r /\ meq (nr d) (nc d) (absd r) (mcolscale (vl v) (absd d)).
Proof. exact multiplyColumn_dense. Qed.
Print Assumptions C11_no_ub_multiplyColumn.
Theorem C11_no_ub_divideRow : forall d v, length v = nr d ->
  exists r, D_divideRow d v = Ok r /\ nr r = nr d /\ nc r = nc d /\ wfd r /\ meq (nr d) (nc d) (absd r) (mrowdiv (vl v) (absd d)).
Proof. exact divideRow_dense. Qed.
Print Assumptions C11_no_ub_divideRow.
Theorem C11_no_ub_divideColumn : forall d v, length v = nc d ->
  exists r, D_divideColumn d v = Ok r /\ nr r = nr d /\ nc r = nc d /\ wfd r /\ meq (nr d) (nc d) (absd r) (mcoldiv (vl v) (absd d)).
Proof. exact divideColumn_dense. Qed.
Print Assumptions C11_no_ub_divideColumn.
(* in-place products with a vector: both transposition flags, every shape *)
Theorem C11_no_ub_prodMatVecInPlace : forall d x y t, length x = dimc t d -> length y = dimr t d ->
  exists r, D_prodMatVecInPlace d x y t = Ok r /\ length r = dimr t d /\
    forall i, (i < dimr t d)%nat -> nth i r 0 == mvec (dimc t d) (opT t (absd d)) (vl x) i.
Proof. exact prodMatVecInPlace_dense. Qed.
Print Assumptions C11_no_ub_prodMatVecInPlace.
Theorem C11_no_ub_prodVecMatInPlace : forall d x y t, length x = dimr t d -> length y = dimc t d ->
  exists r, D_prodVecMatInPlace d x y t = Ok r /\ length r = dimc t d /\
    forall j, (j < dimc t d)%nat -> nth j r 0 = vmat (dimr t d) (vl x) (opT t (absd d)) j.
Proof. exact prodVecMatInPlace_dense. Qed.
Print Assumptions C11_no_ub_prodVecMatInPlace.

(* element, row, column access *)
Theorem C11_setValue_dense : forall d i j v, wfd d -> (i < nr d)%nat -> (j < nc d)%nat ->
  exists r, D_setValue false d i j v = Ok r /\ nr r = nr d /\ nc r = nc d /\ wfd r /\
    forall a b, (a < nr d)%nat -> (b < nc d)%nat -> getv r a b = mset i j v (absd d) a b.
Proof. exact setValue_plain_spec. Qed.
Print Assumptions C11_setValue_dense.
(* symmetric storage: entry and mirror are written, symmetry is preserved *)
Theorem C11_setValue_symmetric : forall d i j v, wfd d -> nr d = nc d -> (i < nr d)%nat -> (j < nr d)%nat ->
  exists r, D_setValue true d i j v = Ok r /\ nr r = nr d /\ nc r = nc d /\ wfd r /\
    (forall a b, (a < nr d)%nat -> (b < nr d)%nat -> getv r a b = mset j i v (mset i j v (absd d)) a b) /\
    (msymmetric (nr d) (absd d) -> msymmetric (nr d) (absd r)).
Proof. exact setValue_sym_spec. Qed.
Print Assumptions C11_setValue_symmetric.
Theorem C11_setRow_dense : forall d i t, (i < nr d)%nat -> length t = nc d ->
  exists r, D_setRow d i t = Ok r /\ nr r = nr d /\ nc r = nc d /\ meq (nr d) (nc d) (absd r) (msetrow i (vl t) (absd d)).
Proof. exact setRow_dense. Qed.
Print Assumptions C11_setRow_dense.
Theorem C11_setColumn_dense : forall d j t, (j < nc d)%nat -> length t = nr d ->
  exists r, D_setColumn d j t = Ok r /\ nr r = nr d /\ nc r = nc d /\ meq (nr d) (nc d) (absd r) (msetcol j (vl t) (absd d)).
Proof. exact setColumn_dense. Qed.
Print Assumptions C11_setColumn_dense.
Theorem C11_getRow_dense : forall d i, (i < nr d)%nat -> (0 < nc d)%nat ->
  exists r, D_getRow d i = Ok r /\ length r = nc d /\ forall j, (j < nc d)%nat -> nth j r 0 = absd d i j.
Proof. exact getRow_dense. Qed.
Print Assumptions C11_getRow_dense.
Theorem C11_getColumn_dense : forall d j, (j < nc d)%nat -> (0 < nr d)%nat ->
  exists r, D_getColumn d j = Ok r /\ length r = nr d /\ forall i, (i < nr d)%nat -> nth i r 0 = absd d i j.
Proof. exact getColumn_dense. Qed.
Print Assumptions C11_getColumn_dense.

(* ================================================================== generic element loops of AMatrix.cpp *)
(* the loop "if (!_isPhysicallyPresent(i,j)) continue; setValue(i,j, g i j (getValue(i,j)))" over distinct positions:
   plain storage rewrites exactly the visited entries ... *)
Theorem C11_loop_plain : forall g ps d, wfd d -> NoDup ps ->
  (forall p, In p ps -> (fst p < nr d)%nat /\ (snd p < nc d)%nat) ->
  nr (loop_set false ps g d) = nr d /\ nc (loop_set false ps g d) = nc d /\ wfd (loop_set false ps g d) /\
  forall a b, (a < nr d)%nat -> (b < nc d)%nat ->
    (In (a, b) ps -> getv (loop_set false ps g d) a b = g a b (getv d a b)) /\
    (~ In (a, b) ps -> getv (loop_set false ps g d) a b = getv d a b).
Proof. exact loop_set_plain. Qed.
Print Assumptions C11_loop_plain.
(* ... symmetric storage rewrites the visited lower-triangle entries and their mirrors *)
Theorem C11_loop_symmetric : forall g ps d, wfd d -> nr d = nc d -> NoDup ps ->
  (forall p, In p ps -> (fst p < nr d)%nat /\ (snd p < nr d)%nat) ->
  nr (loop_set true ps g d) = nr d /\ nc (loop_set true ps g d) = nc d /\ wfd (loop_set true ps g d) /\
  forall a b, (a < nr d)%nat -> (b < nr d)%nat ->
    (In (lowrep a b) ps -> getv (loop_set true ps g d) a b =
        g (fst (lowrep a b)) (snd (lowrep a b)) (getv d (fst (lowrep a b)) (snd (lowrep a b)))) /\
    (~ In (lowrep a b) ps -> getv (loop_set true ps g d) a b = getv d a b).
Proof. exact loop_set_sym. Qed.
Print Assumptions C11_loop_symmetric.

Theorem C11_multiplyRow_generic : forall d v, wfd d -> length v = nr d ->
  exists r, G_multiplyRow false d v = Ok r /\ nr r = nr d /\ nc r = nc d /\ meq (nr d) (nc d) (absd r) (mrowscale (vl v) (absd d)).
Proof. exact multiplyRow_generic. Qed.
Print Assumptions C11_multiplyRow_generic.
Theorem C11_multiplyColumn_generic : forall d v, wfd d -> length v = nc d ->
  exists r, G_multiplyColumn false d v = Ok r /\ nr r = nr d /\ nc r = nc d /\ meq (nr d) (nc d) (absd r) (mcolscale (vl v) (absd d)).
Proof. exact multiplyColumn_generic. Qed.
Print Assumptions C11_multiplyColumn_generic.
Theorem C11_divideRow_generic : forall d v, wfd d -> length v = nr d ->
  exists r, G_divideRow false d v = Ok r /\ nr r = nr d /\ nc r = nc d /\ meq (nr d) (nc d) (absd r) (mrowdiv (vl v) (absd d)).
Proof. exact divideRow_generic. Qed.
Print Assumptions C11_divideRow_generic.
Theorem C11_divideColumn_generic : forall d v, wfd d -> length v = nc d ->
  exists r, G_divideColumn false d v = Ok r /\ nr r = nr d /\ nc r = nc d /\ meq (nr d) (nc d) (absd r) (mcoldiv (vl v) (absd d)).
Proof. exact divideColumn_generic. Qed.
Print Assumptions C11_divideColumn_generic.
Theorem C11_addMat_generic : forall d y cx cy, wfd d -> nr y = nr d -> nc y = nc d ->
  exists r, G_addMat false d y cx cy = Ok r /\ nr r = nr d /\ nc r = nc d /\ meq (nr d) (nc d) (absd r) (mlin2 cx (absd d) cy (absd y)).
Proof. exact addMat_generic. Qed.
Print Assumptions C11_addMat_generic.
Theorem C11_linearCombination : forall d c1 m1 c2 m2 c3 m3, wfd d ->
  lc_ok d m1 = true -> lc_ok d m2 = true -> lc_ok d m3 = true ->
  exists r, G_linearCombination false d c1 m1 c2 m2 c3 m3 = Ok r /\ nr r = nr d /\ nc r = nc d /\
    meq (nr d) (nc d) (absd r) (mlin3 c1 (omat m1) c2 (omat m2) c3 (omat m3)).
Proof. exact linearCombination_generic. Qed.
Print Assumptions C11_linearCombination.
Theorem C11_linearCombination_symmetric : forall d c1 m1 c2 m2 c3 m3, wfd d -> nr d = nc d ->
  lc_ok d m1 = true -> lc_ok d m2 = true -> lc_ok d m3 = true ->
  osym (nr d) m1 -> osym (nr d) m2 -> osym (nr d) m3 ->
  exists r, G_linearCombination true d c1 m1 c2 m2 c3 m3 = Ok r /\ nr r = nr d /\ nc r = nc d /\
    meq (nr d) (nc d) (absd r) (mlin3 c1 (omat m1) c2 (omat m2) c3 (omat m3)).
Proof. exact linearCombination_generic_sym. Qed.
Print Assumptions C11_linearCombination_symmetric.

(* the generic product (reached with operands of different classes), the four flag combinations, every shape *)
Theorem C11_prodMatMat_generic : forall d x y tx ty,
  wfd d -> dimc tx x = dimr ty y -> nr d = dimr tx x -> nc d = dimc ty y ->
  exists r, G_prodMatMat false d x y tx ty = Ok r /\ nr r = nr d /\ nc r = nc d /\
    meq (nr d) (nc d) (absd r) (mmul (dimc tx x) (opT tx (absd x)) (opT ty (absd y))).
Proof. exact prodMatMat_generic. Qed.
Print Assumptions C11_prodMatMat_generic.

Theorem C11_prodNormMatMat_generic : forall d a m t,
  wfd d -> nr m = dimc t a -> nc m = dimc t a -> nr d = dimr t a -> nc d = dimr t a ->
  exists r, G_prodNormMatMat false d a m t = Ok r /\ nr r = nr d /\ nc r = nc d /\
    meq (nr d) (nc d) (absd r) (mcongr t (dimc t a) (absd a) (absd m)).
Proof. exact prodNormMatMat_generic. Qed.
Print Assumptions C11_prodNormMatMat_generic.
Theorem C11_prodNormMatMat_symmetric : forall d a m t,
  wfd d -> nr m = dimc t a -> nc m = dimc t a -> nr d = dimr t a -> nc d = dimr t a ->
  msymmetric (dimc t a) (absd m) ->
  exists r, G_prodNormMatMat true d a m t = Ok r /\ nr r = nr d /\ nc r = nc d /\
    meq (nr d) (nc d) (absd r) (mcongr t (dimc t a) (absd a) (absd m)) /\ msymmetric (nr d) (absd r).
Proof. exact prodNormMatMat_generic_sym. Qed.
Print Assumptions C11_prodNormMatMat_symmetric.
(* AMatrix::prodNormMatVecInPlace: t(A).diag(v).A / A.diag(v).t(A), or without v when it is empty *)
Theorem C11_prodNormMatVec_generic : forall d a v t, wfd d -> nr d = dimr t a -> nc d = dimr t a ->
  exists r, G_prodNormMatVec false d a v t = Ok r /\ nr r = nr d /\ nc r = nc d /\
    meq (nr d) (nc d) (absd r)
        (match v with [] => mcongr_id t (dimc t a) (absd a) | _ => mcongr_diag t (dimc t a) (absd a) (vl v) end).
Proof. exact prodNormMatVec_generic. Qed.
Print Assumptions C11_prodNormMatVec_generic.
(* AMatrix::setDiagonal resets the matrix to diag(tab) *)
Theorem C11_setDiagonal_generic : forall sq d t, wfd d -> isSquare sq d = true -> nr d = nc d -> length t = nc d ->
  exists r, G_setDiagonal sq false d t = Ok r /\ nr r = nr d /\ nc r = nc d /\ meq (nr d) (nc d) (absd r) (mdiag (vl t)).
Proof. exact setDiagonal_generic. Qed.
Print Assumptions C11_setDiagonal_generic.

(* AMatrix::isSymmetric decides |a_ij - a_ji| <= 1e-10 for all i, j of a non-empty square matrix *)
Theorem C11_isSymmetric_generic : forall d, nr d = nc d -> (0 < nr d)%nat ->
  (G_isSymmetric false false d = true <->
   forall i j, (i < nr d)%nat -> (j < nr d)%nat -> Qabs (getv d i j - getv d j i) <= 1 # 10000000000).
Proof. exact isSymmetric_generic. Qed.
Print Assumptions C11_isSymmetric_generic.
Theorem C11_getDiagonal_generic : forall sq d, isSquare sq d = true -> nr d = nc d ->
  G_getDiagonal sq d 0 = Ok (map (fun r => getv d r r) (seq 0 (nr d))).
Proof. exact getDiagonal_generic. Qed.
Print Assumptions C11_getDiagonal_generic.
(* MatrixRectangular::sample with explicit (possibly repeated, unordered) row and column lists *)
Theorem C11_sample : forall a rk ck, rk <> [] -> ck <> [] ->
  (forall r, In r rk -> (r < nr a)%nat) -> (forall c, In c ck -> (c < nc a)%nat) ->
  exists r, R_sample a rk ck false false = Some r /\ nr r = length rk /\ nc r = length ck /\
    meq (length rk) (length ck) (absd r) (msample rk ck (absd a)).
Proof. exact sample_spec. Qed.
Print Assumptions C11_sample.

(* ================================================================== in-place operations are functions of the argument VALUES
   (what checks/C11.py relies on when it replays a session step, a re-used receiver or an aliased call as a standalone case) *)
(* the previous content of the receiver is irrelevant: only its dimensions matter *)
Theorem C11_inplace_overwrites : forall d d', nr d = nr d' -> nc d = nc d' ->
  (forall x y tx ty, D_prodMatMat d x y tx ty = D_prodMatMat d' x y tx ty) /\
  (forall a m t, D_prodNormMatMat d a m t = D_prodNormMatMat d' a m t) /\
  (forall a v t, D_prodNormMatVec d a v t = D_prodNormMatVec d' a v t).
Proof. exact inplace_overwrites_dense. Qed.
Print Assumptions C11_inplace_overwrites.
Theorem C11_inplace_overwrites_generic : forall d d' x y tx ty, wfd d -> wfd d' -> nr d = nr d' -> nc d = nc d' ->
  dimc tx x = dimr ty y -> nr d = dimr tx x -> nc d = dimc ty y ->
  exists r r', G_prodMatMat false d x y tx ty = Ok r /\ G_prodMatMat false d' x y tx ty = Ok r' /\
    nr r = nr r' /\ nc r = nc r' /\ meq (nr d) (nc d) (absd r) (absd r').
Proof. exact inplace_overwrites_generic. Qed.
Print Assumptions C11_inplace_overwrites_generic.
(* copies, the same object passed twice (y := x) or distinct objects with equal entries give the same result *)
Theorem C11_alias_agnostic : forall d x y x' y' tx ty,
  nr x = nr x' -> nc x = nc x' -> meq (nr x) (nc x) (absd x) (absd x') ->
  nr y = nr y' -> nc y = nc y' -> meq (nr y) (nc y) (absd y) (absd y') ->
  dimc tx x = dimr ty y -> nr d = dimr tx x -> nc d = dimc ty y ->
  exists r r', D_prodMatMat d x y tx ty = Ok r /\ D_prodMatMat d x' y' tx ty = Ok r' /\ meq (nr d) (nc d) (absd r) (absd r').
Proof. exact alias_agnostic_dense. Qed.
Print Assumptions C11_alias_agnostic.
(* the receiver itself as an operand (AMatrix::prodMatInPlace = prodMatMatInPlace(this, y, false, ty)): this := this . op(y) *)
Theorem C11_no_ub_prodMatInPlace : forall d y ty, nc d = dimr ty y -> dimc ty y = nc d ->
  exists r, D_prodMatInPlace d y ty = Ok r /\ nr r = nr d /\ nc r = nc d /\ wfd r /\
    meq (nr d) (nc d) (absd r) (mmul (nc d) (absd d) (opT ty (absd y))).
Proof. exact prodMatInPlace_dense. Qed.
Print Assumptions C11_no_ub_prodMatInPlace.
Theorem C11_prodMatInPlace_generic : forall d y ty, wfd d -> nc d = dimr ty y -> dimc ty y = nc d ->
  exists r, G_prodMatMat_alias false d d y false ty true false = Ok r /\ nr r = nr d /\ nc r = nc d /\
    meq (nr d) (nc d) (absd r) (mmul (nc d) (absd d) (opT ty (absd y))).
Proof. exact prodMatInPlace_generic. Qed.
Print Assumptions C11_prodMatInPlace_generic.

(* ================================================================== csparse kernels *)
(* cs_triplet: the compressed-column matrix holds the accumulated triplets (duplicates add up), for every triplet list *)
Theorem C11_cs_compress : forall T i j, abs_csc (cs_triplet T) i j == abs_trip T i j.
Proof. exact cs_compress_spec. Qed.
Print Assumptions C11_cs_compress.
Theorem C11_cs_transpose : forall a, rows_ok a -> (0 < cm a)%nat -> (0 < cn a)%nat ->
  exists c, cs_transpose a true = Some c /\ cm c = cn a /\ cn c = cm a /\
    forall i j, (i < cm a)%nat -> (j < cn a)%nat -> abs_csc c j i == abs_csc a i j.
Proof. exact cs_transpose_spec. Qed.
Print Assumptions C11_cs_transpose.
Theorem C11_cs_gaxpy : forall a x y, rows_ok a -> length x = cn a -> length y = cm a ->
  exists y', cs_gaxpy a x y = Ok y' /\ length y' = cm a /\
    forall i, (i < cm a)%nat -> nth i y' 0 == nth i y 0 + sumn (cn a) (fun j => abs_csc a i j * nth j x 0).
Proof. exact cs_gaxpy_spec. Qed.
Print Assumptions C11_cs_gaxpy.
(* cs_dupl: duplicates of a column are summed, the mathematical content does not change *)
Theorem C11_cs_dupl : forall a, rows_in a ->
  cm (cs_dupl a) = cm a /\ cn (cs_dupl a) = cn a /\ length (cp (cs_dupl a)) = S (cn a) /\
  forall i j, (j < cn a)%nat -> abs_csc (cs_dupl a) i j == abs_csc a i j.
Proof. exact cs_dupl_spec. Qed.
Print Assumptions C11_cs_dupl.
(* NF_Triplet::buildCsFromTriplet: the csparse storage holds the accumulated triplets, for every triplet list *)
Theorem C11_buildCs : forall T i j, abs_csc (buildCs T) i j == abs_trip T i j.
Proof. exact buildCs_spec. Qed.
Print Assumptions C11_buildCs.
(* both sparse back-ends stand for the same matrix when built from the same triplets and dimensions *)
Theorem C11_storage_agree : forall T nrow ncol i j,
  (i < nr (sem (SE_create T nrow ncol)))%nat -> (j < nc (sem (SE_create T nrow ncol)))%nat ->
  getv (sem (SE_create T nrow ncol)) i j == abs_csc (scs (SC_create T nrow ncol)) i j.
Proof. exact storage_agree_full. Qed.
Print Assumptions C11_storage_agree.
(* MatrixSparse::transposeInPlace / transpose(): content transposed and dimensions swapped, both back-ends *)
Theorem C11_transpose_cs : forall s, rows_ok (scs s) -> (0 < cm (scs s))%nat -> (0 < cn (scs s))%nat ->
  exists s', SC_transposeInPlace s = Ok s' /\ snr s' = snc s /\ snc s' = snr s /\
    cm (scs s') = cn (scs s) /\ cn (scs s') = cm (scs s) /\
    forall i j, (i < cm (scs s))%nat -> (j < cn (scs s))%nat -> abs_csc (scs s') j i == abs_csc (scs s) i j.
Proof. exact transpose_cs. Qed.
Print Assumptions C11_transpose_cs.
Theorem C11_transpose_eigen : forall s,
  exists s', SE_transposeInPlace s = Ok s' /\ enr s' = enc s /\ enc s' = enr s /\
    nr (sem s') = nc (sem s) /\ nc (sem s') = nr (sem s) /\
    forall i j, (i < nr (sem s))%nat -> (j < nc (sem s))%nat -> getv (sem s') j i = getv (sem s) i j.
Proof. exact transpose_eigen. Qed.
Print Assumptions C11_transpose_eigen.

(* cs_add: C = alpha.A + beta.B entry by entry (duplicates summed, explicit zeros kept), column pointers well formed *)
Theorem C11_cs_add : forall a b alpha beta, rows_in a -> rows_in b -> cm b = cm a -> cn a = cn b ->
  cm (cs_add a b alpha beta) = cm a /\ cn (cs_add a b alpha beta) = cn b /\
  length (cp (cs_add a b alpha beta)) = S (cn b) /\ rows_in (cs_add a b alpha beta) /\
  forall i j, (i < cm a)%nat -> (j < cn b)%nat ->
    abs_csc (cs_add a b alpha beta) i j == alpha * abs_csc a i j + beta * abs_csc b i j.
Proof. exact cs_add_spec. Qed.
Print Assumptions C11_cs_add.
(* cs_multiply (scatter workspace of cs_scatter): C = A.B *)
Theorem C11_cs_multiply : forall a b, rows_in a -> rows_in b -> cn a = cm b ->
  cm (cs_multiply a b) = cm a /\ cn (cs_multiply a b) = cn b /\
  length (cp (cs_multiply a b)) = S (cn b) /\ rows_in (cs_multiply a b) /\
  forall i j, (i < cm a)%nat -> (j < cn b)%nat ->
    abs_csc (cs_multiply a b) i j == sumn (cn a) (fun k => abs_csc a i k * abs_csc b k j).
Proof. exact cs_multiply_spec. Qed.
Print Assumptions C11_cs_multiply.
(* well-formedness (rows inside, cn+1 column pointers) is preserved by transposition and holds for every storage built from triplets *)
Theorem C11_cs_transpose_wf : forall a c, rows_in a -> (0 < cm a)%nat -> (0 < cn a)%nat -> cs_transpose a true = Some c -> wf_csc c.
Proof. exact wf_transpose. Qed.
Print Assumptions C11_cs_transpose_wf.
Theorem C11_buildCs_wf : forall T, T <> [] -> wf_csc (buildCs T) /\ cm (buildCs T) = trip_m T /\ cn (buildCs T) = trip_n T.
Proof. exact wf_buildCs. Qed.
Print Assumptions C11_buildCs_wf.

(* ================================================================== MatrixSparse wrappers refine the same abstract matrix *)
Theorem C11_prodMatMat_sparse_cs : forall (s x y : spc) (tx ty : bool),
  wf_csc (scs x) -> wf_csc (scs y) -> (0 < cm (scs x))%nat -> (0 < cn (scs x))%nat -> (0 < cm (scs y))%nat -> (0 < cn (scs y))%nat ->
  (if tx then cm (scs x) else cn (scs x)) = (if ty then cn (scs y) else cm (scs y)) ->
  exists s', SC_prodMatMat s x y tx ty = Ok s' /\ wf_csc (scs s') /\
    cm (scs s') = (if tx then cn (scs x) else cm (scs x)) /\ cn (scs s') = (if ty then cm (scs y) else cn (scs y)) /\
    forall i j, (i < cm (scs s'))%nat -> (j < cn (scs s'))%nat ->
      abs_csc (scs s') i j == mmul (if tx then cm (scs x) else cn (scs x)) (opT tx (abs_csc (scs x))) (opT ty (abs_csc (scs y))) i j.
Proof. exact SC_prodMatMat_spec. Qed.
Print Assumptions C11_prodMatMat_sparse_cs.
Theorem C11_addMat_sparse_cs : forall s y cx0 cy0, rows_in (scs s) -> rows_in (scs y) -> cm (scs y) = cm (scs s) -> cn (scs s) = cn (scs y) ->
  exists s', SC_addMat s y cx0 cy0 = Ok s' /\ wf_csc (scs s') /\ cm (scs s') = cm (scs s) /\ cn (scs s') = cn (scs s) /\
    forall i j, (i < cm (scs s))%nat -> (j < cn (scs s))%nat ->
      abs_csc (scs s') i j == mlin2 cx0 (abs_csc (scs s)) cy0 (abs_csc (scs y)) i j.
Proof. exact SC_addMat_spec. Qed.
Print Assumptions C11_addMat_sparse_cs.
Theorem C11_prodScalar_sparse_cs : forall s v, rows_in (scs s) -> isOne v = false ->
  exists s', SC_prodScalar s v = Ok s' /\ wf_csc (scs s') /\
    forall i j, (i < cm (scs s))%nat -> (j < cn (scs s))%nat -> abs_csc (scs s') i j == mscal v (abs_csc (scs s)) i j.
Proof. exact SC_prodScalar_spec. Qed.
Print Assumptions C11_prodScalar_sparse_cs.
Theorem C11_prodNormMatMat_sparse_cs : forall (s a m : spc) (t : bool),
  wf_csc (scs a) -> wf_csc (scs m) -> (0 < cm (scs a))%nat -> (0 < cn (scs a))%nat ->
  cm (scs m) = (if t then cm (scs a) else cn (scs a)) -> cn (scs m) = (if t then cm (scs a) else cn (scs a)) ->
  exists s', SC_prodNormMatMat s a m t = Ok s' /\ wf_csc (scs s') /\
    forall i j, (i < (if t then cn (scs a) else cm (scs a)))%nat -> (j < (if t then cn (scs a) else cm (scs a)))%nat ->
      abs_csc (scs s') i j == mcongr t (if t then cm (scs a) else cn (scs a)) (abs_csc (scs a)) (abs_csc (scs m)) i j.
Proof. exact SC_prodNormMatMat_spec. Qed.
Print Assumptions C11_prodNormMatMat_sparse_cs.
Theorem C11_prodMatMat_sparse_eigen : forall s x y tx ty, dimc tx (sem x) = dimr ty (sem y) ->
  exists s', SE_prodMatMat s x y tx ty = Ok s' /\ nr (sem s') = dimr tx (sem x) /\ nc (sem s') = dimc ty (sem y) /\
    forall i j, (i < dimr tx (sem x))%nat -> (j < dimc ty (sem y))%nat ->
      getv (sem s') i j = mmul (dimc tx (sem x)) (opT tx (absd (sem x))) (opT ty (absd (sem y))) i j.
Proof. exact SE_prodMatMat_spec. Qed.
Print Assumptions C11_prodMatMat_sparse_eigen.
Theorem C11_addMat_sparse_eigen : forall s y cx0 cy0, nr (sem s) = nr (sem y) -> nc (sem s) = nc (sem y) ->
  exists s', SE_addMat s y cx0 cy0 = Ok s' /\ nr (sem s') = nr (sem s) /\ nc (sem s') = nc (sem s) /\
    forall i j, (i < nr (sem s))%nat -> (j < nc (sem s))%nat ->
      getv (sem s') i j = mlin2 cx0 (absd (sem s)) cy0 (absd (sem y)) i j.
Proof. exact SE_addMat_spec. Qed.
Print Assumptions C11_addMat_sparse_eigen.
(* corollary: dense, csparse and Eigen-sparse storages of the same abstract operands give the same abstract product *)
Theorem C11_storages_agree_prodMatMat : forall d dx dy sx sy ex ey tx ty s0 e0,
  wf_csc (scs sx) -> wf_csc (scs sy) -> (0 < nr dx)%nat -> (0 < nc dx)%nat -> (0 < nr dy)%nat -> (0 < nc dy)%nat ->
  cm (scs sx) = nr dx -> cn (scs sx) = nc dx -> cm (scs sy) = nr dy -> cn (scs sy) = nc dy ->
  nr (sem ex) = nr dx -> nc (sem ex) = nc dx -> nr (sem ey) = nr dy -> nc (sem ey) = nc dy ->
  meq (nr dx) (nc dx) (abs_csc (scs sx)) (absd dx) -> meq (nr dy) (nc dy) (abs_csc (scs sy)) (absd dy) ->
  meq (nr dx) (nc dx) (absd (sem ex)) (absd dx) -> meq (nr dy) (nc dy) (absd (sem ey)) (absd dy) ->
  dimc tx dx = dimr ty dy -> nr d = dimr tx dx -> nc d = dimc ty dy ->
  exists rd rs re, D_prodMatMat d dx dy tx ty = Ok rd /\ SC_prodMatMat s0 sx sy tx ty = Ok rs /\ SE_prodMatMat e0 ex ey tx ty = Ok re /\
    forall i j, (i < nr d)%nat -> (j < nc d)%nat ->
      abs_csc (scs rs) i j == getv rd i j /\ getv (sem re) i j == getv rd i j.
Proof. exact storages_agree_prodMatMat. Qed.
Print Assumptions C11_storages_agree_prodMatMat.

(* ================================================================== VectorHelper kernels and square-matrix helpers *)
Theorem C11_VH_add : forall a b,
  (length a = length b -> length (VH_add a b) = length a /\ forall i, (i < length a)%nat -> nth i (VH_add a b) 0 = nth i a 0 + nth i b 0) /\
  (length a <> length b -> VH_add a b = a).
Proof. exact VH_add_spec. Qed.
Print Assumptions C11_VH_add.
Theorem C11_VH_subtract : forall a b,
  (length a = length b -> exists r, VH_subtract a b = Ok r /\ length r = length a /\ forall i, (i < length a)%nat -> nth i r 0 = nth i b 0 - nth i a 0) /\
  (length a <> length b -> VH_subtract a b = Exn).
Proof. exact VH_subtract_spec. Qed.
Print Assumptions C11_VH_subtract.
Theorem C11_VH_multiply : forall a b,
  (length a = length b -> exists r, VH_multiplyInPlace a b = Ok r /\ length r = length a /\ forall i, (i < length a)%nat -> nth i r 0 = nth i a 0 * nth i b 0) /\
  (length a <> length b -> VH_multiplyInPlace a b = Exn).
Proof. exact VH_multiply_spec. Qed.
Print Assumptions C11_VH_multiply.
Theorem C11_VH_innerProduct : forall a b,
  (length a = length b -> exists r, VH_innerProduct a b = Ok r /\ r == dot (length a) (vl a) (vl b)) /\
  ((length b < length a)%nat -> VH_innerProduct a b = Exn).
Proof. exact VH_innerProduct_spec. Qed.
Print Assumptions C11_VH_innerProduct.
(* the span kernel has no size check: defined exactly when dest is at least as long as src, a heap overrun otherwise *)
Theorem C11_VH_addInPlace_span : forall src dest,
  ((length src <= length dest)%nat -> exists r, VH_addInPlace_span src dest = Ok r /\ length r = length dest /\
      forall i, (i < length dest)%nat -> nth i r 0 = if (i <? length src)%nat then nth i dest 0 + nth i src 0 else nth i dest 0) /\
  ((length dest < length src)%nat -> exists c, VH_addInPlace_span src dest = UB c).
Proof. exact VH_addInPlace_span_spec. Qed.
Print Assumptions C11_VH_addInPlace_span.
Theorem C11_trace : forall d, SQ_trace d == sumn (nr d) (fun i => getv d i i).
Proof. exact SQ_trace_spec. Qed.
Print Assumptions C11_trace.
Theorem C11_normVec : forall d v,
  (nr d = nc d -> length v = nr d -> exists r, SQ_normVec d v = Some r /\ r == dot (nr d) (vl v) (mvec (nr d) (absd d) (vl v))) /\
  (length v <> nr d -> SQ_normVec d v = None).
Proof. exact SQ_normVec_spec. Qed.
Print Assumptions C11_normVec.
Theorem C11_prodByDiag : forall d mode c, wfd d -> nr d = nc d -> length c = nr d ->
  exists r, SQ_prodByDiag false d mode c = Ok r /\ nr r = nr d /\ nc r = nc d /\
    meq (nr d) (nc d) (absd r) (match mode with O => mcolscale (vl c) (absd d) | _ => mcoldiv (vl c) (absd d) end).
Proof. exact SQ_prodByDiag_spec. Qed.
Print Assumptions C11_prodByDiag.

(* ================================================================== triangular solves and Cholesky wrappers *)
Theorem C11_solve_forward : forall n L b eps, pivots_ok n L eps -> mlower n L ->
  exists y, forward_subst n L b eps = Some y /\ length y = n /\ veq n (mvec n L (vl y)) b.
Proof. exact forward_subst_solves. Qed.
Print Assumptions C11_solve_forward.
Theorem C11_solve_backward : forall n U b eps, pivots_ok n U eps -> mupper n U ->
  exists y, backward_subst n U b eps = Some y /\ length y = n /\ veq n (mvec n U (vl y)) b.
Proof. exact backward_subst_solves. Qed.
Print Assumptions C11_solve_backward.
(* ACholesky::solve over a factor satisfying the certificate L.t(L) = A: A.x = b *)
Theorem C11_solve : forall n L A b, chol_factor n L A -> length b = n ->
  exists x, CH_solve n L b = Ok x /\ length x = n /\ veq n (mvec n A (vl x)) (vl b).
Proof. exact chol_solve_spec. Qed.
Print Assumptions C11_solve.
(* simulation s = t(L)^-1.xi : A.s = L.xi for every xi, i.e. s = A^-1.L.xi and Cov(s) = A^-1.(L.t(L)).A^-1 = A^-1 *)
Theorem C11_chol_sim_cov : forall n L A xi, chol_factor n L A -> length xi = n ->
  exists s, CH_InvLtX n L xi = Ok s /\ length s = n /\ veq n (mvec n A (vl s)) (mvec n L (vl xi)).
Proof. exact chol_sim_cov. Qed.
Print Assumptions C11_chol_sim_cov.
(* the certificate evaluated by the runner on the oracle's factor is sound *)
Theorem C11_chol_cert_sound : forall n L A, chol_cert n L A = true -> chol_factor n L A.
Proof. exact chol_cert_sound. Qed.
Print Assumptions C11_chol_cert_sound.

(* ================================================================== numeric vectors *)
(* orderRanks returns the stable sorting permutation: a permutation of 0..n-1, sorted by (value, index), NA last *)
Theorem C11_orderRanks : forall v asc, v <> [] ->
  Sorted (lexlt (rank_cmp v asc)) (VH_orderRanks v asc None) /\ Permutation (VH_orderRanks v asc None) (seq 0 (length v)).
Proof. exact orderRanks_spec. Qed.
Print Assumptions C11_orderRanks.
Theorem C11_sum : forall v, VN_sum v == suml v.
Proof. exact VN_sum_spec. Qed.
Print Assumptions C11_sum.
Theorem C11_innerProduct : forall a b, length a = length b ->
  VN_innerProduct a b = Ok (fold_left (fun s p => s + fst p * snd p) (combine a b) 0) /\
  fold_left (fun s p => s + fst p * snd p) (combine a b) 0 == dot (length a) (vl a) (vl b).
Proof. exact innerProduct_spec. Qed.
Print Assumptions C11_innerProduct.
(* VectorNumT<double>::maximum is the maximum of the list, for every non-empty content *)
Theorem C11_VectorNumT_maximum : forall v, v <> [] -> (forall x, In x v -> - dbl_max <= x) ->
  (forall x, In x v -> x <= VN_maximum v) /\ exists x, In x v /\ x == VN_maximum v.
Proof. exact VN_maximum_spec. Qed.
Print Assumptions C11_VectorNumT_maximum.
(* VectorNumT<double>::divide divides entry by entry as soon as no divisor is (numerically) zero *)
Theorem C11_VectorNumT_divide : forall a b, length a = length b -> (forall x, In x b -> eps10 <= Qabs x) ->
  VN_divide a b = Ok (map (fun p => fst p / snd p) (combine a b)).
Proof. exact VN_divide_spec. Qed.
Print Assumptions C11_VectorNumT_divide.

(* ================================================================== non-vacuity: the hypotheses are satisfiable on non-trivial states
   (results are compared after reduction of every entry to lowest terms: nrmD / nrmV / nrmO) *)
Definition ex_x : dense := mkD 2 3 [1; 2; 3; 4; 5; 6].            (* 2 x 3 *)
Definition ex_y : dense := mkD 2 3 [1; 0; -(1); 2; 1 # 2; 3].      (* 2 x 3 *)
Definition ex_s : dense := mkD 2 2 [2; 1; 1; 3].                  (* symmetric 2 x 2 *)
(* prodMatMat (x.t(y), t(x).y), prodMatVec, prodVecMat, transpose, congruence products on non-square operands *)
Example C11_nonvacuous_dense :
  nrmD (D_prodMatMat (tab 2 2 mzero) ex_x ex_y false true) = Some (2%nat, 2%nat, [1 # 2; 1; 21; 26]) /\
  nrmD (D_prodMatMat (tab 3 3 mzero) ex_x ex_y true false) = Some (3%nat, 3%nat, [1; 3; 5; 3; 5; 7; 13 # 2; 27 # 2; 41 # 2]) /\
  nrmV (D_prodMatVec ex_x [1; 1] true) = Some [3; 7; 11] /\ nrmV (D_prodVecMat ex_x [1; 0; 2] true) = Some [11; 14] /\
  nrmD (D_transpose ex_x) = Some (3%nat, 2%nat, [1; 3; 5; 2; 4; 6]) /\
  nrmD (D_prodNormMatMat (tab 3 3 mzero) ex_x ex_s true) = Some (3%nat, 3%nat, [18; 40; 62; 40; 90; 140; 62; 140; 218]) /\
  nrmD (D_prodNormMatVec (tab 2 2 mzero) ex_x [] false) = Some (2%nat, 2%nat, [35; 44; 44; 56]).
Proof. vm_compute. repeat split; reflexivity. Qed.
(* scaling and in-place products on a non-square matrix, element / row / column access; symmetric setValue keeps the mirror *)
Example C11_nonvacuous_access :
  nrmD (D_multiplyRow ex_x [2; 3]) = Some (2%nat, 3%nat, [2; 6; 6; 12; 10; 18]) /\
  nrmD (D_divideColumn ex_x [1; 2; 4]) = Some (2%nat, 3%nat, [1; 2; 3 # 2; 2; 5 # 4; 3 # 2]) /\
  nrmV (D_prodMatVecInPlace ex_x [1; 1] [9; 9; 9] true) = Some [3; 7; 11] /\
  nrmV (D_prodVecMatInPlace ex_x [1; 0; 2] [9; 9] true) = Some [11; 14] /\
  nrmD (D_prodNormMatVec (tab 3 3 mzero) ex_x [1; 2] true) = Some (3%nat, 3%nat, [9; 19; 29; 19; 41; 63; 29; 63; 97]) /\
  nrmD (D_setValue false ex_x 1 2 9) = Some (2%nat, 3%nat, [1; 2; 3; 4; 5; 9]) /\
  nrmD (D_setValue true ex_s 1 0 7) = Some (2%nat, 2%nat, [2; 7; 7; 3]) /\
  nrmD (D_setRow ex_x 1 [7; 8; 9]) = Some (2%nat, 3%nat, [1; 7; 3; 8; 5; 9]) /\
  nrmD (D_setColumn ex_x 1 [7; 8]) = Some (2%nat, 3%nat, [1; 2; 7; 8; 5; 6]) /\
  nrmV (D_getRow ex_x 1) = Some [2; 4; 6] /\ nrmV (D_getColumn ex_x 2) = Some [5; 6].
Proof. vm_compute. repeat split; reflexivity. Qed.
(* generic loops on a non-square matrix and on the symmetric class; generic products x.t(x) (2x3 by 3x2) and x.diag *)
Example C11_nonvacuous_generic :
  nrmD (G_multiplyRow false ex_x [2; 3]) = Some (2%nat, 3%nat, [2; 6; 6; 12; 10; 18]) /\
  nrmD (G_divideColumn false ex_x [1; 2; 4]) = Some (2%nat, 3%nat, [1; 2; 3 # 2; 2; 5 # 4; 3 # 2]) /\
  nrmD (G_addMat false ex_x ex_y 2 (-(1))) = Some (2%nat, 3%nat, [1; 4; 7; 6; 19 # 2; 9]) /\
  nrmD (G_linearCombination false ex_x 2 (Some ex_y) 1 None 3 (Some ex_x)) = Some (2%nat, 3%nat, [5; 6; 7; 16; 16; 24]) /\
  nrmD (G_linearCombination true ex_s 2 (Some ex_s) 1 (Some ex_s) 1 None) = Some (2%nat, 2%nat, [6; 3; 3; 9]) /\
  nrmD (G_prodMatMat false (tab 2 2 mzero) ex_x ex_x false true) = Some (2%nat, 2%nat, [35; 44; 44; 56]) /\
  nrmD (G_prodNormMatVec false (tab 3 3 mzero) ex_x [1; 2] true) = Some (3%nat, 3%nat, [9; 19; 29; 19; 41; 63; 29; 63; 97]) /\
  nrmD (G_setDiagonal true false ex_s [7; 8]) = Some (2%nat, 2%nat, [7; 0; 0; 8]) /\
  G_isSymmetric false false ex_s = true /\ G_isSymmetric false false (mkD 2 2 [1; 2; 3; 4]) = false /\
  nrmV (G_getDiagonal true ex_s 0) = Some [2; 3] /\
  nrmD (match R_sample ex_x [1; 1; 0]%nat [2; 0]%nat false false with Some r => Ok r | None => Exn end) = Some (3%nat, 2%nat, [6; 6; 5; 2; 2; 1]) /\
  nrmD (G_prodMatMat false (tab 2 3 mzero) ex_x (mkD 3 3 [1; 0; 0; 0; 2; 0; 0; 0; 1]) false false) = Some (2%nat, 3%nat, [1; 2; 6; 8; 5; 6]) /\
  nrmD (G_prodNormMatMat false (tab 3 3 mzero) ex_x ex_s true) = Some (3%nat, 3%nat, [18; 40; 62; 40; 90; 140; 62; 140; 218]) /\
  nrmD (G_prodNormMatMat true (tab 3 3 mzero) ex_x ex_s true) = Some (3%nat, 3%nat, [18; 40; 62; 40; 90; 140; 62; 140; 218]).
Proof. vm_compute. repeat split; reflexivity. Qed.
(* csparse kernels on a triplet list with duplicates, an explicit zero and unsorted rows *)
Definition ex_T : list trip := [tr 1 0 2; tr 0 0 1; tr 1 2 6; tr 1 0 (-(1)); tr 0 1 0; tr 0 2 5].
Example C11_nonvacuous_sparse :
  cp (cs_triplet ex_T) = [0; 3; 4; 6]%nat /\ ci (cs_triplet ex_T) = [1; 0; 1; 0; 1; 0]%nat /\
  map (fun p => Qred (abs_csc (cs_triplet ex_T) (fst p) (snd p))) (rowmajor 2 3) = [1; 0; 5; 1; 0; 6] /\
  forallb (fun t => (trow t <? cm (cs_triplet ex_T))%nat) (csc_stream (cs_triplet ex_T)) = true /\
  (match cs_transpose (cs_triplet ex_T) true with Some c => map (fun p => Qred (abs_csc c (fst p) (snd p))) (rowmajor 3 2) | None => [] end) = [1; 1; 0; 0; 5; 6] /\
  nrmV (cs_gaxpy (cs_triplet ex_T) [1; 1; 1] [10; 20]) = Some [16; 27].
Proof. vm_compute. repeat split; reflexivity. Qed.
(* MatrixSparse wrappers on the former failing inputs: non-square transposition, x.M, duplicates, trailing zero row *)
Definition T23 : list trip := [tr 0 0 1; tr 1 0 2; tr 0 1 3; tr 1 1 4; tr 0 2 5; tr 1 2 6].
Definition Tdup : list trip := [tr 0 0 1; tr 0 0 1; tr 1 1 3].
Example C11_nonvacuous_sparse_wrappers :
  nrmSC (SC_transposeInPlace (SC_create T23 2 3)) = Some (3%nat, 2%nat, [1; 3; 5; 2; 4; 6]) /\
  nrmSE (SE_transposeInPlace (SE_create T23 2 3)) = Some (3%nat, 2%nat, [1; 3; 5; 2; 4; 6]) /\
  nrmV (SC_prodVecMat (SC_create T23 2 3) [1; 1] false) = Some [3; 7; 11] /\
  nrmV (SC_prodVecMat (SC_create T23 2 3) [1; 1; 1] true) = Some [9; 12] /\
  nrmV (SE_prodVecMatInPlace (SE_create T23 2 3) [1; 1; 1] [0; 0] true) = Some [9; 12] /\
  nrmSC (SC_multiplyRow (SC_create Tdup 2 2) [2; 3]) = Some (2%nat, 2%nat, [4; 0; 0; 9]) /\
  nrmSC (Ok (SC_create Tdup 2 2)) = nrmSE (Ok (SE_create Tdup 2 2)) /\
  nrmSC (Ok (SC_create (dense_to_triplet (mkD 2 1 [1; 0])) 2 1)) = Some (2%nat, 1%nat, [1; 0]) /\
  nrmSE (Ok (SE_create (dense_to_triplet (mkD 2 1 [1; 0])) 2 1)) = Some (2%nat, 1%nat, [1; 0]).
Proof. vm_compute. repeat split; reflexivity. Qed.
(* cs_add / cs_multiply on matrices with duplicates, an explicit zero and an empty column; wrappers of both back-ends *)
Definition ex_U : list trip := [tr 0 0 1; tr 1 2 (-(6)); tr 0 2 1].
Definition ex_B : list trip := [tr 0 0 1; tr 2 0 1; tr 1 1 7; tr 2 3 2; tr 2 3 (-(1))].
Definition absl (a : csc) (m n : nat) : list Q := map (fun p => Qred (abs_csc a (fst p) (snd p))) (rowmajor m n).
Example C11_nonvacuous_cs_kernels :
  absl (cs_add (cs_triplet ex_T) (cs_triplet_dims 2 3 ex_U) 2 (-(1))) 2 3 = [1; 0; 9; 2; 0; 18] /\
  cp (cs_add (cs_triplet ex_T) (cs_triplet_dims 2 3 ex_U) 2 (-(1))) = [0; 2; 3; 5]%nat /\
  absl (cs_multiply (cs_triplet ex_T) (cs_triplet_dims 3 4 ex_B)) 2 4 = [6; 0; 0; 5; 7; 0; 0; 6] /\
  cp (cs_multiply (cs_triplet ex_T) (cs_triplet_dims 3 4 ex_B)) = [0; 2; 3; 3; 5]%nat /\
  nrmSC (SC_prodMatMat (SC_create [] 3 3) (SC_create ex_T 2 3) (SC_create ex_T 2 3) true false) = Some (3%nat, 3%nat, [2; 0; 11; 0; 0; 0; 11; 0; 61]) /\
  nrmSE (SE_prodMatMat (SE_create [] 3 3) (SE_create ex_T 2 3) (SE_create ex_T 2 3) true false) = Some (3%nat, 3%nat, [2; 0; 11; 0; 0; 0; 11; 0; 61]) /\
  nrmSC (SC_prodNormMatMat (SC_create [] 3 3) (SC_create ex_T 2 3) (SC_create [tr 0 0 2; tr 1 0 1; tr 0 1 1; tr 1 1 3] 2 2) true)
    = Some (3%nat, 3%nat, [7; 0; 39; 0; 0; 0; 39; 0; 218]) /\
  nrmSC (SC_addMat (SC_create ex_T 2 3) (SC_create ex_U 2 3) 2 (-(1))) = Some (2%nat, 3%nat, [1; 2; 0; 0; 9; 18]).
Proof. vm_compute. repeat split; reflexivity. Qed.
(* VectorHelper kernels with and without size mismatch; square helpers; packed symmetric constructors *)
Example C11_nonvacuous_helpers :
  nrmV (Ok (VH_add [1; 2] [3; 4])) = Some [4; 6] /\ nrmV (VH_subtract [1; 2] [3; 5]) = Some [2; 3] /\ VH_subtract [1] [3; 5] = Exn /\
  nrmV (VH_addInPlace_span [1; 2] [10; 20; 30]) = Some [11; 22; 30] /\ VH_addInPlace_span [1; 2; 3] [10] = UB 4%Z /\
  Qred (SQ_trace ex_s) = 5 /\ (match SQ_normVec ex_s [1; 2] with Some q => Some (Qred q) | None => None end) = Some 18 /\ SQ_normVec ex_s [1] = None /\
  nrmD (SQ_prodByDiag false ex_s 0 [2; 3]) = Some (2%nat, 2%nat, [4; 2; 3; 9]) /\
  nrmD (SQ_prodByDiag false ex_s 2 [2; 4]) = Some (2%nat, 2%nat, [1; 1 # 2; 1 # 4; 3 # 4]) /\
  nrmD (Ok (SS_createFromTLTU 2 [2; 1; 3])) = Some (2%nat, 2%nat, [4; 2; 2; 10]) /\
  nrmD (Ok (SS_createFromTriangle 0 3 [1; 2; 3; 4; 5; 6])) = Some (3%nat, 3%nat, [1; 2; 3; 2; 4; 5; 3; 5; 6]) /\
  nrmD (Ok (SS_createFromTriangle 1 3 [1; 2; 3; 4; 5; 6])) = Some (3%nat, 3%nat, [1; 2; 3; 2; 4; 5; 3; 5; 6]).
Proof. vm_compute. repeat split; reflexivity. Qed.
(* solves: a lower factor with non-trivial off-diagonal terms; its certificate holds *)
Definition ex_L : mat := fun i j => nth j (nth i [[2; 0; 0]; [1; 1; 0]; [-(3); 2; 4]] []) 0.
Definition ex_A : mat := mmul 3 ex_L (mT ex_L).
Example C11_nonvacuous_solve :
  chol_cert 3 ex_L ex_A = true /\
  nrmO (forward_subst 3 ex_L (vl [2; 3; 5]) 0) = Some [1; 2; 1] /\
  nrmO (backward_subst 3 (mT ex_L) (vl [1; 2; 1]) 0) = Some [1 # 8; 3 # 2; 1 # 4] /\
  nrmV (CH_solve 3 ex_L [2; 3; 5]) = Some [1 # 8; 3 # 2; 1 # 4] /\
  map (fun i => Qred (mvec 3 ex_A (vl [1 # 8; 3 # 2; 1 # 4]) i)) [0; 1; 2]%nat = [2; 3; 5].
Proof. vm_compute. repeat split; reflexivity. Qed.
(* ranks with ties and NA, both directions; sums *)
Example C11_nonvacuous_vectors :
  VH_orderRanks [Some 3; Some 1; None; Some 1; Some 3] true None = [1; 3; 0; 4; 2]%nat /\
  VH_orderRanks [Some 3; Some 1; None; Some 1; Some 3] false None = [2; 0; 4; 1; 3]%nat /\
  VH_sortRanks [Some 3; Some 1; None; Some 1] true None = [2; 0; 3; 1]%nat /\
  Qred (VN_sum [1; 1 # 2; -(3)]) = (-3) # 2 /\ VN_innerProduct [1; 2; 3] [4; 5; 6] = Ok 32 /\
  Qred (VN_maximum [-(1); -(3)]) = -(1) /\ nrmV (VN_divide [1; 3] [1 # 2; 4]) = Some [2; 3 # 4].
Proof. vm_compute. repeat split; reflexivity. Qed.

(* C11 proofs, part 6: cs_dupl (sum of duplicate entries) keeps the mathematical content of a CSC matrix. *)
From Coq Require Import List ZArith QArith Qabs Bool Arith Lia Lqa Setoid Morphisms.
From Gst Require Import lib.QAux C11.Sums C11.Spec C11.Model C11.Model_sparse C11.Proofs C11.Proofs_sparse.
Import ListNotations.
Local Open Scope Q_scope.

Lemma sumn_change_one n (f g : nat -> Q) t0 delta : (t0 < n)%nat ->
  (forall t, (t < n)%nat -> t <> t0 -> g t == f t) -> g t0 == f t0 + delta -> sumn n g == sumn n f + delta.
Proof.
  intros Ht Hne He.
  assert (E : sumn n (fun t => g t - f t) == delta).
  { rewrite (sumn_single n _ t0 Ht); [rewrite He; ring|]. intros k Hk Hk0. rewrite (Hne k Hk Hk0). ring. }
  rewrite sumn_sub in E. lra.
Qed.

Definition colsum (a : csc) (ps : list nat) (i : nat) : Q :=
  suml (map (fun p => if (nth p (ci a) O =? i)%nat then nth p (cx a) 0 else 0) ps).

Definition W (st : dupl_state) := fst (fst st).
Definition OI (st : dupl_state) := snd (fst st).
Definition OX (st : dupl_state) := snd st.

Section Column.
Variable a : csc.
Variable q : nat.
Variables (oi0 : list nat) (ox0 : list Q).

Record dinv (ps : list nat) (st : dupl_state) : Prop := {
  d_len : length (OI st) = length (OX st);
  d_q : (q <= length (OI st))%nat;
  d_wlen : length (W st) = cm a;
  d_w1 : forall i pos, nth i (W st) None = Some pos -> (pos < length (OI st))%nat /\ ((q <= pos)%nat -> nth pos (OI st) O = i);
  d_w2 : forall pos, (q <= pos)%nat -> (pos < length (OI st))%nat -> nth (nth pos (OI st) O) (W st) None = Some pos;
  d_sum : forall i, bsum q (length (OI st) - q) (OI st) (OX st) i == colsum a ps i;
  d_pre : forall pos, (pos < q)%nat -> nth pos (OI st) O = nth pos oi0 O /\ nth pos (OX st) 0 = nth pos ox0 0 }.

Lemma colsum_snoc ps p i : colsum a (ps ++ [p]) i == colsum a ps i + (if (nth p (ci a) O =? i)%nat then nth p (cx a) 0 else 0).
Proof. unfold colsum. rewrite map_app, suml_app. simpl. lra. Qed.

(* a row index met for the first time in the column: appended *)
Lemma fresh_inv ps w oi ox p : dinv ps (w, oi, ox) -> (nth p (ci a) O < cm a)%nat ->
  (forall pos, nth (nth p (ci a) O) w None = Some pos -> (pos < q)%nat) ->
  dinv (ps ++ [p]) (upd w (nth p (ci a) O) (Some (length oi)), oi ++ [nth p (ci a) O], ox ++ [nth p (cx a) 0]).
Proof.
  intros [Hlen Hq Hwl Hw1 Hw2 Hsum Hpre] Hrow Hstale. unfold W, OI, OX in *. simpl in *.
  set (i0 := nth p (ci a) O) in *. set (c := nth p (cx a) 0). set (L := length oi) in *.
  assert (Hi0 : (i0 < length w)%nat) by lia.
  constructor; unfold W, OI, OX; simpl.
  - rewrite !app_length. simpl. lia.
  - rewrite app_length. simpl. lia.
  - rewrite upd_length. assumption.
  - intros i pos H. rewrite app_length. simpl. destruct (Nat.eq_dec i i0) as [->|Hne].
    + rewrite nth_upd_same in H by assumption. inversion H; subst pos. split; [lia|]. intros _.
      rewrite app_nth2 by lia. fold L. rewrite Nat.sub_diag. reflexivity.
    + rewrite nth_upd_other in H by assumption. destruct (Hw1 i pos H) as [H1 H2]. split; [lia|].
      intro Hqp. rewrite app_nth1 by assumption. apply H2. assumption.
  - intros pos Hqp Hpos. rewrite app_length in Hpos. simpl in Hpos.
    destruct (Nat.eq_dec pos L) as [->|Hne].
    + rewrite app_nth2 by (fold L; lia). fold L. rewrite Nat.sub_diag. simpl. apply nth_upd_same. assumption.
    + assert (Hpos' : (pos < L)%nat) by lia. rewrite app_nth1 by assumption.
      pose proof (Hw2 pos Hqp Hpos') as H. destruct (Nat.eq_dec (nth pos oi O) i0) as [E|E].
      * rewrite E in H. specialize (Hstale pos H). lia.
      * rewrite nth_upd_other by assumption. exact H.
  - intro i. rewrite app_length. simpl. fold L. replace (L + 1 - q)%nat with (S (L - q)) by lia.
    unfold bsum. simpl sumn. rewrite colsum_snoc. fold i0. fold c.
    replace (q + (L - q))%nat with L by lia.
    rewrite (app_nth2 oi [i0]) by (fold L; lia). rewrite (app_nth2 ox [c]) by (rewrite <- Hlen; fold L; lia).
    rewrite <- Hlen. fold L. rewrite Nat.sub_diag. simpl nth.
    apply Qplus_comp; [|reflexivity]. rewrite <- Hsum. unfold bsum. apply sumn_ext. intros t Ht.
    rewrite !app_nth1 by (try rewrite <- Hlen; fold L; lia). reflexivity.
  - intros pos Hp. destruct (Hpre pos Hp) as [H1 H2]. rewrite !app_nth1 by (try rewrite <- Hlen; fold L; lia). auto.
Qed.

Lemma dupl_step_inv ps st p : dinv ps st -> (nth p (ci a) O < cm a)%nat -> dinv (ps ++ [p]) (dupl_step a q st p).
Proof.
  intros Hinv Hrow. destruct st as [[w oi] ox]. unfold dupl_step. simpl.
  destruct (nth (nth p (ci a) O) w None) as [pos|] eqn:Ew.
  - destruct (q <=? pos)%nat eqn:Eq.
    + apply Nat.leb_le in Eq. destruct Hinv as [Hlen Hq Hwl Hw1 Hw2 Hsum Hpre]. unfold W, OI, OX in *. simpl in *.
      destruct (Hw1 _ _ Ew) as [Hpos Hrowpos]. specialize (Hrowpos Eq).
      set (i0 := nth p (ci a) O) in *. set (c := nth p (cx a) 0).
      constructor; unfold W, OI, OX; simpl; auto.
      * rewrite upd_length. assumption.
      * intro i. rewrite colsum_snoc. fold i0. fold c. rewrite <- Hsum. unfold bsum.
        apply (sumn_change_one _ _ _ (pos - q)%nat).
        -- lia.
        -- intros t Ht Hne. rewrite nth_upd_other by lia. reflexivity.
        -- replace (q + (pos - q))%nat with pos by lia. rewrite Hrowpos.
           rewrite nth_upd_same by (rewrite <- Hlen; assumption). destruct (i0 =? i)%nat; ring.
      * intros pos' Hp. destruct (Hpre pos' Hp) as [H1 H2]. split; [assumption|]. rewrite nth_upd_other by lia. assumption.
    + apply Nat.leb_gt in Eq. apply fresh_inv; auto. intros pos' H. rewrite Ew in H. inversion H; subst. assumption.
  - apply fresh_inv; auto. intros pos' H. rewrite Ew in H. discriminate H.
Qed.

Lemma dupl_col_inv : forall ps2 ps1 st, dinv ps1 st -> (forall p, In p ps2 -> (nth p (ci a) O < cm a)%nat) ->
  dinv (ps1 ++ ps2) (fold_left (dupl_step a q) ps2 st).
Proof.
  induction ps2 as [|p ps2 IH]; intros ps1 st Hinv Hrows; simpl.
  - rewrite app_nil_r. assumption.
  - replace (ps1 ++ p :: ps2) with ((ps1 ++ [p]) ++ ps2) by (rewrite <- app_assoc; reflexivity).
    apply IH; [apply dupl_step_inv; [assumption|apply Hrows; left; reflexivity] | intros; apply Hrows; right; assumption].
Qed.
End Column.

(* the content of column j in terms of its positions *)
Lemma colsum_abs a j i : colsum a (colpos a j) i == abs_csc a i j.
Proof. unfold colsum, colpos, abs_csc. rewrite suml_seq_shift. reflexivity. Qed.

Definition rows_in (a : csc) : Prop := forall j p, (j < cn a)%nat -> In p (colpos a j) -> (nth p (ci a) O < cm a)%nat.

(* outer loop over the columns *)
Definition col_step (a : csc) (acc : dupl_state * list nat) (j : nat) : dupl_state * list nat :=
  (fold_left (dupl_step a (length (OI (fst acc)))) (colpos a j) (fst acc), snd acc ++ [length (OI (fst acc))]).

Record oinv (a : csc) (k : nat) (acc : dupl_state * list nat) : Prop := {
  o_len : length (OI (fst acc)) = length (OX (fst acc));
  o_wlen : length (W (fst acc)) = cm a;
  o_cp : length (snd acc) = k;
  o_stale : forall i pos, nth i (W (fst acc)) None = Some pos -> (pos < length (OI (fst acc)))%nat;
  o_mono : forall j, (j < k)%nat -> (nth j (snd acc ++ [length (OI (fst acc))]) O <= nth (S j) (snd acc ++ [length (OI (fst acc))]) O)%nat /\
                                  (nth (S j) (snd acc ++ [length (OI (fst acc))]) O <= length (OI (fst acc)))%nat;
  o_abs : forall j i, (j < k)%nat ->
     bsum (nth j (snd acc ++ [length (OI (fst acc))]) O)
          (nth (S j) (snd acc ++ [length (OI (fst acc))]) O - nth j (snd acc ++ [length (OI (fst acc))]) O)
          (OI (fst acc)) (OX (fst acc)) i == abs_csc a i j }.

Lemma nth_snoc_lt {A} (l : list A) x d j : (j < length l)%nat -> nth j (l ++ [x]) d = nth j l d.
Proof. intro H. apply app_nth1. assumption. Qed.
Lemma nth_snoc_eq {A} (l : list A) x d : nth (length l) (l ++ [x]) d = x.
Proof. rewrite app_nth2 by lia. rewrite Nat.sub_diag. reflexivity. Qed.

Lemma col_step_inv a k acc : rows_in a -> (k < cn a)%nat -> oinv a k acc -> oinv a (S k) (col_step a acc k).
Proof.
  intros Hrows Hk [Hlen Hwl Hcp Hstale Hmono Habs].
  destruct acc as [st Cp]. simpl in *. set (q := length (OI st)) in *.
  assert (I0 : dinv a q (OI st) (OX st) [] st).
  { constructor; auto.
    - intros i pos H. split; [apply (Hstale i pos H)|]. intro Hq. specialize (Hstale i pos H). fold q in Hstale. lia.
    - intros pos H1 H2. fold q in H2. lia.
    - intro i. fold q. rewrite Nat.sub_diag. reflexivity. }
  pose proof (dupl_col_inv a q (OI st) (OX st) (colpos a k) [] st I0 (fun p Hp => Hrows k p Hk Hp)) as [Dlen Dq Dwl Dw1 Dw2 Dsum Dpre].
  simpl app in *. unfold col_step. simpl fst. simpl snd.
  set (st' := fold_left (dupl_step a q) (colpos a k) st) in *.
  set (L' := length (OI st')) in *.
  (* the new column-pointer list *)
  assert (N1 : forall j, (j <= k)%nat -> nth j ((Cp ++ [q]) ++ [L']) O = nth j (Cp ++ [q]) O).
  { intros j Hj. apply app_nth1. rewrite app_length. simpl. lia. }
  assert (N2 : nth (S k) ((Cp ++ [q]) ++ [L']) O = L').
  { replace (S k) with (length (Cp ++ [q])) by (rewrite app_length; simpl; lia). apply nth_snoc_eq. }
  assert (N3 : nth k (Cp ++ [q]) O = q) by (rewrite <- Hcp; apply nth_snoc_eq).
  constructor; simpl; fold q; fold st'; fold L'.
  - assumption.
  - assumption.
  - rewrite app_length. simpl. lia.
  - intros i pos H. apply (Dw1 i pos H).
  - intros j Hj. destruct (Nat.eq_dec j k) as [->|Hne].
    + rewrite N1, N2, N3 by lia. lia.
    + rewrite !N1 by lia. destruct (Hmono j) as [M1 M2]; [lia|]. split; [assumption|]. lia.
  - intros j i Hj. destruct (Nat.eq_dec j k) as [->|Hne].
    + rewrite N1, N2, N3 by lia. rewrite Dsum. apply colsum_abs.
    + assert (Hjk : (j < k)%nat) by lia. rewrite !N1 by lia.
      destruct (Hmono j Hjk) as [M1 M2]. rewrite <- (Habs j i Hjk). unfold bsum. apply sumn_ext. intros t Ht.
      destruct (Dpre (nth j (Cp ++ [q]) O + t)%nat) as [P1 P2]; [lia|]. rewrite P1, P2. reflexivity.
Qed.

Lemma col_fold_inv a : rows_in a -> forall m k acc, (k + m <= cn a)%nat -> oinv a k acc ->
  oinv a (k + m) (fold_left (col_step a) (seq k m) acc).
Proof.
  intros Hrows. induction m as [|m IH]; intros k acc Hkm Hinv; simpl.
  - rewrite Nat.add_0_r. assumption.
  - replace (k + S m)%nat with (S k + m)%nat by lia. apply IH; [lia|]. apply col_step_inv; [assumption|lia|assumption].
Qed.

Lemma cs_dupl_fold a : cs_dupl a =
  let r := fold_left (col_step a) (seq 0 (cn a)) ((repeat None (cm a), [], []), []) in
  mkC (cm a) (cn a) (snd r ++ [length (OI (fst r))]) (OI (fst r)) (OX (fst r)) (chx a).
Proof. reflexivity. Qed.

(* cs_dupl: same dimensions, same mathematical content *)
Theorem cs_dupl_spec a : rows_in a ->
  cm (cs_dupl a) = cm a /\ cn (cs_dupl a) = cn a /\ length (cp (cs_dupl a)) = S (cn a) /\
  forall i j, (j < cn a)%nat -> abs_csc (cs_dupl a) i j == abs_csc a i j.
Proof.
  intro Hrows. rewrite cs_dupl_fold. simpl. split; [reflexivity|]. split; [reflexivity|].
  assert (I0 : oinv a 0 ((repeat None (cm a), [], []), [])).
  { constructor; simpl; auto.
    - apply repeat_length.
    - intros i0 pos H. unfold W in H. simpl in H. destruct (Nat.lt_ge_cases i0 (cm a)).
      + rewrite nth_repeat in H. discriminate H.
      + rewrite nth_overflow in H by (rewrite repeat_length; assumption). discriminate H.
    - intros j0 Hj0. lia.
    - intros j0 i0 Hj0. lia. }
  pose proof (col_fold_inv a Hrows (cn a) 0 _ (Nat.le_refl _) I0) as [_ _ Hcp _ _ Habs].
  simpl in Habs, Hcp. split.
  - rewrite app_length, Hcp. simpl. lia.
  - intros i j Hj. apply (Habs j i Hj).
Qed.

(* ------------------------------------------------------------------ NF_Triplet::buildCsFromTriplet = cs_dupl . cs_triplet *)
Lemma upd_Forall {A} (P : A -> Prop) l k v : Forall P l -> P v -> Forall P (upd l k v).
Proof.
  revert k. induction l as [|x l IH]; intros [|k] Hl Hv; simpl; auto; inversion Hl; subst; constructor; auto.
Qed.
Lemma Forall_repeat {A} (P : A -> Prop) x n : P x -> Forall P (repeat x n).
Proof. intro H. induction n; simpl; constructor; auto. Qed.
Lemma scatter_rows (P : nat -> Prop) : forall S st, Forall P (snd (fst st)) -> (forall e, In e S -> P (eoth e)) ->
  Forall P (snd (fst (fold_left scatter_step S st))).
Proof.
  induction S as [|e S IH]; intros st H HS; simpl; [assumption|].
  apply IH; [|intros; apply HS; right; assumption].
  unfold scatter_step. simpl. apply upd_Forall; [assumption|apply HS; left; reflexivity].
Qed.
Lemma trip_m_bound T : forall t, In t T -> (trow t < trip_m T)%nat.
Proof.
  unfold trip_m. assert (G : forall T m0 t, (In t T -> (trow t < fold_left (fun m t => Nat.max m (S (trow t))) T m0)%nat) /\
                                            (m0 <= fold_left (fun m t => Nat.max m (S (trow t))) T m0)%nat).
  { induction T0 as [|a T0 IH]; intros m0 t; simpl.
    - split; [tauto|lia].
    - split.
      + intros [->|Hin].
        * destruct (IH (Nat.max m0 (S (trow t))) t) as [_ H]. lia.
        * apply IH. assumption.
      + destruct (IH (Nat.max m0 (S (trow a))) t) as [_ H]. lia. }
  intros t Ht. apply G. assumption.
Qed.
Lemma rows_in_triplet T : rows_in (cs_triplet T).
Proof.
  intros j p Hj _.
  assert (Hpos : (0 < trip_m T)%nat).
  { destruct T as [|t0 T']; [unfold cs_triplet, cs_triplet_dims, trip_n in Hj; simpl in Hj; lia|].
    pose proof (trip_m_bound (t0 :: T') t0 (or_introl eq_refl)). lia. }
  assert (F : Forall (fun x => (x < trip_m T)%nat) (ci (cs_triplet T))).
  { unfold cs_triplet, cs_triplet_dims, bucket. simpl ci. apply scatter_rows.
    - cbn [fst snd]. apply Forall_repeat. exact Hpos.
    - intros e He. apply in_map_iff in He. destruct He as [t [<- Ht]]. unfold eoth; simpl. apply trip_m_bound. assumption. }
  simpl cm. destruct (Nat.lt_ge_cases p (length (ci (cs_triplet T)))) as [Hp|Hp].
  - rewrite Forall_forall in F. apply F. apply nth_In. assumption.
  - rewrite nth_overflow by assumption. assumption.
Qed.

Lemma abs_csc_overflow a i j : length (cp a) = S (cn a) -> (cn a <= j)%nat -> abs_csc a i j == 0.
Proof.
  intros H Hj. unfold abs_csc, collen. rewrite (nth_overflow (cp a) O) by lia. simpl. reflexivity.
Qed.

(* the csparse storage built from any triplet list holds the accumulated triplets *)
Theorem buildCs_spec T : forall i j, abs_csc (buildCs T) i j == abs_trip T i j.
Proof.
  intros i j. unfold buildCs. destruct (cs_dupl_spec (cs_triplet T) (rows_in_triplet T)) as [_ [Hn [Hl H]]].
  destruct (Nat.lt_ge_cases j (cn (cs_triplet T))) as [Hj|Hj].
  - rewrite H by assumption. apply cs_compress_spec.
  - rewrite abs_csc_overflow by (try rewrite Hn; assumption). rewrite <- (cs_compress_spec T i j).
    symmetry. apply abs_csc_overflow; [|assumption].
    unfold cs_triplet, cs_triplet_dims. simpl.
    destruct (bucket_spec (trip_n T) (map (fun t => (tcol t, trow t, tval t)) T)) as [L _]; [|exact L].
    intros e He. apply in_map_iff in He. destruct He as [t [<- Ht]]. simpl. apply trip_n_bound. assumption.
Qed.

(* storage agreement of the two sparse back-ends, complete *)
Theorem storage_agree_full T nrow ncol i j :
  (i < nr (sem (SE_create T nrow ncol)))%nat -> (j < nc (sem (SE_create T nrow ncol)))%nat ->
  getv (sem (SE_create T nrow ncol)) i j == abs_csc (scs (SC_create T nrow ncol)) i j.
Proof.
  intros Hi Hj. unfold SE_create in *. simpl in *. rewrite getv_tab by assumption.
  unfold SC_create. simpl. rewrite buildCs_spec. reflexivity.
Qed.

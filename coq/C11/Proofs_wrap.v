(* C11 proofs, part 8: MatrixSparse wrappers refine the same abstract matrix as the dense classes. *)
From Coq Require Import List ZArith QArith Qabs Bool Arith Lia Lqa Setoid Morphisms.
From Gst Require Import lib.QAux C11.Sums C11.Spec C11.Model C11.Model_sparse C11.Proofs C11.Proofs_ops C11.Proofs_sparse
  C11.Proofs_dupl C11.Proofs_scatter.
Import ListNotations.
Local Open Scope Q_scope.

(* the two formulations of "row indices are inside the matrix" *)
Lemma rows_in_ok a : rows_in a -> rows_ok a.
Proof.
  intros H t Ht. unfold csc_stream in Ht. apply in_flat_map in Ht. destruct Ht as [j [Hj Ht]].
  apply in_map_iff in Ht. destruct Ht as [q [<- Hq]]. unfold trow; simpl. apply in_seq in Hj. apply (H j q); [lia|assumption].
Qed.

(* well-formed csparse storage: rows inside, one column pointer per column plus one *)
Definition wf_csc (a : csc) : Prop := rows_in a /\ length (cp a) = S (cn a).

Lemma wf_transpose a c : rows_in a -> (0 < cm a)%nat -> (0 < cn a)%nat -> cs_transpose a true = Some c -> wf_csc c.
Proof.
  intros Hr Hm Hn E. unfold cs_transpose in E.
  destruct (cm a =? 0)%nat eqn:E1; [apply Nat.eqb_eq in E1; lia|].
  destruct (cn a =? 0)%nat eqn:E2; [apply Nat.eqb_eq in E2; lia|]. simpl in E. inversion E; subst c; clear E.
  set (S := map (fun t => (trow t, tcol t, tval t)) (csc_stream a)).
  assert (HK : forall e, In e S -> (ekey e < cm a)%nat).
  { intros e He. unfold S in He. apply in_map_iff in He. destruct He as [t [<- Ht]]. unfold ekey; simpl.
    apply (rows_in_ok a Hr). assumption. }
  split.
  - intros j p _ _. simpl.
    assert (F : Forall (fun x => (x < cn a)%nat) (snd (fst (bucket (cm a) S)))).
    { unfold bucket. cbn [fst snd]. apply scatter_rows.
      - cbn [fst snd]. apply Forall_repeat. exact Hn.
      - intros e He. unfold S in He. apply in_map_iff in He. destruct He as [t [<- Ht]]. unfold eoth; simpl.
        apply stream_cols. assumption. }
    destruct (Nat.lt_ge_cases p (length (snd (fst (bucket (cm a) S))))) as [Hp|Hp].
    + rewrite Forall_forall in F. apply F. apply nth_In. assumption.
    + rewrite nth_overflow by assumption. assumption.
  - simpl. destruct (bucket_spec (cm a) S HK) as [L _]. exact L.
Qed.

(* op(A) on the csparse side: cs_transpose(A, 1) when the flag is set *)
Definition cs_op (t : bool) (a : csc) : option csc := if t then cs_transpose a true else Some a.
Lemma cs_op_spec t a : wf_csc a -> (0 < cm a)%nat -> (0 < cn a)%nat ->
  exists c, cs_op t a = Some c /\ wf_csc c /\ cm c = (if t then cn a else cm a) /\ cn c = (if t then cm a else cn a) /\
    forall i j, (i < cm c)%nat -> (j < cn c)%nat -> abs_csc c i j == opT t (abs_csc a) i j.
Proof.
  intros [Hr Hl] Hm Hn. destruct t; simpl.
  - destruct (cs_transpose_spec a (rows_in_ok a Hr) Hm Hn) as [c [E [C1 [C2 G]]]].
    exists c. split; [exact E|]. split; [apply (wf_transpose a c Hr Hm Hn E)|]. split; [exact C1|]. split; [exact C2|].
    intros i j Hi Hj. unfold mT. apply G; lia.
  - exists a. split; [reflexivity|]. split; [split; assumption|]. split; [reflexivity|]. split; [reflexivity|]. intros; reflexivity.
Qed.

(* MatrixSparse::prodMatMatInPlace, csparse back-end, the four transposition flags *)
Lemma SC_prodMatMat_spec (s x y : spc) (tx ty : bool) :
  wf_csc (scs x) -> wf_csc (scs y) -> (0 < cm (scs x))%nat -> (0 < cn (scs x))%nat -> (0 < cm (scs y))%nat -> (0 < cn (scs y))%nat ->
  (if tx then cm (scs x) else cn (scs x)) = (if ty then cn (scs y) else cm (scs y)) ->
  exists s', SC_prodMatMat s x y tx ty = Ok s' /\ wf_csc (scs s') /\
    cm (scs s') = (if tx then cn (scs x) else cm (scs x)) /\ cn (scs s') = (if ty then cm (scs y) else cn (scs y)) /\
    forall i j, (i < cm (scs s'))%nat -> (j < cn (scs s'))%nat ->
      abs_csc (scs s') i j == mmul (if tx then cm (scs x) else cn (scs x)) (opT tx (abs_csc (scs x))) (opT ty (abs_csc (scs y))) i j.
Proof.
  intros Wx Wy X1 X2 Y1 Y2 Hk.
  destruct (cs_op_spec tx (scs x) Wx X1 X2) as [cx0 [Ex [[Rx Lx] [Mx [Nx Gx]]]]].
  destruct (cs_op_spec ty (scs y) Wy Y1 Y2) as [cy0 [Ey [[Ry Ly] [My [Ny Gy]]]]].
  unfold SC_prodMatMat. unfold cs_op in Ex, Ey. rewrite Ex, Ey.
  assert (Hk' : cn cx0 = cm cy0) by (rewrite Nx, My; exact Hk).
  rewrite Hk', Nat.eqb_refl.
  destruct (cs_multiply_spec cx0 cy0 Rx Ry Hk') as [C1 [C2 [C3 [C4 C5]]]].
  eexists. split; [reflexivity|]. simpl. split; [split; assumption|]. split; [congruence|]. split; [congruence|].
  intros i j Hi Hj. rewrite C5 by congruence. unfold mmul. rewrite Nx.
  apply sumn_ext. intros k Hk2. rewrite Gx, Gy by (try rewrite Nx; try rewrite <- Hk'; try rewrite Nx; congruence || lia). reflexivity.
Qed.

(* MatrixSparse::addMatInPlace and prodScalar, csparse back-end *)
Lemma SC_addMat_spec s y cx0 cy0 : rows_in (scs s) -> rows_in (scs y) -> cm (scs y) = cm (scs s) -> cn (scs s) = cn (scs y) ->
  exists s', SC_addMat s y cx0 cy0 = Ok s' /\ wf_csc (scs s') /\ cm (scs s') = cm (scs s) /\ cn (scs s') = cn (scs s) /\
    forall i j, (i < cm (scs s))%nat -> (j < cn (scs s))%nat ->
      abs_csc (scs s') i j == mlin2 cx0 (abs_csc (scs s)) cy0 (abs_csc (scs y)) i j.
Proof.
  intros Rs Ry Hm Hn. unfold SC_addMat. rewrite Hm, Hn, !Nat.eqb_refl. simpl.
  destruct (cs_add_spec (scs s) (scs y) cx0 cy0 Rs Ry Hm Hn) as [C1 [C2 [C3 [C4 C5]]]].
  eexists. split; [reflexivity|]. simpl. split; [split; assumption|]. split; [assumption|]. split; [congruence|].
  intros i j Hi Hj. rewrite C5 by congruence. reflexivity.
Qed.
Lemma SC_prodScalar_spec s v : rows_in (scs s) -> isOne v = false ->
  exists s', SC_prodScalar s v = Ok s' /\ wf_csc (scs s') /\
    forall i j, (i < cm (scs s))%nat -> (j < cn (scs s))%nat -> abs_csc (scs s') i j == mscal v (abs_csc (scs s)) i j.
Proof.
  intros Rs Hv. unfold SC_prodScalar. rewrite Hv.
  destruct (cs_add_spec (scs s) (scs s) v 0 Rs Rs eq_refl eq_refl) as [C1 [C2 [C3 [C4 C5]]]].
  eexists. split; [reflexivity|]. simpl. split; [split; assumption|].
  intros i j Hi Hj. rewrite C5 by assumption. unfold mscal. ring.
Qed.

(* MatrixSparse::prodNormMatMatInPlace, csparse back-end: cs_prod_norm(mode, M, A) = t(A).M.A or A.M.t(A) *)
Lemma SC_prodNormMatMat_spec (s a m : spc) (t : bool) :
  wf_csc (scs a) -> wf_csc (scs m) -> (0 < cm (scs a))%nat -> (0 < cn (scs a))%nat ->
  cm (scs m) = (if t then cm (scs a) else cn (scs a)) -> cn (scs m) = (if t then cm (scs a) else cn (scs a)) ->
  exists s', SC_prodNormMatMat s a m t = Ok s' /\ wf_csc (scs s') /\
    forall i j, (i < (if t then cn (scs a) else cm (scs a)))%nat -> (j < (if t then cn (scs a) else cm (scs a)))%nat ->
      abs_csc (scs s') i j == mcongr t (if t then cm (scs a) else cn (scs a)) (abs_csc (scs a)) (abs_csc (scs m)) i j.
Proof.
  intros [Ra La] [Rm Lm] A1 A2 Hm1 Hm2.
  destruct (cs_transpose_spec (scs a) (rows_in_ok _ Ra) A1 A2) as [bt [Et [T1 [T2 Gt]]]].
  destruct (wf_transpose (scs a) bt Ra A1 A2 Et) as [Rt Lt].
  unfold SC_prodNormMatMat, cs_prod_norm. rewrite Et. destruct t.
  - (* t(A).M.A *)
    rewrite Hm1, Hm2, !Nat.eqb_refl. simpl andb. cbv iota.
    destruct (cs_multiply_spec bt (scs m) Rt Rm) as [P1 [P2 [P3 [P4 P5]]]]; [congruence|].
    destruct (cs_multiply_spec (cs_multiply bt (scs m)) (scs a) P4 Ra) as [Q1 [Q2 [Q3 [Q4 Q5]]]]; [congruence|].
    eexists. split; [reflexivity|]. simpl. split; [split; assumption|].
    intros i j Hi Hj. rewrite Q5 by congruence. unfold mcongr, mmul. simpl opT. rewrite P2, Hm2.
    apply sumn_ext. intros l Hl. rewrite P5 by congruence. rewrite T2.
    apply Qmult_comp; [|reflexivity]. apply sumn_ext. intros k Hk. unfold mT. rewrite Gt by assumption. reflexivity.
  - (* A.M.t(A) *)
    rewrite Hm1, Hm2, !Nat.eqb_refl. simpl andb. cbv iota.
    destruct (cs_multiply_spec (scs a) (scs m) Ra Rm) as [P1 [P2 [P3 [P4 P5]]]]; [congruence|].
    destruct (cs_multiply_spec (cs_multiply (scs a) (scs m)) bt P4 Rt) as [Q1 [Q2 [Q3 [Q4 Q5]]]]; [congruence|].
    eexists. split; [reflexivity|]. simpl. split; [split; assumption|].
    intros i j Hi Hj. rewrite Q5 by congruence. unfold mcongr, mmul. simpl opT. rewrite P2, Hm2.
    apply sumn_ext. intros l Hl. rewrite P5 by congruence.
    apply Qmult_comp; [reflexivity|]. unfold mT. apply Gt; assumption.
Qed.

(* Eigen back-end: the same statements through the contract calls *)
Lemma SE_prodMatMat_spec s x y tx ty : dimc tx (sem x) = dimr ty (sem y) ->
  exists s', SE_prodMatMat s x y tx ty = Ok s' /\ nr (sem s') = dimr tx (sem x) /\ nc (sem s') = dimc ty (sem y) /\
    forall i j, (i < dimr tx (sem x))%nat -> (j < dimc ty (sem y))%nat ->
      getv (sem s') i j = mmul (dimc tx (sem x)) (opT tx (absd (sem x))) (opT ty (absd (sem y))) i j.
Proof.
  intro H. destruct (e_mul_ok tx ty (sem x) (sem y) H) as [r [E [R1 [R2 [W G]]]]].
  unfold SE_prodMatMat. rewrite E. eexists. split; [reflexivity|]. simpl. auto.
Qed.
Lemma SE_addMat_spec s y cx0 cy0 : nr (sem s) = nr (sem y) -> nc (sem s) = nc (sem y) ->
  exists s', SE_addMat s y cx0 cy0 = Ok s' /\ nr (sem s') = nr (sem s) /\ nc (sem s') = nc (sem s) /\
    forall i j, (i < nr (sem s))%nat -> (j < nc (sem s))%nat ->
      getv (sem s') i j = mlin2 cx0 (absd (sem s)) cy0 (absd (sem y)) i j.
Proof.
  intros H1 H2. unfold SE_addMat, e_lin2, isSameSize. rewrite H1, H2, !Nat.eqb_refl. simpl.
  eexists. split; [reflexivity|]. simpl. split; [congruence|]. split; [congruence|].
  intros i j Hi Hj. rewrite getv_tab by congruence. reflexivity.
Qed.

(* "dense and sparse agree": the same abstract operands give the same abstract product in the three storages *)
Lemma storages_agree_prodMatMat d dx dy sx sy ex ey tx ty s0 e0 :
  wf_csc (scs sx) -> wf_csc (scs sy) -> (0 < nr dx)%nat -> (0 < nc dx)%nat -> (0 < nr dy)%nat -> (0 < nc dy)%nat ->
  cm (scs sx) = nr dx -> cn (scs sx) = nc dx -> cm (scs sy) = nr dy -> cn (scs sy) = nc dy ->
  nr (sem ex) = nr dx -> nc (sem ex) = nc dx -> nr (sem ey) = nr dy -> nc (sem ey) = nc dy ->
  meq (nr dx) (nc dx) (abs_csc (scs sx)) (absd dx) -> meq (nr dy) (nc dy) (abs_csc (scs sy)) (absd dy) ->
  meq (nr dx) (nc dx) (absd (sem ex)) (absd dx) -> meq (nr dy) (nc dy) (absd (sem ey)) (absd dy) ->
  dimc tx dx = dimr ty dy -> nr d = dimr tx dx -> nc d = dimc ty dy ->
  exists rd rs re, D_prodMatMat d dx dy tx ty = Ok rd /\ SC_prodMatMat s0 sx sy tx ty = Ok rs /\ SE_prodMatMat e0 ex ey tx ty = Ok re /\
    forall i j, (i < nr d)%nat -> (j < nc d)%nat ->
      abs_csc (scs rs) i j == getv rd i j /\ getv (sem re) i j == getv rd i j.
Proof.
  intros Wx Wy X1 X2 Y1 Y2 Cx1 Cx2 Cy1 Cy2 Ex1 Ex2 Ey1 Ey2 Mx My Nx Ny Hk Hr Hc.
  destruct (prodMatMat_dense d dx dy tx ty Hk Hr Hc) as [rd [Ed [_ [_ [_ Md]]]]].
  assert (Hk1 : (if tx then cm (scs sx) else cn (scs sx)) = (if ty then cn (scs sy) else cm (scs sy)))
    by (destruct tx, ty; simpl in *; congruence).
  destruct (SC_prodMatMat_spec s0 sx sy tx ty Wx Wy) as [rs [Es [_ [Ms [Ns Gs]]]]]; try lia; try exact Hk1.
  assert (Hk2 : dimc tx (sem ex) = dimr ty (sem ey)) by (destruct tx, ty; simpl in *; congruence).
  destruct (SE_prodMatMat_spec e0 ex ey tx ty Hk2) as [re [Ee [_ [_ Ge]]]].
  exists rd, rs, re. split; [exact Ed|]. split; [exact Es|]. split; [exact Ee|].
  intros i j Hi Hj.
  assert (Hi' : (i < dimr tx dx)%nat) by congruence. assert (Hj' : (j < dimc ty dy)%nat) by congruence.
  pose proof (Md i j Hi Hj) as Hd. unfold absd in Hd at 1. rewrite Hd. split.
  - rewrite Gs by (destruct tx, ty; simpl in *; lia).
    replace (if tx then cm (scs sx) else cn (scs sx)) with (dimc tx dx) by (destruct tx; simpl; congruence).
    apply mmul_ext.
    + intros l Hl. destruct tx; simpl in *; unfold mT; apply Mx; lia.
    + intros l Hl. rewrite Hk in Hl. destruct ty; simpl in *; unfold mT; apply My; lia.
  - rewrite Ge by (destruct tx, ty; simpl in *; lia).
    replace (dimc tx (sem ex)) with (dimc tx dx) by (destruct tx; simpl; congruence).
    apply mmul_ext.
    + intros l Hl. destruct tx; simpl in *; unfold mT; apply Nx; lia.
    + intros l Hl. rewrite Hk in Hl. destruct ty; simpl in *; unfold mT; apply Ny; lia.
Qed.

(* ------------------------------------------------------------------ the storage built from triplets is well formed *)
Lemma dupl_step_rows a q (P : nat -> Prop) st p : Forall P (OI st) -> P (nth p (ci a) O) -> Forall P (OI (dupl_step a q st p)).
Proof.
  intros H Hp. destruct st as [[w oi] ox]. unfold dupl_step, OI in *. simpl in *.
  destruct (nth (nth p (ci a) O) w None) as [pos|]; [destruct (q <=? pos)%nat|]; simpl; auto;
    apply Forall_app; split; auto.
Qed.
Lemma dupl_col_rows a q (P : nat -> Prop) : forall ps st, Forall P (OI st) -> (forall p, In p ps -> P (nth p (ci a) O)) ->
  Forall P (OI (fold_left (dupl_step a q) ps st)).
Proof.
  induction ps as [|p ps IH]; intros st H Hp; simpl; [assumption|].
  apply IH; [apply dupl_step_rows; [assumption|apply Hp; left; reflexivity] | intros; apply Hp; right; assumption].
Qed.
Lemma rows_in_dupl a : rows_in a -> (0 < cm a)%nat -> rows_in (cs_dupl a).
Proof.
  intros Hr Hm. rewrite cs_dupl_fold. cbv zeta.
  assert (F : forall l k acc, (k + l <= cn a)%nat -> Forall (fun i => (i < cm a)%nat) (OI (fst acc)) ->
              Forall (fun i => (i < cm a)%nat) (OI (fst (fold_left (col_step a) (seq k l) acc)))).
  { induction l as [|l IH]; intros k acc Hk H; simpl; [assumption|].
    apply IH; [lia|]. unfold col_step. simpl fst. apply dupl_col_rows; [assumption|].
    intros p Hp. apply (Hr k p); [lia|assumption]. }
  intros j p _ _. simpl cm. simpl ci.
  specialize (F (cn a) O ((repeat None (cm a), [], []), []) (Nat.le_refl _) (Forall_nil _)).
  set (oi := OI (fst (fold_left (col_step a) (seq 0 (cn a)) (repeat None (cm a), [], [], [])))) in *.
  destruct (Nat.lt_ge_cases p (length oi)) as [Hp|Hp].
  - rewrite Forall_forall in F. apply F. apply nth_In. assumption.
  - rewrite nth_overflow by assumption. assumption.
Qed.
Lemma wf_buildCs T : T <> [] -> wf_csc (buildCs T) /\ cm (buildCs T) = trip_m T /\ cn (buildCs T) = trip_n T.
Proof.
  intro Hne. unfold buildCs.
  destruct (cs_dupl_spec (cs_triplet T) (rows_in_triplet T)) as [Hm [Hn [Hl _]]].
  assert (Hpos : (0 < cm (cs_triplet T))%nat).
  { destruct T as [|t0 T']; [contradiction|]. pose proof (trip_m_bound (t0 :: T') t0 (or_introl eq_refl)). simpl cm. lia. }
  split; [split|split].
  - apply rows_in_dupl; [apply rows_in_triplet|assumption].
  - rewrite Hl, Hn. reflexivity.
  - rewrite Hm. reflexivity.
  - rewrite Hn. reflexivity.
Qed.

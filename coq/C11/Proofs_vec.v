(* C11 proofs, part 4: triangular solves, Cholesky wrappers, numeric vector helpers. *)
From Coq Require Import List ZArith QArith Qabs Bool Arith Lia Lqa Setoid Morphisms Sorted Permutation.
From Gst Require Import lib.QAux C11.Sums C11.Spec C11.Model C11.Model_vec C11.Proofs.
Import ListNotations.
Local Open Scope Q_scope.

(* ------------------------------------------------------------------ more on finite sums *)
Lemma sumn_peel_first n f : sumn (S n) f == f O + sumn n (fun k => f (S k)).
Proof. induction n as [|n IH]; simpl in *; [lra|]. rewrite IH. lra. Qed.

Lemma sumn_extend_zero m n f : (m <= n)%nat -> (forall k, (m <= k)%nat -> (k < n)%nat -> f k == 0) -> sumn n f == sumn m f.
Proof.
  intros Hmn Hz. replace n with (m + (n - m))%nat by lia. rewrite sumn_app.
  rewrite (sumn_zero (n - m)) by (intros k Hk; apply Hz; lia). lra.
Qed.

Lemma sumn_skip_zero m n f : (m <= n)%nat -> (forall k, (k < m)%nat -> f k == 0) ->
  sumn n f == sumn (n - m) (fun k => f (m + k)%nat).
Proof.
  intros Hmn Hz. replace n with (m + (n - m))%nat at 1 by lia. rewrite sumn_app.
  rewrite (sumn_zero m) by assumption. lra.
Qed.

Lemma fold_left_cons {A B} (f : A -> B -> A) x l a : fold_left f (x :: l) a = fold_left f l (f a x).
Proof. reflexivity. Qed.

(* ------------------------------------------------------------------ forward substitution *)
Definition pivots_ok (n : nat) (L : mat) (eps : Q) : Prop :=
  forall i, (i < n)%nat -> qltb (Qabs (L i i)) eps = false /\ ~ L i i == 0.

Lemma forward_fold L b eps : forall m s x, length x = s ->
  (forall i, (s <= i)%nat -> (i < s + m)%nat -> qltb (Qabs (L i i)) eps = false /\ ~ L i i == 0) ->
  (forall i, (i < s)%nat -> sumn (S i) (fun j => L i j * nth j x 0) == b i) ->
  exists y, fold_left (fwd_step L b eps) (seq s m) (Some x) = Some y /\ length y = (s + m)%nat /\
    forall i, (i < s + m)%nat -> sumn (S i) (fun j => L i j * nth j y 0) == b i.
Proof.
  induction m as [|m IH]; intros s x Lx Hp Hinv.
  - exists x. simpl. rewrite Nat.add_0_r. auto.
  - destruct (Hp s) as [Hp1 Hp2]; [lia|lia|].
    set (v := (b s - sumn s (fun j => L s j * nth j x 0)) / L s s).
    assert (Estep : fwd_step L b eps (Some x) s = Some (x ++ [v])) by (unfold fwd_step; rewrite Hp1; reflexivity).
    change (seq s (S m)) with (s :: seq (S s) m). rewrite fold_left_cons, Estep.
    destruct (IH (S s) (x ++ [v])) as [y [E [Ly G]]].
    + rewrite app_length; simpl; lia.
    + intros i H1 H2. apply Hp; lia.
    + intros i Hi. destruct (Nat.eq_dec i s) as [->|Hne].
      * simpl sumn. rewrite (sumn_ext s _ (fun j => L s j * nth j x 0)).
        -- rewrite app_nth2 by lia. rewrite Lx, Nat.sub_diag. simpl nth. unfold v. field. exact Hp2.
        -- intros k Hk. rewrite app_nth1 by lia. reflexivity.
      * rewrite <- (Hinv i) by lia. apply sumn_ext. intros k Hk. rewrite app_nth1 by lia. reflexivity.
    + exists y. split; [exact E|]. split; [lia|]. intros i Hi. apply G. lia.
Qed.

Lemma forward_subst_spec n L b eps : pivots_ok n L eps ->
  exists y, forward_subst n L b eps = Some y /\ length y = n /\
    forall i, (i < n)%nat -> sumn (S i) (fun j => L i j * nth j y 0) == b i.
Proof.
  intro Hp. unfold forward_subst. destruct (forward_fold L b eps n O []) as [y [E [Ly G]]].
  - reflexivity.
  - intros i _ Hi. apply Hp. lia.
  - intros i Hi. lia.
  - exists y. auto.
Qed.

(* for a lower-triangular L this is L.y = b *)
Lemma forward_subst_solves n L b eps : pivots_ok n L eps -> mlower n L ->
  exists y, forward_subst n L b eps = Some y /\ length y = n /\ veq n (mvec n L (vl y)) b.
Proof.
  intros Hp Hl. destruct (forward_subst_spec n L b eps Hp) as [y [E [Ly G]]].
  exists y. split; [exact E|]. split; [exact Ly|]. intros i Hi. unfold mvec, vl.
  rewrite (sumn_extend_zero (S i) n) by (try lia; intros k H1 H2; rewrite (Hl i k) by lia; ring).
  apply G. assumption.
Qed.

(* ------------------------------------------------------------------ backward substitution *)
Lemma backward_fold n U b eps : forall m x, (m <= n)%nat -> length x = (n - m)%nat ->
  (forall i, (i < m)%nat -> qltb (Qabs (U i i)) eps = false /\ ~ U i i == 0) ->
  (forall i, (m <= i)%nat -> (i < n)%nat -> sumn (n - i) (fun k => U i (i + k)%nat * nth (i + k - m) x 0) == b i) ->
  exists y, fold_left (bwd_step n U b eps) (rev (seq 0 m)) (Some x) = Some y /\ length y = n /\
    forall i, (i < n)%nat -> sumn (n - i) (fun k => U i (i + k)%nat * nth (i + k) y 0) == b i.
Proof.
  induction m as [|m IH]; intros x Hmn Lx Hp Hinv.
  - exists x. simpl. split; [reflexivity|]. split; [lia|]. intros i Hi. rewrite <- (Hinv i) by lia.
    apply sumn_ext. intros k _. rewrite Nat.sub_0_r. reflexivity.
  - destruct (Hp m) as [Hp1 Hp2]; [lia|].
    set (v := (b m - sumn (n - S m) (fun k => U m (S m + k)%nat * nth k x 0)) / U m m).
    assert (Estep : bwd_step n U b eps (Some x) m = Some (v :: x)) by (unfold bwd_step; rewrite Hp1; reflexivity).
    rewrite seq_S, rev_app_distr. simpl rev. simpl app. rewrite fold_left_cons, Estep.
    destruct (IH (v :: x)) as [y [E [Ly G]]].
    + lia.
    + simpl. lia.
    + intros i Hi. apply Hp. lia.
    + intros i H1 H2. destruct (Nat.eq_dec i m) as [->|Hne].
      * replace (n - m)%nat with (S (n - S m)) by lia. rewrite sumn_peel_first.
        rewrite Nat.add_0_r, Nat.sub_diag. simpl nth at 1.
        rewrite (sumn_ext (n - S m) _ (fun k => U m (S m + k)%nat * nth k x 0)).
        -- unfold v. field. exact Hp2.
        -- intros k _. replace (m + S k - m)%nat with (S k) by lia. simpl nth. replace (m + S k)%nat with (S m + k)%nat by lia. reflexivity.
      * rewrite <- (Hinv i) by lia. apply sumn_ext. intros k _.
        replace (i + k - m)%nat with (S (i + k - S m)) by lia. reflexivity.
    + exists y. auto.
Qed.

Lemma backward_subst_solves n U b eps : pivots_ok n U eps -> mupper n U ->
  exists y, backward_subst n U b eps = Some y /\ length y = n /\ veq n (mvec n U (vl y)) b.
Proof.
  intros Hp Hu. unfold backward_subst.
  destruct (backward_fold n U b eps n []) as [y [E [Ly G]]].
  - lia.
  - simpl. lia.
  - intros i Hi. apply Hp. assumption.
  - intros i H1 H2. lia.
  - exists y. split; [exact E|]. split; [exact Ly|]. intros i Hi. unfold mvec, vl.
    rewrite (sumn_skip_zero i n) by (try lia; intros k Hk; rewrite (Hu i k) by lia; ring).
    apply G. assumption.
Qed.

(* ------------------------------------------------------------------ Cholesky wrappers *)
Definition chol_factor (n : nat) (L A : mat) : Prop :=
  mlower n L /\ (forall i, (i < n)%nat -> ~ L i i == 0) /\
  (forall i j, (i < n)%nat -> (j < n)%nat -> sumn n (fun k => L i k * L j k) == A i j).

Lemma pivots_zero_eps n L : (forall i, (i < n)%nat -> ~ L i i == 0) -> pivots_ok n L 0.
Proof.
  intros H i Hi. split; [|apply H; assumption].
  apply qltb_false. apply Qabs_nonneg.
Qed.

(* A.x = L.(t(L).x) *)
Lemma chol_apply n L A x : chol_factor n L A ->
  forall i, (i < n)%nat -> mvec n A x i == mvec n L (mvec n (mT L) x) i.
Proof.
  intros [_ [_ HA]] i Hi. unfold mvec, mT.
  transitivity (sumn n (fun j => sumn n (fun k => L i k * L j k) * x j)).
  - apply sumn_ext. intros j Hj. rewrite HA by assumption. reflexivity.
  - transitivity (sumn n (fun j => sumn n (fun k => L i k * (L j k * x j)))).
    + apply sumn_ext. intros j _. rewrite <- sumn_scal_r. apply sumn_ext. intros k _. ring.
    + rewrite sumn_swap. apply sumn_ext. intros k _. rewrite sumn_scal_l. reflexivity.
Qed.

Lemma vl_vecn n (f : vec) i : (i < n)%nat -> vl (map f (seq 0 n)) i = f i.
Proof.
  intro H. unfold vl. rewrite (nth_indep _ 0 (f O)) by (rewrite map_length, seq_length; assumption).
  rewrite (map_nth f (seq 0 n) O i), seq_nth by assumption. reflexivity.
Qed.

Lemma mvec_ext n M x x' : veq n x x' -> forall i, mvec n M x i == mvec n M x' i.
Proof. intros H i. unfold mvec. apply sumn_ext. intros l Hl. rewrite (H l Hl). reflexivity. Qed.

(* ACholesky::solve: the returned vector solves A.x = b *)
Lemma chol_solve_spec n L A b : chol_factor n L A -> length b = n ->
  exists x, CH_solve n L b = Ok x /\ length x = n /\ veq n (mvec n A (vl x)) (vl b).
Proof.
  intros HF Hb. pose proof HF as [Hl [Hd HA]].
  destruct (forward_subst_solves n L (vl b) 0 (pivots_zero_eps n L Hd) Hl) as [y [Ey [Ly Gy]]].
  assert (Hu : mupper n (mT L)) by (intros i j Hi Hj Hji; unfold mT; apply Hl; assumption).
  assert (Hd' : forall i, (i < n)%nat -> ~ mT L i i == 0) by (intros i Hi; unfold mT; apply Hd; assumption).
  destruct (backward_subst_solves n (mT L) (vl y) 0 (pivots_zero_eps n (mT L) Hd') Hu) as [x [Ex [Lx Gx]]].
  exists x. unfold CH_solve, CH_InvLX, CH_InvLtX. rewrite Hb, Nat.eqb_refl, Ey. simpl rbind. rewrite Ly, Nat.eqb_refl, Ex.
  split; [reflexivity|]. split; [exact Lx|].
  intros i Hi. rewrite (chol_apply n L A (vl x) HF i Hi).
  rewrite (mvec_ext n L _ (vl y) Gx). apply Gy. assumption.
Qed.

(* simulation with A as precision matrix: s = t(L)^-1 xi satisfies A.s = L.xi, i.e. Cov(s) = A^-1 *)
Lemma chol_sim_cov n L A xi : chol_factor n L A -> length xi = n ->
  exists s, CH_InvLtX n L xi = Ok s /\ length s = n /\ veq n (mvec n A (vl s)) (mvec n L (vl xi)).
Proof.
  intros HF Hx. pose proof HF as [Hl [Hd HA]].
  assert (Hu : mupper n (mT L)) by (intros i j Hi Hj Hji; unfold mT; apply Hl; assumption).
  assert (Hd' : forall i, (i < n)%nat -> ~ mT L i i == 0) by (intros i Hi; unfold mT; apply Hd; assumption).
  destruct (backward_subst_solves n (mT L) (vl xi) 0 (pivots_zero_eps n (mT L) Hd') Hu) as [s [Es [Ls Gs]]].
  exists s. unfold CH_InvLtX. rewrite Hx, Nat.eqb_refl, Es. split; [reflexivity|]. split; [exact Ls|].
  intros i Hi. rewrite (chol_apply n L A (vl s) HF i Hi). apply mvec_ext. exact Gs.
Qed.

(* the boolean certificate used by the runner implies the factor property *)
Lemma chol_cert_sound n L A : chol_cert n L A = true -> chol_factor n L A.
Proof.
  unfold chol_cert. intro H. apply andb_true_iff in H. destruct H as [H H3]. apply andb_true_iff in H. destruct H as [H1 H2].
  rewrite forallb_forall in H1, H2, H3. split; [|split].
  - intros i j Hi Hj Hij. specialize (H3 (i, j)). simpl in H3.
    rewrite (proj2 (Nat.ltb_lt _ _) Hij) in H3. apply qeqb_true. apply H3. apply in_rowmajor. split; assumption.
  - intros i Hi E. specialize (H2 i). rewrite in_seq in H2. assert (HH : qltb 0 (L i i) = true) by (apply H2; lia).
    apply qltb_true in HH. lra.
  - intros i j Hi Hj. specialize (H1 (i, j)). simpl in H1. apply qeqb_true. apply H1. apply in_rowmajor. split; assumption.
Qed.

(* ------------------------------------------------------------------ sums and inner products *)
Lemma fold_plus_acc v : forall a, fold_left Qplus v a == a + suml v.
Proof. induction v as [|x v IH]; intro a; simpl; [lra|]. rewrite IH. lra. Qed.
Lemma VN_sum_spec v : VN_sum v == suml v.
Proof. unfold VN_sum. rewrite fold_plus_acc. lra. Qed.

Lemma fold_dot_acc : forall (a b : list Q) s,
  fold_left (fun s p => s + fst p * snd p) (combine a b) s == s + suml (map (fun p => fst p * snd p) (combine a b)).
Proof.
  intros a b. generalize (combine a b) as l. induction l as [|p l IH]; intro s; simpl; [lra|]. rewrite IH. lra.
Qed.
Lemma suml_nth_sumn (l : list Q) : suml l == sumn (length l) (fun i => nth i l 0).
Proof.
  induction l as [|x l IH]; simpl length; [reflexivity|].
  rewrite sumn_peel_first. simpl. rewrite IH. reflexivity.
Qed.
Lemma combine_nth_mul (a b : list Q) i : length a = length b ->
  nth i (map (fun p => fst p * snd p) (combine a b)) 0 == nth i a 0 * nth i b 0.
Proof.
  revert b i. induction a as [|x a IH]; intros [|y b] [|i] H; simpl in *; try discriminate; try ring.
  apply IH. lia.
Qed.
Lemma innerProduct_spec a b : length a = length b ->
  VN_innerProduct a b = Ok (fold_left (fun s p => s + fst p * snd p) (combine a b) 0) /\
  fold_left (fun s p => s + fst p * snd p) (combine a b) 0 == dot (length a) (vl a) (vl b).
Proof.
  intro H. unfold VN_innerProduct. rewrite H, Nat.eqb_refl. split; [reflexivity|].
  rewrite fold_dot_acc, suml_nth_sumn, map_length, combine_length, <- H, Nat.min_id. unfold dot, vl.
  rewrite Qplus_0_l. apply sumn_ext. intros i _. apply combine_nth_mul. assumption.
Qed.

(* ------------------------------------------------------------------ orderRanks: the stable sorting permutation *)
Section StableOrder.
Variable lt : nat -> nat -> bool.
Hypothesis lt_irrefl : forall a, lt a a = false.
Hypothesis lt_trans : forall a b c, lt a b = true -> lt b c = true -> lt a c = true.
Hypothesis lt_negtrans : forall a b c, lt a b = false -> lt b c = false -> lt a c = false.

(* (key a, a) strictly before (key b, b) in lexicographic order *)
Definition lexlt (a b : nat) : Prop := lt b a = false /\ (lt a b = true \/ (a < b)%nat).

Lemma lt_asym a b : lt a b = true -> lt b a = false.
Proof. intro H. destruct (lt b a) eqn:E; auto. rewrite <- (lt_irrefl a). symmetry. apply (lt_trans a b a); assumption. Qed.

Lemma ins_perm x l : Permutation (ins_idx lt x l) (x :: l).
Proof.
  induction l as [|y r IH]; simpl; [apply Permutation_refl|].
  destruct (lt y x); [|apply Permutation_refl].
  apply perm_trans with (y :: x :: r); [apply perm_skip; exact IH | apply perm_swap].
Qed.

Lemma ins_hd x l y : HdRel lexlt y l -> lexlt y x -> HdRel lexlt y (ins_idx lt x l).
Proof.
  intros H Hx. destruct l as [|z r]; simpl; [constructor; assumption|].
  destruct (lt z x); constructor; [inversion H; assumption | assumption].
Qed.

Lemma ins_sorted x l : Sorted lexlt l -> (forall y, In y l -> (x < y)%nat) -> Sorted lexlt (ins_idx lt x l).
Proof.
  induction l as [|y r IH]; intros Hs Hlt; simpl.
  - repeat constructor.
  - inversion Hs as [|? ? Hs' Hhd]; subst. destruct (lt y x) eqn:E.
    + constructor.
      * apply IH; [assumption|]. intros z Hz. apply Hlt. right; assumption.
      * apply ins_hd; [assumption|]. split; [apply lt_asym; assumption|left; assumption].
    + constructor; [assumption|]. constructor. split; [assumption|]. right. apply Hlt. left; reflexivity.
Qed.

Lemma stable_order_aux : forall m s,
  Sorted lexlt (fold_right (ins_idx lt) [] (seq s m)) /\ Permutation (fold_right (ins_idx lt) [] (seq s m)) (seq s m).
Proof.
  induction m as [|m IH]; intro s; simpl.
  - split; constructor.
  - destruct (IH (S s)) as [Hs Hp]. split.
    + apply ins_sorted; [assumption|]. intros y Hy. apply (Permutation_in _ Hp) in Hy. apply in_seq in Hy. lia.
    + apply perm_trans with (s :: fold_right (ins_idx lt) [] (seq (S s) m)); [apply ins_perm|]. apply perm_skip. assumption.
Qed.

Lemma stable_order_spec n : Sorted lexlt (stable_order lt n) /\ Permutation (stable_order lt n) (seq 0 n).
Proof. apply stable_order_aux. Qed.
End StableOrder.

(* the comparison of possibly-NA values is a strict weak order *)
Lemma ov_lt_irrefl a : ov_lt a a = false.
Proof. destruct a as [x|]; simpl; auto. apply qltb_false. lra. Qed.
Lemma ov_lt_trans a b c : ov_lt a b = true -> ov_lt b c = true -> ov_lt a c = true.
Proof.
  destruct a as [x|], b as [y|], c as [z|]; simpl; intros H1 H2; try discriminate; auto.
  apply qltb_true in H1, H2. apply qltb_true. lra.
Qed.
Lemma ov_lt_negtrans a b c : ov_lt a b = false -> ov_lt b c = false -> ov_lt a c = false.
Proof.
  destruct a as [x|], b as [y|], c as [z|]; simpl; intros H1 H2; try discriminate; auto.
  apply qltb_false in H1, H2. apply qltb_false. lra.
Qed.

Definition rank_cmp (v : list ov) (asc : bool) : nat -> nat -> bool :=
  fun i1 i2 => if asc then ov_lt (nth i1 v None) (nth i2 v None) else ov_lt (nth i2 v None) (nth i1 v None).
Lemma orderRanks_spec v asc : v <> [] ->
  Sorted (lexlt (rank_cmp v asc)) (VH_orderRanks v asc None) /\ Permutation (VH_orderRanks v asc None) (seq 0 (length v)).
Proof.
  intros Hv. unfold VH_orderRanks. destruct v as [|x v]; [contradiction|].
  apply (stable_order_spec (rank_cmp (x :: v) asc)); unfold rank_cmp; destruct asc; intros;
    first [ apply ov_lt_irrefl | eapply ov_lt_trans; eassumption | eapply ov_lt_negtrans; eassumption ].
Qed.

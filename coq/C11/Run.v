(* C11 runner: decodes a case, runs the model and the mathematical spec, encodes both. Executable only.
   Result of a case:  (model spec)  with
     (0 nr nc (values))  matrix   | (0 (values)) vector | (0 v) scalar/boolean | (0) no object
     (1) C++ exception            | (2 code) undefined behaviour predicted (Eigen contract / out-of-bounds)
     (3) spec: the mathematical operation is not defined for these arguments *)
From Coq Require Import List ZArith QArith Qabs Bool Arith.
From Gst Require Import lib.Sx lib.QAux C11.Sums C11.Spec C11.Model C11.Model_sparse C11.Model_vec.
Import ListNotations.
Local Open Scope Q_scope.

(* ---------------------------------------------------------------- decoding *)
Definition asVec (s : sx) : option (list Q) := asListOf asQ s.
Definition asOVec (s : sx) : option (list (option Q)) := asListOf asOQ s.
Definition asNats (s : sx) : option (list nat) := asListOf asNat s.
Definition asMat (s : sx) : option dense :=
  match s with
  | L [a; b; e] =>
      match asNat a, asNat b, asVec e with
      | Some m, Some n, Some l => if (length l =? m * n)%nat then Some (mkD m n l) else None
      | _, _, _ => None
      end
  | _ => None
  end.
Definition asOMat (s : sx) : option (option dense) :=
  match s with L [] => Some None | _ => match asMat s with Some d => Some (Some d) | None => None end end.
Definition asTrip (s : sx) : option trip :=
  match s with
  | L [a; b; v] => match asNat a, asNat b, asQ v with Some i, Some j, Some x => Some (i, j, x) | _, _, _ => None end
  | _ => None
  end.
(* sparse matrix: (nr nc (triplets) force) -> dimensions and triplet list handed to createFromTriplet(T, nr, nc) *)
Definition asSparse (s : sx) : option (nat * nat * list trip) :=
  match s with
  | L [a; b; t; f] =>
      match asNat a, asNat b, asListOf asTrip t, asB f with
      | Some m, Some n, Some T, Some force => Some (m, n, if force then trip_force T m n else T)
      | _, _, _, _ => None
      end
  | _ => None
  end.
Definition SCf (a : nat * nat * list trip) : spc := SC_create (snd a) (fst (fst a)) (snd (fst a)).
Definition SEf (a : nat * nat * list trip) : spe := SE_create (snd a) (fst (fst a)) (snd (fst a)).

(* ---------------------------------------------------------------- encoding *)
Definition encM (d : dense) : sx := L [I 0%Z; ofNat (nr d); ofNat (nc d); ofList ofQ (dat d)].
Definition encV (v : list Q) : sx := L [I 0%Z; ofList ofQ v].
Definition encQ (q : Q) : sx := L [I 0%Z; ofQ q].
Definition encB (b : bool) : sx := L [I 0%Z; ofB b].
Definition encNone : sx := L [I 0%Z].
Definition encRes {A} (f : A -> sx) (r : res A) : sx :=
  match r with Ok a => f a | UB c => L [I 2%Z; I c] | Exn => L [I 1%Z] end.
Definition encSpec {A} (f : A -> sx) (o : option A) : sx := match o with Some a => f a | None => L [I 3%Z] end.
Definition both (m s : sx) : sx := L [m; s].

(* ---------------------------------------------------------------- spec helpers *)
Definition A_ (d : dense) : mat := absd d.
Definition symmetric_b (d : dense) : bool :=
  (nr d =? nc d)%nat && forallb (fun p => qeqb (getv d (fst p) (snd p)) (getv d (snd p) (fst p))) (rowmajor (nr d) (nc d)).
(* a result stored in the symmetric class is only meaningful when it is symmetric *)
Definition symok (st : nat) (d : dense) : option dense :=
  if (st =? 2)%nat then (if symmetric_b d then Some d else None) else Some d.
Definition guard {A} (b : bool) (x : A) : option A := if b then Some x else None.
Definition obind {A B} (o : option A) (f : A -> option B) : option B := match o with Some a => f a | None => None end.
Definition nodupb (l : list nat) : bool :=
  forallb (fun i => forallb (fun j => negb (i <? j)%nat || negb (nth i l O =? nth j l O)%nat) (seq 0 (length l))) (seq 0 (length l)).
Definition spec_select (total : nat) (keep : list nat) (inv : bool) : list nat :=
  let r := match keep with [] => seq 0 total | _ => keep end in
  if inv then filter (fun i => negb (existsb (Nat.eqb i) r)) (seq 0 total) else r.
Definition vecn (n : nat) (f : vec) : list Q := map f (seq 0 n).
Definition nonzero_all (v : list Q) : bool := forallb (fun x => negb (qeqb x 0)) v.

(* ---------------------------------------------------------------- dense family: one operation *)
Definition run_dense (st : nat) (gen : bool) (op : Z) (d : dense) (args : list sx) : sx :=
  let sq := negb (st =? 0)%nat in let sym := (st =? 2)%nat in
  let m := nr d in let n := nc d in
  match op, args with
  | 1%Z, [a; b] =>
      match asNat a, asNat b with
      | Some i, Some j => both (encRes encQ (D_getValue d i j)) (encSpec encQ (guard (inrange d i j) (getv d i j)))
      | _, _ => sx_error 2 end
  | 2%Z, [a; b; c] =>
      match asNat a, asNat b, asQ c with
      | Some i, Some j, Some v =>
          both (encRes encM (D_setValue sym d i j v))
               (encSpec encM (guard (inrange d i j)
                  (tab m n (if sym then mset j i v (mset i j v (A_ d)) else mset i j v (A_ d)))))
      | _, _, _ => sx_error 2 end
  | 3%Z, [a] =>
      match asNat a with
      | Some i => both (encRes encV (if gen then G_getRow d i else D_getRow d i))
                       (encSpec encV (guard (i <? m)%nat (vecn n (fun j => getv d i j))))
      | _ => sx_error 2 end
  | 4%Z, [a] =>
      match asNat a with
      | Some j => both (encRes encV (if gen then G_getColumn d j else D_getColumn d j))
                       (encSpec encV (guard (j <? n)%nat (vecn m (fun i => getv d i j))))
      | _ => sx_error 2 end
  | 5%Z, [a; b] =>
      match asNat a, asVec b with
      | Some i, Some t => both (encRes encM (if gen then G_setRow sym d i t else D_setRow d i t))
                               (encSpec encM (guard ((i <? m)%nat && (length t =? n)%nat && negb sym) (tab m n (msetrow i (vl t) (A_ d)))))
      | _, _ => sx_error 2 end
  | 6%Z, [a; b] =>
      match asNat a, asVec b with
      | Some j, Some t => both (encRes encM (if gen then G_setColumn sym d j t else D_setColumn d j t))
                               (encSpec encM (guard ((j <? n)%nat && (length t =? m)%nat && negb sym) (tab m n (msetcol j (vl t) (A_ d)))))
      | _, _ => sx_error 2 end
  | 7%Z, [a] =>
      match asZ a with
      | Some sh => both (encRes encV (G_getDiagonal sq d sh))
                        (encSpec encV (guard ((m =? n)%nat && (0 <=? sh)%Z && negb (m =? 0)%nat)
                           (vecn (m - Z.to_nat sh) (fun i => getv d i (i + Z.to_nat sh)%nat))))
      | _ => sx_error 2 end
  | 8%Z, [a] =>
      match asVec a with
      | Some t => both (encRes encM (if gen then G_setDiagonal sq sym d t else D_setDiagonal d t))
                       (encSpec encM (guard ((m =? n)%nat && (length t =? n)%nat && negb (m =? 0)%nat) (tab m n (mdiag (vl t)))))
      | _ => sx_error 2 end
  | 9%Z, [] => both (encRes encM (D_transpose d)) (encSpec encM (Some (tab n m (mT (A_ d)))))
  | 10%Z, [a] =>
      match asQ a with
      | Some v => both (encRes encM (if gen then G_addScalar d v else D_addScalar d v)) (encSpec encM (Some (tab m n (maddc v (A_ d)))))
      | _ => sx_error 2 end
  | 11%Z, [a] =>
      match asQ a with
      | Some v => both (encRes encM (if gen then G_prodScalar d v else D_prodScalar d v)) (encSpec encM (Some (tab m n (mscal v (A_ d)))))
      | _ => sx_error 2 end
  | 12%Z, [a] =>
      match asVec a with
      | Some v => both (encRes encM (if gen then G_multiplyRow sym d v else D_multiplyRow d v))
                       (encSpec encM (obind (guard (length v =? m)%nat (tab m n (mrowscale (vl v) (A_ d)))) (symok st)))
      | _ => sx_error 2 end
  | 13%Z, [a] =>
      match asVec a with
      | Some v => both (encRes encM (if gen then G_multiplyColumn sym d v else D_multiplyColumn d v))
                       (encSpec encM (obind (guard (length v =? n)%nat (tab m n (mcolscale (vl v) (A_ d)))) (symok st)))
      | _ => sx_error 2 end
  | 14%Z, [a] =>
      match asVec a with
      | Some v => both (encRes encM (if gen then G_divideRow sym d v else D_divideRow d v))
                       (encSpec encM (obind (guard ((length v =? m)%nat && nonzero_all v) (tab m n (mrowdiv (vl v) (A_ d)))) (symok st)))
      | _ => sx_error 2 end
  | 15%Z, [a] =>
      match asVec a with
      | Some v => both (encRes encM (if gen then G_divideColumn sym d v else D_divideColumn d v))
                       (encSpec encM (obind (guard ((length v =? n)%nat && nonzero_all v) (tab m n (mcoldiv (vl v) (A_ d)))) (symok st)))
      | _ => sx_error 2 end
  | 16%Z, [a; b; c] =>
      match asMat a, asQ b, asQ c with
      | Some y, Some cx0, Some cy0 =>
          both (encRes encM (if gen then G_addMat sym d y cx0 cy0 else D_addMat d y cx0 cy0))
               (encSpec encM (obind (guard (isSameSize d y) (tab m n (mlin2 cx0 (A_ d) cy0 (A_ y)))) (symok st)))
      | _, _, _ => sx_error 2 end
  | 17%Z, [c1; m1; c2; m2; c3; m3] =>
      match asQ c1, asOMat m1, asQ c2, asOMat m2, asQ c3, asOMat m3 with
      | Some q1, Some o1, Some q2, Some o2, Some q3, Some o3 =>
          both (encRes encM (G_linearCombination sym d q1 o1 q2 o2 q3 o3))
               (encSpec encM (obind (guard (lc_ok d o1 && lc_ok d o2 && lc_ok d o3)
                   (tab m n (fun i j => lc_term q1 o1 i j + lc_term q2 o2 i j + lc_term q3 o3 i j))) (symok st)))
      | _, _, _, _, _, _ => sx_error 2 end
  | 18%Z, [a; b; c] =>
      match asVec a, asVec b, asB c with
      | Some x, Some y, Some t =>
          both (encRes encV (D_prodMatVecInPlace d x y t))
               (encSpec encV (guard ((length x =? (if t then m else n))%nat && (length y =? (if t then n else m))%nat)
                                    (vecn (if t then n else m) (mvec (if t then m else n) (opT t (A_ d)) (vl x)))))
      | _, _, _ => sx_error 2 end
  | 19%Z, [a; b; c] =>
      match asVec a, asVec b, asB c with
      | Some x, Some y, Some t =>
          both (encRes encV (D_prodVecMatInPlace d x y t))
               (encSpec encV (guard ((length x =? (if t then n else m))%nat && (length y =? (if t then m else n))%nat)
                                    (vecn (if t then m else n) (vmat (if t then n else m) (vl x) (opT t (A_ d))))))
      | _, _, _ => sx_error 2 end
  | 20%Z, [a; c] =>
      match asVec a, asB c with
      | Some x, Some t =>
          both (encRes encV (D_prodMatVec d x t))
               (encSpec encV (guard (length x =? (if t then m else n))%nat
                                    (vecn (if t then n else m) (mvec (if t then m else n) (opT t (A_ d)) (vl x)))))
      | _, _ => sx_error 2 end
  | 21%Z, [a; c] =>
      match asVec a, asB c with
      | Some x, Some t =>
          both (encRes encV (D_prodVecMat d x t))
               (encSpec encV (guard (length x =? (if t then n else m))%nat
                                    (vecn (if t then m else n) (vmat (if t then n else m) (vl x) (opT t (A_ d))))))
      | _, _ => sx_error 2 end
  | 22%Z, [a; b; c; e] =>
      match asMat a, asMat b, asB c, asB e with
      | Some x, Some y, Some tx, Some ty =>
          both (encRes encM (if gen then G_prodMatMat sym d x y tx ty else D_prodMatMat d x y tx ty))
               (encSpec encM (obind (guard ((dimc tx x =? dimr ty y)%nat && (m =? dimr tx x)%nat && (n =? dimc ty y)%nat)
                                    (tab m n (mmul (dimc tx x) (opT tx (A_ x)) (opT ty (A_ y))))) (symok st)))
      | _, _, _, _ => sx_error 2 end
  | 221%Z, [a; b; c; e; fa; fb] =>      (* prodMatMatInPlace with the receiver passed as x (fa) and/or y (fb) *)
      match asMat a, asMat b, asB c, asB e, asB fa, asB fb with
      | Some x, Some y, Some tx, Some ty, Some ax, Some ay =>
          both (encRes encM (if gen then G_prodMatMat_alias sym d x y tx ty ax ay else D_prodMatMat_alias d x y tx ty ax ay))
               (encSpec encM (obind (guard ((dimc tx x =? dimr ty y)%nat && (m =? dimr tx x)%nat && (n =? dimc ty y)%nat)
                                    (tab m n (mmul (dimc tx x) (opT tx (A_ x)) (opT ty (A_ y))))) (symok st)))
      | _, _, _, _, _, _ => sx_error 2 end
  | 23%Z, [a; b; c] =>
      match asMat a, asMat b, asB c with
      | Some aa, Some mm, Some t =>
          let n1 := dimr t aa in let n2 := dimc t aa in
          (* t = true: t(A) M A with A n2 x n1 ... dimr/dimc of op(A) for the left factor *)
          both (encRes encM (if gen then G_prodNormMatMat sym d aa mm t else D_prodNormMatMat d aa mm t))
               (encSpec encM (obind (guard ((nr mm =? n2)%nat && (nc mm =? n2)%nat && (m =? n1)%nat && (n =? n1)%nat)
                                    (tab n1 n1 (mcongr t n2 (A_ aa) (A_ mm)))) (symok st)))
      | _, _, _ => sx_error 2 end
  | 24%Z, [a; b; c] =>
      match asMat a, asVec b, asB c with
      | Some aa, Some v, Some t =>
          let n1 := dimr t aa in let n2 := dimc t aa in
          both (encRes encM (if gen then G_prodNormMatVec sym d aa v t else D_prodNormMatVec d aa v t))
               (encSpec encM (guard (((length v =? 0)%nat || (length v =? n2)%nat) && (m =? n1)%nat && (n =? n1)%nat)
                                    (tab n1 n1 (match v with [] => mcongr_id t n2 (A_ aa) | _ => mcongr_diag t n2 (A_ aa) (vl v) end))))
      | _, _, _ => sx_error 2 end
  | 25%Z, [a; b; c; e] =>
      match asNats a, asNats b, asB c, asB e with
      | Some rk, Some ck, Some ir, Some ic =>
          let rows := spec_select m rk ir in let cols := spec_select n ck ic in
          both (match R_sample d rk ck ir ic with Some r => encM r | None => encNone end)
               (encSpec encM (guard (negb (length rows =? 0)%nat && negb (length cols =? 0)%nat &&
                                     forallb (fun r => (r <? m)%nat) rows && forallb (fun c => (c <? n)%nat) cols)
                                    (tab (length rows) (length cols) (msample rows cols (A_ d)))))
      | _, _, _, _ => sx_error 2 end
  | 26%Z, [a; b; c; e; f] =>
      match asMat a, asNats b, asNats c, asB e, asB f with
      | Some aa, Some rf, Some cf, Some ir, Some ic =>
          let rows := spec_select m rf ir in let cols := spec_select n cf ic in
          both (encM (R_unsample sym d aa rf cf ir ic))
               (encSpec encM (guard (negb sym && (nr aa =? length rows)%nat && (nc aa =? length cols)%nat && nodupb rows && nodupb cols &&
                                     negb (length rows =? 0)%nat && negb (length cols =? 0)%nat &&
                                     forallb (fun r => (r <? m)%nat) rows && forallb (fun c => (c <? n)%nat) cols)
                  (tab m n (fun i j =>
                     match find (fun k => (nth k rows O =? i)%nat) (seq 0 (length rows)),
                           find (fun l => (nth l cols O =? j)%nat) (seq 0 (length cols)) with
                     | Some k, Some l => getv aa k l
                     | _, _ => getv d i j
                     end))))
      | _, _, _, _, _ => sx_error 2 end
  | 27%Z, [a; b; c] =>
      match asMat a, asNats b, asNats c with
      | Some x, Some rows, Some cols =>
          both (encRes encM (G_copyReduce sym d x rows cols))
               (encSpec encM (guard (negb sym && (length rows <=? m)%nat && (length cols <=? n)%nat &&
                                     forallb (fun r => (r <? nr x)%nat) rows && forallb (fun c => (c <? nc x)%nat) cols)
                  (tab m n (fun i j => if (i <? length rows)%nat && (j <? length cols)%nat
                                       then getv x (nth i rows O) (nth j cols O) else getv d i j))))
      | _, _, _ => sx_error 2 end
  | 30%Z, [] => both (encQ (SQ_trace d)) (encSpec encQ (guard (m =? n)%nat (sumn m (fun i => getv d i i))))
  | 31%Z, [a] =>
      match asVec a with
      | Some v => both (L [I 0%Z; ofOQ (SQ_normVec d v)])
                       (encSpec (fun o => L [I 0%Z; ofOQ o]) (guard ((m =? n)%nat && (length v =? m)%nat) (Some (dot m (vl v) (mvec m (A_ d) (vl v))))))
      | None => sx_error 2 end
  | 32%Z, [md; a] =>
      match asNat md, asVec a with
      | Some mode, Some c =>
          both (encRes encM (SQ_prodByDiag sym d mode c))
               (encSpec encM (guard ((m =? n)%nat && (length c =? m)%nat && negb sym && ((mode =? 0)%nat || nonzero_all c))
                                    (tab m n (match mode with O => mcolscale (vl c) (A_ d) | _ => mcoldiv (vl c) (A_ d) end))))
      | _, _ => sx_error 2 end
  | 33%Z, [a] =>
      match asVec a with
      | Some v => both (encRes encM (SQ_prodDiagByVector sym d v))
                       (encSpec encM (guard ((m =? n)%nat && (length v =? m)%nat)
                                            (tab m n (fun i j => if (i =? j)%nat then getv d i i * nth i v 0 else getv d i j))))
      | None => sx_error 2 end
  | 28%Z, [] => both (encB (G_isSymmetric sq sym d)) (encSpec encB (guard (negb (isEmpty d)) (symmetric_b d)))   (* the empty matrix: convention, not compared *)
  | _, _ => sx_error 3
  end.

(* ---------------------------------------------------------------- sparse: results are read back with getValues() *)
Definition encSC (r : res spc) : sx :=
  match r with
  | Ok s => match SC_getValues s with Ok v => L [I 0%Z; ofNat (snr s); ofNat (snc s); ofList ofQ v] | UB c => L [I 2%Z; I c] | Exn => L [I 1%Z] end
  | UB c => L [I 2%Z; I c] | Exn => L [I 1%Z] end.
Definition encSE (r : res spe) : sx :=
  match r with
  | Ok s => match SE_getValues s with Ok v => L [I 0%Z; ofNat (enr s); ofNat (enc s); ofList ofQ v] | UB c => L [I 2%Z; I c] | Exn => L [I 1%Z] end
  | UB c => L [I 2%Z; I c] | Exn => L [I 1%Z] end.
(* the mathematical matrix a sparse argument stands for: dimensions given explicitly, content = accumulated triplets *)
Definition sp_math (s : sx) : option dense :=
  match s with
  | L [a; b; t; f] =>
      match asNat a, asNat b, asListOf asTrip t with
      | Some m, Some n, Some T =>
          if forallb (fun t => (trow t <? m)%nat && (tcol t <? n)%nat) T then Some (tab m n (abs_trip T)) else None
      | _, _, _ => None
      end
  | _ => None
  end.

Definition run_sparse (be : bool) (op : Z) (s0 : sx) (args : list sx) : sx :=
  match asSparse s0, sp_math s0 with
  | Some T, Some d =>
    let m := nr d in let n := nc d in
    let mk1 (fc : spc -> res spc) (fe : spe -> res spe) (sp : option dense) :=
        both (if be then encSE (fe (SEf T)) else encSC (fc (SCf T))) (encSpec encM sp) in
    let mkv (fc : spc -> res (list Q)) (fe : spe -> res (list Q)) (sp : option (list Q)) :=
        both (encRes encV (if be then fe (SEf T) else fc (SCf T))) (encSpec encV sp) in
    match op, args with
    | 0%Z, [] => mk1 (fun s => Ok s) (fun s => Ok s) (Some d)
    | 1%Z, [a; b] =>
        match asNat a, asNat b with
        | Some i, Some j => both (encRes encQ (if be then SE_getValue (SEf T) i j else SC_getValue (SCf T) i j))
                                 (encSpec encQ (guard (inrange d i j) (getv d i j)))
        | _, _ => sx_error 2 end
    | 9%Z, [] | 90%Z, [] => mk1 SC_transposeInPlace SE_transposeInPlace (Some (tab n m (mT (A_ d))))
    | 10%Z, [a] =>
        (* adding a scalar to every term is only meaningful for a sparse matrix whose pattern is full *)
        let full := forallb (fun p => existsb (fun t => (trow t =? fst p)%nat && (tcol t =? snd p)%nat) (snd T)) (rowmajor m n) in
        match asQ a with Some v => mk1 (fun s => SC_addScalar s v) (fun s => SE_addScalar s v) (guard (full || qeqb v 0) (tab m n (maddc v (A_ d)))) | None => sx_error 2 end
    | 11%Z, [a] => match asQ a with Some v => mk1 (fun s => SC_prodScalar s v) (fun s => SE_prodScalar s v) (Some (tab m n (mscal v (A_ d)))) | None => sx_error 2 end
    | 12%Z, [a] => match asVec a with Some v => mk1 (fun s => SC_multiplyRow s v) (fun s => SE_multiplyRow s v) (guard (length v =? m)%nat (tab m n (mrowscale (vl v) (A_ d)))) | None => sx_error 2 end
    | 13%Z, [a] => match asVec a with Some v => mk1 (fun s => SC_multiplyColumn s v) (fun s => SE_multiplyColumn s v) (guard (length v =? n)%nat (tab m n (mcolscale (vl v) (A_ d)))) | None => sx_error 2 end
    | 14%Z, [a] => match asVec a with Some v => mk1 (fun s => SC_divideRow s v) (fun s => SE_divideRow s v) (guard ((length v =? m)%nat && nonzero_all v) (tab m n (mrowdiv (vl v) (A_ d)))) | None => sx_error 2 end
    | 15%Z, [a] => match asVec a with Some v => mk1 (fun s => SC_divideColumn s v) (fun s => SE_divideColumn s v) (guard ((length v =? n)%nat && nonzero_all v) (tab m n (mcoldiv (vl v) (A_ d)))) | None => sx_error 2 end
    | 16%Z, [a; b; c] =>
        match asSparse a, sp_math a, asQ b, asQ c with
        | Some Ty, Some dy, Some cx0, Some cy0 =>
            mk1 (fun s => SC_addMat s (SCf Ty) cx0 cy0) (fun s => SE_addMat s (SEf Ty) cx0 cy0)
                (guard (isSameSize d dy) (tab m n (mlin2 cx0 (A_ d) cy0 (A_ dy))))
        | _, _, _, _ => sx_error 2 end
    | 18%Z, [a; b; c] =>
        match asVec a, asVec b, asB c with
        | Some x, Some y, Some t =>
            mkv (fun s => SC_prodMatVecInPlace s x y t) (fun s => SE_prodMatVecInPlace s x y t)
                (guard ((length x =? (if t then m else n))%nat && (length y =? (if t then n else m))%nat)
                       (vecn (if t then n else m) (mvec (if t then m else n) (opT t (A_ d)) (vl x))))
        | _, _, _ => sx_error 2 end
    | 19%Z, [a; b; c] =>
        match asVec a, asVec b, asB c with
        | Some x, Some y, Some t =>
            mkv (fun s => SC_prodVecMatInPlace s x y t) (fun s => SE_prodVecMatInPlace s x y t)
                (guard ((length x =? (if t then n else m))%nat && (length y =? (if t then m else n))%nat)
                       (vecn (if t then m else n) (vmat (if t then n else m) (vl x) (opT t (A_ d)))))
        | _, _, _ => sx_error 2 end
    | 20%Z, [a; c] =>
        match asVec a, asB c with
        | Some x, Some t =>
            mkv (fun s => SC_prodMatVec s x t) (fun s => SE_prodMatVec s x t)
                (guard (length x =? (if t then m else n))%nat (vecn (if t then n else m) (mvec (if t then m else n) (opT t (A_ d)) (vl x))))
        | _, _ => sx_error 2 end
    | 21%Z, [a; c] =>
        match asVec a, asB c with
        | Some x, Some t =>
            mkv (fun s => SC_prodVecMat s x t) (fun s => SE_prodVecMat s x t)
                (guard (length x =? (if t then n else m))%nat (vecn (if t then m else n) (vmat (if t then n else m) (vl x) (opT t (A_ d)))))
        | _, _ => sx_error 2 end
    | 22%Z, [a; b; c; e] =>
        match asSparse a, sp_math a, asSparse b, sp_math b, asB c, asB e with
        | Some Tx, Some dx, Some Ty, Some dy, Some tx, Some ty =>
            mk1 (fun s => SC_prodMatMat s (SCf Tx) (SCf Ty) tx ty)
                (fun s => SE_prodMatMat s (SEf Tx) (SEf Ty) tx ty)
                (guard ((dimc tx dx =? dimr ty dy)%nat && (m =? dimr tx dx)%nat && (n =? dimc ty dy)%nat)
                       (tab m n (mmul (dimc tx dx) (opT tx (A_ dx)) (opT ty (A_ dy)))))
        | _, _, _, _, _, _ => sx_error 2 end
    | 23%Z, [a; b; c] =>
        match asSparse a, sp_math a, asSparse b, sp_math b, asB c with
        | Some Ta, Some da, Some Tm, Some dm, Some t =>
            let n1 := dimr t da in let n2 := dimc t da in
            mk1 (fun s => SC_prodNormMatMat s (SCf Ta) (SCf Tm) t)
                (fun s => SE_prodNormMatMat s (SEf Ta) (SEf Tm) t)
                (guard ((nr dm =? n2)%nat && (nc dm =? n2)%nat && (m =? n1)%nat && (n =? n1)%nat) (tab n1 n1 (mcongr t n2 (A_ da) (A_ dm))))
        | _, _, _, _, _ => sx_error 2 end
    | 24%Z, [a; b; c] =>
        match asSparse a, sp_math a, asVec b, asB c with
        | Some Ta, Some da, Some v, Some t =>
            let n1 := dimr t da in let n2 := dimc t da in
            mk1 (fun s => SC_prodNormMatVec s (SCf Ta) v t) (fun s => SE_prodNormMatVec s (SEf Ta) v t)
                (guard (((length v =? 0)%nat || (length v =? n2)%nat) && (m =? n1)%nat && (n =? n1)%nat)
                       (tab n1 n1 (match v with [] => mcongr_id t n2 (A_ da) | _ => mcongr_diag t n2 (A_ da) (vl v) end)))
        | _, _, _, _ => sx_error 2 end
    | _, _ => sx_error 3
    end
  | _, _ => sx_error 1
  end.

(* createFromAnyMatrix(dense) MatrixSparse.cpp:1365: triplets of the non-zero entries, dimensions from the triplets *)
Definition run_fromAny (be : bool) (d : dense) : sx :=
  let T := (nr d, nc d, dense_to_triplet d) in
  both (if be then encSE (Ok (SEf T)) else encSC (Ok (SCf T))) (encM d).

(* ---------------------------------------------------------------- vectors *)
Definition encOQ (o : option Q) : sx := L [I 0%Z; ofOQ o].
Definition encNatL (l : list nat) : sx := L [I 0%Z; ofList ofNat l].
Definition encOV (l : list (option Q)) : sx := L [I 0%Z; ofList ofOQ l].
Definition sorted_lex_b (v : list (option Q)) (asc : bool) (l : list nat) : bool :=
  forallb (fun k => let a := nth k l O in let b := nth (S k) l O in
                    let va := nth a v None in let vb := nth b v None in
                    if asc then ov_lt va vb || (negb (ov_lt vb va) && (a <? b)%nat)
                    else ov_lt vb va || (negb (ov_lt va vb) && (a <? b)%nat)) (seq 0 (length l - 1)).
Definition is_perm_b (n : nat) (l : list nat) : bool :=
  (length l =? n)%nat && forallb (fun i => existsb (Nat.eqb i) l) (seq 0 n).
Definition run_vec (op : Z) (args : list sx) : sx :=
  match op, args with
  | 1%Z, [a] => match asVec a with Some v => both (encQ (VN_sum v)) (encQ (suml v)) | None => sx_error 2 end
  | 2%Z, [a] => match asVec a with
                | Some v => both (encQ (VN_maximum v))
                                 (encSpec encQ (match v with [] => None | x :: r => Some (fold_left (fun m y => if qltb m y then y else m) r x) end))
                | None => sx_error 2 end
  | 3%Z, [a] => match asVec a with
                | Some v => both (encQ (VN_minimum v))
                                 (encSpec encQ (match v with [] => None | x :: r => Some (fold_left (fun m y => if qltb y m then y else m) r x) end))
                | None => sx_error 2 end
  | 4%Z, [a] => match asVec a with
                | Some v => both (encOQ (VN_mean v)) (encSpec encOQ (match v with [] => None | _ => Some (Some (suml v / inject_Z (Z.of_nat (length v)))) end))
                | None => sx_error 2 end
  | 5%Z, [a] => match asVec a with Some v => both (encRes encQ (VN_norm2 v)) (encQ (dot (length v) (vl v) (vl v))) | None => sx_error 2 end
  | 6%Z, [a; b] => match asVec a, asVec b with
                   | Some x, Some y => both (encRes encQ (VN_innerProduct x y)) (encSpec encQ (guard (length x =? length y)%nat (dot (length x) (vl x) (vl y))))
                   | _, _ => sx_error 2 end
  | 7%Z, [k; a; b] =>
      match asZ k, asVec a, asVec b with
      | Some kk, Some x, Some y =>
          let f := (if kk =? 0 then Qplus else if kk =? 1 then Qminus else if kk =? 2 then Qmult else Qdiv)%Z in
          both (encRes encV (if kk =? 0 then VN_add x y else if kk =? 1 then VN_subtract x y else if kk =? 2 then VN_multiply x y else VN_divide x y)%Z)
               (encSpec encV (guard ((length x =? length y)%nat && ((kk <? 3)%Z || nonzero_all y)) (vecn (length x) (fun i => f (nth i x 0) (nth i y 0)))))
      | _, _, _ => sx_error 2 end
  | 8%Z, [k; a] =>
      match asZ k, asOVec a with
      | Some kk, Some v =>
          let defined := flat_map (fun o => match o with Some x => [x] | None => [] end) v in
          if (kk =? 0)%Z then both (encOQ (VH_maximum v)) (encSpec encOQ (match defined with [] => None | x :: r => Some (Some (fold_left (fun m y => if qltb m y then y else m) r x)) end))
          else if (kk =? 1)%Z then both (encOQ (VH_minimum v)) (encSpec encOQ (match defined with [] => None | x :: r => Some (Some (fold_left (fun m y => if qltb y m then y else m) r x)) end))
          else if (kk =? 2)%Z then both (encOQ (VH_mean v)) (encSpec encOQ (match defined with [] => None | _ => Some (Some (suml defined / inject_Z (Z.of_nat (length defined)))) end))
          else both (encQ (VH_cumul v)) (encQ (suml defined))
      | _, _ => sx_error 2 end
  | 9%Z, [a; b] => match asVec a, asVec b with
                   | Some x, Some y => both (encRes encQ (VH_innerProduct x y)) (encSpec encQ (guard (length x =? length y)%nat (dot (length x) (vl x) (vl y))))
                   | _, _ => sx_error 2 end
  | 10%Z, [k; a; b] =>
      match asZ k, asVec a, asVec b with
      | Some kk, Some x, Some y =>
          let eqlen := (length x =? length y)%nat in
          if (kk =? 0)%Z then both (encV (VH_add x y)) (encSpec encV (guard eqlen (vecn (length x) (fun i => nth i x 0 + nth i y 0))))
          else if (kk =? 1)%Z then both (encRes encV (VH_subtract x y)) (encSpec encV (guard eqlen (vecn (length x) (fun i => nth i y 0 - nth i x 0))))
          else if (kk =? 2)%Z then both (encRes encV (VH_multiplyInPlace x y)) (encSpec encV (guard eqlen (vecn (length x) (fun i => nth i x 0 * nth i y 0))))
          else both (encRes encV (VH_divideInPlace x y)) (encSpec encV (guard (eqlen && nonzero_all y) (vecn (length x) (fun i => nth i x 0 / nth i y 0))))
      | _, _, _ => sx_error 2 end
  | 11%Z, [a; z; r] =>
      match asVec a, asB z, asB r with
      | Some v, Some az, Some rv =>
          let pre := (if az then [0] else []) ++ vecn (length v) (fun i => suml (firstn (S i) v)) in
          both (encV (VH_cumsum v az rv)) (encSpec encV (guard (negb rv || negb (length pre =? 0)%nat) (if rv then map (fun x => suml v - x) pre else pre)))
      | _, _, _ => sx_error 2 end
  | 12%Z, [a; b; c] =>
      match asNat a, asZ b, asZ c with
      | Some nn, Some ideb, Some step => both (L [I 0%Z; L (map I (VH_sequence_int nn ideb step))]) (L [I 0%Z; L (map (fun i => I (ideb + Z.of_nat i * step)%Z) (seq 0 nn))])
      | _, _, _ => sx_error 2 end
  | 13%Z, [a; b; c; e] =>
      match asQ a, asQ b, asQ c, asQ e with
      | Some f, Some t, Some st, Some ra =>
          both (match VH_sequence_fuel 4000 f t st ra with Some l => encV l | None => L [I 2%Z; I (-3)%Z] end) (L [I 3%Z])
      | _, _, _, _ => sx_error 2 end
  | 14%Z, [a; b; c] =>
      match asOVec a, asB b, asZ c with
      | Some v, Some asc, Some sz =>
          let size := if (sz <? 0)%Z then None else Some (Z.to_nat sz) in
          let n := match size with Some s => s | None => length v end in
          let r := VH_orderRanks v asc size in
          both (encNatL r) (L [I 0%Z; ofB (match v with [] => (length r =? 0)%nat | _ => is_perm_b n r && sorted_lex_b v asc r end)])
      | _, _, _ => sx_error 2 end
  | 15%Z, [a; b; c] =>
      match asOVec a, asB b, asZ c with
      | Some v, Some asc, Some sz =>
          let size := if (sz <? 0)%Z then None else Some (Z.to_nat sz) in
          let r := VH_sortRanks v asc size in
          let o := VH_orderRanks v asc size in
          both (encNatL r) (L [I 0%Z; ofB (forallb (fun i => (nth (nth i o O) r O =? i)%nat) (seq 0 (length o)))])
      | _, _, _ => sx_error 2 end
  | 16%Z, [s; rk; a; b; c] =>
      match asB s, asListOf asZ rk, asOVec a, asB b, asZ c with
      | Some safe, Some ranks, Some v, Some asc, Some sz =>
          let size := if (sz <? 0)%Z then None else Some (Z.to_nat sz) in
          let r := VH_arrange safe ranks v asc size in
          both (L [I 0%Z; L (map I (fst r)); ofList ofOQ (snd r)]) (L [I 3%Z])
      | _, _, _, _, _ => sx_error 2 end
  | 19%Z, [a; b] =>
      match asVec a, asVec b with
      | Some src, Some dest =>
          both (encRes encV (VH_addInPlace_span src dest))
               (encSpec encV (guard (length src <=? length dest)%nat
                                    (vecn (length dest) (fun i => if (i <? length src)%nat then nth i dest 0 + nth i src 0 else nth i dest 0))))
      | _, _ => sx_error 2 end
  | 17%Z, [a] => match asVec a with Some v => both (encV (VH_unique v)) (L [I 3%Z]) | None => sx_error 2 end
  | 18%Z, [a; b] => match asVec a, asB b with Some v, Some asc => both (encV (VH_sort v asc)) (L [I 3%Z]) | _, _ => sx_error 2 end
  | _, _ => sx_error 3
  end.

(* ---------------------------------------------------------------- triangular solves / Cholesky wrappers *)
Definition residual_b (n : nat) (M : mat) (x b : list Q) : bool :=
  (length x =? n)%nat && forallb (fun i => qeqb (mvec n M (vl x) i) (nth i b 0)) (seq 0 n).
Definition run_solve (op : Z) (args : list sx) : sx :=
  match op, args with
  (* Cholesky wrappers: n, A (full, col-major), L (full, col-major), vector *)
  | 1%Z, [a; l; x] | 2%Z, [a; l; x] | 3%Z, [a; l; x] | 4%Z, [a; l; x] | 5%Z, [a; l; x] =>
      match asMat a, asMat l, asVec x with
      | Some A, Some Lm, Some v =>
          let n := nr A in let Lf := absd Lm in
          if negb (chol_cert n Lf (absd A)) then L [I 4%Z]    (* the oracle's certificate fails: case is void *)
          else
            let r := (if op =? 1 then CH_LX n Lf v else if op =? 2 then CH_LtX n Lf v else if op =? 3 then CH_InvLX n Lf v
                      else if op =? 4 then CH_InvLtX n Lf v else CH_solve n Lf v)%Z in
            let ok := match r with
                      | Ok y => (if op =? 1 then residual_b n mid y (vecn n (mvec n Lf (vl v)))
                                 else if op =? 2 then residual_b n mid y (vecn n (mvec n (mT Lf) (vl v)))
                                 else if op =? 3 then residual_b n Lf y v
                                 else if op =? 4 then residual_b n (mT Lf) y v
                                 else residual_b n (absd A) y v)%Z
                      | _ => false end in
            both (encRes encV r) (encB ok)
      | _, _, _ => sx_error 2 end
  (* packed triangle: TL and its inverse XL from the full L *)
  | 6%Z, [_; l] =>
      match asMat l with
      | Some Lm => let n := nr Lm in
          both (encV (flat_map (fun j => map (fun i => getv Lm i j) (seq j (n - j))) (seq 0 n)))
               (encB (forallb (fun p => if (snd p <=? fst p)%nat then (tl_index n (fst p) (snd p) <? n * (n + 1) / 2)%nat else true) (rowmajor n n)))
      | None => sx_error 2 end
  | 7%Z, [_; l] =>
      match asMat l with
      | Some Lm => let n := nr Lm in let rows := compute_XL n (absd Lm) in
          let XL := fun i j => if (j <=? i)%nat then nth j (nth i rows []) 0 else 0 in
          both (encV (flat_map (fun j => map (fun i => XL i j) (seq j (n - j))) (seq 0 n)))
               (encB (forallb (fun p => qeqb (mmul n XL (absd Lm) (fst p) (snd p)) (mid (fst p) (snd p))) (rowmajor n n)))
      | None => sx_error 2 end
  | 8%Z, [md; _; l; a] =>
      match asNat md, asMat l, asMat a with
      | Some mode, Some Lm, Some A =>
          let TL := fun i j => if (j <=? i)%nat then getv Lm i j else 0 in
          let n1 := nr A in let n2 := nc A in
          both (encM (CH_matProduct mode TL A))
               (encSpec encM (guard (match mode with O | S O => (nr Lm =? n1)%nat | _ => (nr Lm =? n2)%nat end)
                  (match mode with
                   | O => tab n1 n2 (mmul n1 (mT TL) (absd A))
                   | S O => tab n1 n2 (mmul n1 TL (absd A))
                   | S (S O) => tab n1 n2 (mmul n2 (absd A) (mT TL))
                   | S (S (S O)) => tab n1 n2 (mmul n2 (absd A) TL)
                   | S (S (S (S O))) => tab n1 n2 (mmul n2 (absd A) (mT TL))
                   | _ => tab n1 n2 (mmul n2 (absd A) TL)
                   end)))
      | _, _, _ => sx_error 2 end
  (* MatrixSquareSymmetric::createFromTLTU / createFromTriangle from a packed lower triangle *)
  | 12%Z, [nn; t] =>
      match asNat nn, asVec t with
      | Some n, Some tl =>
          both (encM (SS_createFromTLTU n tl))
               (encSpec encM (guard (length tl =? n * (n + 1) / 2)%nat (tab n n (mmul n (tl_get n tl) (mT (tl_get n tl))))))
      | _, _ => sx_error 2 end
  | 13%Z, [md; nn; t] =>
      match asNat md, asNat nn, asVec t with
      | Some mode, Some n, Some tl =>
          both (encM (SS_createFromTriangle mode n tl))
               (encSpec encM (guard (length tl =? n * (n + 1) / 2)%nat
                                    (tab n n (fun i j => if (j <=? i)%nat then tl_get n tl i j else tl_get n tl j i))))
      | _, _, _ => sx_error 2 end
  (* MatrixSquareGeneral::_forwardLU / _backwardLU *)
  | 10%Z, [l; b] =>
      match asMat l, asVec b with
      | Some Lm, Some v => let n := nr Lm in
          match forward_subst n (absd Lm) (vl v) eps20 with
          | Some y => both (encV y) (encB (residual_b n (fun i j => if (j <=? i)%nat then getv Lm i j else 0) y v))
          | None => both (L [I 1%Z]) (L [I 3%Z]) end
      | _, _ => sx_error 2 end
  | 11%Z, [u; b] =>
      match asMat u, asVec b with
      | Some Um, Some v => let n := nr Um in
          match backward_subst n (absd Um) (vl v) eps20 with
          | Some y => both (encV y) (encB (residual_b n (fun i j => if (i <=? j)%nat then getv Um i j else 0) y v))
          | None => both (L [I 1%Z]) (L [I 3%Z]) end
      | _, _ => sx_error 2 end
  | _, _ => sx_error 3
  end.

Definition run (c : sx) : sx :=
  match c with
  | L (I 1%Z :: _ :: st :: gen :: I op :: m :: args) =>
      match asNat st, asB gen, asMat m with
      | Some s, Some g, Some d => run_dense s g op d args
      | _, _, _ => sx_error 1
      end
  | L (I 2%Z :: _ :: be :: I op :: s :: args) =>
      match asB be with
      | Some b => if (op =? 40)%Z then match asMat s with Some d => run_fromAny b d | None => sx_error 1 end
                  else run_sparse b op s args
      | None => sx_error 1
      end
  | L (I 3%Z :: I op :: args) => run_vec op args
  | L (I 4%Z :: _ :: I op :: args) => run_solve op args
  | _ => sx_error 0
  end.

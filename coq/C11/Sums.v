(* C11/Sums.v — finite sums over Q indexed by nat (candidate for the shared coq/lib/LinAlgQ.v). *)
From Coq Require Import List ZArith QArith Lqa Lia Arith Setoid Morphisms.
Import ListNotations.
Local Open Scope Q_scope.

Fixpoint sumn (n : nat) (f : nat -> Q) : Q :=
  match n with O => 0 | S k => sumn k f + f k end.

Lemma sumn_ext n f g : (forall k, (k < n)%nat -> f k == g k) -> sumn n f == sumn n g.
Proof.
  induction n as [|n IH]; intro H; simpl; [reflexivity|].
  rewrite IH by (intros; apply H; lia). rewrite (H n) by lia. reflexivity.
Qed.

Global Instance sumn_proper n : Proper (pointwise_relation nat Qeq ==> Qeq) (sumn n).
Proof. intros f g H. apply sumn_ext. intros; apply H. Qed.

Lemma sumn_zero n f : (forall k, (k < n)%nat -> f k == 0) -> sumn n f == 0.
Proof.
  induction n as [|n IH]; intro H; simpl; [reflexivity|].
  rewrite IH by (intros; apply H; lia). rewrite (H n) by lia. lra.
Qed.

Lemma sumn_add n f g : sumn n (fun k => f k + g k) == sumn n f + sumn n g.
Proof. induction n as [|n IH]; simpl; [lra|]. rewrite IH. lra. Qed.

Lemma sumn_sub n f g : sumn n (fun k => f k - g k) == sumn n f - sumn n g.
Proof. induction n as [|n IH]; simpl; [lra|]. rewrite IH. lra. Qed.

Lemma sumn_scal_l n c f : sumn n (fun k => c * f k) == c * sumn n f.
Proof. induction n as [|n IH]; simpl; [lra|]. rewrite IH. ring. Qed.

Lemma sumn_scal_r n c f : sumn n (fun k => f k * c) == sumn n f * c.
Proof. induction n as [|n IH]; simpl; [lra|]. rewrite IH. ring. Qed.

(* exchange of two finite sums *)
Lemma sumn_swap m n (f : nat -> nat -> Q) :
  sumn m (fun i => sumn n (fun j => f i j)) == sumn n (fun j => sumn m (fun i => f i j)).
Proof.
  induction m as [|m IH]; simpl.
  - symmetry. apply sumn_zero. intros; reflexivity.
  - rewrite IH. rewrite <- sumn_add. reflexivity.
Qed.

(* a sum with at most one non-zero term *)
Lemma sumn_single n f i : (i < n)%nat -> (forall k, (k < n)%nat -> k <> i -> f k == 0) -> sumn n f == f i.
Proof.
  induction n as [|n IH]; intros Hi H; [lia|]. simpl.
  destruct (Nat.eq_dec i n) as [->|Hne].
  - rewrite sumn_zero by (intros; apply H; lia). lra.
  - rewrite IH by (try lia; intros; apply H; lia). rewrite (H n) by lia. lra.
Qed.

Lemma sumn_delta n i (g : nat -> Q) : (i < n)%nat ->
  sumn n (fun k => if Nat.eqb k i then g k else 0) == g i.
Proof.
  intro Hi. rewrite (sumn_single n _ i Hi).
  - rewrite Nat.eqb_refl. reflexivity.
  - intros k _ Hk. apply Nat.eqb_neq in Hk. rewrite Hk. reflexivity.
Qed.

Lemma sumn_delta_out n i (g : nat -> Q) : (n <= i)%nat ->
  sumn n (fun k => if Nat.eqb k i then g k else 0) == 0.
Proof.
  intro Hi. apply sumn_zero. intros k Hk.
  assert (E : Nat.eqb k i = false) by (apply Nat.eqb_neq; lia). rewrite E. reflexivity.
Qed.

(* split a sum at a point *)
Lemma sumn_app m n f : sumn (m + n) f == sumn m f + sumn n (fun k => f (m + k)%nat).
Proof.
  induction n as [|n IH]; simpl.
  - rewrite Nat.add_0_r. lra.
  - rewrite Nat.add_succ_r. simpl. rewrite IH. lra.
Qed.

(* sum over a list *)
Fixpoint suml (l : list Q) : Q := match l with [] => 0 | x :: r => x + suml r end.

Lemma suml_app a b : suml (a ++ b) == suml a + suml b.
Proof. induction a as [|x a IH]; simpl; [lra|]. rewrite IH. lra. Qed.

Lemma suml_map_ext {A} (f g : A -> Q) l : (forall x, In x l -> f x == g x) -> suml (map f l) == suml (map g l).
Proof.
  induction l as [|x l IH]; intro H; simpl; [reflexivity|].
  rewrite (H x) by (left; reflexivity). rewrite IH by (intros; apply H; right; assumption). reflexivity.
Qed.

Lemma suml_map_add {A} (f g : A -> Q) l : suml (map (fun x => f x + g x) l) == suml (map f l) + suml (map g l).
Proof. induction l as [|x l IH]; simpl; [lra|]. rewrite IH. lra. Qed.

Lemma suml_map_scal {A} c (f : A -> Q) l : suml (map (fun x => c * f x) l) == c * suml (map f l).
Proof. induction l as [|x l IH]; simpl; [lra|]. rewrite IH. ring. Qed.

Lemma suml_map_zero {A} (f : A -> Q) l : (forall x, In x l -> f x == 0) -> suml (map f l) == 0.
Proof.
  induction l as [|x l IH]; intro H; simpl; [reflexivity|].
  rewrite (H x) by (left; reflexivity). rewrite IH by (intros; apply H; right; assumption). lra.
Qed.

Lemma sumn_suml_seq n f : sumn n f == suml (map f (seq 0 n)).
Proof.
  induction n as [|n IH]; [reflexivity|].
  rewrite seq_S, map_app, suml_app, <- IH. simpl. lra.
Qed.

(* C11 model, part 3: numeric vectors and triangular solves.
   Executable mirror of
     VectorNumT<double>::sum/minimum/maximum/mean/norm/innerProduct/add/subtract/multiply/divide
                                                           /repo/include/Basic/VectorNumT.hpp:79-215
     VectorHelper::maximum/minimum/mean/cumul/innerProduct/add/subtract/multiplyInPlace/divideInPlace/
       cumsum/cumulateInPlace/sequence/unique/sort/orderRanks/sortRanks/reorder/arrangeInPlace
                                                           /repo/src/Basic/VectorHelper.cpp
     MatrixSquareGeneral::_forwardLU/_backwardLU           /repo/src/Matrix/MatrixSquareGeneral.cpp:184,215
     CholeskyDense (packed triangle _TL, _computeXL, matProductInPlace, solve wrappers)
                                                           /repo/src/LinearOp/CholeskyDense.cpp
   NA (TEST = 1.234e30) is [None]; it compares as a number larger than every generated value. No proofs here. *)
From Coq Require Import List ZArith QArith Qabs Bool Arith.
From Gst Require Import lib.QAux C11.Sums C11.Spec C11.Model.
Import ListNotations.
Local Open Scope Q_scope.

Definition ov := option Q.
Definition eps10 : Q := 1 # 10000000000.
Definition eps20 : Q := 1 # 100000000000000000000.
Definition dbl_min : Q := 1 # (2 ^ 1022).                                  (* std::numeric_limits<double>::min() *)
Definition dbl_max : Q := inject_Z (2 ^ 1024 - 2 ^ 971).                    (* std::numeric_limits<double>::max() *)
Definition big30 : Q := inject_Z (10 ^ 30).

(* ------------------------------------------------------------------ VectorNumT<double> (no NA handling) *)
Definition VN_sum (v : list Q) : Q := fold_left Qplus v 0.
Definition VN_maximum (v : list Q) : Q :=
  match v with [] => 0 | _ => fold_left (fun m x => if qltb m x then x else m) v (- dbl_max) end.   (* numeric_limits<double>::lowest() *)
Definition VN_minimum (v : list Q) : Q :=
  match v with [] => 0 | _ => fold_left (fun m x => if qltb x m then x else m) v dbl_max end.
Definition VN_mean (v : list Q) : option Q :=
  match v with [] => None | _ => Some (VN_sum v / inject_Z (Z.of_nat (length v))) end.
Definition VN_innerProduct (a b : list Q) : res Q :=
  if (length a =? length b)%nat then Ok (fold_left (fun s p => s + fst p * snd p) (combine a b) 0) else Exn.
Definition VN_norm2 (a : list Q) : res Q := VN_innerProduct a a.
Definition VN_zip (f : Q -> Q -> Q) (a b : list Q) : res (list Q) :=
  if (length a =? length b)%nat then Ok (map (fun p => f (fst p) (snd p)) (combine a b)) else Exn.
Definition VN_add := VN_zip Qplus.
Definition VN_subtract := VN_zip Qminus.
Definition VN_multiply := VN_zip Qmult.
(* VectorNumT<T>::divide VectorNumT.hpp:183,225: "if (std::abs(static_cast<double>(v[i])) < 1.e-10) throw" *)
Definition VN_divide (a b : list Q) : res (list Q) :=
  if negb (length a =? length b)%nat then Exn
  else if existsb (fun x => qltb (Qabs x) eps10) b then Exn
  else Ok (map (fun p => fst p / snd p) (combine a b)).
Definition VN_divide_scalar (a : list Q) (c : Q) : res (list Q) :=
  if qltb (Qabs c) eps10 then Exn else Ok (map (fun x => x / c) a).

(* ------------------------------------------------------------------ VectorHelper (NA-aware reductions) *)
Definition VH_maximum (v : list ov) : ov :=
  match v with [] => None
  | _ => Some (fold_left (fun m o => match o with Some x => if qltb m x then x else m | None => m end) v (- big30)) end.
Definition VH_minimum (v : list ov) : ov :=
  match v with [] => None
  | _ => Some (fold_left (fun m o => match o with Some x => if qltb x m then x else m | None => m end) v big30) end.
Definition VH_mean (v : list ov) : ov :=
  match v with [] => Some 0
  | _ => if (ocount v =? 0)%nat then None else Some (osum v / inject_Z (Z.of_nat (ocount v))) end.
Definition VH_cumul (v : list ov) : Q := osum v.
(* VectorHelper::innerProduct VectorHelper.cpp:2178 (size = -1) *)
Definition VH_innerProduct (a b : list Q) : res Q :=
  if (length b <? length a)%nat then Exn
  else Ok (fold_left (fun s p => s + fst p * snd p) (combine a b) 0).
(* VectorHelper::add VectorHelper.cpp:1200 (message and veca returned on a size mismatch) *)
Definition VH_add (a b : list Q) : list Q :=
  if (length a =? length b)%nat then map (fun p => fst p + snd p) (combine a b) else a.
(* VectorHelper::subtract VectorHelper.cpp:1376: vecb - veca *)
Definition VH_subtract (a b : list Q) : res (list Q) :=
  if (length a =? length b)%nat then Ok (map (fun p => snd p - fst p) (combine a b)) else Exn.
Definition VH_multiplyInPlace (a b : list Q) : res (list Q) :=
  if (length a =? length b)%nat then Ok (map (fun p => fst p * snd p) (combine a b)) else Exn.
(* VectorHelper::divideInPlace VectorHelper.cpp:1500 (entries with |v| < EPSILON20 are skipped) *)
Definition VH_divideInPlace (a b : list Q) : res (list Q) :=
  if (length a =? length b)%nat
  then Ok (map (fun p => if qleb eps20 (Qabs (snd p)) then fst p / snd p else fst p) (combine a b)) else Exn.
(* VectorHelper::cumsum VectorHelper.cpp:1071 *)
Fixpoint run_sums (acc : Q) (v : list Q) : list Q :=
  match v with [] => [] | x :: r => (acc + x) :: run_sums (acc + x) r end.
Definition VH_cumsum (v : list Q) (addZero rev : bool) : list Q :=
  let out := (if addZero then [0] else []) ++ run_sums 0 v in
  if rev then map (fun x => last out 0 - x) out else out.
Definition VH_cumulateInPlace (v : list Q) : list Q := run_sums 0 v.
(* VectorHelper::sequence(int number, int ideb, int step) VectorHelper.cpp:951 *)
Definition VH_sequence_int (number : nat) (ideb step : Z) : list Z :=
  map (fun i => (ideb + Z.of_nat i * step)%Z) (seq 0 number).
(* VectorHelper::sequence(double from, double to, double step, double ratio) VectorHelper.cpp:976 (while loop: fuel) *)
Fixpoint VH_sequence_fuel (fuel : nat) (value vto step ratio : Q) : option (list Q) :=
  match fuel with
  | O => None
  | S f => if qleb value vto
           then match VH_sequence_fuel f (value + step) vto step ratio with Some l => Some (value / ratio :: l) | None => None end
           else Some []
  end.

(* comparison of possibly-NA values as the doubles they are *)
Definition ov_lt (a b : ov) : bool :=
  match a, b with
  | Some x, Some y => qltb x y
  | Some _, None => true
  | None, _ => false
  end.
(* std::stable_sort of the index vector with comparator lt(v[i1], v[i2]) — its result is the unique stable ordering;
   computed here by straight insertion from the last index down to the first *)
Fixpoint ins_idx (lt : nat -> nat -> bool) (x : nat) (l : list nat) : list nat :=
  match l with
  | [] => [x]
  | y :: r => if lt y x then y :: ins_idx lt x r else x :: l
  end.
Definition stable_order (lt : nat -> nat -> bool) (n : nat) : list nat := fold_right (ins_idx lt) [] (seq 0 n).
(* VectorHelper::orderRanks(VectorDouble) VectorHelper.cpp:2010 ([size] = None stands for -1) *)
Definition VH_orderRanks (v : list ov) (ascending : bool) (size : option nat) : list nat :=
  match v with
  | [] => []
  | _ => let n := match size with Some s => s | None => length v end in
         stable_order (fun i1 i2 => if ascending then ov_lt (nth i1 v None) (nth i2 v None)
                                    else ov_lt (nth i2 v None) (nth i1 v None)) n
  end.
(* VectorHelper::sortRanks VectorHelper.cpp:2034: idx[order[i]] = i *)
Definition VH_sortRanks (v : list ov) (ascending : bool) (size : option nat) : list nat :=
  match v with
  | [] => []
  | _ => let n := match size with Some s => s | None => length v end in
         let order := VH_orderRanks v ascending size in
         fold_left (fun idx i => upd idx (nth i order O) i) (seq 0 n) (repeat O n)
  end.
(* VectorHelper::reorder VectorHelper.cpp:2054 *)
Definition VH_reorder {A} (d : A) (v : list A) (order : list nat) (size : nat) : list A :=
  map (fun i => nth (nth i order O) v d) (seq 0 size).
(* VectorHelper::arrangeInPlace(safe, ranks, values(double), ascending, size) VectorHelper.cpp:2095 *)
Definition VH_arrange (safe : bool) (ranks : list Z) (values : list ov) (ascending : bool) (size : option nat)
  : list Z * list ov :=
  let n := match size with Some s => s | None => length values end in
  let order := VH_orderRanks values ascending size in
  let ranks' := match ranks with [] => [] | _ => VH_reorder 0%Z ranks order n ++ skipn n ranks end in
  let values' := if safe then values else VH_reorder None values order n ++ skipn n values in
  (ranks', values').
(* VectorHelper::sort / unique (std::sort, std::unique) VectorHelper.cpp:1800,1829 *)
Fixpoint ins_q (x : Q) (l : list Q) : list Q :=
  match l with [] => [x] | y :: r => if qleb x y then x :: l else y :: ins_q x r end.
Definition sort_q (l : list Q) : list Q := fold_right ins_q [] l.
Fixpoint dedup_q (l : list Q) : list Q :=
  match l with
  | x :: ((y :: _) as r) => if qeqb x y then dedup_q r else x :: dedup_q r
  | _ => l
  end.
Definition VH_sort (v : list Q) (ascending : bool) : list Q := if ascending then sort_q v else rev (sort_q v).
Definition VH_unique (v : list Q) : list Q := dedup_q (sort_q v).

(* ------------------------------------------------------------------ triangular solves *)
(* MatrixSquareGeneral::_forwardLU MatrixSquareGeneral.cpp:184 — x grows from x[0]; None = "return 1" (small pivot) *)
Definition fwd_step (L : mat) (b : vec) (eps : Q) (acc : option (list Q)) (i : nat) : option (list Q) :=
  match acc with
  | None => None
  | Some x =>
      let tmp := b i - sumn i (fun j => L i j * nth j x 0) in
      if qltb (Qabs (L i i)) eps then None else Some (x ++ [tmp / L i i])
  end.
Definition forward_subst (n : nat) (L : mat) (b : vec) (eps : Q) : option (list Q) :=
  fold_left (fwd_step L b eps) (seq 0 n) (Some []).
(* MatrixSquareGeneral::_backwardLU MatrixSquareGeneral.cpp:215 — i = n-1 .. 0; [acc] holds x[i+1..n-1] *)
Definition bwd_step (n : nat) (U : mat) (b : vec) (eps : Q) (acc : option (list Q)) (i : nat) : option (list Q) :=
  match acc with
  | None => None
  | Some x =>
      let tmp := b i - sumn (n - S i) (fun k => U i (S i + k)%nat * nth k x 0) in
      if qltb (Qabs (U i i)) eps then None else Some (tmp / U i i :: x)
  end.
Definition backward_subst (n : nat) (U : mat) (b : vec) (eps : Q) : option (list Q) :=
  fold_left (bwd_step n U b eps) (rev (seq 0 n)) (Some []).

(* CholeskyDense: packed lower triangle, _TL(i,j) = _tl[j*neq + i - j(j+1)/2] for i >= j  CholeskyDense.cpp:15-17 *)
Definition tl_index (neq i j : nat) : nat := (j * neq + i - (j * (j + 1)) / 2)%nat.
Definition tl_get (neq : nat) (tl : list Q) : mat := fun i j => if (j <=? i)%nat then nth (tl_index neq i j) tl 0 else 0.
(* the factor enters as a checked oracle: lower triangular, positive diagonal, L.t(L) = A *)
Definition chol_cert (n : nat) (L : mat) (A : mat) : bool :=
  forallb (fun p => qeqb (sumn n (fun k => L (fst p) k * L (snd p) k)) (A (fst p) (snd p))) (rowmajor n n)
  && forallb (fun i => qltb 0 (L i i)) (seq 0 n)
  && forallb (fun p => if (fst p <? snd p)%nat then qeqb (L (fst p) (snd p)) 0 else true) (rowmajor n n).
(* ACholesky::LX / LtX / InvLX / InvLtX / solve  ACholesky.cpp:52-85 over CholeskyDense::add* CholeskyDense.cpp:68-116
   (vecout is zeroed, then the Eigen triangular product / solve is added) *)
Definition CH_LX (n : nat) (L : mat) (x : list Q) : res (list Q) :=
  if (length x =? n)%nat then Ok (map (mvec n L (vl x)) (seq 0 n)) else UB ub_product.
Definition CH_LtX (n : nat) (L : mat) (x : list Q) : res (list Q) :=
  if (length x =? n)%nat then Ok (map (mvec n (mT L) (vl x)) (seq 0 n)) else UB ub_product.
Definition CH_InvLX (n : nat) (L : mat) (b : list Q) : res (list Q) :=
  if (length b =? n)%nat then match forward_subst n L (vl b) 0 with Some y => Ok y | None => Exn end
  else UB ub_product.
Definition CH_InvLtX (n : nat) (L : mat) (b : list Q) : res (list Q) :=
  if (length b =? n)%nat then match backward_subst n (mT L) (vl b) 0 with Some y => Ok y | None => Exn end
  else UB ub_product.
(* CholeskyDense::addSolveX CholeskyDense.cpp:108: _factor->solve(b) = t(L)^-1 (L^-1 b) *)
Definition CH_solve (n : nat) (L : mat) (b : list Q) : res (list Q) :=
  rbind (CH_InvLX n L b) (fun y => CH_InvLtX n L y).
(* CholeskyDense::computeLogDeterminant CholeskyDense.cpp:126: 2 * sum log(diag): the model returns the diagonal *)
Definition CH_logdet_diag (n : nat) (L : mat) : list Q := map (fun i => L i i) (seq 0 n).
(* CholeskyDense::_computeXL CholeskyDense.cpp:190: inverse of the lower triangle, row by row *)
Definition xl_row (neq : nat) (TL : mat) (rows : list (list Q)) (i : nat) : list (list Q) :=
  let XL := fun l j => nth j (nth l rows []) 0 in
  let row := map (fun j => - sumn (i - j) (fun k => TL i (j + k)%nat * XL (j + k)%nat j) / TL i i) (seq 0 i)
             ++ [1 / TL i i] in
  rows ++ [row].
Definition compute_XL (neq : nat) (TL : mat) : list (list Q) := fold_left (xl_row neq TL) (seq 0 neq) [].
(* CholeskyDense::matProductInPlace CholeskyDense.cpp:232: modes 0..5 (TU = t(TL)) *)
Definition CH_matProduct (mode : nat) (TL : mat) (a : dense) : dense :=
  let n1 := nr a in let n2 := nc a in
  match mode with
  | O => tab n1 n2 (fun i r => sumn (n1 - i) (fun k => TL (i + k)%nat i * getv a (i + k)%nat r))
  | S O => tab n1 n2 (fun i r => sumn (S i) (fun j => TL i j * getv a j r))
  | S (S O) => tab n1 n2 (fun r i => sumn (S i) (fun j => getv a r j * TL i j))
  | S (S (S O)) => tab n1 n2 (fun r i => sumn (n2 - i) (fun k => getv a r (i + k)%nat * TL (i + k)%nat i))
  | S (S (S (S O))) => tab n1 n2 (fun r i => sumn (S i) (fun j => getv a r j * TL i j))
  | _ => tab n1 n2 (fun r i => sumn (n2 - i) (fun k => getv a r (i + k)%nat * TL (i + k)%nat i))
  end.

(* ------------------------------------------------------------------ square / symmetric helpers, unchecked vector kernel *)
(* VectorHelper::addInPlace(constvect in, vect dest) VectorHelper.cpp:1246: no size check, dest[i] += in[i] for i < in.size() *)
Definition VH_addInPlace_span (src dest : list Q) : res (list Q) :=
  if (length src <=? length dest)%nat
  then Ok (map (fun p => fst p + snd p) (combine (firstn (length src) dest) src) ++ skipn (length src) dest)
  else UB 4%Z.
(* AMatrixSquare::trace AMatrixSquare.cpp:74 *)
Definition SQ_trace (d : dense) : Q := fold_left (fun s i => s + getv d i i) (seq 0 (nr d)) 0.
(* AMatrixSquare::normVec AMatrixSquare.cpp:186 (None = TEST on a size mismatch) *)
Definition SQ_normVec (d : dense) (v : list Q) : option Q :=
  if negb (nr d =? length v)%nat then None
  else Some (fold_left (fun s p => s + nth (fst p) v 0 * getv d (fst p) (snd p) * nth (snd p) v 0) (rowmajor (nr d) (nc d)) 0).
(* AMatrixSquare::prodByDiagInPlace AMatrixSquare.cpp:211, modes 0 (c) and 2 (1/c); c is indexed without any size check *)
Definition SQ_prodByDiag (sym : bool) (d : dense) (mode : nat) (c : list Q) : res dense :=
  if negb (nr d <=? length c)%nat then UB 4%Z
  else Ok (fold_left (fun s p => setValue sym s (fst p) (snd p)
                         (getv s (fst p) (snd p) * (match mode with O => nth (snd p) c 0 | _ => 1 / nth (snd p) c 0 end)))
                     (rowmajor (nr d) (nr d)) d).
(* AMatrixSquare::prodDiagByVector AMatrixSquare.cpp:118 *)
Definition SQ_prodDiagByVector (sym : bool) (d : dense) (v : list Q) : res dense :=
  if negb (length v =? nr d)%nat then Exn
  else Ok (fold_left (fun s i => setValue sym s i i (getv s i i * nth i v 0)) (seq 0 (nr d)) d).
(* MatrixSquareSymmetric::createFromTLTU MatrixSquareSymmetric.cpp:313: sum over k <= min(i,j) of TL(i,k).TL(j,k) *)
Definition SS_createFromTLTU (neq : nat) (tl : list Q) : dense :=
  fold_left (fun s p => setValue true s (fst p) (snd p)
               (sumn neq (fun k => if (fst p <? k)%nat || (snd p <? k)%nat then 0
                                   else nth (tl_index neq (fst p) k) tl 0 * nth (tl_index neq (snd p) k) tl 0)))
            (rowmajor neq neq) (tab neq neq mzero).
(* MatrixSquareSymmetric::createFromTriangle MatrixSquareSymmetric.cpp:341 *)
Definition SS_createFromTriangle (mode : nat) (neq : nat) (tl : list Q) : dense :=
  fold_left (fun s p => match mode with
                        | O => if (snd p <=? fst p)%nat then setValue true s (fst p) (snd p) (nth (tl_index neq (fst p) (snd p)) tl 0) else s
                        | _ => if (fst p <=? snd p)%nat then setValue true s (fst p) (snd p) (nth (tl_index neq (snd p) (fst p)) tl 0) else s
                        end) (rowmajor neq neq) (tab neq neq mzero).

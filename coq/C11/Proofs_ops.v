(* C11 proofs, part 2: each wrapper returns what linear algebra defines (dense storages). *)
From Coq Require Import List ZArith QArith Qabs Bool Arith Lia Lqa Setoid Morphisms.
From Gst Require Import lib.QAux C11.Sums C11.Spec C11.Model C11.Proofs.
Import ListNotations.
Local Open Scope Q_scope.

(* ------------------------------------------------------------------ algebra on finite sums *)
Lemma mmul_ext k A B A' B' i j :
  (forall l, (l < k)%nat -> A i l == A' i l) -> (forall l, (l < k)%nat -> B l j == B' l j) ->
  mmul k A B i j == mmul k A' B' i j.
Proof. intros HA HB. unfold mmul. apply sumn_ext. intros l Hl. rewrite HA, HB by assumption. reflexivity. Qed.

(* sum_k sum_l a_k m_kl b_l = sum_l (sum_k a_k m_kl) b_l *)
Lemma double_sum_assoc n (a b : nat -> Q) (m : nat -> nat -> Q) :
  sumn n (fun k => sumn n (fun l => a k * m k l * b l)) == sumn n (fun l => sumn n (fun k => a k * m k l) * b l).
Proof.
  rewrite sumn_swap. apply sumn_ext. intros l _. rewrite <- sumn_scal_r. apply sumn_ext. intros k _. reflexivity.
Qed.

Lemma mcongr_entry t n2 A M i j :
  mcongr t n2 A M i j ==
  sumn n2 (fun k => sumn n2 (fun l => (if t then A k i else A i k) * M k l * (if t then A l j else A j l))).
Proof.
  unfold mcongr, mmul. rewrite double_sum_assoc. apply sumn_ext. intros l _.
  destruct t; simpl; unfold mT; reflexivity.
Qed.

Lemma mcongr_symmetric t n2 A M : (forall k l, (k < n2)%nat -> (l < n2)%nat -> M k l == M l k) ->
  forall i j, mcongr t n2 A M i j == mcongr t n2 A M j i.
Proof.
  intros HM i j. rewrite !mcongr_entry. rewrite sumn_swap. apply sumn_ext. intros k Hk. apply sumn_ext. intros l Hl.
  rewrite (HM l k Hl Hk). ring.
Qed.

Lemma firstn_length_eq {A} (l : list A) n : n = length l -> firstn n l = l.
Proof. intros ->. apply firstn_all. Qed.

(* ------------------------------------------------------------------ Eigen contract calls *)
Lemma dims_negb t a : dimr (negb t) a = dimc t a /\ dimc (negb t) a = dimr t a.
Proof. destruct t; simpl; auto. Qed.

Lemma e_mul_ok ta tb a b : dimc ta a = dimr tb b ->
  exists r, e_mul ta tb a b = Ok r /\ nr r = dimr ta a /\ nc r = dimc tb b /\ wfd r /\
    forall i j, (i < dimr ta a)%nat -> (j < dimc tb b)%nat ->
      getv r i j = mmul (dimc ta a) (opT ta (absd a)) (opT tb (absd b)) i j.
Proof.
  intro H. unfold e_mul. rewrite H, Nat.eqb_refl. eexists. split; [reflexivity|].
  split; [reflexivity|]. split; [reflexivity|]. split; [apply wfd_tab|].
  intros i j Hi Hj. rewrite getv_tab by assumption. reflexivity.
Qed.

Lemma e_store_ok d r : nr d = nr r -> nc d = nc r -> e_store d r = Ok r.
Proof. intros H1 H2. unfold e_store, isSameSize. rewrite H1, H2, !Nat.eqb_refl. reflexivity. Qed.

(* AMatrixDense::prodMatMatInPlace, all four transposition flags *)
Lemma prodMatMat_dense d x y tx ty : dimc tx x = dimr ty y -> nr d = dimr tx x -> nc d = dimc ty y ->
  exists r, D_prodMatMat d x y tx ty = Ok r /\ nr r = nr d /\ nc r = nc d /\ wfd r /\
    meq (nr d) (nc d) (absd r) (mmul (dimc tx x) (opT tx (absd x)) (opT ty (absd y))).
Proof.
  intros H Hr Hc. destruct (e_mul_ok tx ty x y H) as [r [E [R1 [R2 [W G]]]]].
  exists r. unfold D_prodMatMat. rewrite E. simpl. rewrite e_store_ok by congruence.
  split; [reflexivity|]. split; [congruence|]. split; [congruence|]. split; [assumption|].
  intros i j Hi Hj. unfold absd at 1. rewrite G by congruence. reflexivity.
Qed.

Lemma transpose_dense d :
  exists r, D_transpose d = Ok r /\ nr r = nc d /\ nc r = nr d /\ wfd r /\ meq (nc d) (nr d) (absd r) (mT (absd d)).
Proof.
  eexists. split; [reflexivity|]. split; [reflexivity|]. split; [reflexivity|]. split; [apply wfd_tab|].
  intros i j Hi Hj. unfold absd at 1. rewrite getv_tab by assumption. reflexivity.
Qed.

Lemma nth_map_seq {A} (f : nat -> A) n i d : (i < n)%nat -> nth i (map f (seq 0 n)) d = f i.
Proof.
  intro H. rewrite (nth_indep _ d (f O)) by (rewrite map_length, seq_length; assumption).
  rewrite (map_nth f (seq 0 n) O i). rewrite seq_nth by assumption. reflexivity.
Qed.

(* AMatrixDense::prodMatVec / prodVecMat (returning versions), both flags *)
Lemma prodMatVec_dense d x t : length x = dimc t d ->
  exists r, D_prodMatVec d x t = Ok r /\ length r = dimr t d /\
    forall i, (i < dimr t d)%nat -> nth i r 0 = mvec (dimc t d) (opT t (absd d)) (vl x) i.
Proof.
  intro H. unfold D_prodMatVec, e_mulvec. rewrite <- H, Nat.eqb_refl. simpl rbind.
  unfold e_assign_map. rewrite map_length, seq_length.
  replace (if t then nc d else nr d) with (dimr t d) by (destruct t; reflexivity). rewrite Nat.eqb_refl.
  eexists. split; [reflexivity|]. split; [rewrite map_length, seq_length; reflexivity|].
  intros i Hi. rewrite nth_map_seq by assumption. reflexivity.
Qed.

Lemma prodVecMat_dense d x t : length x = dimr t d ->
  exists r, D_prodVecMat d x t = Ok r /\ length r = dimc t d /\
    forall j, (j < dimc t d)%nat -> nth j r 0 = vmat (dimr t d) (vl x) (opT t (absd d)) j.
Proof.
  intro H. unfold D_prodVecMat, e_vecmul. rewrite H, Nat.eqb_refl. simpl rbind.
  unfold e_assign_map. rewrite map_length, seq_length.
  replace (if t then nr d else nc d) with (dimc t d) by (destruct t; reflexivity). rewrite Nat.eqb_refl.
  eexists. split; [reflexivity|]. split; [rewrite map_length, seq_length; reflexivity|].
  intros j Hj. rewrite nth_map_seq by assumption. reflexivity.
Qed.

(* congruence products *)
Lemma prodNormMatMat_dense d a m t : nr m = dimc t a -> nc m = dimc t a -> nr d = dimr t a -> nc d = dimr t a ->
  exists r, D_prodNormMatMat d a m t = Ok r /\ nr r = nr d /\ nc r = nc d /\ wfd r /\
    meq (nr d) (nc d) (absd r) (mcongr t (dimc t a) (absd a) (absd m)).
Proof.
  intros Hm1 Hm2 Hd1 Hd2. destruct (dims_negb t a) as [N1 N2].
  destruct (e_mul_ok t false a m) as [am [E1 [R1 [C1 [W1 G1]]]]]; [simpl; congruence|].
  destruct (e_mul_ok false (negb t) am a) as [r [E2 [R2 [C2 [W2 G2]]]]]; [simpl in *; congruence|].
  exists r. unfold D_prodNormMatMat. rewrite E1. simpl rbind. rewrite E2. simpl rbind.
  simpl in R1, C1, R2, C2. rewrite e_store_ok by congruence.
  split; [reflexivity|]. split; [congruence|]. split; [congruence|]. split; [assumption|].
  intros i j Hi Hj. unfold absd at 1. rewrite G2 by (simpl; congruence).
  unfold mcongr. simpl dimc at 1. rewrite C1. simpl dimc. rewrite Hm2.
  apply mmul_ext.
  - intros l Hl. simpl opT. unfold absd at 1. rewrite G1 by (simpl; congruence). simpl opT. reflexivity.
  - intros; reflexivity.
Qed.

Lemma prodNormMatVec_dense_novec d a t : nr d = dimr t a -> nc d = dimr t a ->
  exists r, D_prodNormMatVec d a [] t = Ok r /\ nr r = nr d /\ nc r = nc d /\ wfd r /\
    meq (nr d) (nc d) (absd r) (mcongr_id t (dimc t a) (absd a)).
Proof.
  intros Hd1 Hd2. destruct (dims_negb t a) as [N1 N2].
  destruct (e_mul_ok t (negb t) a a) as [r [E [R [C [W G]]]]]; [congruence|].
  exists r. unfold D_prodNormMatVec. rewrite E. simpl rbind. rewrite e_store_ok by congruence.
  split; [reflexivity|]. split; [congruence|]. split; [congruence|]. split; [assumption|].
  intros i j Hi Hj. unfold absd at 1. rewrite G by congruence. reflexivity.
Qed.

(* row / column scaling through Eigen: every shape *)
Lemma e_map_all v n : n = length v -> e_map v n = Ok v.
Proof. intros ->. unfold e_map. rewrite Nat.leb_refl, firstn_all. reflexivity. Qed.

Lemma multiplyRow_dense d v : length v = nr d ->
  exists r, D_multiplyRow d v = Ok r /\ nr r = nr d /\ nc r = nc d /\ wfd r /\ meq (nr d) (nc d) (absd r) (mrowscale (vl v) (absd d)).
Proof.
  intros Hv. unfold D_multiplyRow. rewrite e_map_all by congruence. simpl rbind. unfold e_diag_left. rewrite Hv, Nat.eqb_refl.
  eexists. split; [reflexivity|]. split; [reflexivity|]. split; [reflexivity|]. split; [apply wfd_tab|].
  intros i j Hi Hj. unfold absd at 1. rewrite getv_tab by assumption. reflexivity.
Qed.
Lemma multiplyColumn_dense d v : length v = nc d ->
  exists r, D_multiplyColumn d v = Ok r /\ nr r = nr d /\ nc r = nc d /\ wfd r /\ meq (nr d) (nc d) (absd r) (mcolscale (vl v) (absd d)).
Proof.
  intros Hv. unfold D_multiplyColumn. rewrite e_map_all by congruence. simpl rbind. unfold e_diag_right. rewrite Hv, Nat.eqb_refl.
  eexists. split; [reflexivity|]. split; [reflexivity|]. split; [reflexivity|]. split; [apply wfd_tab|].
  intros i j Hi Hj. unfold absd at 1. rewrite getv_tab by assumption. reflexivity.
Qed.
Lemma vl_inverse v i : (i < length v)%nat -> vl (vh_inverse v) i == 1 / vl v i.
Proof.
  intro H. unfold vl, vh_inverse. rewrite (nth_indep _ 0 (1 / 0)) by (rewrite map_length; assumption).
  rewrite (map_nth (fun x => 1 / x) v 0 i). reflexivity.
Qed.
Lemma divideRow_dense d v : length v = nr d ->
  exists r, D_divideRow d v = Ok r /\ nr r = nr d /\ nc r = nc d /\ wfd r /\ meq (nr d) (nc d) (absd r) (mrowdiv (vl v) (absd d)).
Proof.
  intros Hv. unfold D_divideRow. rewrite e_map_all by (unfold vh_inverse; rewrite map_length; congruence). simpl rbind.
  unfold e_diag_left. unfold vh_inverse at 1. rewrite map_length, Hv, Nat.eqb_refl.
  eexists. split; [reflexivity|]. split; [reflexivity|]. split; [reflexivity|]. split; [apply wfd_tab|].
  intros i j Hi Hj. unfold absd at 1. rewrite getv_tab by assumption. unfold mrowscale, mrowdiv.
  rewrite vl_inverse by congruence. unfold Qdiv. ring.
Qed.
Lemma divideColumn_dense d v : length v = nc d ->
  exists r, D_divideColumn d v = Ok r /\ nr r = nr d /\ nc r = nc d /\ wfd r /\ meq (nr d) (nc d) (absd r) (mcoldiv (vl v) (absd d)).
Proof.
  intros Hv. unfold D_divideColumn. rewrite e_map_all by (unfold vh_inverse; rewrite map_length; congruence). simpl rbind.
  unfold e_diag_right. unfold vh_inverse at 1. rewrite map_length, Hv, Nat.eqb_refl.
  eexists. split; [reflexivity|]. split; [reflexivity|]. split; [reflexivity|]. split; [apply wfd_tab|].
  intros i j Hi Hj. unfold absd at 1. rewrite getv_tab by assumption. unfold mcolscale, mcoldiv.
  rewrite vl_inverse by congruence. unfold Qdiv. ring.
Qed.

(* in-place products with a vector, both transposition flags, every shape *)
Lemma nth_zeros {A} (y : list A) i : nth i (map (fun _ => 0) y) 0 = 0.
Proof. revert i; induction y as [|a y IH]; intros [|i]; simpl; auto. Qed.
Lemma combine_nth_add (a b : list Q) i : length a = length b ->
  nth i (map (fun p => fst p + snd p) (combine a b)) 0 == nth i a 0 + nth i b 0.
Proof.
  revert b i. induction a as [|x a IH]; intros [|y b] [|i] H; simpl in *; try discriminate; try ring.
  apply IH. lia.
Qed.
Lemma prodMatVecInPlace_dense d x y t : length x = dimc t d -> length y = dimr t d ->
  exists r, D_prodMatVecInPlace d x y t = Ok r /\ length r = dimr t d /\
    forall i, (i < dimr t d)%nat -> nth i r 0 == mvec (dimc t d) (opT t (absd d)) (vl x) i.
Proof.
  intros Hx Hy. unfold D_prodMatVecInPlace.
  rewrite e_map_all by congruence. simpl rbind.
  rewrite e_map_all by (rewrite map_length; congruence). simpl rbind.
  unfold e_mulvec. rewrite <- Hx, Nat.eqb_refl. simpl rbind.
  unfold e_assign_map. rewrite !map_length, seq_length, Hy, Nat.eqb_refl. rewrite Hx.
  eexists. split; [reflexivity|].
  assert (Hs : skipn (dimr t d) (map (fun _ : Q => 0) y) = []) by (apply skipn_all2; rewrite map_length; lia).
  rewrite Hs. rewrite (app_nil_r (A:=Q)). split.
  - rewrite map_length, combine_length, !map_length, seq_length, Hy. apply Nat.min_id.
  - intros i Hi. rewrite combine_nth_add by (rewrite !map_length, seq_length; congruence).
    rewrite nth_zeros, nth_map_seq by assumption. ring.
Qed.
Lemma prodVecMatInPlace_dense d x y t : length x = dimr t d -> length y = dimc t d ->
  exists r, D_prodVecMatInPlace d x y t = Ok r /\ length r = dimc t d /\
    forall j, (j < dimc t d)%nat -> nth j r 0 = vmat (dimr t d) (vl x) (opT t (absd d)) j.
Proof.
  intros Hx Hy. unfold D_prodVecMatInPlace.
  rewrite e_map_all by congruence. simpl rbind. rewrite e_map_all by congruence. simpl rbind.
  unfold e_vecmul. rewrite Hx, Nat.eqb_refl. simpl rbind.
  unfold e_assign_map. rewrite map_length, seq_length, Hy, Nat.eqb_refl. simpl rbind.
  assert (Hs : skipn (dimc t d) y = []) by (apply skipn_all2; lia).
  rewrite Hs. rewrite (app_nil_r (A:=Q)). eexists. split; [reflexivity|]. split; [rewrite map_length, seq_length; reflexivity|].
  intros j Hj. rewrite nth_map_seq by assumption. reflexivity.
Qed.

(* congruence product with a diagonal matrix given by its vector *)
Lemma mmul_mdiag n A v i l : (l < n)%nat -> mmul n A (mdiag v) i l == A i l * v l.
Proof.
  intro Hl. unfold mmul, mdiag. rewrite (sumn_single n _ l Hl).
  - rewrite Nat.eqb_refl. reflexivity.
  - intros k _ Hk. destruct (Nat.eqb_spec k l); [contradiction|]. ring.
Qed.
Lemma prodNormMatVec_dense d a v t : v <> [] -> length v = dimc t a -> nr d = dimr t a -> nc d = dimr t a ->
  exists r, D_prodNormMatVec d a v t = Ok r /\ nr r = nr d /\ nc r = nc d /\ wfd r /\
    meq (nr d) (nc d) (absd r) (mcongr_diag t (dimc t a) (absd a) (vl v)).
Proof.
  intros Hne Hv Hd1 Hd2. destruct (dims_negb t a) as [N1 N2].
  unfold D_prodNormMatVec. destruct v as [|v0 v']; [contradiction|]. set (v := v0 :: v') in *.
  unfold e_mul_diag. rewrite Hv, Nat.eqb_refl. simpl rbind.
  set (av := tab (dimr t a) (dimc t a) (mcolscale (vl v) (opT t (absd a)))).
  destruct (e_mul_ok false (negb t) av a) as [r [E2 [R2 [C2 [W2 G2]]]]]; [rewrite N1; reflexivity|].
  rewrite E2. simpl rbind. simpl in R2, C2. rewrite e_store_ok by congruence.
  exists r. split; [reflexivity|]. split; [congruence|]. split; [congruence|]. split; [assumption|].
  intros i j Hi Hj. unfold absd at 1. rewrite G2 by (simpl; congruence).
  unfold mcongr_diag, mcongr. simpl dimc at 1.
  apply mmul_ext.
  - intros l Hl. simpl opT. unfold absd at 1. unfold av. rewrite getv_tab by (try assumption; congruence).
    rewrite mmul_mdiag by assumption. reflexivity.
  - intros; reflexivity.
Qed.

(* ------------------------------------------------------------------ element access *)
Lemma setValue_plain_spec d i j v : wfd d -> (i < nr d)%nat -> (j < nc d)%nat ->
  exists r, D_setValue false d i j v = Ok r /\ nr r = nr d /\ nc r = nc d /\ wfd r /\
    forall a b, (a < nr d)%nat -> (b < nc d)%nat -> getv r a b = mset i j v (absd d) a b.
Proof.
  intros W Hi Hj. unfold D_setValue, inrange.
  rewrite (proj2 (Nat.ltb_lt _ _) Hi), (proj2 (Nat.ltb_lt _ _) Hj). simpl.
  eexists. split; [reflexivity|]. split; [apply nr_setValue|]. split; [apply nc_setValue|]. split; [apply wfd_setValue; auto|].
  intros a b Ha Hb. rewrite getv_setValue_plain by assumption. reflexivity.
Qed.

(* symmetric storage: the entry and its mirror are set, symmetry is preserved *)
Lemma setValue_sym_spec d i j v : wfd d -> nr d = nc d -> (i < nr d)%nat -> (j < nr d)%nat ->
  exists r, D_setValue true d i j v = Ok r /\ nr r = nr d /\ nc r = nc d /\ wfd r /\
    (forall a b, (a < nr d)%nat -> (b < nr d)%nat -> getv r a b = mset j i v (mset i j v (absd d)) a b) /\
    (msymmetric (nr d) (absd d) -> msymmetric (nr d) (absd r)).
Proof.
  intros W Sq Hi Hj. unfold D_setValue.
  assert (E1 : inrange d i j = true) by (unfold inrange; apply andb_true_iff; split; apply Nat.ltb_lt; lia).
  assert (E2 : inrange d j i = true) by (unfold inrange; apply andb_true_iff; split; apply Nat.ltb_lt; lia).
  rewrite E1, E2. simpl.
  eexists. split; [reflexivity|]. split; [apply nr_setValue|]. split; [apply nc_setValue|]. split; [apply wfd_setValue; auto|].
  assert (G : forall a b, (a < nr d)%nat -> (b < nr d)%nat ->
            getv (setValue true d i j v) a b = mset j i v (mset i j v (absd d)) a b).
  { intros a b Ha Hb. rewrite getv_setValue_sym by assumption. unfold mset, absd.
    destruct ((a =? i)%nat && (b =? j)%nat); destruct ((a =? j)%nat && (b =? i)%nat); reflexivity. }
  split; [exact G|].
  intros S a b Ha Hb. unfold absd. rewrite !G by assumption. unfold mset.
  rewrite (andb_comm (b =? j)%nat (a =? i)%nat), (andb_comm (b =? i)%nat (a =? j)%nat).
  destruct ((a =? j)%nat && (b =? i)%nat); destruct ((a =? i)%nat && (b =? j)%nat); try reflexivity.
  apply S; assumption.
Qed.

(* ------------------------------------------------------------------ generic fallbacks, plain storage *)
Ltac gen_loop W :=
  match goal with |- context [loop_set false (rowmajor (nr ?d) (nc ?d)) ?g ?d] =>
    destruct (loop_set_plain_full g d W) as [?Hnr [?Hnc [?Hw ?Hg]]] end.

Lemma multiplyRow_generic d v : wfd d -> length v = nr d ->
  exists r, G_multiplyRow false d v = Ok r /\ nr r = nr d /\ nc r = nc d /\ meq (nr d) (nc d) (absd r) (mrowscale (vl v) (absd d)).
Proof.
  intros W Hv. unfold G_multiplyRow. rewrite Hv, Nat.eqb_refl. simpl negb. cbv iota.
  gen_loop W. eexists. split; [reflexivity|]. split; [assumption|]. split; [assumption|].
  intros i j Hi Hj. unfold absd at 1. rewrite Hg by assumption. unfold mrowscale, vl, absd. ring.
Qed.
Lemma multiplyColumn_generic d v : wfd d -> length v = nc d ->
  exists r, G_multiplyColumn false d v = Ok r /\ nr r = nr d /\ nc r = nc d /\ meq (nr d) (nc d) (absd r) (mcolscale (vl v) (absd d)).
Proof.
  intros W Hv. unfold G_multiplyColumn. rewrite Hv, Nat.eqb_refl. simpl negb. cbv iota.
  gen_loop W. eexists. split; [reflexivity|]. split; [assumption|]. split; [assumption|].
  intros i j Hi Hj. unfold absd at 1. rewrite Hg by assumption. reflexivity.
Qed.
Lemma divideRow_generic d v : wfd d -> length v = nr d ->
  exists r, G_divideRow false d v = Ok r /\ nr r = nr d /\ nc r = nc d /\ meq (nr d) (nc d) (absd r) (mrowdiv (vl v) (absd d)).
Proof.
  intros W Hv. unfold G_divideRow. rewrite Hv, Nat.eqb_refl. simpl negb. cbv iota.
  gen_loop W. eexists. split; [reflexivity|]. split; [assumption|]. split; [assumption|].
  intros i j Hi Hj. unfold absd at 1. rewrite Hg by assumption. reflexivity.
Qed.
Lemma divideColumn_generic d v : wfd d -> length v = nc d ->
  exists r, G_divideColumn false d v = Ok r /\ nr r = nr d /\ nc r = nc d /\ meq (nr d) (nc d) (absd r) (mcoldiv (vl v) (absd d)).
Proof.
  intros W Hv. unfold G_divideColumn. rewrite Hv, Nat.eqb_refl. simpl negb. cbv iota.
  gen_loop W. eexists. split; [reflexivity|]. split; [assumption|]. split; [assumption|].
  intros i j Hi Hj. unfold absd at 1. rewrite Hg by assumption. reflexivity.
Qed.
Lemma addMat_generic d y cx cy : wfd d -> nr y = nr d -> nc y = nc d ->
  exists r, G_addMat false d y cx cy = Ok r /\ nr r = nr d /\ nc r = nc d /\ meq (nr d) (nc d) (absd r) (mlin2 cx (absd d) cy (absd y)).
Proof.
  intros W H1 H2. unfold G_addMat, isSameSize. rewrite H1, H2, !Nat.eqb_refl. simpl negb. cbv iota.
  gen_loop W. eexists. split; [reflexivity|]. split; [assumption|]. split; [assumption|].
  intros i j Hi Hj. unfold absd at 1. rewrite Hg by assumption. reflexivity.
Qed.

Definition omat (m : option dense) : mat := match m with Some a => absd a | None => mzero end.
Lemma lc_term_spec c m i j : lc_term c m i j == c * omat m i j.
Proof. destruct m; simpl; unfold mzero; [reflexivity|ring]. Qed.
Lemma linearCombination_generic d c1 m1 c2 m2 c3 m3 : wfd d ->
  lc_ok d m1 = true -> lc_ok d m2 = true -> lc_ok d m3 = true ->
  exists r, G_linearCombination false d c1 m1 c2 m2 c3 m3 = Ok r /\ nr r = nr d /\ nc r = nc d /\
    meq (nr d) (nc d) (absd r) (mlin3 c1 (omat m1) c2 (omat m2) c3 (omat m3)).
Proof.
  intros W H1 H2 H3. unfold G_linearCombination. rewrite H1, H2, H3. simpl negb. cbv iota.
  gen_loop W. eexists. split; [reflexivity|]. split; [assumption|]. split; [assumption|].
  intros i j Hi Hj. unfold absd at 1. rewrite Hg by assumption. unfold mlin3. rewrite !lc_term_spec. ring.
Qed.

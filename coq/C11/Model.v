(* C11 model, part 1: dense storages (MatrixRectangular / MatrixSquareGeneral / MatrixSquareSymmetric).
   Executable mirror of
     AMatrixDense  (Eigen-backed overrides)        /repo/src/Matrix/AMatrixDense.cpp
     AMatrix       (generic element-loop fallbacks) /repo/src/Matrix/AMatrix.cpp
     MatrixRectangular::sample/unsample             /repo/src/Matrix/MatrixRectangular.cpp:167,214
     MatrixSquareSymmetric::_isPhysicallyPresent    /repo/src/Matrix/MatrixSquareSymmetric.cpp:138
   Exact rational arithmetic.  Every Eigen primitive is a *contract call*: it returns [UB code] when the size
   precondition that Eigen asserts (eigen_assert, active in the verification build) fails and the mathematical
   result otherwise.  No proofs here. *)
From Coq Require Import List ZArith QArith Qabs Bool Arith.
From Gst Require Import lib.QAux C11.Sums C11.Spec.
Import ListNotations.
Local Open Scope Q_scope.

(* result of a call: normal return / contract violation inside Eigen or an out-of-bounds access / C++ exception *)
Inductive res (A : Type) : Type := Ok (a : A) | UB (code : Z) | Exn.
Arguments Ok {A} a. Arguments UB {A} code. Arguments Exn {A}.
Definition rbind {A B} (r : res A) (f : A -> res B) : res B :=
  match r with Ok a => f a | UB c => UB c | Exn => Exn end.

(* UB codes (file:line of the eigen_assert that fires) *)
Definition ub_product : Z := 96.     (* Eigen/src/Core/Product.h:96   lhs.cols() == rhs.rows() *)
Definition ub_cwise   : Z := 116.    (* Eigen/src/Core/CwiseBinaryOp.h:116 same sizes *)
Definition ub_index   : Z := 1.      (* DenseCoeffsBase / Block index in range *)
Definition ub_map     : Z := 2.      (* Map(ptr,n) with n beyond the mapped std::vector: silent out-of-bounds read *)
Definition ub_resize  : Z := 261.    (* DenseBase.h:261 resize of a Map / fixed destination *)
Definition ub_desync  : Z := 3.      (* Eigen storage resized while AMatrix::_nRows/_nCols keep the old values *)

(* ------------------------------------------------------------------ dense storage *)
(* Eigen::MatrixXd, column-major: AMatrixDense::_getIndexToRank  AMatrixDense.cpp:138 *)
Record dense := mkD { nr : nat; nc : nat; dat : list Q }.
Definition wfd (d : dense) : Prop := length (dat d) = (nr d * nc d)%nat.
Definition rank (d : dense) (i j : nat) : nat := (j * nr d + i)%nat.
Definition getv (d : dense) (i j : nat) : Q := nth (rank d i j) (dat d) 0.

Fixpoint upd {A} (l : list A) (k : nat) (v : A) : list A :=
  match l, k with
  | [], _ => []
  | _ :: r, O => v :: r
  | x :: r, S k' => x :: upd r k' v
  end.
Definition setraw (d : dense) (i j : nat) (v : Q) : dense := mkD (nr d) (nc d) (upd (dat d) (rank d i j) v).

(* tabulate a mathematical matrix into column-major storage *)
Definition tab (m n : nat) (f : mat) : dense :=
  mkD m n (flat_map (fun j => map (fun i => f i j) (seq 0 m)) (seq 0 n)).
Definition absd (d : dense) : mat := getv d.
Definition inrange (d : dense) (i j : nat) : bool := (i <? nr d)%nat && (j <? nc d)%nat.

(* AMatrixDense::setValue AMatrixDense.cpp:107 — [sym] = mustBeSymmetric() *)
Definition setValue (sym : bool) (d : dense) (i j : nat) (v : Q) : dense :=
  let d1 := setraw d i j v in
  if sym && negb (i =? j)%nat then setraw d1 j i v else d1.
(* MatrixSquareSymmetric::_isPhysicallyPresent: icol <= irow ; others: true *)
Definition present (sym : bool) (i j : nat) : bool := if sym then (j <=? i)%nat else true.

(* getValue / setValue as called from outside (flagCheck = false by default for dense): Eigen operator() asserts the range *)
Definition D_getValue (d : dense) (i j : nat) : res Q :=
  if inrange d i j then Ok (getv d i j) else UB ub_index.
Definition D_setValue (sym : bool) (d : dense) (i j : nat) (v : Q) : res dense :=
  if inrange d i j && (negb sym || inrange d j i) then Ok (setValue sym d i j v) else UB ub_index.

(* ------------------------------------------------------------------ position lists (loop nests) *)
Definition rowmajor (m n : nat) : list (nat * nat) :=
  flat_map (fun i => map (fun j => (i, j)) (seq 0 n)) (seq 0 m).
Definition colmajor (m n : nat) : list (nat * nat) :=
  flat_map (fun j => map (fun i => (i, j)) (seq 0 m)) (seq 0 n).

(* generic element loop "if (!_isPhysicallyPresent(i,j)) continue; setValue(i,j, g i j (getValue(i,j)))" *)
Definition loop_step (sym : bool) (g : nat -> nat -> Q -> Q) (s : dense) (p : nat * nat) : dense :=
  if present sym (fst p) (snd p) then setValue sym s (fst p) (snd p) (g (fst p) (snd p) (getv s (fst p) (snd p))) else s.
Definition loop_set (sym : bool) (ps : list (nat * nat)) (g : nat -> nat -> Q -> Q) (d : dense) : dense :=
  fold_left (loop_step sym g) ps d.

Definition isZero (v : Q) : bool := qleb (Qabs v) (1 # 10000000000).        (* Utilities.cpp:63, EPSILON10 *)
Definition isOne (v : Q) : bool := qleb (Qabs (v - 1)) (1 # 10000000000).   (* Utilities.cpp:73 *)
Definition isSameSize (a b : dense) : bool := (nr a =? nr b)%nat && (nc a =? nc b)%nat.
Definition isEmpty (d : dense) : bool := (nr d =? 0)%nat || (nc d =? 0)%nat.
(* AMatrix::isSquare AMatrix.cpp:158 (AMatrixSquare overrides it to "true") *)
Definition isSquare (sqclass : bool) (d : dense) : bool :=
  if sqclass then true else negb (isEmpty d) && (nr d =? nc d)%nat.

(* ================================================================== generic fallbacks of AMatrix.cpp *)
(* AMatrix::getRow AMatrix.cpp:1121 (checkArg -> empty vector) *)
Definition G_getRow (d : dense) (i : nat) : res (list Q) :=
  if (i <? nr d)%nat then Ok (map (fun j => getv d i j) (seq 0 (nc d))) else Ok [].
(* AMatrix::getColumn AMatrix.cpp:1144 (my_throw) *)
Definition G_getColumn (d : dense) (j : nat) : res (list Q) :=
  if (j <? nc d)%nat then Ok (map (fun i => getv d i j) (seq 0 (nr d))) else Exn.
(* AMatrix::setRow AMatrix.cpp:1132 *)
Definition G_setRow (sym : bool) (d : dense) (i : nat) (t : list Q) : res dense :=
  if negb (i <? nr d)%nat then Exn
  else if negb (length t =? nc d)%nat then Exn
  else Ok (fold_left (fun s j => setValue sym s i j (nth j t 0)) (seq 0 (nc d)) d).
(* AMatrix::setColumn AMatrix.cpp:1156 *)
Definition G_setColumn (sym : bool) (d : dense) (j : nat) (t : list Q) : res dense :=
  if negb (j <? nc d)%nat then Exn
  else if negb (length t =? nr d)%nat then Exn
  else Ok (fold_left (fun s i => setValue sym s i j (nth i t 0)) (seq 0 (nr d)) d).
(* AMatrix::getDiagonal AMatrix.cpp:1056 *)
Definition G_getDiagonal (sqclass : bool) (d : dense) (shift : Z) : res (list Q) :=
  if negb (isSquare sqclass d) then Ok []
  else Ok (flat_map (fun r =>
        let irow := (Z.of_nat r + (if (shift <? 0)%Z then shift else 0))%Z in
        let icol := (Z.of_nat r + (if (0 <? shift)%Z then shift else 0))%Z in
        if ((irow <? 0) || (Z.of_nat (nr d) <=? irow) || (icol <? 0) || (Z.of_nat (nc d) <=? icol))%Z%bool then []
        else [getv d (Z.to_nat irow) (Z.to_nat icol)]) (seq 0 (nr d))).
(* AMatrix::setDiagonal AMatrix.cpp:1084 (flagCheck=true: _isRowSizeConsistent): every physically present term is
   rewritten, tab[irow] on the diagonal and 0 elsewhere *)
Definition G_setDiagonal (sqclass sym : bool) (d : dense) (t : list Q) : res dense :=
  if negb (isSquare sqclass d) then Ok d
  else if negb (length t =? nc d)%nat then Ok d
  else Ok (loop_set sym (rowmajor (nr d) (nc d)) (fun i j _ => if (i =? j)%nat then nth i t 0 else 0) d).
(* AMatrix::addScalar AMatrix.cpp:397 (loop on ranks) *)
Definition G_addScalar (d : dense) (v : Q) : res dense :=
  if isZero v then Ok d else Ok (mkD (nr d) (nc d) (map (fun x => x + v) (dat d))).
(* AMatrix::prodScalar AMatrix.cpp:428 *)
Definition G_prodScalar (d : dense) (v : Q) : res dense :=
  if isOne v then Ok d else Ok (mkD (nr d) (nc d) (map (fun x => x * v) (dat d))).
(* AMatrix::multiplyRow / divideRow / multiplyColumn / divideColumn AMatrix.cpp:671-728 *)
Definition G_multiplyRow (sym : bool) (d : dense) (v : list Q) : res dense :=
  if negb (nr d =? length v)%nat then Ok d
  else Ok (loop_set sym (rowmajor (nr d) (nc d)) (fun i j old => old * nth i v 0) d).
Definition G_divideRow (sym : bool) (d : dense) (v : list Q) : res dense :=
  if negb (nr d =? length v)%nat then Ok d
  else Ok (loop_set sym (rowmajor (nr d) (nc d)) (fun i j old => old / nth i v 0) d).
Definition G_multiplyColumn (sym : bool) (d : dense) (v : list Q) : res dense :=
  if negb (nc d =? length v)%nat then Ok d
  else Ok (loop_set sym (rowmajor (nr d) (nc d)) (fun i j old => old * nth j v 0) d).
Definition G_divideColumn (sym : bool) (d : dense) (v : list Q) : res dense :=
  if negb (nc d =? length v)%nat then Ok d
  else Ok (loop_set sym (rowmajor (nr d) (nc d)) (fun i j old => old / nth j v 0) d).
(* AMatrix::addMatInPlace AMatrix.cpp:554 *)
Definition G_addMat (sym : bool) (d y : dense) (cx cy : Q) : res dense :=
  if negb (isSameSize d y) then Ok d
  else Ok (loop_set sym (rowmajor (nr d) (nc d)) (fun i j old => cx * old + cy * getv y i j) d).
(* AMatrix::linearCombination AMatrix.cpp:1390 — absent matrices are None *)
Definition lc_term (c : Q) (m : option dense) (i j : nat) : Q :=
  match m with Some a => c * getv a i j | None => 0 end.
Definition lc_ok (d : dense) (m : option dense) : bool :=
  match m with Some a => isSameSize d a | None => true end.
Definition G_linearCombination (sym : bool) (d : dense) (c1 : Q) (m1 : option dense) (c2 : Q) (m2 : option dense)
           (c3 : Q) (m3 : option dense) : res dense :=
  if negb (lc_ok d m1 && lc_ok d m2 && lc_ok d m3) then Ok d
  else Ok (loop_set sym (rowmajor (nr d) (nc d))
             (fun i j _ => 0 + lc_term c1 m1 i j + lc_term c2 m2 i j + lc_term c3 m3 i j) d).
(* element accesses of the loops below go through getValue/setValue of the dense classes, i.e. Eigen's operator(), which
   asserts the index range: a loop nest that reads or writes outside a matrix is an Eigen contract violation *)
Definition covers (d : dense) (m n : nat) : bool := (m <=? nr d)%nat && (n <=? nc d)%nat.
(* AMatrix::prodMatMatInPlace AMatrix.cpp:577 ; _checkLink is inactive (_flagCheckAddress = false).
   ni2 = rows of op(y), nm2 = columns of op(y) *)
Definition G_prodMatMat (sym : bool) (d x y : dense) (tx ty : bool) : res dense :=
  let ni1 := if tx then nc x else nr x in
  let nm1 := if tx then nr x else nc x in
  let ni2 := if ty then nc y else nr y in
  let nm2 := if ty then nr y else nc y in
  if negb (nm1 =? ni2)%nat then Ok d
  else if (0 <? ni1)%nat && (0 <? nm2)%nat && negb (covers d ni1 nm2) then UB ub_index
  else Ok (loop_set sym (rowmajor ni1 nm2)
             (fun i j _ => sumn nm1 (fun k => (if tx then getv x k i else getv x i k) *
                                              (if ty then getv y j k else getv y k j))) d).
(* the receiver itself passed as x and/or y (e.g. AMatrix::prodMatInPlace AMatrix.cpp:1382 = prodMatMatInPlace(this, matY,
   false, transposeY)): AMatrix.cpp:583 clones the receiver and runs the product on the copy, i.e. on the VALUES x, y *)
Definition G_prodMatMat_alias (sym : bool) (d x y : dense) (tx ty ax ay : bool) : res dense := G_prodMatMat sym d x y tx ty.
(* AMatrix::prodNormMatMatInPlace AMatrix.cpp:620 *)
Definition G_prodNormMatMat (sym : bool) (d a m : dense) (t : bool) : res dense :=
  let n1 := if t then nc a else nr a in
  let n2 := if t then nr a else nc a in
  if (0 <? n1)%nat && (negb (covers d n1 n1) || ((0 <? n2)%nat && negb (covers m n2 n2))) then UB ub_index else
  Ok (loop_set sym (rowmajor n1 n1)
        (fun i j _ => sumn n2 (fun k => sumn n2 (fun l =>
             (if t then getv a k i else getv a i k) * getv m k l * (if t then getv a l j else getv a j l)))) d).
(* AMatrix::prodNormMatVecInPlace AMatrix.cpp:647 *)
Definition G_prodNormMatVec (sym : bool) (d a : dense) (v : list Q) (t : bool) : res dense :=
  let n1 := if t then nc a else nr a in
  let n2 := if t then nr a else nc a in
  if (0 <? n1)%nat && negb (covers d n1 n1) then UB ub_index else
  Ok (loop_set sym (rowmajor n1 n1)
        (fun i j _ => sumn n2 (fun k =>
             (if t then getv a k i else getv a i k) * (match v with [] => 1 | _ => nth k v 0 end) *
             (if t then getv a k j else getv a j k))) d).
(* AMatrix::copyReduce AMatrix.cpp:1290 *)
Definition G_copyReduce (sym : bool) (d x : dense) (rows cols : list nat) : res dense :=
  if negb (length rows =? 0)%nat && negb (length cols =? 0)%nat &&
     (negb (covers d (length rows) (length cols)) ||
      negb (forallb (fun r => (r <? nr x)%nat) rows && forallb (fun c => (c <? nc x)%nat) cols)) then UB ub_index else
  Ok (fold_left (fun s p => setValue sym s (fst p) (snd p) (getv x (nth (fst p) rows O) (nth (snd p) cols O)))
        (rowmajor (length rows) (length cols)) d).
(* AMatrix::isSymmetric AMatrix.cpp:252 ; MatrixSquareSymmetric overrides it to "true" *)
Definition G_isSymmetric (sqclass sym : bool) (d : dense) : bool :=
  if sym then true
  else if isEmpty d || negb (isSquare sqclass d) then false
  else forallb (fun p => qleb (Qabs (getv d (fst p) (snd p) - getv d (snd p) (fst p))) (1 # 10000000000))
         (rowmajor (nr d) (nc d)).
(* AMatrix::getValues AMatrix.cpp:1011 *)
Definition G_getValues (d : dense) (byCol : bool) : list Q :=
  map (fun p => getv d (fst p) (snd p)) (if byCol then colmajor (nr d) (nc d) else rowmajor (nr d) (nc d)).

(* VectorHelper::sequence / complement VectorHelper.cpp:951,1934 *)
Fixpoint ins_nat (x : nat) (l : list nat) : list nat :=
  match l with [] => [x] | y :: r => if (x <=? y)%nat then x :: l else y :: ins_nat x r end.
Definition sort_nat (l : list nat) : list nat := fold_right ins_nat [] l.
Definition vh_complement (v sel : list nat) : list nat :=
  match v, sel with
  | [], _ => []
  | _, [] => v
  | _, _ =>
      let allv := sort_nat v in let off := sort_nat sel in
      filter (fun j => negb (fold_left (fun idx e => if (idx <? j)%nat then e else idx) off (hd O off) =? j)%nat) allv
  end.
Definition select_idx (total : nat) (keep : list nat) (inv : bool) : list nat :=
  let r := match keep with [] => seq 0 total | _ => keep end in
  if inv then vh_complement (seq 0 total) r else r.
(* MatrixRectangular::sample MatrixRectangular.cpp:167 (None = nullptr) *)
Definition R_sample (a : dense) (rk ck : list nat) (ir ic : bool) : option dense :=
  let rows := select_idx (nr a) rk ir in let cols := select_idx (nc a) ck ic in
  if (length rows =? 0)%nat || (length cols =? 0)%nat then None
  else if negb (forallb (fun r => (r <? nr a)%nat) rows) || negb (forallb (fun c => (c <? nc a)%nat) cols) then None
  else Some (fold_left (fun s p => setValue false s (fst p) (snd p) (getv a (nth (fst p) rows O) (nth (snd p) cols O)))
               (rowmajor (length rows) (length cols)) (tab (length rows) (length cols) mzero)).
(* MatrixRectangular::unsample MatrixRectangular.cpp:214 *)
Definition R_unsample (sym : bool) (d a : dense) (rf cf : list nat) (ir ic : bool) : dense :=
  let rows := select_idx (nr d) rf ir in let cols := select_idx (nc d) cf ic in
  if (length rows =? 0)%nat || (length cols =? 0)%nat then d
  else if negb (forallb (fun r => (r <? nr d)%nat) rows) || negb (forallb (fun c => (c <? nc d)%nat) cols) then d
  else fold_left (fun s p => setValue sym s (nth (fst p) rows O) (nth (snd p) cols O) (getv a (fst p) (snd p)))
         (rowmajor (length rows) (length cols)) d.

(* ================================================================== Eigen primitives as contract calls *)

Definition dimr (t : bool) (d : dense) : nat := if t then nc d else nr d.
Definition dimc (t : bool) (d : dense) : nat := if t then nr d else nc d.
(* op(A) * op(B)   (Product.h:96) *)
Definition e_mul (ta tb : bool) (a b : dense) : res dense :=
  if (dimc ta a =? dimr tb b)%nat
  then Ok (tab (dimr ta a) (dimc tb b) (mmul (dimc ta a) (opT ta (absd a)) (opT tb (absd b))))
  else UB ub_product.
(* Map<const VectorXd>(v.data(), n): reading n entries of a std::vector of [length v] entries *)
Definition e_map (v : list Q) (n : nat) : res (list Q) :=
  if (n <=? length v)%nat then Ok (firstn n v) else UB ub_map.
(* op(A) * x  for a mapped column vector x of n entries *)
Definition e_mulvec (ta : bool) (a : dense) (x : list Q) : res (list Q) :=
  if (dimc ta a =? length x)%nat
  then Ok (map (fun i => mvec (dimc ta a) (opT ta (absd a)) (vl x) i) (seq 0 (dimr ta a)))
  else UB ub_product.
(* x^T * op(A) *)
Definition e_vecmul (x : list Q) (ta : bool) (a : dense) : res (list Q) :=
  if (length x =? dimr ta a)%nat
  then Ok (map (fun j => vmat (dimr ta a) (vl x) (opT ta (absd a)) j) (seq 0 (dimc ta a)))
  else UB ub_product.
(* assignment of an expression of n entries to a Map of m entries (no resize possible) *)
Definition e_assign_map (m : nat) (x : list Q) : res (list Q) :=
  if (length x =? m)%nat then Ok x else UB ub_resize.
(* v.asDiagonal() * A   and   A * v.asDiagonal() *)
Definition e_diag_left (v : list Q) (a : dense) : res dense :=
  if (length v =? nr a)%nat then Ok (tab (nr a) (nc a) (mrowscale (vl v) (absd a))) else UB ub_product.
Definition e_diag_right (a : dense) (v : list Q) : res dense :=
  if (nc a =? length v)%nat then Ok (tab (nr a) (nc a) (mcolscale (vl v) (absd a))) else UB ub_product.
(* cx * A + cy * B (CwiseBinaryOp.h:116) *)
Definition e_lin2 (cx : Q) (a : dense) (cy : Q) (b : dense) : res dense :=
  if isSameSize a b then Ok (tab (nr a) (nc a) (mlin2 cx (absd a) cy (absd b))) else UB ub_cwise.
(* the result of an Eigen expression is assigned to _eigenMatrix (resized) while _nRows/_nCols are left alone *)
Definition e_store (d r : dense) : res dense := if isSameSize d r then Ok r else UB ub_desync.

(* ================================================================== AMatrixDense overrides *)
(* AMatrixDense::getRow AMatrixDense.cpp:415 *)
Definition D_getRow (d : dense) (i : nat) : res (list Q) :=
  if (nc d =? 0)%nat then Ok [] else if (i <? nr d)%nat then Ok (map (fun j => getv d i j) (seq 0 (nc d))) else UB ub_index.
(* AMatrixDense::getColumn AMatrixDense.cpp:426 *)
Definition D_getColumn (d : dense) (j : nat) : res (list Q) :=
  if (nr d =? 0)%nat then Ok [] else if (j <? nc d)%nat then Ok (map (fun i => getv d i j) (seq 0 (nr d))) else UB ub_index.
(* AMatrixDense::setColumn AMatrixDense.cpp:200 (flagCheck=false): _eigenMatrix.col(icol) = Map(tab, nrows) — no mirror *)
Definition D_setColumn (d : dense) (j : nat) (t : list Q) : res dense :=
  rbind (e_map t (nr d)) (fun tm =>
  if (j <? nc d)%nat then Ok (tab (nr d) (nc d) (msetcol j (vl tm) (absd d))) else UB ub_index).
(* AMatrixDense::setRow AMatrixDense.cpp:211 *)
Definition D_setRow (d : dense) (i : nat) (t : list Q) : res dense :=
  rbind (e_map t (nc d)) (fun tm =>
  if (i <? nr d)%nat then Ok (tab (nr d) (nc d) (msetrow i (vl tm) (absd d))) else UB ub_index).
(* AMatrixDense::setDiagonal AMatrixDense.cpp:222: setZero; diagonal() = Map(tab, nrows)  (diagonal has min(nr,nc) entries) *)
Definition D_setDiagonal (d : dense) (t : list Q) : res dense :=
  rbind (e_map t (nr d)) (fun tm =>
  if (nr d =? Nat.min (nr d) (nc d))%nat then Ok (tab (nr d) (nc d) (mdiag (vl tm))) else UB ub_resize).
(* AMatrixDense::_transposeInPlace AMatrixDense.cpp:143 *)
Definition D_transpose (d : dense) : res dense := Ok (tab (nc d) (nr d) (mT (absd d))).
(* AMatrixDense::addScalar / prodScalar AMatrixDense.cpp:239,249 *)
Definition D_addScalar (d : dense) (v : Q) : res dense := Ok (mkD (nr d) (nc d) (map (fun x => x + v) (dat d))).
Definition D_prodScalar (d : dense) (v : Q) : res dense := Ok (mkD (nr d) (nc d) (map (fun x => x * v) (dat d))).
(* AMatrixDense::multiplyRow AMatrixDense.cpp:359: Map(vec, getNRows()).asDiagonal() * _eigenMatrix *)
Definition D_multiplyRow (d : dense) (v : list Q) : res dense :=
  rbind (e_map v (nr d)) (fun vm => e_diag_left vm d).
(* AMatrixDense::multiplyColumn AMatrixDense.cpp:366: _eigenMatrix * Map(vec, getNCols()).asDiagonal() *)
Definition D_multiplyColumn (d : dense) (v : list Q) : res dense :=
  rbind (e_map v (nc d)) (fun vm => e_diag_right d vm).
(* VectorHelper::inverse VectorHelper.cpp:1727 (1/0 = inf in binary64: excluded by the generators, 0 here) *)
Definition vh_inverse (v : list Q) : list Q := map (fun x => 1 / x) v.
(* AMatrixDense::divideRow / divideColumn AMatrixDense.cpp:373,381 *)
Definition D_divideRow (d : dense) (v : list Q) : res dense :=
  rbind (e_map (vh_inverse v) (nr d)) (fun vm => e_diag_left vm d).
Definition D_divideColumn (d : dense) (v : list Q) : res dense :=
  rbind (e_map (vh_inverse v) (nc d)) (fun vm => e_diag_right d vm).
(* AMatrixDense::addMatInPlace AMatrixDense.cpp:254 *)
Definition D_addMat (d y : dense) (cx cy : Q) : res dense := e_lin2 cx d cy y.
(* AMatrix::prodMatVecInPlace(VectorDouble) AMatrix.cpp:441 -> AMatrixDense::_addProdMatVecInPlaceToDestPtr AMatrixDense.cpp:152
   xm = Map(x, transpose ? nrows : ncols), ym = Map(y, transpose ? ncols : nrows), ym += op(M) * xm *)
Definition D_prodMatVecInPlace (d : dense) (x y : list Q) (t : bool) : res (list Q) :=
  rbind (e_map x (dimc t d)) (fun xm =>
  rbind (e_map (map (fun _ => 0) y) (dimr t d)) (fun ym =>
  rbind (e_mulvec t d xm) (fun r =>
  rbind (e_assign_map (length ym) r) (fun r' =>
  Ok (map (fun p => fst p + snd p) (combine ym r') ++ skipn (dimr t d) (map (fun _ => 0) y)))))).
(* AMatrix::prodVecMatInPlace AMatrix.cpp:506 -> AMatrixDense::_prodVecMatInPlacePtr AMatrixDense.cpp:174
   xm = Map(x, transpose ? ncols : nrows), ym = Map(y, transpose ? nrows : ncols), ym = xm^T * op(M) *)
Definition D_prodVecMatInPlace (d : dense) (x y : list Q) (t : bool) : res (list Q) :=
  rbind (e_map x (dimr t d)) (fun xm =>
  rbind (e_map y (dimc t d)) (fun ym =>
  rbind (e_vecmul xm t d) (fun r =>
  rbind (e_assign_map (length ym) r) (fun r' => Ok (r' ++ skipn (dimc t d) y))))).
(* AMatrixDense::prodMatVec AMatrixDense.cpp:402 *)
Definition D_prodMatVec (d : dense) (x : list Q) (t : bool) : res (list Q) :=
  rbind (e_mulvec t d x) (fun r => e_assign_map (if t then nc d else nr d) r).
(* AMatrixDense::prodVecMat AMatrixDense.cpp:389 *)
Definition D_prodVecMat (d : dense) (x : list Q) (t : bool) : res (list Q) :=
  rbind (e_vecmul x t d) (fun r => e_assign_map (if t then nr d else nc d) r).
(* AMatrixDense::prodMatMatInPlace AMatrixDense.cpp:259 (both operands dense) *)
Definition D_prodMatMat (d x y : dense) (tx ty : bool) : res dense :=
  rbind (e_mul tx ty x y) (e_store d).
(* the same call with the receiver passed as an operand: AMatrixDense.cpp:267 copies both operands and assigns their
   product without noalias(): same contract and same result as with distinct objects *)
Definition D_prodMatMat_alias (d x y : dense) (tx ty ax ay : bool) : res dense := D_prodMatMat d x y tx ty.
(* AMatrix::prodMatInPlace AMatrix.cpp:1374 on a dense receiver with a dense operand *)
Definition D_prodMatInPlace (d y : dense) (ty : bool) : res dense := D_prodMatMat_alias d d y false ty true false.
(* AMatrixDense::prodNormMatMatInPlace AMatrixDense.cpp:308 *)
Definition D_prodNormMatMat (d a m : dense) (t : bool) : res dense :=
  rbind (e_mul t false a m) (fun am => rbind (e_mul false (negb t) am a) (e_store d)).
(* op(A) * v.asDiagonal() *)
Definition e_mul_diag (ta : bool) (a : dense) (v : list Q) : res dense :=
  if (dimc ta a =? length v)%nat
  then Ok (tab (dimr ta a) (dimc ta a) (mcolscale (vl v) (opT ta (absd a)))) else UB ub_product.
(* AMatrixDense::prodNormMatVecInPlace AMatrixDense.cpp:329: op(a) * vecm.asDiagonal() * op'(a) *)
Definition D_prodNormMatVec (d a : dense) (v : list Q) (t : bool) : res dense :=
  match v with
  | [] => rbind (e_mul t (negb t) a a) (e_store d)
  | _ => rbind (e_mul_diag t a v) (fun av => rbind (e_mul false (negb t) av a) (e_store d))
  end.

(* C12 proofs, part 15: variogram map on a grid — the map is symmetric; list-sum tools for the grid theorems. *)
From Coq Require Import List ZArith QArith Qabs Qround Qminmax Bool Lqa Lia Permutation Sorted.
From Gst Require Import lib.QAux C12.Model C12.ModelExt C12.Spec C12.Proofs_enum C12.Proofs_lag C12.Proofs_acc C12.Proofs_geom C12.Proofs_vg C12.Proofs_main
  C12.Proofs_bysample C12.Proofs_sym C12.Proofs_ext.
Import ListNotations.
Local Open Scope Q_scope.

(* ---------------------------------------------------------------- double sums *)
Lemma sumQ_plus {A} (f g : A -> Q) l : sumQ (map (fun x => f x + g x) l) == sumQ (map f l) + sumQ (map g l).
Proof. induction l as [|x t IH]; [reflexivity|]. cbn [map]. rewrite !sumQ_cons, IH. ring. Qed.
Lemma sumQ_swap {A B} (f : A -> B -> Q) l1 l2 :
  sumQ (map (fun a => sumQ (map (fun b => f a b) l2)) l1) == sumQ (map (fun b => sumQ (map (fun a => f a b) l1)) l2).
Proof.
  induction l1 as [|a r IH].
  - cbn [map]. symmetry. apply sumQ_zero. intros; reflexivity.
  - cbn [map]. rewrite sumQ_cons, IH.
    rewrite <- sumQ_plus. apply sumQ_map_ext. intros b _. rewrite sumQ_cons. reflexivity.
Qed.
Lemma fsum_flat_map2 {A B} ufld k (f : A -> B -> list upd) l1 l2 :
  fsum ufld k (flat_map (fun a => flat_map (fun b => f a b) l2) l1) == sumQ (map (fun a => sumQ (map (fun b => fsum ufld k (f a b)) l2)) l1).
Proof. rewrite fsum_flat_map. apply sumQ_map_ext. intros a _. apply fsum_flat_map. Qed.

(* ---------------------------------------------------------------- index vectors *)
Definition vsubZ (a b : list Z) : list Z := vaddZ a (map Z.opp b).
Lemma vaddZ_cancel u v h : length u = length h -> length v = length h -> vaddZ u h = vaddZ v h -> u = v.
Proof.
  revert u v. induction h as [|x h IH]; intros u v Lu Lv E; destruct u as [|a u]; destruct v as [|b v]; cbn in *; try discriminate; try reflexivity.
  inversion E. f_equal; [lia|]. apply IH; congruence.
Qed.
Lemma vsubZ_opp a b : length a = length b -> map Z.opp (vsubZ a b) = vsubZ b a.
Proof.
  unfold vsubZ. revert b. induction a as [|x a IH]; intros b L; destruct b as [|y b]; cbn in *; try discriminate; try reflexivity.
  f_equal; [lia|]. apply IH. congruence.
Qed.
Lemma vsubZ_length a b : length a = length b -> length (vsubZ a b) = length a.
Proof.
  unfold vsubZ. revert b. induction a as [|x a IH]; intros b L; destruct b as [|y b]; cbn in *; try discriminate; try reflexivity.
  f_equal. apply IH. congruence.
Qed.
Lemma map_opp_inj u v : map Z.opp u = map Z.opp v -> u = v.
Proof. revert v. induction u as [|a u IH]; intros v E; destruct v as [|b v]; cbn in *; try discriminate; try reflexivity. inversion E. f_equal; [lia|]. apply IH; assumption. Qed.
Lemma map_opp_length u : length (map Z.opp u) = length u.
Proof. apply map_length. Qed.

(* ---------------------------------------------------------------- symmetric estimators: one pair, any cell rank *)
Lemma evaluate_plain cf n means pc a b :
  plain_sym (c_calc cf) ->
  evaluate cf n means pc a b = flat_map (eval_sym n pc a b (p_w1 pc * p_w2 pc) (phi_of (c_calc cf)) (fun _ => 0)) (seq 0 (c_nvar cf)).
Proof. intros [E|[E|[E|E]]]; unfold evaluate; rewrite E; reflexivity. Qed.

Section MapSym.
Variable cf : cfg.
Hypothesis Hcalc : plain_sym (c_calc cf).
Variable ufld : upd -> Q.
Hypothesis ufld_ext : forall u u', u_sw u == u_sw u' -> u_hlo u == u_hlo u' -> u_hhi u == u_hhi u' ->
                                   u_glo u == u_glo u' -> u_ghi u == u_ghi u' -> ufld u == ufld u'.

(* what the pair (a, b) stored in cell c adds to the cell t of the variable pair (iv, jv) *)
Definition map_term (ncell c t iv jv : nat) (a b : sample) : Q :=
  if Nat.eqb c t then match defined2 a b iv jv with
                      | Some z => ufld (sym_upd ncell (map_pc cf t a b) (get_weight cf a * get_weight cf b) (phi_of (c_calc cf)) (fun _ => 0) iv jv z)
                      | None => 0 end
  else 0.
Lemma map_pair_fsum ncell c t iv jv a b :
  (c < ncell)%nat -> (t < ncell)%nat -> (jv <= iv)%nat -> (iv < c_nvar cf)%nat ->
  fsum ufld (dir_address false ncell iv jv t Ozero) (evaluate cf ncell [] (map_pc cf c a b) a b) == map_term ncell c t iv jv a b.
Proof.
  intros Hc Ht Hj Hi. rewrite (evaluate_plain cf ncell [] _ a b Hcalc). unfold map_term.
  destruct (Nat.eqb_spec c t) as [->|Hne].
  - pose proof (fsum_eval_sym_at ufld ncell (map_pc cf t a b) a b (get_weight cf a * get_weight cf b) (phi_of (c_calc cf)) (fun _ => 0) Ht iv jv (c_nvar cf) Hj Hi) as F.
    exact F.
  - apply fsum_eval_sym_other; cbn [map_pc p_ipas]; auto.
Qed.
(* the term does not depend on the order of the two samples, nor on the cell it is stored in *)
Lemma map_term_swap ncell t t' iv jv a b :
  map_term ncell t t iv jv a b == map_term ncell t' t' iv jv b a.
Proof.
  unfold map_term. rewrite !Nat.eqb_refl. rewrite (defined2_swap a b iv jv).
  destruct (defined2 a b iv jv) as [[[[z11 z12] z21] z22]|]; [|reflexivity].
  destruct (phi_of_sym (c_calc cf) (z12 - z11) (z22 - z21) (z11 - z12) (z21 - z22) Hcalc) as [Pf Ps]; [ring|ring|].
  apply ufld_ext; cbn [sym_upd mk_upd u_sw u_hlo u_hhi u_glo u_ghi map_pc p_dlo p_dhi]; try ring.
  - rewrite Pf. ring.
  - rewrite Ps. ring.
Qed.
End MapSym.

(* ---------------------------------------------------------------- the variogram map of a grid is symmetric *)
Section VmapGrid.
Variables (cf : cfg) (nx : list nat) (cells : list sample) (nxx : list nat).
Hypothesis Hcalc : plain_sym (c_calc cf).
Hypothesis Hdim : length nx = length nxx.
Let ncell := grid_size (map_nx nxx).
Let nodes := combine (seq 0 (length cells)) cells.
Let h := half_sizes nxx.

Definition vmap_pair (ra rb : nat * sample) : list upd :=
  if is_active cf (snd ra) && is_active cf (snd rb)
  then match vmap_grid_cell nxx (rank_to_index nx (fst ra)) (rank_to_index nx (fst rb)) with
       | Some c => evaluate cf ncell [] (map_pc cf c (snd ra) (snd rb)) (snd ra) (snd rb)
       | None => [] end
  else [].
Lemma vmap_updates_pairs : vmap_grid_updates cf nx cells nxx = flat_map (fun ra => flat_map (fun rb => vmap_pair ra rb) nodes) nodes.
Proof.
  unfold vmap_grid_updates. fold ncell. fold nodes. apply flat_map_ext_eq. intro ra. unfold vmap_pair.
  destruct (is_active cf (snd ra)); cbn [andb].
  - apply flat_map_ext_eq. intro rb. destruct (is_active cf (snd rb)); reflexivity.
  - symmetry. apply flat_map_nil. intros; reflexivity.
Qed.

Lemma half_length : length h = length nxx.
Proof. unfold h, half_sizes. apply map_length. Qed.
Lemma mapnx_length : length (map_nx nxx) = length nxx.
Proof. unfold map_nx. apply map_length. Qed.

(* the cell of (a, b) is the cell of the index difference delta iff the difference is delta *)
Lemma vmap_cell_iff ia ib delta t :
  length ia = length nxx -> length ib = length nxx -> length delta = length nxx ->
  index_to_rank (map_nx nxx) (vaddZ delta h) = Some t ->
  (vmap_grid_cell nxx ia ib = Some t <-> vsubZ ia ib = delta).
Proof.
  intros La Lb Ld Ht. unfold vmap_grid_cell. fold h. fold (vsubZ ia ib). split.
  - intro E. pose proof (index_to_rank_inj _ _ _ _ E Ht) as Hv.
    apply (vaddZ_cancel _ _ h); [rewrite vsubZ_length; rewrite ?half_length; congruence|rewrite half_length; exact Ld|exact Hv].
  - intros <-. exact Ht.
Qed.

Variable ufld : upd -> Q.
Hypothesis ufld_ext : forall u u', u_sw u == u_sw u' -> u_hlo u == u_hlo u' -> u_hhi u == u_hhi u' ->
                                   u_glo u == u_glo u' -> u_ghi u == u_ghi u' -> ufld u == ufld u'.

Lemma vmap_grid_symmetric delta t t' iv jv :
  length delta = length nxx ->
  index_to_rank (map_nx nxx) (vaddZ delta h) = Some t ->
  index_to_rank (map_nx nxx) (vaddZ (map Z.opp delta) h) = Some t' ->
  (jv <= iv)%nat -> (iv < c_nvar cf)%nat ->
  fsum ufld (dir_address false ncell iv jv t Ozero) (vmap_grid_updates cf nx cells nxx) ==
  fsum ufld (dir_address false ncell iv jv t' Ozero) (vmap_grid_updates cf nx cells nxx).
Proof.
  intros Ld Ht Ht' Hj Hi.
  pose proof (index_to_rank_bound _ _ _ Ht) as Bt. pose proof (index_to_rank_bound _ _ _ Ht') as Bt'. fold ncell in Bt, Bt'.
  rewrite vmap_updates_pairs, !fsum_flat_map2.
  rewrite (sumQ_swap (fun ra rb => fsum ufld (dir_address false ncell iv jv t' Ozero) (vmap_pair ra rb)) nodes nodes).
  apply sumQ_map_ext. intros ra _. apply sumQ_map_ext. intros rb _.
  unfold vmap_pair. rewrite (andb_comm (is_active cf (snd rb)) (is_active cf (snd ra))).
  destruct (is_active cf (snd ra) && is_active cf (snd rb)); [|reflexivity].
  set (ia := rank_to_index nx (fst ra)). set (ib := rank_to_index nx (fst rb)).
  assert (La : length ia = length nxx) by (unfold ia; rewrite rank_to_index_length; exact Hdim).
  assert (Lb : length ib = length nxx) by (unfold ib; rewrite rank_to_index_length; exact Hdim).
  pose proof (vmap_cell_iff ia ib delta t La Lb Ld Ht) as I1.
  assert (Ld' : length (map Z.opp delta) = length nxx) by (rewrite map_opp_length; exact Ld).
  pose proof (vmap_cell_iff ib ia (map Z.opp delta) t' Lb La Ld' Ht') as I2.
  assert (Iff : vmap_grid_cell nxx ia ib = Some t <-> vmap_grid_cell nxx ib ia = Some t').
  { rewrite I1, I2. split; intro E.
    - rewrite <- E. symmetry. apply vsubZ_opp. congruence.
    - apply map_opp_inj. rewrite <- E. apply vsubZ_opp. congruence. }
  destruct (vmap_grid_cell nxx ia ib) as [c|] eqn:Ec; destruct (vmap_grid_cell nxx ib ia) as [c'|] eqn:Ec'.
  - pose proof (index_to_rank_bound _ _ _ Ec) as Bc. pose proof (index_to_rank_bound _ _ _ Ec') as Bc'. fold ncell in Bc, Bc'.
    rewrite (map_pair_fsum cf Hcalc ufld ncell c t iv jv _ _ Bc Bt Hj Hi), (map_pair_fsum cf Hcalc ufld ncell c' t' iv jv _ _ Bc' Bt' Hj Hi).
    destruct (Nat.eq_dec c t) as [->|Hne].
    + assert (E' : c' = t') by (destruct Iff as [I _]; specialize (I eq_refl); congruence). subst c'.
      apply (map_term_swap cf Hcalc ufld ufld_ext).
    + assert (Hne' : c' <> t') by (intro E'; subst c'; destruct Iff as [_ I]; specialize (I eq_refl); congruence).
      unfold map_term. rewrite (proj2 (Nat.eqb_neq c t) Hne), (proj2 (Nat.eqb_neq c' t') Hne'). reflexivity.
  - pose proof (index_to_rank_bound _ _ _ Ec) as Bc. fold ncell in Bc.
    rewrite (map_pair_fsum cf Hcalc ufld ncell c t iv jv _ _ Bc Bt Hj Hi).
    assert (Hne : c <> t) by (intro E'; subst c; destruct Iff as [I _]; specialize (I eq_refl); discriminate).
    unfold map_term. rewrite (proj2 (Nat.eqb_neq c t) Hne). reflexivity.
  - pose proof (index_to_rank_bound _ _ _ Ec') as Bc'. fold ncell in Bc'.
    rewrite (map_pair_fsum cf Hcalc ufld ncell c' t' iv jv _ _ Bc' Bt' Hj Hi).
    assert (Hne : c' <> t') by (intro E'; subst c'; destruct Iff as [_ I]; specialize (I eq_refl); discriminate).
    unfold map_term. rewrite (proj2 (Nat.eqb_neq c' t') Hne). reflexivity.
  - reflexivity.
Qed.
End VmapGrid.

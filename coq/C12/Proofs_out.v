(* C12 proofs, part 7: from the raw accumulators to the reported vectors (Vario::_rescale, block layout). *)
From Coq Require Import List ZArith QArith Qabs Qround Qminmax Bool Lqa Lia Permutation.
From Gst Require Import lib.QAux C12.Model C12.Spec C12.Proofs_enum C12.Proofs_lag C12.Proofs_acc C12.Proofs_geom C12.Proofs_vg C12.Proofs_main.
Import ListNotations.
Local Open Scope Q_scope.

Lemma nth_error_mapi_aux {A B} (f : nat -> A -> B) i l j :
  nth_error (mapi_aux f i l) j = option_map (f (i + j)%nat) (nth_error l j).
Proof.
  revert i j. induction l as [|x r IH]; intros i j; destruct j as [|j]; cbn; try reflexivity.
  - rewrite Nat.add_0_r. reflexivity.
  - rewrite IH. replace (S i + j)%nat with (i + S j)%nat by lia. reflexivity.
Qed.
Lemma nth_error_mapi {A B} (f : nat -> A -> B) l j : nth_error (mapi f l) j = option_map (f j) (nth_error l j).
Proof. unfold mapi. rewrite nth_error_mapi_aux. reflexivity. Qed.
Lemma nth_error_firstn_lt {A} n (l : list A) k : (k < n)%nat -> nth_error (firstn n l) k = nth_error l k.
Proof.
  revert l k. induction n as [|n IH]; intros l k Hk; [lia|].
  destruct l as [|x r]; [destruct k; reflexivity|]. destruct k as [|k]; [reflexivity|]. cbn. apply IH. lia.
Qed.
Lemma nth_error_skipn_add {A} m (l : list A) k : nth_error (skipn m l) k = nth_error l (m + k).
Proof.
  revert l. induction m as [|m IH]; intro l; [reflexivity|].
  destruct l as [|x r]; [destruct k; reflexivity|]. cbn. apply IH.
Qed.
Lemma nth_error_block {A} nt rank (l : list A) k :
  (k < nt)%nat -> nth_error (block nt rank l) k = nth_error l (rank * nt + k).
Proof. intro Hk. unfold block. rewrite nth_error_firstn_lt by exact Hk. apply nth_error_skipn_add. Qed.
Lemma nth_error_nth_default {A} (l : list A) k d : (k < length l)%nat -> nth_error l k = Some (nth k l d).
Proof. intro H. apply nth_error_nth'. exact H. Qed.

(* layout of the result of solution 1 for the symmetric estimators *)
Lemma solution1_sym_blocks cf d l :
  is_asym (c_calc cf) = false ->
  solution1 cf d l =
  map (fun p : nat * nat => block (d_npas d) (var_rank (fst p) (snd p)) (rescale cf (d_npas d) (accumulate1 cf d l)))
      (var_pairs (c_nvar cf)).
Proof.
  intro H. unfold solution1, finish. rewrite H. cbn [nlagtot]. apply map_ext. intros [iv jv]. reflexivity.
Qed.

Lemma accumulate1_length cf d l : length (accumulate1 cf d l) = dir_size (is_asym (c_calc cf)) (d_npas d) (c_nvar cf).
Proof. unfold accumulate1. rewrite apply_upds_length. unfold zero_arr. apply repeat_length. Qed.

Section VgOut.
Variables (cf : cfg) (d : dirp).
Hypothesis Hcalc : c_calc cf = Vg.
Hypothesis Hloop : c_dateLoop cf = false.
Hypothesis Hchk : c_dateChk cf = false.
Hypothesis Hdp : 0 < d_dpas d.
Hypothesis Htol : 0 <= d_tol d.
Hypothesis Hps0 : 0 <= d_psmin d.
Hypothesis Hcodir : 0 < Qred (dot (d_codir d) (d_codir d)).

(* what getSwVec / getGgVec report for the variogram: the weight of the pairs of the lag and the defining average *)
Lemma solution1_vg_reports n l iv jv k :
  Forall (same_dim n) l ->
  (jv <= iv)%nat -> (iv < c_nvar cf)%nat -> (k < d_npas d)%nat ->
  exists oc,
    nth_error (block (d_npas d) (var_rank iv jv) (rescale cf (d_npas d) (accumulate1 cf d l))) k = Some oc /\
    o_sw oc == vg_sw cf d iv jv k l /\
    (vg_sw cf d iv jv k l <= 0 -> o_gg oc = None /\ o_hh oc = None) /\
    (0 < vg_sw cf d iv jv k l ->
       exists g, o_gg oc = Some (g, g) /\ g == vg_num cf d iv jv k l / vg_sw cf d iv jv k l).
Proof.
  intros Hdim Hj Hi Hk.
  pose proof (accumulate1_vg cf d Hcalc Hchk Hdp Htol Hps0 Hcodir n l iv jv k Hloop Hdim Hj Hi Hk) as A.
  cbv zeta in A.
  set (adr := dir_address false (d_npas d) iv jv k Ozero) in *.
  assert (Hadr : (adr < length (accumulate1 cf d l))%nat).
  { rewrite accumulate1_length, Hcalc. cbn [is_asym]. apply sym_address_bound; assumption. }
  assert (Eadr : (var_rank iv jv * d_npas d + k = adr)%nat) by (unfold adr, dir_address, nlagtot; lia).
  set (c := nth adr (accumulate1 cf d l) cell0) in *.
  exists (rescale_cell cf (d_npas d) k c).
  split.
  - rewrite nth_error_block by exact Hk. rewrite Eadr.
    unfold rescale. rewrite nth_error_mapi. rewrite (nth_error_nth_default _ adr cell0 Hadr). fold c.
    cbn [option_map]. rewrite Hcalc. cbn [is_asym nlagtot].
    f_equal. f_equal. rewrite <- Eadr. rewrite Nat.add_comm, Nat.mod_add by lia. apply Nat.mod_small. exact Hk.
  - destruct A as (A1 & A2 & A3).
    unfold rescale_cell.
    destruct (qleb_spec (a_sw c) 0) as [Hz|Hz]; cbn [o_sw o_gg o_hh].
    + split; [exact A1|]. split; [intros _; split; reflexivity|]. intro Hp. exfalso. lra.
    + split; [exact A1|]. split; [intro Hn; exfalso; lra|]. intros _.
      rewrite Hcalc. unfold iv_div. cbn [fst snd].
      assert (E : Qred (a_glo c / a_sw c) = Qred (a_ghi c / a_sw c)) by (apply Qred_complete; rewrite A2, A3; reflexivity).
      rewrite <- E. exists (Qred (a_glo c / a_sw c)). split; [reflexivity|].
      rewrite Qred_correct, A1, A2. reflexivity.
Qed.
End VgOut.

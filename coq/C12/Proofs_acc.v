(* C12 proofs, part 3: the array of accumulators after a sequence of _setResult calls holds, cell by cell,
   the sums of the increments addressed to that cell. *)
From Coq Require Import List ZArith QArith Qabs Qround Qminmax Bool Lqa Lia Permutation.
From Gst Require Import lib.QAux C12.Model C12.Spec.
Import ListNotations.
Local Open Scope Q_scope.

Lemma qadd_eq a b : qadd a b == a + b.
Proof. unfold qadd. apply Qred_correct. Qed.

Lemma sumQ_cons x l : sumQ (x :: l) = x + sumQ l.
Proof. reflexivity. Qed.
Lemma sumQ_app l l' : sumQ (l ++ l') == sumQ l + sumQ l'.
Proof.
  induction l as [|x r IH].
  - change (sumQ l' == 0 + sumQ l'). ring.
  - change (x + sumQ (r ++ l') == x + sumQ r + sumQ l'). rewrite IH. ring.
Qed.

Lemma upd_nth_length {A} n (f : A -> A) l : length (upd_nth n f l) = length l.
Proof. revert n. induction l as [|x r IH]; intro n; cbn; [reflexivity|]. destruct n; cbn; [reflexivity|]. rewrite IH. reflexivity. Qed.

Lemma nth_upd_nth {A} n (f : A -> A) l k dflt :
  (k < length l)%nat -> nth k (upd_nth n f l) dflt = if Nat.eqb n k then f (nth k l dflt) else nth k l dflt.
Proof.
  revert n k. induction l as [|x r IH]; intros n k Hk; cbn in Hk; [lia|].
  destruct n as [|n]; destruct k as [|k]; cbn; try reflexivity.
  apply IH. lia.
Qed.

Lemma apply_upds_length arr us : length (apply_upds arr us) = length arr.
Proof.
  revert arr. induction us as [|u r IH]; intro arr; cbn; [reflexivity|].
  unfold apply_upds in IH. rewrite IH. unfold apply_upd. apply upd_nth_length.
Qed.

Section Field.
Variable fld : cell -> Q.
Variable ufld : upd -> Q.
Hypothesis fld_add : forall c u, fld (cell_add c u) == fld c + ufld u.

Lemma apply_upds_field arr us k :
  (k < length arr)%nat ->
  fld (nth k (apply_upds arr us) cell0) == fld (nth k arr cell0) + sumQ (map ufld (at_addr k us)).
Proof.
  revert arr. induction us as [|u r IH]; intros arr Hk.
  - cbn. ring.
  - change (apply_upds arr (u :: r)) with (apply_upds (apply_upd arr u) r).
    rewrite IH by (unfold apply_upd; rewrite upd_nth_length; exact Hk).
    unfold apply_upd. rewrite nth_upd_nth by exact Hk.
    unfold at_addr. cbn [filter].
    destruct (Nat.eqb (u_addr u) k); cbn [map sumQ fold_right].
    + rewrite fld_add. fold (sumQ (map ufld (filter (fun u0 : upd => Nat.eqb (u_addr u0) k) r))). ring.
    + ring.
Qed.
End Field.

Lemma nth_repeat_cell0 n k : nth k (repeat cell0 n) cell0 = cell0.
Proof. revert k. induction n as [|n IH]; intro k; destruct k; cbn; auto. Qed.

(* the accumulated array, started from zeros, is the array of per-cell sums *)
Lemma apply_upds_sums n us k :
  (k < n)%nat -> cell_eq (nth k (apply_upds (repeat cell0 n) us) cell0) (spec_cell us k).
Proof.
  intro Hk.
  assert (Hl : (k < length (repeat cell0 n))%nat) by (rewrite repeat_length; exact Hk).
  unfold cell_eq, spec_cell, sum_sw, sum_hlo, sum_hhi, sum_glo, sum_ghi. cbn [a_sw a_hlo a_hhi a_glo a_ghi].
  repeat split.
  - rewrite (apply_upds_field a_sw u_sw) by (try exact Hl; intros; cbn; apply qadd_eq). rewrite nth_repeat_cell0. cbn. ring.
  - rewrite (apply_upds_field a_hlo u_hlo) by (try exact Hl; intros; cbn; apply qadd_eq). rewrite nth_repeat_cell0. cbn. ring.
  - rewrite (apply_upds_field a_hhi u_hhi) by (try exact Hl; intros; cbn; apply qadd_eq). rewrite nth_repeat_cell0. cbn. ring.
  - rewrite (apply_upds_field a_glo u_glo) by (try exact Hl; intros; cbn; apply qadd_eq). rewrite nth_repeat_cell0. cbn. ring.
  - rewrite (apply_upds_field a_ghi u_ghi) by (try exact Hl; intros; cbn; apply qadd_eq). rewrite nth_repeat_cell0. cbn. ring.
Qed.

(* sums over a concatenation / flat_map of update lists *)
Lemma at_addr_app k us us' : at_addr k (us ++ us') = at_addr k us ++ at_addr k us'.
Proof. unfold at_addr. apply filter_app. Qed.

Section FieldSum.
Variable ufld : upd -> Q.
Definition fsum (k : nat) (us : list upd) : Q := sumQ (map ufld (at_addr k us)).
Lemma fsum_app k us us' : fsum k (us ++ us') == fsum k us + fsum k us'.
Proof. unfold fsum. rewrite at_addr_app, map_app, sumQ_app. reflexivity. Qed.
Lemma fsum_flat_map {A} k (f : A -> list upd) (l : list A) :
  fsum k (flat_map f l) == sumQ (map (fun x => fsum k (f x)) l).
Proof.
  induction l as [|x r IH]; cbn [flat_map map sumQ fold_right]; [reflexivity|].
  rewrite fsum_app, IH. reflexivity.
Qed.
End FieldSum.

(* sums over all unordered pairs of a symmetric function do not depend on the order of the list *)
Lemma sumQ_map_ext {A} (f g : A -> Q) l : (forall x, In x l -> f x == g x) -> sumQ (map f l) == sumQ (map g l).
Proof.
  induction l as [|x r IH]; intro H; cbn; [reflexivity|].
  rewrite H by (left; reflexivity). rewrite IH by (intros; apply H; right; assumption). reflexivity.
Qed.
Lemma sumQ_perm l l' : Permutation l l' -> sumQ l == sumQ l'.
Proof.
  intro Hp. induction Hp as [|x l l' Hp IH|x y l|l l' l'' Hp1 IH1 Hp2 IH2].
  - reflexivity.
  - change (x + sumQ l == x + sumQ l'). rewrite IH. reflexivity.
  - change (y + (x + sumQ l) == x + (y + sumQ l)). ring.
  - rewrite IH1. exact IH2.
Qed.

Definition pair_sum {A} (f : A -> A -> Q) (l : list A) : Q := sumQ (map (fun p => f (fst p) (snd p)) (all_pairs l)).

Lemma pair_sum_cons {A} (f : A -> A -> Q) a l :
  pair_sum f (a :: l) == sumQ (map (f a) l) + pair_sum f l.
Proof.
  unfold pair_sum. cbn [all_pairs]. rewrite map_app, sumQ_app, map_map. cbn [fst snd]. reflexivity.
Qed.

Lemma pair_sum_perm {A} (f : A -> A -> Q) l l' :
  (forall a b, f a b == f b a) -> Permutation l l' -> pair_sum f l == pair_sum f l'.
Proof.
  intros Hsym Hp.
  induction Hp as [|x l l' Hp IH|x y l|l l' l'' Hp1 IH1 Hp2 IH2].
  - reflexivity.
  - rewrite !pair_sum_cons, IH.
    rewrite (sumQ_perm (map (f x) l) (map (f x) l')) by (apply Permutation_map; exact Hp). reflexivity.
  - rewrite !pair_sum_cons. cbn [map]. rewrite !sumQ_cons. rewrite (Hsym y x). ring.
  - rewrite IH1. exact IH2.
Qed.

(* restriction to the samples passing a test commutes with the enumeration of pairs *)
Lemma all_pairs_filter {A} (t : A -> bool) (l : list A) :
  all_pairs (filter t l) = filter (fun p => t (fst p) && t (snd p)) (all_pairs l).
Proof.
  induction l as [|a r IH]; [reflexivity|].
  cbn [filter all_pairs]. rewrite filter_app.
  destruct (t a) eqn:E.
  - cbn [all_pairs]. rewrite IH. f_equal.
    clear IH. induction r as [|b r' IHr]; cbn; [reflexivity|].
    rewrite E. cbn. destruct (t b); cbn; rewrite IHr; reflexivity.
  - rewrite IH.
    assert (H0 : filter (fun p : A * A => t (fst p) && t (snd p)) (map (pair a) r) = []).
    { clear IH. induction r as [|b r' IHr]; cbn; [reflexivity|]. rewrite E. cbn. exact IHr. }
    rewrite H0. reflexivity.
Qed.
